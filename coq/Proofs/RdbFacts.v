(** Lemmas about the RDB model (Model/Rdb.v): wire integers, length encoding,
    strings, per-type payload round-trips, the whole-dataset round-trip. *)
From Ferrous Require Import Base.Bytes Model.Resp Model.Types Model.Strings Model.Rdb.
From Ferrous Require Import Proofs.BytesFacts.
From Ferrous Require Generated.
Open Scope Z_scope.

(** ---- the reader monad ---- *)
Lemma bind_ok {A B} (m : rd -> rres A) (f : A -> rd -> rres B) s a s' :
  m s = (Some a, s') -> bind m f s = f a s'.
Proof. intros H. unfold bind. rewrite H. reflexivity. Qed.
Lemma bind_err {A B} (m : rd -> rres A) (f : A -> rd -> rres B) s s' :
  m s = (None, s') -> bind m f s = (None, s').
Proof. intros H. unfold bind. rewrite H. reflexivity. Qed.

Definition mkrd (b : bytes) (v : Z) : rd := {| r_in := b; r_resv := v |}.

Lemma frev_rev {A} (l : list A) : frev l = rev l.
Proof. unfold frev. rewrite rev_append_rev. apply app_nil_r. Qed.

(** ---- little endian ---- *)
Lemma le_val_le_bytes k : forall x, 0 <= x -> le_val (le_bytes k x) = x mod 256 ^ Z.of_nat k.
Proof.
  induction k as [|k IH]; intros x Hx.
  - cbn [le_bytes le_val]. change (256 ^ Z.of_nat 0) with 1. now rewrite Z.mod_1_r.
  - cbn [le_bytes le_val]. rewrite IH by (apply Z.div_pos; lia).
    rewrite Nat2Z.inj_succ, Z.pow_succ_r by lia.
    rewrite (Z.rem_mul_r x 256 (256 ^ Z.of_nat k)) by (try lia; apply Z.pow_pos_nonneg; lia).
    reflexivity.
Qed.
Lemma le_bytes_length k x : length (le_bytes k x) = k.
Proof. revert x. induction k; intros; cbn [le_bytes length]; auto. Qed.

Lemma take_app (a : bytes) : forall r, take (a ++ r) (len a) = Some (a, r).
Proof.
  induction a as [|c a IH]; intros r.
  - cbn [app]. rewrite len_nil. destruct r; reflexivity.
  - rewrite len_cons. cbn [app take].
    pose proof (len_nonneg a).
    destruct (1 + len a <=? 0) eqn:E; [lia|].
    replace (1 + len a - 1) with (len a) by lia. rewrite IH. reflexivity.
Qed.
Lemma take_n (a : bytes) n r : len a = n -> take (a ++ r) n = Some (a, r).
Proof. intros <-. apply take_app. Qed.

Lemma read_exact_app a r v n : len a = n -> read_exact n (mkrd (a ++ r) v) = (Some a, mkrd r v).
Proof. intros H. unfold read_exact, mkrd. cbn [r_in r_resv]. rewrite (take_n a n r H). reflexivity. Qed.
Lemma read_byte_cons c r v : read_byte (mkrd (c :: r) v) = (Some c, mkrd r v).
Proof. reflexivity. Qed.

Lemma len_le_bytes k x : len (le_bytes k x) = Z.of_nat k.
Proof. unfold len. now rewrite le_bytes_length. Qed.

Lemma read_u64_le_ok x r v : 0 <= x < two64 -> read_u64_le (mkrd (u64_le x ++ r) v) = (Some x, mkrd r v).
Proof.
  intros Hx. unfold read_u64_le.
  rewrite (bind_ok _ _ _ (u64_le x) (mkrd r v)) by (apply read_exact_app; apply len_le_bytes).
  unfold ret, u64_le. rewrite le_val_le_bytes by lia.
  change (256 ^ Z.of_nat 8) with two64. rewrite Z.mod_small by lia. reflexivity.
Qed.
Lemma read_u32_be_ok x r v : 0 <= x < two32 -> read_u32_be (mkrd (u32_be x ++ r) v) = (Some x, mkrd r v).
Proof.
  intros Hx. unfold read_u32_be.
  rewrite (bind_ok _ _ _ (u32_be x) (mkrd r v)).
  2:{ apply read_exact_app. unfold u32_be, len. rewrite rev_length, le_bytes_length. reflexivity. }
  unfold ret, be_val, u32_be. rewrite rev_involutive, le_val_le_bytes by lia.
  change (256 ^ Z.of_nat 4) with two32. rewrite Z.mod_small by lia. reflexivity.
Qed.

(** ---- length encoding: every 0 <= n < 2^32 ---- *)
Lemma read_length_write n r v :
  0 <= n < two32 -> read_length (mkrd (write_length n ++ r) v) = (Some n, mkrd r v).
Proof.
  intros Hn. unfold write_length, read_length.
  destruct (n <=? 63) eqn:E1.
  - apply Z.leb_le in E1. cbn [app]. rewrite (bind_ok _ _ _ n (mkrd r v)) by apply read_byte_cons.
    replace (n / 64) with 0 by (symmetry; apply Z.div_small; lia).
    reflexivity.
  - apply Z.leb_gt in E1. destruct (n <=? 16383) eqn:E2.
    + apply Z.leb_le in E2. cbn [app].
      rewrite (bind_ok _ _ _ (n / 256 + 64) (mkrd (n mod 256 :: r) v)) by apply read_byte_cons.
      assert (Hq : 0 <= n / 256 <= 63) by (pose proof (Z.div_mod n 256); pose proof (Z.mod_pos_bound n 256); lia).
      replace ((n / 256 + 64) / 64) with 1 by (apply Z.div_unique with (r := n / 256); [left; lia | lia]).
      change (1 =? 0) with false. change (1 =? 1) with true. cbv iota.
      rewrite (bind_ok _ _ _ (n mod 256) (mkrd r v)) by apply read_byte_cons.
      unfold ret. f_equal. f_equal.
      replace ((n / 256 + 64) mod 64) with (n / 256) by (apply Z.mod_unique with (q := 1); [left; lia | lia]).
      pose proof (Z.div_mod n 256). lia.
    + apply Z.leb_gt in E2. cbn [app].
      rewrite (bind_ok _ _ _ 128 (mkrd (u32_be (n mod two32) ++ r) v)) by apply read_byte_cons.
      change (128 / 64) with 2. change (2 =? 0) with false. change (2 =? 1) with false. change (2 =? 2) with true.
      cbv iota. rewrite Z.mod_small by lia. apply read_u32_be_ok. lia.
Qed.

(** ---- strings ---- *)
Definition rs_resv (v : Z) (s : bytes) : Z := Z.max (Z.max v (Z.min (len s) 65536)) (2 * len s + 32).
Lemma read_string_write s r v :
  len s < two32 ->
  read_string (mkrd (write_string s ++ r) v) = (Some s, mkrd r (rs_resv v s)).
Proof.
  intros H. pose proof (len_nonneg s). unfold read_string, write_string. rewrite <- app_assoc.
  rewrite (bind_ok _ _ _ (len s) (mkrd (s ++ r) v)) by (apply read_length_write; lia).
  unfold bind at 1. unfold reserve. cbn [r_in r_resv mkrd].
  rewrite take_app. reflexivity.
Qed.

(** ------------------------------------------------------------------ *)
(** * C10 (1): crash points of a save *)
Lemma do_writes_none ws : forall acc, do_writes ws None acc = (acc ++ concat ws, true).
Proof.
  induction ws as [|w r IH]; intros acc; cbn [do_writes concat].
  - now rewrite app_nil_r.
  - rewrite IH, app_assoc. reflexivity.
Qed.
Lemma do_writes_fail ws : forall k acc, (k < length ws)%nat -> snd (do_writes ws (Some k) acc) = false.
Proof.
  induction ws as [|w r IH]; intros k acc Hk; cbn [length] in Hk; [lia|].
  cbn [do_writes]. destruct k as [|k]; [reflexivity|]. apply IH. lia.
Qed.
(** what a failed save leaves in the temporary file is a prefix of the complete file *)
Lemma do_writes_prefix ws : forall f acc, exists rest, acc ++ concat ws = fst (do_writes ws f acc) ++ rest.
Proof.
  induction ws as [|w r IH]; intros f acc; cbn [do_writes concat].
  - exists []. reflexivity.
  - destruct f as [[|k]|].
    + cbn [fst]. eexists. reflexivity.
    + destruct (IH (Some k) (acc ++ w)) as [rest H]. exists rest. now rewrite app_assoc.
    + destruct (IH None (acc ++ w)) as [rest H]. exists rest. now rewrite app_assoc.
Qed.

Lemma failed_save_keeps_dump ws k o rn d :
  (k < length ws)%nat ->
  let r := save_run ws (Some k) o rn d in snd r = false /\ dk_dump (fst r) = dk_dump d.
Proof.
  intros Hk. unfold save_run. destruct o; [split; reflexivity|].
  pose proof (do_writes_fail ws k [] Hk) as H.
  destruct (do_writes ws (Some k) []) as [b ok]. cbn [snd] in H. subst ok. split; reflexivity.
Qed.
Lemma failed_save_any ws f o rn d :
  snd (save_run ws f o rn d) = false -> dk_dump (fst (save_run ws f o rn d)) = dk_dump d.
Proof.
  unfold save_run. destruct o; [reflexivity|].
  destruct (do_writes ws f []) as [b [|]]; [|reflexivity].
  destruct rn; [reflexivity|]. cbn [snd]. discriminate.
Qed.
Lemma good_save ws d : save_run ws None false false d = ({| dk_dump := Some (concat ws); dk_tmp := None |}, true).
Proof. unfold save_run. rewrite do_writes_none. reflexivity. Qed.
Lemma later_save_succeeds ws ws' f o rn d :
  save_run ws' None false false (fst (save_run ws f o rn d))
  = ({| dk_dump := Some (concat ws'); dk_tmp := None |}, true).
Proof. apply good_save. Qed.

(** at every instant the dump is absent or the complete output of one of the saves attempted *)
Definition dump_complete (d0 : disk) (hist : list attempt) (d : disk) : Prop :=
  dk_dump d = dk_dump d0 \/ exists a, In a hist /\ dk_dump d = Some (concat (a_writes a)).
Lemma do_writes_true ws : forall f acc b, do_writes ws f acc = (b, true) -> b = acc ++ concat ws.
Proof.
  induction ws as [|w r IH]; intros f acc b; cbn [do_writes concat].
  - intros H; inversion H. now rewrite app_nil_r.
  - destruct f as [[|k]|]; [discriminate| |]; intros H; apply IH in H; now rewrite H, app_assoc.
Qed.
Lemma run_attempt_cases d a :
  dk_dump (run_attempt d a) = dk_dump d \/ dk_dump (run_attempt d a) = Some (concat (a_writes a)).
Proof.
  unfold run_attempt, save_run. destruct (a_open_fails a); [left; reflexivity|].
  destruct (do_writes (a_writes a) (a_failat a) []) as [b ok] eqn:E. destruct ok; [|left; reflexivity].
  destruct (a_rename_fails a); [left; reflexivity|]. right. cbn [fst dk_dump].
  apply do_writes_true in E. now subst.
Qed.
Lemma dump_always_complete hist : forall d0, dump_complete d0 hist (fold_left run_attempt hist d0).
Proof.
  induction hist as [|a h IH] using rev_ind; intros d0.
  - left. reflexivity.
  - rewrite fold_left_app. cbn [fold_left].
    destruct (run_attempt_cases (fold_left run_attempt h d0) a) as [H|H].
    + destruct (IH d0) as [G|[a' [Hin G]]].
      * left. congruence.
      * right. exists a'. split; [apply in_or_app; now left | congruence].
    + right. exists a. split; [apply in_or_app; right; now left | exact H].
Qed.

(** ------------------------------------------------------------------ *)
(** * C09: sequences of strings / pairs / sorted-set items *)
Definition strs_ok (l : list bytes) : Prop := Forall (fun s => len s < two32) l.
Definition pairs_ok (l : list (bytes * bytes)) : Prop := Forall (fun p => len (fst p) < two32 /\ len (snd p) < two32) l.
Definition zitems_ok (l : list (bytes * Z)) : Prop := Forall (fun p => len (fst p) < two32 /\ 0 <= snd p < two64 /\ f_nan (snd p) = false) l.

Lemma read_strings_eq fuel n acc :
  read_strings fuel n acc = if n <=? 0 then ret (frev acc) else
    match fuel with O => fail | S f => s <- read_string ;; read_strings f (n - 1) (s :: acc) end.
Proof. destruct fuel; reflexivity. Qed.
Lemma read_pairs_eq fuel n acc :
  read_pairs fuel n acc = if n <=? 0 then ret (frev acc) else
    match fuel with O => fail | S f => a <- read_string ;; b <- read_string ;; read_pairs f (n - 1) ((a, b) :: acc) end.
Proof. destruct fuel; reflexivity. Qed.
Lemma read_strings_partial_eq fuel n acc s :
  read_strings_partial fuel n acc s = if n <=? 0 then (frev acc, true, s) else
    match fuel with
    | O => (frev acc, false, s)
    | S f => match read_string s with
             | (None, s1) => (frev acc, false, s1)
             | (Some x, s1) => read_strings_partial f (n - 1) (x :: acc) s1
             end
    end.
Proof. destruct fuel; reflexivity. Qed.

Lemma len_pos_cons {A} (x : A) l : (len (x :: l) <=? 0) = false.
Proof. rewrite len_cons. pose proof (len_nonneg l). apply Z.leb_gt. lia. Qed.
Lemma len_cons_pred {A} (x : A) l : len (x :: l) - 1 = len l.
Proof. rewrite len_cons. lia. Qed.

Lemma read_strings_ok l : forall fuel acc r v, (length l <= fuel)%nat -> strs_ok l ->
  exists v', read_strings fuel (len l) acc (mkrd (flat_map write_string l ++ r) v) = (Some (rev acc ++ l), mkrd r v').
Proof.
  induction l as [|x l IH]; intros fuel acc r v Hf Hok.
  - exists v. rewrite read_strings_eq. rewrite len_nil. cbn [Z.leb Z.compare flat_map app].
    unfold ret. now rewrite frev_rev, app_nil_r.
  - rewrite read_strings_eq, len_pos_cons. destruct fuel as [|f]; [cbn [length] in Hf; lia|].
    inversion Hok as [|? ? Hx Hl]; subst.
    cbn [flat_map]. rewrite <- app_assoc.
    rewrite (bind_ok _ _ _ x (mkrd (flat_map write_string l ++ r) (rs_resv v x))) by (apply read_string_write; exact Hx).
    rewrite len_cons_pred.
    destruct (IH f (x :: acc) r (rs_resv v x)) as [v' E]; [cbn [length] in Hf; lia | exact Hl |].
    exists v'. rewrite E. cbn [rev]. now rewrite <- app_assoc.
Qed.

Lemma read_strings_partial_ok l : forall fuel acc r v, (length l <= fuel)%nat -> strs_ok l ->
  exists v', read_strings_partial fuel (len l) acc (mkrd (flat_map write_string l ++ r) v) = (rev acc ++ l, true, mkrd r v').
Proof.
  induction l as [|x l IH]; intros fuel acc r v Hf Hok.
  - exists v. rewrite read_strings_partial_eq. rewrite len_nil. cbn [Z.leb Z.compare flat_map app].
    now rewrite frev_rev, app_nil_r.
  - rewrite read_strings_partial_eq, len_pos_cons. destruct fuel as [|f]; [cbn [length] in Hf; lia|].
    inversion Hok as [|? ? Hx Hl]; subst.
    cbn [flat_map]. rewrite <- app_assoc.
    rewrite (read_string_write x _ v Hx).
    rewrite len_cons_pred.
    destruct (IH f (x :: acc) r (rs_resv v x)) as [v' E]; [cbn [length] in Hf; lia | exact Hl |].
    exists v'. unfold mkrd in *. rewrite E. cbn [rev]. now rewrite <- app_assoc.
Qed.

Lemma read_pairs_ok l : forall fuel acc r v, (length l <= fuel)%nat -> pairs_ok l ->
  exists v', read_pairs fuel (len l) acc (mkrd (flat_map write_pair l ++ r) v) = (Some (rev acc ++ l), mkrd r v').
Proof.
  induction l as [|[a b] l IH]; intros fuel acc r v Hf Hok.
  - exists v. rewrite read_pairs_eq. rewrite len_nil. cbn [Z.leb Z.compare flat_map app].
    unfold ret. now rewrite frev_rev, app_nil_r.
  - rewrite read_pairs_eq, len_pos_cons. destruct fuel as [|f]; [cbn [length] in Hf; lia|].
    inversion Hok as [|? ? [Ha Hb] Hl]; subst. cbn [fst snd] in Ha, Hb.
    cbn [flat_map]. unfold write_pair at 1. cbn [fst snd]. rewrite <- !app_assoc.
    rewrite (bind_ok _ _ _ a (mkrd (write_string b ++ flat_map write_pair l ++ r) (rs_resv v a))) by (apply read_string_write; exact Ha).
    rewrite (bind_ok _ _ _ b (mkrd (flat_map write_pair l ++ r) (rs_resv (rs_resv v a) b))) by (apply read_string_write; exact Hb).
    rewrite len_cons_pred.
    destruct (IH f ((a, b) :: acc) r (rs_resv (rs_resv v a) b)) as [v' E]; [cbn [length] in Hf; lia | exact Hl |].
    exists v'. rewrite E. cbn [rev]. now rewrite <- app_assoc.
Qed.


(** ------------------------------------------------------------------ *)
(** * C09: databases and the storage API on a fresh key *)
Lemma bmem_In x l : bmem x l = true <-> In x l.
Proof.
  induction l as [|y l IH]; cbn [bmem In]; [split; [discriminate | tauto]|].
  rewrite orb_true_iff, IH, beq_eq. split; intros [H|H]; auto.
Qed.
Lemma nodupb_NoDup l : nodupb l = true -> NoDup l.
Proof.
  induction l as [|x l IH]; cbn [nodupb]; intros H; constructor.
  - apply andb_prop in H. destruct H as [H _]. intros Hin. apply bmem_In in Hin. now rewrite Hin in H.
  - apply IH. apply andb_prop in H. tauto.
Qed.
Lemma beq_false_neq a b : a <> b -> beq a b = false.
Proof. intros H. destruct (beq a b) eqn:E; [|reflexivity]. apply beq_eq in E. contradiction. Qed.

Lemma aremove_notin {A} k (l : list (bytes * A)) : ~ In k (map fst l) -> aremove k l = l.
Proof.
  induction l as [|[k' v] l IH]; cbn [aremove map fst In]; intros H; [reflexivity|].
  rewrite beq_false_neq by (intros ->; apply H; now left). f_equal. apply IH. tauto.
Qed.
Lemma alookup_notin {A} k (l : list (bytes * A)) : ~ In k (map fst l) -> alookup k l = None.
Proof.
  induction l as [|[k' v] l IH]; cbn [alookup map fst In]; intros H; [reflexivity|].
  rewrite beq_false_neq by (intros ->; apply H; now left). apply IH. tauto.
Qed.
Lemma alookup_aset {A} k (v : A) l : alookup k (aset k v l) = Some v.
Proof. unfold aset. cbn [alookup]. now rewrite beq_refl. Qed.
Lemma aremove_idem {A} k (l : list (bytes * A)) : aremove k (aremove k l) = aremove k l.
Proof.
  induction l as [|[k' v] l IH]; cbn [aremove]; [reflexivity|].
  destruct (beq k k') eqn:E; [exact IH|]. cbn [aremove]. rewrite E. now f_equal.
Qed.
Lemma aset_aset {A} k (v v' : A) l : aset k v' (aset k v l) = aset k v' l.
Proof. unfold aset. cbn [aremove]. rewrite beq_refl. now rewrite aremove_idem. Qed.

Lemma get_put d k e : get_entry (put_entry d k e) k = Some e.
Proof. unfold get_entry, put_entry. cbn [d_data]. apply alookup_aset. Qed.
Lemma put_put d k e e' : put_entry (put_entry d k e) k e' = put_entry d k e'.
Proof. unfold put_entry. cbn [d_data d_index]. now rewrite aset_aset. Qed.

(** nth / set_nth *)
Lemma nth_error_set_nth {A} (l : list A) : forall i x y, nth_error l i = Some y -> nth_error (set_nth l i x) i = Some x.
Proof. induction l as [|a l IH]; intros [|i] x y; cbn; try discriminate; auto. intros. eapply IH; eauto. Qed.
Lemma set_nth_set_nth {A} (l : list A) : forall i x y, set_nth (set_nth l i x) i y = set_nth l i y.
Proof. induction l as [|a l IH]; intros [|i] x y; cbn; auto. now rewrite IH. Qed.
Lemma set_nth_length {A} (l : list A) : forall i x, length (set_nth l i x) = length l.
Proof. induction l as [|a l IH]; intros [|i] x; cbn; auto. Qed.

Lemma get_set_dbi ds i d d' : get_dbi ds i = Some d -> get_dbi (set_dbi ds i d') i = Some d'.
Proof.
  unfold get_dbi, set_dbi. destruct ((i <? 0) || (ndb <=? i)); [discriminate|].
  apply nth_error_set_nth.
Qed.
Lemma set_set_dbi ds i d d' : set_dbi (set_dbi ds i d) i d' = set_dbi ds i d'.
Proof. unfold set_dbi. apply set_nth_set_nth. Qed.

(** the database after one key was loaded: value [v], deadline [odl] *)
Definition ins_key (d : db) (k : bytes) (v : value) (odl : option Z) : db :=
  match odl with
  | Some dl => index_set (put_entry d k {| e_val := v; e_exp := Some dl |}) k dl
  | None => put_entry d k {| e_val := v; e_exp := None |}
  end.
Definition deadline (now : Z) (ttl : option Z) : option Z :=
  match ttl with Some t => Some (now + t) | None => None end.

(** expire after the value was stored without a deadline *)
Lemma api_expire_opt_new now ds i d0 d k v ttl :
  get_dbi ds i = Some d0 ->
  api_expire_opt now (set_dbi ds i (new_key d k v)) i k ttl
  = Some (set_dbi ds i (ins_key d k v (deadline now ttl))).
Proof.
  intros Hd. destruct ttl as [t|]; cbn [api_expire_opt deadline ins_key]; [|reflexivity].
  unfold api_expire. rewrite (get_set_dbi _ _ _ _ Hd). unfold eng_expire, new_key.
  rewrite get_put. cbn [snd e_val]. rewrite put_put, set_set_dbi. reflexivity.
Qed.

Lemma api_set_fresh now ds i d k v ttl :
  get_dbi ds i = Some d ->
  api_set now ds i k v ttl = Some (set_dbi ds i (ins_key d k (VStr v) (deadline now ttl))).
Proof. intros Hd. unfold api_set. rewrite Hd. destruct ttl; reflexivity. Qed.

Lemma api_rpush_fresh ds i d k els :
  get_dbi ds i = Some d -> get_entry d k = None ->
  api_rpush ds i k els = Some (set_dbi ds i (new_key d k (VList els))).
Proof. intros Hd Hk. unfold api_rpush. now rewrite Hd, Hk. Qed.
Lemma api_rpush_more ds i d0 d k l els :
  get_dbi ds i = Some d0 ->
  api_rpush (set_dbi ds i (new_key d k (VList l))) i k els
  = Some (set_dbi ds i (new_key d k (VList (l ++ els)))).
Proof.
  intros Hd. unfold api_rpush. rewrite (get_set_dbi _ _ _ _ Hd). unfold new_key at 1.
  rewrite get_put. cbn [e_val]. unfold keep_exp, new_key. cbn [e_exp]. now rewrite put_put, set_set_dbi.
Qed.

Lemma s_ins_fresh s x : ~ In x s -> s_ins s x = s ++ [x].
Proof. intros H. unfold s_ins. destruct (bmem x s) eqn:E; [apply bmem_In in E; contradiction | reflexivity]. Qed.
Lemma fold_s_ins ms : forall s, NoDup (s ++ ms) -> fold_left s_ins ms s = s ++ ms.
Proof.
  induction ms as [|x ms IH]; intros s H; cbn [fold_left]; [now rewrite app_nil_r|].
  rewrite s_ins_fresh.
  - rewrite IH; rewrite <- app_assoc; [reflexivity | exact H].
  - apply NoDup_remove_2 in H. intros Hin. apply H. apply in_or_app. now left.
Qed.
Lemma api_sadd_fresh ds i d k ms :
  get_dbi ds i = Some d -> get_entry d k = None -> NoDup ms ->
  api_sadd ds i k ms = Some (set_dbi ds i (new_key d k (VSet ms))).
Proof. intros Hd Hk Hn. unfold api_sadd. rewrite Hd, Hk. now rewrite (fold_s_ins ms []). Qed.

Lemma h_ins_fresh h f v : ~ In f (map fst h) -> h_ins h f v = h ++ [(f, v)].
Proof.
  induction h as [|[f' v'] h IH]; cbn [h_ins map fst In app]; intros H; [reflexivity|].
  rewrite beq_false_neq by (intros ->; apply H; now left). f_equal. apply IH. tauto.
Qed.
Lemma h_ins_all_fresh fv : forall h, NoDup (map fst (h ++ fv)) -> h_ins_all h fv = h ++ fv.
Proof.
  unfold h_ins_all. induction fv as [|[f v] fv IH]; intros h H; cbn [fold_left]; [now rewrite app_nil_r|].
  cbn [fst snd]. rewrite h_ins_fresh.
  - rewrite IH; rewrite <- app_assoc; [reflexivity | exact H].
  - rewrite map_app in H. cbn [map fst] in H. apply NoDup_remove_2 in H. intros Hin. apply H. apply in_or_app. now left.
Qed.
Lemma api_hset_fresh ds i d k fv :
  get_dbi ds i = Some d -> get_entry d k = None -> NoDup (map fst fv) ->
  api_hset ds i k fv = Some (set_dbi ds i (new_key d k (VHash fv))).
Proof. intros Hd Hk Hn. unfold api_hset. rewrite Hd, Hk. now rewrite (h_ins_all_fresh fv []). Qed.

(** zadd item by item: the skip list built so far is [zs_rebuild] of the items seen *)
Lemma api_zadd_more ds i d0 d k acc m sc :
  get_dbi ds i = Some d0 -> f_nan sc = false ->
  api_zadd (set_dbi ds i (new_key d k (VZSet acc))) i k m sc
  = Some (set_dbi ds i (new_key d k (VZSet (zs_insert m sc acc)))).
Proof.
  intros Hd Hn. unfold api_zadd. rewrite Hn. rewrite (get_set_dbi _ _ _ _ Hd). unfold new_key, keep_exp.
  rewrite get_put. cbn [e_val e_exp]. now rewrite put_put, set_set_dbi.
Qed.
Lemma api_zadd_fresh ds i d k m sc :
  get_dbi ds i = Some d -> get_entry d k = None -> f_nan sc = false ->
  api_zadd ds i k m sc = Some (set_dbi ds i (new_key d k (VZSet [(m, sc)]))).
Proof. intros Hd Hk Hn. unfold api_zadd. now rewrite Hn, Hd, Hk. Qed.

Lemma load_zitems_eq fuel n ds i k s :
  load_zitems fuel n ds i k s =
  if n <=? 0 then SOk tt s ds else
  match fuel with
  | O => SErr s ds
  | S f =>
    match read_string s with
    | (None, s1) => SErr s1 ds
    | (Some m, s1) =>
      match read_u64_le s1 with
      | (None, s2) => SErr s2 ds
      | (Some sc, s2) =>
        match api_zadd ds i k m sc with
        | None => SErr s2 ds
        | Some ds' => load_zitems f (n - 1) ds' i k s2
        end
      end
    end
  end.
Proof. destruct fuel; reflexivity. Qed.

Lemma load_zitems_more z : forall fuel ds i d0 d k acc r v,
  get_dbi ds i = Some d0 -> zitems_ok z -> (length z <= fuel)%nat ->
  exists v', load_zitems fuel (len z) (set_dbi ds i (new_key d k (VZSet acc))) i k (mkrd (flat_map write_zitem z ++ r) v)
           = SOk tt (mkrd r v') (set_dbi ds i (new_key d k (VZSet (fold_left (fun a p => zs_insert (fst p) (snd p) a) z acc)))).
Proof.
  induction z as [|[m sc] z IH]; intros fuel ds i d0 d k acc r v Hd Hok Hf.
  - exists v. rewrite load_zitems_eq, len_nil. reflexivity.
  - rewrite load_zitems_eq, len_pos_cons. destruct fuel as [|f]; [cbn [length] in Hf; lia|].
    apply Forall_cons_iff in Hok. destruct Hok as [(Hm & Hs & Hn) Hok]. cbn [fst snd] in Hm, Hs, Hn.
    cbn [flat_map]. unfold write_zitem at 1. cbn [fst snd]. rewrite <- !app_assoc.
    rewrite (read_string_write m _ v Hm). rewrite (read_u64_le_ok sc _ _ Hs).
    rewrite (api_zadd_more ds i d0 d k acc m sc Hd Hn). rewrite len_cons_pred.
    destruct (IH f ds i d0 d k (zs_insert m sc acc) r (rs_resv v m) Hd Hok) as [v' E]; [cbn [length] in Hf; lia|].
    exists v'. unfold mkrd in *. rewrite E. reflexivity.
Qed.
Lemma zlist_eqb_eq a : forall b, zlist_eqb a b = true -> a = b.
Proof.
  induction a as [|[m s] a IH]; intros [|[m' s'] b]; cbn [zlist_eqb]; try discriminate; auto.
  intros H. apply andb_prop in H. destruct H as [H H3]. apply andb_prop in H. destruct H as [H1 H2].
  apply beq_eq in H1. apply Z.eqb_eq in H2. subst. f_equal. now apply IH.
Qed.

(** ------------------------------------------------------------------ *)
(** * C09: stream IDs as text *)
Lemma digits_val_ge l : forall a n, 0 <= a -> Forall (fun c => is_digit c = true) l ->
  digits_val l a = Some n -> a <= n.
Proof.
  induction l as [|c l IH]; intros a n Ha Hd; cbn [digits_val].
  - intros H; inversion H; lia.
  - inversion Hd as [|? ? Hc Hl]; subst. rewrite Hc. intros H.
    unfold is_digit in Hc. apply IH in H; [lia | lia | exact Hl].
Qed.
Lemma parse_u64_go_digits l : forall a n, 0 <= a -> Forall (fun c => is_digit c = true) l ->
  digits_val l a = Some n -> n < two64 -> parse_u64_go l a = Some n.
Proof.
  induction l as [|c l IH]; intros a n Ha Hd; cbn [digits_val parse_u64_go].
  - intros H _; exact H.
  - inversion Hd as [|? ? Hc Hl]; subst. rewrite Hc. intros H Hn.
    assert (Hc' := Hc). unfold is_digit in Hc'.
    assert (Hge : 0 <= a * 10 + (c - 48)) by lia.
    pose proof (digits_val_ge l _ _ Hge Hl H).
    cbv zeta. replace (a * 10 + (c - 48) <? two64) with true by lia. apply IH; auto; lia.
Qed.
Lemma parse_u64_fast_print n : 0 <= n < two64 -> parse_u64_fast (print_nat n) = Some n.
Proof.
  intros H. assert (H40 : 0 <= n < 10 ^ 40) by (unfold two64 in H; lia).
  destruct (print_nat_spec n H40) as [Hp Hd].
  destruct (print_nat_head n H40) as (c & r & Hc & _).
  unfold parse_u64_fast. rewrite Hc in *.
  apply parse_u64_go_digits; [lia | exact Hd | | lia].
  unfold parse_digits in Hp. exact Hp.
Qed.
Lemma split_dash_digits l : forall r, Forall (fun c => is_digit c = true) l ->
  split_dash (l ++ 45 :: r) = Some (l, r).
Proof.
  induction l as [|c l IH]; intros r Hd; cbn [app split_dash].
  - reflexivity.
  - inversion Hd as [|? ? Hc Hl]; subst. unfold is_digit in Hc.
    replace (c =? 45) with false by lia. now rewrite IH.
Qed.
Lemma sid_of_text_print i : 0 <= fst i < two64 -> 0 <= snd i < two64 -> sid_of_text (sid_text i) = Some i.
Proof.
  intros H1 H2. unfold sid_of_text, sid_text. cbn [app].
  rewrite split_dash_digits by (apply print_nat_spec; unfold two64 in *; lia).
  rewrite !parse_u64_fast_print by assumption. now destruct i.
Qed.
Lemma digits_acc_length fuel : forall n acc, (length (digits_acc fuel n acc) <= fuel + length acc)%nat.
Proof.
  induction fuel as [|f IH]; intros n acc; cbn [digits_acc]; [lia|].
  destruct (n <? 10); cbn [length]; [lia|]. specialize (IH (n / 10) ((48 + n mod 10) :: acc)). cbn [length] in IH. lia.
Qed.
Lemma len_print_nat n : len (print_nat n) <= 40.
Proof. unfold len, print_nat. pose proof (digits_acc_length 40 n []). cbn [length] in H. lia. Qed.
Lemma len_sid_text i : len (sid_text i) < two32.
Proof.
  unfold sid_text. rewrite !len_app. pose proof (len_print_nat (fst i)). pose proof (len_print_nat (snd i)).
  change (len [45]) with 1. unfold two32. lia.
Qed.

(** ---- the stream reconstruction loop ---- *)
Definition items (es : list (sid * list (bytes * bytes))) : Z :=
  fold_right (fun e acc => 2 + 2 * len (snd e) + acc) 0 es.
Lemma stream_items_items es : stream_items es = 1 + items es.
Proof. unfold stream_items, items. induction es as [|e es IH]; cbn [fold_right]; lia. Qed.
Lemma items_nonneg es : 0 <= items es.
Proof. unfold items. induction es as [|e es IH]; cbn [fold_right]; [lia|]. pose proof (len_nonneg (snd e)). lia. Qed.

Definition sentry_good (e : sid * list (bytes * bytes)) : Prop :=
  0 <= fst (fst e) < two64 /\ 0 <= snd (fst e) < two64 /\ pairs_ok (snd e) /\ NoDup (map fst (snd e)).

Lemma load_stream_eq fuel ds i k idx remaining pre s :
  load_stream fuel ds i k idx remaining pre s =
  match fuel with
  | O => SErr s ds
  | S f =>
    if remaining <=? idx then SOk tt s ds else
    if remaining <? idx + 2 then SOk tt s ds else
    match (match pre with Some id => (Some id, s) | None => read_string s end) with
    | (None, s1) => SErr s1 ds
    | (Some id_str, s1) =>
      match read_string s1 with
      | (None, s2) => SErr s2 ds
      | (Some fc_str, s2) =>
        let idx2 := idx + 2 in
        let fc := match parse_usize fc_str with Some n => n | None => 0 end in
        if (two64 <=? idx2 + fc * 2) || (remaining <? idx2 + fc * 2) then SOk tt s2 ds else
        match read_pairs (S (length (r_in s2))) fc [] s2 with
        | (None, s3) => SErr s3 ds
        | (Some fv, s3) =>
            let ds' := match sid_of_text id_str with
                       | Some id => api_xadd ds i k id (h_ins_all [] fv)
                       | None => ds
                       end in
            load_stream f ds' i k (idx2 + 2 * fc) remaining None s3
        end
      end
    end
  end.
Proof. destruct fuel; reflexivity. Qed.

Lemma write_length_length n : (1 <= length (write_length n))%nat.
Proof. unfold write_length. destruct (n <=? 63); [|destruct (n <=? 16383)]; cbn [length]; lia. Qed.
Lemma write_string_length s : (1 <= length (write_string s))%nat.
Proof.
  unfold write_string. rewrite app_length.
  eapply Nat.le_trans; [apply (write_length_length (len s)) | apply Nat.le_add_r].
Qed.
Lemma flat_map_pairs_length (l : list (bytes * bytes)) : (length l <= length (flat_map write_pair l))%nat.
Proof.
  induction l as [|[a b] l IH]; cbn [flat_map length]; [lia|]. rewrite app_length.
  unfold write_pair at 1. cbn [fst snd]. rewrite app_length.
  pose proof (write_string_length a) as Ha. remember (length (write_string a)) as x.
  remember (length (write_string b)) as y. remember (length (flat_map write_pair l)) as z. lia.
Qed.

(** the bytes of an entry after its ID string *)
Definition sentry_tail (e : sid * list (bytes * bytes)) : bytes :=
  write_string (print_nat (len (snd e))) ++ flat_map write_pair (snd e).
Lemma write_sentry_tail e : write_sentry e = write_string (sid_text (fst e)) ++ sentry_tail e.
Proof. reflexivity. Qed.

Lemma load_stream_step_pre f ds i k idx remaining e r v :
  sentry_good e -> 0 <= idx -> remaining < two32 ->
  idx + 2 + 2 * len (snd e) <= remaining ->
  exists v', load_stream (S f) ds i k idx remaining (Some (sid_text (fst e))) (mkrd (sentry_tail e ++ r) v)
           = load_stream f (api_xadd ds i k (fst e) (snd e)) i k (idx + 2 + 2 * len (snd e)) remaining None (mkrd r v').
Proof.
  intros (Hi1 & Hi2 & Hp & Hnd) Hidx Hrem Hfit.
  pose proof (len_nonneg (snd e)) as Hl.
  rewrite load_stream_eq.
  replace (remaining <=? idx) with false by lia. replace (remaining <? idx + 2) with false by lia.
  unfold sentry_tail. rewrite <- !app_assoc.
  assert (Hfc : len (print_nat (len (snd e))) < two32) by (pose proof (len_print_nat (len (snd e))); unfold two32; lia).
  rewrite (read_string_write _ _ _ Hfc).
  assert (Hl32 : len (snd e) < two32) by lia.
  rewrite parse_usize_print_nat by (unfold u64_max, two32 in *; lia).
  cbv zeta.
  replace (two64 <=? idx + 2 + len (snd e) * 2) with false by (unfold two64, two32 in *; lia).
  replace (remaining <? idx + 2 + len (snd e) * 2) with false by lia.
  cbn [orb].
  match goal with |- context [read_pairs ?fu _ _ (mkrd (?x ++ r) ?vv)] =>
    destruct (read_pairs_ok (snd e) fu [] r vv) as [v' E] end.
  { cbn [r_in mkrd]. rewrite app_length. pose proof (flat_map_pairs_length (snd e)). lia. }
  { exact Hp. }
  unfold mkrd in *. rewrite E. cbn [rev app].
  rewrite sid_of_text_print by assumption.
  rewrite (h_ins_all_fresh (snd e) []) by exact Hnd. cbn [app].
  exists v'. reflexivity.
Qed.
Lemma load_stream_step f ds i k idx remaining e r v :
  sentry_good e -> 0 <= idx -> remaining < two32 ->
  idx + 2 + 2 * len (snd e) <= remaining ->
  exists v', load_stream (S f) ds i k idx remaining None (mkrd (write_sentry e ++ r) v)
           = load_stream f (api_xadd ds i k (fst e) (snd e)) i k (idx + 2 + 2 * len (snd e)) remaining None (mkrd r v').
Proof.
  intros Hg Hidx Hrem Hfit.
  destruct (load_stream_step_pre f ds i k idx remaining e r (rs_resv v (sid_text (fst e))) Hg Hidx Hrem Hfit) as [v' E].
  exists v'. rewrite <- E. pose proof (len_nonneg (snd e)) as Hl.
  rewrite !load_stream_eq.
  replace (remaining <=? idx) with false by lia. replace (remaining <? idx + 2) with false by lia.
  rewrite write_sentry_tail, <- app_assoc.
  rewrite (read_string_write _ _ v (len_sid_text (fst e))). reflexivity.
Qed.

Definition xadd_all (ds : list db) (i : Z) (k : bytes) (es : list (sid * list (bytes * bytes))) : list db :=
  fold_left (fun a e => api_xadd a i k (fst e) (snd e)) es ds.

Lemma load_stream_all es : forall fuel ds i k idx remaining r v,
  (length es < fuel)%nat -> Forall sentry_good es -> 0 <= idx -> remaining < two32 ->
  remaining = idx + items es ->
  exists v', load_stream fuel ds i k idx remaining None (mkrd (flat_map write_sentry es ++ r) v)
           = SOk tt (mkrd r v') (xadd_all ds i k es).
Proof.
  induction es as [|e es IH]; intros fuel ds i k idx remaining r v Hf Hg Hidx Hrem Hit.
  - destruct fuel as [|f]; [cbn [length] in Hf; lia|]. rewrite load_stream_eq.
    unfold items in Hit. cbn [fold_right] in Hit. replace (remaining <=? idx) with true by lia.
    exists v. reflexivity.
  - destruct fuel as [|f]; [cbn [length] in Hf; lia|].
    apply Forall_cons_iff in Hg. destruct Hg as [He Hes].
    unfold items in Hit. cbn [fold_right] in Hit. fold (items es) in Hit.
    pose proof (items_nonneg es) as Hnn.
    cbn [flat_map]. rewrite <- app_assoc.
    destruct (load_stream_step f ds i k idx remaining e (flat_map write_sentry es ++ r) v He Hidx Hrem ltac:(lia)) as [v1 E1].
    rewrite E1.
    pose proof (len_nonneg (snd e)) as Hn.
    destruct (IH f (api_xadd ds i k (fst e) (snd e)) i k (idx + 2 + 2 * len (snd e)) remaining r v1) as [v' E2];
      [cbn [length] in Hf; lia | exact Hes | lia | exact Hrem | lia |].
    exists v'. rewrite E2. reflexivity.
Qed.

Lemma api_xadd_fresh ds i d k id f :
  get_dbi ds i = Some d -> get_entry d k = None -> sid_leb id (0, 0) = false ->
  api_xadd ds i k id f = set_dbi ds i (new_key d k (VStream (mkstream [(id, f)] id 1))).
Proof. intros Hd Hk Hid. unfold api_xadd, api_xadd_r. now rewrite Hd, Hk, Hid. Qed.
Lemma api_xadd_more ds i d0 d k done last n id f :
  get_dbi ds i = Some d0 -> sid_leb id last = false ->
  api_xadd (set_dbi ds i (new_key d k (VStream (mkstream done last n)))) i k id f
  = set_dbi ds i (new_key d k (VStream (mkstream (done ++ [(id, f)]) id (n + 1)))).
Proof.
  intros Hd Hid. unfold api_xadd, api_xadd_r. rewrite (get_set_dbi _ _ _ _ Hd). unfold new_key, keep_exp.
  rewrite get_put. unfold mkstream at 1. cbn [e_val e_exp s_last s_entries s_groups s_len]. rewrite Hid.
  now rewrite put_put, set_set_dbi.
Qed.
Lemma xadd_all_more es : forall ds i d0 d k done last n,
  get_dbi ds i = Some d0 -> sids_ok last es = true ->
  xadd_all (set_dbi ds i (new_key d k (VStream (mkstream done last n)))) i k es
  = set_dbi ds i (new_key d k (VStream (mkstream (done ++ es) (last_sid last es) (n + len es)))).
Proof.
  induction es as [|[id f] es IH]; intros ds i d0 d k done last n Hd Hs; cbn [xadd_all fold_left last_sid].
  - rewrite app_nil_r, len_nil. now replace (n + 0) with n by lia.
  - cbn [sids_ok fst snd] in Hs. apply andb_prop in Hs. destruct Hs as [Hs Hr].
    apply andb_prop in Hs. destruct Hs as [Hs _]. apply andb_prop in Hs. destruct Hs as [Hs _].
    apply negb_true_iff in Hs. cbn [fst snd].
    rewrite (api_xadd_more ds i d0 d k done last n id f Hd Hs).
    fold (xadd_all (set_dbi ds i (new_key d k (VStream (mkstream (done ++ [(id, f)]) id (n + 1))))) i k es).
    rewrite (IH ds i d0 d k (done ++ [(id, f)]) id (n + 1) Hd Hr). rewrite <- app_assoc. cbn [app].
    rewrite len_cons. now replace (n + 1 + len es) with (n + (1 + len es)) by lia.
Qed.
Lemma xadd_all_fresh ds i d k es :
  get_dbi ds i = Some d -> get_entry d k = None -> es <> [] -> sids_ok (0, 0) es = true ->
  xadd_all ds i k es = set_dbi ds i (new_key d k (VStream (mkstream es (last_sid (0, 0) es) (len es)))).
Proof.
  intros Hd Hk Hne Hs. destruct es as [|[id f] es]; [contradiction|].
  cbn [xadd_all fold_left fst snd last_sid].
  cbn [sids_ok fst snd] in Hs. apply andb_prop in Hs. destruct Hs as [Hs Hr].
  apply andb_prop in Hs. destruct Hs as [Hs _]. apply andb_prop in Hs. destruct Hs as [Hs _].
  apply negb_true_iff in Hs.
  rewrite (api_xadd_fresh ds i d k id f Hd Hk Hs).
  fold (xadd_all (set_dbi ds i (new_key d k (VStream (mkstream [(id, f)] id 1)))) i k es).
  rewrite (xadd_all_more es ds i d d k [(id, f)] id 1 Hd Hr). rewrite len_cons. reflexivity.
Qed.

(** ---- boolean guards to propositions ---- *)
Lemma str_ok_lt b : str_ok b = true -> len b < two32.
Proof. unfold str_ok, lt32. apply Z.ltb_lt. Qed.
Lemma forallb_strs_ok l : forallb str_ok l = true -> strs_ok l.
Proof. intros H. apply Forall_forall. intros x Hx. apply str_ok_lt. rewrite forallb_forall in H. auto. Qed.
Lemma forallb_pairs_ok l : forallb pair_ok l = true -> pairs_ok l.
Proof.
  intros H. apply Forall_forall. intros x Hx. rewrite forallb_forall in H. specialize (H x Hx).
  unfold pair_ok in H. apply andb_prop in H. destruct H. split; now apply str_ok_lt.
Qed.
Lemma u64b_range z : u64b z = true -> 0 <= z < two64.
Proof. unfold u64b. intros H. apply andb_prop in H. destruct H as [H1 H2]. apply Z.leb_le in H1. apply Z.ltb_lt in H2. lia. Qed.
Lemma forallb_zitems_ok l : forallb (fun p => str_ok (fst p) && u64b (snd p) && negb (f_nan (snd p))) l = true -> zitems_ok l.
Proof.
  intros H. apply Forall_forall. intros x Hx. rewrite forallb_forall in H. specialize (H x Hx). cbn beta in H.
  apply andb_prop in H. destruct H as [H Hn]. apply andb_prop in H. destruct H.
  split; [now apply str_ok_lt | split; [now apply u64b_range | now apply negb_true_iff]].
Qed.
Lemma sentry_ok_good last es : sids_ok last es = true -> forallb sentry_ok es = true -> Forall sentry_good es.
Proof.
  revert last. induction es as [|e es IH]; intros last Hs Hf; constructor.
  - cbn [sids_ok] in Hs. cbn [forallb] in Hf.
    apply andb_prop in Hs. destruct Hs as [Hs _]. apply andb_prop in Hs. destruct Hs as [Hs H2].
    apply andb_prop in Hs. destruct Hs as [_ H1].
    apply andb_prop in Hf. destruct Hf as [Hf _]. unfold sentry_ok in Hf.
    apply andb_prop in Hf. destruct Hf as [Hp Hnd].
    unfold sentry_good. repeat split; try (apply u64b_range; assumption).
    + now apply forallb_pairs_ok.
    + now apply nodupb_NoDup.
  - cbn [sids_ok] in Hs. cbn [forallb] in Hf. apply andb_prop in Hs. destruct Hs as [_ Hs].
    apply andb_prop in Hf. destruct Hf as [_ Hf]. eapply IH; eauto.
Qed.

(** ------------------------------------------------------------------ *)
(** * C09: one key *)
Definition vtype (v : value) : Z := hd 0 (write_value [] v).
Definition vpayload (k : bytes) (v : value) : bytes := tl (write_value k v).
Lemma write_value_split k v : write_value k v = vtype v :: vpayload k v.
Proof. destruct v; reflexivity. Qed.

Lemma flat_map_strings_length (l : list bytes) : (length l <= length (flat_map write_string l))%nat.
Proof.
  induction l as [|a l IH]; cbn [flat_map length]; [lia|]. rewrite app_length.
  pose proof (write_string_length a) as Ha. remember (length (write_string a)) as x.
  remember (length (flat_map write_string l)) as z. lia.
Qed.
Lemma flat_map_zitems_length (l : list (bytes * Z)) : (length l <= length (flat_map write_zitem l))%nat.
Proof.
  induction l as [|a l IH]; cbn [flat_map length]; [lia|]. rewrite app_length.
  unfold write_zitem at 1. rewrite app_length.
  pose proof (write_string_length (fst a)) as Ha. remember (length (write_string (fst a))) as x.
  remember (length (flat_map write_zitem l)) as z. lia.
Qed.
Lemma flat_map_sentries_length (l : list (sid * list (bytes * bytes))) : (length l <= length (flat_map write_sentry l))%nat.
Proof.
  induction l as [|a l IH]; cbn [flat_map length]; [lia|]. rewrite app_length.
  unfold write_sentry at 1. rewrite app_length.
  pose proof (write_string_length (sid_text (fst a))) as Ha. remember (length (write_string (sid_text (fst a)))) as x.
  remember (length (flat_map write_sentry l)) as z. lia.
Qed.

Lemma load_kv_string now ds i ttl s :
  load_kv now ds i T_STRING ttl s =
    match read_string s with
    | (None, s1) => SErr s1 ds
    | (Some k, s1) =>
      match read_string s1 with
      | (None, s2) => SErr s2 ds
      | (Some v, s2) => lift_api tt s2 ds (api_set now ds i k v ttl)
      end
    end.
Proof. reflexivity. Qed.

Lemma load_kv_value_str now ds i d k b ttl r rv :
  get_dbi ds i = Some d -> len k < two32 -> len b < two32 ->
  exists rv', load_kv now ds i T_STRING ttl (mkrd (write_string k ++ write_string b ++ r) rv)
            = SOk tt (mkrd r rv') (set_dbi ds i (ins_key d k (VStr b) (deadline now ttl))).
Proof.
  intros Hd Hk Hb. rewrite load_kv_string.
  rewrite (read_string_write k _ rv Hk). rewrite (read_string_write b _ _ Hb).
  rewrite (api_set_fresh now ds i d k b ttl Hd). eexists. reflexivity.
Qed.

Lemma load_kv_set now ds i ttl s :
  load_kv now ds i T_SET ttl s =
    match read_string s with
    | (None, s1) => SErr s1 ds
    | (Some k, s1) =>
      match read_length s1 with
      | (None, s2) => SErr s2 ds
      | (Some n, s2) =>
        match read_strings (S (length (r_in s))) n [] s2 with
        | (None, s3) => SErr s3 ds
        | (Some ms, s3) =>
          match api_sadd ds i k ms with
          | None => SErr s3 ds
          | Some ds1 => lift_api tt s3 ds1 (api_expire_opt now ds1 i k ttl)
          end
        end
      end
    end.
Proof. reflexivity. Qed.

Lemma load_kv_value_set now ds i d k ms ttl r rv :
  get_dbi ds i = Some d -> get_entry d k = None -> len k < two32 -> len ms < two32 -> strs_ok ms -> NoDup ms ->
  exists rv', load_kv now ds i T_SET ttl (mkrd (write_string k ++ write_length (len ms) ++ flat_map write_string ms ++ r) rv)
            = SOk tt (mkrd r rv') (set_dbi ds i (ins_key d k (VSet ms) (deadline now ttl))).
Proof.
  intros Hd Hfr Hk Hn Hs Hnd. rewrite load_kv_set.
  rewrite (read_string_write k _ rv Hk).
  rewrite read_length_write by (pose proof (len_nonneg ms); lia).
  match goal with |- context [read_strings ?fu _ _ (mkrd _ ?vv)] =>
    destruct (read_strings_ok ms fu [] r vv) as [v' E] end.
  { cbn [r_in mkrd]. rewrite !app_length. pose proof (flat_map_strings_length ms). lia. }
  { exact Hs. }
  rewrite E. cbn [rev app].
  rewrite (api_sadd_fresh ds i d k ms Hd Hfr Hnd).
  rewrite (api_expire_opt_new now ds i d d k (VSet ms) ttl Hd). eexists. reflexivity.
Qed.

Lemma load_kv_hash now ds i ttl s :
  load_kv now ds i T_HASH ttl s =
    match read_string s with
    | (None, s1) => SErr s1 ds
    | (Some k, s1) =>
      match read_length s1 with
      | (None, s2) => SErr s2 ds
      | (Some n, s2) =>
        match read_pairs (S (length (r_in s))) n [] s2 with
        | (None, s3) => SErr s3 ds
        | (Some fv, s3) =>
          match api_hset ds i k fv with
          | None => SErr s3 ds
          | Some ds1 => lift_api tt s3 ds1 (api_expire_opt now ds1 i k ttl)
          end
        end
      end
    end.
Proof. reflexivity. Qed.

Lemma load_kv_value_hash now ds i d k fv ttl r rv :
  get_dbi ds i = Some d -> get_entry d k = None -> len k < two32 -> len fv < two32 -> pairs_ok fv -> NoDup (map fst fv) ->
  exists rv', load_kv now ds i T_HASH ttl (mkrd (write_string k ++ write_length (len fv) ++ flat_map write_pair fv ++ r) rv)
            = SOk tt (mkrd r rv') (set_dbi ds i (ins_key d k (VHash fv) (deadline now ttl))).
Proof.
  intros Hd Hfr Hk Hn Hs Hnd. rewrite load_kv_hash.
  rewrite (read_string_write k _ rv Hk).
  rewrite read_length_write by (pose proof (len_nonneg fv); lia).
  match goal with |- context [read_pairs ?fu _ _ (mkrd _ ?vv)] =>
    destruct (read_pairs_ok fv fu [] r vv) as [v' E] end.
  { cbn [r_in mkrd]. rewrite !app_length. pose proof (flat_map_pairs_length fv). lia. }
  { exact Hs. }
  rewrite E. cbn [rev app].
  rewrite (api_hset_fresh ds i d k fv Hd Hfr Hnd).
  rewrite (api_expire_opt_new now ds i d d k (VHash fv) ttl Hd). eexists. reflexivity.
Qed.

Lemma load_kv_zset now ds i ttl s :
  load_kv now ds i T_ZSET ttl s =
    match read_string s with
    | (None, s1) => SErr s1 ds
    | (Some k, s1) =>
      match read_length s1 with
      | (None, s2) => SErr s2 ds
      | (Some n, s2) =>
        match load_zitems (S (length (r_in s))) n ds i k s2 with
        | SOk _ s3 ds1 => lift_api tt s3 ds1 (api_expire_opt now ds1 i k ttl)
        | r => r
        end
      end
    end.
Proof. reflexivity. Qed.

Lemma load_kv_value_zset now ds i d k z ttl r rv :
  get_dbi ds i = Some d -> get_entry d k = None -> len k < two32 -> len z < two32 -> zitems_ok z ->
  z <> [] -> zs_rebuild z = z ->
  exists rv', load_kv now ds i T_ZSET ttl (mkrd (write_string k ++ write_length (len z) ++ flat_map write_zitem z ++ r) rv)
            = SOk tt (mkrd r rv') (set_dbi ds i (ins_key d k (VZSet z) (deadline now ttl))).
Proof.
  intros Hd Hfr Hk Hn Hs Hne Hcan. rewrite load_kv_zset.
  rewrite (read_string_write k _ rv Hk).
  rewrite read_length_write by (pose proof (len_nonneg z); lia).
  destruct z as [|[m sc] z']; [contradiction|].
  rewrite load_zitems_eq, len_pos_cons, len_cons_pred.
  apply Forall_cons_iff in Hs. destruct Hs as [(Hm & Hsc & Hnn) Hs]. cbn [fst snd] in Hm, Hsc, Hnn.
  cbn [flat_map]. unfold write_zitem at 1. cbn [fst snd]. rewrite <- !app_assoc.
  rewrite (read_string_write m _ _ Hm).
  rewrite (read_u64_le_ok sc _ _ Hsc).
  rewrite (api_zadd_fresh ds i d k m sc Hd Hfr Hnn).
  match goal with |- context [load_zitems ?fu _ _ _ _ (mkrd _ ?vv)] =>
    destruct (load_zitems_more z' fu ds i d d k [(m, sc)] r vv Hd Hs) as [v' E] end.
  { cbn [r_in mkrd]. rewrite !app_length. pose proof (flat_map_zitems_length z'). lia. }
  unfold mkrd in *. rewrite E.
  change (fold_left (fun a p => zs_insert (fst p) (snd p) a) z' [(m, sc)]) with (zs_rebuild ((m, sc) :: z')).
  rewrite Hcan.
  rewrite (api_expire_opt_new now ds i d d k _ ttl Hd). eexists. reflexivity.
Qed.

Lemma load_kv_list now ds i ttl s :
  load_kv now ds i T_LIST ttl s =
    match read_string s with
    | (None, s1) => SErr s1 ds
    | (Some k, s1) =>
      match read_length s1 with
      | (None, s2) => SErr s2 ds
      | (Some n, s2) =>
        if 1 <=? n then
          match read_string s2 with
          | (None, s3) => SErr s3 ds
          | (Some first, s3) =>
            let look :=
              if beq first marker && (2 <=? n) then
                match read_string s3 with
                | (None, s4) => (None, s4)
                | (Some second, s4) =>
                    if beq second marker then (Some (false, n - 1, None), s4)
                    else (Some (true, n, Some second), s4)
                end
              else (Some (beq first marker, n, None), s3) in
            match look with
            | (None, s4) => SErr s4 ds
            | (Some (is_stream, n', pre), s4) =>
              if is_stream then
                match api_set_value now ds i k (VStream (mkstream [] (0, 0) 0)) None with
                | None => SErr s4 ds
                | Some ds0 =>
                  match load_stream (S (length (r_in s))) ds0 i k 0 (n' - 1) pre s4 with
                  | SOk _ s5 ds1 => lift_api tt s5 ds1 (api_expire_opt now ds1 i k ttl)
                  | r => r
                  end
                end
              else
                match api_rpush ds i k [first] with
                | None => SErr s4 ds
                | Some ds1 =>
                  match read_strings_partial (S (length (r_in s))) (n' - 1) [] s4 with
                  | (els, ok, s5) =>
                    match (match els with [] => Some ds1 | _ => api_rpush ds1 i k els end) with
                    | None => SErr s5 ds1
                    | Some ds2 =>
                        if ok then lift_api tt s5 ds2 (api_expire_opt now ds2 i k ttl) else SErr s5 ds2
                    end
                  end
                end
            end
          end
        else lift_api tt s2 ds (api_expire_opt now ds i k ttl)
      end
    end.
Proof. reflexivity. Qed.

Lemma load_kv_value_list now ds i d k first rest ttl r rv :
  get_dbi ds i = Some d -> get_entry d k = None -> len k < two32 -> len (first :: rest) + 1 < two32 ->
  strs_ok (first :: rest) ->
  exists rv', load_kv now ds i T_LIST ttl
                (mkrd (write_string k ++ write_length (len (first :: rest) + (if list_escaped (first :: rest) then 1 else 0))
                       ++ (if list_escaped (first :: rest) then write_string marker else [])
                       ++ flat_map write_string (first :: rest) ++ r) rv)
            = SOk tt (mkrd r rv') (set_dbi ds i (ins_key d k (VList (first :: rest)) (deadline now ttl))).
Proof.
  intros Hd Hfr Hk Hn Hs. rewrite load_kv_list.
  rewrite (read_string_write k _ rv Hk).
  pose proof (len_nonneg rest) as Hr0.
  assert (Hl : len (first :: rest) = 1 + len rest) by apply len_cons.
  apply Forall_cons_iff in Hs. destruct Hs as [Hf Hrest].
  cbn [list_escaped]. destruct (beq first marker) eqn:Hm.
  - (* the marker is doubled in the file *)
    apply beq_eq in Hm. subst first.
    rewrite read_length_write by lia.
    replace (1 <=? len (marker :: rest) + 1) with true by lia.
    rewrite (read_string_write marker _ _ Hf). rewrite beq_refl.
    replace (2 <=? len (marker :: rest) + 1) with true by lia. cbn [andb].
    cbn [flat_map]. rewrite <- app_assoc.
    rewrite (read_string_write marker _ _ Hf). rewrite beq_refl. cbv zeta.
    rewrite (api_rpush_fresh ds i d k [marker] Hd Hfr).
    replace (len (marker :: rest) + 1 - 1 - 1) with (len rest) by lia.
    match goal with |- context [read_strings_partial ?fu _ _ (mkrd _ ?vv)] =>
      destruct (read_strings_partial_ok rest fu [] r vv) as [v' E] end.
    { cbn [r_in mkrd]. rewrite !app_length. pose proof (flat_map_strings_length rest). lia. }
    { exact Hrest. }
    unfold mkrd in *. rewrite E. cbn [rev app].
    destruct rest as [|x rest'].
    + rewrite (api_expire_opt_new now ds i d d k _ ttl Hd). eexists. reflexivity.
    + rewrite (api_rpush_more ds i d d k [marker] (x :: rest') Hd). cbn [app].
      rewrite (api_expire_opt_new now ds i d d k _ ttl Hd). eexists. reflexivity.
  - rewrite Z.add_0_r. cbn [app].
    rewrite read_length_write by lia.
    replace (1 <=? len (first :: rest)) with true by lia.
    cbn [flat_map]. rewrite <- app_assoc.
    rewrite (read_string_write first _ _ Hf). rewrite Hm. cbn [andb]. cbv zeta.
    rewrite (api_rpush_fresh ds i d k [first] Hd Hfr).
    replace (len (first :: rest) - 1) with (len rest) by lia.
    match goal with |- context [read_strings_partial ?fu _ _ (mkrd _ ?vv)] =>
      destruct (read_strings_partial_ok rest fu [] r vv) as [v' E] end.
    { cbn [r_in mkrd]. rewrite !app_length. pose proof (flat_map_strings_length rest). lia. }
    { exact Hrest. }
    unfold mkrd in *. rewrite E. cbn [rev app].
    destruct rest as [|x rest'].
    + rewrite (api_expire_opt_new now ds i d d k _ ttl Hd). eexists. reflexivity.
    + rewrite (api_rpush_more ds i d d k [first] (x :: rest') Hd). cbn [app].
      rewrite (api_expire_opt_new now ds i d d k _ ttl Hd). eexists. reflexivity.
Qed.

Lemma len_marker : len marker = 25.
Proof. reflexivity. Qed.

Lemma sid_text_not_marker id : 0 <= fst id < two64 -> beq (sid_text id) marker = false.
Proof.
  intros H. unfold sid_text.
  destruct (print_nat_head (fst id)) as (c & r & Hc & Hdig); [unfold two64 in H; lia|].
  rewrite Hc. cbn [app]. unfold marker. cbn [bs beq]. unfold is_digit in Hdig.
  replace (c =? _) with false by (cbn; lia). reflexivity.
Qed.
Lemma api_set_value_stream now ds i d k v :
  get_dbi ds i = Some d -> api_set_value now ds i k v None = Some (set_dbi ds i (new_key d k v)).
Proof. intros Hd. unfold api_set_value. rewrite Hd. reflexivity. Qed.

Lemma load_kv_value_stream now ds i d k s ttl r rv :
  get_dbi ds i = Some d -> get_entry d k = None -> len k < two32 ->
  stream_items (s_entries s) < two32 ->
  sids_ok (0, 0) (s_entries s) = true -> Forall sentry_good (s_entries s) ->
  exists rv', load_kv now ds i T_LIST ttl
                (mkrd (write_string k ++ write_length (stream_items (s_entries s)) ++ write_string marker
                       ++ flat_map write_sentry (s_entries s) ++ r) rv)
            = SOk tt (mkrd r rv') (set_dbi ds i (ins_key d k (norm_value (VStream s)) (deadline now ttl))).
Proof.
  intros Hd Hfr Hk Hn Hids Hg. rewrite load_kv_list.
  rewrite (read_string_write k _ rv Hk).
  pose proof (items_nonneg (s_entries s)) as Hi0. rewrite stream_items_items in *.
  rewrite read_length_write by lia.
  replace (1 <=? 1 + items (s_entries s)) with true by lia.
  rewrite (read_string_write marker) by (rewrite len_marker; unfold two32; lia).
  rewrite beq_refl. cbn [andb norm_value].
  destruct (s_entries s) as [|e es] eqn:Ees.
  - (* an emptied stream: the marker alone *)
    unfold items. cbn [fold_right flat_map app]. replace (2 <=? 1 + 0) with false by lia. cbv zeta.
    rewrite (api_set_value_stream now ds i d k _ Hd).
    replace (1 + 0 - 1) with 0 by lia. rewrite load_stream_eq. cbn [Z.leb Z.compare].
    rewrite (api_expire_opt_new now ds i d d k _ ttl Hd). eexists. reflexivity.
  - apply Forall_cons_iff in Hg. destruct Hg as [He Hes].
    pose proof (len_nonneg (snd e)) as Hl. pose proof (items_nonneg es) as Hi1.
    unfold items in Hi0, Hn |- *. cbn [fold_right] in *. fold (items es) in *.
    replace (2 <=? 1 + (2 + 2 * len (snd e) + items es)) with true by lia.
    cbn [flat_map]. rewrite write_sentry_tail. rewrite <- !app_assoc.
    rewrite (read_string_write _ _ _ (len_sid_text (fst e))).
    destruct He as (Hi1' & Hi2' & Hp & Hnd).
    rewrite (sid_text_not_marker (fst e) Hi1'). cbv zeta.
    rewrite (api_set_value_stream now ds i d k _ Hd).
    replace (1 + (2 + 2 * len (snd e) + items es) - 1) with (0 + 2 + 2 * len (snd e) + items es) by lia.
    set (ds0 := set_dbi ds i (new_key d k (VStream (mkstream [] (0, 0) 0)))).
    assert (Hd0 : get_dbi ds0 i = Some (new_key d k (VStream (mkstream [] (0, 0) 0)))) by (eapply get_set_dbi; eauto).
    match goal with |- context [load_stream (S ?fu) _ _ _ _ ?rem _ (mkrd _ ?vv)] =>
      destruct (load_stream_step_pre fu ds0 i k 0 rem e (flat_map write_sentry es ++ r) vv) as [v1 E1] end.
    { exact (conj Hi1' (conj Hi2' (conj Hp Hnd))). } { lia. } { lia. } { lia. }
    rewrite E1.
    match goal with |- context [load_stream ?fu ?dsx _ _ ?ix ?rem None (mkrd _ ?vv)] =>
      destruct (load_stream_all es fu dsx i k ix rem r vv) as [v' E2] end.
    { cbn [r_in mkrd]. rewrite !app_length. pose proof (flat_map_sentries_length es) as HA.
      pose proof (write_string_length k) as HB.
      remember (Datatypes.length (write_string k)) as n1. remember (Datatypes.length (flat_map write_sentry es)) as n2.
      remember (Datatypes.length es) as n3. clear - HA HB. lia. }
    { exact Hes. } { lia. } { lia. } { lia. }
    rewrite E2.
    (* the adds on the (empty) stream that set_value created *)
    cbn [sids_ok] in Hids. apply andb_prop in Hids. destruct Hids as [Hid1 Hidr].
    apply andb_prop in Hid1. destruct Hid1 as [Hid1 _]. apply andb_prop in Hid1. destruct Hid1 as [Hid1 _].
    apply negb_true_iff in Hid1.
    unfold ds0. rewrite (api_xadd_more ds i d d k [] (0, 0) 0 (fst e) (snd e) Hd Hid1). cbn [app].
    rewrite (xadd_all_more es ds i d d k [(fst e, snd e)] (fst e) (0 + 1) Hd Hidr).
    rewrite (api_expire_opt_new now ds i d d k _ ttl Hd).
    eexists. cbn [last_sid]. rewrite len_cons. destruct e as [eid ef]. cbn [fst snd app]. reflexivity.
Qed.

(** any well-formed value, fresh key: [write_value k v] is a plain type byte [t] followed by a
    payload [p] that [load_kv] turns into the key *)
Lemma load_kv_value now ds i d k v ttl r rv :
  get_dbi ds i = Some d -> get_entry d k = None -> str_ok k = true -> value_ok v = true ->
  exists t p rv', write_value k v = t :: p /\ 0 <= t <= 4 /\
    load_kv now ds i t ttl (mkrd (p ++ r) rv)
    = SOk tt (mkrd r rv') (set_dbi ds i (ins_key d k (norm_value v) (deadline now ttl))).
Proof.
  intros Hd Hfr Hk Hv. apply str_ok_lt in Hk.
  destruct v as [b|l|s|h|z|s]; unfold value_ok in Hv; unfold norm_value.
  - destruct (load_kv_value_str now ds i d k b ttl r rv Hd Hk (str_ok_lt _ Hv)) as [rv' E].
    exists T_STRING, (write_string k ++ write_string b), rv'. split; [reflexivity|]. split; [unfold T_STRING; lia|].
    rewrite <- app_assoc. exact E.
  - apply andb_prop in Hv. destruct Hv as [Hv Hm]. apply andb_prop in Hv. destruct Hv as [Hn Hs].
    unfold lt32 in Hn. apply Z.ltb_lt in Hn. apply forallb_strs_ok in Hs.
    destruct l as [|first rest]; [discriminate|].
    destruct (load_kv_value_list now ds i d k first rest ttl r rv Hd Hfr Hk Hn Hs) as [rv' E].
    exists T_LIST, (write_string k ++ write_length (len (first :: rest) + (if list_escaped (first :: rest) then 1 else 0))
                    ++ (if list_escaped (first :: rest) then write_string marker else []) ++ flat_map write_string (first :: rest)), rv'.
    split; [reflexivity|]. split; [unfold T_LIST; lia|]. rewrite <- !app_assoc. exact E.
  - apply andb_prop in Hv. destruct Hv as [Hv Hnd]. apply andb_prop in Hv. destruct Hv as [Hn Hs].
    unfold lt32 in Hn. apply Z.ltb_lt in Hn. apply forallb_strs_ok in Hs. apply nodupb_NoDup in Hnd.
    destruct (load_kv_value_set now ds i d k s ttl r rv Hd Hfr Hk Hn Hs Hnd) as [rv' E].
    exists T_SET, (write_string k ++ write_length (len s) ++ flat_map write_string s), rv'.
    split; [reflexivity|]. split; [unfold T_SET; lia|]. rewrite <- !app_assoc. exact E.
  - apply andb_prop in Hv. destruct Hv as [Hv Hnd]. apply andb_prop in Hv. destruct Hv as [Hn Hs].
    unfold lt32 in Hn. apply Z.ltb_lt in Hn. apply forallb_pairs_ok in Hs. apply nodupb_NoDup in Hnd.
    destruct (load_kv_value_hash now ds i d k h ttl r rv Hd Hfr Hk Hn Hs Hnd) as [rv' E].
    exists T_HASH, (write_string k ++ write_length (len h) ++ flat_map write_pair h), rv'.
    split; [reflexivity|]. split; [unfold T_HASH; lia|]. rewrite <- !app_assoc. exact E.
  - apply andb_prop in Hv. destruct Hv as [Hv Hcan]. apply andb_prop in Hv. destruct Hv as [Hv Hne].
    apply andb_prop in Hv. destruct Hv as [Hn Hs].
    unfold lt32 in Hn. apply Z.ltb_lt in Hn. apply forallb_zitems_ok in Hs. apply zlist_eqb_eq in Hcan.
    assert (Hne' : z <> []) by (intros ->; discriminate).
    destruct (load_kv_value_zset now ds i d k z ttl r rv Hd Hfr Hk Hn Hs Hne' Hcan) as [rv' E].
    exists T_ZSET, (write_string k ++ write_length (len z) ++ flat_map write_zitem z), rv'.
    split; [reflexivity|]. split; [unfold T_ZSET; lia|]. rewrite <- !app_assoc. exact E.
  - apply andb_prop in Hv. destruct Hv as [Hv Hse]. apply andb_prop in Hv. destruct Hv as [Hn Hids].
    unfold lt32 in Hn. apply Z.ltb_lt in Hn.
    pose proof (sentry_ok_good _ _ Hids Hse) as Hg.
    destruct (load_kv_value_stream now ds i d k s ttl r rv Hd Hfr Hk Hn Hids Hg) as [rv' E].
    exists T_LIST, (write_string k ++ write_length (stream_items (s_entries s)) ++ write_string marker
                    ++ flat_map write_sentry (s_entries s)), rv'.
    split; [reflexivity|]. split; [unfold T_LIST; lia|]. rewrite <- !app_assoc. exact E.
Qed.

(** ---- one iteration of the opcode loop ---- *)
Lemma load_loop_eq now wall f cur ds s :
  load_loop now wall (S f) cur ds s =
    match read_byte s with
    | (None, s1) => (LErr, ds, s1)
    | (Some op, s1) =>
      if op =? OP_EOF then
        match read_u64_le s1 with
        | (Some _, s2) => (LOk, ds, s2)
        | (None, s2) => (LErr, ds, s2)
        end
      else if op =? OP_SELECTDB then
        match read_length s1 with
        | (Some n, s2) => load_loop now wall f n ds s2
        | (None, s2) => (LErr, ds, s2)
        end
      else if op =? OP_RESIZEDB then
        match (_ <- read_length ;; read_length) s1 with
        | (Some _, s2) => load_loop now wall f cur ds s2
        | (None, s2) => (LErr, ds, s2)
        end
      else if op =? OP_AUX then
        match (_ <- read_string ;; read_string) s1 with
        | (Some _, s2) => load_loop now wall f cur ds s2
        | (None, s2) => (LErr, ds, s2)
        end
      else
        let r := if op =? OP_EXPIRE_MS then
                   match read_u64_le s1 with
                   | (Some e, s2) => load_kv_expiry now wall ds cur e s2
                   | (None, s2) => SErr s2 ds
                   end
                 else if op =? OP_EXPIRE_S then
                   match read_u32_le s1 with
                   | (Some e, s2) => load_kv_expiry now wall ds cur (e * 1000) s2
                   | (None, s2) => SErr s2 ds
                   end
                 else load_kv now ds cur op None s1 in
        match r with
        | SOk _ s2 ds' => load_loop now wall f cur ds' s2
        | SErr s2 ds' => (LErr, ds', s2)
        | SPanic s2 ds' => (LPanic, ds', s2)
        end
    end.
Proof. reflexivity. Qed.

Lemma load_loop_plain now wall f cur ds t rest rv :
  0 <= t <= 4 ->
  load_loop now wall (S f) cur ds (mkrd (t :: rest) rv) =
    match load_kv now ds cur t None (mkrd rest rv) with
    | SOk _ s2 ds' => load_loop now wall f cur ds' s2
    | SErr s2 ds' => (LErr, ds', s2)
    | SPanic s2 ds' => (LPanic, ds', s2)
    end.
Proof.
  intros Ht. rewrite load_loop_eq. rewrite read_byte_cons.
  replace (t =? OP_EOF) with false by (unfold OP_EOF; lia).
  replace (t =? OP_SELECTDB) with false by (unfold OP_SELECTDB; lia).
  replace (t =? OP_RESIZEDB) with false by (unfold OP_RESIZEDB; lia).
  replace (t =? OP_AUX) with false by (unfold OP_AUX; lia).
  replace (t =? OP_EXPIRE_MS) with false by (unfold OP_EXPIRE_MS; lia).
  replace (t =? OP_EXPIRE_S) with false by (unfold OP_EXPIRE_S; lia).
  reflexivity.
Qed.

Lemma load_loop_expire now wall f cur ds e t rest rv :
  0 <= e < two64 ->
  load_loop now wall (S f) cur ds (mkrd (OP_EXPIRE_MS :: u64_le e ++ t :: rest) rv) =
    match load_kv now ds cur t (if wall <? e then Some (e - wall) else Some 0) (mkrd rest rv) with
    | SOk _ s2 ds' => load_loop now wall f cur ds' s2
    | SErr s2 ds' => (LErr, ds', s2)
    | SPanic s2 ds' => (LPanic, ds', s2)
    end.
Proof.
  intros He. rewrite load_loop_eq. rewrite read_byte_cons.
  change (OP_EXPIRE_MS =? OP_EOF) with false. change (OP_EXPIRE_MS =? OP_SELECTDB) with false.
  change (OP_EXPIRE_MS =? OP_RESIZEDB) with false. change (OP_EXPIRE_MS =? OP_AUX) with false.
  change (OP_EXPIRE_MS =? OP_EXPIRE_MS) with true. cbv iota zeta.
  rewrite (read_u64_le_ok e _ rv He). unfold load_kv_expiry. rewrite read_byte_cons. reflexivity.
Qed.

(** closed form of [ins_key] on a fresh key *)
Definition fresh (d : db) (k : bytes) : Prop := ~ In k (map fst (d_data d)) /\ ~ In k (map fst (d_index d)).
Lemma ins_key_fresh d k v odl : fresh d k ->
  ins_key d k v odl =
  {| d_data := (k, {| e_val := v; e_exp := odl |}) :: d_data d;
     d_index := match odl with Some dl => (k, dl) :: d_index d | None => d_index d end |}.
Proof.
  intros [H1 H2]. destruct odl as [dl|]; unfold ins_key, index_set, put_entry, aset; cbn [d_data d_index].
  - now rewrite (aremove_notin k _ H1), (aremove_notin k _ H2).
  - now rewrite (aremove_notin k _ H1).
Qed.

Lemma set_nth_same {A} (l : list A) : forall i x, nth_error l i = Some x -> set_nth l i x = l.
Proof. induction l as [|a l IH]; intros [|i] x; cbn; try discriminate; intros H; [now inversion H | f_equal; auto]. Qed.
Lemma set_dbi_same ds i d : get_dbi ds i = Some d -> set_dbi ds i d = ds.
Proof. unfold get_dbi, set_dbi. destruct ((i <? 0) || (ndb <=? i)); [discriminate|]. apply set_nth_same. Qed.

(** ------------------------------------------------------------------ *)
(** * C09: all keys of one database *)
Definition aged_pair (now now' ws wl : Z) (ke : bytes * entry) : bytes * entry :=
  (fst ke, aged_entry now now' ws wl (snd ke)).
Definition idx_of (now now' ws wl : Z) (ke : bytes * entry) : list (bytes * Z) :=
  match e_exp (snd ke) with Some t => [(fst ke, shift now now' ws wl t)] | None => [] end.
Definition live (now : Z) (l : list (bytes * entry)) : list (bytes * entry) :=
  filter (fun ke => negb (expired now (snd ke))) l.
(** the database after the keys [l] were loaded on top of [d] *)
Definition add_keys (now now' ws wl : Z) (d : db) (l : list (bytes * entry)) : db :=
  {| d_data := rev (map (aged_pair now now' ws wl) (live now l)) ++ d_data d;
     d_index := rev (flat_map (idx_of now now' ws wl) (live now l)) ++ d_index d |}.

Lemma write_key_expired now ws ke : expired now (snd ke) = true -> write_key now ws ke = [].
Proof. destruct ke as [k e]. cbn [snd]. intros H. unfold write_key. now rewrite H. Qed.

(** one live key: one iteration of the loop *)
Lemma load_loop_key now now' ws wl f cur ds d k e r rv :
  0 <= ws ->
  get_dbi ds cur = Some d -> fresh d k ->
  expired now e = false -> entry_ok now ws wl (k, e) = true ->
  exists rv',
    load_loop now' wl (S f) cur ds (mkrd (write_key now ws (k, e) ++ r) rv)
    = load_loop now' wl f cur
        (set_dbi ds cur {| d_data := aged_pair now now' ws wl (k, e) :: d_data d;
                           d_index := idx_of now now' ws wl (k, e) ++ d_index d |}) (mkrd r rv')
    /\ write_key now ws (k, e) <> [].
Proof.
  intros Hws Hd Hfr Hlive Hok.
  unfold entry_ok in Hok. cbn [fst snd] in Hok. rewrite Hlive in Hok. cbn [orb] in Hok.
  apply andb_prop in Hok. destruct Hok as [Hok Hexp]. apply andb_prop in Hok. destruct Hok as [Hk Hv].
  assert (Hget : get_entry d k = None) by (apply alookup_notin; apply Hfr).
  unfold write_key. rewrite Hlive. unfold aged_pair, idx_of, aged_entry. cbn [fst snd].
  destruct (e_exp e) as [t|] eqn:Et.
  - apply Z.ltb_lt in Hexp.
    assert (Hnow : now < t) by (unfold expired in Hlive; rewrite Et in Hlive; apply Z.leb_gt in Hlive; exact Hlive).
    assert (Hexpiry : expiry_of now ws t = ws + (t - now)).
    { unfold expiry_of, u64_max, two64 in *. lia. }
    rewrite Hexpiry.
    set (ttl := if wl <? ws + (t - now) then Some (ws + (t - now) - wl) else Some 0).
    destruct (load_kv_value now' ds cur d k (e_val e) ttl r rv Hd Hget Hk Hv)
      as (ty & p & rv' & Hw & Hty & E).
    rewrite Hw. cbn [app]. rewrite <- app_assoc. cbn [app].
    rewrite load_loop_expire by (unfold two64 in *; lia).
    fold ttl. rewrite E. exists rv'. split; [|discriminate].
    rewrite (ins_key_fresh d k _ _ Hfr). unfold deadline, shift, ttl. cbn [app].
    destruct (wl <? ws + (t - now)) eqn:Ew.
    + apply Z.ltb_lt in Ew. rewrite Z.max_r by lia. reflexivity.
    + apply Z.ltb_ge in Ew. rewrite Z.max_l by lia. reflexivity.
  - destruct (load_kv_value now' ds cur d k (e_val e) None r rv Hd Hget Hk Hv)
      as (ty & p & rv' & Hw & Hty & E).
    rewrite Hw. cbn [app].
    rewrite load_loop_plain by exact Hty.
    rewrite E. exists rv'. split; [|discriminate].
    rewrite (ins_key_fresh d k _ _ Hfr). unfold deadline. cbn [app]. reflexivity.
Qed.

Lemma add_keys_cons_live now now' ws wl d k e l : expired now e = false ->
  add_keys now now' ws wl {| d_data := aged_pair now now' ws wl (k, e) :: d_data d;
                             d_index := idx_of now now' ws wl (k, e) ++ d_index d |} l
  = add_keys now now' ws wl d ((k, e) :: l).
Proof.
  intros Ex. unfold add_keys, live. cbn [filter snd]. rewrite Ex. cbn [negb map flat_map rev d_data d_index].
  rewrite rev_app_distr.
  assert (Hr : rev (idx_of now now' ws wl (k, e)) = idx_of now now' ws wl (k, e))
    by (unfold idx_of; destruct (e_exp (snd (k, e))); reflexivity).
  rewrite Hr. rewrite <- !app_assoc. reflexivity.
Qed.

Lemma get_dbi_bound ds i d : get_dbi ds i = Some d -> 0 <= i < ndb.
Proof. unfold get_dbi. destruct ((i <? 0) || (ndb <=? i)) eqn:E; [discriminate|]. intros _. lia. Qed.

Lemma load_loop_keys now now' ws wl cur l : forall F ds d r rv,
  0 <= ws ->
  get_dbi ds cur = Some d ->
  NoDup (map fst l) -> (forall k, In k (map fst l) -> fresh d k) ->
  forallb (entry_ok now ws wl) l = true ->
  (length (flat_map (write_key now ws) l ++ r) < F)%nat ->
  exists F' rv', (length r < F')%nat /\
    load_loop now' wl F cur ds (mkrd (flat_map (write_key now ws) l ++ r) rv)
    = load_loop now' wl F' cur (set_dbi ds cur (add_keys now now' ws wl d l)) (mkrd r rv').
Proof.
  induction l as [|[k e] l IH]; intros F ds d r rv Hws Hd Hnd Hfr Hok HF.
  - exists F, rv. split; [exact HF|]. cbn [flat_map app]. unfold add_keys, live. cbn [filter map flat_map rev app].
    destruct d as [dd di]. cbn [d_data d_index]. now rewrite (set_dbi_same ds cur _ Hd).
  - cbn [forallb] in Hok. apply andb_prop in Hok. destruct Hok as [Hke Hok].
    cbn [map fst] in Hnd. apply NoDup_cons_iff in Hnd. destruct Hnd as [Hnk Hnd].
    cbn [flat_map] in *. rewrite <- app_assoc in *.
    destruct (expired now e) eqn:Ex.
    + (* not written at all *)
      rewrite (write_key_expired now ws (k, e) Ex) in *. cbn [app] in *.
      destruct (IH F ds d r rv Hws Hd Hnd) as (F' & rv' & HF' & E); auto.
      { intros k' Hin. apply Hfr. cbn [map fst In]. now right. }
      exists F', rv'. split; [exact HF'|]. rewrite E. unfold add_keys, live. cbn [filter snd]. rewrite Ex. reflexivity.
    + destruct F as [|f]; [cbn [length] in HF; lia|].
      assert (Hfk : fresh d k) by (apply Hfr; cbn [map fst In]; now left).
      destruct (load_loop_key now now' ws wl f cur ds d k e (flat_map (write_key now ws) l ++ r) rv Hws Hd Hfk Ex Hke)
        as (rv1 & E1 & Hne).
      rewrite E1.
      set (d1 := {| d_data := aged_pair now now' ws wl (k, e) :: d_data d;
                    d_index := idx_of now now' ws wl (k, e) ++ d_index d |}).
      assert (Hd1 : get_dbi (set_dbi ds cur d1) cur = Some d1) by (eapply get_set_dbi; eauto).
      destruct (IH f (set_dbi ds cur d1) d1 r rv1 Hws Hd1 Hnd) as (F' & rv' & HF' & E2); auto.
      { intros k' Hin. unfold fresh, d1. cbn [d_data d_index map fst].
        assert (Hneq : k <> k') by (intros ->; contradiction).
        destruct (Hfr k') as [Ha Hb]; [cbn [map fst In]; now right|].
        split.
        - unfold aged_pair. cbn [fst In]. intros [H|H]; [contradiction | contradiction].
        - unfold idx_of. cbn [fst snd]. destruct (e_exp e); cbn [app map fst In]; [intros [H|H]; contradiction | exact Hb]. }
      { rewrite app_length in HF. destruct (write_key now ws (k, e)) as [|c w] eqn:Ew; [contradiction|].
        cbn [length] in HF. lia. }
      exists F', rv'. split; [exact HF'|]. rewrite E2. rewrite set_set_dbi.
      unfold d1. rewrite (add_keys_cons_live now now' ws wl d k e l Ex). reflexivity.
Qed.

(** ------------------------------------------------------------------ *)
(** * C09: one database, all databases, the whole file *)
Lemma add_keys_empty now now' ws wl d :
  add_keys now now' ws wl empty_db (d_data d) = aged_db now now' ws wl d.
Proof. unfold add_keys, aged_db, live_keys, live, empty_db. cbn [d_data d_index]. now rewrite !app_nil_r. Qed.

Lemma load_loop_selectdb now wall f cur ds n r rv :
  0 <= n < two32 ->
  load_loop now wall (S f) cur ds (mkrd (OP_SELECTDB :: write_length n ++ r) rv)
  = load_loop now wall f n ds (mkrd r rv).
Proof.
  intros Hn. rewrite load_loop_eq, read_byte_cons.
  change (OP_SELECTDB =? OP_EOF) with false. change (OP_SELECTDB =? OP_SELECTDB) with true. cbv iota.
  now rewrite read_length_write.
Qed.
Lemma load_loop_resizedb now wall f cur ds n m r rv :
  0 <= n < two32 -> 0 <= m < two32 ->
  load_loop now wall (S f) cur ds (mkrd (OP_RESIZEDB :: write_length n ++ write_length m ++ r) rv)
  = load_loop now wall f cur ds (mkrd r rv).
Proof.
  intros Hn Hm. rewrite load_loop_eq, read_byte_cons.
  change (OP_RESIZEDB =? OP_EOF) with false. change (OP_RESIZEDB =? OP_SELECTDB) with false.
  change (OP_RESIZEDB =? OP_RESIZEDB) with true. cbv iota.
  rewrite (bind_ok _ _ _ n (mkrd (write_length m ++ r) rv)) by (apply read_length_write; exact Hn).
  now rewrite read_length_write.
Qed.
Lemma load_loop_aux now wall f cur ds k v r rv :
  len k < two32 -> len v < two32 ->
  exists rv', load_loop now wall (S f) cur ds (mkrd (write_aux k v ++ r) rv)
            = load_loop now wall f cur ds (mkrd r rv').
Proof.
  intros Hk Hv. unfold write_aux. cbn [app]. rewrite load_loop_eq, read_byte_cons.
  change (OP_AUX =? OP_EOF) with false. change (OP_AUX =? OP_SELECTDB) with false.
  change (OP_AUX =? OP_RESIZEDB) with false. change (OP_AUX =? OP_AUX) with true. cbv iota.
  rewrite <- app_assoc.
  rewrite (bind_ok _ _ _ k (mkrd (write_string v ++ r) (rs_resv rv k))) by (apply read_string_write; exact Hk).
  rewrite (read_string_write v r _ Hv). eexists. reflexivity.
Qed.

Lemma load_loop_db now now' ws wl i d : forall F cur ds r rv,
  0 <= ws -> get_dbi ds i = Some empty_db -> db_ok now ws wl d = true ->
  (length (write_db now ws i d ++ r) < F)%nat ->
  exists F' cur' rv', (length r < F')%nat /\
    load_loop now' wl F cur ds (mkrd (write_db now ws i d ++ r) rv)
    = load_loop now' wl F' cur' (set_dbi ds i (aged_db now now' ws wl d)) (mkrd r rv').
Proof.
  intros F cur ds r rv Hws Hd Hok HF.
  pose proof (get_dbi_bound _ _ _ Hd) as Hi. unfold ndb in Hi.
  unfold db_ok in Hok. apply andb_prop in Hok. destruct Hok as [Hok Hall]. apply andb_prop in Hok.
  destruct Hok as [Hn Hnd]. unfold lt32 in Hn. apply Z.ltb_lt in Hn. apply nodupb_NoDup in Hnd.
  rewrite <- add_keys_empty.
  unfold write_db in *. destruct (d_data d) as [|ke l] eqn:Edata.
  - exists F, cur, rv. split; [exact HF|]. cbn [app].
    replace (add_keys now now' ws wl empty_db []) with empty_db by reflexivity.
    now rewrite (set_dbi_same ds i _ Hd).
  - rewrite <- Edata in *. clear Edata ke l.
    pose proof (len_nonneg (d_data d)) as Hl0.
    cbn [app] in *. rewrite <- !app_assoc in *. cbn [app] in *. rewrite <- !app_assoc in *.
    destruct F as [|[|f]]; [cbn [length] in HF; lia | |].
    { cbn [length] in HF. rewrite !app_length in HF. pose proof (write_length_length i).
      remember (length (write_length i)) as x. cbn [length] in HF. lia. }
    rewrite load_loop_selectdb by (unfold two32; lia).
    rewrite load_loop_resizedb by lia.
    destruct (load_loop_keys now now' ws wl i (d_data d) f ds empty_db r rv Hws Hd Hnd) as (F' & rv' & HF' & E).
    + intros k _. unfold fresh, empty_db. cbn [d_data d_index map]. split; intros [].
    + exact Hall.
    + cbn [length] in HF. rewrite !app_length in HF. cbn [length] in HF. rewrite !app_length in HF.
      pose proof (write_length_length i). remember (length (write_length i)) as x.
      remember (length (write_length (len (d_data d)))) as y.
      remember (length (flat_map (write_key now ws) (d_data d))) as z.
      rewrite app_length. rewrite <- Heqz. lia.
    + exists F', i, rv'. split; [exact HF'|]. exact E.
Qed.

Lemma nth_error_app_mid {A} (p : list A) x q : nth_error (p ++ x :: q) (length p) = Some x.
Proof. induction p; cbn; auto. Qed.
Lemma set_nth_app_mid {A} (p : list A) x y q : set_nth (p ++ x :: q) (length p) y = p ++ y :: q.
Proof. induction p; cbn; auto. now f_equal. Qed.

Lemma load_loop_dbs now now' ws wl l : forall pre F cur r rv,
  0 <= ws -> (length pre + length l = 16)%nat -> forallb (db_ok now ws wl) l = true ->
  (length (write_dbs now ws (Z.of_nat (length pre)) l ++ r) < F)%nat ->
  exists F' cur' rv', (length r < F')%nat /\
    load_loop now' wl F cur (pre ++ repeat empty_db (length l)) (mkrd (write_dbs now ws (Z.of_nat (length pre)) l ++ r) rv)
    = load_loop now' wl F' cur' (pre ++ map (aged_db now now' ws wl) l) (mkrd r rv').
Proof.
  induction l as [|d l IH]; intros pre F cur r rv Hws Hlen Hok HF.
  - exists F, cur, rv. split; [exact HF|]. reflexivity.
  - cbn [forallb] in Hok. apply andb_prop in Hok. destruct Hok as [Hd Hok].
    cbn [write_dbs] in *. rewrite <- app_assoc in *. cbn [length repeat map] in *.
    assert (Hget : get_dbi (pre ++ empty_db :: repeat empty_db (length l)) (Z.of_nat (length pre)) = Some empty_db).
    { unfold get_dbi, ndb. replace ((Z.of_nat (length pre) <? 0) || (16 <=? Z.of_nat (length pre))) with false by lia.
      rewrite Nat2Z.id. apply nth_error_app_mid. }
    destruct (load_loop_db now now' ws wl (Z.of_nat (length pre)) d F cur _ (write_dbs now ws (Z.of_nat (length pre) + 1) l ++ r) rv Hws Hget Hd HF)
      as (F1 & cur1 & rv1 & HF1 & E1).
    rewrite E1. unfold set_dbi. rewrite Nat2Z.id, set_nth_app_mid.
    replace (pre ++ aged_db now now' ws wl d :: repeat empty_db (length l))
      with ((pre ++ [aged_db now now' ws wl d]) ++ repeat empty_db (length l)) by (now rewrite <- app_assoc).
    replace (Z.of_nat (length pre) + 1) with (Z.of_nat (length (pre ++ [aged_db now now' ws wl d]))) in *
      by (rewrite app_length; cbn [length]; lia).
    destruct (IH (pre ++ [aged_db now now' ws wl d]) F1 cur1 r rv1 Hws) as (F' & cur' & rv' & HF' & E2).
    + rewrite app_length. cbn [length]. lia.
    + exact Hok.
    + exact HF1.
    + exists F', cur', rv'. split; [exact HF'|]. rewrite E2. now rewrite <- app_assoc.
Qed.

Lemma read_header_ok r rv : read_header (mkrd (magic ++ version4 ++ r) rv) = (Some tt, mkrd r rv).
Proof.
  unfold read_header.
  rewrite (bind_ok _ _ _ magic (mkrd (version4 ++ r) rv)) by (apply read_exact_app; reflexivity).
  rewrite beq_refl. cbn [negb].
  rewrite (bind_ok _ _ _ version4 (mkrd r rv)) by (apply read_exact_app; reflexivity).
  reflexivity.
Qed.

Lemma byte_sum_nonneg_mod b : 0 <= byte_sum b mod two64 < two64.
Proof. apply Z.mod_pos_bound. reflexivity. Qed.

Lemma empty_dbs_repeat : empty_dbs = [] ++ repeat empty_db 16.
Proof. reflexivity. Qed.

Theorem roundtrip ver ctime now now' ws wl ds :
  0 <= ws -> len ver < two32 -> rt_guard now ws wl ds = true ->
  load_status (load now' wl (save ver ctime now ws ds)) = LOk /\
  load_dbs (load now' wl (save ver ctime now ws ds)) = map (aged_db now now' ws wl) ds.
Proof.
  intros Hws Hver Hg. unfold rt_guard in Hg. apply andb_prop in Hg. destruct Hg as [Hlen Hok].
  apply Nat.eqb_eq in Hlen.
  unfold load, load_from. set (b := save ver ctime now ws ds).
  assert (Hb : b = magic ++ version4 ++ write_aux (bs "redis-ver") ver ++ write_aux (bs "ctime") (print_nat ctime)
                   ++ write_dbs now ws 0 ds ++ OP_EOF :: u64_le (byte_sum (save_body ver ctime now ws ds) mod two64)).
  { unfold b, save, save_body. rewrite <- !app_assoc. reflexivity. }
  remember (S (length b)) as F eqn:HF0.
  assert (HF : (length b < F)%nat) by lia. clear HF0.
  rewrite Hb in *. clear Hb b.
  fold (mkrd (magic ++ version4 ++ write_aux (bs "redis-ver") ver ++ write_aux (bs "ctime") (print_nat ctime)
              ++ write_dbs now ws 0 ds ++ OP_EOF :: u64_le (byte_sum (save_body ver ctime now ws ds) mod two64)) 0).
  rewrite read_header_ok.
  rewrite !app_length in HF.
  destruct F as [|[|f]]; [lia | change (length magic) with 5%nat in HF; lia |].
  destruct (load_loop_aux now' wl (S f) 0 empty_dbs (bs "redis-ver") ver
              (write_aux (bs "ctime") (print_nat ctime) ++ write_dbs now ws 0 ds ++
               OP_EOF :: u64_le (byte_sum (save_body ver ctime now ws ds) mod two64)) 0) as [rv1 E1];
    [reflexivity | exact Hver |].
  rewrite E1.
  destruct (load_loop_aux now' wl f 0 empty_dbs (bs "ctime") (print_nat ctime)
              (write_dbs now ws 0 ds ++ OP_EOF :: u64_le (byte_sum (save_body ver ctime now ws ds) mod two64)) rv1) as [rv2 E2];
    [reflexivity | pose proof (len_print_nat ctime); unfold two32; lia |].
  rewrite E2.
  destruct (load_loop_dbs now now' ws wl ds [] f 0
              (OP_EOF :: u64_le (byte_sum (save_body ver ctime now ws ds) mod two64)) rv2 Hws) as (F' & cur' & rv' & HF' & E3).
  - cbn [length]. lia.
  - exact Hok.
  - cbn [length]. change (Z.of_nat 0) with 0.
    unfold write_aux in HF. cbn [length app] in HF. rewrite !app_length in HF.
    change (length magic) with 5%nat in HF. change (length version4) with 4%nat in HF.
    rewrite app_length. cbn [length] in *. lia.
  - cbn [app length] in E3. change (Z.of_nat 0) with 0 in E3. rewrite Hlen in E3.
    change (repeat empty_db 16) with empty_dbs in E3.
    rewrite E3.
    destruct F' as [|f']; [cbn [length] in HF'; lia|].
    rewrite load_loop_eq, read_byte_cons. change (OP_EOF =? OP_EOF) with true. cbv iota.
    replace (u64_le (byte_sum (save_body ver ctime now ws ds) mod two64))
      with (u64_le (byte_sum (save_body ver ctime now ws ds) mod two64) ++ []) by apply app_nil_r.
    rewrite read_u64_le_ok by apply byte_sum_nonneg_mod.
    split; reflexivity.
Qed.

(** deadlines: the reloaded deadline is the saved one moved by the difference of the two clocks'
    advances, but never before the load instant *)
Lemma shift_max now now' ws wl t :
  shift now now' ws wl t = Z.max now' (t + ((now' - now) - (wl - ws))).
Proof. unfold shift. lia. Qed.
Lemma shift_drift now now' ws wl t : wl <= ws + (t - now) ->
  shift now now' ws wl t - t = (now' - now) - (wl - ws).
Proof. unfold shift. lia. Qed.
Lemma shift_same_speed now now' ws wl t : now' - now = wl - ws -> now' <= t -> shift now now' ws wl t = t.
Proof. unfold shift. lia. Qed.
(** a deadline that passed while the server was down: the reloaded entry is expired at once *)
Lemma aged_expired_iff now now' ws wl e t : e_exp e = Some t ->
  expired now' (aged_entry now now' ws wl e) = (ws + (t - now) <=? wl).
Proof.
  intros H. unfold expired, aged_entry. cbn [e_exp]. rewrite H. unfold shift.
  destruct (ws + (t - now) <=? wl) eqn:E; [apply Z.leb_le in E; apply Z.leb_le | apply Z.leb_gt in E; apply Z.leb_gt]; lia.
Qed.

(** ------------------------------------------------------------------ *)
(** * C10 (3): the loader never takes the Panic outcome (either profile: the only checked
      arithmetic on file data, the stream field count, is checked explicitly since bcfe7be) *)
Definition is_panic {A} (r : step A) : bool := match r with SPanic _ _ => true | _ => false end.

Lemma load_stream_no_panic fuel : forall ds i k idx remaining pre s,
  is_panic (load_stream fuel ds i k idx remaining pre s) = false.
Proof.
  induction fuel as [|f IH]; intros ds i k idx remaining pre s; rewrite load_stream_eq; [reflexivity|].
  destruct (remaining <=? idx); [reflexivity|].
  destruct (remaining <? idx + 2); [reflexivity|].
  destruct (match pre with Some id => (Some id, s) | None => read_string s end) as [[id_str|] s1]; [|reflexivity].
  destruct (read_string s1) as [[fc_str|] s2]; [|reflexivity].
  cbv zeta.
  match goal with |- context [if ?c then SOk tt s2 ds else _] => destruct c; [reflexivity|] end.
  match goal with |- context [read_pairs ?a ?b ?c ?d] => destruct (read_pairs a b c d) as [[fv|] s3]; [|reflexivity] end.
  apply IH.
Qed.

Lemma load_zitems_no_panic fuel : forall n ds i k s, is_panic (load_zitems fuel n ds i k s) = false.
Proof.
  induction fuel as [|f IH]; intros n ds i k s; rewrite load_zitems_eq; destruct (n <=? 0); try reflexivity.
  destruct (read_string s) as [[m|] s1]; [|reflexivity].
  destruct (read_u64_le s1) as [[sc|] s2]; [|reflexivity].
  destruct (api_zadd ds i k m sc); [apply IH | reflexivity].
Qed.

Lemma lift_api_no_panic {A} (a : A) s ds r : is_panic (lift_api a s ds r) = false.
Proof. destruct r; reflexivity. Qed.

Lemma load_kv_no_panic now ds i vt ttl s : is_panic (load_kv now ds i vt ttl s) = false.
Proof.
  unfold load_kv.
  destruct (vt =? T_STRING).
  { destruct (read_string s) as [[k|] s1]; [|reflexivity].
    destruct (read_string s1) as [[v|] s2]; [|reflexivity]. apply lift_api_no_panic. }
  destruct ((vt =? T_ZSET) || (vt =? T_ZSET2)).
  { destruct (read_string s) as [[k|] s1]; [|reflexivity].
    destruct (read_length s1) as [[n|] s2]; [|reflexivity].
    pose proof (load_zitems_no_panic (S (length (r_in s))) n ds i k s2) as H.
    destruct (load_zitems (S (length (r_in s))) n ds i k s2); [apply lift_api_no_panic | reflexivity | discriminate]. }
  destruct (vt =? T_LIST).
  { destruct (read_string s) as [[k|] s1]; [|reflexivity].
    destruct (read_length s1) as [[n|] s2]; [|reflexivity].
    destruct (1 <=? n); [|apply lift_api_no_panic].
    destruct (read_string s2) as [[first|] s3]; [|reflexivity].
    cbv zeta.
    match goal with |- context [match ?look with pair _ _ => _ end] =>
      destruct look as [[[[is_stream n'] pre]|] s4]; [|reflexivity] end.
    destruct is_stream.
    - destruct (api_set_value now ds i k (VStream (mkstream [] (0, 0) 0)) None) as [ds0|]; [|reflexivity].
      pose proof (load_stream_no_panic (S (length (r_in s))) ds0 i k 0 (n' - 1) pre s4) as H.
      destruct (load_stream (S (length (r_in s))) ds0 i k 0 (n' - 1) pre s4); [apply lift_api_no_panic | reflexivity | discriminate].
    - destruct (api_rpush ds i k [first]); [|reflexivity].
      destruct (read_strings_partial (S (length (r_in s))) (n' - 1) [] s4) as [[els ok] s5].
      match goal with |- context [match ?x with Some ds2 => _ | None => _ end] => destruct x; [|reflexivity] end.
      destruct ok; [apply lift_api_no_panic | reflexivity]. }
  destruct (vt =? T_SET).
  { destruct (read_string s) as [[k|] s1]; [|reflexivity].
    destruct (read_length s1) as [[n|] s2]; [|reflexivity].
    destruct (read_strings (S (length (r_in s))) n [] s2) as [[ms|] s3]; [|reflexivity].
    destruct (api_sadd ds i k ms); [apply lift_api_no_panic | reflexivity]. }
  destruct (vt =? T_HASH).
  { destruct (read_string s) as [[k|] s1]; [|reflexivity].
    destruct (read_length s1) as [[n|] s2]; [|reflexivity].
    destruct (read_pairs (S (length (r_in s))) n [] s2) as [[fv|] s3]; [|reflexivity].
    destruct (api_hset ds i k fv); [apply lift_api_no_panic | reflexivity]. }
  reflexivity.
Qed.

Lemma load_loop_no_panic now wall fuel : forall cur ds s,
  fst (fst (load_loop now wall fuel cur ds s)) <> LPanic.
Proof.
  induction fuel as [|f IH]; intros cur ds s; [cbn; discriminate|].
  rewrite load_loop_eq.
  destruct (read_byte s) as [[op|] s1]; [|cbn; discriminate].
  destruct (op =? OP_EOF). { destruct (read_u64_le s1) as [[x|] s2]; cbn; discriminate. }
  destruct (op =? OP_SELECTDB). { destruct (read_length s1) as [[x|] s2]; [apply IH | cbn; discriminate]. }
  destruct (op =? OP_RESIZEDB).
  { match goal with |- context [match ?m s1 with _ => _ end] => destruct (m s1) as [[x|] s2] end; [apply IH | cbn; discriminate]. }
  destruct (op =? OP_AUX).
  { match goal with |- context [match ?m s1 with _ => _ end] => destruct (m s1) as [[x|] s2] end; [apply IH | cbn; discriminate]. }
  cbv zeta.
  match goal with |- context [match ?r with SOk _ _ _ => _ | SErr _ _ => _ | SPanic _ _ => _ end] =>
    assert (Hp : is_panic r = false); [|destruct r; [apply IH | cbn; discriminate | discriminate]] end.
  destruct (op =? OP_EXPIRE_MS).
  { destruct (read_u64_le s1) as [[e|] s2]; [|reflexivity]. unfold load_kv_expiry.
    destruct (read_byte s2) as [[vt|] s3]; [apply load_kv_no_panic | reflexivity]. }
  destruct (op =? OP_EXPIRE_S).
  { destruct (read_u32_le s1) as [[e|] s2]; [|reflexivity]. unfold load_kv_expiry.
    destruct (read_byte s2) as [[vt|] s3]; [apply load_kv_no_panic | reflexivity]. }
  apply load_kv_no_panic.
Qed.

Theorem load_no_panic now wall ds0 b : load_status (load_from now wall ds0 b) <> LPanic.
Proof.
  unfold load_status, load_from. destruct (read_header _) as [[u|] s1]; [apply load_loop_no_panic | cbn; discriminate].
Qed.

(** ------------------------------------------------------------------ *)
(** * C10 (3): the allocation bound of the repaired read_string: with a file of [L] bytes no
      request of the loader exceeds [64 KiB + 2 L + 32] - whatever lengths the file declares *)
Definition abound (L : Z) : Z := 65536 + 2 * L + 32.
Definition rd_ok (L : Z) (s : rd) : Prop := len (r_in s) <= L /\ r_resv s <= abound L.
Definition res_ok {A} (L : Z) (r : rres A) : Prop := rd_ok L (snd r).

Lemma take_len l : forall n a b, take l n = Some (a, b) -> len b <= len l /\ (0 <= n -> n <= len l).
Proof.
  induction l as [|c l IH]; intros n a b; cbn [take]; destruct (n <=? 0) eqn:E.
  - intros H. inversion H; subst. apply Z.leb_le in E. split; [lia | intros; unfold len; cbn [length]; lia].
  - discriminate.
  - intros H. inversion H; subst. apply Z.leb_le in E. pose proof (len_nonneg (c :: l)). split; lia.
  - destruct (take l (n - 1)) as [[a' b']|] eqn:E2; [|discriminate]. intros H. inversion H; subst.
    destruct (IH _ _ _ E2) as [H1 H2]. rewrite len_cons. split; lia.
Qed.
Lemma read_exact_ok L n s : rd_ok L s -> res_ok L (read_exact n s).
Proof.
  intros [Hb Hr]. unfold read_exact, res_ok. destruct (take (r_in s) n) as [[a b]|] eqn:E; cbn [snd].
  - destruct (take_len _ _ _ _ E) as [H1 _]. split; cbn [r_in r_resv]; lia.
  - split; assumption.
Qed.
Lemma read_byte_ok L s : rd_ok L s -> res_ok L (read_byte s).
Proof.
  intros [Hb Hr]. unfold read_byte, res_ok. destruct (r_in s) as [|c r] eqn:E; cbn [snd].
  - split; [rewrite E; exact Hb | exact Hr].
  - rewrite len_cons in Hb. split; cbn [r_in r_resv]; lia.
Qed.
Lemma read_u32_be_ok' L s : rd_ok L s -> res_ok L (read_u32_be s).
Proof.
  intros Hs. unfold read_u32_be, bind. pose proof (read_exact_ok L 4 s Hs) as H1.
  destruct (read_exact 4 s) as [[a|] s1]; exact H1.
Qed.
Lemma read_length_ok L s : rd_ok L s -> res_ok L (read_length s).
Proof.
  intros Hs. unfold read_length, bind. pose proof (read_byte_ok L s Hs) as H1.
  destruct (read_byte s) as [[first|] s1]; [|exact H1]. unfold res_ok in H1. cbn [snd] in H1.
  destruct (first / 64 =? 0); [exact H1|].
  destruct (first / 64 =? 1).
  { pose proof (read_byte_ok L s1 H1) as G1. destruct (read_byte s1) as [[second|] s2]; exact G1. }
  destruct (first / 64 =? 2); [apply read_u32_be_ok'; exact H1 | exact H1].
Qed.
Lemma read_string_ok L s : 0 <= L -> rd_ok L s -> res_ok L (read_string s).
Proof.
  intros HL Hs. unfold read_string, bind. pose proof (read_length_ok L s Hs) as H1.
  destruct (read_length s) as [[n|] s1]; [|exact H1].
  unfold res_ok in H1. cbn [snd] in H1. destruct H1 as [Hb Hr].
  unfold reserve. cbn [r_in r_resv]. unfold res_ok.
  pose proof (len_nonneg (r_in s1)) as H0.
  destruct (take (r_in s1) n) as [[a b]|] eqn:E; cbn [snd]; split; cbn [r_in r_resv]; unfold abound in *.
  - destruct (take_len _ _ _ _ E) as [G1 _]. lia.
  - destruct (take_len _ _ _ _ E) as [G1 G2]. destruct (Z.le_gt_cases 0 n); [specialize (G2 H)|]; lia.
  - rewrite len_nil. lia.
  - lia.
Qed.
Lemma read_u64_le_ok' L s : rd_ok L s -> res_ok L (read_u64_le s).
Proof.
  intros Hs. unfold read_u64_le, bind. pose proof (read_exact_ok L 8 s Hs) as H1.
  destruct (read_exact 8 s) as [[a|] s1]; exact H1.
Qed.
Lemma read_u32_le_ok' L s : rd_ok L s -> res_ok L (read_u32_le s).
Proof.
  intros Hs. unfold read_u32_le, bind. pose proof (read_exact_ok L 4 s Hs) as H1.
  destruct (read_exact 4 s) as [[a|] s1]; exact H1.
Qed.

Ltac step_rs L HL s H := let G := fresh "G" in
  pose proof (read_string_ok L s HL H) as G; unfold res_ok in G; destruct (read_string s) as [[?x|] ?s]; cbn [snd] in G.

Section Bound.
Variable L : Z.
Hypothesis HL : 0 <= L.

Lemma read_strings_ok' fuel : forall n acc s, rd_ok L s -> res_ok L (read_strings fuel n acc s).
Proof.
  induction fuel as [|f IH]; intros n acc s Hs; rewrite read_strings_eq; destruct (n <=? 0); try exact Hs.
  unfold bind. step_rs L HL s Hs; [apply IH; exact G | exact G].
Qed.
Lemma read_pairs_ok' fuel : forall n acc s, rd_ok L s -> res_ok L (read_pairs fuel n acc s).
Proof.
  induction fuel as [|f IH]; intros n acc s Hs; rewrite read_pairs_eq; destruct (n <=? 0); try exact Hs.
  unfold bind. step_rs L HL s Hs; [|exact G]. step_rs L HL s0 G; [apply IH; exact G0 | exact G0].
Qed.
Lemma read_strings_partial_ok' fuel : forall n acc s, rd_ok L s -> rd_ok L (snd (read_strings_partial fuel n acc s)).
Proof.
  induction fuel as [|f IH]; intros n acc s Hs; rewrite read_strings_partial_eq; destruct (n <=? 0); try exact Hs.
  step_rs L HL s Hs; [apply IH; exact G | exact G].
Qed.

Definition step_ok {A} (r : step A) : Prop :=
  match r with SOk _ s _ => rd_ok L s | SErr s _ => rd_ok L s | SPanic s _ => rd_ok L s end.
Lemma lift_api_ok {A} (a : A) s ds r : rd_ok L s -> step_ok (lift_api a s ds r).
Proof. intros H. destruct r; exact H. Qed.

Lemma load_zitems_ok fuel : forall n ds i k s, rd_ok L s -> step_ok (load_zitems fuel n ds i k s).
Proof.
  induction fuel as [|f IH]; intros n ds i k s Hs; rewrite load_zitems_eq; destruct (n <=? 0); try exact Hs.
  step_rs L HL s Hs; [|exact G].
  pose proof (read_u64_le_ok' L s0 G) as G2. unfold res_ok in G2.
  destruct (read_u64_le s0) as [[sc|] s2]; cbn [snd] in G2; [|exact G2].
  destruct (api_zadd ds i k x sc); [apply IH; exact G2 | exact G2].
Qed.

Lemma load_stream_ok fuel : forall ds i k idx remaining pre s, rd_ok L s ->
  step_ok (load_stream fuel ds i k idx remaining pre s).
Proof.
  induction fuel as [|f IH]; intros ds i k idx remaining pre s Hs; rewrite load_stream_eq; [exact Hs|].
  destruct (remaining <=? idx); [exact Hs|]. destruct (remaining <? idx + 2); [exact Hs|].
  assert (G : rd_ok L (snd (match pre with Some id => (Some id, s) | None => read_string s end))).
  { destruct pre; [exact Hs | apply (read_string_ok L s HL Hs)]. }
  destruct (match pre with Some id => (Some id, s) | None => read_string s end) as [[id_str|] s0]; cbn [snd] in G; [|exact G].
  step_rs L HL s0 G; [|exact G0]. cbv zeta.
  match goal with |- context [if ?c then SOk tt s1 ds else _] => destruct c; [exact G0|] end.
  match goal with |- context [read_pairs ?a ?b ?c ?d] =>
    pose proof (read_pairs_ok' a b c d G0) as G1; unfold res_ok in G1;
    destruct (read_pairs a b c d) as [[fv|] s3]; cbn [snd] in G1; [|exact G1] end.
  apply IH. exact G1.
Qed.

Lemma load_kv_ok now ds i vt ttl s : rd_ok L s -> step_ok (load_kv now ds i vt ttl s).
Proof.
  intros Hs. unfold load_kv.
  destruct (vt =? T_STRING).
  { step_rs L HL s Hs; [|exact G]. step_rs L HL s0 G; [apply lift_api_ok; exact G0 | exact G0]. }
  destruct ((vt =? T_ZSET) || (vt =? T_ZSET2)).
  { step_rs L HL s Hs; [|exact G].
    pose proof (read_length_ok L s0 G) as G1. unfold res_ok in G1.
    destruct (read_length s0) as [[n|] s2]; cbn [snd] in G1; [|exact G1].
    pose proof (load_zitems_ok (S (length (r_in s))) n ds i x s2 G1) as G2.
    destruct (load_zitems (S (length (r_in s))) n ds i x s2); cbn [step_ok] in G2;
      [apply lift_api_ok; exact G2 | exact G2 | exact G2]. }
  destruct (vt =? T_LIST).
  { step_rs L HL s Hs; [|exact G].
    pose proof (read_length_ok L s0 G) as G1. unfold res_ok in G1.
    destruct (read_length s0) as [[n|] s2]; cbn [snd] in G1; [|exact G1].
    destruct (1 <=? n); [|apply lift_api_ok; exact G1].
    step_rs L HL s2 G1; [|exact G0].
    cbv zeta.
    match goal with |- context [match ?look with pair _ _ => _ end] =>
      assert (G4 : rd_ok L (snd look)) end.
    { destruct (beq x0 marker && (2 <=? n)); [|exact G0].
      step_rs L HL s1 G0; [|exact G2]. destruct (beq x1 marker); exact G2. }
    match goal with |- context [match ?look with pair _ _ => _ end] =>
      destruct look as [[[[is_stream n'] pre]|] s4]; cbn [snd] in G4; [|exact G4] end.
    destruct is_stream.
    - destruct (api_set_value now ds i x (VStream (mkstream [] (0, 0) 0)) None) as [ds0|]; [|exact G4].
      pose proof (load_stream_ok (S (length (r_in s))) ds0 i x 0 (n' - 1) pre s4 G4) as G2.
      destruct (load_stream (S (length (r_in s))) ds0 i x 0 (n' - 1) pre s4); cbn [step_ok] in G2;
        [apply lift_api_ok; exact G2 | exact G2 | exact G2].
    - destruct (api_rpush ds i x [x0]); [|exact G4].
      pose proof (read_strings_partial_ok' (S (length (r_in s))) (n' - 1) [] s4 G4) as G2.
      destruct (read_strings_partial (S (length (r_in s))) (n' - 1) [] s4) as [[els ok] s5]. cbn [snd] in G2.
      match goal with |- context [match ?y with Some ds2 => _ | None => _ end] => destruct y; [|exact G2] end.
      destruct ok; [apply lift_api_ok; exact G2 | exact G2]. }
  destruct (vt =? T_SET).
  { step_rs L HL s Hs; [|exact G].
    pose proof (read_length_ok L s0 G) as G1. unfold res_ok in G1.
    destruct (read_length s0) as [[n|] s2]; cbn [snd] in G1; [|exact G1].
    pose proof (read_strings_ok' (S (length (r_in s))) n [] s2 G1) as G2. unfold res_ok in G2.
    destruct (read_strings (S (length (r_in s))) n [] s2) as [[ms|] s3]; cbn [snd] in G2; [|exact G2].
    destruct (api_sadd ds i x ms); [apply lift_api_ok; exact G2 | exact G2]. }
  destruct (vt =? T_HASH).
  { step_rs L HL s Hs; [|exact G].
    pose proof (read_length_ok L s0 G) as G1. unfold res_ok in G1.
    destruct (read_length s0) as [[n|] s2]; cbn [snd] in G1; [|exact G1].
    pose proof (read_pairs_ok' (S (length (r_in s))) n [] s2 G1) as G2. unfold res_ok in G2.
    destruct (read_pairs (S (length (r_in s))) n [] s2) as [[fv|] s3]; cbn [snd] in G2; [|exact G2].
    destruct (api_hset ds i x fv); [apply lift_api_ok; exact G2 | exact G2]. }
  exact Hs.
Qed.

Lemma load_loop_ok now wall fuel : forall cur ds s, rd_ok L s -> rd_ok L (snd (load_loop now wall fuel cur ds s)).
Proof.
  induction fuel as [|f IH]; intros cur ds s Hs; [exact Hs|].
  rewrite load_loop_eq.
  pose proof (read_byte_ok L s Hs) as H1. unfold res_ok in H1.
  destruct (read_byte s) as [[op|] s1]; cbn [snd] in H1; [|exact H1].
  destruct (op =? OP_EOF).
  { pose proof (read_u64_le_ok' L s1 H1) as G. unfold res_ok in G. destruct (read_u64_le s1) as [[x|] s2]; exact G. }
  destruct (op =? OP_SELECTDB).
  { pose proof (read_length_ok L s1 H1) as G. unfold res_ok in G.
    destruct (read_length s1) as [[x|] s2]; cbn [snd] in G; [apply IH; exact G | exact G]. }
  destruct (op =? OP_RESIZEDB).
  { unfold bind. pose proof (read_length_ok L s1 H1) as G. unfold res_ok in G.
    destruct (read_length s1) as [[x|] s2]; cbn [snd] in G; [|exact G].
    pose proof (read_length_ok L s2 G) as G2. unfold res_ok in G2.
    destruct (read_length s2) as [[y|] s3]; cbn [snd] in G2; [apply IH; exact G2 | exact G2]. }
  destruct (op =? OP_AUX).
  { unfold bind. step_rs L HL s1 H1; [|exact G]. step_rs L HL s0 G; [apply IH; exact G0 | exact G0]. }
  cbv zeta.
  match goal with |- context [match ?r with SOk _ _ _ => _ | SErr _ _ => _ | SPanic _ _ => _ end] =>
    assert (Hp : step_ok r); [|destruct r; cbn [step_ok] in Hp; [apply IH; exact Hp | exact Hp | exact Hp]] end.
  destruct (op =? OP_EXPIRE_MS).
  { pose proof (read_u64_le_ok' L s1 H1) as G. unfold res_ok in G.
    destruct (read_u64_le s1) as [[e|] s2]; cbn [snd] in G; [|exact G]. unfold load_kv_expiry.
    pose proof (read_byte_ok L s2 G) as G2. unfold res_ok in G2.
    destruct (read_byte s2) as [[vt|] s3]; cbn [snd] in G2; [apply load_kv_ok; exact G2 | exact G2]. }
  destruct (op =? OP_EXPIRE_S).
  { pose proof (read_u32_le_ok' L s1 H1) as G. unfold res_ok in G.
    destruct (read_u32_le s1) as [[e|] s2]; cbn [snd] in G; [|exact G]. unfold load_kv_expiry.
    pose proof (read_byte_ok L s2 G) as G2. unfold res_ok in G2.
    destruct (read_byte s2) as [[vt|] s3]; cbn [snd] in G2; [apply load_kv_ok; exact G2 | exact G2]. }
  apply load_kv_ok. exact H1.
Qed.
End Bound.

Theorem load_resv_bounded now wall ds0 b :
  load_resv (load_from now wall ds0 b) <= 65536 + 2 * len b + 32.
Proof.
  pose proof (len_nonneg b) as HL. unfold load_resv, load_from.
  assert (H0 : rd_ok (len b) {| r_in := b; r_resv := 0 |}) by (split; cbn [r_in r_resv]; unfold abound; lia).
  assert (H1 : res_ok (len b) (read_header {| r_in := b; r_resv := 0 |})).
  { unfold read_header, bind. pose proof (read_exact_ok (len b) 5 _ H0) as G. unfold res_ok in G.
    destruct (read_exact 5 _) as [[m|] s1]; cbn [snd] in G; [|exact G].
    destruct (negb (beq m magic)); [exact G|].
    pose proof (read_exact_ok (len b) 4 _ G) as G2. unfold res_ok in G2.
    destruct (read_exact 4 s1) as [[v|] s2]; cbn [snd] in G2; [|exact G2].
    destruct (parse_unsigned 65535 v); exact G2. }
  unfold res_ok in H1. destruct (read_header _) as [[u|] s1]; cbn [snd] in H1.
  - apply (load_loop_ok (len b) HL now wall _ 0 ds0 s1 H1).
  - apply H1.
Qed.

(** ------------------------------------------------------------------ *)
(** * C10 (1): the background-save flag *)
Definition flag_inv (s : pstate) : Prop :=
  ps_flag s = match ps_running s with Some _ => true | None => false end.
Lemma ps_step_inv s e : flag_inv s -> flag_inv (ps_step s e).
Proof.
  unfold flag_inv. intros H. destruct e as [a|a|]; cbn [ps_step].
  - exact H.
  - destruct (ps_flag s) eqn:E; [rewrite E; exact H | reflexivity].
  - destruct (ps_running s) eqn:Er; [reflexivity | rewrite Er; exact H].
Qed.
Lemma ps_hist_inv hist : forall s, flag_inv s -> flag_inv (fold_left ps_step hist s).
Proof. induction hist as [|e h IH]; intros s H; cbn [fold_left]; [exact H | apply IH, ps_step_inv, H]. Qed.
(** whenever no save is running the flag is clear *)
Lemma flag_clear_when_idle hist d :
  let s := fold_left ps_step hist (ps_init d) in ps_running s = None -> ps_flag s = false.
Proof.
  intros s Hr. pose proof (ps_hist_inv hist (ps_init d) eq_refl) as H. fold s in H.
  unfold flag_inv in H. now rewrite Hr in H.
Qed.
(** hence a later bgsave is accepted, and when its thread ends undisturbed the dump is exactly
    its complete output and the flag is clear again *)
Lemma later_bgsave_works hist d ws :
  let s := fold_left ps_step hist (ps_init d) in
  ps_running s = None ->
  let a := {| a_writes := ws; a_failat := None; a_open_fails := false; a_rename_fails := false |} in
  let s1 := ps_step s (EvBgStart a) in
  ps_running s1 = Some a /\
  let s2 := ps_step s1 EvBgEnd in
  dk_dump (ps_disk s2) = Some (concat ws) /\ ps_flag s2 = false /\ ps_running s2 = None.
Proof.
  intros s Hr a s1. pose proof (flag_clear_when_idle hist d Hr) as Hf. fold s in Hf.
  unfold s1. cbn [ps_step]. rewrite Hf. cbn [ps_running]. split; [reflexivity|].
  cbn [ps_step ps_running ps_disk ps_flag]. unfold run_attempt, a. cbn [a_writes a_failat a_open_fails a_rename_fails].
  rewrite good_save. repeat split.
Qed.
(** the dump stays complete over every history of foreground and background saves *)
Lemma ps_dump_complete hist : forall d0,
  let s := fold_left ps_step hist (ps_init d0) in
  dk_dump (ps_disk s) = dk_dump d0 \/
  exists a, In a (flat_map ev_attempts hist) /\ dk_dump (ps_disk s) = Some (concat (a_writes a)).
Proof.
  intros d0.
  assert (G : forall h s0,
    (forall a, ps_running s0 = Some a -> True) ->
    let s := fold_left ps_step h s0 in
    dk_dump (ps_disk s) = dk_dump (ps_disk s0) \/
    exists a, (In a (flat_map ev_attempts h) \/ ps_running s0 = Some a) /\ dk_dump (ps_disk s) = Some (concat (a_writes a))).
  { induction h as [|e h IH]; intros s0 _; cbn [fold_left flat_map].
    - left. reflexivity.
    - specialize (IH (ps_step s0 e) (fun _ _ => I)). cbn zeta in IH.
      destruct e as [a|a|]; cbn [ps_step ev_attempts app] in *.
      + destruct IH as [H|[a' [[Hin|Hrun] H]]].
        * cbn [ps_disk] in H. destruct (run_attempt_cases (ps_disk s0) a) as [C|C].
          -- left. congruence.
          -- right. exists a. split; [left; now left | congruence].
        * right. exists a'. split; [left; now right | exact H].
        * right. exists a'. split; [right; exact Hrun | exact H].
      + destruct (ps_flag s0).
        * destruct IH as [H|[a' [[Hin|Hrun] H]]]; [left; exact H | right; exists a'; split; [left; now right | exact H] | right; exists a'; split; [right; exact Hrun | exact H]].
        * destruct IH as [H|[a' [[Hin|Hrun] H]]]; cbn [ps_disk ps_running] in *.
          -- left. exact H.
          -- right. exists a'. split; [left; now right | exact H].
          -- right. exists a'. inversion Hrun; subst. split; [left; now left | exact H].
      + destruct (ps_running s0) as [a0|] eqn:Er.
        * destruct IH as [H|[a' [[Hin|Hrun] H]]]; cbn [ps_disk ps_running] in *.
          -- destruct (run_attempt_cases (ps_disk s0) a0) as [C|C].
             ++ left. congruence.
             ++ right. exists a0. split; [right; reflexivity | congruence].
          -- right. exists a'. split; [left; exact Hin | exact H].
          -- discriminate.
        * destruct IH as [H|[a' [[Hin|Hrun] H]]]; [left; exact H | right; exists a'; split; [left; exact Hin | exact H] | rewrite Er in Hrun; discriminate]. }
  intros s. destruct (G hist (ps_init d0) (fun _ _ => I)) as [H|[a [[Hin|Hrun] H]]].
  - left. exact H.
  - right. exists a. split; assumption.
  - discriminate.
Qed.

(** the flag discipline the state machine [ps_step] assumes, read off rdb.rs on every run *)
Lemma gen_bgsave_flag_discipline :
  Generated.rdb_bgsave_sets_flag_before_spawn = true /\ Generated.rdb_bgsave_clears_flag_after_match = true.
Proof. split; reflexivity. Qed.

(** saves are serialised (aa75b1d): save() holds the save lock from before write_snapshot (which
    opens, writes and closes the temporary file) to its end, rename included, and nothing else
    calls write_snapshot - so no two saves ever share the temporary file, and each save is the
    undisturbed attempt of [run_attempt], which is what [dump_always_complete] quantifies over *)
(** the one-instant read the snapshot model [snapshot_key] assumes: write_snapshot reads a key by one
    call of get_with_ttl, which copies a sorted set's members while it holds the shard lock (ec066f0;
    before, the shared set was handed out and its members were read later than its TTL) *)
Lemma gen_snapshot_read_is_one_instant :
  Generated.engine_get_with_ttl_copies_zset = true /\ Generated.rdb_snapshot_reads_per_key = 1.
Proof. split; reflexivity. Qed.
Lemma gen_tmp_opened_afresh : Generated.rdb_tmp_opened_afresh = true.
Proof. reflexivity. Qed.
Lemma gen_saves_serialised :
  Generated.rdb_save_serialised = true /\ Generated.rdb_write_snapshot_callers = [bs "save"].
Proof. split; reflexivity. Qed.

(** ------------------------------------------------------------------ *)
(** * C10 (2): value/TTL of one key under a concurrent save *)
Lemma states_of_reaches l : forall s l', In (fold_left cstep l s) (states_of s (l ++ l')).
Proof.
  induction l as [|c l IH]; intros s l'; cbn [fold_left app states_of].
  - destruct l'; cbn [states_of]; now left.
  - right. apply IH.
Qed.
(** whatever commands run during the save, the pair written for a key is the (value, deadline)
    the key had at one single instant of the save; a key is left out only if it was absent or
    past its deadline at that instant *)
Lemma snapshot_from_one_instant now s0 before after :
  let at_read := fold_left cstep before s0 in
  In at_read (states_of s0 (before ++ after)) /\
  (snapshot_key now s0 before after = at_read \/
   (snapshot_key now s0 before after = None /\ exists v dl, at_read = Some (v, Some dl) /\ dl <= now)).
Proof.
  intros at_read. split; [apply states_of_reaches|].
  unfold snapshot_key. fold at_read. destruct at_read as [[v [dl|]]|]; [|left; reflexivity | left; reflexivity].
  destruct (dl <=? now) eqn:E; [right | left; reflexivity].
  split; [reflexivity|]. exists v, dl. split; [reflexivity | now apply Z.leb_le].
Qed.
