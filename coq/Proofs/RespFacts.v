From Ferrous Require Import Base.Bytes Model.Resp.
Open Scope Z_scope.

Lemma reserve_request_bounded declared data : reserve_request declared data <= len data.
Proof. unfold reserve_request. lia. Qed.
