(** Proofs about Model/Resp.v (C20). *)
From Ferrous Require Import Base.Bytes Model.Resp Proofs.BytesFacts.
Open Scope Z_scope.

Lemma reserve_request_bounded declared data : reserve_request declared data <= len data.
Proof. unfold reserve_request. lia. Qed.

(** induction principle for the nested frame type *)
Section FrameInd.
  Variable P : frame -> Prop.
  Hypothesis Hsimple : forall b, P (FSimple b).
  Hypothesis Herror : forall b, P (FError b).
  Hypothesis Hint : forall z, P (FInt z).
  Hypothesis Hbulk : forall b, P (FBulk b).
  Hypothesis Hnb : P FNullBulk.
  Hypothesis Harr : forall l, Forall P l -> P (FArray l).
  Hypothesis Hna : P FNullArray.
  Hypothesis Hnr : P FNoResponse.
  Hypothesis Hnull : P FNull.
  Hypothesis Hbool : forall b, P (FBool b).
  Hypothesis Hdbl : forall b, P (FDouble b).
  Hypothesis Hmap : forall l, Forall P l -> P (FMap l).
  Hypothesis Hset : forall l, Forall P l -> P (FSet l).
  Fixpoint frame_ind' (f : frame) : P f :=
    let list_ind := fix list_ind (l : list frame) : Forall P l :=
      match l with
      | [] => Forall_nil P
      | x :: r => Forall_cons x (frame_ind' x) (list_ind r)
      end in
    match f with
    | FSimple b => Hsimple b | FError b => Herror b | FInt z => Hint z | FBulk b => Hbulk b
    | FNullBulk => Hnb | FArray l => Harr l (list_ind l) | FNullArray => Hna
    | FNoResponse => Hnr | FNull => Hnull | FBool b => Hbool b | FDouble b => Hdbl b
    | FMap l => Hmap l (list_ind l) | FSet l => Hset l (list_ind l)
    end.
End FrameInd.

Ltac ev_eqb := repeat match goal with
  | |- context [Z.eqb ?a ?b] =>
      let v := eval vm_compute in (Z.eqb a b) in
      lazymatch v with
      | true => change (Z.eqb a b) with true
      | false => change (Z.eqb a b) with false
      end
  end; cbv iota.

Section Facts.
Variable dparse : bytes -> option Z.
Variable dprint : Z -> bytes.
Notation parse_frame := (parse_frame dparse).
Notation ser := (ser dprint).
Notation ser_list := (ser_list dprint).
Notation wf := (wf dparse dprint).

(** unfolding equations *)
Lemma ser_array l : ser (FArray l) =
  match ser_list l with (b, ok) => (42 :: print_nat (len l) ++ crlf ++ b, ok) end.
Proof. reflexivity. Qed.
Lemma ser_map l : ser (FMap l) =
  match ser_list l with (b, ok) => (37 :: print_nat (len l / 2) ++ crlf ++ b, ok) end.
Proof. reflexivity. Qed.
Lemma ser_set l : ser (FSet l) =
  match ser_list l with (b, ok) => (126 :: print_nat (len l) ++ crlf ++ b, ok) end.
Proof. reflexivity. Qed.

Lemma parse_seq_unfold pf fuel n data acc :
  parse_seq pf fuel n data acc =
  if n <=? 0 then SDone (rev acc) data else
  match fuel with
  | O => SMore
  | S fuel' =>
      match pf data with
      | Done f rest => parse_seq pf fuel' (n - 1) rest (f :: acc)
      | More => SMore
      | Err => SErr
      end
  end.
Proof. destruct fuel; reflexivity. Qed.

(** a sequence of elements each of which round-trips *)
Lemma parse_seq_roundtrip (pf : bytes -> pres) : forall l fuel acc rest,
  Forall (fun f => exists b, ser f = (b, true) /\ forall r, pf (b ++ r) = Done f r) l ->
  (length l <= fuel)%nat ->
  exists b, ser_list l = (b, true) /\
    parse_seq pf fuel (len l) (b ++ rest) acc = SDone (rev acc ++ l) rest.
Proof.
  induction l as [|x l IH]; intros fuel acc rest Hall Hfuel.
  - exists []. split; [reflexivity|]. rewrite parse_seq_unfold. cbn. rewrite app_nil_r. reflexivity.
  - inversion Hall as [|? ? (bx & Hsx & Hpx) Hl]; subst.
    destruct fuel as [|fuel]; [cbn in Hfuel; lia|].
    destruct (IH fuel (x :: acc) rest Hl ltac:(cbn in Hfuel; lia)) as (bl & Hsl & Hpl).
    exists (bx ++ bl). split.
    + cbn [Resp.ser_list]. rewrite Hsx, Hsl. reflexivity.
    + rewrite parse_seq_unfold. rewrite len_cons.
      replace (1 + len l <=? 0) with false by (pose proof (len_nonneg l); lia).
      rewrite <- app_assoc, Hpx. replace (1 + len l - 1) with (len l) by lia.
      rewrite Hpl. cbn [rev]. rewrite <- app_assoc. reflexivity.
Qed.

Lemma ser_nonempty f b : ser f = (b, true) -> b <> [].
Proof.
  destruct f; try (cbn [Resp.ser]; intros H; inversion H; discriminate).
  - rewrite ser_array. destruct (ser_list l). intros H; inversion H; discriminate.
  - cbn [Resp.ser]. destruct b0; intros H; inversion H; discriminate.
  - rewrite ser_map. destruct (ser_list kvs). intros H; inversion H; discriminate.
  - rewrite ser_set. destruct (ser_list l). intros H; inversion H; discriminate.
Qed.

Lemma ser_list_length l : forall b, ser_list l = (b, true) -> (length l <= length b)%nat.
Proof.
  induction l as [|x l IH]; intros b H; [cbn; lia|].
  cbn [Resp.ser_list] in H. destruct (ser x) as [bx [|]] eqn:Ex; [|discriminate].
  destruct (ser_list l) as [bl ok] eqn:El. inversion H; subst.
  specialize (IH bl eq_refl). pose proof (ser_nonempty _ _ Ex).
  destruct bx; [congruence|]. rewrite app_length. cbn [length]. lia.
Qed.

Lemma zskipn_app {A} (a b : list A) : zskipn (len a) (a ++ b) = b.
Proof. unfold zskipn, len. rewrite Nat2Z.id. rewrite skipn_app, skipn_all, Nat.sub_diag. reflexivity. Qed.
Lemma zfirstn_app {A} (a b : list A) : zfirstn (len a) (a ++ b) = a.
Proof. unfold zfirstn, len. rewrite Nat2Z.id. rewrite firstn_app, firstn_all, Nat.sub_diag. cbn. apply app_nil_r. Qed.

Lemma clean_no_cr b : Forall (fun c => c <> 13) (clean b).
Proof.
  unfold clean. induction b as [|c b IH]; cbn [map]; constructor; [|exact IH].
  unfold clean1. destruct ((c =? 13) || (c =? 10)) eqn:E; lia.
Qed.
Lemma clean_no_crlf b : has_crlf (clean b) = false.
Proof. apply no_cr_no_crlf, clean_no_cr. Qed.
Lemma clean_id b : no_crnl b = true -> clean b = b.
Proof.
  unfold no_crnl, clean. induction b as [|c b IH]; cbn [forallb map]; [reflexivity|].
  intros H. apply andb_prop in H as [H1 H2]. rewrite (IH H2). unfold clean1.
  apply negb_true_iff in H1. rewrite H1. reflexivity.
Qed.

Lemma pow_bound n : 0 <= n <= u64_max -> 0 <= n < 10 ^ 40.
Proof. pose proof u64_lt_pow. lia. Qed.

(** ---- C20 round-trip ---- *)
Lemma roundtrip_aux : forall f d, wf d f ->
  exists b, ser f = (b, true) /\ forall rest, parse_frame d (b ++ rest) = Done f rest.
Proof.
  induction f using frame_ind'; intros [|d'] Hwf; try (exact (False_ind _ Hwf)); cbn [Resp.wf] in Hwf.
  - (* simple *) eexists; split; [reflexivity|]. intros rest.
    cbn [app Resp.parse_frame]. ev_eqb. rewrite <- app_assoc, split_crlf_line by apply clean_no_crlf.
    rewrite (clean_id _ Hwf). reflexivity.
  - eexists; split; [reflexivity|]. intros rest.
    cbn [app Resp.parse_frame]. ev_eqb. rewrite <- app_assoc, split_crlf_line by apply clean_no_crlf.
    rewrite (clean_id _ Hwf). reflexivity.
  - (* int *) eexists; split; [reflexivity|]. intros rest.
    cbn [app Resp.parse_frame]. ev_eqb.
    assert (Hb : - 10 ^ 40 < z < 10 ^ 40).
    { unfold in_i64, i64_min, i64_max in Hwf. pose proof i64_lt_pow. unfold i64_max in *. lia. }
    rewrite <- app_assoc, split_crlf_line by (apply print_int_no_crlf; exact Hb).
    rewrite parse_i64_print by exact Hwf. reflexivity.
  - (* bulk *) eexists; split; [reflexivity|]. intros rest.
    cbn [app Resp.parse_frame]. ev_eqb.
    pose proof (len_nonneg b) as Hl.
    assert (Hb : 0 <= len b < 10 ^ 40) by (pose proof i64_lt_pow; lia).
    rewrite <- !app_assoc, split_crlf_line by (apply print_nat_no_crlf; exact Hb).
    rewrite parse_i64_print_nat by lia.
    replace (len b =? -1) with false by lia. replace (len b <? 0) with false by lia.
    unfold parse_bulk_body.
    replace (len (b ++ crlf ++ rest) <? len b + 2) with false
      by (rewrite !len_app; pose proof (len_nonneg rest); change (len crlf) with 2; lia).
    rewrite zskipn_app, zfirstn_app. cbn [crlf app]. ev_eqb. reflexivity.
  - (* null bulk *) eexists; split; [reflexivity|]. intros rest.
    cbn [app Resp.parse_frame]. ev_eqb. cbn [crlf split_crlf]. ev_eqb. cbn [andb].
    change (parse_i64 [45; 49]) with (Some (-1)). ev_eqb. reflexivity.
  - (* array *)
    destruct Hwf as (Hlen & Hall).
    assert (Hel : Forall (fun f => exists b, ser f = (b, true) /\
                   forall r, parse_frame d' (b ++ r) = Done f r) l).
    { rewrite Forall_forall in *. intros x Hx. apply (H x Hx d'). apply Hall; exact Hx. }
    destruct (parse_seq_roundtrip (parse_frame d') l (length l) [] [] Hel (le_n _)) as (bl & Hsl & _).
    exists (42 :: print_nat (len l) ++ crlf ++ bl). split.
    + rewrite ser_array, Hsl. reflexivity.
    + intros rest. cbn [app Resp.parse_frame]. ev_eqb.
      pose proof (len_nonneg l) as Hl.
      assert (Hb : 0 <= len l < 10 ^ 40) by (pose proof i64_lt_pow; lia).
      rewrite <- !app_assoc, split_crlf_line by (apply print_nat_no_crlf; exact Hb).
      rewrite parse_i64_print_nat by lia.
      replace (len l =? -1) with false by lia. replace (len l <? 0) with false by lia.
      destruct (parse_seq_roundtrip (parse_frame d') l (S (length (bl ++ rest))) [] rest Hel) as (bl' & Hsl' & Hp).
      { pose proof (ser_list_length _ _ Hsl). rewrite app_length. lia. }
      rewrite Hsl in Hsl'. inversion Hsl'; subst bl'. rewrite Hp. reflexivity.
  - (* null array *) eexists; split; [reflexivity|]. intros rest.
    cbn [app Resp.parse_frame]. ev_eqb. cbn [crlf split_crlf]. ev_eqb. cbn [andb].
    change (parse_i64 [45; 49]) with (Some (-1)). ev_eqb. reflexivity.
  - (* null *) eexists; split; [reflexivity|]. intros rest.
    cbn [app crlf Resp.parse_frame]. ev_eqb. reflexivity.
  - (* bool *) destruct b; (eexists; split; [reflexivity|]); intros rest;
    cbn [app crlf Resp.parse_frame]; ev_eqb; reflexivity.
  - (* double *) destruct Hwf as (Hp & Hc). eexists; split; [reflexivity|]. intros rest.
    cbn [app Resp.parse_frame]. ev_eqb. rewrite <- app_assoc, split_crlf_line by exact Hc.
    rewrite Hp. reflexivity.
  - (* map *)
    destruct Hwf as (Hlen & Hev & Hall).
    assert (Hel : Forall (fun f => exists b, ser f = (b, true) /\
                   forall r, parse_frame d' (b ++ r) = Done f r) l).
    { rewrite Forall_forall in *. intros x Hx. apply (H x Hx d'). apply Hall; exact Hx. }
    destruct (parse_seq_roundtrip (parse_frame d') l (length l) [] [] Hel (le_n _)) as (bl & Hsl & _).
    exists (37 :: print_nat (len l / 2) ++ crlf ++ bl). split.
    + rewrite ser_map, Hsl. reflexivity.
    + intros rest. cbn [app Resp.parse_frame]. ev_eqb.
      pose proof (len_nonneg l) as Hl.
      assert (H2 : 2 * (len l / 2) = len l).
      { apply Z.even_spec in Hev. destruct Hev as [k Hk]. rewrite Hk.
        replace (2 * k / 2) with k by (symmetry; rewrite Z.mul_comm; apply Z.div_mul; lia). lia. }
      assert (Hb : 0 <= len l / 2 < 10 ^ 40) by (apply pow_bound; lia).
      rewrite <- !app_assoc, split_crlf_line by (apply print_nat_no_crlf; exact Hb).
      rewrite parse_usize_print_nat by lia. rewrite H2.
      destruct (parse_seq_roundtrip (parse_frame d') l (S (length (bl ++ rest))) [] rest Hel) as (bl' & Hsl' & Hp).
      { pose proof (ser_list_length _ _ Hsl). rewrite app_length. lia. }
      rewrite Hsl in Hsl'. inversion Hsl'; subst bl'. rewrite Hp. reflexivity.
  - (* set *)
    destruct Hwf as (Hlen & Hall).
    assert (Hel : Forall (fun f => exists b, ser f = (b, true) /\
                   forall r, parse_frame d' (b ++ r) = Done f r) l).
    { rewrite Forall_forall in *. intros x Hx. apply (H x Hx d'). apply Hall; exact Hx. }
    destruct (parse_seq_roundtrip (parse_frame d') l (length l) [] [] Hel (le_n _)) as (bl & Hsl & _).
    exists (126 :: print_nat (len l) ++ crlf ++ bl). split.
    + rewrite ser_set, Hsl. reflexivity.
    + intros rest. cbn [app Resp.parse_frame]. ev_eqb.
      pose proof (len_nonneg l) as Hl.
      assert (Hb : 0 <= len l < 10 ^ 40) by (apply pow_bound; lia).
      rewrite <- !app_assoc, split_crlf_line by (apply print_nat_no_crlf; exact Hb).
      rewrite parse_usize_print_nat by lia.
      destruct (parse_seq_roundtrip (parse_frame d') l (S (length (bl ++ rest))) [] rest Hel) as (bl' & Hsl' & Hp).
      { pose proof (ser_list_length _ _ Hsl). rewrite app_length. lia. }
      rewrite Hsl in Hsl'. inversion Hsl'; subst bl'. rewrite Hp. reflexivity.
Qed.


(** ---- monotonicity of the frame parser under more input ---- *)
Definition mono (g : bytes -> pres) : Prop :=
  (forall x f r, g x = Done f r ->
     (length r <= length x)%nat /\ forall m, g (x ++ m) = Done f (r ++ m)) /\
  (forall x, g x = Err -> forall m, g (x ++ m) = Err).
Definition good (pf : bytes -> pres) : Prop :=
  mono pf /\ forall x f r, pf x = Done f r -> (length r < length x)%nat.

Lemma mono_ext (g1 g2 : bytes -> pres) : (forall x, g1 x = g2 x) -> mono g1 -> mono g2.
Proof.
  intros He [HD HE]. split.
  - intros x f r H. rewrite <- He in H. destruct (HD _ _ _ H) as [Hl Hm].
    split; [exact Hl|]. intros m. rewrite <- He. apply Hm.
  - intros x H m. rewrite <- He in *. apply HE; exact H.
Qed.
Lemma mono_done f : mono (fun rest => Done f rest).
Proof.
  split; [|discriminate]. intros x f0 r H. inversion H; subst. split; [lia|reflexivity].
Qed.
Lemma mono_err : mono (fun _ => Err).
Proof. split; [discriminate|reflexivity]. Qed.
Lemma mono_more : mono (fun _ => More).
Proof. split; discriminate. Qed.

Lemma line_mono (K : bytes -> bytes -> pres) : (forall line, mono (K line)) ->
  mono (fun body => match split_crlf body with
                    | None => More
                    | Some (line, rest) => K line rest
                    end).
Proof.
  intros HK. split.
  - intros x f r H. destruct (split_crlf x) as [[line rest]|] eqn:Es; [|discriminate].
    destruct (HK line) as [HD _]. destruct (HD _ _ _ H) as [Hl Hm].
    pose proof (split_crlf_length _ _ _ Es). split; [lia|].
    intros m. rewrite (split_crlf_app _ _ _ m Es). apply Hm.
  - intros x H m. destruct (split_crlf x) as [[line rest]|] eqn:Es; [|discriminate].
    destruct (HK line) as [_ HE]. rewrite (split_crlf_app _ _ _ m Es). apply HE; exact H.
Qed.

Lemma parse_seq_mono pf (Hpf : good pf) : forall fuel n data acc,
  (length data < fuel)%nat ->
  match parse_seq pf fuel n data acc with
  | SDone fs rest =>
      (length rest <= length data)%nat /\
      forall m fuel', (length (data ++ m) < fuel')%nat ->
        parse_seq pf fuel' n (data ++ m) acc = SDone fs (rest ++ m)
  | SErr => forall m fuel', (length (data ++ m) < fuel')%nat ->
        parse_seq pf fuel' n (data ++ m) acc = SErr
  | SMore => True
  end.
Proof.
  destruct Hpf as [[HD HE] HS].
  induction fuel as [|fuel IH]; intros n data acc Hf; [lia|].
  rewrite parse_seq_unfold. destruct (n <=? 0) eqn:En.
  - split; [lia|]. intros m fuel' _. rewrite parse_seq_unfold, En. reflexivity.
  - destruct (pf data) as [f r| |] eqn:Ep.
    + destruct (HD _ _ _ Ep) as [_ Hm]. pose proof (HS _ _ _ Ep) as Hl.
      specialize (IH (n - 1) r (f :: acc) ltac:(lia)).
      destruct (parse_seq pf fuel (n - 1) r (f :: acc)) as [fs rest| |] eqn:Es; [| exact I |].
      * destruct IH as [Hl2 IH]. split; [lia|]. intros m fuel' Hf'.
        destruct fuel' as [|fuel']; [lia|].
        rewrite parse_seq_unfold, En, Hm. apply IH.
        rewrite app_length in *. lia.
      * intros m fuel' Hf'. destruct fuel' as [|fuel']; [lia|].
        rewrite parse_seq_unfold, En, Hm. apply IH. rewrite app_length in *. lia.
    + exact I.
    + intros m fuel' Hf'. destruct fuel' as [|fuel']; [lia|].
      rewrite parse_seq_unfold, En, (HE _ Ep). reflexivity.
Qed.

Lemma parse_bulk_body_mono n : 0 <= n -> mono (parse_bulk_body n).
Proof.
  intros Hn. unfold parse_bulk_body. split.
  - intros x f r H. destruct (len x <? n + 2) eqn:El; [discriminate|].
    apply Z.ltb_ge in El.
    assert (Hx : x = zfirstn n x ++ zskipn n x) by (unfold zfirstn, zskipn; symmetry; apply firstn_skipn).
    destruct (zskipn n x) as [|c1 [|c2 rest']] eqn:Es; try discriminate.
    destruct ((c1 =? 13) && (c2 =? 10)) eqn:Ec; [|discriminate].
    inversion H; subst f r. split.
    + apply (f_equal (@length Z)) in Hx. rewrite app_length in Hx. cbn [length] in Hx. lia.
    + intros m. replace (len (x ++ m) <? n + 2) with false
        by (rewrite len_app; pose proof (len_nonneg m); lia).
      unfold zskipn, zfirstn in *. rewrite skipn_app, firstn_app.
      replace (Z.to_nat n - length x)%nat with 0%nat by (unfold len in El; lia).
      cbn [skipn firstn]. rewrite app_nil_r, Es. cbn [app]. rewrite Ec. reflexivity.
  - intros x H m. destruct (len x <? n + 2) eqn:El; [discriminate|].
    apply Z.ltb_ge in El.
    replace (len (x ++ m) <? n + 2) with false
      by (rewrite len_app; pose proof (len_nonneg m); lia).
    unfold zskipn in *. rewrite skipn_app.
    replace (Z.to_nat n - length x)%nat with 0%nat by (unfold len in El; lia).
    cbn [skipn]. destruct (skipn (Z.to_nat n) x) as [|c1 [|c2 rest']] eqn:Es; try discriminate.
    cbn [app]. destruct ((c1 =? 13) && (c2 =? 10)); [discriminate|reflexivity].
Qed.

(** the aggregate branches, as functions of the bytes after the header line *)
Lemma agg_mono pf (C : list frame -> frame) n :
  good pf ->
  mono (fun rest => match parse_seq pf (S (length rest)) n rest [] with
                    | SDone fs rest' => Done (C fs) rest'
                    | SMore => More
                    | SErr => Err
                    end).
Proof.
  intros Hg. split.
  - intros x f r H.
    pose proof (parse_seq_mono _ Hg (S (length x)) n x [] ltac:(lia)) as Hm.
    destruct (parse_seq pf (S (length x)) n x []) as [fs rest'| |]; try discriminate.
    inversion H; subst f r. destruct Hm as [Hl Hm].
    split; [exact Hl|]. intros m. rewrite (Hm m (S (length (x ++ m))) ltac:(lia)). reflexivity.
  - intros x H m.
    pose proof (parse_seq_mono _ Hg (S (length x)) n x [] ltac:(lia)) as Hm.
    destruct (parse_seq pf (S (length x)) n x []) as [fs rest'| |]; try discriminate.
    rewrite (Hm m (S (length (x ++ m))) ltac:(lia)). reflexivity.
Qed.

Lemma parse_frame_unfold d' t body :
  parse_frame (S d') (t :: body) =
    if t =? 43 then
      match split_crlf body with
      | None => More
      | Some (line, rest) => Done (FSimple line) rest
      end
    else if t =? 45 then
      match split_crlf body with
      | None => More
      | Some (line, rest) => Done (FError line) rest
      end
    else if t =? 58 then
      match split_crlf body with
      | None => More
      | Some (line, rest) =>
          match parse_i64 line with Some z => Done (FInt z) rest | None => Err end
      end
    else if t =? 36 then
      match split_crlf body with
      | None => More
      | Some (line, rest) =>
          match parse_i64 line with
          | None => Err
          | Some n =>
              if n =? -1 then Done FNullBulk rest
              else if n <? 0 then Err
              else parse_bulk_body n rest
          end
      end
    else if t =? 42 then
      match split_crlf body with
      | None => More
      | Some (line, rest) =>
          match parse_i64 line with
          | None => Err
          | Some n =>
              if n =? -1 then Done FNullArray rest
              else if n <? 0 then Err
              else match parse_seq (parse_frame d') (S (length rest)) n rest [] with
                   | SDone fs rest' => Done (FArray fs) rest'
                   | SMore => More
                   | SErr => Err
                   end
          end
      end
    else if t =? 95 then
      match body with
      | c1 :: c2 :: rest => if (c1 =? 13) && (c2 =? 10) then Done FNull rest else Err
      | _ => More
      end
    else if t =? 35 then
      match body with
      | c1 :: c2 :: c3 :: rest =>
          if (c1 =? 116) && (c2 =? 13) && (c3 =? 10) then Done (FBool true) rest
          else if (c1 =? 102) && (c2 =? 13) && (c3 =? 10) then Done (FBool false) rest
          else Err
      | _ => More
      end
    else if t =? 44 then
      match split_crlf body with
      | None => More
      | Some (line, rest) =>
          match dparse line with Some b => Done (FDouble b) rest | None => Err end
      end
    else if t =? 37 then
      match split_crlf body with
      | None => More
      | Some (line, rest) =>
          match parse_usize line with
          | None => Err
          | Some n =>
              match parse_seq (parse_frame d') (S (length rest)) (2 * n) rest [] with
              | SDone fs rest' => Done (FMap fs) rest'
              | SMore => More
              | SErr => Err
              end
          end
      end
    else if t =? 126 then
      match split_crlf body with
      | None => More
      | Some (line, rest) =>
          match parse_usize line with
          | None => Err
          | Some n =>
              match parse_seq (parse_frame d') (S (length rest)) n rest [] with
              | SDone fs rest' => Done (FSet fs) rest'
              | SMore => More
              | SErr => Err
              end
          end
      end
    else Err.
Proof. reflexivity. Qed.


Lemma parse_frame_body_mono d' t : good (parse_frame d') ->
  mono (fun body => parse_frame (S d') (t :: body)).
Proof.
  intros Hg.
  destruct (t =? 43) eqn:E1.
  { apply (mono_ext (fun body => match split_crlf body with None => More | Some (line, rest) => (fun line rest => Done (FSimple line) rest) line rest end));
      [intros x; rewrite parse_frame_unfold, E1; reflexivity|].
    apply (line_mono (fun line rest => Done (FSimple line) rest)). intros; apply mono_done. }
  destruct (t =? 45) eqn:E2.
  { apply (mono_ext (fun body => match split_crlf body with None => More | Some (line, rest) => (fun line rest => Done (FError line) rest) line rest end));
      [intros x; rewrite parse_frame_unfold, E1, E2; reflexivity|].
    apply (line_mono (fun line rest => Done (FError line) rest)). intros; apply mono_done. }
  destruct (t =? 58) eqn:E3.
  { apply (mono_ext (fun body => match split_crlf body with None => More | Some (line, rest) => (fun line rest => match parse_i64 line with
                                       | Some z => Done (FInt z) rest | None => Err end) line rest end));
      [intros x; rewrite parse_frame_unfold, E1, E2, E3; reflexivity|].
    apply (line_mono (fun line rest => match parse_i64 line with
                                       | Some z => Done (FInt z) rest | None => Err end)).
    intros line. destruct (parse_i64 line); [apply mono_done|apply mono_err]. }
  destruct (t =? 36) eqn:E4.
  { apply (mono_ext (fun body => match split_crlf body with None => More | Some (line, rest) => (fun line rest => match parse_i64 line with
          | None => Err
          | Some n => if n =? -1 then Done FNullBulk rest
                      else if n <? 0 then Err else parse_bulk_body n rest end) line rest end));
      [intros x; rewrite parse_frame_unfold, E1, E2, E3, E4; reflexivity|].
    apply (line_mono (fun line rest => match parse_i64 line with
          | None => Err
          | Some n => if n =? -1 then Done FNullBulk rest
                      else if n <? 0 then Err else parse_bulk_body n rest end)).
    intros line. destruct (parse_i64 line) as [n|]; [|apply mono_err].
    destruct (n =? -1); [apply mono_done|]. destruct (n <? 0) eqn:En; [apply mono_err|].
    apply parse_bulk_body_mono. lia. }
  destruct (t =? 42) eqn:E5.
  { apply (mono_ext (fun body => match split_crlf body with None => More | Some (line, rest) => (fun line rest => match parse_i64 line with
          | None => Err
          | Some n => if n =? -1 then Done FNullArray rest
                      else if n <? 0 then Err
                      else match parse_seq (parse_frame d') (S (length rest)) n rest [] with
                           | SDone fs rest' => Done (FArray fs) rest'
                           | SMore => More
                           | SErr => Err
                           end end) line rest end));
      [intros x; rewrite parse_frame_unfold, E1, E2, E3, E4, E5; reflexivity|].
    apply (line_mono (fun line rest => match parse_i64 line with
          | None => Err
          | Some n => if n =? -1 then Done FNullArray rest
                      else if n <? 0 then Err
                      else match parse_seq (parse_frame d') (S (length rest)) n rest [] with
                           | SDone fs rest' => Done (FArray fs) rest'
                           | SMore => More
                           | SErr => Err
                           end end)).
    intros line. destruct (parse_i64 line) as [n|]; [|apply mono_err].
    destruct (n =? -1); [apply mono_done|]. destruct (n <? 0) eqn:En; [apply mono_err|].
    apply (agg_mono (parse_frame d') FArray n Hg). }
  destruct (t =? 95) eqn:E6.
  { apply (mono_ext (fun body => match body with
      | c1 :: c2 :: rest => if (c1 =? 13) && (c2 =? 10) then Done FNull rest else Err
      | _ => More end));
      [intros x; rewrite parse_frame_unfold, E1, E2, E3, E4, E5, E6; reflexivity|].
    split.
    - intros x f r H. destruct x as [|c1 [|c2 rest]]; try discriminate.
      destruct ((c1 =? 13) && (c2 =? 10)) eqn:Ec; [|discriminate].
      inversion H; subst. split; [cbn [length]; lia|]. intros m. cbn [app]. rewrite Ec. reflexivity.
    - intros x H m. destruct x as [|c1 [|c2 rest]]; try discriminate.
      cbn [app]. destruct ((c1 =? 13) && (c2 =? 10)); [discriminate|reflexivity]. }
  destruct (t =? 35) eqn:E7.
  { apply (mono_ext (fun body => match body with
      | c1 :: c2 :: c3 :: rest =>
          if (c1 =? 116) && (c2 =? 13) && (c3 =? 10) then Done (FBool true) rest
          else if (c1 =? 102) && (c2 =? 13) && (c3 =? 10) then Done (FBool false) rest
          else Err
      | _ => More end));
      [intros x; rewrite parse_frame_unfold, E1, E2, E3, E4, E5, E6, E7; reflexivity|].
    split.
    - intros x f r H. destruct x as [|c1 [|c2 [|c3 rest]]]; try discriminate.
      destruct ((c1 =? 116) && (c2 =? 13) && (c3 =? 10)) eqn:Ec.
      + inversion H; subst. split; [cbn [length]; lia|]. intros m. cbn [app]. rewrite Ec. reflexivity.
      + destruct ((c1 =? 102) && (c2 =? 13) && (c3 =? 10)) eqn:Ec2; [|discriminate].
        inversion H; subst. split; [cbn [length]; lia|]. intros m. cbn [app]. rewrite Ec, Ec2. reflexivity.
    - intros x H m. destruct x as [|c1 [|c2 [|c3 rest]]]; try discriminate.
      cbn [app]. destruct ((c1 =? 116) && (c2 =? 13) && (c3 =? 10)); [discriminate|].
      destruct ((c1 =? 102) && (c2 =? 13) && (c3 =? 10)); [discriminate|reflexivity]. }
  destruct (t =? 44) eqn:E8.
  { apply (mono_ext (fun body => match split_crlf body with None => More | Some (line, rest) => (fun line rest => match dparse line with
                                       | Some b => Done (FDouble b) rest | None => Err end) line rest end));
      [intros x; rewrite parse_frame_unfold, E1, E2, E3, E4, E5, E6, E7, E8; reflexivity|].
    apply (line_mono (fun line rest => match dparse line with
                                       | Some b => Done (FDouble b) rest | None => Err end)).
    intros line. destruct (dparse line); [apply mono_done|apply mono_err]. }
  destruct (t =? 37) eqn:E9.
  { apply (mono_ext (fun body => match split_crlf body with None => More | Some (line, rest) => (fun line rest => match parse_usize line with
          | None => Err
          | Some n => match parse_seq (parse_frame d') (S (length rest)) (2 * n) rest [] with
                      | SDone fs rest' => Done (FMap fs) rest'
                      | SMore => More
                      | SErr => Err
                      end end) line rest end));
      [intros x; rewrite parse_frame_unfold, E1, E2, E3, E4, E5, E6, E7, E8, E9; reflexivity|].
    apply (line_mono (fun line rest => match parse_usize line with
          | None => Err
          | Some n => match parse_seq (parse_frame d') (S (length rest)) (2 * n) rest [] with
                      | SDone fs rest' => Done (FMap fs) rest'
                      | SMore => More
                      | SErr => Err
                      end end)).
    intros line. destruct (parse_usize line) as [n|]; [|apply mono_err].
    apply (agg_mono (parse_frame d') FMap (2 * n) Hg). }
  destruct (t =? 126) eqn:E10.
  { apply (mono_ext (fun body => match split_crlf body with None => More | Some (line, rest) => (fun line rest => match parse_usize line with
          | None => Err
          | Some n => match parse_seq (parse_frame d') (S (length rest)) n rest [] with
                      | SDone fs rest' => Done (FSet fs) rest'
                      | SMore => More
                      | SErr => Err
                      end end) line rest end));
      [intros x; rewrite parse_frame_unfold, E1, E2, E3, E4, E5, E6, E7, E8, E9, E10; reflexivity|].
    apply (line_mono (fun line rest => match parse_usize line with
          | None => Err
          | Some n => match parse_seq (parse_frame d') (S (length rest)) n rest [] with
                      | SDone fs rest' => Done (FSet fs) rest'
                      | SMore => More
                      | SErr => Err
                      end end)).
    intros line. destruct (parse_usize line) as [n|]; [|apply mono_err].
    apply (agg_mono (parse_frame d') FSet n Hg). }
  apply (mono_ext (fun _ => Err));
    [intros x; rewrite parse_frame_unfold, E1, E2, E3, E4, E5, E6, E7, E8, E9, E10; reflexivity|].
  apply mono_err.
Qed.

Lemma parse_frame_good : forall d, good (parse_frame d).
Proof.
  induction d as [|d' IH].
  - split; [apply mono_err|discriminate].
  - assert (Hb := fun t => parse_frame_body_mono d' t IH).
    split; [split|].
    + intros [|t body] f r H; [discriminate|]. destruct (Hb t) as [HD _].
      destruct (HD body f r H) as [Hl Hm]. split; [cbn [length]; lia|].
      intros m. exact (Hm m).
    + intros [|t body] H m; [discriminate|]. destruct (Hb t) as [_ HE]. exact (HE body H m).
    + intros [|t body] f r H; [discriminate|]. destruct (Hb t) as [HD _].
      destruct (HD body f r H) as [Hl _]. cbn [length]. lia.
Qed.

(** ---- RespParser::parse and the drain loop ---- *)
Lemma drop_while_idem p x : drop_while p (drop_while p x) = drop_while p x.
Proof.
  induction x as [|c x IH]; [reflexivity|]. cbn [drop_while].
  destruct (p c) eqn:E; [exact IH|]. cbn [drop_while]. rewrite E. reflexivity.
Qed.
Lemma drop_while_length p x : (length (drop_while p x) <= length x)%nat.
Proof. induction x as [|c x IH]; cbn [drop_while length]; [lia|]. destruct (p c); cbn [length]; lia. Qed.
Lemma drop_while_app_ne p x m : drop_while p x <> [] -> drop_while p (x ++ m) = drop_while p x ++ m.
Proof.
  induction x as [|c x IH]; cbn [drop_while app]; [congruence|].
  destruct (p c); [exact IH|reflexivity].
Qed.
Lemma drop_while_app_nil p x m : drop_while p x = [] -> drop_while p (x ++ m) = drop_while p m.
Proof.
  induction x as [|c x IH]; cbn [drop_while app]; [reflexivity|].
  destruct (p c); [exact IH|discriminate].
Qed.
Lemma drop_while_sub (p q : Z -> bool) (Hpq : forall c, p c = true -> q c = true) :
  forall s m, drop_while q (drop_while p (s ++ m)) = drop_while q (drop_while p s ++ m).
Proof.
  assert (H0 : forall m, drop_while q (drop_while p m) = drop_while q m).
  { induction m as [|c m IH]; [reflexivity|]. cbn [drop_while]. destruct (p c) eqn:E.
    - rewrite (Hpq _ E). exact IH.
    - reflexivity. }
  induction s as [|c s IH]; intros m.
  - cbn [app drop_while]. apply H0.
  - cbn [app drop_while]. destruct (p c); [apply IH|reflexivity].
Qed.
Lemma drop_while_head p x c r : drop_while p x = c :: r -> p c = false.
Proof.
  induction x as [|d x IH]; cbn [drop_while]; [discriminate|].
  destruct (p d) eqn:E; [exact IH|]. intros H; inversion H; subst; exact E.
Qed.
Lemma drop_while_fix p c r : p c = false -> drop_while p (c :: r) = c :: r.
Proof. intros H. cbn [drop_while]. rewrite H. reflexivity. Qed.

Lemma nl_sub_ws c : is_nl c = true -> is_ws c = true.
Proof. unfold is_nl, is_ws. lia. Qed.
Lemma ws2_sub_ws c : is_ws2 c = true -> is_ws c = true.
Proof. unfold is_ws2, is_ws. lia. Qed.

(** parse on a buffer whose leading whitespace has been dropped *)
Definition parse_core (b : bytes) : pres * bytes :=
  match b with
  | [] => (More, b)
  | _ =>
    if (len b <? 4) && is_prefix b ping then (More, b)
    else if is_prefix ping b then
      (Done (FArray [FBulk ping]) [], drop_while is_ws2 (skipn 4 b))
    else match parse_frame max_levels b with
         | Done f rest => (Done f [], drop_while is_nl rest)
         | More => (More, b)
         | Err => (Err, b)
         end
  end.
Notation wsn := (drop_while is_ws).
Lemma parse_top_core buf : parse_top dparse buf = parse_core (wsn buf).
Proof. reflexivity. Qed.

Lemma is_prefix_app p b m : is_prefix p b = true -> is_prefix p (b ++ m) = true.
Proof.
  revert b; induction p as [|x p IH]; intros b H; [reflexivity|].
  destruct b as [|y b]; [discriminate|]. cbn [is_prefix app] in *.
  apply andb_prop in H as [H1 H2]. rewrite H1, (IH _ H2). reflexivity.
Qed.
(** if p is a prefix of b++m but not of b, then b is a proper prefix of p *)
Lemma is_prefix_app_inv p : forall b m, is_prefix p (b ++ m) = true -> is_prefix p b = false ->
  is_prefix b p = true /\ (length b < length p)%nat.
Proof.
  induction p as [|x p IH]; intros b m H Hn; [discriminate|].
  destruct b as [|y b]; [split; [reflexivity|cbn; lia]|].
  cbn [is_prefix app] in *. apply andb_prop in H as [H1 H2]. rewrite H1 in Hn. cbn [andb] in Hn.
  destruct (IH _ _ H2 Hn) as [Ha Hb]. apply Z.eqb_eq in H1. subst y.
  rewrite Z.eqb_refl, Ha. split; [reflexivity|cbn [length]; lia].
Qed.
Lemma is_prefix_of_app b m p : is_prefix (b ++ m) p = true -> is_prefix b p = true.
Proof.
  revert p; induction b as [|y b IH]; intros p H; [reflexivity|].
  destruct p as [|x p]; [discriminate|]. cbn [is_prefix app] in *.
  apply andb_prop in H as [H1 H2]. rewrite H1, (IH _ H2). reflexivity.
Qed.

Lemma parse_core_cond1 b m : b <> [] ->
  (len b <? 4) && is_prefix b ping = false ->
  (len (b ++ m) <? 4) && is_prefix (b ++ m) ping = false.
Proof.
  intros Hne H. destruct ((len (b ++ m) <? 4) && is_prefix (b ++ m) ping) eqn:E; [|reflexivity].
  apply andb_prop in E as [E1 E2]. apply is_prefix_of_app in E2.
  rewrite E2 in H. rewrite len_app in E1. pose proof (len_nonneg m).
  replace (len b <? 4) with true in H by lia. discriminate.
Qed.
Lemma parse_core_cond2 b m :
  (len b <? 4) && is_prefix b ping = false -> is_prefix ping b = false ->
  is_prefix ping (b ++ m) = false.
Proof.
  intros H1 H2. destruct (is_prefix ping (b ++ m)) eqn:E; [|reflexivity].
  destruct (is_prefix_app_inv _ _ _ E H2) as [Ha Hb]. rewrite Ha in H1.
  change (length ping) with 4%nat in Hb. unfold len in H1.
  replace (Z.of_nat (length b) <? 4) with true in H1 by lia. discriminate.
Qed.

Lemma parse_core_more b b1 : parse_core b = (More, b1) -> b1 = b.
Proof.
  unfold parse_core. destruct b as [|c r]; [intros H; inversion H; reflexivity|].
  destruct ((len (c :: r) <? 4) && is_prefix (c :: r) ping); [intros H; inversion H; reflexivity|].
  destruct (is_prefix ping (c :: r)); [discriminate|].
  destruct (parse_frame max_levels (c :: r)); intros H; inversion H; reflexivity.
Qed.

Lemma parse_core_err b b1 : parse_core b = (Err, b1) ->
  b1 = b /\ forall m, parse_core (b ++ m) = (Err, b ++ m).
Proof.
  unfold parse_core. destruct b as [|c r]; [discriminate|].
  destruct ((len (c :: r) <? 4) && is_prefix (c :: r) ping) eqn:E1; [discriminate|].
  destruct (is_prefix ping (c :: r)) eqn:E2; [discriminate|].
  destruct (parse_frame max_levels (c :: r)) eqn:E3; try discriminate.
  intros H; inversion H; subst. split; [reflexivity|]. intros m.
  change ((c :: r) ++ m) with (c :: (r ++ m)). cbv iota.
  change (c :: (r ++ m)) with ((c :: r) ++ m).
  rewrite (parse_core_cond1 (c :: r) m ltac:(discriminate) E1), (parse_core_cond2 _ m E1 E2).
  destruct (parse_frame_good max_levels) as [[_ HE] _]. rewrite (HE _ E3 m). reflexivity.
Qed.

Lemma skipn_app_le {A} n (b m : list A) : (n <= length b)%nat -> skipn n (b ++ m) = skipn n b ++ m.
Proof. intros H. rewrite skipn_app. replace (n - length b)%nat with 0%nat by lia. reflexivity. Qed.

Lemma is_prefix_length p b : is_prefix p b = true -> (length p <= length b)%nat.
Proof.
  revert b; induction p as [|x p IH]; intros b H; [cbn; lia|].
  destruct b as [|y b]; [discriminate|]. cbn [is_prefix] in H. apply andb_prop in H as [_ H].
  specialize (IH _ H). cbn [length]. lia.
Qed.

Lemma parse_core_done b f z b' : parse_core b = (Done f z, b') ->
  (length b' < length b)%nat /\
  forall m, exists b'', parse_core (b ++ m) = (Done f z, b'') /\ wsn b'' = wsn (b' ++ m).
Proof.
  unfold parse_core. destruct b as [|c r]; [discriminate|].
  destruct ((len (c :: r) <? 4) && is_prefix (c :: r) ping) eqn:E1; [discriminate|].
  destruct (is_prefix ping (c :: r)) eqn:E2.
  - pose proof (skipn_length 4 (c :: r)) as Hsk.
    remember (skipn 4 (c :: r)) as sk eqn:Esk.
    intros H; inversion H; subst b' f z. pose proof (is_prefix_length _ _ E2) as Hl.
    change (length ping) with 4%nat in Hl. split.
    + pose proof (drop_while_length is_ws2 sk). lia.
    + intros m. change ((c :: r) ++ m) with (c :: (r ++ m)). cbv iota.
      change (c :: (r ++ m)) with ((c :: r) ++ m).
      rewrite (parse_core_cond1 (c :: r) m ltac:(discriminate) E1), (is_prefix_app _ _ m E2).
      eexists; split; [reflexivity|]. rewrite skipn_app_le by exact Hl. rewrite <- Esk.
      apply drop_while_sub. exact ws2_sub_ws.
  - destruct (parse_frame max_levels (c :: r)) as [f0 rest| |] eqn:E3; try discriminate.
    intros H; inversion H; subst.
    destruct (parse_frame_good max_levels) as [[HD _] HS].
    destruct (HD _ _ _ E3) as [_ Hm]. pose proof (HS _ _ _ E3) as Hl. split.
    + pose proof (drop_while_length is_nl rest). lia.
    + intros m. change ((c :: r) ++ m) with (c :: (r ++ m)). cbv iota.
      change (c :: (r ++ m)) with ((c :: r) ++ m).
      rewrite (parse_core_cond1 (c :: r) m ltac:(discriminate) E1), (parse_core_cond2 _ m E1 E2), Hm.
      eexists; split; [reflexivity|]. apply drop_while_sub. exact nl_sub_ws.
Qed.

Lemma wsn_app x m : wsn (x ++ m) = wsn (wsn x ++ m).
Proof.
  destruct (wsn x) as [|c r] eqn:E.
  - rewrite (drop_while_app_nil _ _ _ E). reflexivity.
  - rewrite drop_while_app_ne by congruence. rewrite E.
    pose proof (drop_while_head _ _ _ _ E) as Hc.
    change ((c :: r) ++ m) with (c :: (r ++ m)). rewrite drop_while_fix by exact Hc. reflexivity.
Qed.

Lemma drain_unfold fuel buf acc :
  drain dparse (S fuel) buf acc =
  match parse_core (wsn buf) with
  | (Done f _, buf') => drain dparse fuel buf' (f :: acc)
  | (More, buf') => (rev acc, NeedMore, buf')
  | (Err, buf') => (rev acc, Failed, buf')
  end.
Proof. reflexivity. Qed.

(** fuel and leading whitespace are irrelevant *)
Lemma drain_norm : forall f1 f2 x y acc, wsn x = wsn y ->
  (length x < f1)%nat -> (length y < f2)%nat ->
  drain dparse f1 x acc = drain dparse f2 y acc.
Proof.
  induction f1 as [|f1 IH]; intros f2 x y acc Hxy H1 H2; [lia|].
  destruct f2 as [|f2]; [lia|]. rewrite !drain_unfold, Hxy.
  destruct (parse_core (wsn y)) as [[f z| |] b'] eqn:E; try reflexivity.
  destruct (parse_core_done _ _ _ _ E) as [Hl _].
  apply IH; [reflexivity| |].
  - pose proof (drop_while_length is_ws x). rewrite Hxy in *. lia.
  - pose proof (drop_while_length is_ws y). lia.
Qed.

Lemma drain_split : forall fuel x acc fs st buf',
  (length x < fuel)%nat -> drain dparse fuel x acc = (fs, st, buf') ->
  forall m fuel2 fuel3, (length (x ++ m) < fuel2)%nat -> (length (buf' ++ m) < fuel3)%nat ->
  drain dparse fuel2 (x ++ m) acc = drain dparse fuel3 (buf' ++ m) (rev fs).
Proof.
  induction fuel as [|fuel IH]; intros x acc fs st buf' Hf H m fuel2 fuel3 H2 H3; [lia|].
  rewrite drain_unfold in H.
  destruct (parse_core (wsn x)) as [[f z| |] b1] eqn:E.
  - destruct (parse_core_done _ _ _ _ E) as [Hl Hm]. destruct (Hm m) as (b'' & Hp & Hw).
    assert (Hne : wsn x <> []) by (intros Hc; rewrite Hc in E; discriminate).
    destruct fuel2 as [|fuel2]; [lia|]. rewrite drain_unfold.
    rewrite drop_while_app_ne by exact Hne. rewrite Hp.
    pose proof (drop_while_length is_ws x) as Hwl.
    assert (Hb'' : (length b'' < length (wsn x ++ m))%nat).
    { destruct (parse_core_done _ _ _ _ Hp) as [Hl2 _]. exact Hl2. }
    rewrite app_length in *.
    rewrite (drain_norm fuel2 (S (length (b1 ++ m))) b'' (b1 ++ m) (f :: acc) Hw ltac:(lia) ltac:(lia)).
    apply (IH b1 (f :: acc) fs st buf' ltac:(lia) H m); rewrite app_length; lia.
  - apply parse_core_more in E. inversion H; subst. rewrite rev_involutive.
    apply drain_norm; [apply wsn_app|exact H2|exact H3].
  - apply parse_core_err in E as [E _]. inversion H; subst. rewrite rev_involutive.
    apply drain_norm; [apply wsn_app|exact H2|exact H3].
Qed.

Lemma drain_acc : forall fuel y acc,
  drain dparse fuel y acc =
  match drain dparse fuel y [] with (fs, st, b) => (rev acc ++ fs, st, b) end.
Proof.
  induction fuel as [|fuel IH]; intros y acc.
  - cbn [drain rev]. rewrite app_nil_r. reflexivity.
  - rewrite !drain_unfold. destruct (parse_core (wsn y)) as [[f z| |] b1].
    + rewrite (IH b1 (f :: acc)), (IH b1 [f]).
      destruct (drain dparse fuel b1 []) as [[fs st] b]. cbn [rev app]. rewrite <- app_assoc. reflexivity.
    + cbn [rev]. rewrite app_nil_r. reflexivity.
    + cbn [rev]. rewrite app_nil_r. reflexivity.
Qed.

Lemma drain_buf_split x m :
  drain_buf dparse (x ++ m) =
  match drain_buf dparse x with
  | (fs, st, buf') =>
      match drain_buf dparse (buf' ++ m) with
      | (fs2, st2, b2) => (fs ++ fs2, st2, b2)
      end
  end.
Proof.
  unfold drain_buf. destruct (drain dparse (S (length x)) x []) as [[fs st] buf'] eqn:E.
  rewrite (drain_split (S (length x)) x [] fs st buf' (Nat.lt_succ_diag_r _) E m (S (length (x ++ m))) (S (length (buf' ++ m))) (Nat.lt_succ_diag_r _) (Nat.lt_succ_diag_r _)).
  rewrite drain_acc, rev_involutive. reflexivity.
Qed.

Lemma drain_idem x fs st b : drain_buf dparse x = (fs, st, b) -> drain_buf dparse b = ([], st, b).
Proof.
  intros H. pose proof (drain_buf_split x []) as Hs. rewrite app_nil_r, H, app_nil_r in Hs.
  destruct (drain_buf dparse b) as [[fs2 st2] b2]. inversion Hs as [[Hf Hst Hb]].
  rewrite <- (app_nil_r fs) in Hf at 1. apply app_inv_head in Hf. subst. reflexivity.
Qed.

Lemma feed_all_spec : forall chunks buf acc st,
  feed_all dparse buf chunks acc st =
  match chunks with
  | [] => (acc, st)
  | _ => match drain_buf dparse (buf ++ concat chunks) with
         | (fs, st', _) => (acc ++ fs, st') end
  end.
Proof.
  induction chunks as [|c cs IH]; intros buf acc st; [reflexivity|].
  cbn [feed_all concat]. rewrite app_assoc, (drain_buf_split (buf ++ c) (concat cs)).
  destruct (drain_buf dparse (buf ++ c)) as [[fs1 st1] b1] eqn:E1. rewrite IH.
  destruct cs as [|c2 cs'].
  - cbn [concat]. rewrite app_nil_r, (drain_idem _ _ _ _ E1), app_nil_r. reflexivity.
  - destruct (drain_buf dparse (b1 ++ concat (c2 :: cs'))) as [[fs2 st2] b2].
    rewrite app_assoc. reflexivity.
Qed.

Lemma chunk_independent chunks :
  run_chunks dparse chunks = run_chunks dparse [concat chunks].
Proof.
  unfold run_chunks. rewrite !feed_all_spec. destruct chunks as [|c cs].
  - reflexivity.
  - cbn [concat]. rewrite !app_nil_r. reflexivity.
Qed.

(** progress: the drain loop's fuel [S (length buf)] is never exhausted (any
    larger fuel gives the same result) *)
Lemma drain_fuel_irrelevant buf fuel : (length buf < fuel)%nat ->
  drain dparse fuel buf [] = drain_buf dparse buf.
Proof. intros H. unfold drain_buf. apply drain_norm; [reflexivity|exact H|lia]. Qed.

Lemma wfb_wf : forall f d, wfb dparse dprint d f = true -> wf d f.
Proof.
  induction f using frame_ind'; intros [|d'] Hb; cbn [Resp.wfb Resp.wf] in *; try discriminate; try exact I.
  - exact Hb.
  - exact Hb.
  - exact Hb.
  - lia.
  - apply andb_prop in Hb as [H1 H2]. split; [lia|]. rewrite forallb_forall in H2.
    rewrite Forall_forall in *. intros x Hx. apply (H x Hx). apply H2; exact Hx.
  - apply andb_prop in Hb as [H1 H2]. apply negb_true_iff in H2. split; [|exact H2].
    destruct (dparse (dprint b)) as [b'|]; [|discriminate]. apply Z.eqb_eq in H1. subst. reflexivity.
  - apply andb_prop in Hb as [H1 H3]. apply andb_prop in H1 as [H1 H2]. split; [lia|]. split; [exact H2|].
    rewrite forallb_forall in H3. rewrite Forall_forall in *. intros x Hx. apply (H x Hx). apply H3; exact Hx.
  - apply andb_prop in Hb as [H1 H2]. split; [lia|]. rewrite forallb_forall in H2.
    rewrite Forall_forall in *. intros x Hx. apply (H x Hx). apply H2; exact Hx.
Qed.

Lemma roundtrip_b f rest : wfb dparse dprint max_levels f = true ->
  exists b, ser f = (b, true) /\ parse_frame max_levels (b ++ rest) = Done f rest.
Proof.
  intros H. apply wfb_wf in H. destruct (roundtrip_aux f _ H) as (b & Hs & Hp).
  exists b. split; [exact Hs|apply Hp].
Qed.

Lemma roundtrip f rest : wf max_levels f ->
  exists b, ser f = (b, true) /\ parse_frame max_levels (b ++ rest) = Done f rest.
Proof. intros H. destruct (roundtrip_aux f _ H) as (b & Hs & Hp). exists b. split; [exact Hs|apply Hp]. Qed.

Lemma clean_idem b : clean (clean b) = clean b.
Proof.
  unfold clean. rewrite map_map. apply map_ext. intros c. unfold clean1.
  destruct ((c =? 13) || (c =? 10)) eqn:E; [reflexivity|]. rewrite E. reflexivity.
Qed.
Lemma len_map {A B} (g : A -> B) l : len (map g l) = len l.
Proof. unfold len. rewrite map_length. reflexivity. Qed.

Lemma ser_list_sanitize l :
  Forall (fun f => ser (sanitize f) = ser f) l -> ser_list (map sanitize l) = ser_list l.
Proof.
  induction l as [|x l IH]; intros H; [reflexivity|].
  inversion H as [|? ? Hx Hl]; subst. cbn [map Resp.ser_list]. rewrite Hx, (IH Hl). reflexivity.
Qed.
Lemma ser_sanitize : forall f, ser (sanitize f) = ser f.
Proof.
  induction f using frame_ind'; try reflexivity.
  - cbn [sanitize Resp.ser]. rewrite clean_idem. reflexivity.
  - cbn [sanitize Resp.ser]. rewrite clean_idem. reflexivity.
  - cbn [sanitize]. rewrite !ser_array, len_map, (ser_list_sanitize _ H). reflexivity.
  - cbn [sanitize]. rewrite !ser_map, len_map, (ser_list_sanitize _ H). reflexivity.
  - cbn [sanitize]. rewrite !ser_set, len_map, (ser_list_sanitize _ H). reflexivity.
Qed.

(** reply framing: whatever bytes a reply carries, it is serialised as exactly one
    frame - the sanitised one - and nothing of it leaks into the next frame *)
Lemma reply_framing f rest : wfb dparse dprint max_levels (sanitize f) = true ->
  exists b, ser f = (b, true) /\ parse_frame max_levels (b ++ rest) = Done (sanitize f) rest.
Proof.
  intros H. destruct (roundtrip_b (sanitize f) rest H) as (b & Hs & Hp).
  exists b. rewrite <- ser_sanitize. split; assumption.
Qed.

Lemma parse_frame_stable d data :
  (forall f rest, parse_frame d data = Done f rest ->
     (length rest < length data)%nat /\ forall more, parse_frame d (data ++ more) = Done f (rest ++ more)) /\
  (parse_frame d data = Err -> forall more, parse_frame d (data ++ more) = Err).
Proof.
  destruct (parse_frame_good d) as [[HD HE] HS]. split.
  - intros f rest H. split; [exact (HS _ _ _ H)|]. destruct (HD _ _ _ H) as [_ Hm]. exact Hm.
  - intros H. exact (HE _ H).
Qed.

End Facts.
