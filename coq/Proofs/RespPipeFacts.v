(** Proofs about Model/Resp.v (C20): a pipeline of serialised frames reads back,
    through the server's drain loop (RespParser::parse in a loop, with its
    whitespace skipping and inline PING shortcut), as exactly those frames. *)
From Ferrous Require Import Base.Bytes Model.Resp Proofs.BytesFacts Proofs.RespFacts.
Open Scope Z_scope.

Section Pipe.
Variable dparse : bytes -> option Z.
Variable dprint : Z -> bytes.
Notation parse_frame := (parse_frame dparse).
Notation ser := (ser dprint).
Notation ser_list := (ser_list dprint).
Notation wf := (wf dparse dprint).
Notation wsn := (drop_while is_ws).

(** the type bytes the serializer writes first *)
Definition type_bytes : list Z := [43; 45; 58; 36; 42; 95; 35; 44; 37; 126].

Lemma ser_head f b : ser f = (b, true) -> exists c r, b = c :: r /\ In c type_bytes.
Proof.
  destruct f; try (cbn [Resp.ser]; intros H; inversion H; eexists; eexists; split;
                   [reflexivity|cbn; tauto]).
  - rewrite ser_array. destruct (ser_list l). intros H; inversion H.
    eexists; eexists; split; [reflexivity|cbn; tauto].
  - cbn [Resp.ser]. discriminate.
  - cbn [Resp.ser]. destruct b0; intros H; inversion H; eexists; eexists; split;
      try reflexivity; cbn; tauto.
  - rewrite ser_map. destruct (ser_list kvs). intros H; inversion H.
    eexists; eexists; split; [reflexivity|cbn; tauto].
  - rewrite ser_set. destruct (ser_list l). intros H; inversion H.
    eexists; eexists; split; [reflexivity|cbn; tauto].
Qed.

Lemma ser_list_head l b : ser_list l = (b, true) ->
  b = [] \/ exists c r, b = c :: r /\ In c type_bytes.
Proof.
  destruct l as [|x l]; cbn [Resp.ser_list]; intros H; [inversion H; left; reflexivity|].
  destruct (ser x) as [bx [|]] eqn:Ex; [|discriminate].
  destruct (ser_list l) as [bl ok]. inversion H; subst.
  destruct (ser_head _ _ Ex) as (c & r & -> & Hc). right.
  exists c, (r ++ bl). split; [reflexivity|exact Hc].
Qed.

Lemma type_byte_facts c : In c type_bytes ->
  is_ws c = false /\ is_nl c = false /\ (80 =? c) = false /\ (c =? 80) = false.
Proof.
  unfold type_bytes. cbn [In]. intros H.
  repeat (destruct H as [H|H]; [subst c; vm_compute; tauto|]). destruct H.
Qed.

Lemma drop_nl_ser_list l b : ser_list l = (b, true) -> drop_while is_nl b = b.
Proof.
  intros H. destruct (ser_list_head _ _ H) as [->|(c & r & -> & Hc)]; [reflexivity|].
  apply drop_while_fix. apply (type_byte_facts _ Hc).
Qed.

(** serialise any list of well-formed frames back to back: the drain loop returns exactly
    those frames, in order, consumes every byte and ends waiting for more input *)
Lemma pipeline_roundtrip : forall fs b, Forall (wf max_levels) fs -> ser_list fs = (b, true) ->
  drain_buf dparse b = (fs, NeedMore, []).
Proof.
  induction fs as [|f fs IH]; intros b Hwf Hs.
  - cbn [Resp.ser_list] in Hs. inversion Hs. reflexivity.
  - cbn [Resp.ser_list] in Hs. destruct (ser f) as [bf [|]] eqn:Ef; [|discriminate].
    destruct (ser_list fs) as [bl ok] eqn:El. inversion Hs; subst ok b. clear Hs.
    inversion Hwf as [|? ? Hf Hfs]; subst.
    destruct (roundtrip dparse dprint f bl Hf) as (bf' & Ef' & Hp).
    rewrite Ef in Ef'. inversion Ef'; subst bf'. clear Ef'.
    destruct (ser_head _ _ Ef) as (c & r & -> & Hc).
    destruct (type_byte_facts _ Hc) as (Hws & Hnl & H80 & H80').
    unfold drain_buf. rewrite drain_unfold.
    rewrite (drop_while_fix is_ws c (r ++ bl) Hws : wsn ((c :: r) ++ bl) = (c :: r) ++ bl).
    change ((c :: r) ++ bl) with (c :: (r ++ bl)) in *.
    unfold parse_core.
    assert (E1 : is_prefix (c :: r ++ bl) ping = false).
    { unfold ping. cbn [is_prefix]. rewrite H80'. reflexivity. }
    assert (E2 : is_prefix ping (c :: r ++ bl) = false).
    { unfold ping. cbn [is_prefix]. rewrite H80. reflexivity. }
    rewrite E1, andb_false_r, E2, Hp.
    rewrite (drop_nl_ser_list _ _ El).
    rewrite drain_acc.
    rewrite (drain_fuel_irrelevant dparse bl (length (c :: r ++ bl))
               ltac:(cbn [length]; rewrite app_length; lia)).
    rewrite (IH bl Hfs eq_refl). reflexivity.
Qed.

(** ... and the same in any chunking of those bytes *)
Lemma pipeline_roundtrip_chunks fs b chunks :
  Forall (wf max_levels) fs -> ser_list fs = (b, true) -> concat chunks = b ->
  run_chunks dparse chunks = (fs, NeedMore).
Proof.
  intros Hwf Hs Hc. rewrite chunk_independent, Hc.
  unfold run_chunks. cbn [feed_all app]. rewrite (pipeline_roundtrip fs b Hwf Hs).
  reflexivity.
Qed.

End Pipe.
