(** Proofs for C06: the guards of the modelled handlers imply that every index, size and
    arithmetic operation of the corresponding Rust code is in range (no slice out of
    bounds, no overflow, no allocation sized by an unchecked request value). *)
From Ferrous Require Import Base.Bytes Generated Model.Resp Model.Types Model.Strings
  Proofs.BytesFacts Proofs.StringsFacts.
From Coq Require Import ZifyBool.
Open Scope Z_scope.

(** GETRANGE: the slice bytes[s..=e] is only taken with 0 <= s <= e < len *)
Definition getrange_slice (b : bytes) (start stop : Z) : option (Z * Z) :=
  let n := len b in
  if (start <? 0) && (stop <? 0) && (stop <? start) then None else
  let s := if start <? 0 then Z.max 0 (n + start) else start in
  let e0 := if stop <? 0 then Z.max 0 (n + stop) else stop in
  let e := Z.min e0 (n - 1) in
  if (n =? 0) || (e <? s) then None else Some (s, e).
Lemma getrange_slice_in_bounds b start stop s e :
  getrange_slice b start stop = Some (s, e) -> 0 <= s <= e /\ e < len b.
Proof.
  unfold getrange_slice. pose proof (len_nonneg b).
  destruct ((start <? 0) && (stop <? 0) && (stop <? start)); [discriminate|].
  destruct ((len b =? 0) || _) eqn:E; [discriminate|].
  intros H0; inversion H0; subst. destruct (start <? 0) eqn:E1; destruct (stop <? 0) eqn:E2; lia.
Qed.
Lemma getrange_uses_slice b start stop :
  getrange_bytes b start stop =
  match getrange_slice b start stop with
  | Some (s, e) => zfirstn (e - s + 1) (zskipn s b)
  | None => []
  end.
Proof.
  unfold getrange_bytes, getrange_slice.
  destruct ((start <? 0) && (stop <? 0) && (stop <? start)); [reflexivity|].
  destruct ((len b =? 0) || _); reflexivity.
Qed.

(** SETRANGE: past the guard, offset + len fits the 512 MB limit (no usize overflow, the
    zero padding is bounded) *)
Lemma setrange_guard off (v : bytes) :
  0 <= off -> (max_string_len <? off) || (max_string_len - off <? len v) = false ->
  off + len v <= max_string_len /\ off + len v < two64.
Proof. intros Ho H. unfold max_string_len, two64 in *. pose proof (len_nonneg v). lia. Qed.

(** DECRBY: the negation is only computed when it is representable *)
Lemma decrby_negation_safe n : in_i64 n = true -> (n =? i64_min) = false -> in_i64 (- n) = true.
Proof. unfold in_i64, i64_min, i64_max. lia. Qed.

(** TTLs: an accepted time-to-live gives a deadline that Instant (i64 seconds) represents,
    for any uptime below 2^40 s *)
Lemma ttl_deadline_representable now_ms ms :
  0 <= now_ms < 1099511627776 * 1000 -> 0 <= ms -> ttl_ok ms = true ->
  (now_ms + ms) / 1000 <= 9223372036854775807.
Proof.
  unfold ttl_ok, ttl_limit_ms. intros Hn Hm Hok.
  apply Z.div_le_upper_bound; lia.
Qed.

(** INCR family: the stored and replied value is always a representable i64 *)
Lemma incr_result_in_range d k inc o d' :
  in_i64 inc = true -> eng_incr_by d k inc = (o, d') -> match o with Some n => in_i64 n = true | None => True end.
Proof.
  intros Hi. unfold eng_incr_by. destruct (get_entry d k) as [e|].
  - destruct (e_val e); try (intros H; inversion H; subst; exact I).
    destruct (parse_canonical b); [|intros H; inversion H; subst; exact I].
    destruct (in_i64 (z + inc)) eqn:E; intros H; inversion H; subst; [exact E|exact I].
  - intros H; inversion H; subst. exact Hi.
Qed.
