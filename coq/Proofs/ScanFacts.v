(** Facts about the SCAN family model (Model/Scan.v): what one call returns, progress of the
    cursor, static completeness of a full iteration, soundness, and completeness under
    modifications that leave the part of the sorted list before the cursor unchanged. *)
From Ferrous Require Import Base.Bytes Model.Resp Model.Types Model.Glob Model.Strings Model.Scan
  Proofs.BytesFacts.
Open Scope Z_scope.

(** ---- one call ---- *)
Lemma scan_walk_spec {A} (inc : A -> bool) : forall rest e m limE limM pos,
  exists j : nat, (j <= length rest)%nat /\
    scan_walk inc rest e m limE limM pos = (pos + Z.of_nat j, filter inc (firstn j rest)) /\
    (rest <> [] -> e < limE -> m < limM -> (1 <= j)%nat).
Proof.
  induction rest as [|x r IH]; intros e m limE limM pos.
  - exists 0%nat. simpl. split; [lia|]. split; [f_equal; lia | congruence].
  - cbn [scan_walk].
    destruct ((e <? limE) && (m <? limM)) eqn:C.
    + destruct (inc x) eqn:I.
      * destruct (IH (e + 1) (m + 1) limE limM (pos + 1)) as [j [L [E _]]].
        exists (S j). rewrite E. split; [simpl; lia|]. split; [|lia].
        cbn [firstn filter]. rewrite I. f_equal. lia.
      * destruct (IH (e + 1) m limE limM (pos + 1)) as [j [L [E _]]].
        exists (S j). rewrite E. split; [simpl; lia|]. split; [|lia].
        cbn [firstn filter]. rewrite I. f_equal. lia.
    + exists 0%nat. split; [lia|]. split; [simpl; f_equal; lia|].
      intros _ H1 H2. apply andb_false_iff in C. destruct C as [C|C]; apply Z.ltb_ge in C; lia.
Qed.

Lemma scan_limit_pos count : 0 <= count -> 1 <= scan_limit count.
Proof. intros H. unfold scan_limit. destruct (Z.eqb_spec count 0); lia. Qed.

Lemma len_zskipn {A} (l : list A) c : 0 <= c -> c <= len l -> len (zskipn c l) = len l - c.
Proof. intros H1 H2. unfold len, zskipn in *. rewrite skipn_length. lia. Qed.

(** what a call returns: either the cursor is at or beyond the end (reply: cursor 0, nothing),
    or it examines j >= 1 further items and returns those of them that match *)
Lemma scan_core_spec {A} (keyof : A -> bytes) items cursor count pat :
  0 <= cursor -> 0 <= count ->
  (len items <= cursor /\ scan_core keyof items cursor count pat = (0, [])) \/
  (cursor < len items /\ exists j : nat, (1 <= j)%nat /\ cursor + Z.of_nat j <= len items /\
     scan_core keyof items cursor count pat =
       ((if len items <=? cursor + Z.of_nat j then 0 else cursor + Z.of_nat j),
        filter (scan_inc keyof pat) (firstn j (zskipn cursor items)))).
Proof.
  intros Hc Hn. unfold scan_core.
  destruct (Z.leb_spec (len items) cursor) as [L|L]; [left; auto|]. right. split; [exact L|].
  pose proof (scan_limit_pos count Hn) as P.
  destruct (scan_walk_spec (scan_inc keyof pat) (zskipn cursor items) 0 0 (scan_limit count * 10)
              (scan_limit count) cursor) as [j [Lj [E Pj]]].
  exists j. rewrite E.
  assert (LS : len (zskipn cursor items) = len items - cursor) by (apply len_zskipn; lia).
  split; [|split; [|reflexivity]].
  - apply Pj; [|lia|lia]. intros HZ. rewrite HZ in LS. unfold len in *. simpl in LS. lia.
  - unfold len in *. lia.
Qed.

(** termination measure: the distance to the end of the list strictly decreases *)
Lemma scan_core_progress {A} (keyof : A -> bytes) items cursor count pat :
  0 <= cursor -> 0 <= count ->
  let next := fst (scan_core keyof items cursor count pat) in
  next = 0 \/ (cursor < next /\ next < len items).
Proof.
  intros Hc Hn. destruct (scan_core_spec keyof items cursor count pat Hc Hn) as [[L E]|[L [j [J1 [J2 E]]]]];
    rewrite E; simpl; [left; reflexivity|].
  destruct (Z.leb_spec (len items) (cursor + Z.of_nat j)); [left; reflexivity | right; lia].
Qed.

Lemma firstn_In' {A} (x : A) n l : In x (firstn n l) -> In x l.
Proof. intros H. rewrite <- (firstn_skipn n l). apply in_or_app. auto. Qed.
Lemma skipn_In' {A} (x : A) n l : In x (skipn n l) -> In x l.
Proof. intros H. rewrite <- (firstn_skipn n l). apply in_or_app. auto. Qed.

(** soundness of one call *)
Lemma scan_core_sound {A} (keyof : A -> bytes) items cursor count pat x :
  0 <= cursor -> 0 <= count ->
  In x (snd (scan_core keyof items cursor count pat)) -> In x items /\ scan_inc keyof pat x = true.
Proof.
  intros Hc Hn. destruct (scan_core_spec keyof items cursor count pat Hc Hn) as [[L E]|[L [j [J1 [J2 E]]]]];
    rewrite E; simpl; [tauto|].
  intros H. apply filter_In in H. destruct H as [H I]. split; [|exact I].
  apply firstn_In' in H. unfold zskipn in H. apply skipn_In' in H. exact H.
Qed.

(** ---- iterations ---- *)
(** [lists] = the sorted item list at each successive call (a static iteration repeats one
    list); [cnt k] = COUNT of the k-th call.  Result: everything returned, and the list at the
    call that returned cursor 0 (None = the iteration did not finish within these calls). *)
Fixpoint iterate {A} (keyof : A -> bytes) (pat : option bytes) (cnt : nat -> Z)
         (lists : list (list A)) (k : nat) (cursor : Z) : list A * option (list A) :=
  match lists with
  | [] => ([], None)
  | L :: rest =>
      match scan_core keyof L cursor (cnt k) pat with
      | (next, res) =>
          if next =? 0 then (res, Some L)
          else match iterate keyof pat cnt rest (S k) next with
               | (r, f) => (res ++ r, f)
               end
      end
  end.

(** between two calls the part of the list before the cursor did not change *)
Fixpoint prefix_stable {A} (keyof : A -> bytes) (pat : option bytes) (cnt : nat -> Z)
         (lists : list (list A)) (k : nat) (cursor : Z) : Prop :=
  match lists with
  | [] => True
  | L :: rest =>
      let next := fst (scan_core keyof L cursor (cnt k) pat) in
      match rest with
      | [] => True
      | L' :: _ => zfirstn next L' = zfirstn next L /\ prefix_stable keyof pat cnt rest (S k) next
      end
  end.

Lemma filter_firstn_skipn {A} (f : A -> bool) (l : list A) (c j : nat) :
  filter f (firstn c l) ++ filter f (firstn j (skipn c l)) = filter f (firstn (c + j) l).
Proof.
  rewrite <- filter_app. f_equal. revert l. induction c as [|c IH]; intros l; simpl; [reflexivity|].
  destruct l as [|x l]; simpl.
  - rewrite firstn_nil. reflexivity.
  - rewrite IH. reflexivity.
Qed.

Lemma iterate_dyn_spec {A} (keyof : A -> bytes) pat cnt : forall lists k cursor u Lf,
  0 <= cursor -> (forall i, 0 <= cnt i) ->
  prefix_stable keyof pat cnt lists k cursor ->
  iterate keyof pat cnt lists k cursor = (u, Some Lf) ->
  match lists with
  | [] => False
  | L0 :: _ => filter (scan_inc keyof pat) (zfirstn cursor L0) ++ u = filter (scan_inc keyof pat) Lf
  end.
Proof.
  induction lists as [|L rest IH]; intros k cursor u Lf Hc Hcnt PS H; simpl in H; [discriminate|].
  destruct (scan_core_spec keyof L cursor (cnt k) pat Hc (Hcnt k)) as [[Le E]|[Lt [j [J1 [J2 E]]]]].
  - rewrite E in H. simpl in H. injection H as <- <-. rewrite app_nil_r.
    unfold zfirstn. rewrite firstn_all2; [reflexivity|]. unfold len in Le. lia.
  - rewrite E in H.
    assert (F : filter (scan_inc keyof pat) (zfirstn cursor L) ++
                filter (scan_inc keyof pat) (firstn j (zskipn cursor L)) =
                filter (scan_inc keyof pat) (zfirstn (cursor + Z.of_nat j) L)).
    { unfold zfirstn, zskipn. rewrite filter_firstn_skipn. f_equal. f_equal. lia. }
    destruct (Z.leb_spec (len L) (cursor + Z.of_nat j)) as [Ge|Lt2].
    + simpl in H. injection H as <- <-. rewrite F.
      unfold zfirstn. rewrite firstn_all2; [reflexivity|]. unfold len in Ge. lia.
    + assert (NZ : (cursor + Z.of_nat j =? 0) = false) by (apply Z.eqb_neq; lia).
      rewrite NZ in H.
      destruct (iterate keyof pat cnt rest (S k) (cursor + Z.of_nat j)) as [r f] eqn:EI.
      injection H as <- ->.
      simpl in PS. rewrite E in PS. simpl in PS.
      destruct (Z.leb_spec (len L) (cursor + Z.of_nat j)) as [X|_]; [lia|].
      destruct rest as [|L' rest']; [simpl in EI; discriminate|].
      destruct PS as [P1 P2].
      specialize (IH (S k) (cursor + Z.of_nat j) r Lf ltac:(lia) Hcnt P2 EI). simpl in IH.
      rewrite app_assoc, F, <- P1. exact IH.
Qed.

(** every key of the list at the final call that passes the filter was returned *)
Lemma iterate_dyn_complete {A} (keyof : A -> bytes) pat cnt lists u Lf x :
  (forall i, 0 <= cnt i) ->
  prefix_stable keyof pat cnt lists 0 0 ->
  iterate keyof pat cnt lists 0 0 = (u, Some Lf) ->
  In x Lf -> scan_inc keyof pat x = true -> In x u.
Proof.
  intros Hcnt PS H Hx Hi.
  pose proof (iterate_dyn_spec keyof pat cnt lists 0 0 u Lf ltac:(lia) Hcnt PS H) as S.
  destruct lists as [|L0 r]; [contradiction|]. simpl in S.
  assert (In x (filter (scan_inc keyof pat) Lf)) by (apply filter_In; auto).
  rewrite <- S in H0. exact H0.
Qed.

(** static iteration: the same list at every call *)
Lemma prefix_stable_repeat {A} (keyof : A -> bytes) pat cnt L : forall n k cursor,
  prefix_stable keyof pat cnt (repeat L n) k cursor.
Proof.
  induction n as [|n IH]; intros k cursor; simpl; [exact I|].
  destruct n as [|n]; simpl; [exact I|]. split; [reflexivity|]. apply (IH (S k)).
Qed.

Lemma iterate_static_finishes {A} (keyof : A -> bytes) pat cnt L :
  (forall i, 0 <= cnt i) -> forall n k cursor, 0 <= cursor ->
  (Z.to_nat (len L - cursor) < n)%nat ->
  exists u, iterate keyof pat cnt (repeat L n) k cursor = (u, Some L).
Proof.
  intros Hcnt. induction n as [|n IH]; intros k cursor Hc Hn; [lia|]. simpl.
  destruct (scan_core_spec keyof L cursor (cnt k) pat Hc (Hcnt k)) as [[Le E]|[Lt [j [J1 [J2 E]]]]];
    rewrite E.
  - simpl. eauto.
  - destruct (Z.leb_spec (len L) (cursor + Z.of_nat j)) as [Ge|Lt2]; [simpl; eauto|].
    assert (NZ : (cursor + Z.of_nat j =? 0) = false) by (apply Z.eqb_neq; lia). rewrite NZ.
    destruct (IH (S k) (cursor + Z.of_nat j) ltac:(lia) ltac:(lia)) as [u E2]. rewrite E2. eauto.
Qed.

(** static completeness: a full iteration over an unchanged list, with any COUNTs, ends within
    |L| + 1 calls and returns exactly the items that pass the filter, in order, each once *)
Lemma iterate_static {A} (keyof : A -> bytes) pat cnt L :
  (forall i, 0 <= cnt i) ->
  iterate keyof pat cnt (repeat L (S (length L))) 0 0 = (filter (scan_inc keyof pat) L, Some L).
Proof.
  intros Hcnt.
  destruct (iterate_static_finishes keyof pat cnt L Hcnt (S (length L)) 0%nat 0 ltac:(lia)) as [u E].
  { unfold len. lia. }
  rewrite E. f_equal.
  pose proof (iterate_dyn_spec keyof pat cnt _ 0%nat 0 u L ltac:(lia) Hcnt
                (prefix_stable_repeat keyof pat cnt L _ _ _) E) as S.
  simpl in S. exact S.
Qed.

(** ---- sorting ---- *)
Lemma In_binsert x y l : In x (binsert y l) <-> x = y \/ In x l.
Proof.
  induction l as [|z l IH]; simpl; [intuition congruence|].
  destruct (bleb y z); simpl; [intuition congruence|]. rewrite IH. intuition congruence.
Qed.
Lemma In_bsort x l : In x (bsort l) <-> In x l.
Proof.
  unfold bsort. induction l as [|y l IH]; simpl; [tauto|]. rewrite In_binsert, IH. intuition congruence.
Qed.
Lemma NoDup_binsert y l : NoDup l -> ~ In y l -> NoDup (binsert y l).
Proof.
  induction l as [|z l IH]; simpl; intros H N; [constructor; [simpl; tauto | constructor]|].
  destruct (bleb y z); [constructor; assumption|].
  inversion H; subst. constructor; [rewrite In_binsert; intros [X|X]; [subst; tauto | contradiction]|].
  apply IH; tauto.
Qed.
Lemma NoDup_bsort l : NoDup l -> NoDup (bsort l).
Proof.
  unfold bsort. induction 1 as [|y l N D IH]; simpl; [constructor|].
  apply NoDup_binsert; [exact IH|]. fold (bsort l). rewrite In_bsort. exact N.
Qed.

(** ---- SCAN on a database ---- *)
Definition key_visible (now : Z) (d : db) (tf : option bytes) (k : bytes) : Prop :=
  exists e, In (k, e) (d_data d) /\ scan_visible now tf (k, e) = true.

Lemma live_keys_In now d tf k : In k (live_keys now d tf) <-> key_visible now d tf k.
Proof.
  unfold live_keys, key_visible. rewrite In_bsort, in_map_iff. split.
  - intros [[k' e] [E H]]. simpl in E. subst k'. apply filter_In in H. exists e. exact H.
  - intros [e H]. exists (k, e). split; [reflexivity | apply filter_In; exact H].
Qed.
Lemma NoDup_map_filter {A B} (f : A -> B) (p : A -> bool) l : NoDup (map f l) -> NoDup (map f (filter p l)).
Proof.
  induction l as [|x l IH]; simpl; intros H; [constructor|].
  inversion H; subst. destruct (p x); simpl; [|apply IH; assumption].
  constructor; [|apply IH; assumption].
  intros X. apply H2. apply in_map_iff in X. destruct X as [y [E Y]]. apply filter_In in Y.
  apply in_map_iff. exists y. tauto.
Qed.
Lemma live_keys_NoDup now d tf : NoDup (map fst (d_data d)) -> NoDup (live_keys now d tf).
Proof. intros H. apply NoDup_bsort, NoDup_map_filter. exact H. Qed.

Definition key_matches (pat : option bytes) (k : bytes) : bool := scan_inc (fun k => k) pat k.

(** a full SCAN iteration on an unchanged database, any COUNT at each call *)
Definition scan_static (now : Z) (d : db) (pat tf : option bytes) (cnt : nat -> Z) : list bytes * option (list bytes) :=
  iterate (fun k => k) pat cnt (repeat (live_keys now d tf) (S (length (live_keys now d tf)))) 0 0.

Lemma scan_static_complete now d pat tf cnt :
  (forall i, 0 <= cnt i) -> NoDup (map fst (d_data d)) ->
  exists keys, scan_static now d pat tf cnt = (keys, Some (live_keys now d tf)) /\ NoDup keys /\
    forall k, In k keys <-> key_visible now d tf k /\ key_matches pat k = true.
Proof.
  intros Hcnt ND. unfold scan_static. rewrite (iterate_static _ _ _ _ Hcnt).
  eexists. split; [reflexivity|]. split.
  - apply NoDup_filter. apply live_keys_NoDup. exact ND.
  - intros k. rewrite filter_In, live_keys_In. reflexivity.
Qed.

Lemma eng_scan_sound now d cursor pat tf count k :
  0 <= cursor -> 0 <= count ->
  In k (snd (eng_scan now d cursor pat tf count)) -> key_visible now d tf k /\ key_matches pat k = true.
Proof.
  intros Hc Hn H. apply scan_core_sound in H; [|exact Hc|exact Hn].
  rewrite live_keys_In in H. exact H.
Qed.

(** a SCAN iteration across changing databases: [states] = (time, database) at each call *)
Definition scan_dynamic (states : list (Z * db)) (pat tf : option bytes) (cnt : nat -> Z) :=
  iterate (fun k => k) pat cnt (map (fun st => live_keys (fst st) (snd st) tf) states) 0 0.
Definition scan_prefix_stable (states : list (Z * db)) (pat tf : option bytes) (cnt : nat -> Z) : Prop :=
  prefix_stable (fun k => k) pat cnt (map (fun st => live_keys (fst st) (snd st) tf) states) 0 0.

Lemma scan_dynamic_partial states pat tf cnt keys Lf k :
  (forall i, 0 <= cnt i) -> scan_prefix_stable states pat tf cnt ->
  scan_dynamic states pat tf cnt = (keys, Some Lf) ->
  (forall st, In st states -> key_visible (fst st) (snd st) tf k) -> key_matches pat k = true ->
  In k keys.
Proof.
  intros Hcnt PS H Hv Hm.
  eapply iterate_dyn_complete; try eassumption.
  (* the final list is one of the lists *)
  assert (FL : forall (lists : list (list bytes)) kk c u L,
             iterate (fun k => k) pat cnt lists kk c = (u, Some L) -> In L lists).
  { induction lists as [|L0 r IH]; intros kk c u L X; simpl in X; [discriminate|].
    destruct (scan_core (fun k => k) L0 c (cnt kk) pat) as [next res].
    destruct (next =? 0); [injection X as _ <-; simpl; auto|].
    destruct (iterate (fun k => k) pat cnt r (S kk) next) as [r1 f] eqn:E. injection X as _ ->.
    right. eapply IH. exact E. }
  apply FL in H. apply in_map_iff in H. destruct H as [st [<- Hst]].
  apply live_keys_In. apply Hv. exact Hst.
Qed.

(** ---- SSCAN on an unchanged set ---- *)
Lemma eng_sscan_live now d key s cursor pat count :
  get_entry d key = Some {| e_val := VSet s; e_exp := None |} ->
  eng_sscan now d key cursor pat count =
  (Some (if (len s <=? scan_limit count) && (cursor =? 0) && negb (match pat with Some _ => true | None => false end)
         then (0, bsort s) else scan_core (fun m => m) (bsort s) cursor count pat), d).
Proof.
  intros H. unfold eng_sscan, eng_get. rewrite H. unfold expired. simpl.
  destruct ((len s <=? scan_limit count) && (cursor =? 0) && negb (match pat with Some _ => true | None => false end)); reflexivity.
Qed.
