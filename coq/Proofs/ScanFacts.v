(** Facts about the SCAN family model (Model/Scan.v): what one call returns, progress of the
    cursor, static completeness of a full iteration, soundness, and completeness under
    modifications that leave the part of the sorted list before the cursor unchanged. *)
From Coq Require Import Sorting.Sorted.
From Ferrous Require Import Base.Bytes Model.Resp Model.Types Model.Glob Model.Strings Model.Scan
  Proofs.BytesFacts.
Open Scope Z_scope.

(** ---- one call ---- *)
Lemma scan_walk_spec {A} (inc : A -> bool) : forall rest e m limE limM pos,
  exists j : nat, (j <= length rest)%nat /\
    scan_walk inc rest e m limE limM pos = (pos + Z.of_nat j, filter inc (firstn j rest)) /\
    (rest <> [] -> e < limE -> m < limM -> (1 <= j)%nat).
Proof.
  induction rest as [|x r IH]; intros e m limE limM pos.
  - exists 0%nat. simpl. split; [lia|]. split; [f_equal; lia | congruence].
  - cbn [scan_walk].
    destruct ((e <? limE) && (m <? limM)) eqn:C.
    + destruct (inc x) eqn:I.
      * destruct (IH (e + 1) (m + 1) limE limM (pos + 1)) as [j [L [E _]]].
        exists (S j). rewrite E. split; [simpl; lia|]. split; [|lia].
        cbn [firstn filter]. rewrite I. f_equal. lia.
      * destruct (IH (e + 1) m limE limM (pos + 1)) as [j [L [E _]]].
        exists (S j). rewrite E. split; [simpl; lia|]. split; [|lia].
        cbn [firstn filter]. rewrite I. f_equal. lia.
    + exists 0%nat. split; [lia|]. split; [simpl; f_equal; lia|].
      intros _ H1 H2. apply andb_false_iff in C. destruct C as [C|C]; apply Z.ltb_ge in C; lia.
Qed.

Lemma scan_limit_pos count : 0 <= count -> 1 <= scan_limit count.
Proof. intros H. unfold scan_limit. destruct (Z.eqb_spec count 0); lia. Qed.

Lemma len_zskipn {A} (l : list A) c : 0 <= c -> c <= len l -> len (zskipn c l) = len l - c.
Proof. intros H1 H2. unfold len, zskipn in *. rewrite skipn_length. lia. Qed.

(** what a call returns: either the cursor is at or beyond the end (reply: cursor 0, nothing),
    or it examines j >= 1 further items and returns those of them that match *)
Lemma scan_core_spec {A} (keyof : A -> bytes) items cursor count pat :
  0 <= cursor -> 0 <= count ->
  (len items <= cursor /\ scan_core keyof items cursor count pat = (0, [])) \/
  (cursor < len items /\ exists j : nat, (1 <= j)%nat /\ cursor + Z.of_nat j <= len items /\
     scan_core keyof items cursor count pat =
       ((if len items <=? cursor + Z.of_nat j then 0 else cursor + Z.of_nat j),
        filter (scan_inc keyof pat) (firstn j (zskipn cursor items)))).
Proof.
  intros Hc Hn. unfold scan_core.
  destruct (Z.leb_spec (len items) cursor) as [L|L]; [left; auto|]. right. split; [exact L|].
  pose proof (scan_limit_pos count Hn) as P.
  destruct (scan_walk_spec (scan_inc keyof pat) (zskipn cursor items) 0 0 (scan_limit count * 10)
              (scan_limit count) cursor) as [j [Lj [E Pj]]].
  exists j. rewrite E.
  assert (LS : len (zskipn cursor items) = len items - cursor) by (apply len_zskipn; lia).
  split; [|split; [|reflexivity]].
  - apply Pj; [|lia|lia]. intros HZ. rewrite HZ in LS. unfold len in *. simpl in LS. lia.
  - unfold len in *. lia.
Qed.

(** termination measure: the distance to the end of the list strictly decreases *)
Lemma scan_core_progress {A} (keyof : A -> bytes) items cursor count pat :
  0 <= cursor -> 0 <= count ->
  let next := fst (scan_core keyof items cursor count pat) in
  next = 0 \/ (cursor < next /\ next < len items).
Proof.
  intros Hc Hn. destruct (scan_core_spec keyof items cursor count pat Hc Hn) as [[L E]|[L [j [J1 [J2 E]]]]];
    rewrite E; simpl; [left; reflexivity|].
  destruct (Z.leb_spec (len items) (cursor + Z.of_nat j)); [left; reflexivity | right; lia].
Qed.

Lemma firstn_In' {A} (x : A) n l : In x (firstn n l) -> In x l.
Proof. intros H. rewrite <- (firstn_skipn n l). apply in_or_app. auto. Qed.
Lemma skipn_In' {A} (x : A) n l : In x (skipn n l) -> In x l.
Proof. intros H. rewrite <- (firstn_skipn n l). apply in_or_app. auto. Qed.

(** soundness of one call *)
Lemma scan_core_sound {A} (keyof : A -> bytes) items cursor count pat x :
  0 <= cursor -> 0 <= count ->
  In x (snd (scan_core keyof items cursor count pat)) -> In x items /\ scan_inc keyof pat x = true.
Proof.
  intros Hc Hn. destruct (scan_core_spec keyof items cursor count pat Hc Hn) as [[L E]|[L [j [J1 [J2 E]]]]];
    rewrite E; simpl; [tauto|].
  intros H. apply filter_In in H. destruct H as [H I]. split; [|exact I].
  apply firstn_In' in H. unfold zskipn in H. apply skipn_In' in H. exact H.
Qed.

(** ---- iterations ---- *)
(** [lists] = the sorted item list at each successive call (a static iteration repeats one
    list); [cnt k] = COUNT of the k-th call.  Result: everything returned, and the list at the
    call that returned cursor 0 (None = the iteration did not finish within these calls). *)
Fixpoint iterate {A} (keyof : A -> bytes) (pat : option bytes) (cnt : nat -> Z)
         (lists : list (list A)) (k : nat) (cursor : Z) : list A * option (list A) :=
  match lists with
  | [] => ([], None)
  | L :: rest =>
      match scan_core keyof L cursor (cnt k) pat with
      | (next, res) =>
          if next =? 0 then (res, Some L)
          else match iterate keyof pat cnt rest (S k) next with
               | (r, f) => (res ++ r, f)
               end
      end
  end.

(** between two calls the part of the list before the cursor did not change *)
Fixpoint prefix_stable {A} (keyof : A -> bytes) (pat : option bytes) (cnt : nat -> Z)
         (lists : list (list A)) (k : nat) (cursor : Z) : Prop :=
  match lists with
  | [] => True
  | L :: rest =>
      let next := fst (scan_core keyof L cursor (cnt k) pat) in
      match rest with
      | [] => True
      | L' :: _ => zfirstn next L' = zfirstn next L /\ prefix_stable keyof pat cnt rest (S k) next
      end
  end.

Lemma filter_firstn_skipn {A} (f : A -> bool) (l : list A) (c j : nat) :
  filter f (firstn c l) ++ filter f (firstn j (skipn c l)) = filter f (firstn (c + j) l).
Proof.
  rewrite <- filter_app. f_equal. revert l. induction c as [|c IH]; intros l; simpl; [reflexivity|].
  destruct l as [|x l]; simpl.
  - rewrite firstn_nil. reflexivity.
  - rewrite IH. reflexivity.
Qed.

Lemma iterate_dyn_spec {A} (keyof : A -> bytes) pat cnt : forall lists k cursor u Lf,
  0 <= cursor -> (forall i, 0 <= cnt i) ->
  prefix_stable keyof pat cnt lists k cursor ->
  iterate keyof pat cnt lists k cursor = (u, Some Lf) ->
  match lists with
  | [] => False
  | L0 :: _ => filter (scan_inc keyof pat) (zfirstn cursor L0) ++ u = filter (scan_inc keyof pat) Lf
  end.
Proof.
  induction lists as [|L rest IH]; intros k cursor u Lf Hc Hcnt PS H; simpl in H; [discriminate|].
  destruct (scan_core_spec keyof L cursor (cnt k) pat Hc (Hcnt k)) as [[Le E]|[Lt [j [J1 [J2 E]]]]].
  - rewrite E in H. simpl in H. injection H as <- <-. rewrite app_nil_r.
    unfold zfirstn. rewrite firstn_all2; [reflexivity|]. unfold len in Le. lia.
  - rewrite E in H.
    assert (F : filter (scan_inc keyof pat) (zfirstn cursor L) ++
                filter (scan_inc keyof pat) (firstn j (zskipn cursor L)) =
                filter (scan_inc keyof pat) (zfirstn (cursor + Z.of_nat j) L)).
    { unfold zfirstn, zskipn. rewrite filter_firstn_skipn. f_equal. f_equal. lia. }
    destruct (Z.leb_spec (len L) (cursor + Z.of_nat j)) as [Ge|Lt2].
    + simpl in H. injection H as <- <-. rewrite F.
      unfold zfirstn. rewrite firstn_all2; [reflexivity|]. unfold len in Ge. lia.
    + assert (NZ : (cursor + Z.of_nat j =? 0) = false) by (apply Z.eqb_neq; lia).
      rewrite NZ in H.
      destruct (iterate keyof pat cnt rest (S k) (cursor + Z.of_nat j)) as [r f] eqn:EI.
      injection H as <- ->.
      simpl in PS. rewrite E in PS. simpl in PS.
      destruct (Z.leb_spec (len L) (cursor + Z.of_nat j)) as [X|_]; [lia|].
      destruct rest as [|L' rest']; [simpl in EI; discriminate|].
      destruct PS as [P1 P2].
      specialize (IH (S k) (cursor + Z.of_nat j) r Lf ltac:(lia) Hcnt P2 EI). simpl in IH.
      rewrite app_assoc, F, <- P1. exact IH.
Qed.

(** every key of the list at the final call that passes the filter was returned *)
Lemma iterate_dyn_complete {A} (keyof : A -> bytes) pat cnt lists u Lf x :
  (forall i, 0 <= cnt i) ->
  prefix_stable keyof pat cnt lists 0 0 ->
  iterate keyof pat cnt lists 0 0 = (u, Some Lf) ->
  In x Lf -> scan_inc keyof pat x = true -> In x u.
Proof.
  intros Hcnt PS H Hx Hi.
  pose proof (iterate_dyn_spec keyof pat cnt lists 0 0 u Lf ltac:(lia) Hcnt PS H) as S.
  destruct lists as [|L0 r]; [contradiction|]. simpl in S.
  assert (In x (filter (scan_inc keyof pat) Lf)) by (apply filter_In; auto).
  rewrite <- S in H0. exact H0.
Qed.

(** static iteration: the same list at every call *)
Lemma prefix_stable_repeat {A} (keyof : A -> bytes) pat cnt L : forall n k cursor,
  prefix_stable keyof pat cnt (repeat L n) k cursor.
Proof.
  induction n as [|n IH]; intros k cursor; simpl; [exact I|].
  destruct n as [|n]; simpl; [exact I|]. split; [reflexivity|]. apply (IH (S k)).
Qed.

Lemma iterate_static_finishes {A} (keyof : A -> bytes) pat cnt L :
  (forall i, 0 <= cnt i) -> forall n k cursor, 0 <= cursor ->
  (Z.to_nat (len L - cursor) < n)%nat ->
  exists u, iterate keyof pat cnt (repeat L n) k cursor = (u, Some L).
Proof.
  intros Hcnt. induction n as [|n IH]; intros k cursor Hc Hn; [lia|]. simpl.
  destruct (scan_core_spec keyof L cursor (cnt k) pat Hc (Hcnt k)) as [[Le E]|[Lt [j [J1 [J2 E]]]]];
    rewrite E.
  - simpl. eauto.
  - destruct (Z.leb_spec (len L) (cursor + Z.of_nat j)) as [Ge|Lt2]; [simpl; eauto|].
    assert (NZ : (cursor + Z.of_nat j =? 0) = false) by (apply Z.eqb_neq; lia). rewrite NZ.
    destruct (IH (S k) (cursor + Z.of_nat j) ltac:(lia) ltac:(lia)) as [u E2]. rewrite E2. eauto.
Qed.

(** static completeness: a full iteration over an unchanged list, with any COUNTs, ends within
    |L| + 1 calls and returns exactly the items that pass the filter, in order, each once *)
Lemma iterate_static {A} (keyof : A -> bytes) pat cnt L :
  (forall i, 0 <= cnt i) ->
  iterate keyof pat cnt (repeat L (S (length L))) 0 0 = (filter (scan_inc keyof pat) L, Some L).
Proof.
  intros Hcnt.
  destruct (iterate_static_finishes keyof pat cnt L Hcnt (S (length L)) 0%nat 0 ltac:(lia)) as [u E].
  { unfold len. lia. }
  rewrite E. f_equal.
  pose proof (iterate_dyn_spec keyof pat cnt _ 0%nat 0 u L ltac:(lia) Hcnt
                (prefix_stable_repeat keyof pat cnt L _ _ _) E) as S.
  simpl in S. exact S.
Qed.

(** ---- sorting ---- *)
Lemma In_binsert x y l : In x (binsert y l) <-> x = y \/ In x l.
Proof.
  induction l as [|z l IH]; simpl; [intuition congruence|].
  destruct (bleb y z); simpl; [intuition congruence|]. rewrite IH. intuition congruence.
Qed.
Lemma In_bsort x l : In x (bsort l) <-> In x l.
Proof.
  unfold bsort. induction l as [|y l IH]; simpl; [tauto|]. rewrite In_binsert, IH. intuition congruence.
Qed.
Lemma NoDup_binsert y l : NoDup l -> ~ In y l -> NoDup (binsert y l).
Proof.
  induction l as [|z l IH]; simpl; intros H N; [constructor; [simpl; tauto | constructor]|].
  destruct (bleb y z); [constructor; assumption|].
  inversion H; subst. constructor; [rewrite In_binsert; intros [X|X]; [subst; tauto | contradiction]|].
  apply IH; tauto.
Qed.
Lemma NoDup_bsort l : NoDup l -> NoDup (bsort l).
Proof.
  unfold bsort. induction 1 as [|y l N D IH]; simpl; [constructor|].
  apply NoDup_binsert; [exact IH|]. fold (bsort l). rewrite In_bsort. exact N.
Qed.

(** ---- SCAN on a database ---- *)
Definition key_visible (now : Z) (d : db) (tf : option bytes) (k : bytes) : Prop :=
  exists e, In (k, e) (d_data d) /\ scan_visible now tf (k, e) = true.

Lemma live_keys_In now d tf k : In k (live_keys now d tf) <-> key_visible now d tf k.
Proof.
  unfold live_keys, key_visible. rewrite In_bsort, in_map_iff. split.
  - intros [[k' e] [E H]]. simpl in E. subst k'. apply filter_In in H. exists e. exact H.
  - intros [e H]. exists (k, e). split; [reflexivity | apply filter_In; exact H].
Qed.
Lemma NoDup_map_filter {A B} (f : A -> B) (p : A -> bool) l : NoDup (map f l) -> NoDup (map f (filter p l)).
Proof.
  induction l as [|x l IH]; simpl; intros H; [constructor|].
  inversion H; subst. destruct (p x); simpl; [|apply IH; assumption].
  constructor; [|apply IH; assumption].
  intros X. apply H2. apply in_map_iff in X. destruct X as [y [E Y]]. apply filter_In in Y.
  apply in_map_iff. exists y. tauto.
Qed.
Lemma live_keys_NoDup now d tf : NoDup (map fst (d_data d)) -> NoDup (live_keys now d tf).
Proof. intros H. apply NoDup_bsort, NoDup_map_filter. exact H. Qed.

Definition key_matches (pat : option bytes) (k : bytes) : bool := scan_inc (fun k => k) pat k.

(** a full SCAN iteration on an unchanged database, any COUNT at each call *)
Definition scan_static (now : Z) (d : db) (pat tf : option bytes) (cnt : nat -> Z) : list bytes * option (list bytes) :=
  iterate (fun k => k) pat cnt (repeat (live_keys now d tf) (S (length (live_keys now d tf)))) 0 0.

Lemma scan_static_complete now d pat tf cnt :
  (forall i, 0 <= cnt i) -> NoDup (map fst (d_data d)) ->
  exists keys, scan_static now d pat tf cnt = (keys, Some (live_keys now d tf)) /\ NoDup keys /\
    forall k, In k keys <-> key_visible now d tf k /\ key_matches pat k = true.
Proof.
  intros Hcnt ND. unfold scan_static. rewrite (iterate_static _ _ _ _ Hcnt).
  eexists. split; [reflexivity|]. split.
  - apply NoDup_filter. apply live_keys_NoDup. exact ND.
  - intros k. rewrite filter_In, live_keys_In. reflexivity.
Qed.

Lemma eng_scan_sound now d cursor pat tf count k :
  0 <= cursor -> 0 <= count ->
  In k (snd (eng_scan now d cursor pat tf count)) -> key_visible now d tf k /\ key_matches pat k = true.
Proof.
  intros Hc Hn H. apply scan_core_sound in H; [|exact Hc|exact Hn].
  rewrite live_keys_In in H. exact H.
Qed.

(** a SCAN iteration across changing databases: [states] = (time, database) at each call *)
Definition scan_dynamic (states : list (Z * db)) (pat tf : option bytes) (cnt : nat -> Z) :=
  iterate (fun k => k) pat cnt (map (fun st => live_keys (fst st) (snd st) tf) states) 0 0.
Definition scan_prefix_stable (states : list (Z * db)) (pat tf : option bytes) (cnt : nat -> Z) : Prop :=
  prefix_stable (fun k => k) pat cnt (map (fun st => live_keys (fst st) (snd st) tf) states) 0 0.

Lemma scan_dynamic_partial states pat tf cnt keys Lf k :
  (forall i, 0 <= cnt i) -> scan_prefix_stable states pat tf cnt ->
  scan_dynamic states pat tf cnt = (keys, Some Lf) ->
  (forall st, In st states -> key_visible (fst st) (snd st) tf k) -> key_matches pat k = true ->
  In k keys.
Proof.
  intros Hcnt PS H Hv Hm.
  eapply iterate_dyn_complete; try eassumption.
  (* the final list is one of the lists *)
  assert (FL : forall (lists : list (list bytes)) kk c u L,
             iterate (fun k => k) pat cnt lists kk c = (u, Some L) -> In L lists).
  { induction lists as [|L0 r IH]; intros kk c u L X; simpl in X; [discriminate|].
    destruct (scan_core (fun k => k) L0 c (cnt kk) pat) as [next res].
    destruct (next =? 0); [injection X as _ <-; simpl; auto|].
    destruct (iterate (fun k => k) pat cnt r (S kk) next) as [r1 f] eqn:E. injection X as _ ->.
    right. eapply IH. exact E. }
  apply FL in H. apply in_map_iff in H. destruct H as [st [<- Hst]].
  apply live_keys_In. apply Hv. exact Hst.
Qed.

(** ---- SSCAN on an unchanged set ---- *)
Lemma eng_sscan_live now d key s cursor pat count :
  get_entry d key = Some {| e_val := VSet s; e_exp := None |} ->
  eng_sscan now d key cursor pat count =
  (Some (if (len s <=? scan_limit count) && (cursor =? 0) && negb (match pat with Some _ => true | None => false end)
         then (0, bsort s) else scan_core (fun m => m) (bsort s) cursor count pat), d).
Proof.
  intros H. unfold eng_sscan, eng_get. rewrite H. unfold expired. simpl.
  destruct ((len s <=? scan_limit count) && (cursor =? 0) && negb (match pat with Some _ => true | None => false end)); reflexivity.
Qed.

(** ---- order on byte strings; sorted duplicate-free lists ---- *)
Lemma bcmp_refl a : bcmp a a = Eq.
Proof. induction a as [|x a IH]; simpl; [reflexivity|]. rewrite Z.compare_refl. exact IH. Qed.
Lemma bcmp_eq : forall a b, bcmp a b = Eq -> a = b.
Proof.
  induction a as [|x a IH]; intros [|y b]; simpl; try discriminate; [reflexivity|].
  destruct (x ?= y) eqn:E; try discriminate. apply Z.compare_eq in E. subst y.
  intros H. f_equal. apply IH. exact H.
Qed.
Lemma bcmp_antisym : forall a b, bcmp b a = CompOpp (bcmp a b).
Proof.
  induction a as [|x a IH]; intros [|y b]; simpl; try reflexivity.
  rewrite (Z.compare_antisym x y). destruct (x ?= y); simpl; auto.
Qed.
Lemma bcmp_lt_trans : forall a b c, bcmp a b = Lt -> bcmp b c = Lt -> bcmp a c = Lt.
Proof.
  induction a as [|x a IH]; intros [|y b] [|z c]; simpl; try discriminate; try reflexivity.
  destruct (x ?= y) eqn:E1; try discriminate; destruct (y ?= z) eqn:E2; try discriminate; intros H1 H2.
  - apply Z.compare_eq in E1, E2. subst. rewrite Z.compare_refl. eapply IH; eassumption.
  - apply Z.compare_eq in E1. subst. rewrite E2. reflexivity.
  - apply Z.compare_eq in E2. subst. rewrite E1. reflexivity.
  - rewrite Z.compare_lt_iff in *. assert (x < z) by lia. apply Z.compare_lt_iff in H. rewrite H. reflexivity.
Qed.
Lemma bltb_trans a b c : bltb a b = true -> bltb b c = true -> bltb a c = true.
Proof.
  unfold bltb. destruct (bcmp a b) eqn:E1; try discriminate. destruct (bcmp b c) eqn:E2; try discriminate.
  rewrite (bcmp_lt_trans _ _ _ E1 E2). reflexivity.
Qed.
Lemma bltb_irrefl a : bltb a a = false.
Proof. unfold bltb. rewrite bcmp_refl. reflexivity. Qed.
Lemma bleb_false_lt a b : bleb a b = false -> bltb b a = true.
Proof. unfold bleb, bltb. rewrite (bcmp_antisym a b). destruct (bcmp a b); simpl; congruence. Qed.
Lemma bleb_true_lt a b : bleb a b = true -> a <> b -> bltb a b = true.
Proof.
  unfold bleb, bltb. destruct (bcmp a b) eqn:E; try congruence. apply bcmp_eq in E. congruence.
Qed.

Definition BSorted (l : list bytes) : Prop := StronglySorted (fun a b => bltb a b = true) l.

Lemma binsert_sorted x l : BSorted l -> ~ In x l -> BSorted (binsert x l).
Proof.
  induction 1 as [|y r S IH F]; simpl; intros N.
  - constructor; constructor.
  - destruct (bleb x y) eqn:E.
    + assert (L : bltb x y = true) by (apply bleb_true_lt; [exact E | intros ->; apply N; simpl; auto]).
      constructor; [constructor; assumption|]. constructor; [exact L|].
      rewrite Forall_forall in *. intros z Hz. eapply bltb_trans; [exact L | apply F; exact Hz].
    + apply bleb_false_lt in E. constructor; [apply IH; intros X; apply N; simpl; auto|].
      rewrite Forall_forall in *. intros z Hz. apply In_binsert in Hz. destruct Hz as [->|Hz]; [exact E | apply F; exact Hz].
Qed.
Lemma bsort_sorted l : NoDup l -> BSorted (bsort l).
Proof.
  unfold bsort. induction 1 as [|y l N D IH]; simpl; [constructor|].
  apply binsert_sorted; [exact IH|]. fold (bsort l). rewrite In_bsort. exact N.
Qed.

Lemma sorted_ext : forall l1 l2, BSorted l1 -> BSorted l2 -> (forall x, In x l1 <-> In x l2) -> l1 = l2.
Proof.
  induction l1 as [|a l1 IH]; intros l2 S1 S2 H.
  - destruct l2 as [|b l2]; [reflexivity|]. exfalso. apply (H b). simpl. auto.
  - destruct l2 as [|b l2]; [exfalso; apply (H a); simpl; auto|].
    inversion S1 as [|? ? S1' F1]; inversion S2 as [|? ? S2' F2]; subst.
    rewrite Forall_forall in F1, F2.
    assert (a = b).
    { destruct (proj1 (H a) (or_introl eq_refl)) as [E|E]; [congruence|].
      destruct (proj2 (H b) (or_introl eq_refl)) as [E2|E2]; [congruence|].
      pose proof (F2 _ E) as X. pose proof (F1 _ E2) as Y.
      pose proof (bltb_trans _ _ _ X Y) as Z. rewrite bltb_irrefl in Z. discriminate. }
    subst b. f_equal. apply IH; [assumption | assumption|].
    intros x. split; intros Hx.
    + destruct (proj1 (H x) (or_intror Hx)) as [E|E]; [|exact E].
      subst x. pose proof (F1 _ Hx) as X. rewrite bltb_irrefl in X. discriminate.
    + destruct (proj2 (H x) (or_intror Hx)) as [E|E]; [|exact E].
      subst x. pose proof (F2 _ Hx) as X. rewrite bltb_irrefl in X. discriminate.
Qed.

Lemma filter_sorted f l : BSorted l -> BSorted (filter f l).
Proof.
  induction 1 as [|y r S IH F]; simpl; [constructor|].
  destruct (f y); [|exact IH]. constructor; [exact IH|].
  rewrite Forall_forall in *. intros z Hz. apply filter_In in Hz. apply F. tauto.
Qed.

(** the keys below the key at position p are exactly the first p *)
Lemma sorted_below_nth : forall l p b, BSorted l -> nth_error l p = Some b ->
  filter (fun x => bltb x b) l = firstn p l.
Proof.
  induction l as [|y r IH]; intros p b S H; [destruct p; discriminate|].
  inversion S as [|? ? S' F]; subst. rewrite Forall_forall in F.
  destruct p as [|p]; simpl in H.
  - injection H as ->. simpl. rewrite bltb_irrefl.
    assert (E : filter (fun x => bltb x b) r = []).
    { clear -F. induction r as [|z r IH]; simpl; [reflexivity|].
      assert (X : bltb z b = false).
      { destruct (bltb z b) eqn:E; [|reflexivity]. pose proof (F z (or_introl eq_refl)) as Y.
        pose proof (bltb_trans _ _ _ E Y) as Z. rewrite bltb_irrefl in Z. discriminate. }
      rewrite X. apply IH. intros w Hw. apply F. simpl. auto. }
    exact E.
  - simpl. assert (In b r) by (eapply nth_error_In; exact H).
    rewrite (F _ H0). f_equal. apply IH; assumption.
Qed.

(** if the two lists have the same keys below b = L[p], their first p entries coincide *)
Lemma sorted_prefix_stable L L' p b :
  BSorted L -> BSorted L' -> nth_error L p = Some b ->
  (forall x, bltb x b = true -> (In x L <-> In x L')) ->
  firstn p L' = firstn p L.
Proof.
  intros S S' Hn H.
  assert (E : filter (fun x => bltb x b) L' = filter (fun x => bltb x b) L).
  { apply sorted_ext; try (apply filter_sorted; assumption).
    intros x. rewrite !filter_In. split; intros [A B]; (split; [apply (H x B); exact A | exact B]). }
  rewrite (sorted_below_nth L p b S Hn) in E.
  (* the keys of L' below b form a prefix of L' of the same length *)
  assert (P : forall l, BSorted l -> filter (fun x => bltb x b) l = firstn (length (filter (fun x => bltb x b) l)) l).
  { induction l as [|y r IH]; intros Sl; simpl; [reflexivity|].
    inversion Sl as [|? ? Sr F]; subst. rewrite Forall_forall in F.
    destruct (bltb y b) eqn:Y; simpl; [f_equal; apply IH; exact Sr|].
    assert (X : filter (fun x => bltb x b) r = []).
    { clear -F Y. induction r as [|z r IH]; simpl; [reflexivity|].
      assert (Z : bltb z b = false).
      { destruct (bltb z b) eqn:E; [|reflexivity]. pose proof (F z (or_introl eq_refl)) as W.
        pose proof (bltb_trans _ _ _ W E) as V. congruence. }
      rewrite Z. apply IH. intros w Hw. apply F. simpl. auto. }
    rewrite X. reflexivity. }
  pose proof (P L' S') as Q. rewrite E in Q.
  assert (LP : length (firstn p L) = p).
  { apply firstn_length_le. apply Nat.lt_le_incl. apply nth_error_Some. congruence. }
  rewrite LP in Q. symmetry. exact Q.
Qed.

(** the hypothesis of DESIGN's c19_concurrent_partial: between two calls, every key that was
    added or removed sorts at or after the key at the cursor *)
Fixpoint order_stable (pat : option bytes) (cnt : nat -> Z) (lists : list (list bytes)) (k : nat) (cursor : Z) : Prop :=
  match lists with
  | [] => True
  | L :: rest =>
      let next := fst (scan_core (fun x => x) L cursor (cnt k) pat) in
      match rest with
      | [] => True
      | L' :: _ =>
          (forall b, znth next L = Some b -> forall x, bltb x b = true -> (In x L <-> In x L')) /\
          order_stable pat cnt rest (S k) next
      end
  end.

Lemma order_stable_prefix pat cnt : forall lists k cursor,
  (forall i, 0 <= cnt i) -> 0 <= cursor -> Forall BSorted lists ->
  order_stable pat cnt lists k cursor -> prefix_stable (fun x => x) pat cnt lists k cursor.
Proof.
  induction lists as [|L rest IH]; intros k cursor Hcnt Hc FS OS; simpl; [exact I|].
  destruct rest as [|L' rest']; [exact I|].
  simpl in OS. destruct OS as [O1 O2].
  inversion FS as [|? ? SL FS']; subst. inversion FS' as [|? ? SL' _]; subst.
  pose proof (scan_core_progress (fun x => x) L cursor (cnt k) pat Hc (Hcnt k)) as Pg. simpl in Pg.
  set (next := fst (scan_core (fun x => x) L cursor (cnt k) pat)) in *.
  split.
  - destruct Pg as [Z0|[P1 P2]]; [rewrite Z0; reflexivity|].
    unfold zfirstn.
    assert (HN : exists b, nth_error L (Z.to_nat next) = Some b).
    { destruct (nth_error L (Z.to_nat next)) eqn:E; [eauto|]. apply nth_error_None in E. unfold len in P2. lia. }
    destruct HN as [b Hb].
    apply (sorted_prefix_stable L L' _ b SL SL' Hb).
    apply O1. unfold znth. destruct (Z.ltb_spec next 0); [lia | exact Hb].
  - apply IH; try assumption. destruct Pg; lia.
Qed.

Definition scan_order_stable (states : list (Z * db)) (pat tf : option bytes) (cnt : nat -> Z) : Prop :=
  order_stable pat cnt (map (fun st => live_keys (fst st) (snd st) tf) states) 0 0.

Lemma scan_dynamic_partial_order states pat tf cnt keys Lf k :
  (forall i, 0 <= cnt i) -> (forall st, In st states -> NoDup (map fst (d_data (snd st)))) ->
  scan_order_stable states pat tf cnt ->
  scan_dynamic states pat tf cnt = (keys, Some Lf) ->
  (forall st, In st states -> key_visible (fst st) (snd st) tf k) -> key_matches pat k = true ->
  In k keys.
Proof.
  intros Hcnt ND OS. apply scan_dynamic_partial; [exact Hcnt|].
  apply order_stable_prefix; try assumption; [lia|].
  apply Forall_forall. intros L HL. apply in_map_iff in HL. destruct HL as [st [<- Hst]].
  apply bsort_sorted, NoDup_map_filter, ND. exact Hst.
Qed.
