(** Facts about the SCAN family model (Model/Scan.v, engine.rs after e3de5de): a call returns
    exactly the elements of one interval of hash values that pass the filter; cursors strictly
    increase; a complete iteration over ANY sequence of collections returns every element that
    is present at every call; over an unchanged collection it returns each matching element once.
    Everything is proved for an arbitrary hash function [hf] (ties included); the engine
    functions instantiate it with fnv1a. *)
From Coq Require Import Sorting.Sorted Sorting.Permutation.
From Ferrous Require Import Base.Bytes Model.Resp Model.Types Model.Glob Model.Strings Model.Scan
  Proofs.BytesFacts.
Open Scope Z_scope.

Section Core.
Context {A : Type} (hf : A -> Z) (keyof : A -> bytes).
Hypothesis hf_nonneg : forall x, 0 <= hf x.

Definition HSorted (l : list A) : Prop := StronglySorted (fun x y => hf x <= hf y) l.

(** ---- sorting by hash ---- *)
Lemma hleb_true x y : hleb hf keyof x y = true -> hf x <= hf y.
Proof. unfold hleb. intros H. apply orb_true_iff in H. destruct H as [H|H]; [lia|]. apply andb_prop in H. lia. Qed.
Lemma hleb_false x y : hleb hf keyof x y = false -> hf y <= hf x.
Proof. unfold hleb. intros H. apply orb_false_iff in H. destruct H as [H _]. lia. Qed.

Lemma In_hinsert x y l : In x (hinsert hf keyof y l) <-> x = y \/ In x l.
Proof.
  induction l as [|z l IH]; simpl; [intuition congruence|].
  destruct (hleb hf keyof y z); simpl; [intuition congruence|]. rewrite IH. intuition congruence.
Qed.
Lemma In_hsort x l : In x (hsort hf keyof l) <-> In x l.
Proof.
  unfold hsort. induction l as [|y l IH]; simpl; [tauto|]. rewrite In_hinsert, IH. intuition congruence.
Qed.
Lemma hinsert_perm y l : Permutation (hinsert hf keyof y l) (y :: l).
Proof.
  induction l as [|z l IH]; simpl; [reflexivity|].
  destruct (hleb hf keyof y z); [reflexivity|]. rewrite IH. apply perm_swap.
Qed.
Lemma hsort_perm l : Permutation (hsort hf keyof l) l.
Proof.
  unfold hsort. induction l as [|y l IH]; simpl; [reflexivity|]. rewrite hinsert_perm. constructor. exact IH.
Qed.
Lemma hinsert_sorted y l : HSorted l -> HSorted (hinsert hf keyof y l).
Proof.
  induction 1 as [|z r S IH F]; simpl; [constructor; constructor|].
  destruct (hleb hf keyof y z) eqn:E.
  - apply hleb_true in E. constructor; [constructor; assumption|]. constructor; [exact E|].
    rewrite Forall_forall in *. intros w Hw. specialize (F w Hw). lia.
  - apply hleb_false in E. constructor; [exact IH|].
    rewrite Forall_forall in *. intros w Hw. apply In_hinsert in Hw. destruct Hw as [->|Hw]; [exact E | apply F; exact Hw].
Qed.
Lemma hsort_sorted l : HSorted (hsort hf keyof l).
Proof. unfold hsort. induction l as [|y l IH]; simpl; [constructor | apply hinsert_sorted; exact IH]. Qed.

(** ---- the start position ---- *)
Lemma from_hash_split c l : HSorted l ->
  exists pre, l = pre ++ from_hash hf c l /\ (forall x, In x pre -> hf x < c) /\
              (forall x, In x (from_hash hf c l) -> c <= hf x).
Proof.
  induction 1 as [|y r S IH F]; simpl.
  - exists []. repeat split; simpl; tauto.
  - destruct (Z.ltb_spec (hf y) c) as [L|L].
    + destruct IH as [pre [E [P Q]]]. exists (y :: pre). split; [simpl; f_equal; exact E|]. split; [|exact Q].
      intros x [->|Hx]; [exact L | apply P; exact Hx].
    + exists []. split; [reflexivity|]. split; [simpl; tauto|].
      rewrite Forall_forall in F. intros x [->|Hx]; [exact L | specialize (F x Hx); lia].
Qed.
Lemma In_from_hash c l x : HSorted l -> (In x (from_hash hf c l) <-> In x l /\ c <= hf x).
Proof.
  intros S. destruct (from_hash_split c l S) as [pre [E [P Q]]]. split.
  - intros H. split; [rewrite E; apply in_or_app; auto | apply Q; exact H].
  - intros [H L]. rewrite E in H. apply in_app_or in H. destruct H as [H|H]; [specialize (P x H); lia | exact H].
Qed.
Lemma from_hash_sorted c l : HSorted l -> HSorted (from_hash hf c l).
Proof.
  induction 1 as [|y r S IH F]; simpl; [constructor|].
  destruct (hf y <? c); [exact IH | constructor; assumption].
Qed.
Lemma from_hash_length c l : (length (from_hash hf c l) <= length l)%nat.
Proof. induction l as [|y r IH]; simpl; [lia|]. destruct (hf y <? c); simpl; lia. Qed.

(** ---- the page loop ---- *)
Definition has_room (e m limE limM : Z) : bool := (e <? limE) && (m <? limM).
Definition last_hash (taken : list A) (prev : option Z) : option Z :=
  match rev taken with x :: _ => Some (hf x) | [] => prev end.

Lemma last_hash_cons x taken prev : last_hash (x :: taken) prev = last_hash taken (Some (hf x)).
Proof.
  unfold last_hash. simpl. destruct (rev taken) as [|z l] eqn:E; simpl; reflexivity.
Qed.

Lemma page_walk_spec (inc : A -> bool) : forall rest prev e m limE limM res left,
  page_walk hf inc rest prev e m limE limM = (res, left) ->
  exists taken, rest = taken ++ left /\ res = filter inc taken /\
    (forall y l', left = y :: l' -> last_hash taken prev <> Some (hf y) /\
                                    (taken = [] -> has_room e m limE limM = false)).
Proof.
  induction rest as [|x r IH]; intros prev e m limE limM res left H; simpl in H.
  - inversion H; subst. exists []. repeat split; try reflexivity. discriminate. discriminate.
  - fold (has_room e m limE limM) in H.
    destruct (has_room e m limE limM || match prev with Some h => hf x =? h | None => false end) eqn:C.
    + destruct (page_walk hf inc r (Some (hf x)) (e + 1) (if inc x then m + 1 else m) limE limM) as [res1 left1] eqn:E.
      inversion H; subst. destruct (IH _ _ _ _ _ _ _ E) as [taken [E1 [E2 E3]]].
      exists (x :: taken). split; [simpl; f_equal; exact E1|]. split.
      * simpl. destruct (inc x); rewrite E2; reflexivity.
      * intros y l' Hl. destruct (E3 y l' Hl) as [N _]. rewrite last_hash_cons. split; [exact N | discriminate].
    + inversion H; subst. exists []. split; [reflexivity|]. split; [reflexivity|].
      intros y l' Hl. inversion Hl; subst. apply orb_false_iff in C. destruct C as [C1 C2].
      split; [|intros _; exact C1]. unfold last_hash. simpl.
      destruct prev as [h|]; [|discriminate]. intros X. inversion X. apply Z.eqb_neq in C2. lia.
Qed.

Lemma last_hash_in taken prev h : taken <> [] -> last_hash taken prev = Some h -> exists x, In x taken /\ hf x = h.
Proof.
  intros N. unfold last_hash. destruct (rev taken) as [|z l] eqn:E.
  - exfalso. apply N. apply (f_equal (@rev A)) in E. rewrite rev_involutive in E. exact E.
  - intros H. inversion H. exists z. split; [|reflexivity]. apply in_rev. rewrite E. simpl; auto.
Qed.
Lemma last_hash_some taken prev : taken <> [] -> exists h, last_hash taken prev = Some h.
Proof.
  intros N. unfold last_hash. destruct (rev taken) as [|z l] eqn:E; [|eauto].
  exfalso. apply N. apply (f_equal (@rev A)) in E. rewrite rev_involutive in E. exact E.
Qed.

Lemma sorted_app_le l1 l2 : HSorted (l1 ++ l2) -> forall x y, In x l1 -> In y l2 -> hf x <= hf y.
Proof.
  induction l1 as [|z l1 IH]; intros S x y Hx Hy; [contradiction|].
  simpl in S. inversion S as [|? ? S' F]; subst. destruct Hx as [->|Hx].
  - rewrite Forall_forall in F. apply F. apply in_or_app. auto.
  - eapply IH; eassumption.
Qed.
Lemma sorted_app_r l1 l2 : HSorted (l1 ++ l2) -> HSorted l2.
Proof. induction l1 as [|z l1 IH]; intros S; [exact S|]. simpl in S. inversion S; subst. auto. Qed.

(** ---- one call ---- *)
Lemma scan_limit_pos count : 0 <= count -> 1 <= scan_limit count.
Proof. intros H. unfold scan_limit. destruct (Z.eqb_spec count 0); lia. Qed.

(** what a call returns: with (next, res), every element of the collection that passes the filter
    and whose hash lies in [cursor, next) - [cursor, infinity) when next = 0 - and nothing else;
    next is 0 or the hash of an element, strictly above the cursor; and the list of elements not
    yet covered is exactly the start of the next call on the same collection *)
Lemma scan_core_spec items cursor count pat next res :
  0 <= count -> scan_core hf keyof items cursor count pat = (next, res) ->
  let sorted := hsort hf keyof items in
  exists taken left,
    from_hash hf cursor sorted = taken ++ left /\ res = filter (scan_inc keyof pat) taken /\
    (left = [] -> next = 0) /\
    (forall y l', left = y :: l' -> next = hf y /\ taken <> [] /\ (forall x, In x taken -> hf x < hf y)) /\
    from_hash hf next sorted = (if next =? 0 then sorted else left).
Proof.
  intros Hc H sorted. unfold scan_core in H. fold sorted in H.
  pose proof (hsort_sorted items) as SS. fold sorted in SS.
  destruct (from_hash_split cursor sorted SS) as [pre [Epre [Ppre Qrest]]].
  pose proof (from_hash_sorted cursor sorted SS) as SR.
  assert (F0 : from_hash hf 0 sorted = sorted).
  { generalize sorted. clear -hf_nonneg. intros l. induction l as [|y r IH]; simpl; [reflexivity|]. pose proof (hf_nonneg y). destruct (Z.ltb_spec (hf y) 0); [lia | reflexivity]. }
  destruct (from_hash hf cursor sorted) as [|x0 rest0] eqn:ER.
  - inversion H; subst. exists [], []. repeat split; try reflexivity; try discriminate. simpl. exact F0.
  - destruct (page_walk hf (scan_inc keyof pat) (x0 :: rest0) None 0 0 (scan_limit count * 10) (scan_limit count)) as [res1 left] eqn:EP.
    inversion H; subst. clear H.
    destruct (page_walk_spec _ _ _ _ _ _ _ _ _ EP) as [taken [E1 [E2 E3]]].
    exists taken, left. split; [exact E1|]. split; [exact E2|].
    pose proof (scan_limit_pos count Hc) as LP.
    assert (Room : has_room 0 0 (scan_limit count * 10) (scan_limit count) = true).
    { unfold has_room. apply andb_true_intro. split; apply Z.ltb_lt; lia. }
    split; [intros ->; reflexivity|].
    assert (Bnd : forall y l', left = y :: l' -> taken <> [] /\ (forall x, In x taken -> hf x < hf y)).
    { intros y l' Hl. destruct (E3 y l' Hl) as [N T].
      assert (TN : taken <> []) by (intros ->; rewrite (T eq_refl) in Room; discriminate).
      split; [exact TN|]. rewrite E1 in SR.
      destruct (last_hash_some taken None TN) as [h Hh]. destruct (last_hash_in taken None h TN Hh) as [z [Hz Ez]].
      assert (Lz : hf z <= hf y) by (eapply sorted_app_le; [exact SR | exact Hz | rewrite Hl; simpl; auto]).
      assert (Nz : hf z <> hf y) by (intros X; apply N; rewrite Hh, <- Ez, X; reflexivity).
      (* every taken element is below or at the last one: use sortedness of taken itself *)
      intros x Hx.
      assert (Lx : hf x <= hf z).
      { clear -SR Hx Hh Ez TN hf_nonneg. unfold last_hash in Hh.
        destruct (rev taken) as [|w l] eqn:E; [discriminate|]. inversion Hh as [Hw].
        assert (taken = rev l ++ [w]) by (rewrite <- (rev_involutive taken), E; reflexivity).
        rewrite H in SR, Hx. rewrite <- app_assoc in SR.
        apply in_app_or in Hx. destruct Hx as [Hx|[->|[]]]; [|lia].
        assert (hf x <= hf w) by (eapply sorted_app_le; [exact SR | exact Hx | simpl; auto]). lia. }
      lia. }
    split.
    { intros y l' Hl. destruct (Bnd y l' Hl) as [B1 B2]. rewrite Hl. auto. }
    destruct left as [|y l'].
    + simpl. exact F0.
    + destruct (Bnd y l' eq_refl) as [B1 B2].
      assert (Py : 0 < hf y).
      { destruct taken as [|t0 tk]; [contradiction|]. pose proof (B2 t0 (or_introl eq_refl)). pose proof (hf_nonneg t0). lia. }
      replace (hf y =? 0) with false by (symmetry; apply Z.eqb_neq; lia).
      (* sorted = pre ++ taken ++ y :: l', everything before y is below hf y *)
      rewrite E1 in Qrest. rewrite Epre, E1.
      destruct taken as [|t0 tk]; [contradiction|].
      pose proof (Qrest t0 (or_introl eq_refl)) as Q0. pose proof (B2 t0 (or_introl eq_refl)) as B0.
      assert (G : forall l, (forall x, In x l -> hf x < hf y) -> from_hash hf (hf y) (l ++ y :: l') = y :: l').
      { clear. induction l as [|z l IH]; intros Hl; simpl.
        - destruct (Z.ltb_spec (hf y) (hf y)); [lia | reflexivity].
        - pose proof (Hl z (or_introl eq_refl)). destruct (Z.ltb_spec (hf z) (hf y)); [|lia]. apply IH. intros x Hx. apply Hl. simpl; auto. }
      rewrite app_assoc. apply G. intros x Hx. apply in_app_or in Hx. destruct Hx as [Hx|Hx]; [|apply B2; exact Hx].
      specialize (Ppre x Hx). lia.
Qed.

(** the same, as the property of the result *)
Lemma scan_core_page items cursor count pat next res :
  0 <= count -> scan_core hf keyof items cursor count pat = (next, res) ->
  (forall x, In x res <-> In x items /\ scan_inc keyof pat x = true /\ cursor <= hf x /\ (next = 0 \/ hf x < next)) /\
  (next = 0 \/ (cursor < next /\ exists y, In y items /\ hf y = next)).
Proof.
  intros Hc H. destruct (scan_core_spec items cursor count pat next res Hc H) as [taken [left [E1 [E2 [E3 [E4 _]]]]]].
  pose proof (hsort_sorted items) as SS.
  pose proof (from_hash_sorted cursor _ SS) as SR. rewrite E1 in SR.
  assert (InR : forall x, In x (taken ++ left) <-> In x items /\ cursor <= hf x).
  { intros x. rewrite <- E1, (In_from_hash cursor _ x SS), In_hsort. tauto. }
  split.
  - intros x. rewrite E2, filter_In. split.
    + intros [Hx Hi]. assert (X : In x (taken ++ left)) by (apply in_or_app; auto). apply InR in X.
      destruct X as [X1 X2]. repeat split; try assumption.
      destruct left as [|y l']; [left; apply E3; reflexivity|]. destruct (E4 y l' eq_refl) as [-> [_ B]]. right. apply B. exact Hx.
    + intros [X1 [Hi [X2 X3]]]. split; [|exact Hi].
      assert (X : In x (taken ++ left)) by (apply InR; auto). apply in_app_or in X. destruct X as [X|X]; [exact X|].
      exfalso. destruct left as [|y l']; [contradiction|]. destruct (E4 y l' eq_refl) as [-> [TN B]].
      assert (hf y <= hf x) by (destruct X as [->|X]; [lia|]; apply sorted_app_r in SR; inversion SR as [|? ? _ F]; subst; rewrite Forall_forall in F; apply F; exact X).
      destruct X3 as [Z0|X3]; [|lia].
      destruct taken as [|t0 tk]; [contradiction|]. pose proof (B t0 (or_introl eq_refl)). pose proof (hf_nonneg t0). lia.
  - destruct left as [|y l']; [left; apply E3; reflexivity|]. right. destruct (E4 y l' eq_refl) as [-> [TN B]].
    destruct taken as [|t0 tk]; [contradiction|]. split.
    + assert (X : In t0 ((t0 :: tk) ++ y :: l')) by (simpl; auto). apply InR in X. pose proof (B t0 (or_introl eq_refl)). lia.
    + exists y. split; [|reflexivity]. assert (X : In y ((t0 :: tk) ++ y :: l')) by (apply in_or_app; simpl; auto). apply InR in X. tauto.
Qed.

(** soundness of one call *)
Lemma scan_core_sound items cursor count pat x :
  0 <= count -> In x (snd (scan_core hf keyof items cursor count pat)) ->
  In x items /\ scan_inc keyof pat x = true /\ cursor <= hf x.
Proof.
  intros Hc H. destruct (scan_core hf keyof items cursor count pat) as [next res] eqn:E.
  destruct (scan_core_page _ _ _ _ _ _ Hc E) as [P _]. apply P in H. tauto.
Qed.

(** ---- iterations: the i-th call on the i-th collection, COUNT [cnt i], cursors chained ---- *)
Fixpoint iterate (pat : option bytes) (cnt : nat -> Z) (lists : list (list A)) (k : nat) (cursor : Z)
  : list A * bool :=
  match lists with
  | [] => ([], false)
  | L :: rest =>
      match scan_core hf keyof L cursor (cnt k) pat with
      | (next, res) =>
          if next =? 0 then (res, true)
          else match iterate pat cnt rest (S k) next with (r, f) => (res ++ r, f) end
      end
  end.

(** completeness over ANY interleaving of additions and deletions: whatever the collections at
    the successive calls are, an element that is in every one of them and passes the filter is
    returned by a complete iteration *)
Lemma iterate_complete pat cnt x : (forall i, 0 <= cnt i) -> scan_inc keyof pat x = true ->
  forall lists k cursor u, cursor <= hf x ->
  iterate pat cnt lists k cursor = (u, true) -> (forall L, In L lists -> In x L) -> In x u.
Proof.
  intros Hcnt Hi. induction lists as [|L rest IH]; intros k cursor u Hc H Hall; simpl in H; [discriminate|].
  destruct (scan_core hf keyof L cursor (cnt k) pat) as [next res] eqn:E.
  destruct (scan_core_page _ _ _ _ _ _ (Hcnt k) E) as [P _].
  assert (HL : In x L) by (apply Hall; simpl; auto).
  destruct (Z.eqb_spec next 0) as [Z0|NZ].
  - inversion H; subst. apply P. auto.
  - destruct (iterate pat cnt rest (S k) next) as [r f] eqn:EI. inversion H; subst.
    apply in_or_app. destruct (Z.lt_ge_cases (hf x) next) as [Lt|Ge].
    + left. apply P. auto.
    + right. apply (IH (S k) next r); [lia | exact EI | intros L' HL'; apply Hall; simpl; auto].
Qed.

(** soundness of an iteration: whatever is returned was in the collection of some call and passes *)
Lemma iterate_sound pat cnt x : (forall i, 0 <= cnt i) ->
  forall lists k cursor u f, iterate pat cnt lists k cursor = (u, f) -> In x u ->
  scan_inc keyof pat x = true /\ exists L, In L lists /\ In x L.
Proof.
  intros Hcnt. induction lists as [|L rest IH]; intros k cursor u f H Hx; simpl in H; [inversion H; subst; contradiction|].
  destruct (scan_core hf keyof L cursor (cnt k) pat) as [next res] eqn:E.
  destruct (scan_core_page _ _ _ _ _ _ (Hcnt k) E) as [P _].
  destruct (next =? 0).
  - inversion H; subst. apply P in Hx. split; [tauto|]. exists L. simpl; tauto.
  - destruct (iterate pat cnt rest (S k) next) as [r f1] eqn:EI. inversion H; subst.
    apply in_app_or in Hx. destruct Hx as [Hx|Hx].
    + apply P in Hx. split; [tauto|]. exists L. simpl; tauto.
    + destruct (IH _ _ _ _ EI Hx) as [A1 [L' [A2 A3]]]. split; [exact A1|]. exists L'. simpl; auto.
Qed.

(** termination: on an unchanged collection the number of elements not yet covered strictly
    decreases with every call that does not end the iteration *)
Lemma scan_core_measure items cursor count pat next res :
  0 <= count -> scan_core hf keyof items cursor count pat = (next, res) -> next <> 0 ->
  (length (from_hash hf next (hsort hf keyof items)) < length (from_hash hf cursor (hsort hf keyof items)))%nat.
Proof.
  intros Hc H NZ. destruct (scan_core_spec items cursor count pat next res Hc H) as [taken [left [E1 [_ [E3 [E4 E5]]]]]].
  rewrite E5, E1. replace (next =? 0) with false by (symmetry; apply Z.eqb_neq; exact NZ).
  destruct left as [|y l']; [exfalso; apply NZ; apply E3; reflexivity|].
  destruct (E4 y l' eq_refl) as [_ [TN _]]. rewrite app_length. destruct taken; [contradiction | simpl; lia].
Qed.

(** static iteration: the same collection at every call.  From any cursor it ends within
    (number of elements not yet covered) + 1 calls and returns exactly the elements from that
    hash on that pass the filter, in hash order, each once *)
Lemma iterate_static pat cnt L : (forall i, 0 <= cnt i) ->
  forall n k cursor, (length (from_hash hf cursor (hsort hf keyof L)) < n)%nat ->
  iterate pat cnt (repeat L n) k cursor =
  (filter (scan_inc keyof pat) (from_hash hf cursor (hsort hf keyof L)), true).
Proof.
  intros Hcnt. induction n as [|n IH]; intros k cursor Hn; [lia|]. simpl.
  destruct (scan_core hf keyof L cursor (cnt k) pat) as [next res] eqn:E.
  destruct (scan_core_spec L cursor (cnt k) pat next res (Hcnt k) E) as [taken [left [E1 [E2 [E3 [E4 E5]]]]]].
  destruct (Z.eqb_spec next 0) as [Z0|NZ].
  - destruct left as [|y l'].
    + rewrite E1, app_nil_r, E2. reflexivity.
    + destruct (E4 y l' eq_refl) as [Ey [TN B]]. exfalso.
      destruct taken as [|t0 tk]; [contradiction|]. pose proof (B t0 (or_introl eq_refl)). pose proof (hf_nonneg t0). lia.
  - pose proof (scan_core_measure _ _ _ _ _ _ (Hcnt k) E NZ) as M.
    rewrite (IH (S k) next) by lia. rewrite E5.
    replace (next =? 0) with false by (symmetry; apply Z.eqb_neq; exact NZ).
    rewrite E1, filter_app, E2. reflexivity.
Qed.
End Core.

(** ---- the executed variant computes each hash once ---- *)
Section Cached.
Context {A : Type} (hf : A -> Z) (keyof : A -> bytes).
Let dec (x : A) : Z * A := (hf x, x).
Let hf' (p : Z * A) : Z := fst p.
Let keyof' (p : Z * A) : bytes := keyof (snd p).

Lemma hleb_dec x y : hleb hf' keyof' (dec x) (dec y) = hleb hf keyof x y.
Proof. reflexivity. Qed.
Lemma hinsert_dec x l : hinsert hf' keyof' (dec x) (map dec l) = map dec (hinsert hf keyof x l).
Proof.
  induction l as [|y l IH]; [reflexivity|].
  cbn [map hinsert]. rewrite hleb_dec. destruct (hleb hf keyof x y); cbn [map]; [reflexivity|]. f_equal. exact IH.
Qed.
Lemma hsort_dec l : hsort hf' keyof' (map dec l) = map dec (hsort hf keyof l).
Proof.
  unfold hsort. induction l as [|y l IH]; simpl; [reflexivity|]. rewrite IH. apply hinsert_dec.
Qed.
Lemma from_hash_dec c l : from_hash hf' c (map dec l) = map dec (from_hash hf c l).
Proof.
  induction l as [|y l IH]; [reflexivity|]. cbn [map from_hash].
  change (hf' (dec y)) with (hf y). destruct (hf y <? c); [exact IH | reflexivity].
Qed.
Lemma page_walk_dec pat : forall l prev e m limE limM,
  page_walk hf' (scan_inc keyof' pat) (map dec l) prev e m limE limM =
  match page_walk hf (scan_inc keyof pat) l prev e m limE limM with (res, rm) => (map dec res, map dec rm) end.
Proof.
  induction l as [|x l IH]; intros prev e m limE limM; [reflexivity|]. cbn [map page_walk].
  change (hf' (dec x)) with (hf x). change (scan_inc keyof' pat (dec x)) with (scan_inc keyof pat x).
  destruct ((e <? limE) && (m <? limM) || match prev with Some h => hf x =? h | None => false end); [|reflexivity].
  rewrite IH. destruct (page_walk hf (scan_inc keyof pat) l (Some (hf x)) (e + 1) (if scan_inc keyof pat x then m + 1 else m) limE limM) as [res rm].
  destruct (scan_inc keyof pat x); reflexivity.
Qed.
Lemma scan_core_cached_eq items cursor count pat :
  scan_core_cached hf keyof items cursor count pat = scan_core hf keyof items cursor count pat.
Proof.
  unfold scan_core_cached, scan_core.
  pose proof (hsort_dec items) as E1. pose proof (from_hash_dec cursor (hsort hf keyof items)) as E2.
  unfold hf', keyof', dec in E1, E2. rewrite E1, E2.
  destruct (from_hash hf cursor (hsort hf keyof items)) as [|x0 rest0]; [reflexivity|].
  pose proof (page_walk_dec pat (x0 :: rest0) None 0 0 (scan_limit count * 10) (scan_limit count)) as E3.
  unfold hf', keyof', dec in E3. cbn [map] in *. rewrite E3.
  destruct (page_walk hf (scan_inc keyof pat) (x0 :: rest0) None 0 0 (scan_limit count * 10) (scan_limit count)) as [res rm].
  rewrite map_map. cbn [snd]. rewrite map_id. destruct rm; reflexivity.
Qed.
End Cached.

(** ---- fnv1a is a 64-bit value ---- *)
Lemma fnv1a_range k : 0 <= fnv1a k < two64.
Proof.
  unfold fnv1a. assert (G : forall l h, 0 <= h < two64 -> 0 <= fold_left (fun h b => (Z.lxor h b * fnv_prime) mod two64) l h < two64).
  { induction l as [|b l IH]; intros h Hh; simpl; [exact Hh|]. apply IH. apply Z.mod_pos_bound. unfold two64. lia. }
  apply G. unfold fnv_offset, two64. lia.
Qed.
Lemma key_hash_nonneg k : 0 <= key_hash k.
Proof. apply fnv1a_range. Qed.
Lemma pair_hash_nonneg {B} (kv : bytes * B) : 0 <= pair_hash kv.
Proof. apply fnv1a_range. Qed.

(** ---- SCAN on a database ---- *)
Definition key_visible (now : Z) (d : db) (tf : option bytes) (k : bytes) : Prop :=
  exists e, In (k, e) (d_data d) /\ scan_visible now tf (k, e) = true.
Definition key_matches (pat : option bytes) (k : bytes) : bool := scan_inc (fun k => k) pat k.

Lemma live_keys_In now d tf k : In k (live_keys now d tf) <-> key_visible now d tf k.
Proof.
  unfold live_keys, key_visible. rewrite in_map_iff. split.
  - intros [[k' e] [E H]]. simpl in E. subst k'. apply filter_In in H. exists e. exact H.
  - intros [e H]. exists (k, e). split; [reflexivity | apply filter_In; exact H].
Qed.
Lemma NoDup_map_filter {A B} (f : A -> B) (p : A -> bool) l : NoDup (map f l) -> NoDup (map f (filter p l)).
Proof.
  induction l as [|x l IH]; simpl; intros H; [constructor|].
  inversion H; subst. destruct (p x); simpl; [|apply IH; assumption].
  constructor; [|apply IH; assumption].
  intros X. apply H2. apply in_map_iff in X. destruct X as [y [E Y]]. apply filter_In in Y.
  apply in_map_iff. exists y. tauto.
Qed.
Lemma live_keys_NoDup now d tf : NoDup (map fst (d_data d)) -> NoDup (live_keys now d tf).
Proof. intros H. apply NoDup_map_filter. exact H. Qed.

Lemma eng_scan_eq now d cursor pat tf count :
  eng_scan now d cursor pat tf count = scan_core key_hash (fun k => k) (live_keys now d tf) cursor count pat.
Proof. apply scan_core_cached_eq. Qed.

(** one SCAN call: exactly the visible keys of one hash interval that match; next cursor 0 or above *)
Lemma eng_scan_page now d cursor pat tf count next keys :
  0 <= count -> eng_scan now d cursor pat tf count = (next, keys) ->
  (forall k, In k keys <-> key_visible now d tf k /\ key_matches pat k = true /\
                          cursor <= key_hash k /\ (next = 0 \/ key_hash k < next)) /\
  (next = 0 \/ (cursor < next /\ exists k, key_visible now d tf k /\ key_hash k = next)).
Proof.
  intros Hc H. rewrite eng_scan_eq in H.
  destruct (scan_core_page key_hash (fun k => k) key_hash_nonneg _ _ _ _ _ _ Hc H) as [P Q]. split.
  - intros k. rewrite P, live_keys_In. reflexivity.
  - destruct Q as [Q|[Q1 [y [Q2 Q3]]]]; [auto|]. right. split; [exact Q1|]. exists y. rewrite <- live_keys_In. auto.
Qed.

(** a SCAN iteration across arbitrary database states: [states] = (time, database) at each call *)
Definition scan_iter (states : list (Z * db)) (pat tf : option bytes) (cnt : nat -> Z) : list bytes * bool :=
  iterate key_hash (fun k => k) pat cnt (map (fun st => live_keys (fst st) (snd st) tf) states) 0 0.

Lemma scan_iter_complete states pat tf cnt keys k :
  (forall i, 0 <= cnt i) -> scan_iter states pat tf cnt = (keys, true) ->
  (forall st, In st states -> key_visible (fst st) (snd st) tf k) -> key_matches pat k = true ->
  In k keys.
Proof.
  intros Hcnt H Hv Hm. unfold scan_iter in H.
  eapply (iterate_complete key_hash (fun k => k) key_hash_nonneg pat cnt k Hcnt Hm); [apply key_hash_nonneg | exact H|].
  intros L HL. apply in_map_iff in HL. destruct HL as [st [<- Hst]]. apply live_keys_In. apply Hv. exact Hst.
Qed.
Lemma scan_iter_sound states pat tf cnt keys f k :
  (forall i, 0 <= cnt i) -> scan_iter states pat tf cnt = (keys, f) -> In k keys ->
  key_matches pat k = true /\ exists st, In st states /\ key_visible (fst st) (snd st) tf k.
Proof.
  intros Hcnt H Hk. unfold scan_iter in H.
  destruct (iterate_sound key_hash (fun k => k) key_hash_nonneg pat cnt k Hcnt _ _ _ _ _ H Hk) as [A1 [L [A2 A3]]].
  split; [exact A1|]. apply in_map_iff in A2. destruct A2 as [st [<- Hst]]. exists st. split; [exact Hst | apply live_keys_In; exact A3].
Qed.

(** an unchanged database: every matching visible key exactly once, within |keys| + 1 calls *)
Lemma scan_static now d pat tf cnt :
  (forall i, 0 <= cnt i) -> NoDup (map fst (d_data d)) ->
  let L := live_keys now d tf in
  exists keys, iterate key_hash (fun k => k) pat cnt (repeat L (S (length L))) 0 0 = (keys, true) /\
    NoDup keys /\ forall k, In k keys <-> key_visible now d tf k /\ key_matches pat k = true.
Proof.
  intros Hcnt ND L.
  assert (F0 : from_hash key_hash 0 (hsort key_hash (fun k => k) L) = hsort key_hash (fun k => k) L).
  { generalize (hsort key_hash (fun k => k) L). induction l as [|y r IH]; simpl; [reflexivity|].
    pose proof (key_hash_nonneg y). destruct (Z.ltb_spec (key_hash y) 0); [lia | reflexivity]. }
  eexists. split.
  - apply (iterate_static key_hash (fun k => k) key_hash_nonneg pat cnt L Hcnt).
    rewrite F0. rewrite (Permutation_length (hsort_perm key_hash (fun k => k) L)). lia.
  - rewrite F0. split.
    + apply NoDup_filter. eapply Permutation_NoDup; [symmetry; apply hsort_perm|]. apply live_keys_NoDup. exact ND.
    + intros k. rewrite filter_In, In_hsort. unfold L. rewrite live_keys_In. reflexivity.
Qed.

(** ---- SSCAN / HSCAN / ZSCAN on a live collection: fast path or the same page logic ---- *)
Lemma eng_sscan_live now d key s cursor pat count :
  get_entry d key = Some {| e_val := VSet s; e_exp := None |} ->
  eng_sscan now d key cursor pat count =
  (Some (if (len s <=? scan_limit count) && (cursor =? 0) && no_pat pat
         then (0, bsort s) else scan_core key_hash (fun m => m) s cursor count pat), d).
Proof.
  intros H. unfold eng_sscan, eng_get. rewrite H. unfold expired. simpl.
  destruct ((len s <=? scan_limit count) && (cursor =? 0) && no_pat pat); [reflexivity|].
  rewrite scan_core_cached_eq. reflexivity.
Qed.
Lemma eng_hscan_live now d key h cursor pat count nov :
  get_entry d key = Some {| e_val := VHash h; e_exp := None |} ->
  eng_hscan now d key cursor pat count nov =
  (Some (if (len h <=? scan_limit count) && (cursor =? 0) && no_pat pat
         then (0, flat_pairs nov (psort h))
         else (fst (scan_core pair_hash fst h cursor count pat), flat_pairs nov (snd (scan_core pair_hash fst h cursor count pat)))), d).
Proof.
  intros H. unfold eng_hscan, eng_get. rewrite H. unfold expired. simpl.
  destruct ((len h <=? scan_limit count) && (cursor =? 0) && no_pat pat); [reflexivity|].
  rewrite scan_core_cached_eq. destruct (scan_core pair_hash fst h cursor count pat). reflexivity.
Qed.
Lemma eng_zscan_live now d key z cursor pat count :
  get_entry d key = Some {| e_val := VZSet z; e_exp := None |} ->
  eng_zscan now d key cursor pat count =
  (Some (if (len z <=? scan_limit count) && (cursor =? 0) && no_pat pat
         then (0, psort z) else scan_core pair_hash fst z cursor count pat), d).
Proof.
  intros H. unfold eng_zscan, eng_get. rewrite H. unfold expired. simpl.
  destruct ((len z <=? scan_limit count) && (cursor =? 0) && no_pat pat); [reflexivity|].
  rewrite scan_core_cached_eq. reflexivity.
Qed.
