(** Proofs about Model/Server.v: authentication gate (C17), database isolation
    (C18), transactions (C07), WATCH tracker (C08). *)
From Ferrous Require Import Base.Bytes Generated Model.Resp Model.Types Model.Glob Model.Strings
  Model.Lists Model.ZSets Model.Streams Model.Server Proofs.BytesFacts Proofs.StringsFacts.
From Coq Require Import ZifyBool.
Open Scope Z_scope.

(** ---- small maps ---- *)
Lemma zlookup_zremove_same {A} k (l : list (Z * A)) : zlookup k (zremove k l) = None.
Proof.
  induction l as [|[k' v] l IH]; cbn [zremove zlookup]; [reflexivity|].
  destruct (k =? k') eqn:E; [exact IH|]. cbn [zlookup]. rewrite E. exact IH.
Qed.
Lemma zlookup_zremove_other {A} k k' (l : list (Z * A)) : k' <> k -> zlookup k' (zremove k l) = zlookup k' l.
Proof.
  intros Hn. induction l as [|[k2 v] l IH]; cbn [zremove zlookup]; [reflexivity|].
  destruct (k =? k2) eqn:E.
  - apply Z.eqb_eq in E. subst k2. replace (k' =? k) with false by lia. exact IH.
  - cbn [zlookup]. rewrite IH. reflexivity.
Qed.
Lemma zlookup_zset_same {A} k (v : A) l : zlookup k (zset_ k v l) = Some v.
Proof. unfold zset_. cbn [zlookup]. rewrite Z.eqb_refl. reflexivity. Qed.
Lemma zlookup_zset_other {A} k k' (v : A) l : k' <> k -> zlookup k' (zset_ k v l) = zlookup k' l.
Proof.
  intros Hn. unfold zset_. cbn [zlookup]. replace (k' =? k) with false by lia.
  apply zlookup_zremove_other; exact Hn.
Qed.
Lemma nth_list_set_other {A} (l : list A) : forall i j x dflt, i <> j -> nth j (list_set l i x) dflt = nth j l dflt.
Proof.
  induction l as [|y l IH]; intros i j x dflt Hn; [destruct i; reflexivity|].
  destruct i, j; cbn [list_set nth]; try reflexivity; [congruence|]. apply IH. congruence.
Qed.
Lemma nth_list_set_same {A} (l : list A) : forall i x dflt, (i < length l)%nat -> nth i (list_set l i x) dflt = x.
Proof.
  induction l as [|y l IH]; intros i x dflt Hl; [cbn in Hl; lia|].
  destruct i; cbn [list_set nth]; [reflexivity|]. apply IH. cbn in Hl. lia.
Qed.

Lemma get_db_set_db_other s i j d : 0 <= i -> 0 <= j -> i <> j -> get_db (set_db s i d) j = get_db s j.
Proof. intros Hi Hj Hn. unfold get_db, set_db. cbn [s_dbs]. apply nth_list_set_other. lia. Qed.
Lemma get_db_set_trk s i j t : get_db (set_trk s i t) j = get_db s j.
Proof. reflexivity. Qed.
Lemma get_db_set_conn s c cn j : get_db (set_conn s c cn) j = get_db s j.
Proof. reflexivity. Qed.
Lemma get_db_log_aof s p j : get_db (log_aof s p) j = get_db s j.
Proof. reflexivity. Qed.
Lemma get_db_log_after now s dbi d' name parts r j : get_db (log_after now s dbi d' name parts r) j = get_db s j.
Proof. reflexivity. Qed.

(** ================= C17: the authentication gate ================= *)
(** the command word process_frame looks at *)
Definition req_command (req : frame) : bytes :=
  match req with FArray (FBulk nm :: _) => upper (trim nm) | _ => [] end.
(** what an unauthenticated connection is answered: a function of the request alone *)
Definition gate_reply (req : frame) : frame :=
  match req with
  | FArray (FBulk nm :: rest) =>
      let command := upper (trim nm) in
      if beq command (bs "PING") then
        (match rest with a :: _ => a | [] => FSimple (bs "PONG") end)
      else if beq command (bs "QUIT") then r_ok
      else FError (bs "NOAUTH")
  | FArray (_ :: _) => r_err
  | _ => r_err
  end.

Lemma gate_closed now s c cn req oracle pw :
  s_password s = Some pw -> zlookup c (s_conns s) = Some cn -> c_auth cn = false ->
  beq (req_command req) (bs "AUTH") = false ->
  process_frame now s c req oracle = (gate_reply req, s).
Proof.
  intros Hpw Hc Ha Hn. unfold process_frame, gate_reply, req_command in *.
  destruct req as [| | | | |l| | | | | | |]; try reflexivity.
  destruct l as [|first rest]; [reflexivity|].
  destruct first; try reflexivity.
  rewrite Hc, Hpw, Ha. cbn [negb andb]. rewrite Hn.
  destruct (beq (upper (trim b)) (bs "PING")); [destruct rest; reflexivity|].
  destruct (beq (upper (trim b)) (bs "QUIT")); reflexivity.
Qed.

(** the refusals are errors, except the harmless PING / QUIT *)
Lemma gate_reply_error req :
  beq (req_command req) (bs "PING") = false -> beq (req_command req) (bs "QUIT") = false ->
  is_error (gate_reply req) = true.
Proof.
  unfold gate_reply, req_command. destruct req as [| | | | |l| | | | | | |]; try reflexivity.
  destruct l as [|first rest]; [reflexivity|]. destruct first; try reflexivity.
  intros H1 H2. rewrite H1, H2. reflexivity.
Qed.

(** AUTH: only the exact password authenticates, and only the issuing connection *)
Definition set_auth (cn : conn) : conn :=
  {| c_db := c_db cn; c_auth := true; c_intx := c_intx cn; c_queue := c_queue cn;
     c_watched := c_watched cn; c_closing := c_closing cn |}.
Lemma h_auth_spec s c parts pw cn :
  s_password s = Some pw -> zlookup c (s_conns s) = Some cn ->
  h_auth s c parts =
    match parts with
    | [_; FBulk p] => if beq p pw then (r_ok, set_conn s c (set_auth cn)) else (r_err, s)
    | _ => (r_err, s)
    end.
Proof.
  intros Hpw Hc. unfold h_auth. destruct parts as [|a [|b [|? ?]]]; try reflexivity.
  destruct b; try reflexivity. rewrite Hpw. destruct (beq b pw); [rewrite Hc|]; reflexivity.
Qed.
Lemma auth_exact s c x p pw cn :
  s_password s = Some pw -> zlookup c (s_conns s) = Some cn ->
  (fst (h_auth s c [x; FBulk p]) = r_ok <-> p = pw) /\
  (p <> pw -> h_auth s c [x; FBulk p] = (r_err, s)).
Proof.
  intros Hpw Hc. rewrite (h_auth_spec s c _ pw cn Hpw Hc). destruct (beq p pw) eqn:E.
  - apply beq_eq in E. subst. split; [split; auto|congruence].
  - split; [split; [intros H; discriminate|intros ->; rewrite beq_refl in E; discriminate]|reflexivity].
Qed.
Lemma auth_per_connection s c parts r s' :
  h_auth s c parts = (r, s') ->
  s_dbs s' = s_dbs s /\ s_trk s' = s_trk s /\ s_password s' = s_password s /\ s_aof s' = s_aof s /\
  forall c', c' <> c -> zlookup c' (s_conns s') = zlookup c' (s_conns s).
Proof.
  assert (Hsame : forall r0, (r0, s) = (r, s') ->
    s_dbs s' = s_dbs s /\ s_trk s' = s_trk s /\ s_password s' = s_password s /\ s_aof s' = s_aof s /\
    forall c', c' <> c -> zlookup c' (s_conns s') = zlookup c' (s_conns s)).
  { intros r0 H. inversion H; subst. repeat split; intros; reflexivity. }
  unfold h_auth. intros H.
  destruct parts as [|a [|b [|? ?]]]; try (eapply Hsame; exact H);
    try (destruct b; eapply Hsame; exact H).
  destruct b; try (eapply Hsame; exact H).
  destruct (s_password s) eqn:Ep; [|eapply Hsame; exact H].
  destruct (beq b b0); [|eapply Hsame; exact H].
  destruct (zlookup c (s_conns s)); [|eapply Hsame; exact H].
  inversion H; subst. cbn [set_conn s_dbs s_trk s_password s_aof s_conns].
  split; [reflexivity|]. split; [reflexivity|]. split; [first [reflexivity|assumption]|]. split; [reflexivity|].
  intros c' Hn. apply zlookup_zset_other; exact Hn.
Qed.

(** the generated tables say the same thing as the hand-written gate *)
Lemma gate_tables_ok :
  preauth_allowed = [bs "AUTH"; bs "PING"; bs "QUIT"] /\ gate_default_noauth = true /\
  names_before_gate_in_process_frame = [] /\
  forallb (fun x => match x with (_, acts, guarded) => implb acts guarded end) pregate = true.
Proof. vm_compute. repeat split; reflexivity. Qed.

(** ================= C18: database isolation ================= *)
Definition cmd_name (parts : list frame) : bytes :=
  match parts with FBulk nm :: _ => upper nm | _ => [] end.

Ltac same_dbs := intros; repeat split; intros; reflexivity.

(** ---- the lazy expiry step only touches the selected database and its tracker ---- *)
Lemma lazy_expire_rest now s dbi name parts :
  s_conns (lazy_expire now s dbi name parts) = s_conns s /\
  s_password (lazy_expire now s dbi name parts) = s_password s /\
  s_aof (lazy_expire now s dbi name parts) = s_aof s /\
  s_pubsub (lazy_expire now s dbi name parts) = s_pubsub s.
Proof.
  unfold lazy_expire. destruct lazy_expiry_before_dispatch; [|repeat split; reflexivity].
  destruct (expire_before now (get_db s dbi) name parts) as [d1 removed]. repeat split; reflexivity.
Qed.
Lemma lazy_expire_frame now s dbi name parts j :
  0 <= dbi -> 0 <= j -> j <> dbi -> get_db (lazy_expire now s dbi name parts) j = get_db s j.
Proof.
  intros Hd Hj Hn. unfold lazy_expire. destruct lazy_expiry_before_dispatch; [|reflexivity].
  destruct (expire_before now (get_db s dbi) name parts) as [d1 removed].
  rewrite get_db_set_trk. apply get_db_set_db_other; lia.
Qed.

(** a command run against database [dbi] leaves every other database untouched,
    FLUSHALL excepted *)
Lemma dispatch_command_frame now s c dbi parts oracle r s' :
  dispatch_command now s c dbi parts oracle = (r, s') ->
  beq (cmd_name parts) (bs "FLUSHALL") = false -> 0 <= dbi ->
  forall j, 0 <= j -> j <> dbi -> get_db s' j = get_db s j.
Proof.
  unfold dispatch_command, cmd_name. intros H Hf Hd j Hj Hn.
  destruct parts as [|first rest]; [inversion H; subst; reflexivity|].
  destruct first; try (inversion H; subst; reflexivity).
  set (s0 := if logs_before (upper b) (FBulk b :: rest) then log_aof_in s dbi (FBulk b :: rest) else s) in *.
  assert (H0 : get_db s0 j = get_db s j) by (unfold s0; destruct (logs_before (upper b) (FBulk b :: rest)); [unfold log_aof_in; destruct (same_db _ _)|]; reflexivity).
  rewrite <- H0. clear H0.
  destruct (beq (upper b) (bs "PING")); [inversion H; subst; reflexivity|].
  destruct (beq (upper b) (bs "ECHO")); [inversion H; subst; reflexivity|].
  destruct (beq (upper b) (bs "SELECT")).
  { destruct rest as [|a [|? ?]]; try (inversion H; subst; reflexivity);
      try (destruct a; inversion H; subst; reflexivity).
    destruct a; try (inversion H; subst; reflexivity).
    destruct (parse_usize b0); [|inversion H; subst; reflexivity].
    destruct (16 <=? z); [inversion H; subst; reflexivity|].
    destruct (zlookup c (s_conns s0)); inversion H; subst; reflexivity. }
  rewrite Hf in H.
  destruct (beq (upper b) (bs "RANDOMKEY")); [inversion H; subst; reflexivity|].
  destruct (beq (upper b) (bs "AUTH")).
  { destruct (auth_per_connection _ _ _ _ _ H) as (Hd' & _). unfold get_db. rewrite Hd'. reflexivity. }
  destruct (beq (upper b) (bs "QUIT")); [inversion H; subst; reflexivity|].
  destruct (beq (upper b) (bs "VERIF")); [inversion H; subst; reflexivity|].
  destruct (exec_db now (get_db s0 dbi) (upper b) (FBulk b :: rest) oracle) as [[r0 d']|];
    inversion H; subst; [|reflexivity].
  rewrite get_db_log_after, get_db_set_trk. apply get_db_set_db_other; lia.
Qed.
Lemma normal_command_frame now s c dbi parts oracle r s' :
  normal_command now s c dbi parts oracle = (r, s') ->
  beq (cmd_name parts) (bs "FLUSHALL") = false -> 0 <= dbi ->
  forall j, 0 <= j -> j <> dbi -> get_db s' j = get_db s j.
Proof.
  unfold normal_command. intros H Hf Hd j Hj Hn.
  destruct parts as [|first rest]; [inversion H; subst; reflexivity|].
  destruct first; try (inversion H; subst; reflexivity).
  rewrite (dispatch_command_frame _ _ _ _ _ _ _ _ H Hf Hd j Hj Hn). apply lazy_expire_frame; assumption.
Qed.

(** the queued commands of an EXEC are all run against the one database *)
Lemma exec_queue_frame now c dbi : forall q s acc reps s',
  exec_queue now s c dbi q acc = (reps, s') -> 0 <= dbi ->
  forallb (fun parts => negb (beq (cmd_name parts) (bs "FLUSHALL")) && negb (beq (queued_name parts) (bs "SELECT"))) q = true ->
  forall j, 0 <= j -> j <> dbi -> get_db s' j = get_db s j.
Proof.
  induction q as [|parts q IH]; intros s acc reps s' H Hd Hq j Hj Hn; cbn [exec_queue] in H.
  - inversion H; subst; reflexivity.
  - cbn [forallb] in Hq. apply andb_prop in Hq as [Hq1 Hq2]. apply andb_prop in Hq1 as [Hq1 Hsel].
    apply negb_true_iff in Hq1, Hsel. rewrite Hsel in H.
    destruct (normal_command now s 0 dbi parts None) as [rep s1] eqn:E.
    rewrite (IH _ _ _ _ H Hd Hq2 j Hj Hn). eapply normal_command_frame; eauto.
Qed.

(** SELECT: an index outside 0..15 (or not a number) is refused and nothing changes;
    a valid one changes the issuing connection's selection only *)
Lemma select_spec now s c dbi a oracle cn :
  zlookup c (s_conns s) = Some cn ->
  let s1 := lazy_expire now s dbi (bs "SELECT") [FBulk (bs "SELECT"); FBulk a] in
  let s0 := if logs_before (bs "SELECT") [FBulk (bs "SELECT"); FBulk a] then log_aof_in s1 dbi [FBulk (bs "SELECT"); FBulk a] else s1 in
  normal_command now s c dbi [FBulk (bs "SELECT"); FBulk a] oracle =
    match parse_usize a with
    | Some n => if 16 <=? n then (r_err, s0)
                else (r_ok, set_conn s0 c {| c_db := n; c_auth := c_auth cn; c_intx := c_intx cn;
                                             c_queue := c_queue cn; c_watched := c_watched cn;
                                             c_closing := c_closing cn |})
    | None => (r_err, s0)
    end.
Proof.
  intros Hc s1 s0. unfold normal_command, dispatch_command.
  change (upper (bs "SELECT")) with (bs "SELECT").
  change (beq (bs "SELECT") (bs "PING")) with false. change (beq (bs "SELECT") (bs "ECHO")) with false.
  change (beq (bs "SELECT") (bs "SELECT")) with true. cbv iota.
  fold s1. fold s0. destruct (parse_usize a); [|reflexivity]. destruct (16 <=? z); [reflexivity|].
  assert (Hc0 : zlookup c (s_conns s0) = Some cn).
  { unfold s0. destruct (logs_before (bs "SELECT") [FBulk (bs "SELECT"); FBulk a]);
      [unfold log_aof_in; destruct (same_db _ _)|]; cbn [log_aof s_conns];
      unfold s1; rewrite (proj1 (lazy_expire_rest _ _ _ _ _)); exact Hc. }
  rewrite Hc0. reflexivity.
Qed.
Lemma select_not_logged : mem_name (bs "SELECT") write_commands = false.
Proof. vm_compute. reflexivity. Qed.

(** ================= C07: transactions ================= *)
(** the connection id only matters to SELECT and AUTH: inside EXEC (id 0) every other
    command does what it does when sent directly *)
Lemma conn_id_irrelevant now s c dbi parts oracle :
  beq (cmd_name parts) (bs "SELECT") = false ->
  normal_command now s c dbi parts oracle = normal_command now s 0 dbi parts oracle.
Proof.
  unfold normal_command, dispatch_command, cmd_name. intros Hs.
  destruct parts as [|first rest]; [reflexivity|]. destruct first; try reflexivity.
  rewrite Hs. reflexivity.
Qed.

(** every queued command gets exactly one slot of the EXEC reply: an error fills its
    slot and the commands after it still run *)
Lemma exec_queue_length now c : forall q s dbi acc reps s',
  exec_queue now s c dbi q acc = (reps, s') -> length reps = (length acc + length q)%nat.
Proof.
  induction q as [|parts q IH]; intros s dbi acc reps s' H; cbn [exec_queue] in H.
  - inversion H; subst. rewrite rev_length. cbn. lia.
  - destruct (beq (queued_name parts) (bs "SELECT")).
    + destruct (normal_command now s c dbi parts None) as [rep s1].
      rewrite (IH _ _ _ _ _ H). cbn [length]. lia.
    + destruct (normal_command now s 0 dbi parts None) as [rep s1].
      rewrite (IH _ _ _ _ _ H). cbn [length]. lia.
Qed.
(** ... and the replies are those of running the commands back to back, each in the
    state its predecessors left *)
Lemma exec_queue_cons now c dbi parts q s acc :
  beq (queued_name parts) (bs "SELECT") = false ->
  exec_queue now s c dbi (parts :: q) acc =
  match normal_command now s 0 dbi parts None with
  | (rep, s1) => exec_queue now s1 c dbi q (rep :: acc)
  end.
Proof. intros H. cbn [exec_queue]. rewrite H. reflexivity. Qed.
(** a queued SELECT runs for the connection that sent EXEC, and what follows it runs in the
    database it selected (1ecc022) *)
Lemma exec_queue_select now c dbi parts q s acc :
  beq (queued_name parts) (bs "SELECT") = true ->
  exec_queue now s c dbi (parts :: q) acc =
  match normal_command now s c dbi parts None with
  | (rep, s1) => exec_queue now s1 c (match zlookup c (s_conns s1) with Some cn => c_db cn | None => dbi end) q (rep :: acc)
  end.
Proof. intros H. cbn [exec_queue]. rewrite H. reflexivity. Qed.
Lemma exec_queue_acc now c : forall q s dbi acc,
  exec_queue now s c dbi q acc =
  match exec_queue now s c dbi q [] with (reps, s') => (rev acc ++ reps, s') end.
Proof.
  induction q as [|parts q IH]; intros s dbi acc; cbn [exec_queue].
  - cbn [rev]. rewrite app_nil_r. reflexivity.
  - destruct (beq (queued_name parts) (bs "SELECT")).
    + destruct (normal_command now s c dbi parts None) as [rep s1].
      rewrite (IH s1 _ (rep :: acc)), (IH s1 _ [rep]). destruct (exec_queue now s1 c _ q []) as [reps s'].
      cbn [rev app]. rewrite <- app_assoc. reflexivity.
    + destruct (normal_command now s 0 dbi parts None) as [rep s1].
      rewrite (IH s1 _ (rep :: acc)), (IH s1 _ [rep]). destruct (exec_queue now s1 c dbi q []) as [reps s'].
      cbn [rev app]. rewrite <- app_assoc. reflexivity.
Qed.

Definition authed_or_open (s : server) (cn : conn) : bool :=
  match s_password s with Some _ => c_auth cn | None => true end.

(** inside MULTI a command that is not transaction control is only queued: QUEUED is
    answered and nothing but the connection's queue changes *)
Lemma queue_inert now s c cn nm rest oracle :
  zlookup c (s_conns s) = Some cn -> authed_or_open s cn = true -> c_intx cn = true ->
  let command := upper (trim nm) in
  mem_name command tx_not_queued = false ->
  process_frame now s c (FArray (FBulk nm :: rest)) oracle =
    (FSimple (bs "QUEUED"),
     set_conn s c (with_tx cn true (c_queue cn ++ [FBulk nm :: rest]) (c_watched cn))).
Proof.
  intros Hc Ha Hi command Hq. unfold process_frame. rewrite Hc.
  assert (Hg : (match s_password s with Some _ => true | None => false end) && negb (c_auth cn) = false).
  { unfold authed_or_open in Ha. destruct (s_password s); [rewrite Ha|]; reflexivity. }
  rewrite Hg. fold command. rewrite Hi. unfold mem_name in *. rewrite Hq. reflexivity.
Qed.

(** DISCARD (and EXEC, below) forget the queue and the watched keys; the data is untouched *)
Lemma discard_spec now s c cn oracle :
  zlookup c (s_conns s) = Some cn -> authed_or_open s cn = true -> c_intx cn = true ->
  process_frame now s c (FArray [FBulk (bs "DISCARD")]) oracle = (r_ok, set_conn s c (clear_tx cn)).
Proof.
  intros Hc Ha Hi. unfold process_frame. rewrite Hc.
  assert (Hg : (match s_password s with Some _ => true | None => false end) && negb (c_auth cn) = false).
  { unfold authed_or_open in Ha. destruct (s_password s); [rewrite Ha|]; reflexivity. }
  rewrite Hg. change (upper (trim (bs "DISCARD"))) with (bs "DISCARD").
  change (mem_name (bs "DISCARD") tx_not_queued) with true. rewrite andb_false_r.
  change (beq (bs "DISCARD") (bs "MULTI")) with false. change (beq (bs "DISCARD") (bs "EXEC")) with false.
  change (beq (bs "DISCARD") (bs "DISCARD")) with true. cbv iota. rewrite Hi. reflexivity.
Qed.

(** EXEC: nil and nothing executed when a watched key was modified; otherwise the queue
    runs as one step and the transaction state is cleared either way *)
Lemma exec_spec now s c cn :
  c_intx cn = true ->
  h_exec now s c cn =
    if watch_violated now s cn
    then (FNullArray, set_conn s c (clear_tx cn))
    else match exec_queue now (set_conn s c (clear_tx cn)) c (c_db cn) (c_queue cn) [] with
         | (reps, s2) => (FArray reps, s2) end.
Proof. intros Hi. unfold h_exec. rewrite Hi. reflexivity. Qed.

(** a frame of connection [c] never touches another connection's record *)
Lemma dispatch_command_conns now s c dbi parts oracle r s' :
  dispatch_command now s c dbi parts oracle = (r, s') ->
  forall c', c' <> c -> c' <> 0 -> zlookup c' (s_conns s') = zlookup c' (s_conns s).
Proof.
  unfold dispatch_command. intros H c' Hn H0.
  destruct parts as [|first rest]; [inversion H; subst; reflexivity|].
  destruct first; try (inversion H; subst; reflexivity).
  set (s0 := if logs_before (upper b) (FBulk b :: rest) then log_aof_in s dbi (FBulk b :: rest) else s) in *.
  assert (Hs0 : s_conns s0 = s_conns s) by (unfold s0; destruct (logs_before (upper b) (FBulk b :: rest)); [unfold log_aof_in; destruct (same_db _ _)|]; reflexivity).
  rewrite <- Hs0. clear Hs0.
  destruct (beq (upper b) (bs "PING")); [inversion H; subst; reflexivity|].
  destruct (beq (upper b) (bs "ECHO")); [inversion H; subst; reflexivity|].
  destruct (beq (upper b) (bs "SELECT")).
  { destruct rest as [|a [|? ?]]; try (inversion H; subst; reflexivity);
      try (destruct a; inversion H; subst; reflexivity).
    destruct a; try (inversion H; subst; reflexivity).
    destruct (parse_usize b0); [|inversion H; subst; reflexivity].
    destruct (16 <=? z); [inversion H; subst; reflexivity|].
    destruct (zlookup c (s_conns s0)); inversion H; subst; [|reflexivity].
    cbn [set_conn s_conns]. apply zlookup_zset_other; exact Hn. }
  destruct (beq (upper b) (bs "FLUSHALL")).
  { destruct (negb (len (FBulk b :: rest) =? 1)); inversion H; subst; reflexivity. }
  destruct (beq (upper b) (bs "RANDOMKEY")); [inversion H; subst; reflexivity|].
  destruct (beq (upper b) (bs "AUTH")).
  { destruct (auth_per_connection _ _ _ _ _ H) as (_ & _ & _ & _ & Hc'). apply Hc'. exact H0. }
  destruct (beq (upper b) (bs "QUIT")); [inversion H; subst; reflexivity|].
  destruct (beq (upper b) (bs "VERIF")); [inversion H; subst; reflexivity|].
  destruct (exec_db now (get_db s0 dbi) (upper b) (FBulk b :: rest) oracle) as [[r0 d']|];
    inversion H; subst; reflexivity.
Qed.
Lemma normal_command_conns now s c dbi parts oracle r s' :
  normal_command now s c dbi parts oracle = (r, s') ->
  forall c', c' <> c -> c' <> 0 -> zlookup c' (s_conns s') = zlookup c' (s_conns s).
Proof.
  unfold normal_command. intros H c' Hn H0.
  destruct parts as [|first rest]; [inversion H; subst; reflexivity|].
  destruct first; try (inversion H; subst; reflexivity).
  rewrite (dispatch_command_conns _ _ _ _ _ _ _ _ H c' Hn H0).
  rewrite (proj1 (lazy_expire_rest _ _ _ _ _)). reflexivity.
Qed.

(** ================= C08: the WATCH tracker ================= *)
Definition trk_inv (t : tracker) : Prop :=
  (forall k, 0 <= counter_of t k <= global_of t (shard_of k)) /\
  (forall sh, 0 <= active_of t sh < two64).

Lemma trk_inv_empty : trk_inv empty_tracker.
Proof. split; intros; unfold counter_of, global_of, active_of, two64; cbn; lia. Qed.

Lemma counter_mark_other t k k' : beq k k' = false -> counter_of (mark t k') k = counter_of t k.
Proof.
  intros Hn. unfold mark. destruct (active_of t (shard_of k') =? 0); [reflexivity|].
  unfold counter_of. cbn [t_counters]. rewrite alookup_aset_other by exact Hn. reflexivity.
Qed.
Lemma counter_mark_same t k : active_of t (shard_of k) <> 0 ->
  counter_of (mark t k) k = global_of t (shard_of k) + 1.
Proof.
  intros Ha. unfold mark. replace (active_of t (shard_of k) =? 0) with false by lia.
  unfold counter_of. cbn [t_counters]. rewrite alookup_aset_same. reflexivity.
Qed.
Lemma global_mark t k sh : global_of t sh <= global_of (mark t k) sh.
Proof.
  unfold mark. destruct (active_of t (shard_of k) =? 0); [lia|].
  remember (global_of t (shard_of k) + 1) as g eqn:Hg.
  unfold global_of at 2. cbn [t_global].
  destruct (Z.eq_dec sh (shard_of k)) as [E|E].
  - rewrite E, zlookup_zset_same. lia.
  - rewrite zlookup_zset_other by exact E. unfold global_of. lia.
Qed.
Lemma active_mark t k sh : active_of (mark t k) sh = active_of t sh.
Proof. unfold mark. destruct (active_of t (shard_of k) =? 0); reflexivity. Qed.

Lemma trk_inv_mark t k' : trk_inv t -> trk_inv (mark t k').
Proof.
  intros [Hc Ha]. split.
  - intros k. destruct (beq k k') eqn:E.
    + apply beq_eq in E. subst k'. destruct (Z.eq_dec (active_of t (shard_of k)) 0) as [H0|H0].
      * unfold mark. rewrite H0. cbn. apply Hc.
      * rewrite counter_mark_same by exact H0. specialize (Hc k).
        assert (Hg : global_of (mark t k) (shard_of k) = global_of t (shard_of k) + 1).
        { unfold mark. replace (active_of t (shard_of k) =? 0) with false by lia.
          remember (global_of t (shard_of k) + 1) as g. unfold global_of. cbn [t_global].
          rewrite zlookup_zset_same. reflexivity. }
        rewrite Hg. lia.
    + rewrite counter_mark_other by exact E. specialize (Hc k).
      pose proof (global_mark t k' (shard_of k)). lia.
  - intros sh. rewrite active_mark. apply Ha.
Qed.
Lemma counter_mark_mono t k k' : trk_inv t -> counter_of t k <= counter_of (mark t k') k.
Proof.
  intros [Hc Ha]. destruct (beq k k') eqn:E.
  - apply beq_eq in E. subst k'. destruct (Z.eq_dec (active_of t (shard_of k)) 0) as [H0|H0].
    + unfold mark. rewrite H0. cbn. lia.
    + rewrite counter_mark_same by exact H0. specialize (Hc k). lia.
  - rewrite counter_mark_other by exact E. lia.
Qed.

Lemma active_register t k sh :
  active_of (snd (register_watch t k)) sh =
  if Z.eq_dec sh (shard_of k) then (active_of t (shard_of k) + 1) mod two64 else active_of t sh.
Proof.
  unfold register_watch. cbn [snd]. remember ((active_of t (shard_of k) + 1) mod two64) as a.
  unfold active_of. cbn [t_active]. destruct (Z.eq_dec sh (shard_of k)) as [E|E].
  - rewrite E, zlookup_zset_same. reflexivity.
  - rewrite zlookup_zset_other by exact E. reflexivity.
Qed.
Lemma trk_inv_register t k b t' : trk_inv t -> register_watch t k = (b, t') -> trk_inv t'.
Proof.
  intros [Hc Ha] H. assert (Ht : t' = snd (register_watch t k)) by (rewrite H; reflexivity). subst t'.
  split.
  - intros k0. exact (Hc k0).
  - intros sh. rewrite active_register. destruct (Z.eq_dec sh (shard_of k)); [|apply Ha].
    apply Z.mod_pos_bound. unfold two64. lia.
Qed.

(** what may happen to the tracker between a WATCH and the EXEC (no UNWATCH by anybody) *)
Inductive top := TMark (k : bytes) | TReg (k : bytes).
Definition apply_top (t : tracker) (o : top) : tracker :=
  match o with TMark k => mark t k | TReg k => snd (register_watch t k) end.
Definition regs (ops : list top) : Z := len (filter (fun o => match o with TReg _ => true | _ => false end) ops).

Lemma apply_top_inv t o : trk_inv t -> trk_inv (apply_top t o).
Proof.
  intros H. destruct o; cbn [apply_top]; [apply trk_inv_mark; exact H|].
  destruct (register_watch t k) as [b t'] eqn:E. eapply trk_inv_register; eauto.
Qed.
Lemma apply_top_counter_mono t o k : trk_inv t -> counter_of t k <= counter_of (apply_top t o) k.
Proof.
  intros H. destruct o; cbn [apply_top]; [apply counter_mark_mono; exact H|].
  unfold register_watch. cbn [snd]. unfold counter_of. cbn [t_counters]. lia.
Qed.
Lemma apply_top_active t o sh : trk_inv t ->
  0 < active_of t sh -> active_of t sh + (match o with TReg _ => 1 | _ => 0 end) < two64 ->
  0 < active_of (apply_top t o) sh /\
  active_of (apply_top t o) sh <= active_of t sh + (match o with TReg _ => 1 | _ => 0 end).
Proof.
  intros [Hc Ha] Hp Hb. destruct o; cbn [apply_top].
  - rewrite active_mark. lia.
  - rewrite active_register. destruct (Z.eq_dec sh (shard_of k)) as [E|E].
    + rewrite <- E. rewrite Z.mod_small by (specialize (Ha sh); lia). lia.
    + lia.
Qed.

(** soundness of the counters: once a key is watched, any later mark of it (while
    nobody unwatches) lifts its counter above the recorded baseline, for good *)
Lemma fold_counter_mono : forall ops t k, trk_inv t ->
  counter_of t k <= counter_of (fold_left apply_top ops t) k.
Proof.
  induction ops as [|o ops IH]; intros t k H; cbn [fold_left]; [lia|].
  pose proof (apply_top_counter_mono t o k H). pose proof (IH _ k (apply_top_inv t o H)). lia.
Qed.

Lemma regs_cons o ops : regs (o :: ops) = (match o with TReg _ => 1 | _ => 0 end) + regs ops.
Proof. unfold regs. cbn [filter]. destruct o; [reflexivity|]. rewrite len_cons. reflexivity. Qed.
Lemma regs_nonneg ops : 0 <= regs ops.
Proof. unfold regs. apply len_nonneg. Qed.

Theorem watch_sound : forall ops t k,
  trk_inv t -> 0 < active_of t (shard_of k) ->
  active_of t (shard_of k) + regs ops < two64 ->
  In (TMark k) ops ->
  counter_of t k < counter_of (fold_left apply_top ops t) k.
Proof.
  induction ops as [|o ops IH]; intros t k Hinv Hact Hb Hin; [contradiction|].
  cbn [fold_left]. rewrite regs_cons in Hb. pose proof (regs_nonneg ops) as Hr.
  destruct (apply_top_active t o (shard_of k) Hinv Hact ltac:(destruct o; lia)) as [Hp Hle].
  destruct Hin as [->|Hin].
  - cbn [apply_top]. pose proof (fold_counter_mono ops (mark t k) k (trk_inv_mark t k Hinv)).
    rewrite counter_mark_same in H by lia. destruct Hinv as [Hc _]. specialize (Hc k). lia.
  - pose proof (apply_top_counter_mono t o k Hinv).
    specialize (IH (apply_top t o) k (apply_top_inv t o Hinv) Hp ltac:(destruct o; lia) Hin). lia.
Qed.

(** no false abort from the counters: if the key is never marked in the window its
    counter does not move (marks of other keys, of the same shard or not, and
    registrations leave it alone) *)
Theorem watch_complete : forall ops t k,
  (forall k', In (TMark k') ops -> beq k k' = false) ->
  counter_of (fold_left apply_top ops t) k = counter_of t k.
Proof.
  induction ops as [|o ops IH]; intros t k Hn; [reflexivity|].
  cbn [fold_left]. rewrite IH by (intros k' Hk; apply Hn; right; exact Hk).
  destruct o; cbn [apply_top].
  - apply counter_mark_other. apply Hn. left. reflexivity.
  - reflexivity.
Qed.

(** EXEC with a modified watched key: nil, nothing executed, only the issuing
    connection's transaction state changes *)
Lemma exec_aborts now s c cn dbw k b :
  c_intx cn = true -> In (wkey dbw k, b) (c_watched cn) -> was_modified_since now s dbw k b = true ->
  h_exec now s c cn = (FNullArray, set_conn s c (clear_tx cn)).
Proof.
  intros Hi Hin Hm. rewrite exec_spec by exact Hi. unfold watch_violated.
  replace (existsb _ (c_watched cn)) with true; [reflexivity|].
  symmetry. apply existsb_exists. exists (wkey dbw k, b). split; [exact Hin|exact Hm].
Qed.
(** ... and with no watched key modified it runs the queue *)
Lemma exec_runs now s c cn :
  c_intx cn = true ->
  (forall w b, In (w, b) (c_watched cn) -> was_modified_since now s (wkey_db w) (wkey_key w) b = false) ->
  h_exec now s c cn =
    match exec_queue now (set_conn s c (clear_tx cn)) c (c_db cn) (c_queue cn) [] with
    | (reps, s2) => (FArray reps, s2) end.
Proof.
  intros Hi Hn. rewrite exec_spec by exact Hi. unfold watch_violated.
  replace (existsb _ (c_watched cn)) with false; [reflexivity|].
  symmetry. apply not_true_is_false. intros Hc. apply existsb_exists in Hc as ([w b] & Hin & Hm).
  cbn [fst snd] in Hm. rewrite (Hn w b Hin) in Hm. discriminate.
Qed.

(** WATCH of a key the connection already watches (in the selected database) changes nothing:
    the first baseline stays, no second registration (3f1b680) *)
Lemma rewatch_keeps_baseline now dbi d t k w b :
  alookup (wkey dbi k) w = Some b ->
  watch_loop_partial now dbi d t [FBulk k] w = (d, t, w, true).
Proof. intros H. cbn [watch_loop_partial]. rewrite H. reflexivity. Qed.
(** WATCH of a key that is past its deadline removes it first (d9330f8): the key is absent when
    the watch begins, and the baseline is read after that removal was recorded *)
Lemma watch_expires_lazily now dbi d t k e :
  get_entry d k = Some e -> expired now e = true ->
  watch_loop_partial now dbi d t [FBulk k] [] =
    (index_del (del_entry d k) k, snd (register_watch (mark t k) k),
     [(wkey dbi k, fst (register_watch (mark t k) k))], true).
Proof.
  intros G E. cbn [watch_loop_partial alookup]. unfold purge_key. cbn [fst snd]. rewrite G, E.
  cbn [mark_all fold_left]. destruct (register_watch (mark t k) k) as [b t']. reflexivity.
Qed.

(** every command whose handler speaks about the connection is run by EXEC with the id of the
    connection that sent it (b11ef93 added CLIENT); the blocking pops are the exception by design:
    inside EXEC they never block and use no connection *)
Lemma exec_conn_level_arms_ok :
  forallb (fun n => bmem n exec_arms_with_conn_id || bmem n [bs "BLPOP"; bs "BRPOP"]) pnc_arms_using_conn_id = true.
Proof. vm_compute. reflexivity. Qed.

(** ---- table-driven obligations over the generated census of engine.rs ---- *)
(** the tracker's fields are written where the model writes them and nowhere else: the per-key
    counters and the shard counter by mark_key_modified only (so ending a watch cannot lower or
    forget a counter another watcher compares against), the watcher count by one increment in
    register_watch and one decrement in unregister_watch *)
Lemma tracker_writers_ok :
  watch_key_counter_writers = [bs "mark_key_modified"] /\
  watch_global_counter_writers = [bs "mark_key_modified"] /\
  watch_active_writes = [(bs "register_watch", bs "fetch_add"); (bs "unregister_watch", bs "fetch_sub")].
Proof. repeat split; vm_compute; reflexivity. Qed.
(** ... in the model: unregistering leaves every counter alone *)
Lemma unregister_keeps_counters t k k' : counter_of (unregister_watch t k) k' = counter_of t k'.
Proof. reflexivity. Qed.
Definition census_marks (f : bytes) : Z :=
  match find (fun r => match r with (n, _, _, _, _) => beq n f end) engine_census with
  | Some (_, m, _, _, _) => m
  | None => -1
  end.
(** every engine function that can create, change or remove a key's value or deadline *)
Definition mutating_engine_fns : list bytes :=
  [bs "set_string_nx"; bs "set_string_nx_ex"; bs "set_value"; bs "get"; bs "delete"; bs "expire";
   bs "persist"; bs "incr_by"; bs "flush_db"; bs "append"; bs "setrange"; bs "rename";
   bs "lpush"; bs "rpush"; bs "lpop"; bs "rpop"; bs "lset"; bs "ltrim"; bs "lrem";
   bs "sadd"; bs "srem"; bs "spop"; bs "hset"; bs "hdel"; bs "hincrby";
   bs "zadd"; bs "zrem"; bs "zincrby"; bs "xadd"; bs "xadd_with_id"; bs "xtrim"; bs "xdel";
   (* ed8ba04: changes made to a stream's consumer groups outside the engine are recorded through this *)
   bs "mark_key_modified"].
Lemma every_mutating_fn_marks :
  forallb (fun f => 1 <=? census_marks f) mutating_engine_fns = true.
Proof. vm_compute. reflexivity. Qed.
(** rename must mark both the source and the destination, in both of its paths *)
Lemma rename_marks_both : 4 <=? census_marks (bs "rename") = true.
Proof. vm_compute. reflexivity. Qed.
(** and every public engine function not listed as mutating really has no mark (so the
    list above is the complete set of marking functions) *)
Lemma non_mutating_fns_do_not_mark :
  forallb (fun r => match r with (n, m, _, _, _) => bmem n mutating_engine_fns || (m =? 0) end) engine_census = true.
Proof. vm_compute. reflexivity. Qed.

(** ================= C07: EXEC = the queued commands sent back to back ================= *)
(** a queued command whose execution at EXEC goes through process_normal_command with the
    placeholder connection id 0: first element a bulk string, not transaction control, not
    AUTH and not SELECT (those two run for the connection that sent EXEC, see
    [exec_queue_select]) *)
Definition plain_queued (parts : list frame) : bool :=
  match parts with
  | FBulk nm :: _ =>
      negb (mem_name (upper (trim nm)) tx_not_queued) && negb (beq (upper (trim nm)) (bs "AUTH"))
      && negb (beq (upper nm) (bs "SELECT")) && negb (beq (upper (trim nm)) (bs "SELECT"))
  | _ => false
  end.

(** the same commands sent directly, one frame after the other, by connection [c] *)
Fixpoint direct_run (now : Z) (s : server) (c : Z) (q : list (list frame)) (acc : list frame)
  : list frame * server :=
  match q with
  | [] => (rev acc, s)
  | parts :: r => match process_frame now s c (FArray parts) None with
                  | (rep, s') => direct_run now s' c r (rep :: acc)
                  end
  end.

Lemma process_frame_plain now s c cn parts :
  zlookup c (s_conns s) = Some cn -> authed_or_open s cn = true -> c_intx cn = false ->
  plain_queued parts = true ->
  process_frame now s c (FArray parts) None = normal_command now s 0 (c_db cn) parts None.
Proof.
  intros Hc Ha Hi Hp. unfold plain_queued in Hp. destruct parts as [|first rest]; [discriminate|].
  destruct first; try discriminate.
  apply andb_prop in Hp as [Hp Hsel2]. apply andb_prop in Hp as [Hp Hsel]. apply andb_prop in Hp as [Hq Hau].
  apply negb_true_iff in Hq, Hau, Hsel.
  unfold process_frame. rewrite Hc.
  assert (Hg : (match s_password s with Some _ => true | None => false end) && negb (c_auth cn) = false).
  { unfold authed_or_open in Ha. destruct (s_password s); [rewrite Ha|]; reflexivity. }
  rewrite Hg.
  assert (Hm : forall x, bmem x tx_not_queued = true -> beq (upper (trim b)) x = false).
  { intros x Hx. destruct (beq (upper (trim b)) x) eqn:E; [|reflexivity]. apply beq_eq in E. subst x.
    unfold mem_name in Hq. congruence. }
  rewrite Hi. cbn [andb].
  rewrite (Hm (bs "MULTI") eq_refl), (Hm (bs "EXEC") eq_refl), (Hm (bs "DISCARD") eq_refl),
          (Hm (bs "WATCH") eq_refl), (Hm (bs "UNWATCH") eq_refl), Hau.
  apply conn_id_irrelevant. unfold cmd_name. exact Hsel.
Qed.

Lemma dispatch_command_password now s c dbi parts r s' :
  dispatch_command now s c dbi parts None = (r, s') -> s_password s' = s_password s.
Proof.
  intros H.
    revert H. unfold dispatch_command.
    destruct parts as [|first rest]; [intros H; inversion H; reflexivity|].
    destruct first; try (intros H; inversion H; reflexivity).
    set (s0 := if logs_before (upper b) (FBulk b :: rest) then log_aof_in s dbi (FBulk b :: rest) else s).
    assert (Hp0 : s_password s0 = s_password s) by (unfold s0; destruct (logs_before (upper b) (FBulk b :: rest)); [unfold log_aof_in; destruct (same_db _ _)|]; reflexivity).
    rewrite <- Hp0. clear Hp0.
    destruct (beq (upper b) (bs "PING")); [intros H; inversion H; reflexivity|].
    destruct (beq (upper b) (bs "ECHO")); [intros H; inversion H; reflexivity|].
    destruct (beq (upper b) (bs "SELECT")).
    { destruct rest as [|a [|? ?]]; try (intros H; inversion H; reflexivity);
        try (destruct a; intros H; inversion H; reflexivity).
      destruct a; try (intros H; inversion H; reflexivity).
      destruct (parse_usize b0); [|intros H; inversion H; reflexivity].
      destruct (16 <=? z); [intros H; inversion H; reflexivity|].
      destruct (zlookup c (s_conns s0)); intros H; inversion H; reflexivity. }
    destruct (beq (upper b) (bs "FLUSHALL")).
    { destruct (negb (len (FBulk b :: rest) =? 1)); intros H; inversion H; reflexivity. }
    destruct (beq (upper b) (bs "RANDOMKEY")); [intros H; inversion H; reflexivity|].
    destruct (beq (upper b) (bs "AUTH")).
    { intros H. destruct (auth_per_connection _ _ _ _ _ H) as (_ & _ & Hp & _). exact Hp. }
    destruct (beq (upper b) (bs "QUIT")); [intros H; inversion H; reflexivity|].
    destruct (beq (upper b) (bs "VERIF")); [intros H; inversion H; reflexivity|].
    destruct (exec_db now (get_db s0 dbi) (upper b) (FBulk b :: rest) None) as [[r0 d']|];
      intros H; inversion H; reflexivity.
Qed.
Lemma normal_command_0_keeps now s dbi parts r s' c cn :
  normal_command now s 0 dbi parts None = (r, s') -> c <> 0 ->
  zlookup c (s_conns s) = Some cn ->
  zlookup c (s_conns s') = Some cn /\ s_password s' = s_password s.
Proof.
  intros H Hc Hz. split.
  - rewrite (normal_command_conns now s 0 dbi parts None r s' H c Hc Hc). exact Hz.
  - revert H. unfold normal_command.
    destruct parts as [|first rest]; [intros H; inversion H; reflexivity|].
    destruct first; try (intros H; inversion H; reflexivity).
    intros H. rewrite (dispatch_command_password _ _ _ _ _ _ _ H).
    apply (proj1 (proj2 (lazy_expire_rest _ _ _ _ _))).
Qed.

(** EXEC runs exactly what the connection would get by sending the queued commands one
    after the other with nobody in between: same replies, same final state *)
Theorem exec_is_back_to_back now c : forall q s cn acc,
  c <> 0 -> zlookup c (s_conns s) = Some cn -> authed_or_open s cn = true -> c_intx cn = false ->
  forallb plain_queued q = true ->
  exec_queue now s c (c_db cn) q acc = direct_run now s c q acc.
Proof.
  induction q as [|parts q IH]; intros s cn acc Hc Hz Ha Hi Hq; [reflexivity|].
  cbn [forallb] in Hq. apply andb_prop in Hq as [Hp Hq].
  assert (Hsel : beq (queued_name parts) (bs "SELECT") = false).
  { unfold plain_queued in Hp. destruct parts as [|[] ?]; try discriminate.
    apply andb_prop in Hp as [_ Hp]. apply negb_true_iff in Hp. exact Hp. }
  cbn [exec_queue direct_run]. rewrite Hsel. rewrite (process_frame_plain now s c cn parts Hz Ha Hi Hp).
  destruct (normal_command now s 0 (c_db cn) parts None) as [rep s'] eqn:E.
  destruct (normal_command_0_keeps now s (c_db cn) parts rep s' c cn E Hc Hz) as [Hz' Hpw].
  apply IH; try assumption. unfold authed_or_open in *. rewrite Hpw. exact Ha.
Qed.
