(** Lemmas for C04 (Props/C04.v): the comparator of skiplist.rs is a total
    preorder, the tower walk finds the linear-scan position for every
    assignment of heights, insert/remove preserve the invariant and refine the
    sorted-list specification. *)
From Coq Require Import Sorting.Sorted Sorting.Permutation.
From Ferrous Require Import Base.Bytes Model.Resp Model.Types Model.SkipList Spec.ZSet Proofs.BytesFacts.
Open Scope Z_scope.

(** ---- byte-string order ---- *)
Lemma bcmp_refl a : bcmp a a = Eq.
Proof. induction a as [|x a IH]; cbn [bcmp]; [reflexivity|]. rewrite Z.compare_refl. exact IH. Qed.

Lemma bcmp_eq a : forall b, bcmp a b = Eq -> a = b.
Proof.
  induction a as [|x a IH]; intros [|y b] H; cbn [bcmp] in H; try discriminate; [reflexivity|].
  destruct (x ?= y) eqn:E; try discriminate.
  apply Z.compare_eq in E. subst. f_equal. apply IH, H.
Qed.

Lemma bcmp_antisym a : forall b, bcmp b a = CompOpp (bcmp a b).
Proof.
  induction a as [|x a IH]; intros [|y b]; cbn [bcmp]; try reflexivity.
  rewrite (Z.compare_antisym x y). destruct (x ?= y); cbn [CompOpp]; auto.
Qed.

Lemma bcmp_trans_lt a : forall b c, bcmp a b = Lt -> bcmp b c = Lt -> bcmp a c = Lt.
Proof.
  induction a as [|x a IH]; intros [|y b] [|z c] H1 H2; cbn [bcmp] in *; try discriminate; try reflexivity.
  destruct (x ?= y) eqn:E1; try discriminate; destruct (y ?= z) eqn:E2; try discriminate.
  - apply Z.compare_eq in E1, E2. subst. rewrite Z.compare_refl. eapply IH; eauto.
  - apply Z.compare_eq in E1. subst. rewrite E2. reflexivity.
  - apply Z.compare_eq in E2. subst. rewrite E1. reflexivity.
  - rewrite Z.compare_lt_iff in *. assert (x < z) by lia. rewrite (proj2 (Z.compare_lt_iff x z)); auto.
Qed.

Lemma beq_bcmp a b : beq a b = true <-> bcmp a b = Eq.
Proof.
  split; intro H.
  - apply beq_eq in H. subst. apply bcmp_refl.
  - apply bcmp_eq in H. subst. apply beq_refl.
Qed.

(** ---- lexicographic comparison on (Z, bytes) ---- *)
Definition lexcmp (a : Z * bytes) (b : Z * bytes) : comparison :=
  match fst a ?= fst b with Eq => bcmp (snd a) (snd b) | c => c end.

Lemma lexcmp_refl a : lexcmp a a = Eq.
Proof. unfold lexcmp. rewrite Z.compare_refl. apply bcmp_refl. Qed.
Lemma lexcmp_eq a b : lexcmp a b = Eq -> a = b.
Proof.
  unfold lexcmp. destruct a as [x k], b as [y k']. cbn [fst snd].
  destruct (x ?= y) eqn:E; try discriminate. intro H. apply Z.compare_eq in E. apply bcmp_eq in H. congruence.
Qed.
Lemma lexcmp_antisym a b : lexcmp b a = CompOpp (lexcmp a b).
Proof.
  unfold lexcmp. rewrite (Z.compare_antisym (fst a) (fst b)).
  destruct (fst a ?= fst b); cbn [CompOpp]; auto. apply bcmp_antisym.
Qed.
Lemma lexcmp_trans_lt a b c : lexcmp a b = Lt -> lexcmp b c = Lt -> lexcmp a c = Lt.
Proof.
  unfold lexcmp. destruct a as [x k1], b as [y k2], c as [z k3]. cbn [fst snd].
  destruct (x ?= y) eqn:E1; try discriminate; destruct (y ?= z) eqn:E2; try discriminate; intros H1 H2.
  - apply Z.compare_eq in E1, E2. subst. rewrite Z.compare_refl. eapply bcmp_trans_lt; eauto.
  - apply Z.compare_eq in E1. subst. rewrite E2. reflexivity.
  - apply Z.compare_eq in E2. subst. rewrite E1. reflexivity.
  - rewrite Z.compare_lt_iff in *. assert (x < z) by lia. rewrite (proj2 (Z.compare_lt_iff x z)); auto.
Qed.
(** a <= b, b < c -> a < c and variants, with "<=" as "not Gt" *)
Lemma lexcmp_le_lt_trans a b c : lexcmp a b <> Gt -> lexcmp b c = Lt -> lexcmp a c = Lt.
Proof.
  intros H1 H2. destruct (lexcmp a b) eqn:E; try congruence.
  - apply lexcmp_eq in E. subst. exact H2.
  - eapply lexcmp_trans_lt; eauto.
Qed.
Lemma lexcmp_lt_le_trans a b c : lexcmp a b = Lt -> lexcmp b c <> Gt -> lexcmp a c = Lt.
Proof.
  intros H1 H2. destruct (lexcmp b c) eqn:E; try congruence.
  - apply lexcmp_eq in E. subst. exact H1.
  - eapply lexcmp_trans_lt; eauto.
Qed.
Lemma lexcmp_le_trans a b c : lexcmp a b <> Gt -> lexcmp b c <> Gt -> lexcmp a c <> Gt.
Proof.
  intros H1 H2. destruct (lexcmp b c) eqn:E; try congruence.
  - apply lexcmp_eq in E. subst. exact H1.
  - rewrite (lexcmp_le_lt_trans a b c); congruence.
Qed.

(** ---- f64 bit patterns ---- *)
(** total rank: the order-preserving image of the non-NaN values, every NaN above them *)
Definition fkey (v : Z) : Z := if f_is_nan v then two63 else f_ord v.

Lemma f_mag_range b : 0 <= f_mag b < two63.
Proof. unfold f_mag. apply Z.mod_pos_bound. reflexivity. Qed.
Lemma f_ord_bound v : f_is_nan v = false -> - f_inf_mag <= f_ord v <= f_inf_mag.
Proof.
  unfold f_is_nan, f_ord. intro H. apply Z.ltb_ge in H. pose proof (f_mag_range v).
  destruct (f_sign v); lia.
Qed.
Lemma f_ord_lt_two63 v : f_is_nan v = false -> f_ord v < two63.
Proof. intro H. apply f_ord_bound in H. unfold f_inf_mag, two63 in *. lia. Qed.

Lemma is_nan_v_eq v : is_nan_v v = f_is_nan v.
Proof. unfold is_nan_v, f_pcmp. destruct (f_is_nan v); reflexivity. Qed.

(** the comparator of the code is the lexicographic order on (fkey score, member) *)
Lemma compare_nodes_lex v1 k1 v2 k2 :
  compare_nodes v1 k1 v2 k2 = lexcmp (fkey v1, k1) (fkey v2, k2).
Proof.
  unfold compare_nodes, lexcmp, fkey, f_pcmp. rewrite !is_nan_v_eq. cbn [fst snd].
  destruct (f_is_nan v1) eqn:N1, (f_is_nan v2) eqn:N2; cbn [orb andb].
  - rewrite Z.compare_refl. reflexivity.
  - pose proof (f_ord_lt_two63 v2 N2). rewrite (proj2 (Z.compare_gt_iff two63 (f_ord v2))); [reflexivity|lia].
  - pose proof (f_ord_lt_two63 v1 N1). rewrite (proj2 (Z.compare_lt_iff (f_ord v1) two63)); [reflexivity|lia].
  - destruct (f_ord v1 ?= f_ord v2); reflexivity.
Qed.

Definition nkey (n : node) : Z * bytes := (fkey (n_val n), n_key n).
Definition ncmp (a b : node) : comparison := compare_nodes (n_val a) (n_key a) (n_val b) (n_key b).
Lemma ncmp_lex a b : ncmp a b = lexcmp (nkey a) (nkey b).
Proof. apply compare_nodes_lex. Qed.

(** ---- the tower walk ---- *)
Fixpoint dropw {A} (p : A -> bool) (l : list A) : list A :=
  match l with [] => [] | x :: r => if p x then dropw p r else l end.
Lemma take_drop {A} (p : A -> bool) l : take_while p l ++ dropw p l = l.
Proof. induction l as [|x l IH]; cbn; [reflexivity|]. destruct (p x); cbn; [f_equal; exact IH|reflexivity]. Qed.
Lemma take_while_all {A} (p : A -> bool) l : forallb p (take_while p l) = true.
Proof. induction l as [|x l IH]; cbn; [reflexivity|]. destruct (p x) eqn:E; cbn; [rewrite E; exact IH|reflexivity]. Qed.
(** [p] holds exactly on a prefix of [l] *)
Definition mono {A} (p : A -> bool) (l : list A) : Prop :=
  forallb (fun x => negb (p x)) (dropw p l) = true.

(** 1-based position of the last node of [a] that is on level i (0 if none) *)
Fixpoint lastpos (i : nat) (a : list node) : nat :=
  match a with
  | [] => O
  | n :: a' => match lastpos i a' with
               | O => if (i <=? n_lvl n)%nat then 1%nat else O
               | S m => S (S m)
               end
  end.

Lemma adv_notp (p : node -> bool) i l2 :
  forallb (fun x => negb (p x)) l2 = true -> forall pend, adv p i l2 pend = O.
Proof.
  induction l2 as [|n l2 IH]; cbn [adv forallb]; intros H pend; [reflexivity|].
  apply andb_prop in H as [H1 H2]. destruct (i <=? n_lvl n)%nat.
  - destruct (p n); [discriminate|reflexivity].
  - apply IH, H2.
Qed.

Lemma adv_split (p : node -> bool) i a l2 :
  forallb p a = true -> forallb (fun x => negb (p x)) l2 = true ->
  forall pend, adv p i (a ++ l2) pend = match lastpos i a with O => O | S m => (pend + S m)%nat end.
Proof.
  intros Ha Hl. induction a as [|n a IH]; intro pend.
  - cbn [app lastpos]. apply adv_notp, Hl.
  - cbn [forallb] in Ha. apply andb_prop in Ha as [Hn Ha]. specialize (IH Ha).
    cbn [app adv lastpos]. destruct (i <=? n_lvl n)%nat.
    + rewrite Hn, IH. destruct (lastpos i a); lia.
    + rewrite IH. destruct (lastpos i a); lia.
Qed.

Lemma lastpos_le i a : (lastpos i a <= length a)%nat.
Proof.
  induction a as [|n a IH]; cbn [lastpos length]; [lia|].
  destruct (lastpos i a); [destruct (i <=? n_lvl n)%nat; lia|lia].
Qed.
Definition below (i : nat) (n : node) : bool := negb (i <=? n_lvl n)%nat.
Lemma lastpos_tail i a : forallb (below i) (skipn (lastpos i a) a) = true.
Proof.
  induction a as [|n a IH]; cbn [lastpos]; [reflexivity|].
  destruct (lastpos i a) eqn:E.
  - destruct (i <=? n_lvl n)%nat eqn:L.
    + cbn [skipn]. cbn [skipn] in IH. exact IH.
    + cbn [skipn forallb]. unfold below at 1. rewrite L. cbn [negb andb]. cbn [skipn] in IH. exact IH.
  - cbn [skipn]. exact IH.
Qed.
Lemma lastpos_0 a : lastpos 0 a = length a.
Proof.
  induction a as [|n a IH]; cbn [lastpos length]; [reflexivity|]. rewrite IH.
  destruct (length a); reflexivity.
Qed.

Lemma forallb_skipn {A} (p : A -> bool) l : forallb p l = true -> forall k, forallb p (skipn k l) = true.
Proof.
  induction l as [|x l IH]; intros H [|k]; cbn [skipn]; auto.
  cbn [forallb] in H. apply andb_prop in H as [_ H]. apply IH, H.
Qed.

Lemma skipn_add {A} (l : list A) : forall y x, skipn x (skipn y l) = skipn (y + x) l.
Proof.
  induction l as [|a l IH]; intros [|y] x; cbn [skipn Nat.add]; try reflexivity.
  - destruct x; reflexivity.
  - apply IH.
Qed.

(** update[i] = u is right for an insertion after the prefix l1: it lies in the
    prefix and no node of level i follows it inside the prefix *)
Definition upd_ok (i : nat) (l1 : list node) (u : nat) : Prop :=
  (u <= length l1)%nat /\ forallb (below i) (skipn u l1) = true.

Section Tower.
Variable p : node -> bool.
Variables l1 l2 : list node.
Hypothesis H1 : forallb p l1 = true.
Hypothesis H2 : forallb (fun x => negb (p x)) l2 = true.

Lemma tower_step i pos : (pos <= length l1)%nat ->
  (pos + adv p i (skipn pos (l1 ++ l2)) 0 = pos + lastpos i (skipn pos l1))%nat.
Proof.
  intro Hp. rewrite skipn_app. replace (pos - length l1)%nat with O by lia. cbn [skipn].
  rewrite (adv_split p i (skipn pos l1) l2 (forallb_skipn p l1 H1 pos) H2 0%nat).
  destruct (lastpos i (skipn pos l1)); lia.
Qed.

Lemma tower_step_ok i pos : (pos <= length l1)%nat ->
  (pos <= pos + lastpos i (skipn pos l1))%nat /\ upd_ok i l1 (pos + lastpos i (skipn pos l1)).
Proof.
  intro Hp. split; [lia|]. unfold upd_ok.
  pose proof (lastpos_le i (skipn pos l1)) as L. rewrite skipn_length in L. split; [lia|].
  rewrite <- skipn_add. apply lastpos_tail.
Qed.

Lemma tower_ok lv : forall pos, (pos <= length l1)%nat ->
  let t := tower p (l1 ++ l2) lv pos in
  (forall j, (j <= lv)%nat -> upd_ok j l1 (nth (lv - j) t O)) /\ last t O = length l1.
Proof.
  induction lv as [|l IH]; intros pos Hp; cbn [tower]; cbv zeta.
  - rewrite tower_step by exact Hp. split.
    + intros j Hj. replace j with O by lia. cbn [Nat.sub nth]. apply tower_step_ok, Hp.
    + cbn [last]. rewrite lastpos_0, skipn_length. lia.
  - rewrite tower_step by exact Hp.
    destruct (tower_step_ok (S l) pos Hp) as [Hle Hok].
    set (p' := (pos + lastpos (S l) (skipn pos l1))%nat) in *.
    destruct (IH p' (proj1 Hok)) as [IHa IHb]. split.
    + intros j Hj. destruct (Nat.eq_dec j (S l)) as [->|Hne].
      * rewrite Nat.sub_diag. cbn [nth]. exact Hok.
      * replace (S l - j)%nat with (S (l - j)) by lia. cbn [nth]. apply IHa. lia.
    + destruct (tower p (l1 ++ l2) l p') eqn:E.
      * destruct l; cbn [tower] in E; discriminate.
      * cbn [last] in *. exact IHb.
Qed.

Lemma search_prefix lv : search p (l1 ++ l2) lv = length l1.
Proof. unfold search. apply (tower_ok lv O). lia. Qed.
End Tower.

(** the tower walk is the linear scan, for every assignment of heights *)
Lemma search_take_while (p : node -> bool) nodes lv :
  mono p nodes -> search p nodes lv = length (take_while p nodes).
Proof.
  intro M. rewrite <- (take_drop p nodes) at 1.
  apply search_prefix; [apply take_while_all|exact M].
Qed.

Lemma update_vector_ok (p : node -> bool) nodes lv j :
  mono p nodes -> (j <= lv)%nat ->
  upd_ok j (take_while p nodes) (nth (lv - j) (tower p nodes lv O) O).
Proof.
  intros M Hj. rewrite <- (take_drop p nodes) at 2.
  apply (tower_ok p _ _ (take_while_all p nodes) M lv O); [lia|exact Hj].
Qed.

(** splicing the new node after update[j] on level j yields the derived chain
    of the new level-0 list *)
Lemma chain_app i a b : chain i (a ++ b) = chain i a ++ chain i b.
Proof. apply filter_app. Qed.
Lemma chain_below_nil i l : forallb (below i) l = true -> chain i l = [].
Proof.
  induction l as [|n l IH]; cbn [forallb chain filter]; intro H; [reflexivity|].
  apply andb_prop in H as [Hn Hl]. unfold below in Hn. destruct (i <=? n_lvl n)%nat; [discriminate|]. apply IH, Hl.
Qed.
Lemma splice_agrees (p : node -> bool) nodes lv j new :
  mono p nodes -> (j <= lv)%nat ->
  let u := nth (lv - j) (tower p nodes lv O) O in
  let pos := search p nodes lv in
  chain j (firstn u nodes) ++ chain j [new] ++ chain j (skipn u nodes)
  = chain j (firstn pos nodes ++ new :: skipn pos nodes).
Proof.
  intros M Hj u pos.
  destruct (update_vector_ok p nodes lv j M Hj) as [Hu Hb]. fold u in Hu, Hb.
  unfold pos. rewrite search_take_while by exact M.
  set (l1 := take_while p nodes) in *. set (l2 := dropw p nodes).
  assert (E : nodes = l1 ++ l2) by (symmetry; apply take_drop).
  rewrite E. rewrite !firstn_app, !skipn_app.
  replace (u - length l1)%nat with O by lia. rewrite Nat.sub_diag. cbn [firstn skipn].
  rewrite firstn_all, skipn_all, !app_nil_r. cbn [app].
  rewrite <- (firstn_skipn u l1) at 3.
  change (new :: l2) with ([new] ++ l2).
  rewrite !chain_app. rewrite (chain_below_nil j (skipn u l1) Hb). cbn [app]. rewrite app_nil_r. reflexivity.
Qed.

(** ---- sortedness ---- *)
Definition wsorted (l : list node) : Prop := StronglySorted (fun a b => ncmp a b <> Gt) l.
Definition ssorted (l : list node) : Prop := StronglySorted (fun a b => ncmp a b = Lt) l.
Definition mknode (k : bytes) (v : Z) (h : nat) : node := {| n_key := k; n_val := v; n_lvl := h |}.

Lemma ssorted_wsorted l : ssorted l -> wsorted l.
Proof.
  induction 1 as [|a l Hs IH Hf]; constructor; auto.
  eapply Forall_impl; [|exact Hf]. cbn. intros b Hb. congruence.
Qed.

Lemma node_lt_ncmp v k n : node_lt v k n = match ncmp n (mknode k v 0) with Lt => true | _ => false end.
Proof. reflexivity. Qed.
Lemma node_lt_true v k n : node_lt v k n = true <-> ncmp n (mknode k v 0) = Lt.
Proof. rewrite node_lt_ncmp. destruct (ncmp n (mknode k v 0)); split; congruence. Qed.
Lemma ncmp_lvl_irrel a k v h h' : ncmp a (mknode k v h) = ncmp a (mknode k v h').
Proof. reflexivity. Qed.
Lemma ncmp_lvl_irrel_l a k v h h' : ncmp (mknode k v h) a = ncmp (mknode k v h') a.
Proof. reflexivity. Qed.

Lemma ncmp_refl a : ncmp a a = Eq.
Proof. rewrite ncmp_lex. apply lexcmp_refl. Qed.
Lemma ncmp_antisym a b : ncmp b a = CompOpp (ncmp a b).
Proof. rewrite !ncmp_lex. apply lexcmp_antisym. Qed.
Lemma ncmp_eq_key a b : ncmp a b = Eq -> n_key a = n_key b.
Proof. rewrite ncmp_lex. intro H. apply lexcmp_eq in H. unfold nkey in H. congruence. Qed.

Lemma ncmp_total_preorder :
  (forall a, ncmp a a = Eq) /\
  (forall a b, ncmp b a = CompOpp (ncmp a b)) /\
  (forall a b c, ncmp a b <> Gt -> ncmp b c <> Gt -> ncmp a c <> Gt).
Proof.
  split; [exact ncmp_refl|]. split; [exact ncmp_antisym|].
  intros a b c. rewrite !ncmp_lex. apply lexcmp_le_trans.
Qed.

(** on a list ordered by the comparator, "below the query" holds on a prefix *)
Lemma wsorted_mono v k l : wsorted l -> mono (node_lt v k) l.
Proof.
  unfold mono. induction 1 as [|a l Hs IH Hf]; [reflexivity|].
  cbn [dropw]. destruct (node_lt v k a) eqn:Ea; [exact IH|].
  cbn [forallb]. rewrite Ea. cbn [negb andb].
  apply forallb_forall. intros x Hx. rewrite Forall_forall in Hf. specialize (Hf x Hx).
  destruct (node_lt v k x) eqn:Ex; [|reflexivity]. exfalso.
  apply node_lt_true in Ex. rewrite ncmp_lex in *.
  assert (lexcmp (nkey a) (nkey (mknode k v 0)) = Lt) by (eapply lexcmp_le_lt_trans; eauto).
  rewrite <- ncmp_lex in H. apply node_lt_true in H. congruence.
Qed.

Lemma firstn_len_app {A} (a b : list A) : firstn (length a) (a ++ b) = a.
Proof. rewrite firstn_app, Nat.sub_diag, firstn_all. cbn. apply app_nil_r. Qed.
Lemma skipn_len_app {A} (a b : list A) : skipn (length a) (a ++ b) = b.
Proof. rewrite skipn_app, Nat.sub_diag, skipn_all. reflexivity. Qed.

(** linear-scan forms of the two internal operations *)
Lemma insert_new_node_nodes s k v h : wsorted (sl_nodes s) ->
  sl_nodes (insert_new_node s k v h)
  = take_while (node_lt v k) (sl_nodes s) ++ mknode k v h :: dropw (node_lt v k) (sl_nodes s).
Proof.
  intro W. unfold insert_new_node. cbn [sl_nodes].
  rewrite search_take_while by (apply wsorted_mono, W).
  rewrite <- (take_drop (node_lt v k) (sl_nodes s)) at 2 4.
  rewrite firstn_len_app, skipn_len_app. reflexivity.
Qed.

Definition removed_state (s : sl) (nodes' : list node) : sl :=
  {| sl_nodes := nodes'; sl_index := sl_index s; sl_length := sl_length s - 1;
     sl_level := shrink_level nodes' (sl_level s) |}.
Lemma remove_node_linear s k v : wsorted (sl_nodes s) ->
  remove_node_by_score s k v =
  match dropw (node_lt v k) (sl_nodes s) with
  | t :: r => if beq (n_key t) k && f_eq (n_val t) v
              then removed_state s (take_while (node_lt v k) (sl_nodes s) ++ r) else s
  | [] => s
  end.
Proof.
  intro W. unfold remove_node_by_score.
  rewrite search_take_while by (apply wsorted_mono, W).
  set (tw := take_while (node_lt v k) (sl_nodes s)). set (dw := dropw (node_lt v k) (sl_nodes s)).
  assert (E : sl_nodes s = tw ++ dw) by (symmetry; apply take_drop).
  rewrite E. rewrite nth_error_app2 by lia. rewrite Nat.sub_diag.
  destruct dw as [|t r]; cbn [nth_error]; [reflexivity|].
  destruct (beq (n_key t) k && f_eq (n_val t) v); [|reflexivity].
  rewrite firstn_len_app. replace (S (length tw)) with (length tw + 1)%nat by lia.
  rewrite <- skipn_add, skipn_len_app. cbn [skipn]. reflexivity.
Qed.

(** StronglySorted over an append *)
Lemma ss_app {A} (R : A -> A -> Prop) a b :
  StronglySorted R (a ++ b) <->
  StronglySorted R a /\ StronglySorted R b /\ (forall x y, In x a -> In y b -> R x y).
Proof.
  induction a as [|x a IH]; cbn [app].
  - split; [intro H; repeat split; [constructor|exact H|intros ? ? []]|intros (_ & H & _); exact H].
  - split.
    + intro H. inversion H as [|? ? Hs Hf]; subst. apply IH in Hs as (Ha & Hb & Hab).
      rewrite Forall_app in Hf. destruct Hf as [Hfa Hfb]. repeat split.
      * constructor; auto.
      * exact Hb.
      * intros u w [<-|Hu] Hw; [rewrite Forall_forall in Hfb; auto|auto].
    + intros (Ha & Hb & Hab). inversion Ha as [|? ? Hs Hf]; subst. constructor.
      * apply IH. repeat split; auto. intros; apply Hab; [right|]; auto.
      * rewrite Forall_app. split; [exact Hf|]. apply Forall_forall. intros y Hy. apply Hab; [left; reflexivity|exact Hy].
Qed.

Lemma take_while_In {A} (p : A -> bool) l x : In x (take_while p l) -> p x = true.
Proof. intro H. pose proof (take_while_all p l) as F. rewrite forallb_forall in F. auto. Qed.

(** inserting a node that is Equal to none keeps the list strictly sorted *)
Lemma ssorted_insert l k v h :
  ssorted l -> (forall x, In x l -> ncmp x (mknode k v h) <> Eq) ->
  ssorted (take_while (node_lt v k) l ++ mknode k v h :: dropw (node_lt v k) l).
Proof.
  intros S NE. pose proof (wsorted_mono v k l (ssorted_wsorted l S)) as M. unfold mono in M.
  rewrite forallb_forall in M.
  pose proof (take_drop (node_lt v k) l) as E.
  unfold ssorted in S. rewrite <- E in S. apply ss_app in S as (Sa & Sb & Sab).
  assert (Hdw : forall y, In y (dropw (node_lt v k) l) -> ncmp (mknode k v h) y = Lt).
  { intros y Hy. specialize (M y Hy). apply negb_true_iff in M.
    assert (Hin : In y l) by (rewrite <- E; apply in_or_app; right; exact Hy).
    specialize (NE y Hin). rewrite node_lt_ncmp in M. rewrite (ncmp_lvl_irrel y k v 0 h) in M.
    rewrite (ncmp_antisym y). destruct (ncmp y (mknode k v h)); cbn [CompOpp]; congruence. }
  apply ss_app. repeat split.
  - exact Sa.
  - constructor; [exact Sb|]. apply Forall_forall. exact Hdw.
  - intros x y Hx [<-|Hy].
    + apply take_while_In in Hx. apply node_lt_true in Hx. exact Hx.
    + auto.
Qed.

Lemma ssorted_remove a t r : ssorted (a ++ t :: r) -> ssorted (a ++ r).
Proof.
  unfold ssorted. rewrite !ss_app. intros (Sa & Sb & Sab). inversion Sb; subst. repeat split; auto.
  intros; apply Sab; [|right]; auto.
Qed.

(** the node of a member is where the search for (its score, its key) stops *)
Lemma dropw_at_member l t : ssorted l -> In t l ->
  exists r, dropw (node_lt (n_val t) (n_key t)) l = t :: r.
Proof.
  induction 1 as [|a l Hs IH Hf]; intros Hin; [destruct Hin|].
  cbn [dropw]. destruct Hin as [->|Hin].
  - assert (node_lt (n_val t) (n_key t) t = false) as ->.
    { unfold node_lt. fold (ncmp t t). rewrite ncmp_refl. reflexivity. }
    eexists; reflexivity.
  - rewrite Forall_forall in Hf. specialize (Hf t Hin).
    assert (node_lt (n_val t) (n_key t) a = true) as ->.
    { unfold node_lt. fold (ncmp a t). rewrite Hf. reflexivity. }
    apply IH, Hin.
Qed.

(** ---- association-list facts ---- *)
Lemma alookup_aremove {A} m k (l : list (bytes * A)) :
  alookup m (aremove k l) = if beq m k then None else alookup m l.
Proof.
  induction l as [|[k' x] l IH]; cbn [aremove alookup].
  - destruct (beq m k); reflexivity.
  - destruct (beq k k') eqn:E1.
    + rewrite IH. destruct (beq m k) eqn:E2; [reflexivity|].
      destruct (beq m k') eqn:E3; [|reflexivity].
      apply beq_eq in E1, E3. subst. rewrite beq_refl in E2. discriminate.
    + cbn [alookup]. destruct (beq m k') eqn:E3.
      * destruct (beq m k) eqn:E2; [|reflexivity]. apply beq_eq in E2, E3. subst. rewrite beq_refl in E1. discriminate.
      * exact IH.
Qed.
Lemma alookup_aset {A} m k (v : A) l :
  alookup m (aset k v l) = if beq m k then Some v else alookup m l.
Proof. unfold aset. cbn [alookup]. destruct (beq m k) eqn:E; [reflexivity|]. rewrite alookup_aremove, E. reflexivity. Qed.
Lemma aremove_keys_in {A} k (l : list (bytes * A)) x :
  In x (map fst (aremove k l)) -> In x (map fst l) /\ x <> k.
Proof.
  induction l as [|[k' y] l IH]; cbn [aremove map In]; [tauto|].
  destruct (beq k k') eqn:E.
  - intro H. apply IH in H. tauto.
  - cbn [map In fst]. intros [<-|H].
    + split; [left; reflexivity|]. intro. subst. rewrite beq_refl in E. discriminate.
    + apply IH in H. tauto.
Qed.
Lemma aremove_keys_nodup {A} k (l : list (bytes * A)) :
  NoDup (map fst l) -> NoDup (map fst (aremove k l)).
Proof.
  induction l as [|[k' y] l IH]; cbn [aremove map]; intro H; [constructor|].
  inversion H; subst. destruct (beq k k'); [auto|].
  cbn [map fst]. constructor; [|auto]. intro Hin. apply aremove_keys_in in Hin. tauto.
Qed.
Lemma aset_keys_nodup {A} k (v : A) l : NoDup (map fst l) -> NoDup (map fst (aset k v l)).
Proof.
  intro H. unfold aset. cbn [map fst]. constructor; [|apply aremove_keys_nodup, H].
  intro Hin. apply aremove_keys_in in Hin. tauto.
Qed.

(** ---- the invariant ---- *)
Definition max_lvl (l : list node) : nat := fold_right (fun n m => Nat.max (n_lvl n) m) O l.
Definition nonan_nodes (l : list node) : Prop := Forall (fun n => f_is_nan (n_val n) = false) l.

Record Inv (s : sl) : Prop := {
  inv_sorted : ssorted (sl_nodes s);                       (* strictly sorted by (score, member) *)
  inv_members : NoDup (map n_key (sl_nodes s));            (* each member once *)
  inv_nonan : nonan_nodes (sl_nodes s);                    (* no NaN stored *)
  inv_index : forall m sc, alookup m (sl_index s) = Some sc <-> In (m, sc) (sl_items s);
                                                           (* key_index agrees with the chain *)
  inv_index_keys : NoDup (map fst (sl_index s));
  inv_length : sl_length s = len (sl_nodes s);             (* length agrees *)
  inv_level : sl_level s = max_lvl (sl_nodes s)            (* level = highest tower *)
}.

Lemma inv_new : Inv sl_new.
Proof.
  constructor; cbn; try constructor; try reflexivity.
  - discriminate.
  - intros [].
Qed.

Lemma max_lvl_app a b : max_lvl (a ++ b) = Nat.max (max_lvl a) (max_lvl b).
Proof. induction a as [|n a IH]; cbn [app max_lvl fold_right]; [reflexivity|]. fold (max_lvl (a ++ b)) (max_lvl a). rewrite IH. lia. Qed.
Lemma max_lvl_cons n l : max_lvl (n :: l) = Nat.max (n_lvl n) (max_lvl l).
Proof. reflexivity. Qed.
Lemma max_lvl_ge l n : In n l -> (n_lvl n <= max_lvl l)%nat.
Proof.
  induction l as [|x l IH]; intros []; subst; rewrite max_lvl_cons; [lia|]. specialize (IH H). lia.
Qed.
Lemma max_lvl_witness l : l <> [] -> exists n, In n l /\ n_lvl n = max_lvl l.
Proof.
  induction l as [|x l IH]; [congruence|]. intros _. rewrite max_lvl_cons.
  destruct l as [|y l'].
  - exists x. split; [left; reflexivity|]. cbn. lia.
  - destruct IH as (n & Hn & En); [discriminate|].
    destruct (Nat.max_spec (n_lvl x) (max_lvl (y :: l'))) as [[_ ->]|[_ ->]].
    + exists n. split; [right; exact Hn|exact En].
    + exists x. split; [left; reflexivity|reflexivity].
Qed.
Lemma shrink_level_max l : forall lv, (max_lvl l <= lv)%nat -> shrink_level l lv = max_lvl l.
Proof.
  induction lv as [|lv IH]; intro H; cbn [shrink_level]; [lia|].
  destruct (existsb (fun n => (S lv <=? n_lvl n)%nat) l) eqn:E.
  - apply existsb_exists in E as (n & Hn & Hl). apply Nat.leb_le in Hl.
    pose proof (max_lvl_ge l n Hn). lia.
  - apply IH. destruct l as [|x l']; [cbn; lia|].
    destruct (max_lvl_witness (x :: l')) as (n & Hn & En); [discriminate|].
    assert (existsb (fun n => (S lv <=? n_lvl n)%nat) (x :: l') = false) as E' by exact E.
    rewrite <- Bool.not_true_iff_false in E'.
    destruct (Nat.le_gt_cases (S lv) (n_lvl n)) as [Hge|Hlt]; [|lia].
    exfalso. apply E'. apply existsb_exists. exists n. split; [exact Hn|]. apply Nat.leb_le. exact Hge.
Qed.

Definition keyne (k : bytes) (n : node) : bool := negb (beq (n_key n) k).

Lemma filter_id {A} (p : A -> bool) l : (forall x, In x l -> p x = true) -> filter p l = l.
Proof.
  induction l as [|x l IH]; intro H; cbn [filter]; [reflexivity|].
  rewrite (H x (or_introl eq_refl)). f_equal. apply IH. intros; apply H; right; auto.
Qed.

Lemma f_eq_refl v : f_is_nan v = false -> f_eq v v = true.
Proof. intro H. unfold f_eq, f_pcmp. rewrite H. cbn. rewrite Z.compare_refl. reflexivity. Qed.

Lemma items_In s m sc : In (m, sc) (sl_items s) <-> exists n, In n (sl_nodes s) /\ n_key n = m /\ n_val n = sc.
Proof.
  unfold sl_items. rewrite in_map_iff. split.
  - intros (n & E & H). inversion E. eauto.
  - intros (n & H & <- & <-). eauto.
Qed.

Lemma NoDup_key_unique l a b : NoDup (map n_key l) -> In a l -> In b l -> n_key a = n_key b -> a = b.
Proof.
  induction l as [|x l IH]; intros N Ha Hb E; [destruct Ha|].
  cbn [map] in N. inversion N as [|? ? Hn Hd]; subst.
  destruct Ha as [->|Ha], Hb as [->|Hb]; auto.
  - exfalso. apply Hn. rewrite E. apply in_map, Hb.
  - exfalso. apply Hn. rewrite <- E. apply in_map, Ha.
Qed.

(** removing the indexed node of a member *)
Lemma remove_node_member s k old :
  Inv s -> alookup k (sl_index s) = Some old ->
  exists a t r, sl_nodes s = a ++ t :: r /\ n_key t = k /\ n_val t = old /\
    remove_node_by_score s k old = removed_state s (a ++ r) /\
    a ++ r = filter (keyne k) (sl_nodes s).
Proof.
  intros I L. apply (inv_index s I) in L. apply items_In in L as (t & Ht & Ek & Ev).
  destruct (dropw_at_member (sl_nodes s) t (inv_sorted s I) Ht) as (r & Hd).
  rewrite Ek, Ev in Hd.
  pose proof (take_drop (node_lt old k) (sl_nodes s)) as E. rewrite Hd in E.
  set (a := take_while (node_lt old k) (sl_nodes s)) in *.
  exists a, t, r. split; [symmetry; exact E|]. split; [exact Ek|]. split; [exact Ev|].
  assert (Hnan : f_is_nan old = false).
  { pose proof (inv_nonan s I) as F. unfold nonan_nodes in F. rewrite Forall_forall in F. rewrite <- Ev. apply F, Ht. }
  split.
  - rewrite remove_node_linear by (apply ssorted_wsorted, (inv_sorted s I)).
    rewrite Hd. rewrite Ek, Ev, beq_refl, (f_eq_refl old Hnan). reflexivity.
  - pose proof (inv_members s I) as N. rewrite <- E in N |- *.
    rewrite filter_app. cbn [filter]. unfold keyne at 2. rewrite Ek, beq_refl. cbn [negb].
    rewrite map_app in N. cbn [map] in N. apply NoDup_remove_2 in N. rewrite Ek in N.
    rewrite !filter_id; [reflexivity| |].
    + intros x Hx. unfold keyne. apply negb_true_iff. apply Bool.not_true_iff_false. intro B. apply beq_eq in B.
      apply N. apply in_or_app. right. rewrite <- B. apply in_map, Hx.
    + intros x Hx. unfold keyne. apply negb_true_iff. apply Bool.not_true_iff_false. intro B. apply beq_eq in B.
      apply N. apply in_or_app. left. rewrite <- B. apply in_map, Hx.
Qed.

Lemma insert_new_node_eq s k v h : wsorted (sl_nodes s) ->
  insert_new_node s k v h =
  {| sl_nodes := take_while (node_lt v k) (sl_nodes s) ++ mknode k v h :: dropw (node_lt v k) (sl_nodes s);
     sl_index := sl_index s; sl_length := sl_length s + 1; sl_level := Nat.max (sl_level s) h |}.
Proof.
  intro W. pose proof (insert_new_node_nodes s k v h W) as E. unfold insert_new_node in *. cbn [sl_nodes] in E.
  rewrite E. reflexivity.
Qed.

Lemma len_filter_remove {A} (a r : list A) t : len (a ++ t :: r) = len (a ++ r) + 1.
Proof. rewrite !len_app, len_cons. lia. Qed.

Lemma max_lvl_remove_le a t r : (max_lvl (a ++ r) <= max_lvl (a ++ t :: r))%nat.
Proof. rewrite !max_lvl_app, max_lvl_cons. lia. Qed.

Lemma not_member_filter s k : Inv s -> alookup k (sl_index s) = None ->
  filter (keyne k) (sl_nodes s) = sl_nodes s.
Proof.
  intros I L. apply filter_id. intros n Hn. unfold keyne. apply negb_true_iff. apply Bool.not_true_iff_false.
  intro B. apply beq_eq in B.
  assert (In (k, n_val n) (sl_items s)) as Hi by (apply items_In; eauto).
  apply (inv_index s I) in Hi. congruence.
Qed.

(** what insert does, in linear-scan terms *)
Lemma sl_insert_char s k v h : Inv s ->
  let l := filter (keyne k) (sl_nodes s) in
  fst (sl_insert s k v h) = alookup k (sl_index s) /\
  snd (sl_insert s k v h) =
  {| sl_nodes := take_while (node_lt v k) l ++ mknode k v h :: dropw (node_lt v k) l;
     sl_index := aset k v (sl_index s);
     sl_length := len l + 1;
     sl_level := Nat.max (max_lvl l) h |}.
Proof.
  intros I l. unfold sl_insert. destruct (alookup k (sl_index s)) as [old|] eqn:L; cbn [fst snd].
  - split; [reflexivity|].
    destruct (remove_node_member s k old I L) as (a & t & r & En & Ek & Ev & Er & Ef).
    rewrite Er. fold l in Ef.
    assert (W : wsorted l).
    { rewrite <- Ef. apply ssorted_wsorted. eapply ssorted_remove. rewrite <- En. apply (inv_sorted s I). }
    rewrite insert_new_node_eq by (cbn [set_index removed_state sl_nodes]; rewrite Ef; exact W).
    cbn [set_index removed_state sl_nodes sl_index sl_length sl_level]. rewrite Ef.
    f_equal.
    + rewrite (inv_length s I), En, len_filter_remove, Ef. lia.
    + rewrite shrink_level_max; [reflexivity|]. rewrite (inv_level s I), En, <- Ef. apply max_lvl_remove_le.
  - split; [reflexivity|].
    assert (El : l = sl_nodes s) by (apply not_member_filter; assumption).
    rewrite insert_new_node_eq by (cbn [set_index sl_nodes]; apply ssorted_wsorted, (inv_sorted s I)).
    cbn [set_index sl_nodes sl_index sl_length sl_level]. rewrite El.
    f_equal; [rewrite (inv_length s I); reflexivity|rewrite (inv_level s I); reflexivity].
Qed.

Lemma remove_node_set_index s ix k v :
  remove_node_by_score (set_index s ix) k v = set_index (remove_node_by_score s k v) ix.
Proof.
  unfold remove_node_by_score. cbn [set_index sl_nodes sl_level sl_index sl_length].
  destruct (nth_error (sl_nodes s) _) as [t|]; [|reflexivity].
  destruct (beq (n_key t) k && f_eq (n_val t) v); reflexivity.
Qed.

(** what remove does *)
Lemma sl_remove_char s k : Inv s ->
  fst (sl_remove s k) = alookup k (sl_index s) /\
  snd (sl_remove s k) =
  match alookup k (sl_index s) with
  | Some _ => let l := filter (keyne k) (sl_nodes s) in
              {| sl_nodes := l; sl_index := aremove k (sl_index s); sl_length := len l; sl_level := max_lvl l |}
  | None => s
  end.
Proof.
  intro I. unfold sl_remove. destruct (alookup k (sl_index s)) as [old|] eqn:L; cbn [fst snd]; [|split; reflexivity].
  split; [reflexivity|].
  destruct (remove_node_member s k old I L) as (a & t & r & En & Ek & Ev & Er & Ef).
  rewrite remove_node_set_index, Er. unfold set_index, removed_state. cbn [sl_nodes sl_index sl_length sl_level].
  assert (HL : sl_length s - 1 = len (a ++ r)) by (rewrite (inv_length s I), En, len_filter_remove; lia).
  assert (HV : shrink_level (a ++ r) (sl_level s) = max_lvl (a ++ r)).
  { apply shrink_level_max. rewrite (inv_level s I), En. apply max_lvl_remove_le. }
  rewrite HL, HV, Ef. reflexivity.
Qed.

(** ---- facts about the filtered list ---- *)
Lemma ss_filter {A} (R : A -> A -> Prop) (p : A -> bool) l : StronglySorted R l -> StronglySorted R (filter p l).
Proof.
  induction 1 as [|a l Hs IH Hf]; cbn [filter]; [constructor|].
  destruct (p a); [|exact IH]. constructor; [exact IH|].
  rewrite Forall_forall in *. intros x Hx. apply filter_In in Hx as [Hx _]. auto.
Qed.
Lemma nodup_keys_filter p l : NoDup (map n_key l) -> NoDup (map n_key (filter p l)).
Proof.
  induction l as [|a l IH]; cbn [filter map]; intro N; [constructor|].
  inversion N as [|? ? Hn Hd]; subst. destruct (p a); [|auto].
  cbn [map]. constructor; [|auto]. intro Hin. apply Hn. apply in_map_iff in Hin as (x & E & Hx).
  apply filter_In in Hx as [Hx _]. rewrite <- E. apply in_map, Hx.
Qed.
Lemma keyne_not_in k l : ~ In k (map n_key (filter (keyne k) l)).
Proof.
  intro H. apply in_map_iff in H as (x & E & Hx). apply filter_In in Hx as [_ Hp].
  unfold keyne in Hp. rewrite E, beq_refl in Hp. discriminate.
Qed.
Lemma kv_filter_In k l m sc :
  In (m, sc) (map (fun n => (n_key n, n_val n)) (filter (keyne k) l)) <->
  In (m, sc) (map (fun n => (n_key n, n_val n)) l) /\ m <> k.
Proof.
  rewrite !in_map_iff. split.
  - intros (n & E & Hn). apply filter_In in Hn as [Hn Hp]. inversion E; subst. split; [eauto|].
    unfold keyne in Hp. intro. subst. rewrite beq_refl in Hp. discriminate.
  - intros ((n & E & Hn) & Hne). exists n. split; [exact E|]. apply filter_In. split; [exact Hn|].
    inversion E; subst. unfold keyne. apply negb_true_iff. apply Bool.not_true_iff_false. intro B. apply beq_eq in B. auto.
Qed.

Lemma beq_false_ne a b : beq a b = false <-> a <> b.
Proof. rewrite <- Bool.not_true_iff_false, beq_eq. tauto. Qed.

(** ---- the invariant is preserved, for every height ---- *)
Theorem sl_insert_inv s k v h : Inv s -> f_is_nan v = false -> Inv (snd (sl_insert s k v h)).
Proof.
  intros I Hv. destruct (sl_insert_char s k v h I) as [_ E]. rewrite E. clear E.
  set (l := filter (keyne k) (sl_nodes s)).
  assert (Sl : ssorted l) by (apply ss_filter, (inv_sorted s I)).
  assert (Nl : NoDup (map n_key l)) by (apply nodup_keys_filter, (inv_members s I)).
  assert (Kl : ~ In k (map n_key l)) by apply keyne_not_in.
  pose proof (take_drop (node_lt v k) l) as TD.
  constructor; cbn [sl_nodes sl_index sl_length sl_level sl_items].
  - apply ssorted_insert; [exact Sl|]. intros x Hx E. apply ncmp_eq_key in E. cbn [mknode n_key] in E.
    apply Kl. rewrite <- E. apply in_map, Hx.
  - rewrite map_app. cbn [map mknode n_key].
    apply (Permutation_NoDup (l := k :: map n_key l)).
    + rewrite <- TD at 1. rewrite map_app. apply Permutation_middle.
    + constructor; assumption.
  - unfold nonan_nodes. rewrite Forall_app. pose proof (inv_nonan s I) as F. unfold nonan_nodes in F.
    assert (Fl : Forall (fun n => f_is_nan (n_val n) = false) l).
    { rewrite Forall_forall in *. intros x Hx. apply filter_In in Hx as [Hx _]. auto. }
    rewrite <- TD in Fl. rewrite Forall_app in Fl. destruct Fl as [Fa Fb].
    split; [exact Fa|]. constructor; [exact Hv|exact Fb].
  - intros m sc. rewrite alookup_aset. unfold sl_items. cbn [sl_nodes]. rewrite map_app. cbn [map mknode n_key n_val].
    rewrite in_app_iff. cbn [In].
    assert (Hmem : In (m, sc) (map (fun n => (n_key n, n_val n)) l) <->
                   In (m, sc) (map (fun n => (n_key n, n_val n)) (take_while (node_lt v k) l))
                   \/ In (m, sc) (map (fun n => (n_key n, n_val n)) (dropw (node_lt v k) l))).
    { rewrite <- TD at 1. rewrite map_app, in_app_iff. tauto. }
    destruct (beq m k) eqn:B.
    + apply beq_eq in B. subst m. split.
      * intro H. inversion H. subst. right. left. reflexivity.
      * intros [H|[H|H]].
        -- exfalso. assert (In (k, sc) (map (fun n => (n_key n, n_val n)) l)) as H' by (apply Hmem; left; exact H).
           apply kv_filter_In in H'. tauto.
        -- inversion H. reflexivity.
        -- exfalso. assert (In (k, sc) (map (fun n => (n_key n, n_val n)) l)) as H' by (apply Hmem; right; exact H).
           apply kv_filter_In in H'. tauto.
    + apply beq_false_ne in B. rewrite (inv_index s I). unfold sl_items. split.
      * intro H. assert (In (m, sc) (map (fun n => (n_key n, n_val n)) l)) as H' by (apply kv_filter_In; tauto).
        apply Hmem in H'. tauto.
      * intros [H|[H|H]].
        -- assert (In (m, sc) (map (fun n => (n_key n, n_val n)) l)) as H' by (apply Hmem; left; exact H).
           apply kv_filter_In in H'. tauto.
        -- inversion H. congruence.
        -- assert (In (m, sc) (map (fun n => (n_key n, n_val n)) l)) as H' by (apply Hmem; right; exact H).
           apply kv_filter_In in H'. tauto.
  - apply aset_keys_nodup, (inv_index_keys s I).
  - rewrite len_app, len_cons. rewrite <- TD at 1. rewrite len_app. lia.
  - rewrite max_lvl_app, max_lvl_cons. cbn [mknode n_lvl]. rewrite <- TD at 1. rewrite max_lvl_app. lia.
Qed.

Theorem sl_remove_inv s k : Inv s -> Inv (snd (sl_remove s k)).
Proof.
  intro I. destruct (sl_remove_char s k I) as [_ E]. rewrite E. clear E.
  destruct (alookup k (sl_index s)) as [old|] eqn:L; [|exact I].
  cbv zeta. constructor; cbn [sl_nodes sl_index sl_length sl_level sl_items].
  - apply ss_filter, (inv_sorted s I).
  - apply nodup_keys_filter, (inv_members s I).
  - pose proof (inv_nonan s I) as F. unfold nonan_nodes in *. rewrite Forall_forall in *.
    intros x Hx. apply filter_In in Hx as [Hx _]. auto.
  - intros m sc. unfold sl_items at 1. cbn [sl_nodes]. rewrite alookup_aremove, kv_filter_In. destruct (beq m k) eqn:B.
    + apply beq_eq in B. split; [discriminate|tauto].
    + apply beq_false_ne in B. rewrite (inv_index s I). unfold sl_items. tauto.
  - apply aremove_keys_nodup, (inv_index_keys s I).
  - reflexivity.
  - reflexivity.
Qed.

(** ---- refinement to the sorted-list specification ---- *)
Definition kv (n : node) : elt := (n_key n, n_val n).
Lemma sl_items_kv s : sl_items s = map kv (sl_nodes s).
Proof. reflexivity. Qed.

Lemma items_filter k l : map kv (filter (keyne k) l) = zs_remove k (map kv l).
Proof.
  induction l as [|n l IH]; cbn [filter map zs_remove]; [reflexivity|].
  unfold keyne at 1. cbn [kv fst]. destruct (beq (n_key n) k); cbn [negb map]; [exact IH|f_equal; exact IH].
Qed.

Lemma fkey_nonan v : f_is_nan v = false -> fkey v = f_ord v.
Proof. unfold fkey. intros ->. reflexivity. Qed.
Lemma ncmp_elt_cmp a b : f_is_nan (n_val a) = false -> f_is_nan (n_val b) = false ->
  ncmp a b = elt_cmp (kv a) (kv b).
Proof.
  intros Ha Hb. rewrite ncmp_lex. unfold nkey, lexcmp, elt_cmp, kv. cbn [fst snd].
  rewrite !fkey_nonan by assumption. reflexivity.
Qed.
Lemma node_lt_elt_ltb v k n : f_is_nan (n_val n) = false -> f_is_nan v = false ->
  node_lt v k n = elt_ltb (kv n) (k, v).
Proof.
  intros Hn Hv. rewrite node_lt_ncmp. unfold elt_ltb.
  rewrite (ncmp_elt_cmp n (mknode k v 0) Hn Hv). reflexivity.
Qed.

Lemma items_place v k h l : nonan_nodes l -> f_is_nan v = false ->
  map kv (take_while (node_lt v k) l ++ mknode k v h :: dropw (node_lt v k) l) = zs_place (k, v) (map kv l).
Proof.
  intros F Hv. induction F as [|n l Hn F IH]; cbn [take_while dropw app map zs_place]; [reflexivity|].
  rewrite (node_lt_elt_ltb v k n Hn Hv). destruct (elt_ltb (kv n) (k, v)); cbn [app map].
  - f_equal. exact IH.
  - reflexivity.
Qed.

Lemma alookup_zs_lookup m (l : list elt) : alookup m l = zs_lookup m l.
Proof. induction l as [|[k s] l IH]; cbn; [reflexivity|]. destruct (beq m k); auto. Qed.
Lemma zs_lookup_some_In m sc (l : list elt) : zs_lookup m l = Some sc -> In (m, sc) l.
Proof.
  induction l as [|[k s] l IH]; cbn [zs_lookup]; [discriminate|].
  destruct (beq m k) eqn:B; intro H.
  - apply beq_eq in B. inversion H. subst. left. reflexivity.
  - right. auto.
Qed.
Lemma zs_lookup_In m sc (l : list elt) : NoDup (map fst l) -> In (m, sc) l -> zs_lookup m l = Some sc.
Proof.
  induction l as [|[k s] l IH]; intros N H; [destruct H|].
  cbn [map fst] in N. inversion N as [|? ? Hn Hd]; subst. cbn [zs_lookup].
  destruct H as [E|H].
  - inversion E. subst. rewrite beq_refl. reflexivity.
  - destruct (beq m k) eqn:B; [|auto]. apply beq_eq in B. subst. exfalso. apply Hn.
    change k with (fst (k, sc)). apply in_map, H.
Qed.
Lemma items_keys l : map fst (map kv l) = map n_key l.
Proof. rewrite map_map. reflexivity. Qed.

Lemma index_lookup_items s m : Inv s -> alookup m (sl_index s) = zs_lookup m (sl_items s).
Proof.
  intro I. destruct (alookup m (sl_index s)) as [sc|] eqn:L.
  - apply (inv_index s I) in L. symmetry. apply zs_lookup_In; [|exact L].
    rewrite sl_items_kv, items_keys. apply (inv_members s I).
  - destruct (zs_lookup m (sl_items s)) as [sc|] eqn:Z; [|reflexivity].
    apply zs_lookup_some_In in Z. apply (inv_index s I) in Z. congruence.
Qed.

(** insert = "remove the member, then place (member, score) in order"; the old score is reported *)
Theorem sl_insert_refines s k v h : Inv s -> f_is_nan v = false ->
  sl_items (snd (sl_insert s k v h)) = zs_add k v (sl_items s) /\
  fst (sl_insert s k v h) = zs_lookup k (sl_items s).
Proof.
  intros I Hv. destruct (sl_insert_char s k v h I) as [E1 E2]. split.
  - rewrite E2. rewrite sl_items_kv. cbn [sl_nodes]. unfold zs_add.
    rewrite sl_items_kv, <- items_filter. apply items_place; [|exact Hv].
    pose proof (inv_nonan s I) as F. unfold nonan_nodes in *. rewrite Forall_forall in *.
    intros x Hx. apply filter_In in Hx as [Hx _]. auto.
  - rewrite E1. apply index_lookup_items, I.
Qed.

Lemma zs_remove_absent k (l : list elt) : zs_lookup k l = None -> zs_remove k l = l.
Proof.
  induction l as [|[m s] l IH]; cbn [zs_lookup zs_remove fst]; [reflexivity|].
  destruct (beq k m) eqn:B; [discriminate|]. intro H.
  assert (beq m k = false) as ->.
  { apply beq_false_ne. apply beq_false_ne in B. congruence. }
  f_equal. auto.
Qed.

Theorem sl_remove_refines s k : Inv s ->
  sl_items (snd (sl_remove s k)) = zs_remove k (sl_items s) /\
  fst (sl_remove s k) = zs_lookup k (sl_items s).
Proof.
  intro I. destruct (sl_remove_char s k I) as [E1 E2]. split.
  - rewrite E2. pose proof (index_lookup_items s k I) as L.
    destruct (alookup k (sl_index s)) as [old|].
    + cbv zeta. rewrite !sl_items_kv. cbn [sl_nodes]. apply items_filter.
    + symmetry. apply zs_remove_absent. congruence.
  - rewrite E1. apply index_lookup_items, I.
Qed.

(** the abstract state of a list satisfying the invariant is a well-formed sorted set *)
Lemma inv_zs_ok s : Inv s -> zs_ok (sl_items s).
Proof.
  intro I. rewrite sl_items_kv. repeat split.
  - pose proof (inv_sorted s I) as S. pose proof (inv_nonan s I) as F. unfold zs_sorted, ssorted, nonan_nodes in *.
    induction S as [|a l Hs IH Hf]; cbn [map]; [constructor|].
    inversion F as [|? ? Ha Fl]; subst. constructor; [auto|].
    rewrite Forall_forall in *. intros e He. apply in_map_iff in He as (b & <- & Hb).
    rewrite <- ncmp_elt_cmp; auto.
  - unfold zs_members. rewrite items_keys. apply (inv_members s I).
  - unfold zs_nonan. rewrite Forall_map. apply (inv_nonan s I).
Qed.

(** ... and every well-formed sorted set is the abstract state of a list satisfying the invariant *)
Definition sl_of_items (z : list elt) : sl :=
  {| sl_nodes := map (fun p => mknode (fst p) (snd p) 0) z; sl_index := z; sl_length := len z; sl_level := O |}.
Lemma sl_of_items_items z : sl_items (sl_of_items z) = z.
Proof.
  unfold sl_items, sl_of_items. cbn [sl_nodes]. rewrite map_map. cbn [mknode n_key n_val].
  rewrite <- (map_id z) at 2. apply map_ext. intros [a b]. reflexivity.
Qed.
Lemma alookup_In_iff m sc (l : list elt) : NoDup (map fst l) -> (alookup m l = Some sc <-> In (m, sc) l).
Proof.
  intro N. rewrite alookup_zs_lookup. split; [apply zs_lookup_some_In|apply zs_lookup_In, N].
Qed.
Lemma zs_ok_inv z : zs_ok z -> Inv (sl_of_items z).
Proof.
  intros (S & N & F). constructor.
  - cbn [sl_of_items sl_nodes]. unfold ssorted, zs_sorted, zs_nonan in *.
    induction S as [|a l Hs IH Hf]; cbn [map]; [constructor|].
    inversion F as [|? ? Ha Fl]; subst. cbn [zs_members map] in N. inversion N; subst.
    constructor; [apply IH; assumption|].
    rewrite Forall_forall in *. intros n Hn. apply in_map_iff in Hn as (b & <- & Hb).
    rewrite ncmp_elt_cmp; cbn [mknode n_val]; auto. unfold kv. cbn [mknode n_key n_val].
    destruct a, b. cbn [fst snd]. apply Hf in Hb. exact Hb.
  - cbn [sl_of_items sl_nodes]. rewrite map_map. cbn [mknode n_key]. exact N.
  - cbn [sl_of_items sl_nodes]. unfold nonan_nodes. rewrite Forall_map. cbn [mknode n_val]. exact F.
  - intros m sc. rewrite sl_of_items_items. cbn [sl_of_items sl_index]. apply alookup_In_iff, N.
  - exact N.
  - cbn [sl_of_items sl_nodes sl_length]. unfold len. rewrite map_length. reflexivity.
  - cbn [sl_of_items sl_nodes sl_level]. clear. induction z as [|a z IH]; cbn; [reflexivity|]. fold (max_lvl (map (fun p => mknode (fst p) (snd p) 0) z)). rewrite <- IH. reflexivity.
Qed.

(** consequences at the specification level *)
Theorem zs_add_ok m v z : zs_ok z -> f_is_nan v = false -> zs_ok (zs_add m v z).
Proof.
  intros Z Hv. pose proof (zs_ok_inv z Z) as I.
  destruct (sl_insert_refines (sl_of_items z) m v 0 I Hv) as [E _].
  rewrite sl_of_items_items in E. rewrite <- E. apply inv_zs_ok. apply sl_insert_inv; assumption.
Qed.
Theorem zs_remove_ok m z : zs_ok z -> zs_ok (zs_remove m z).
Proof.
  intro Z. pose proof (zs_ok_inv z Z) as I.
  destruct (sl_remove_refines (sl_of_items z) m I) as [E _].
  rewrite sl_of_items_items in E. rewrite <- E. apply inv_zs_ok. apply sl_remove_inv; assumption.
Qed.

Lemma zs_lookup_remove_same m z : zs_lookup m (zs_remove m z) = None.
Proof.
  induction z as [|[k s] z IH]; cbn [zs_remove zs_lookup fst]; [reflexivity|].
  destruct (beq k m) eqn:B; [exact IH|]. cbn [zs_lookup].
  assert (beq m k = false) as -> by (apply beq_false_ne; apply beq_false_ne in B; congruence). exact IH.
Qed.
Lemma zs_lookup_remove_other m m' z : m' <> m -> zs_lookup m' (zs_remove m z) = zs_lookup m' z.
Proof.
  intro Hne. induction z as [|[k s] z IH]; cbn [zs_remove zs_lookup fst]; [reflexivity|].
  destruct (beq k m) eqn:B.
  - apply beq_eq in B. subst. assert (beq m' m = false) as -> by (apply beq_false_ne; exact Hne). exact IH.
  - cbn [zs_lookup]. destruct (beq m' k); [reflexivity|exact IH].
Qed.
Lemma zs_lookup_place_same m v z : zs_lookup m z = None -> zs_lookup m (zs_place (m, v) z) = Some v.
Proof.
  induction z as [|[k s] z IH]; cbn [zs_place zs_lookup]; intro H.
  - rewrite beq_refl. reflexivity.
  - destruct (beq m k) eqn:B; [discriminate|]. destruct (elt_ltb (k, s) (m, v)); cbn [zs_lookup].
    + rewrite B. auto.
    + rewrite beq_refl. reflexivity.
Qed.
Lemma zs_lookup_place_other m m' v z : m' <> m -> zs_lookup m' (zs_place (m, v) z) = zs_lookup m' z.
Proof.
  intro Hne. assert (beq m' m = false) as Bm by (apply beq_false_ne; exact Hne).
  induction z as [|[k s] z IH]; cbn [zs_place zs_lookup].
  - rewrite Bm. reflexivity.
  - destruct (elt_ltb (k, s) (m, v)); cbn [zs_lookup].
    + destruct (beq m' k); [reflexivity|exact IH].
    + rewrite Bm. reflexivity.
Qed.
(** latest score wins; other members keep theirs *)
Theorem zs_lookup_add_same m v z : zs_lookup m (zs_add m v z) = Some v.
Proof. apply zs_lookup_place_same, zs_lookup_remove_same. Qed.
Theorem zs_lookup_add_other m m' v z : m' <> m -> zs_lookup m' (zs_add m v z) = zs_lookup m' z.
Proof. intro H. unfold zs_add. rewrite zs_lookup_place_other, zs_lookup_remove_other; auto. Qed.

(** ---- ranks ---- *)
Lemma option_map_add_add acc (x : option Z) :
  option_map (Z.add acc) (option_map (Z.add 1) x) = option_map (Z.add (acc + 1)) x.
Proof. destruct x; cbn [option_map]; [f_equal; lia|reflexivity]. Qed.

Lemma rank_walk_member l : forall t acc, ssorted l -> NoDup (map n_key l) -> In t l ->
  rank_walk (n_val t) (n_key t) l acc = option_map (Z.add acc) (zs_rank (n_key t) (map kv l)).
Proof.
  induction l as [|a l IH]; intros t acc S N Hin; [destruct Hin|].
  inversion S as [|? ? Sl Hf]; subst. cbn [map] in N. inversion N as [|? ? Hn Nl]; subst.
  cbn [rank_walk map zs_rank]. fold (ncmp a t). cbn [kv fst].
  destruct Hin as [->|Hin].
  - rewrite ncmp_refl, beq_refl. cbn. f_equal. lia.
  - rewrite Forall_forall in Hf. rewrite (Hf t Hin).
    assert (beq (n_key a) (n_key t) = false) as ->.
    { apply beq_false_ne. intro E. apply Hn. rewrite E. apply in_map, Hin. }
    rewrite IH by assumption. symmetry. apply option_map_add_add.
Qed.

Lemma zs_rank_absent m (l : list elt) : ~ In m (map fst l) -> zs_rank m l = None.
Proof.
  induction l as [|e l IH]; cbn [map zs_rank In]; intro H; [reflexivity|].
  assert (beq (fst e) m = false) as -> by (apply beq_false_ne; tauto).
  rewrite IH by tauto. reflexivity.
Qed.

(** get_rank is the position in the sorted order *)
Theorem sl_get_rank_spec s m : Inv s -> sl_get_rank s m = zs_rank m (sl_items s).
Proof.
  intro I. unfold sl_get_rank. destruct (alookup m (sl_index s)) as [sc|] eqn:L.
  - apply (inv_index s I) in L. apply items_In in L as (t & Ht & <- & <-).
    rewrite (rank_walk_member (sl_nodes s) t 0 (inv_sorted s I) (inv_members s I) Ht).
    rewrite sl_items_kv. destruct (zs_rank (n_key t) (map kv (sl_nodes s))); reflexivity.
  - symmetry. apply zs_rank_absent. intro H. apply in_map_iff in H as ([k sc] & E & H).
    cbn [fst] in E. subst k. apply (inv_index s I) in H. congruence.
Qed.

Lemma zs_rank_nth (l : list elt) m : forall i, NoDup (map fst l) ->
  (zs_rank m l = Some i <-> 0 <= i /\ nth_error (map fst l) (Z.to_nat i) = Some m).
Proof.
  induction l as [|e l IH]; intros i N.
  - cbn. split; [discriminate|]. intros [_ H]. destruct (Z.to_nat i); discriminate.
  - cbn [map] in N. inversion N as [|? ? Hn Nl]; subst. cbn [zs_rank map].
    destruct (beq (fst e) m) eqn:B.
    + apply beq_eq in B. split.
      * intro H. inversion H. subst. split; [lia|]. reflexivity.
      * intros [H0 H]. destruct (Z.to_nat i) eqn:E; [f_equal; lia|].
        cbn [nth_error] in H. apply nth_error_In in H. subst m. contradiction.
    + apply beq_false_ne in B. destruct (zs_rank m l) as [j|] eqn:R; cbn [option_map].
      * destruct (proj1 (IH j Nl) eq_refl) as [Hj Hn']. split.
        -- intro H. assert (i = 1 + j) by congruence. subst i. split; [lia|].
           replace (Z.to_nat (1 + j)) with (S (Z.to_nat j)) by lia. exact Hn'.
        -- intros [H0 H]. destruct (Z.to_nat i) eqn:E; [cbn in H; congruence|].
           cbn [nth_error] in H. assert (Some j = Some (i - 1)) as R'.
           { apply IH; [exact Nl|]. split; [lia|]. replace (Z.to_nat (i - 1)) with n by lia. exact H. }
           assert (j = i - 1) by congruence. f_equal. lia.
      * split; [discriminate|]. intros [H0 H]. destruct (Z.to_nat i) eqn:E; [cbn in H; congruence|].
        cbn [nth_error] in H. assert (@None Z = Some (i - 1)) as R'.
        { apply IH; [exact Nl|]. split; [lia|]. replace (Z.to_nat (i - 1)) with n by lia. exact H. }
        discriminate.
Qed.

Lemma sl_range_all s : sl_length s = len (sl_nodes s) ->
  sl_range_by_rank s 0 (sl_length s - 1) = sl_nodes s.
Proof.
  intro E. unfold sl_range_by_rank. rewrite E. destruct (len (sl_nodes s) <=? 0) eqn:C.
  - apply Z.leb_le in C. unfold len in C. destruct (sl_nodes s); [reflexivity|cbn in C; lia].
  - cbn [Z.to_nat skipn]. replace (Z.to_nat (Z.min (len (sl_nodes s) - 1 + 1) (len (sl_nodes s)) - 0)) with (length (sl_nodes s)) by (unfold len; lia).
    apply firstn_all.
Qed.

(** rank and range agree: m has rank i iff it is the i-th member of the full range *)
Theorem sl_rank_range_agree s m i : Inv s ->
  (sl_get_rank s m = Some i <->
   0 <= i /\ nth_error (map n_key (sl_range_by_rank s 0 (sl_length s - 1))) (Z.to_nat i) = Some m).
Proof.
  intro I. rewrite sl_get_rank_spec by exact I. rewrite sl_range_all by apply (inv_length s I).
  rewrite <- items_keys, <- sl_items_kv. apply zs_rank_nth.
  rewrite sl_items_kv, items_keys. apply (inv_members s I).
Qed.

(** ---- score ranges ---- *)
Lemma filter_none {A} (p : A -> bool) l : forallb (fun x => negb (p x)) l = true -> filter p l = [].
Proof.
  induction l as [|x l IH]; cbn [forallb filter]; intro H; [reflexivity|].
  apply andb_prop in H as [Hx Hl]. apply negb_true_iff in Hx. rewrite Hx. auto.
Qed.
Lemma mono_take_filter {A} (p : A -> bool) l : mono p l -> take_while p l = filter p l.
Proof.
  unfold mono. induction l as [|x l IH]; cbn [dropw take_while filter]; intro M; [reflexivity|].
  destruct (p x) eqn:E.
  - f_equal. auto.
  - cbn [forallb] in M. apply andb_prop in M as [_ M]. symmetry. apply filter_none, M.
Qed.
Lemma mono_drop_filter {A} (p : A -> bool) l : mono p l -> dropw p l = filter (fun x => negb (p x)) l.
Proof.
  unfold mono. induction l as [|x l IH]; cbn [dropw filter]; intro M; [reflexivity|].
  destruct (p x) eqn:E; cbn [negb].
  - auto.
  - cbn [forallb] in M. apply andb_prop in M as [_ M]. f_equal. symmetry. apply filter_id.
    rewrite forallb_forall in M. exact M.
Qed.

Lemma ncmp_lt_ord a b : f_is_nan (n_val a) = false -> f_is_nan (n_val b) = false ->
  ncmp a b = Lt -> f_ord (n_val a) <= f_ord (n_val b).
Proof.
  intros Ha Hb. rewrite (ncmp_elt_cmp a b Ha Hb). unfold elt_cmp, kv. cbn [fst snd].
  destruct (Z.compare_spec (f_ord (n_val a)) (f_ord (n_val b))); try discriminate; intros _; lia.
Qed.

(** a predicate on scores that is closed downwards holds on a prefix of a sorted list *)
Lemma mono_downclosed (pv : Z -> bool) l :
  (forall a b, f_is_nan a = false -> f_is_nan b = false -> f_ord a <= f_ord b -> pv b = true -> pv a = true) ->
  ssorted l -> nonan_nodes l -> mono (fun n => pv (n_val n)) l.
Proof.
  intros D S F. unfold mono. induction S as [|a l Sl IH Hf]; [reflexivity|].
  inversion F as [|? ? Ha Fl]; subst. cbn [dropw]. destruct (pv (n_val a)) eqn:E; [auto|].
  cbn [forallb]. rewrite E. cbn [negb andb]. apply forallb_forall. intros x Hx.
  rewrite Forall_forall in Hf, Fl. destruct (pv (n_val x)) eqn:Ex; [|reflexivity].
  rewrite (D (n_val a) (n_val x) Ha (Fl x Hx) (ncmp_lt_ord a x Ha (Fl x Hx) (Hf x Hx)) Ex) in E. discriminate.
Qed.

Lemma f_lt_down mn a b : f_is_nan a = false -> f_is_nan b = false -> f_ord a <= f_ord b ->
  f_lt b mn = true -> f_lt a mn = true.
Proof.
  unfold f_lt, f_pcmp. intros Ha Hb Hle. rewrite Ha, Hb. cbn [orb]. destruct (f_is_nan mn); [discriminate|].
  destruct (Z.compare_spec (f_ord b) (f_ord mn)); try discriminate. intros _.
  destruct (Z.compare_spec (f_ord a) (f_ord mn)); try reflexivity; lia.
Qed.
Lemma f_le_down mx a b : f_is_nan a = false -> f_is_nan b = false -> f_ord a <= f_ord b ->
  f_le b mx = true -> f_le a mx = true.
Proof.
  unfold f_le, f_pcmp. intros Ha Hb Hle. rewrite Ha, Hb. cbn [orb]. destruct (f_is_nan mx); [discriminate|].
  destruct (Z.compare_spec (f_ord b) (f_ord mx)); try discriminate; intros _;
  destruct (Z.compare_spec (f_ord a) (f_ord mx)); try reflexivity; lia.
Qed.
Lemma f_lt_negb_le v mn : f_is_nan v = false -> f_is_nan mn = false -> negb (f_lt v mn) = f_le mn v.
Proof.
  intros Hv Hm. unfold f_lt, f_le, f_pcmp. rewrite Hv, Hm. cbn [orb].
  rewrite (Z.compare_antisym (f_ord v) (f_ord mn)). destruct (f_ord v ?= f_ord mn); reflexivity.
Qed.

Lemma filter_filter {A} (p q : A -> bool) l : filter p (filter q l) = filter (fun x => q x && p x) l.
Proof.
  induction l as [|x l IH]; cbn [filter]; [reflexivity|].
  destruct (q x); cbn [filter andb]; [destruct (p x); [f_equal|]; exact IH|exact IH].
Qed.
Lemma filter_map_kv (p : elt -> bool) l : map kv (filter (fun n => p (kv n)) l) = filter p (map kv l).
Proof.
  induction l as [|n l IH]; cbn [filter map]; [reflexivity|].
  destruct (p (kv n)); cbn [map]; [f_equal|]; exact IH.
Qed.
Lemma filter_ext_in' {A} (p q : A -> bool) l : (forall x, In x l -> p x = q x) -> filter p l = filter q l.
Proof.
  induction l as [|x l IH]; intro H; cbn [filter]; [reflexivity|].
  rewrite (H x (or_introl eq_refl)). rewrite IH by (intros; apply H; right; auto). reflexivity.
Qed.

(** range_by_score (tower walk over `value < min`, then collect while `value <= max`)
    returns exactly the members whose score lies in [min, max], in order *)
Theorem sl_range_by_score_spec s mn mx : Inv s -> f_is_nan mn = false ->
  map kv (sl_range_by_score s mn mx) = zs_byscore mn mx (sl_items s).
Proof.
  intros I Hmn. unfold sl_range_by_score.
  pose proof (inv_sorted s I) as S. pose proof (inv_nonan s I) as F.
  assert (M1 : mono (fun n => f_lt (n_val n) mn) (sl_nodes s)).
  { apply (mono_downclosed (fun v => f_lt v mn)); [apply f_lt_down|exact S|exact F]. }
  rewrite search_take_while by exact M1.
  rewrite <- (take_drop (fun n => f_lt (n_val n) mn) (sl_nodes s)) at 2. rewrite skipn_len_app.
  rewrite mono_drop_filter by exact M1.
  set (l' := filter (fun x => negb (f_lt (n_val x) mn)) (sl_nodes s)).
  assert (M2 : mono (fun n => f_le (n_val n) mx) l').
  { apply (mono_downclosed (fun v => f_le v mx)); [apply f_le_down|apply ss_filter, S|].
    unfold nonan_nodes in *. rewrite Forall_forall in *. intros x Hx. apply filter_In in Hx as [Hx _]. auto. }
  rewrite mono_take_filter by exact M2. unfold l'. rewrite filter_filter.
  unfold zs_byscore. rewrite sl_items_kv, <- filter_map_kv. f_equal.
  apply filter_ext_in'. intros x Hx. unfold kv. cbn [snd].
  unfold nonan_nodes in F. rewrite Forall_forall in F. rewrite f_lt_negb_le by auto. reflexivity.
Qed.
