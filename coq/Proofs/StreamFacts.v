(** Lemmas for C15: stream IDs, the sorted entry vector, binary searches and ranges,
    ID generation, the stream invariant over histories. *)
From Ferrous Require Import Base.Bytes Model.Resp Model.Types Model.Strings Model.Streams Proofs.BytesFacts.
From Coq Require Import Sorting.Sorted.
Open Scope Z_scope.

(** ---- the order on stream IDs ---- *)
Definition sid_lt (a b : sid) : Prop := fst a < fst b \/ (fst a = fst b /\ snd a < snd b).
Definition sid_le (a b : sid) : Prop := sid_lt a b \/ a = b.

Lemma sid_cmp_lt a b : sid_cmp a b = Lt <-> sid_lt a b.
Proof.
  destruct a as [a1 a2], b as [b1 b2]. unfold sid_cmp, sid_lt. cbn [fst snd].
  destruct (Z.compare_spec a1 b1); [destruct (Z.compare_spec a2 b2)| |]; split; intros HH; try discriminate; try lia; reflexivity.
Qed.
Lemma sid_cmp_eq a b : sid_cmp a b = Eq <-> a = b.
Proof.
  destruct a as [a1 a2], b as [b1 b2]. unfold sid_cmp. cbn [fst snd].
  destruct (Z.compare_spec a1 b1); [destruct (Z.compare_spec a2 b2)| |]; split; intros HH; try discriminate;
    try (inversion HH; lia); subst; reflexivity.
Qed.
Lemma sid_cmp_gt a b : sid_cmp a b = Gt <-> sid_lt b a.
Proof.
  destruct a as [a1 a2], b as [b1 b2]. unfold sid_cmp, sid_lt. cbn [fst snd].
  destruct (Z.compare_spec a1 b1); [destruct (Z.compare_spec a2 b2)| |]; split; intros HH; try discriminate; try lia; reflexivity.
Qed.
Lemma sid_ltb_lt a b : sid_ltb a b = true <-> sid_lt a b.
Proof. unfold sid_ltb. rewrite <- sid_cmp_lt. destruct (sid_cmp a b); split; congruence. Qed.
Lemma sid_eqb_eq a b : sid_eqb a b = true <-> a = b.
Proof. unfold sid_eqb. rewrite <- sid_cmp_eq. destruct (sid_cmp a b); split; congruence. Qed.
Lemma sid_leb_le a b : sid_leb a b = true <-> sid_le a b.
Proof.
  unfold sid_leb, sid_le. rewrite <- sid_cmp_lt, <- sid_cmp_eq.
  destruct (sid_cmp a b) eqn:E; split; intros H; try congruence; auto.
  destruct H; congruence.
Qed.
Lemma sid_ltb_nlt a b : sid_ltb a b = false <-> sid_le b a.
Proof.
  unfold sid_ltb, sid_le. rewrite <- sid_cmp_gt.
  destruct (sid_cmp a b) eqn:E; split; intros H; try congruence; auto.
  - right. symmetry. apply sid_cmp_eq; assumption.
  - destruct H as [H|H]; [congruence|]. subst. assert (sid_cmp a a = Eq) by (apply sid_cmp_eq; reflexivity). congruence.
Qed.
Lemma sid_leb_nle a b : sid_leb a b = false <-> sid_lt b a.
Proof. unfold sid_leb. rewrite <- sid_cmp_gt. destruct (sid_cmp a b); split; congruence. Qed.
Lemma sid_eqb_refl a : sid_eqb a a = true.
Proof. apply sid_eqb_eq. reflexivity. Qed.
Lemma sid_eqb_sym a b : sid_eqb a b = sid_eqb b a.
Proof.
  destruct (sid_eqb a b) eqn:E1, (sid_eqb b a) eqn:E2; try reflexivity.
  - apply sid_eqb_eq in E1. subst. rewrite sid_eqb_refl in E2. discriminate.
  - apply sid_eqb_eq in E2. subst. rewrite sid_eqb_refl in E1. discriminate.
Qed.

Lemma sid_lt_irrefl a : ~ sid_lt a a.
Proof. unfold sid_lt. lia. Qed.
Lemma sid_lt_trans a b c : sid_lt a b -> sid_lt b c -> sid_lt a c.
Proof. unfold sid_lt. lia. Qed.
Lemma sid_le_lt_trans a b c : sid_le a b -> sid_lt b c -> sid_lt a c.
Proof. intros [H| ->]; [apply sid_lt_trans; assumption|auto]. Qed.
Lemma sid_lt_le_trans a b c : sid_lt a b -> sid_le b c -> sid_lt a c.
Proof. intros H [H1|<-]; [eapply sid_lt_trans; eassumption|auto]. Qed.
Lemma sid_le_trans a b c : sid_le a b -> sid_le b c -> sid_le a c.
Proof. intros [H| ->] H2; [left; eapply sid_lt_le_trans; eassumption|assumption]. Qed.
Lemma sid_le_refl a : sid_le a a.
Proof. right; reflexivity. Qed.
Lemma sid_lt_asym a b : sid_lt a b -> ~ sid_lt b a.
Proof. unfold sid_lt. lia. Qed.
Lemma sid_lt_not_le a b : sid_lt a b -> ~ sid_le b a.
Proof. intros H [H1|H1]; [eapply sid_lt_asym; eassumption|subst; eapply sid_lt_irrefl; eassumption]. Qed.
Lemma sid_total a b : sid_lt a b \/ a = b \/ sid_lt b a.
Proof.
  destruct (sid_cmp a b) eqn:E.
  - right; left. apply sid_cmp_eq; assumption.
  - left. apply sid_cmp_lt; assumption.
  - right; right. apply sid_cmp_gt; assumption.
Qed.

(** ---- sorted entry vectors ---- *)
Definition elt (a b : sentry) : Prop := sid_lt (fst a) (fst b).
Definition sorted (es : list sentry) : Prop := StronglySorted elt es.

Lemma sorted_nil : sorted [].
Proof. constructor. Qed.
Lemma sorted_cons_inv e es : sorted (e :: es) -> sorted es /\ Forall (elt e) es.
Proof. intros H. inversion H; subst. auto. Qed.
Lemma sorted_app_last es e :
  sorted es -> Forall (fun x => sid_lt (fst x) (fst e)) es -> sorted (es ++ [e]).
Proof.
  induction es as [|x es IH]; intros Hs Hf; cbn [app].
  - constructor; [constructor|constructor].
  - apply sorted_cons_inv in Hs as [Hs Hx]. inversion Hf; subst. constructor.
    + apply IH; assumption.
    + apply Forall_app. split; [assumption|]. constructor; [assumption|constructor].
Qed.
Lemma sorted_filter p es : sorted es -> sorted (filter p es).
Proof.
  induction es as [|x es IH]; intros Hs; cbn [filter]; [constructor|].
  apply sorted_cons_inv in Hs as [Hs Hx]. destruct (p x); [|exact (IH Hs)].
  constructor; [exact (IH Hs)|]. apply Forall_forall. intros y Hy. apply filter_In in Hy as [Hy _].
  rewrite Forall_forall in Hx. auto.
Qed.
Lemma sorted_skipn n es : sorted es -> sorted (skipn n es).
Proof.
  revert es; induction n as [|n IH]; intros es Hs; [assumption|].
  destruct es as [|x es]; [constructor|]. cbn [skipn]. apply IH. apply sorted_cons_inv in Hs. tauto.
Qed.

(** a predicate that holds on a prefix of a sorted vector splits it *)
Definition down_closed (p : sentry -> bool) : Prop :=
  forall a b, elt a b -> p b = true -> p a = true.

Lemma filter_all_false {A} (p : A -> bool) l : Forall (fun x => p x = false) l -> filter p l = [].
Proof. induction 1 as [|x l Hx _ IH]; cbn [filter]; [reflexivity|]. rewrite Hx. assumption. Qed.
Lemma filter_all_true {A} (p : A -> bool) l : Forall (fun x => p x = true) l -> filter p l = l.
Proof. induction 1 as [|x l Hx _ IH]; cbn [filter]; [reflexivity|]. rewrite Hx, IH. reflexivity. Qed.

Lemma split_prefix p es : sorted es -> down_closed p ->
  es = filter p es ++ filter (fun e => negb (p e)) es.
Proof.
  intros Hs Hp. induction es as [|x es IH]; [reflexivity|].
  apply sorted_cons_inv in Hs as [Hs Hx]. cbn [filter]. destruct (p x) eqn:E; cbn [negb app].
  - f_equal. auto.
  - assert (Hall : Forall (fun y => p y = false) es).
    { apply Forall_forall. intros y Hy. rewrite Forall_forall in Hx. specialize (Hx y Hy).
      destruct (p y) eqn:E2; [|reflexivity]. rewrite (Hp x y Hx E2) in E. discriminate. }
    rewrite (filter_all_false p es Hall). cbn [app]. f_equal.
    symmetry. apply filter_all_true. eapply Forall_impl; [|exact Hall]. cbn. intros a ->. reflexivity.
Qed.

Definition cnt (p : sentry -> bool) (es : list sentry) : Z := len (filter p es).

Lemma zfirstn_app_len {A} (a b : list A) : zfirstn (len a) (a ++ b) = a.
Proof.
  unfold zfirstn, len. rewrite Nat2Z.id. rewrite firstn_app, Nat.sub_diag, firstn_all. cbn. apply app_nil_r.
Qed.
Lemma zskipn_app_len {A} (a b : list A) : zskipn (len a) (a ++ b) = b.
Proof.
  unfold zskipn, len. rewrite Nat2Z.id. rewrite skipn_app, Nat.sub_diag, skipn_all. reflexivity.
Qed.

Lemma prefix_firstn p es : sorted es -> down_closed p -> zfirstn (cnt p es) es = filter p es.
Proof.
  intros Hs Hp. rewrite (split_prefix p es Hs Hp) at 2. unfold cnt. apply zfirstn_app_len.
Qed.
Lemma prefix_skipn p es : sorted es -> down_closed p ->
  zskipn (cnt p es) es = filter (fun e => negb (p e)) es.
Proof.
  intros Hs Hp. rewrite (split_prefix p es Hs Hp) at 2. unfold cnt. apply zskipn_app_len.
Qed.

Definition p_lt (x : sid) (e : sentry) : bool := sid_ltb (fst e) x.     (* id < x *)
Definition p_le (x : sid) (e : sentry) : bool := sid_leb (fst e) x.     (* id <= x *)

Lemma p_lt_down x : down_closed (p_lt x).
Proof.
  intros a b Hab Hb. unfold p_lt in *. apply sid_ltb_lt. apply sid_ltb_lt in Hb.
  eapply sid_lt_trans; eassumption.
Qed.
Lemma p_le_down x : down_closed (p_le x).
Proof.
  intros a b Hab Hb. unfold p_le in *. apply sid_leb_le. apply sid_leb_le in Hb. left.
  eapply sid_lt_le_trans; eassumption.
Qed.

(** ---- the binary search ---- *)
Lemma cnt_cons p x es : cnt p (x :: es) = (if p x then 1 else 0) + cnt p es.
Proof. unfold cnt. cbn [filter]. destruct (p x); [rewrite len_cons|]; lia. Qed.
Lemma cnt_nonneg p es : 0 <= cnt p es.
Proof. apply len_nonneg. Qed.
Lemma cnt_le_len p es : cnt p es <= len es.
Proof.
  induction es as [|x es IH]; [unfold cnt; cbn; lia|]. rewrite cnt_cons, len_cons. destruct (p x); lia.
Qed.

Lemma cnt_zero_of_gt p es : Forall (fun y => p y = false) es -> cnt p es = 0.
Proof. intros H. unfold cnt. rewrite filter_all_false by assumption. reflexivity. Qed.

(** on a sorted vector the search returns "found?" and the number of smaller IDs *)
Lemma bsearch_spec x es : sorted es ->
  bsearch x es = (has_id x es, cnt (p_lt x) es).
Proof.
  unfold has_id. induction es as [|e es IH]; intros Hs; [reflexivity|].
  apply sorted_cons_inv in Hs as [Hs He]. cbn [bsearch]. rewrite cnt_cons. unfold p_lt at 1.
  destruct (sid_cmp (fst e) x) eqn:E.
  - assert (sid_ltb (fst e) x = false) as -> by (unfold sid_ltb; rewrite E; reflexivity).
    cbn [fst]. f_equal. apply sid_cmp_eq in E. rewrite cnt_zero_of_gt; [reflexivity|].
    eapply Forall_impl; [|exact He]. intros y Hy. unfold p_lt. apply sid_ltb_nlt. left. rewrite <- E. exact Hy.
  - assert (sid_ltb (fst e) x = true) as -> by (unfold sid_ltb; rewrite E; reflexivity).
    rewrite (IH Hs). destruct (bsearch x es). cbn [fst snd]. reflexivity.
  - assert (sid_ltb (fst e) x = false) as -> by (unfold sid_ltb; rewrite E; reflexivity).
    cbn [fst]. f_equal. apply sid_cmp_gt in E. rewrite cnt_zero_of_gt; [reflexivity|].
    eapply Forall_impl; [|exact He]. intros y Hy. unfold p_lt. apply sid_ltb_nlt. left.
    eapply sid_lt_trans; eassumption.
Qed.

Lemma has_id_In x es : has_id x es = true -> exists f, In (x, f) es.
Proof.
  unfold has_id. induction es as [|e es IH]; cbn [bsearch]; [discriminate|].
  destruct (sid_cmp (fst e) x) eqn:E.
  - intros _. apply sid_cmp_eq in E. destruct e as [i f]. cbn in E. subst. exists f. left; reflexivity.
  - destruct (bsearch x es) as [b i]. cbn [fst]. intros H. destruct (IH H) as [f Hf]. exists f. right; assumption.
  - discriminate.
Qed.
Lemma has_id_false x es : sorted es -> has_id x es = false -> forall e, In e es -> fst e <> x.
Proof.
  unfold has_id. induction es as [|e es IH]; intros Hs H y Hy; [destruct Hy|].
  apply sorted_cons_inv in Hs as [Hs He]. cbn [bsearch] in H.
  destruct (sid_cmp (fst e) x) eqn:E.
  - discriminate.
  - destruct (bsearch x es) as [b i] eqn:Eb. cbn [fst] in H. destruct Hy as [<-|Hy].
    + intros Heq. apply sid_cmp_lt in E. rewrite Heq in E. eapply sid_lt_irrefl; eassumption.
    + apply IH; assumption.
  - apply sid_cmp_gt in E. destruct Hy as [<-|Hy].
    + intros Heq. rewrite Heq in E. eapply sid_lt_irrefl; eassumption.
    + rewrite Forall_forall in He. specialize (He y Hy). intros Heq. unfold elt in He. rewrite Heq in He.
      eapply sid_lt_irrefl. eapply sid_lt_trans; eassumption.
Qed.

(** number of IDs <= x = number of IDs < x, plus one when x is present *)
Lemma cnt_le_lt x es : sorted es ->
  cnt (p_le x) es = cnt (p_lt x) es + (if has_id x es then 1 else 0).
Proof.
  unfold has_id. induction es as [|e es IH]; intros Hs; [reflexivity|].
  apply sorted_cons_inv in Hs as [Hs He]. rewrite !cnt_cons. cbn [bsearch]. unfold p_le at 1, p_lt at 1.
  unfold sid_leb, sid_ltb. destruct (sid_cmp (fst e) x) eqn:E.
  - cbn [fst]. apply sid_cmp_eq in E.
    assert (Hall : Forall (fun y => sid_lt x (fst y)) es).
    { eapply Forall_impl; [|exact He]. intros y Hy. rewrite <- E. exact Hy. }
    rewrite !cnt_zero_of_gt; [lia| |].
    + eapply Forall_impl; [|exact Hall]. intros y Hy. unfold p_lt. apply sid_ltb_nlt. left; assumption.
    + eapply Forall_impl; [|exact Hall]. intros y Hy. unfold p_le. apply sid_leb_nle. assumption.
  - rewrite (IH Hs). destruct (bsearch x es). cbn [fst]. lia.
  - cbn [fst]. apply sid_cmp_gt in E.
    assert (Hall : Forall (fun y => sid_lt x (fst y)) es).
    { eapply Forall_impl; [|exact He]. intros y Hy. eapply sid_lt_trans; eassumption. }
    rewrite !cnt_zero_of_gt; [lia| |].
    + eapply Forall_impl; [|exact Hall]. intros y Hy. unfold p_lt. apply sid_ltb_nlt. left; assumption.
    + eapply Forall_impl; [|exact Hall]. intros y Hy. unfold p_le. apply sid_leb_nle. assumption.
Qed.

(** ---- ztake / take_count ---- *)
Lemma ztake_firstn {A} c (l : list A) : 0 <= c -> ztake c l = firstn (Z.to_nat c) l.
Proof.
  intros Hc. unfold ztake. destruct (len l <=? c) eqn:E; [|reflexivity].
  apply Z.leb_le in E. symmetry. apply firstn_all2. unfold len in E. lia.
Qed.

(** ---- XREAD: range_after = the entries with a greater ID ---- *)
Definition p_gt (x : sid) (e : sentry) : bool := sid_ltb x (fst e).
Definition in_range (st en : sid) (e : sentry) : bool := sid_leb st (fst e) && sid_leb (fst e) en.

Lemma filter_ext_in' {A} (p q : A -> bool) l : (forall x, In x l -> p x = q x) -> filter p l = filter q l.
Proof.
  induction l as [|x l IH]; intros H; cbn [filter]; [reflexivity|].
  rewrite (H x (or_introl eq_refl)). rewrite IH; [reflexivity|]. intros y Hy. apply H. right; assumption.
Qed.

Lemma neg_p_le x e : negb (p_le x e) = p_gt x e.
Proof.
  unfold p_le, p_gt. destruct (sid_leb (fst e) x) eqn:E; cbn [negb]; symmetry.
  - apply sid_leb_le in E. apply sid_ltb_nlt. assumption.
  - apply sid_leb_nle in E. apply sid_ltb_lt. assumption.
Qed.

Lemma range_after_spec es after count : sorted es ->
  st_range_after es after count = take_count count (filter (p_gt after) es).
Proof.
  intros Hs. unfold st_range_after. rewrite (bsearch_spec after es Hs).
  f_equal.
  assert (Hi : (if has_id after es then cnt (p_lt after) es + 1 else cnt (p_lt after) es) = cnt (p_le after) es).
  { rewrite (cnt_le_lt after es Hs). destruct (has_id after es); lia. }
  replace (match (has_id after es, cnt (p_lt after) es) with (true, i) => i + 1 | (false, i) => i end)
    with (cnt (p_le after) es) by (rewrite <- Hi; destruct (has_id after es); reflexivity).
  rewrite (prefix_skipn (p_le after) es Hs (p_le_down after)).
  apply filter_ext_in'. intros e _. apply neg_p_le.
Qed.

(** ---- XRANGE / XREVRANGE ---- *)
Definition range_spec (es : list sentry) (st en : sid) (count : option Z) (reverse : bool) : list sentry :=
  let sel := filter (in_range st en) es in
  take_count count (if reverse then rev sel else sel).

Lemma firstn_skipn_swap {A} (n m : nat) (l : list A) : firstn m (skipn n l) = skipn n (firstn (n + m) l).
Proof. apply firstn_skipn_comm. Qed.

Lemma cnt_filter_comm {A} (p q : A -> bool) es : filter p (filter q es) = filter q (filter p es).
Proof.
  induction es as [|x es IH]; [reflexivity|]. cbn [filter].
  destruct (q x) eqn:Eq, (p x) eqn:Ep; cbn [filter]; rewrite ?Eq, ?Ep, IH; reflexivity.
Qed.

Lemma filter_filter' {A} (p q : A -> bool) es : filter p (filter q es) = filter (fun x => p x && q x) es.
Proof.
  induction es as [|x es IH]; [reflexivity|]. cbn [filter].
  destruct (q x) eqn:Eq; cbn [filter]; [destruct (p x); cbn [andb]; rewrite IH; reflexivity|].
  rewrite andb_false_r. exact IH.
Qed.

Lemma neg_p_lt x e : negb (p_lt x e) = sid_leb x (fst e).
Proof.
  unfold p_lt. destruct (sid_ltb (fst e) x) eqn:E; cbn [negb]; symmetry.
  - apply sid_ltb_lt in E. apply sid_leb_nle. assumption.
  - apply sid_ltb_nlt in E. apply sid_leb_le. assumption.
Qed.

Lemma cnt_le_of_imp (p q : sentry -> bool) es :
  (forall e, In e es -> q e = true -> p e = true) -> cnt q es <= cnt p es.
Proof.
  induction es as [|y es IH]; intros H; [unfold cnt; cbn; lia|]. rewrite !cnt_cons.
  assert (IH' : cnt q es <= cnt p es) by (apply IH; intros e He; apply H; right; assumption).
  destruct (q y) eqn:Eq; [rewrite (H y (or_introl eq_refl) Eq); lia|destruct (p y); lia].
Qed.
Lemma cnt_strict (p q : sentry -> bool) es z :
  In z es -> p z = true -> q z = false ->
  (forall e, In e es -> q e = true -> p e = true) -> cnt q es + 1 <= cnt p es.
Proof.
  induction es as [|y es IH]; intros Hz Hp Hq H; [destruct Hz|]. rewrite !cnt_cons.
  destruct Hz as [->|Hz].
  - rewrite Hp, Hq. assert (cnt q es <= cnt p es); [|lia].
    apply cnt_le_of_imp. intros e He. apply H. right; assumption.
  - assert (IH' : cnt q es + 1 <= cnt p es) by (apply IH; auto; intros e He; apply H; right; assumption).
    destruct (q y) eqn:Eq; [rewrite (H y (or_introl eq_refl) Eq); lia|destruct (p y); lia].
Qed.
Lemma cnt_filter_sub (p q : sentry -> bool) es :
  (forall e, In e es -> p e = true -> q e = true) -> cnt p (filter q es) = cnt p es.
Proof.
  intros H. unfold cnt. rewrite filter_filter'. f_equal. apply filter_ext_in'. intros e He.
  destruct (p e) eqn:Ep; [rewrite (H e He Ep)|]; reflexivity.
Qed.

Lemma range_sel_ok es st en : sorted es -> 0 < cnt (p_le en) es ->
  let si := cnt (p_lt st) es in
  let hi := cnt (p_le en) es - 1 in
  (if hi <? si then [] else zfirstn (hi - si + 1) (zskipn si es)) = filter (in_range st en) es.
Proof.
  intros Hs Hm si hi.
  pose proof (prefix_firstn (p_le en) es Hs (p_le_down en)) as Hpre.
  assert (Hin : filter (in_range st en) es = filter (fun e => negb (p_lt st e)) (filter (p_le en) es)).
  { rewrite filter_filter'. apply filter_ext_in'. intros e _.
    unfold in_range, p_le. rewrite neg_p_lt. reflexivity. }
  destruct (hi <? si) eqn:E.
  - (* every entry <= en is < st : nothing in range *)
    apply Z.ltb_lt in E. rewrite Hin. symmetry.
    apply filter_all_false. apply Forall_forall. intros e He. apply filter_In in He as [He Hle'].
    destruct (p_lt st e) eqn:Ee; [reflexivity|exfalso].
    assert (Hsub : cnt (p_lt st) es + 1 <= cnt (p_le en) es).
    { apply (cnt_strict (p_le en) (p_lt st) es e He Hle' Ee). intros z _ Hz.
      unfold p_le, p_lt in *. apply sid_leb_le. left. apply sid_ltb_lt in Hz. apply sid_ltb_nlt in Ee.
      apply sid_leb_le in Hle'. eapply sid_lt_le_trans; [exact Hz|]. eapply sid_le_trans; eassumption. }
    subst si hi. lia.
  - apply Z.ltb_ge in E. subst si hi.
    unfold zfirstn, zskipn.
    pose proof (cnt_nonneg (p_lt st) es) as H0.
    rewrite firstn_skipn_swap.
    replace (Z.to_nat (cnt (p_lt st) es) + Z.to_nat (cnt (p_le en) es - 1 - cnt (p_lt st) es + 1))%nat
      with (Z.to_nat (cnt (p_le en) es)) by lia.
    change (firstn (Z.to_nat (cnt (p_le en) es)) es) with (zfirstn (cnt (p_le en) es) es). rewrite Hpre.
    (* the entries < st inside the prefix are exactly the entries < st of es *)
    assert (Hc : cnt (p_lt st) (filter (p_le en) es) = cnt (p_lt st) es).
    { apply cnt_filter_sub. intros z Hz Hzst.
      destruct (p_le en z) eqn:Hzen; [reflexivity|exfalso].
      assert (cnt (p_le en) es + 1 <= cnt (p_lt st) es); [|lia].
      apply (cnt_strict (p_lt st) (p_le en) es z Hz Hzst Hzen). intros w _ Hw.
      unfold p_le, p_lt in *. apply sid_ltb_lt. apply sid_leb_le in Hw. apply sid_ltb_lt in Hzst.
      apply sid_leb_nle in Hzen. eapply sid_le_lt_trans; [exact Hw|]. eapply sid_lt_trans; eassumption. }
    rewrite <- Hc. change (skipn (Z.to_nat ?n) ?l) with (zskipn n l).
    rewrite (prefix_skipn (p_lt st) _ (sorted_filter _ _ Hs) (p_lt_down st)).
    symmetry. exact Hin.
Qed.

Lemma range_end_excl_spec es en : sorted es -> range_end_excl es en = cnt (p_le en) es.
Proof.
  intros Hs. unfold range_end_excl. rewrite (bsearch_spec en es Hs), (cnt_le_lt en es Hs).
  destruct (has_id en es); lia.
Qed.
Lemma take_count_nil {A} count : take_count count (@nil A) = [].
Proof.
  destruct count as [c|]; [|reflexivity]. cbn [take_count]. unfold ztake, zfirstn.
  destruct (len (@nil A) <=? c); [reflexivity|]. destruct (Z.to_nat c); reflexivity.
Qed.

(** XRANGE / XREVRANGE after the repair dc07967: exactly the present entries within the
    bounds, for ALL bounds *)
Theorem range_correct es st en count reverse : sorted es ->
  st_range es st en count reverse = range_spec es st en count reverse.
Proof.
  intros Hs. unfold st_range, range_spec, range_start_idx.
  rewrite (bsearch_spec st es Hs), (range_end_excl_spec es en Hs). cbn [snd].
  pose proof (cnt_le_len (p_le en) es) as Hml. pose proof (cnt_nonneg (p_le en) es) as Hm0.
  destruct ((cnt (p_le en) es =? 0) || (cnt (p_le en) es <=? cnt (p_lt st) es)) eqn:E.
  - assert (Hnone : filter (in_range st en) es = []).
    { apply Bool.orb_true_iff in E as [E|E].
      - apply Z.eqb_eq in E. apply filter_all_false. apply Forall_forall. intros e He. unfold in_range.
        destruct (sid_leb (fst e) en) eqn:E2; [|apply andb_false_r]. exfalso.
        assert (Hin : In e (filter (p_le en) es)) by (apply filter_In; split; assumption).
        unfold cnt in E. destruct (filter (p_le en) es); [contradiction|]. rewrite len_cons in E.
        pose proof (len_nonneg l). lia.
      - apply Z.leb_le in E. destruct (0 <? cnt (p_le en) es) eqn:E0.
        + apply Z.ltb_lt in E0. pose proof (range_sel_ok es st en Hs E0) as Hsel. cbn zeta in Hsel.
          replace (cnt (p_le en) es - 1 <? cnt (p_lt st) es) with true in Hsel by lia. symmetry. exact Hsel.
        + apply Z.ltb_ge in E0. assert (Hz : cnt (p_le en) es = 0) by lia.
          apply filter_all_false. apply Forall_forall. intros e He. unfold in_range.
          destruct (sid_leb (fst e) en) eqn:E2; [|apply andb_false_r]. exfalso.
          assert (Hin : In e (filter (p_le en) es)) by (apply filter_In; split; assumption).
          unfold cnt in Hz. destruct (filter (p_le en) es); [contradiction|]. rewrite len_cons in Hz.
          pose proof (len_nonneg l). lia. }
    rewrite Hnone. cbn [rev]. destruct reverse; symmetry; apply take_count_nil.
  - apply Bool.orb_false_iff in E as [E1 E2]. apply Z.eqb_neq in E1. apply Z.leb_gt in E2.
    assert (Hpos : 0 < cnt (p_le en) es) by lia.
    rewrite Z.min_l by lia. pose proof (range_sel_ok es st en Hs Hpos) as Hsel. cbn zeta in Hsel.
    rewrite Hsel. reflexivity.
Qed.

(** ------------------------------------------------------------------ *)
(** * The stream invariant                                              *)

Record SInv (s : stream) : Prop := {
  inv_sorted : sorted (s_entries s);
  inv_last : Forall (fun e => sid_le (fst e) (s_last s)) (s_entries s);
  inv_atomics : s_last s = (s_ams s, s_aseq s);
  inv_len : s_len s = len (s_entries s)
}.

Lemma SInv_empty : SInv empty_stream.
Proof. split; cbn; [constructor|constructor|reflexivity|reflexivity]. Qed.

Lemma SInv_set_groups s gs : SInv s -> SInv (set_groups s gs).
Proof. intros [H1 H2 H3 H4]. split; cbn; assumption. Qed.

(** generate_next_atomic (repaired): every clock reading gives an ID above last_id, or
    no ID at all when both the sequence number and the millisecond are at their maximum *)
Lemma gen_next_gt now s id ms sq : SInv s ->
  gen_next now s = Some (id, ms, sq) -> sid_lt (s_last s) id /\ id = (ms, sq).
Proof.
  intros Hi. unfold gen_next. rewrite (inv_atomics s Hi). destruct (s_ams s <? now) eqn:E.
  - apply Z.ltb_lt in E. intros H; inversion H; subst. split; [|reflexivity]. left. cbn. lia.
  - destruct (s_aseq s + 1 <=? u64_max).
    + intros H; inversion H; subst. split; [|reflexivity]. right. cbn. lia.
    + destruct (s_ams s + 1 <=? u64_max); intros H; inversion H; subst. split; [|reflexivity]. left. cbn. lia.
Qed.
Lemma gen_next_none now s :
  gen_next now s = None <-> (now <= s_ams s /\ u64_max < s_aseq s + 1 /\ u64_max < s_ams s + 1).
Proof.
  unfold gen_next. destruct (s_ams s <? now) eqn:E1.
  - apply Z.ltb_lt in E1. split; [discriminate|lia].
  - apply Z.ltb_ge in E1. destruct (s_aseq s + 1 <=? u64_max) eqn:E2.
    + apply Z.leb_le in E2. split; [discriminate|lia].
    + apply Z.leb_gt in E2. destruct (s_ams s + 1 <=? u64_max) eqn:E3.
      * apply Z.leb_le in E3. split; [discriminate|lia].
      * apply Z.leb_gt in E3. split; [lia|reflexivity].
Qed.

Lemma Forall_le_lt es a b : Forall (fun e : sentry => sid_le (fst e) a) es -> sid_lt a b ->
  Forall (fun e => sid_lt (fst e) b) es.
Proof. intros H Hab. eapply Forall_impl; [|exact H]. intros e He. cbv beta in He. eapply sid_le_lt_trans; eassumption. Qed.

Lemma SInv_push s id f ms sq : SInv s -> sid_lt (s_last s) id -> id = (ms, sq) ->
  SInv {| s_entries := s_entries s ++ [(id, f)]; s_last := id; s_ams := ms; s_aseq := sq;
          s_len := s_len s + 1; s_groups := s_groups s |}.
Proof.
  intros [H1 H2 H3 H4] Hlt Hid. split; cbn [s_entries s_last s_ams s_aseq s_len].
  - apply sorted_app_last; [assumption|]. apply (Forall_le_lt _ _ _ H2 Hlt).
  - apply Forall_app. split.
    + eapply Forall_impl; [|exact H2]. intros e He. cbv beta in He. left. eapply sid_le_lt_trans; eassumption.
    + constructor; [right; reflexivity|constructor].
  - assumption.
  - rewrite len_app, H4. reflexivity.
Qed.

Theorem add_auto_inv now s f id s' : SInv s -> st_add_auto now s f = Some (id, s') ->
  SInv s' /\ sid_lt (s_last s) id /\ Forall (fun e => sid_lt (fst e) id) (s_entries s) /\
  s_last s' = id /\ s_entries s' = s_entries s ++ [(id, f)].
Proof.
  intros Hi. unfold st_add_auto. destruct (gen_next now s) as [[[i ms] sq]|] eqn:E; [|discriminate].
  intros H; inversion H; subst. destruct (gen_next_gt now s id ms sq Hi E) as [Hlt Hid].
  split; [apply SInv_push; assumption|]. split; [assumption|]. split; [|split; reflexivity].
  apply (Forall_le_lt _ _ _ (inv_last s Hi) Hlt).
Qed.
Theorem add_auto_none now s f :
  st_add_auto now s f = None <-> (now <= s_ams s /\ u64_max < s_aseq s + 1 /\ u64_max < s_ams s + 1).
Proof.
  rewrite <- gen_next_none. unfold st_add_auto. destruct (gen_next now s) as [[[i ms] sq]|]; split; congruence.
Qed.

(** admissibility of the reported auto ID = some clock reading produces it *)
Theorem auto_clock_sound s oid n : auto_clock s oid = Some n ->
  exists ms sq, gen_next n s = Some (oid, ms, sq).
Proof.
  unfold auto_clock, gen_next. destruct oid as [o1 o2]. cbn [fst snd].
  destruct ((s_ams s <? o1) && (o2 =? 0)) eqn:E1.
  - apply andb_prop in E1 as [Ea Eb]. intros H; inversion H; subst. rewrite Ea.
    apply Z.eqb_eq in Eb. subst. eauto.
  - destruct ((o1 =? s_ams s) && (o2 =? s_aseq s + 1) && (s_aseq s + 1 <=? u64_max)) eqn:E2; [|discriminate].
    apply andb_prop in E2 as [E2 Ec]. apply andb_prop in E2 as [Ea Eb]. apply Z.eqb_eq in Ea, Eb.
    intros H; inversion H; subst. rewrite Z.ltb_irrefl, Ec. eauto.
Qed.

Theorem auto_clock_complete s now id ms sq : gen_next now s = Some (id, ms, sq) ->
  exists n, auto_clock s id = Some n /\ gen_next n s = Some (id, ms, sq).
Proof.
  unfold gen_next, auto_clock. destruct (s_ams s <? now) eqn:E.
  - intros H. injection H as <- <- <-. cbn [fst snd]. rewrite E. cbn [Z.eqb andb]. exists now. rewrite E. auto.
  - destruct (s_aseq s + 1 <=? u64_max) eqn:E2.
    + intros H. injection H as <- <- <-. cbn [fst snd].
      rewrite Z.ltb_irrefl. cbn [andb]. rewrite !Z.eqb_refl. cbn [andb]. exists (s_ams s).
      rewrite Z.ltb_irrefl. auto.
    + destruct (s_ams s + 1 <=? u64_max) eqn:E3; [|discriminate]. intros H. injection H as <- <- <-. cbn [fst snd].
      assert (Hlt : s_ams s <? s_ams s + 1 = true) by (apply Z.ltb_lt; lia).
      rewrite Hlt. cbn [Z.eqb andb]. exists (s_ams s + 1). rewrite Hlt. auto.
Qed.

Theorem add_with_id_refused s id f : sid_le id (s_last s) -> st_add_with_id s id f = None.
Proof. intros H. unfold st_add_with_id. apply sid_leb_le in H. rewrite H. reflexivity. Qed.

Lemma has_id_above s id : SInv s -> sid_lt (s_last s) id -> has_id id (s_entries s) = false.
Proof.
  intros Hi Hlt. destruct (has_id id (s_entries s)) eqn:E; [exfalso|reflexivity].
  destruct (has_id_In _ _ E) as [f Hf]. pose proof (inv_last s Hi) as Hl. rewrite Forall_forall in Hl.
  specialize (Hl _ Hf). cbn in Hl. eapply sid_lt_not_le; eassumption.
Qed.

Theorem add_with_id_inv s id f s' : SInv s -> st_add_with_id s id f = Some s' ->
  SInv s' /\ sid_lt (s_last s) id /\ s_last s' = id /\ s_entries s' = s_entries s ++ [(id, f)].
Proof.
  intros Hi. unfold st_add_with_id. destruct (sid_leb id (s_last s)) eqn:E; [discriminate|].
  apply sid_leb_nle in E. destruct (has_id id (s_entries s)); [discriminate|].
  intros H; inversion H; subst. split; [|split; [assumption|split; reflexivity]].
  apply SInv_push; [assumption|assumption|destruct id; reflexivity].
Qed.
Theorem add_with_id_accepted s id f : SInv s -> sid_lt (s_last s) id -> st_add_with_id s id f <> None.
Proof.
  intros Hi Hlt. unfold st_add_with_id. assert (sid_leb id (s_last s) = false) as -> by (apply sid_leb_nle; assumption).
  rewrite (has_id_above s id Hi Hlt). discriminate.
Qed.

Lemma len_zskipn {A} n (l : list A) : 0 <= n <= len l -> len (zskipn n l) = len l - n.
Proof. intros H. unfold zskipn, len in *. rewrite skipn_length. lia. Qed.
Lemma Forall_skipn {A} (P : A -> Prop) n l : Forall P l -> Forall P (skipn n l).
Proof.
  revert l; induction n as [|n IH]; intros l H; [assumption|]. destruct l; [constructor|].
  cbn [skipn]. apply IH. inversion H; assumption.
Qed.
Lemma Forall_filter {A} (P : A -> Prop) p l : Forall P l -> Forall P (filter p l).
Proof.
  intros H. apply Forall_forall. intros x Hx. apply filter_In in Hx as [Hx _].
  rewrite Forall_forall in H. auto.
Qed.

Theorem trim_inv s maxlen : SInv s -> 0 <= maxlen ->
  SInv (snd (st_trim s maxlen)) /\ s_last (snd (st_trim s maxlen)) = s_last s /\
  s_entries (snd (st_trim s maxlen)) = zskipn (fst (st_trim s maxlen)) (s_entries s) /\
  fst (st_trim s maxlen) = Z.max 0 (len (s_entries s) - maxlen).
Proof.
  intros Hi Hm. unfold st_trim. destruct (len (s_entries s) <=? maxlen) eqn:E; cbn [fst snd].
  - apply Z.leb_le in E. split; [assumption|]. split; [reflexivity|]. split; [reflexivity|lia].
  - apply Z.leb_gt in E. destruct Hi as [H1 H2 H3 H4]. split; [|split; [reflexivity|split; [reflexivity|lia]]].
    split; cbn [s_entries s_last s_ams s_aseq s_len].
    + apply sorted_skipn; assumption.
    + apply Forall_skipn; assumption.
    + assumption.
    + rewrite len_zskipn by lia. unfold usub. rewrite H4.
      replace (len (s_entries s) <? len (s_entries s) - maxlen) with false by lia. reflexivity.
Qed.

Lemma len_filter_le {A} (p : A -> bool) l : len (filter p l) <= len l.
Proof. induction l as [|x l IH]; [cbn; lia|]. cbn [filter]. destruct (p x); rewrite ?len_cons; lia. Qed.

Theorem delete_inv s ids : SInv s ->
  SInv (snd (st_delete s ids)) /\ s_last (snd (st_delete s ids)) = s_last s /\
  s_entries (snd (st_delete s ids)) = filter (fun e => negb (sid_mem (fst e) ids)) (s_entries s) /\
  fst (st_delete s ids) = len (s_entries s) - len (s_entries (snd (st_delete s ids))).
Proof.
  intros Hi. unfold st_delete.
  set (kept := filter (fun e => negb (sid_mem (fst e) ids)) (s_entries s)).
  pose proof (len_filter_le (fun e => negb (sid_mem (fst e) ids)) (s_entries s)) as Hle. fold kept in Hle.
  destruct (0 <? len (s_entries s) - len kept) eqn:E; cbn [fst snd].
  - destruct Hi as [H1 H2 H3 H4]. split; [|split; [reflexivity|split; reflexivity]].
    split; cbn [s_entries s_last s_ams s_aseq s_len].
    + apply sorted_filter; assumption.
    + apply Forall_filter; assumption.
    + assumption.
    + unfold usub. rewrite H4.
      replace (len (s_entries s) <? len (s_entries s) - len kept) with false
        by (pose proof (len_nonneg kept); lia). lia.
  - apply Z.ltb_ge in E. assert (Hk : len kept = len (s_entries s)) by lia.
    split; [assumption|]. split; [reflexivity|]. split; [|lia].
    (* nothing was removed: the filter is the identity *)
    subst kept. clear -Hk. induction (s_entries s) as [|x l IH]; [reflexivity|].
    cbn [filter] in *. destruct (negb (sid_mem (fst x) ids)).
    + rewrite !len_cons in Hk. f_equal. apply IH. lia.
    + pose proof (len_filter_le (fun e => negb (sid_mem (fst e) ids)) l). rewrite len_cons in Hk. lia.
Qed.

(** ---- histories of stream operations ---- *)
Inductive sop :=
| OAddAuto (now_ms : Z) (f : fields)        (* XADD key * ... at clock reading now_ms *)
| OAddId (id : sid) (f : fields)            (* XADD key id ... *)
| ODel (ids : list sid)                     (* XDEL *)
| OTrim (maxlen : Z).                       (* XTRIM MAXLEN *)
Definition sop_ok (o : sop) : Prop := match o with OTrim n => 0 <= n | _ => True end.

(** one operation: the new state and the ID it added, if any (a refused XADD and the
    panicking auto-ID case leave the stream as it was) *)
Definition sstep (s : stream) (o : sop) : stream * option sid :=
  match o with
  | OAddAuto now f => match st_add_auto now s f with Some (id, s') => (s', Some id) | None => (s, None) end
  | OAddId id f => match st_add_with_id s id f with Some s' => (s', Some id) | None => (s, None) end
  | ODel ids => (snd (st_delete s ids), None)
  | OTrim n => (snd (st_trim s n), None)
  end.
Fixpoint run_ops (s : stream) (ops : list sop) : stream * list sid :=
  match ops with
  | [] => (s, [])
  | o :: r => match sstep s o with
              | (s1, a) => match run_ops s1 r with
                           | (s2, l) => (s2, match a with Some i => i :: l | None => l end)
                           end
              end
  end.

Lemma sstep_inv s o : SInv s -> sop_ok o ->
  SInv (fst (sstep s o)) /\
  match snd (sstep s o) with
  | Some id => sid_lt (s_last s) id /\ s_last (fst (sstep s o)) = id
  | None => s_last (fst (sstep s o)) = s_last s
  end.
Proof.
  intros Hi Hok. destruct o as [now f|id f|ids|n]; cbn [sstep].
  - destruct (st_add_auto now s f) as [[id s']|] eqn:E; cbn [fst snd]; [|auto].
    destruct (add_auto_inv _ _ _ _ _ Hi E) as (H1 & H2 & _ & H4 & _). auto.
  - destruct (st_add_with_id s id f) as [s'|] eqn:E; cbn [fst snd]; [|auto].
    destruct (add_with_id_inv _ _ _ _ Hi E) as (H1 & H2 & H3 & _). auto.
  - cbn [fst snd]. destruct (delete_inv s ids Hi) as (H1 & H2 & _). auto.
  - cbn [fst snd]. destruct (trim_inv s n Hi Hok) as (H1 & H2 & _). auto.
Qed.

(** IDs strictly increase: over every history (auto IDs at arbitrary clock readings,
    explicit IDs, deletions, trimming) each added ID is greater than last_id before it,
    hence than every ID added earlier - also after deletions or trimming *)
Theorem history_ids_increase ops : forall s, SInv s -> Forall sop_ok ops ->
  SInv (fst (run_ops s ops)) /\
  StronglySorted sid_lt (s_last s :: snd (run_ops s ops)) /\
  sid_le (s_last s) (s_last (fst (run_ops s ops))) /\
  Forall (fun i => sid_le i (s_last (fst (run_ops s ops)))) (snd (run_ops s ops)).
Proof.
  induction ops as [|o ops IH]; intros s Hi Hok; cbn [run_ops].
  - cbn [fst snd]. split; [assumption|]. split; [constructor; constructor|]. split; [apply sid_le_refl|constructor].
  - inversion Hok as [|? ? Ho Hok']; subst.
    destruct (sstep_inv s o Hi Ho) as [Hi1 Hs]. destruct (sstep s o) as [s1 a]. cbn [fst snd] in *.
    destruct (IH s1 Hi1 Hok') as (Hi2 & Hsort & Hle & Hall). destruct (run_ops s1 ops) as [s2 l]. cbn [fst snd] in *.
    split; [assumption|]. destruct a as [id|].
    + destruct Hs as [Hlt Hl1]. rewrite Hl1 in *. split; [|split].
      * constructor; [assumption|]. constructor; [assumption|].
        inversion Hsort as [|? ? _ Hf]; subst. eapply Forall_impl; [|exact Hf]. intros i Hi'. cbv beta in Hi'.
        eapply sid_lt_trans; eassumption.
      * left. eapply sid_lt_le_trans; eassumption.
      * constructor; assumption.
    + rewrite Hs in *. auto.
Qed.

(** ---- entries keep their field-value pairs ---- *)
Lemma find_entry_spec id es : sorted es ->
  find_entry id es = match filter (fun e => sid_eqb (fst e) id) es with e :: _ => Some e | [] => None end.
Proof.
  unfold find_entry. induction es as [|e es IH]; intros Hs; [reflexivity|].
  apply sorted_cons_inv in Hs as [Hs He]. cbn [bsearch filter]. unfold sid_eqb at 1.
  destruct (sid_cmp (fst e) id) eqn:E.
  - reflexivity.
  - specialize (IH Hs). destruct (bsearch id es) as [b i] eqn:Eb.
    assert (Hi0 : 0 <= i).
    { pose proof (bsearch_spec id es Hs) as Hb. rewrite Eb in Hb. inversion Hb. apply cnt_nonneg. }
    destruct b; [|exact IH].
    rewrite <- IH. unfold znth. replace (1 + i <? 0) with false by lia. replace (i <? 0) with false by lia.
    replace (Z.to_nat (1 + i)) with (S (Z.to_nat i)) by lia. reflexivity.
  - apply sid_cmp_gt in E. rewrite filter_all_false; [reflexivity|].
    eapply Forall_impl; [|exact He]. intros y Hy. destruct (sid_eqb (fst y) id) eqn:Ey; [|reflexivity].
    apply sid_eqb_eq in Ey. unfold elt in Hy. rewrite Ey in Hy. exfalso.
    eapply sid_lt_asym; eassumption.
Qed.

Theorem added_entry_kept s id f s' : SInv s -> s_entries s' = s_entries s ++ [(id, f)] ->
  sid_lt (s_last s) id ->
  find_entry id (s_entries s') = Some (id, f) /\
  forall id', id' <> id -> find_entry id' (s_entries s') = find_entry id' (s_entries s).
Proof.
  intros Hi He Hlt. rewrite He.
  assert (Hs' : sorted (s_entries s ++ [(id, f)])).
  { apply sorted_app_last; [apply (inv_sorted s Hi)|apply (Forall_le_lt _ _ _ (inv_last s Hi) Hlt)]. }
  split.
  - rewrite (find_entry_spec _ _ Hs'), filter_app. rewrite filter_all_false.
    + cbn [app filter fst]. rewrite sid_eqb_refl. reflexivity.
    + pose proof (Forall_le_lt _ _ _ (inv_last s Hi) Hlt) as Hall. eapply Forall_impl; [|exact Hall].
      intros y Hy. cbv beta in *. destruct (sid_eqb _ id) eqn:Ey; [|reflexivity]. apply sid_eqb_eq in Ey.
      rewrite Ey in Hy. exfalso. eapply sid_lt_irrefl; eassumption.
  - intros id' Hne. rewrite (find_entry_spec _ _ Hs'), (find_entry_spec _ _ (inv_sorted s Hi)), filter_app.
    cbn [filter fst]. assert (sid_eqb id id' = false) as ->.
    { destruct (sid_eqb id id') eqn:Ey; [|reflexivity]. apply sid_eqb_eq in Ey. congruence. }
    rewrite app_nil_r. reflexivity.
Qed.


(** ---- failure atomicity of XADD at the command level ---- *)
Ltac break_match :=
  match goal with
  | |- context [match ?x with _ => _ end] =>
      match type of x with
      | _ => destruct x eqn:?
      end
  end.

Theorem xadd_error_atomic d parts oracle :
  is_error (fst (h_xadd d parts oracle)) = true -> snd (h_xadd d parts oracle) = d.
Proof.
  unfold h_xadd.
  repeat (first [ progress cbn [fst snd is_error r_err r_wrongtype r_panic r_sid] | break_match ]);
    try reflexivity; try discriminate; intros; try reflexivity; try discriminate.
Qed.

Theorem xdel_error_atomic d parts :
  is_error (fst (h_xdel d parts)) = true -> snd (h_xdel d parts) = d.
Proof.
  unfold h_xdel.
  repeat (first [ progress cbn [fst snd is_error r_err r_wrongtype r_int] | break_match ]);
    try reflexivity; try discriminate; intros; try reflexivity; try discriminate.
Qed.
Theorem xtrim_error_atomic d parts :
  is_error (fst (h_xtrim d parts)) = true -> snd (h_xtrim d parts) = d.
Proof.
  unfold h_xtrim.
  repeat (first [ progress cbn [fst snd is_error r_err r_wrongtype r_int] | break_match ]);
    try reflexivity; try discriminate; intros; try reflexivity; try discriminate.
Qed.
(** the read commands never change the database *)
Theorem xreads_pure d parts :
  snd (h_xrange d parts) = d /\ snd (h_xrevrange d parts) = d /\ snd (h_xlen d parts) = d /\ snd (h_xread d parts) = d.
Proof.
  repeat split.
  - unfold h_xrange. repeat (first [ progress cbn [fst snd] | break_match ]); reflexivity.
  - unfold h_xrevrange. repeat (first [ progress cbn [fst snd] | break_match ]); reflexivity.
  - unfold h_xlen. repeat (first [ progress cbn [fst snd] | break_match ]); reflexivity.
  - unfold h_xread. repeat (first [ progress cbn [fst snd] | break_match ]); reflexivity.
Qed.

(** ---- scripts of commands, for witnesses ---- *)
Definition cmd (l : list String.string) : list frame := map (fun s => FBulk (bs s)) l.
Fixpoint run_cmds (now : Z) (d : db) (cs : list (list frame)) : list frame * db :=
  match cs with
  | [] => ([], d)
  | c :: r =>
      match c with
      | FBulk nm :: _ =>
          match exec_streams now d (upper nm) c None with
          | Some (f, d') => match run_cmds now d' r with (fs, d'') => (f :: fs, d'') end
          | None => ([FError (bs "NOTSTREAMCMD")], d)
          end
      | _ => ([FError (bs "BADCMD")], d)
      end
  end.
Definition bulk (s : String.string) : frame := FBulk (bs s).

(** XADD * is refused only when no greater u64 ID exists *)
Definition in_u64 (i : sid) : Prop := 0 <= fst i <= u64_max /\ 0 <= snd i <= u64_max.
Theorem add_auto_refused_exhausted now s f : SInv s -> in_u64 (s_last s) -> st_add_auto now s f = None ->
  s_last s = (u64_max, u64_max) /\ forall id, in_u64 id -> sid_le id (s_last s).
Proof.
  intros Hi [H1 H2] Hn. apply add_auto_none in Hn as (Ha & Hb & Hc).
  rewrite (inv_atomics s Hi) in *. cbn [fst snd] in *.
  assert (s_ams s = u64_max) by lia. assert (s_aseq s = u64_max) by lia.
  split; [congruence|]. intros [i1 i2] [[? ?] [? ?]]. cbn [fst snd] in *. unfold sid_le, sid_lt. cbn [fst snd].
  destruct (Z.eq_dec i1 (s_ams s)); destruct (Z.eq_dec i2 (s_aseq s)); subst; try (left; lia). right; reflexivity.
Qed.

(** ---- ID text (after the repair 3be45c2): StreamId::from_string is exact ----
    [parse_digits] (Base/Bytes.v) is the declarative reading of a decimal number: at least
    one byte, digits only, the unbounded value. *)
Lemma digits_val_mono : forall l acc v, 0 <= acc -> digits_val l acc = Some v -> acc <= v.
Proof.
  induction l as [|c r IH]; cbn [digits_val]; intros acc v Ha H; [injection H as <-; lia|].
  destruct (is_digit c) eqn:E; [|discriminate]. unfold is_digit in E. apply andb_prop in E as [E1 E2].
  apply Z.leb_le in E1, E2. apply IH in H; lia.
Qed.
Lemma parse_u64_digits_spec : forall l acc v, 0 <= acc <= u64_max ->
  parse_u64_digits l acc = Some v <-> digits_val l acc = Some v /\ v <= u64_max.
Proof.
  induction l as [|c r IH]; cbn [parse_u64_digits digits_val]; intros acc v Ha.
  - split; [intros H; injection H as <-; split; [reflexivity|lia] | intros [H _]; exact H].
  - destruct (is_digit c) eqn:E; [|split; [discriminate | intros [H _]; discriminate]].
    pose proof E as E'. unfold is_digit in E'. apply andb_prop in E' as [E1 E2]. apply Z.leb_le in E1, E2.
    destruct (Z.leb_spec (acc * 10) u64_max) as [L1|L1].
    + destruct (Z.leb_spec (acc * 10 + (c - 48)) u64_max) as [L2|L2].
      * apply IH. lia.
      * split; [discriminate|]. intros [H Hv]. apply digits_val_mono in H; lia.
    + split; [discriminate|]. intros [H Hv]. apply digits_val_mono in H; lia.
Qed.
(** one part: accepted iff it is a non-empty decimal number that fits in 64 bits, and then
    it is that number *)
Theorem parse_u64_fast_exact l v : parse_u64_fast l = Some v <-> parse_digits l = Some v /\ v <= u64_max.
Proof.
  unfold parse_u64_fast, parse_digits. destruct l as [|c r]; [split; [discriminate | intros [H _]; discriminate]|].
  apply parse_u64_digits_spec. unfold u64_max. lia.
Qed.

Lemma split_dash_spec : forall l a b, split_dash l = Some (a, b) -> l = a ++ 45 :: b /\ ~ In 45 a.
Proof.
  induction l as [|c r IH]; intros a b; cbn [split_dash]; [discriminate|].
  destruct (Z.eqb_spec c 45) as [->|N].
  - intros H; injection H as <- <-. split; [reflexivity | intros []].
  - destruct (split_dash r) as [[a' b']|]; [|discriminate].
    intros H; injection H as <- <-. destruct (IH a' b' eq_refl) as [-> Hn].
    split; [reflexivity|]. intros [E|E]; [congruence | exact (Hn E)].
Qed.
Lemma split_dash_app : forall a b, ~ In 45 a -> split_dash (a ++ 45 :: b) = Some (a, b).
Proof.
  induction a as [|c a IH]; intros b Hn; cbn [app split_dash]; [reflexivity|].
  destruct (Z.eqb_spec c 45) as [->|N]; [exfalso; apply Hn; left; reflexivity|].
  rewrite IH; [reflexivity|]. intros E. apply Hn. right. exact E.
Qed.
Lemma split_dash_none l : split_dash l = None <-> ~ In 45 l.
Proof.
  induction l as [|c r IH]; cbn [split_dash In]; [tauto|].
  destruct (Z.eqb_spec c 45) as [->|N]; [split; [discriminate | intros H; exfalso; apply H; left; reflexivity]|].
  destruct (split_dash r) as [[a b]|].
  - split; [discriminate|]. intros H. exfalso. assert (Hr : ~ In 45 r) by tauto. apply IH in Hr. discriminate.
  - split; [|reflexivity]. intros _ [E|E]; [congruence|]. apply IH in E; [exact E | reflexivity].
Qed.
Lemma digits_no_dash : forall l acc v, digits_val l acc = Some v -> ~ In 45 l.
Proof.
  induction l as [|c r IH]; cbn [digits_val]; intros acc v H; [intros []|].
  destruct (is_digit c) eqn:E; [|discriminate]. intros [->|Hin]; [discriminate E|]. exact (IH _ _ H Hin).
Qed.

(** the whole ID: a text is accepted iff it is <decimal> '-' <decimal> with both numbers
    non-empty and at most u64::MAX, and then it denotes exactly that pair *)
Theorem id_text_exact l a b : sid_of_bytes l = Some (a, b) <->
  exists da db, l = da ++ 45 :: db /\ parse_digits da = Some a /\ parse_digits db = Some b /\
                a <= u64_max /\ b <= u64_max.
Proof.
  unfold sid_of_bytes. split.
  - destruct (split_dash l) as [[da db]|] eqn:E; [|discriminate]. apply split_dash_spec in E as [-> _].
    destruct (parse_u64_fast da) as [ms|] eqn:E1; [|discriminate].
    destruct (parse_u64_fast db) as [sq|] eqn:E2; [|discriminate].
    intros H; injection H as <- <-. apply parse_u64_fast_exact in E1 as [? ?], E2 as [? ?].
    exists da, db. auto.
  - intros (da & db & -> & Ha & Hb & La & Lb).
    assert (Hn : ~ In 45 da).
    { unfold parse_digits in Ha. destruct da; [discriminate|]. eapply digits_no_dash; exact Ha. }
    rewrite (split_dash_app _ _ Hn).
    assert (parse_u64_fast da = Some a) as -> by (apply parse_u64_fast_exact; auto).
    assert (parse_u64_fast db = Some b) as -> by (apply parse_u64_fast_exact; auto).
    reflexivity.
Qed.
Theorem id_text_in_u64 l i : sid_of_bytes l = Some i -> in_u64 i.
Proof.
  destruct i as [a b]. intros H. apply id_text_exact in H as (da & db & _ & Ha & Hb & La & Lb).
  assert (Hp : forall d v, parse_digits d = Some v -> 0 <= v).
  { intros d v. unfold parse_digits. destruct d; [discriminate|]. intros H. apply digits_val_mono in H; lia. }
  split; cbn [fst snd]; split; eauto.
Qed.
(** what is rejected: no dash, an empty part, a non-digit, a part above u64::MAX *)
Theorem id_text_rejected l : sid_of_bytes l = None <->
  ~ In 45 l \/
  exists da db, l = da ++ 45 :: db /\ ~ In 45 da /\
    (forall a b, ~ (parse_digits da = Some a /\ parse_digits db = Some b /\ a <= u64_max /\ b <= u64_max)).
Proof.
  split.
  - intros H. destruct (split_dash l) as [[da db]|] eqn:E.
    + right. apply split_dash_spec in E as E'. destruct E' as [-> Hn]. exists da, db. split; [reflexivity|]. split; [exact Hn|].
      intros a b (Ha & Hb & La & Lb).
      assert (K : sid_of_bytes (da ++ 45 :: db) = Some (a, b)) by (apply id_text_exact; exists da, db; auto).
      congruence.
    + left. apply split_dash_none. exact E.
  - intros [Hn | (da & db & -> & Hn & Hno)].
    + unfold sid_of_bytes. apply split_dash_none in Hn. rewrite Hn. reflexivity.
    + destruct (sid_of_bytes (da ++ 45 :: db)) as [[a b]|] eqn:E; [exfalso | reflexivity].
      apply id_text_exact in E as (da' & db' & El & Ha & Hb & La & Lb).
      assert (Hn' : ~ In 45 da').
      { unfold parse_digits in Ha. destruct da'; [discriminate|]. eapply digits_no_dash; exact Ha. }
      pose proof (split_dash_app da db Hn) as S1. rewrite El, (split_dash_app da' db' Hn') in S1.
      injection S1 as <- <-. apply (Hno a b). auto.
Qed.
(** printing and parsing agree on every u64 ID *)
Theorem id_text_roundtrip i : in_u64 i -> sid_of_bytes (sid_to_bytes i) = Some i.
Proof.
  destruct i as [a b]. intros [[A1 A2] [B1 B2]]. cbn [fst snd] in *. apply id_text_exact.
  exists (print_nat a), (print_nat b). unfold sid_to_bytes. cbn [fst snd app].
  assert (Hlt : u64_max < 10 ^ 40) by (unfold u64_max; lia).
  destruct (print_nat_spec a) as [Pa _]; [lia|]. destruct (print_nat_spec b) as [Pb _]; [lia|]. auto.
Qed.
