(** Proofs about Model/Strings.v (C01, parts of C02). *)
From Ferrous Require Import Base.Bytes Model.Resp Model.Types Model.Glob Model.Strings
  Proofs.BytesFacts.
From Coq Require Import ZifyBool.
Open Scope Z_scope.

(** ---- association lists ---- *)
Lemma alookup_aremove_same {A} k (l : list (bytes * A)) : alookup k (aremove k l) = None.
Proof.
  induction l as [|[k' v] l IH]; cbn [aremove alookup]; [reflexivity|].
  destruct (beq k k') eqn:E; [exact IH|]. cbn [alookup]. rewrite E. exact IH.
Qed.
Lemma alookup_aremove_other {A} k k' (l : list (bytes * A)) :
  beq k' k = false -> alookup k' (aremove k l) = alookup k' l.
Proof.
  intros Hn. induction l as [|[k2 v] l IH]; cbn [aremove alookup]; [reflexivity|].
  destruct (beq k k2) eqn:E.
  - apply beq_eq in E. subst k2. rewrite Hn. exact IH.
  - cbn [alookup]. rewrite IH. reflexivity.
Qed.
Lemma alookup_aset_same {A} k (v : A) l : alookup k (aset k v l) = Some v.
Proof. unfold aset. cbn [alookup]. rewrite beq_refl. reflexivity. Qed.
Lemma alookup_aset_other {A} k k' (v : A) l :
  beq k' k = false -> alookup k' (aset k v l) = alookup k' l.
Proof. intros Hn. unfold aset. cbn [alookup]. rewrite Hn. apply alookup_aremove_other; exact Hn. Qed.
Lemma beq_sym a b : beq a b = beq b a.
Proof.
  destruct (beq a b) eqn:E.
  - apply beq_eq in E. subst. symmetry. apply beq_refl.
  - destruct (beq b a) eqn:E2; [|reflexivity]. apply beq_eq in E2. subst. rewrite beq_refl in E. discriminate.
Qed.

(** keys of an association list stay duplicate-free *)
Definition keys_of {A} (l : list (bytes * A)) : list bytes := map fst l.
Lemma in_keys_aremove {A} k x (l : list (bytes * A)) :
  In x (keys_of (aremove k l)) -> In x (keys_of l) /\ x <> k.
Proof.
  induction l as [|[k2 v] l IH]; cbn [aremove keys_of map]; [contradiction|].
  destruct (beq k k2) eqn:E.
  - intros H. destruct (IH H) as [H1 H2]. split; [right; exact H1|exact H2].
  - cbn [map In fst]. intros [H|H].
    + subst x. split; [left; reflexivity|]. intros Hc. subst. rewrite beq_refl in E. discriminate.
    + destruct (IH H) as [H1 H2]. split; [right; exact H1|exact H2].
Qed.
Lemma nodup_aremove {A} k (l : list (bytes * A)) : NoDup (keys_of l) -> NoDup (keys_of (aremove k l)).
Proof.
  induction l as [|[k2 v] l IH]; cbn [aremove keys_of map]; [intros; constructor|].
  intros H. inversion H as [|? ? Hn Hd]; subst. destruct (beq k k2).
  - apply IH; exact Hd.
  - cbn [map fst]. constructor; [|apply IH; exact Hd].
    intros Hc. apply in_keys_aremove in Hc as [Hc _]. apply Hn. exact Hc.
Qed.
Lemma nodup_aset {A} k (v : A) l : NoDup (keys_of l) -> NoDup (keys_of (aset k v l)).
Proof.
  intros H. unfold aset. cbn [keys_of map fst]. constructor; [|apply nodup_aremove; exact H].
  intros Hc. apply in_keys_aremove in Hc as [_ Hc]. congruence.
Qed.

(** ---- database well-formedness: every key is bound once (data and index) ---- *)
Definition wf_db (d : db) : Prop := NoDup (keys_of (d_data d)) /\ NoDup (keys_of (d_index d)).
Lemma wf_empty : wf_db empty_db.
Proof. split; constructor. Qed.
Lemma wf_put d k e : wf_db d -> wf_db (put_entry d k e).
Proof. intros [H1 H2]. split; [apply nodup_aset; exact H1|exact H2]. Qed.
Lemma wf_del d k : wf_db d -> wf_db (del_entry d k).
Proof. intros [H1 H2]. split; [apply nodup_aremove; exact H1|exact H2]. Qed.
Lemma wf_index_set d k t : wf_db d -> wf_db (index_set d k t).
Proof. intros [H1 H2]. split; [exact H1|apply nodup_aset; exact H2]. Qed.
Lemma wf_index_del d k : wf_db d -> wf_db (index_del d k).
Proof. intros [H1 H2]. split; [exact H1|apply nodup_aremove; exact H2]. Qed.
Lemma wf_set_value now d k v ttl : wf_db d -> wf_db (set_value now d k v ttl).
Proof. intros H. unfold set_value. destruct ttl; [apply wf_index_set|]; apply wf_put; exact H. Qed.
Global Hint Resolve wf_empty wf_put wf_del wf_index_set wf_index_del wf_set_value : wfdb.

(** ---- GETRANGE: the code-shaped normalisation equals Redis' rule ---- *)
(** getrangeCommand of Redis, transcribed over mathematical integers *)
Definition getrange_spec (b : bytes) (start stop : Z) : bytes :=
  let n := len b in
  if (start <? 0) && (stop <? 0) && (stop <? start) then [] else
  let s1 := if start <? 0 then n + start else start in
  let e1 := if stop <? 0 then n + stop else stop in
  let s2 := if s1 <? 0 then 0 else s1 in
  let e2 := if e1 <? 0 then 0 else e1 in
  let e3 := if n <=? e2 then n - 1 else e2 in
  if (e3 <? s2) || (n =? 0) then [] else zfirstn (e3 - s2 + 1) (zskipn s2 b).

Lemma getrange_eq_spec b start stop : getrange_bytes b start stop = getrange_spec b start stop.
Proof.
  unfold getrange_bytes, getrange_spec. pose proof (len_nonneg b) as Hn.
  destruct ((start <? 0) && (stop <? 0) && (stop <? start)); [reflexivity|].
  destruct (start <? 0) eqn:E1; destruct (stop <? 0) eqn:E2;
  repeat match goal with
  | |- context [if ?c then _ else _] => let E := fresh "E" in destruct c eqn:E
  | H : context [if ?c then _ else _] |- _ => let E := fresh "E" in destruct c eqn:E
  end; try reflexivity; try (exfalso; lia);
  match goal with
  | |- zfirstn ?a (zskipn ?b _) = zfirstn ?c (zskipn ?d _) =>
      replace a with c by lia; replace b with d by lia; reflexivity
  end.
Qed.

Lemma nth_error_firstn_lt {A} (l : list A) : forall n i, (i < n)%nat ->
  nth_error (firstn n l) i = nth_error l i.
Proof.
  induction l as [|x l IH]; intros n i H.
  - rewrite firstn_nil. reflexivity.
  - destruct n; [lia|]. destruct i; [reflexivity|]. cbn [firstn nth_error]. apply IH. lia.
Qed.

Lemma nth_error_skipn_add {A} (l : list A) : forall n i,
  nth_error (skipn n l) i = nth_error l (n + i).
Proof.
  induction l as [|x l IH]; intros n i.
  - rewrite skipn_nil. destruct i, n; reflexivity.
  - destruct n; [reflexivity|]. cbn [skipn Nat.add nth_error]. apply IH.
Qed.

(** the selected range is exactly the bytes at positions s..e *)
Lemma sub_nth (b : bytes) s e i : 0 <= s -> 0 <= i <= e - s -> e < len b ->
  nth_error (zfirstn (e - s + 1) (zskipn s b)) (Z.to_nat i) = nth_error b (Z.to_nat (s + i)).
Proof.
  intros Hs Hi He. unfold zfirstn, zskipn.
  rewrite nth_error_firstn_lt by lia. rewrite nth_error_skipn_add. f_equal. lia.
Qed.

(** the result never exceeds the string, and is empty for an empty string *)
Lemma getrange_length b start stop : len (getrange_bytes b start stop) <= len b.
Proof.
  unfold getrange_bytes. pose proof (len_nonneg b).
  repeat match goal with
  | |- context [if ?c then _ else _] => destruct c
  end; try (change (len (@nil Z)) with 0; lia).
  all: unfold zfirstn, zskipn, len; rewrite firstn_length, skipn_length; lia.
Qed.

(** ---- canonical integers (e4bcfd7): what INCR / DECR / INCRBY / DECRBY read as a number ---- *)
Lemma digits_acc_head fuel : forall n, 0 < n < 10 ^ Z.of_nat (S fuel) ->
  exists c r, digits_acc (S fuel) n [] = c :: r /\ 49 <= c <= 57.
Proof.
  induction fuel as [|f IH]; intros n Hn.
  - change (10 ^ Z.of_nat 1) with 10 in Hn. cbn [digits_acc]. replace (n <? 10) with true by lia.
    rewrite Z.mod_small by lia. exists (48 + n), []. split; [reflexivity|lia].
  - remember (S f) as f1. cbn [digits_acc]. destruct (n <? 10) eqn:E.
    + apply Z.ltb_lt in E. rewrite Z.mod_small by lia. exists (48 + n), []. split; [reflexivity|lia].
    + apply Z.ltb_ge in E.
      assert (Hq : 0 < n / 10 < 10 ^ Z.of_nat f1).
      { split; [apply Z.div_str_pos; lia|]. apply Z.div_lt_upper_bound; [lia|].
        replace (Z.of_nat (S f1)) with (Z.of_nat f1 + 1) in Hn by lia.
        rewrite Z.pow_add_r in Hn by lia. lia. }
      subst f1. destruct (IH _ Hq) as (c & r & Hc & Hr).
      rewrite digits_acc_app, Hc. exists c, (r ++ [48 + n mod 10]). split; [reflexivity|exact Hr].
Qed.
(** a positive number is printed without a leading zero *)
Lemma print_nat_pos_head n : 0 < n < 10 ^ 40 -> exists c r, print_nat n = c :: r /\ 49 <= c <= 57.
Proof. intros H. unfold print_nat. apply (digits_acc_head 39). exact H. Qed.

(** round trip: the text of every i64 is canonical and reads back as that number *)
Lemma parse_canonical_print z : in_i64 z = true -> parse_canonical (print_int z) = Some z.
Proof.
  intros Hi. pose proof (parse_i64_print z Hi) as Hp. pose proof i64_lt_pow as Hpow.
  unfold in_i64, i64_min, i64_max in *. unfold parse_canonical.
  destruct (Z.compare_spec z 0) as [E|E|E].
  - subst z. reflexivity.
  - unfold print_int in *. replace (z <? 0) with true in * by lia.
    destruct (print_nat_pos_head (- z)) as (c & r & Hc & Hr); [lia|].
    rewrite Hc in *. cbn [tl]. change (45 =? 45) with true. cbv iota.
    replace (c =? 48) with false by lia. replace ((49 <=? c) && (c <=? 57)) with true by lia. exact Hp.
  - unfold print_int in *. replace (z <? 0) with false in * by lia.
    destruct (print_nat_pos_head z) as (c & r & Hc & Hr); [lia|].
    rewrite Hc in *. replace (c =? 45) with false by lia. cbv iota.
    replace (c =? 48) with false by lia. replace ((49 <=? c) && (c <=? 57)) with true by lia. exact Hp.
Qed.
(** the canonical reading is a restriction of Rust's [str::parse::<i64>]: same number, fewer texts *)
Lemma parse_canonical_sub b z : parse_canonical b = Some z -> parse_i64 b = Some z.
Proof.
  unfold parse_canonical. destruct b as [|c r]; [discriminate|].
  destruct (c =? 45) eqn:E45.
  - apply Z.eqb_eq in E45. subst c. cbn [tl]. destruct r as [|c2 r2]; [discriminate|].
    destruct (c2 =? 48); [destruct r2; discriminate|].
    destruct ((49 <=? c2) && (c2 <=? 57)); [auto|discriminate].
  - destruct (c =? 48) eqn:E48.
    + apply Z.eqb_eq in E48. subst c. destruct r; [|discriminate]. intros H; inversion H; subst. reflexivity.
    + destruct ((49 <=? c) && (c <=? 57)); [auto|discriminate].
Qed.
Lemma parse_canonical_range b z : parse_canonical b = Some z -> in_i64 z = true.
Proof.
  intros H. apply parse_canonical_sub in H. unfold parse_i64, parse_signed in H.
  match type of H with match ?r with _ => _ end = _ => destruct r as [v|]; [|discriminate] end.
  unfold in_i64. destruct ((i64_min <=? v) && (v <=? i64_max)) eqn:E; [|discriminate].
  inversion H; subst. exact E.
Qed.

(** ... and the converse: the only text read as [z] is the one [print_int] writes.  First for digit
    strings without a leading zero: printing their value gives them back. *)
Lemma digits_val_nonneg : forall l acc v, 0 <= acc -> digits_val l acc = Some v -> acc <= v.
Proof.
  induction l as [|c l IH]; intros acc v Ha E; cbn [digits_val] in E; [inversion E; subst; lia|].
  destruct (is_digit c) eqn:Ed; [|discriminate]. unfold is_digit in Ed.
  assert (acc * 10 + (c - 48) <= v) by (eapply IH; [|exact E]; lia). lia.
Qed.
Lemma digits_val_snoc l c acc :
  digits_val (l ++ [c]) acc =
  match digits_val l acc with Some a => if is_digit c then Some (a * 10 + (c - 48)) else None | None => None end.
Proof. rewrite digits_val_app. destruct (digits_val l acc); [|reflexivity]. cbn [digits_val]. destruct (is_digit c); reflexivity. Qed.
Lemma digits_acc_small fuel n : 0 <= n < 10 -> digits_acc (S fuel) n [] = [48 + n].
Proof. intros H. cbn [digits_acc]. replace (n <? 10) with true by lia. rewrite Z.mod_small by lia. reflexivity. Qed.
Lemma digits_print_back : forall l, l <> [] -> hd 0 l <> 48 ->
  forall v fuel, digits_val l 0 = Some v -> v < 10 ^ Z.of_nat fuel -> digits_acc fuel v [] = l /\ 0 < v.
Proof.
  induction l as [|c l' IH] using rev_ind; intros Hne Hh v fuel Hv Hb; [congruence|].
  rewrite digits_val_snoc in Hv. destruct (digits_val l' 0) as [a|] eqn:Ea; [|discriminate].
  destruct (is_digit c) eqn:Ed; [|discriminate]. inversion Hv; subst v. unfold is_digit in Ed.
  pose proof (digits_val_nonneg _ _ _ (Z.le_refl 0) Ea) as Ha.
  destruct l' as [|c0 l0].
  - cbn [digits_val] in Ea. inversion Ea; subst a. cbn [app hd] in Hh.
    destruct fuel as [|f]; [change (10 ^ Z.of_nat 0) with 1 in Hb; lia|].
    rewrite digits_acc_small by lia. cbn [app]. split; [f_equal; lia|lia].
  - assert (Hapos : 0 < a).
    { cbn [app hd] in Hh. pose proof Ea as Ea'. cbn [digits_val] in Ea'.
      destruct (is_digit c0) eqn:Ed0; [|discriminate]. unfold is_digit in Ed0.
      apply digits_val_nonneg in Ea'; lia. }
    destruct fuel as [|f]; [change (10 ^ Z.of_nat 0) with 1 in Hb; lia|].
    assert (Hb' : a < 10 ^ Z.of_nat f).
    { replace (Z.of_nat (S f)) with (Z.of_nat f + 1) in Hb by lia. rewrite Z.pow_add_r in Hb by lia. lia. }
    destruct (IH ltac:(discriminate) Hh a f eq_refl Hb') as (Hp & Hpos).
    cbn [digits_acc]. replace (a * 10 + (c - 48) <? 10) with false by lia.
    replace ((a * 10 + (c - 48)) / 10) with a by (apply (Z.div_unique _ 10 a (c - 48)); lia).
    replace ((a * 10 + (c - 48)) mod 10) with (c - 48) by (apply (Z.mod_unique _ 10 a (c - 48)); lia).
    rewrite digits_acc_app, Hp. split; [f_equal; f_equal; lia|lia].
Qed.
Lemma i64_digits_bound v : v <= 9223372036854775808 -> v < 10 ^ Z.of_nat 40.
Proof. intros H. change (10 ^ Z.of_nat 40) with 10000000000000000000000000000000000000000. lia. Qed.
Lemma sign_match_digit c r : is_digit c = true ->
  match c :: r with
  | 43 :: d => parse_digits d
  | 45 :: d => option_map Z.opp (parse_digits d)
  | _ => parse_digits (c :: r) end = parse_digits (c :: r).
Proof.
  unfold is_digit. intros Hd. destruct c as [|p|p]; try reflexivity.
  do 6 (destruct p as [p|p|]; try reflexivity); lia.
Qed.
Lemma parse_canonical_unique b z : parse_canonical b = Some z -> b = print_int z.
Proof.
  intros H. pose proof (parse_canonical_sub _ _ H) as Hs.
  unfold parse_canonical in H. destruct b as [|c r]; [discriminate|].
  unfold parse_i64, parse_signed in Hs.
  destruct (c =? 45) eqn:E45.
  - apply Z.eqb_eq in E45. subst c. cbn [tl] in H. destruct r as [|c2 r2]; [discriminate|].
    destruct (c2 =? 48) eqn:E48; [destruct r2; discriminate|].
    destruct ((49 <=? c2) && (c2 <=? 57)) eqn:Ed; [|discriminate]. clear H.
    unfold parse_digits in Hs. destruct (digits_val (c2 :: r2) 0) as [v|] eqn:Ev; [|discriminate].
    cbn [option_map] in Hs. destruct ((i64_min <=? - v) && (- v <=? i64_max)) eqn:Er; [|discriminate].
    inversion Hs; subst z. clear Hs.
    assert (Hv : v <= 9223372036854775808) by (unfold i64_min in Er; lia).
    assert (Hh : hd 0 (c2 :: r2) <> 48) by (cbn [hd]; lia).
    destruct (digits_print_back (c2 :: r2) ltac:(discriminate) Hh v 40%nat Ev (i64_digits_bound v Hv)) as (Hp & Hpos).
    unfold print_int. replace (- v <? 0) with true by lia. rewrite Z.opp_involutive. unfold print_nat. rewrite Hp. reflexivity.
  - destruct (c =? 48) eqn:E48.
    + apply Z.eqb_eq in E48. subst c. destruct r; [|discriminate]. inversion H; subst z. reflexivity.
    + destruct ((49 <=? c) && (c <=? 57)) eqn:Ed; [|discriminate]. clear H.
      rewrite sign_match_digit in Hs by (unfold is_digit; lia).
      unfold parse_digits in Hs. destruct (digits_val (c :: r) 0) as [v|] eqn:Ev; [|discriminate].
      destruct ((i64_min <=? v) && (v <=? i64_max)) eqn:Er; [|discriminate]. inversion Hs; subst z. clear Hs.
      assert (Hv : v <= 9223372036854775808) by (unfold i64_max in Er; lia).
      assert (Hh : hd 0 (c :: r) <> 48) by (cbn [hd]; lia).
      destruct (digits_print_back (c :: r) ltac:(discriminate) Hh v 40%nat Ev (i64_digits_bound v Hv)) as (Hp & Hpos).
      unfold print_int. replace (v <? 0) with false by lia. unfold print_nat. rewrite Hp. reflexivity.
Qed.
(** so: a stored string is incremented only if it is the canonical text of an i64 *)
Lemma incr_only_canonical d k inc e b n d' :
  get_entry d k = Some e -> e_val e = VStr b -> eng_incr_by d k inc = (Some n, d') ->
  exists cur, b = print_int cur /\ in_i64 cur = true /\ n = cur + inc.
Proof.
  intros Hg Hv. unfold eng_incr_by. rewrite Hg, Hv. destruct (parse_canonical b) as [cur|] eqn:Ec; [|discriminate].
  destruct (in_i64 (cur + inc)); [|discriminate]. intros H; inversion H; subst.
  exists cur. split; [apply parse_canonical_unique; exact Ec|]. split; [eapply parse_canonical_range; exact Ec|reflexivity].
Qed.

(** ---- INCR family: checked arithmetic on the decimal value ---- *)
Lemma incr_by_spec d k inc e cur :
  get_entry d k = Some e -> e_val e = VStr (print_int cur) -> in_i64 cur = true ->
  eng_incr_by d k inc =
    if in_i64 (cur + inc)
    then (Some (cur + inc), put_entry d k {| e_val := VStr (print_int (cur + inc)); e_exp := e_exp e |})
    else (None, d).
Proof.
  intros Hg Hv Hc. unfold eng_incr_by. rewrite Hg, Hv, (parse_canonical_print _ Hc). reflexivity.
Qed.
Lemma incr_by_fresh d k inc : get_entry d k = None ->
  eng_incr_by d k inc = (Some inc, put_entry d k {| e_val := VStr (print_int inc); e_exp := None |}).
Proof. intros Hg. unfold eng_incr_by. rewrite Hg. reflexivity. Qed.
(** whatever is stored after a successful increment reads back as the reply *)
Lemma incr_by_readback d k inc n d' : in_i64 inc = true ->
  eng_incr_by d k inc = (Some n, d') ->
  in_i64 n = true /\ exists e, get_entry d' k = Some e /\ e_val e = VStr (print_int n).
Proof.
  intros Hi. unfold eng_incr_by. destruct (get_entry d k) as [e|] eqn:Hg.
  - destruct (e_val e); try discriminate. destruct (parse_canonical b) as [cur|]; [|discriminate].
    destruct (in_i64 (cur + inc)) eqn:Er; [|discriminate]. intros H; inversion H; subst.
    split; [exact Er|]. eexists. unfold get_entry, put_entry. cbn [d_data].
    rewrite alookup_aset_same. split; reflexivity.
  - intros H; inversion H; subst. split; [exact Hi|]. eexists. unfold get_entry, put_entry. cbn [d_data].
    rewrite alookup_aset_same. split; reflexivity.
Qed.

(** ---- read-after-write on the abstract dataset ---- *)
Lemma get_entry_put_same d k e : get_entry (put_entry d k e) k = Some e.
Proof. unfold get_entry, put_entry. cbn [d_data]. apply alookup_aset_same. Qed.
Lemma get_entry_put_other d k k' e : beq k' k = false -> get_entry (put_entry d k e) k' = get_entry d k'.
Proof. intros H. unfold get_entry, put_entry. cbn [d_data]. apply alookup_aset_other; exact H. Qed.
Lemma get_entry_del_same d k : get_entry (del_entry d k) k = None.
Proof. unfold get_entry, del_entry. cbn [d_data]. apply alookup_aremove_same. Qed.
Lemma get_entry_del_other d k k' : beq k' k = false -> get_entry (del_entry d k) k' = get_entry d k'.
Proof. intros H. unfold get_entry, del_entry. cbn [d_data]. apply alookup_aremove_other; exact H. Qed.
Lemma get_entry_index d k k' t : get_entry (index_set d k t) k' = get_entry d k'.
Proof. reflexivity. Qed.
Lemma get_entry_index_del d k k' : get_entry (index_del d k) k' = get_entry d k'.
Proof. reflexivity. Qed.

Lemma set_value_get now d k v ttl :
  get_entry (set_value now d k v ttl) k =
  Some {| e_val := v; e_exp := match ttl with Some ms => Some (now + ms) | None => None end |}.
Proof. unfold set_value. destruct ttl; [rewrite get_entry_index|]; apply get_entry_put_same. Qed.
Lemma set_value_other now d k k' v ttl : beq k' k = false ->
  get_entry (set_value now d k v ttl) k' = get_entry d k'.
Proof. intros H. unfold set_value. destruct ttl; [rewrite get_entry_index|]; apply get_entry_put_other; exact H. Qed.

(** SET k v ; GET k = v (plain SET clears any TTL, so the value is live at every later time) *)
Lemma get_after_set now now' d k v : k <> [] ->
  h_get now' (set_value now d k (VStr v) None) [FBulk (bs "GET"); FBulk k] =
  (r_bulk v, set_value now d k (VStr v) None).
Proof.
  intros Hk. unfold h_get, nparts, nth_arg, get_string, eng_get.
  cbn [len length nth_error arg_bytes Z.of_nat Pos.of_succ_nat Pos.succ Z.eqb Pos.eqb negb].
  destruct (beq k []) eqn:E; [apply beq_eq in E; congruence|].
  rewrite set_value_get. unfold expired. cbn [e_exp e_val]. reflexivity.
Qed.
(** DEL k ; GET k = nil *)
Lemma get_after_del now d k : k <> [] ->
  fst (h_get now (snd (eng_delete d k)) [FBulk (bs "GET"); FBulk k]) = r_nil.
Proof.
  intros Hk. unfold h_get, nparts, nth_arg, get_string, eng_get, eng_delete.
  cbn [len length nth_error arg_bytes Z.of_nat Pos.of_succ_nat Pos.succ Z.eqb Pos.eqb negb].
  destruct (beq k []) eqn:E; [apply beq_eq in E; congruence|].
  destruct (get_entry d k) eqn:Hg; cbn [snd].
  - rewrite get_entry_index_del, get_entry_del_same. reflexivity.
  - rewrite Hg. reflexivity.
Qed.

(** ---- failure atomicity ---- *)
Ltac atom_step :=
  match goal with
  | H : (_, _) = (_, _) |- _ => inversion H; clear H; subst
  | H : Some _ = Some _ |- _ => inversion H; clear H; subst
  | H : is_error _ = true |- _ => progress (cbn [is_error r_ok r_err r_wrongtype r_int r_bulk r_nil r_bulks] in H)
  | H : false = true |- _ => discriminate H
  | H : context [if ?c then _ else _] |- _ => destruct c eqn:?
  | H : context [match ?x with _ => _ end] |- _ => destruct x eqn:?
  end.
Ltac atom := intros; repeat atom_step; try discriminate; try reflexivity.

Lemma reply_incr_atomic d k inc r d' :
  reply_incr (eng_incr_by d k inc) = (r, d') -> is_error r = true -> d' = d.
Proof. unfold reply_incr, eng_incr_by. atom. Qed.

Lemma h_set_atomic now d parts r d' : h_set now d parts = (r, d') -> is_error r = true -> d' = d.
Proof. unfold h_set. atom. Qed.
Lemma h_get_atomic now d parts r d' : h_get now d parts = (r, d') -> is_error r = true -> d' = d.
Proof. unfold h_get, get_string, eng_get. atom. Qed.
Lemma h_incr_atomic b delta d parts r d' : h_incr b delta d parts = (r, d') -> is_error r = true -> d' = d.
Proof. unfold h_incr. intros H He. repeat atom_step; try reflexivity; eapply reply_incr_atomic; eauto. Qed.
Lemma h_incrby_atomic d parts r d' : h_incrby d parts = (r, d') -> is_error r = true -> d' = d.
Proof. unfold h_incrby. intros H He. repeat atom_step; try reflexivity; eapply reply_incr_atomic; eauto. Qed.
Lemma h_decrby_atomic d parts r d' : h_decrby d parts = (r, d') -> is_error r = true -> d' = d.
Proof. unfold h_decrby. intros H He. repeat atom_step; try reflexivity; eapply reply_incr_atomic; eauto. Qed.
Lemma h_del_atomic d parts r d' : h_del d parts = (r, d') -> is_error r = true -> d' = d.
Proof. unfold h_del. atom. Qed.
Lemma h_exists_atomic now d parts r d' : h_exists now d parts = (r, d') -> is_error r = true -> d' = d.
Proof. unfold h_exists. atom. Qed.
Lemma h_expire_atomic now d parts r d' : h_expire now d parts = (r, d') -> is_error r = true -> d' = d.
Proof. unfold h_expire, eng_expire, eng_delete. atom. Qed.
Lemma h_pexpire_atomic now d parts r d' : h_pexpire now d parts = (r, d') -> is_error r = true -> d' = d.
Proof. unfold h_pexpire, eng_expire. atom. Qed.
Lemma h_ttl_atomic now d parts r d' : h_ttl now d parts = (r, d') -> is_error r = true -> d' = d.
Proof. unfold h_ttl. atom. Qed.
Lemma h_pttl_atomic now d parts r d' : h_pttl now d parts = (r, d') -> is_error r = true -> d' = d.
Proof. unfold h_pttl. atom. Qed.
Lemma h_persist_atomic d parts r d' : h_persist d parts = (r, d') -> is_error r = true -> d' = d.
Proof. unfold h_persist, eng_persist. atom. Qed.
Lemma h_setnx_atomic now d parts r d' : h_setnx now d parts = (r, d') -> is_error r = true -> d' = d.
Proof. unfold h_setnx. atom. Qed.
Lemma h_setex_atomic m now d parts r d' : h_setex m now d parts = (r, d') -> is_error r = true -> d' = d.
Proof. unfold h_setex. atom. Qed.
Lemma h_getset_atomic now d parts r d' : h_getset now d parts = (r, d') -> is_error r = true -> d' = d.
Proof. unfold h_getset, get_string, eng_get. atom. Qed.
Lemma h_append_atomic d parts r d' : h_append d parts = (r, d') -> is_error r = true -> d' = d.
Proof. unfold h_append. atom. Qed.
Lemma h_strlen_atomic d parts r d' : h_strlen d parts = (r, d') -> is_error r = true -> d' = d.
Proof. unfold h_strlen. atom. Qed.
Lemma h_getrange_atomic d parts r d' : h_getrange d parts = (r, d') -> is_error r = true -> d' = d.
Proof. unfold h_getrange. atom. Qed.
Lemma h_setrange_atomic d parts r d' : h_setrange d parts = (r, d') -> is_error r = true -> d' = d.
Proof. unfold h_setrange, eng_setrange. atom. Qed.
Lemma h_type_atomic d parts r d' : h_type d parts = (r, d') -> is_error r = true -> d' = d.
Proof. unfold h_type. atom. Qed.
Lemma h_rename_atomic d parts r d' : h_rename d parts = (r, d') -> is_error r = true -> d' = d.
Proof. unfold h_rename, eng_rename. atom. Qed.
Lemma h_renamenx_atomic now d parts r d' : h_renamenx now d parts = (r, d') -> is_error r = true -> d' = d.
Proof. unfold h_renamenx, eng_rename. atom. Qed.
Lemma h_keys_atomic d parts r d' : h_keys d parts = (r, d') -> is_error r = true -> d' = d.
Proof. unfold h_keys. atom. Qed.
Lemma h_dbsize_atomic d parts r d' : h_dbsize d parts = (r, d') -> is_error r = true -> d' = d.
Proof. unfold h_dbsize. atom. Qed.
Lemma h_flushdb_atomic d parts r d' : h_flushdb d parts = (r, d') -> is_error r = true -> d' = d.
Proof. unfold h_flushdb. atom. Qed.

(** MSET validates every pair before storing the first (974d7d6): a refused MSET changes nothing *)
Lemma mset_loop_ok now : forall (n : nat) args d, (length args <= n)%nat -> mset_valid args = true ->
  fst (mset_loop now d args) = r_ok.
Proof.
  induction n as [|n IH]; intros args d Hl Hv.
  - destruct args; [reflexivity|cbn in Hl; lia].
  - destruct args as [|a args]; [reflexivity|]. cbn [mset_valid] in Hv. destruct a; try discriminate.
    destruct args as [|a2 args]; [discriminate|]. destruct a2; try discriminate.
    cbn [mset_loop]. apply IH; [cbn [length] in Hl; lia|exact Hv].
Qed.
Lemma h_mset_atomic now d parts r d' : h_mset now d parts = (r, d') -> is_error r = true -> d' = d.
Proof.
  unfold h_mset. intros H He.
  destruct ((nparts parts <? 3) || (nparts parts mod 2 =? 0)); [inversion H; reflexivity|].
  destruct (mset_valid (tl parts)) eqn:V; [|inversion H; reflexivity].
  pose proof (mset_loop_ok now (length (tl parts)) (tl parts) d (le_n _) V) as Ok.
  rewrite H in Ok. cbn [fst] in Ok. subst r. discriminate.
Qed.

Definition is_mset_mget (name : bytes) : bool := beq name (bs "MSET") || beq name (bs "MGET").

Lemma exec_strings_atomic now d name parts r d' :
  exec_strings now d name parts = Some (r, d') -> is_error r = true ->
  is_mset_mget name = false -> d' = d.
Proof.
  unfold exec_strings, is_mset_mget. intros H He Hn. apply orb_false_elim in Hn as [Hn1 Hn2].
  repeat match type of H with
  | (if ?c then _ else _) = _ => destruct c eqn:?
  end; try discriminate; inversion H as [H1]; clear H;
  eauto using h_set_atomic, h_get_atomic, h_incr_atomic, h_incrby_atomic, h_decrby_atomic, h_del_atomic,
    h_exists_atomic, h_expire_atomic, h_pexpire_atomic, h_ttl_atomic, h_pttl_atomic, h_persist_atomic,
    h_setnx_atomic, h_setex_atomic, h_getset_atomic, h_append_atomic, h_strlen_atomic, h_getrange_atomic,
    h_setrange_atomic, h_type_atomic, h_rename_atomic, h_renamenx_atomic, h_keys_atomic, h_dbsize_atomic,
    h_flushdb_atomic.
Qed.

(** the live view of a database: what commands that honour expiry can see *)
Definition view (now : Z) (d : db) (k : bytes) : option entry :=
  match get_entry d k with
  | Some e => if expired now e then None else Some e
  | None => None
  end.
Definition same_view (now : Z) (d d' : db) : Prop := forall k, view now d k = view now d' k.

Lemma eng_get_same_view now d k : same_view now d (snd (eng_get now d k)).
Proof.
  unfold eng_get. destruct (get_entry d k) as [e|] eqn:Hg; [|intros k'; reflexivity].
  destruct (expired now e) eqn:Ee; [|intros k'; reflexivity].
  intros k'. cbn [snd]. unfold view. rewrite get_entry_index_del.
  destruct (beq k' k) eqn:Ek.
  - apply beq_eq in Ek. subst k'. rewrite get_entry_del_same, Hg, Ee. reflexivity.
  - rewrite get_entry_del_other by exact Ek. reflexivity.
Qed.
Lemma get_string_same_view now d k : same_view now d (snd (get_string now d k)).
Proof.
  unfold get_string. pose proof (eng_get_same_view now d k) as H.
  destruct (eng_get now d k) as [[v| |] d1]; cbn [snd] in *; try exact H. destruct v; exact H.
Qed.
Lemma same_view_trans now a b c : same_view now a b -> same_view now b c -> same_view now a c.
Proof. intros H1 H2 k. rewrite H1. apply H2. Qed.

(** MGET refused half-way has only removed entries that were already invisible *)
Lemma mget_loop_same_view now : forall args d acc r d',
  mget_loop now d args acc = (r, d') -> same_view now d d'.
Proof.
  induction args as [|a args IH]; intros d acc r d' H; cbn [mget_loop] in H.
  - inversion H; subst. intros k; reflexivity.
  - destruct a; try (inversion H; subst; intros k; reflexivity).
    pose proof (get_string_same_view now d b) as Hv.
    destruct (get_string now d b) as [[[v|]|] d1]; cbn [snd] in Hv.
    + eapply same_view_trans; [exact Hv|]. eapply IH; exact H.
    + eapply same_view_trans; [exact Hv|]. eapply IH; exact H.
    + inversion H; subst. exact Hv.
Qed.
Lemma h_mget_same_view now d parts r d' : h_mget now d parts = (r, d') -> same_view now d d'.
Proof.
  unfold h_mget. destruct (nparts parts <? 2).
  - intros H; inversion H; subst. intros k; reflexivity.
  - apply mget_loop_same_view.
Qed.

(** ---- well-formedness is an invariant of every command of the family ---- *)
Ltac wf_step :=
  match goal with
  | H : (_, _) = (_, _) |- _ => inversion H; clear H; subst
  | H : Some _ = Some _ |- _ => inversion H; clear H; subst
  | H : context [if ?c then _ else _] |- _ => destruct c eqn:?
  | H : context [match ?x with _ => _ end] |- _ => destruct x eqn:?
  end.
Ltac wf_solve := intros; repeat wf_step; try discriminate; auto 8 with wfdb.

Lemma wf_eng_incr d k inc o d' : wf_db d -> eng_incr_by d k inc = (o, d') -> wf_db d'.
Proof. unfold eng_incr_by. wf_solve. Qed.
Lemma wf_reply_incr d k inc r d' : wf_db d -> reply_incr (eng_incr_by d k inc) = (r, d') -> wf_db d'.
Proof.
  intros Hw H. unfold reply_incr in H. destruct (eng_incr_by d k inc) as [o d1] eqn:E.
  assert (wf_db d1) by (eapply wf_eng_incr; eauto). destruct o; inversion H; subst; assumption.
Qed.
Lemma wf_eng_get now d k g d' : wf_db d -> eng_get now d k = (g, d') -> wf_db d'.
Proof. unfold eng_get. wf_solve. Qed.
Lemma wf_get_string now d k g d' : wf_db d -> get_string now d k = (g, d') -> wf_db d'.
Proof.
  intros Hw H. unfold get_string in H. destruct (eng_get now d k) as [g1 d1] eqn:E.
  assert (wf_db d1) by (eapply wf_eng_get; eauto).
  destruct g1 as [v| |]; [destruct v|..]; inversion H; subst; assumption.
Qed.
Lemma wf_eng_rename d o n ok d' : wf_db d -> eng_rename d o n = (ok, d') -> wf_db d'.
Proof.
  intros Hw E. unfold eng_rename in E. destruct (get_entry d o) as [e|]; inversion E; subst; [|exact Hw].
  destruct (e_exp e); auto 8 with wfdb.
Qed.
Lemma wf_del_loop : forall args d n m d', wf_db d -> del_loop d args n = (m, d') -> wf_db d'.
Proof.
  induction args as [|a args IH]; intros d n m d' Hw H; cbn [del_loop] in H.
  - inversion H; subst; exact Hw.
  - destruct a; try (eapply IH; eauto; fail).
    unfold eng_delete in H. destruct (get_entry d b).
    + eapply IH; [|exact H]. auto with wfdb.
    + eapply IH; eauto.
Qed.
Lemma wf_mget_loop now : forall args d acc r d', wf_db d -> mget_loop now d args acc = (r, d') -> wf_db d'.
Proof.
  induction args as [|a args IH]; intros d acc r d' Hw H; cbn [mget_loop] in H.
  - inversion H; subst; exact Hw.
  - destruct a; try (inversion H; subst; exact Hw).
    destruct (get_string now d b) as [[[v|]|] d1] eqn:E;
      assert (wf_db d1) by (eapply wf_get_string; eauto).
    + eapply IH; eauto.
    + eapply IH; eauto.
    + inversion H; subst; assumption.
Qed.
Lemma wf_mset_loop now : forall (n : nat) args d r d', (length args <= n)%nat ->
  wf_db d -> mset_loop now d args = (r, d') -> wf_db d'.
Proof.
  induction n as [|n IH]; intros args d r d' Hl Hw H.
  - destruct args; [|cbn in Hl; lia]. inversion H; subst; exact Hw.
  - destruct args as [|a args]; [inversion H; subst; exact Hw|].
    cbn [mset_loop] in H. destruct a; try (inversion H; subst; exact Hw).
    destruct args as [|a2 args]; [inversion H; subst; exact Hw|].
    destruct a2; try (inversion H; subst; exact Hw).
    eapply (IH args); [cbn [length] in Hl; lia| |exact H]. auto with wfdb.
Qed.

Lemma exec_strings_wf now d name parts r d' :
  wf_db d -> exec_strings now d name parts = Some (r, d') -> wf_db d'.
Proof.
  unfold exec_strings. intros Hw H.
  repeat match type of H with
  | (if ?c then _ else _) = _ => destruct c eqn:?
  end; try discriminate; inversion H as [H1]; clear H.
  - (* SET *) unfold h_set in H1. wf_solve.
  - unfold h_get in H1. destruct (negb (nparts parts =? 2)); [inversion H1; subst; exact Hw|].
    destruct (nth_arg parts 1); [|inversion H1; subst; exact Hw].
    destruct (beq b []); [inversion H1; subst; exact Hw|].
    destruct (get_string now d b) as [[[v|]|] d1] eqn:E; inversion H1; subst; eapply wf_get_string; eauto.
  - unfold h_incr in H1. repeat wf_step; auto; eapply wf_reply_incr; eauto.
  - unfold h_incr in H1. repeat wf_step; auto; eapply wf_reply_incr; eauto.
  - unfold h_incrby in H1. repeat wf_step; auto; eapply wf_reply_incr; eauto.
  - unfold h_decrby in H1. repeat wf_step; auto; eapply wf_reply_incr; eauto.
  - unfold h_del in H1. destruct (nparts parts <? 2); [inversion H1; subst; exact Hw|].
    destruct (del_loop d (tl parts) 0) eqn:E. inversion H1; subst. eapply wf_del_loop; eauto.
  - unfold h_exists in H1. wf_solve.
  - unfold h_expire, eng_expire, eng_delete in H1. wf_solve.
  - unfold h_pexpire, eng_expire in H1. wf_solve.
  - unfold h_ttl in H1. wf_solve.
  - unfold h_pttl in H1. wf_solve.
  - unfold h_persist, eng_persist in H1. wf_solve.
  - unfold h_setnx in H1. wf_solve.
  - unfold h_setex in H1. wf_solve.
  - unfold h_setex in H1. wf_solve.
  - unfold h_mget in H1. destruct (nparts parts <? 2); [inversion H1; subst; exact Hw|].
    eapply wf_mget_loop; eauto.
  - unfold h_mset in H1. destruct ((nparts parts <? 3) || (nparts parts mod 2 =? 0)); [inversion H1; subst; exact Hw|].
    destruct (mset_valid (tl parts)); [|inversion H1; subst; exact Hw].
    eapply (wf_mset_loop now (length (tl parts))); eauto.
  - unfold h_getset in H1. destruct (negb (nparts parts =? 3)); [inversion H1; subst; exact Hw|].
    destruct (nth_arg parts 1); [|inversion H1; subst; exact Hw].
    destruct (nth_arg parts 2); [|inversion H1; subst; exact Hw].
    destruct (get_string now d b) as [[o|] d1] eqn:E;
      assert (wf_db d1) by (eapply wf_get_string; eauto); inversion H1; subst; auto with wfdb.
  - unfold h_append in H1. wf_solve.
  - unfold h_strlen in H1. wf_solve.
  - unfold h_getrange in H1. wf_solve.
  - unfold h_setrange, eng_setrange in H1. wf_solve.
  - unfold h_type in H1. wf_solve.
  - unfold h_rename in H1. destruct (negb (nparts parts =? 3)); [inversion H1; subst; exact Hw|].
    destruct (nth_arg parts 1); [|inversion H1; subst; exact Hw].
    destruct (nth_arg parts 2); [|inversion H1; subst; exact Hw].
    destruct (eng_rename d b b0) as [ok d1] eqn:E. pose proof (wf_eng_rename _ _ _ _ _ Hw E).
    destruct ok; inversion H1; subst; assumption.
  - unfold h_renamenx in H1. destruct (negb (nparts parts =? 3)); [inversion H1; subst; exact Hw|].
    destruct (nth_arg parts 1); [|inversion H1; subst; exact Hw].
    destruct (nth_arg parts 2); [|inversion H1; subst; exact Hw].
    destruct (negb (eng_exists now d b)); [inversion H1; subst; exact Hw|].
    destruct (eng_exists now d b0); [inversion H1; subst; exact Hw|].
    destruct (eng_rename d b b0) as [ok d1] eqn:E. pose proof (wf_eng_rename _ _ _ _ _ Hw E).
    destruct ok; inversion H1; subst; assumption.
  - unfold h_keys in H1. wf_solve.
  - unfold h_dbsize in H1. wf_solve.
  - unfold h_flushdb in H1. wf_solve.
Qed.

(** ---- histories ---- *)
(** one command of the family applied to a database (unknown names leave it alone) *)
Definition step_strings (now : Z) (d : db) (parts : list frame) : frame * db :=
  match parts with
  | FBulk nm :: _ => match exec_strings now d (upper nm) parts with
                     | Some r => r
                     | None => (r_err, d)
                     end
  | _ => (r_err, d)
  end.
(** a history: commands with their (arbitrary) times; replies in order and the final database *)
Fixpoint run_strings (d : db) (h : list (Z * list frame)) : list frame * db :=
  match h with
  | [] => ([], d)
  | (t, c) :: r => match step_strings t d c with
                   | (rep, d1) => match run_strings d1 r with (reps, d2) => (rep :: reps, d2) end
                   end
  end.

Lemma step_strings_wf now d parts : wf_db d -> wf_db (snd (step_strings now d parts)).
Proof.
  intros Hw. unfold step_strings. destruct parts as [|[] ?]; try exact Hw.
  destruct (exec_strings now d (upper b) (FBulk b :: parts)) as [[r d']|] eqn:E; [|exact Hw].
  cbn [snd]. eapply exec_strings_wf; eauto.
Qed.
Lemma run_strings_wf : forall h d, wf_db d -> wf_db (snd (run_strings d h)).
Proof.
  induction h as [|[t c] h IH]; intros d Hw; [exact Hw|].
  cbn [run_strings]. pose proof (step_strings_wf t d c Hw) as H1.
  destruct (step_strings t d c) as [rep d1]. cbn [snd] in H1. specialize (IH d1 H1).
  destruct (run_strings d1 h) as [reps d2]. exact IH.
Qed.

(** refused commands leave the database alone, along any history *)
Lemma step_strings_atomic now d parts :
  is_error (fst (step_strings now d parts)) = true ->
  match parts with FBulk nm :: _ => is_mset_mget (upper nm) = false | _ => True end ->
  snd (step_strings now d parts) = d.
Proof.
  unfold step_strings. destruct parts as [|[] ?]; try reflexivity.
  destruct (exec_strings now d (upper b) (FBulk b :: parts)) as [[r d']|] eqn:E; [|reflexivity].
  cbn [fst snd]. intros He Hn. eapply exec_strings_atomic; eauto.
Qed.

(** ---- more Redis clauses ---- *)
(** SETRANGE: the result has length max(len b, off + len v); before [off] it is [b] padded
    with zero bytes, then [v], then the rest of [b] *)
Lemma zeros_length n : 0 <= n -> len (zeros n) = n.
Proof. intros H. unfold zeros, len. rewrite repeat_length. lia. Qed.
Lemma setrange_length b off v : 0 <= off ->
  len (setrange_bytes b off v) = Z.max (len b) (off + len v).
Proof.
  intros Ho. unfold setrange_bytes. pose proof (len_nonneg b) as Hb. pose proof (len_nonneg v) as Hv.
  destruct (len b <? off + len v) eqn:E.
  - rewrite !len_app. unfold zfirstn, zskipn, len. rewrite firstn_length, skipn_length, app_length.
    unfold zeros. rewrite repeat_length. unfold len in *. lia.
  - rewrite !len_app. unfold zfirstn, zskipn, len. rewrite firstn_length, skipn_length. unfold len in *. lia.
Qed.
Lemma nth_error_app_l {A} (a b : list A) i : (i < length a)%nat -> nth_error (a ++ b) i = nth_error a i.
Proof. intros H. apply nth_error_app1. exact H. Qed.
Lemma setrange_payload b off v i : 0 <= off -> 0 <= i < len v ->
  nth_error (setrange_bytes b off v) (Z.to_nat (off + i)) = nth_error v (Z.to_nat i).
Proof.
  intros Ho Hi. unfold setrange_bytes. pose proof (len_nonneg b) as Hb.
  set (b' := if len b <? off + len v then b ++ zeros (off + len v - len b) else b).
  assert (Hl : off + len v <= len b').
  { unfold b'. destruct (len b <? off + len v) eqn:E; [rewrite len_app, zeros_length by lia; lia|lia]. }
  assert (Hf : length (zfirstn off b') = Z.to_nat off).
  { unfold zfirstn. rewrite firstn_length. unfold len in Hl. lia. }
  rewrite nth_error_app2 by (rewrite Hf; lia). rewrite Hf.
  rewrite nth_error_app1 by (unfold len in Hi; lia). f_equal. lia.
Qed.

(** RENAME: the destination gets exactly the source's entry (value and deadline), the source
    disappears, every other key is untouched; and (10c8230) the deadline index follows: the
    destination is indexed with exactly the deadline that travelled, the source no longer *)
Definition index_of (d : db) (k : bytes) : option Z := alookup k (d_index d).
Lemma index_of_put d k e k' : index_of (put_entry d k e) k' = index_of d k'.
Proof. reflexivity. Qed.
Lemma index_of_del_entry d k k' : index_of (del_entry d k) k' = index_of d k'.
Proof. reflexivity. Qed.
Lemma rename_spec d o n e k : get_entry d o = Some e ->
  let d' := snd (eng_rename d o n) in
  get_entry d' n = Some e /\
  (beq o n = false -> get_entry d' o = None) /\
  (beq k o = false -> beq k n = false -> get_entry d' k = get_entry d k) /\
  index_of d' n = e_exp e /\
  (beq o n = false -> index_of d' o = None) /\
  (beq k o = false -> beq k n = false -> index_of d' k = index_of d k).
Proof.
  intros Hg. unfold eng_rename. rewrite Hg. cbn [snd]. cbv zeta.
  split; [apply get_entry_put_same|]. split; [|split; [|split; [|split]]].
  - intros Hn. rewrite get_entry_put_other by exact Hn.
    destruct (e_exp e); [rewrite get_entry_index|]; rewrite !get_entry_index_del; apply get_entry_del_same.
  - intros H1 H2. rewrite get_entry_put_other by exact H2.
    destruct (e_exp e); [rewrite get_entry_index|]; rewrite !get_entry_index_del; apply get_entry_del_other; exact H1.
  - rewrite index_of_put. unfold index_of. destruct (e_exp e); cbn [index_set index_del d_index].
    + apply alookup_aset_same.
    + apply alookup_aremove_same.
  - intros Hn. rewrite index_of_put. unfold index_of. destruct (e_exp e); cbn [index_set index_del del_entry d_index].
    + rewrite alookup_aset_other by exact Hn. apply alookup_aremove_same.
    + rewrite alookup_aremove_other by exact Hn. apply alookup_aremove_same.
  - intros H1 H2. rewrite index_of_put. unfold index_of. destruct (e_exp e); cbn [index_set index_del del_entry d_index].
    + rewrite alookup_aset_other by exact H2. apply alookup_aremove_other; exact H1.
    + rewrite alookup_aremove_other by exact H2. apply alookup_aremove_other; exact H1.
Qed.

(** SET with NX / XX: NX writes only when the key is absent (or expired), XX only when present *)
Lemma set_nx_spec now d k v :
  k <> [] ->
  h_set now d [FBulk (bs "SET"); FBulk k; FBulk v; FBulk (bs "NX")] =
  if eng_exists now d k then (r_nil, d) else (r_ok, set_value now d k (VStr v) None).
Proof.
  intros Hk. unfold h_set. change (nparts _ <? 3) with false. cbv iota.
  cbn [nth_error arg_bytes]. destruct (beq k []) eqn:E; [apply beq_eq in E; congruence|].
  change (parse_set_opts _ _ None false false false false) with (SetOpts None true false). cbv iota.
  destruct (eng_exists now d k); reflexivity.
Qed.
Lemma set_xx_spec now d k v :
  k <> [] ->
  h_set now d [FBulk (bs "SET"); FBulk k; FBulk v; FBulk (bs "XX")] =
  if eng_exists now d k then (r_ok, set_value now d k (VStr v) None) else (r_nil, d).
Proof.
  intros Hk. unfold h_set. change (nparts _ <? 3) with false. cbv iota.
  cbn [nth_error arg_bytes]. destruct (beq k []) eqn:E; [apply beq_eq in E; congruence|].
  change (parse_set_opts _ _ None false false false false) with (SetOpts None false true). cbv iota.
  destruct (eng_exists now d k); reflexivity.
Qed.

(** APPEND to a string is concatenation, the reply is the new length; on a missing key it
    creates the value *)
Lemma append_spec d k v :
  h_append d [FBulk (bs "APPEND"); FBulk k; FBulk v] =
  match get_entry d k with
  | Some e => match e_val e with
              | VStr b => (r_int (len (b ++ v)), put_entry d k {| e_val := VStr (b ++ v); e_exp := e_exp e |})
              | _ => (r_wrongtype, d)
              end
  | None => (r_int (len v), put_entry d k {| e_val := VStr v; e_exp := None |})
  end.
Proof. reflexivity. Qed.

(** EXISTS counts each named key once per mention (non-bulk arguments are skipped) *)
Fixpoint bulks_of (l : list frame) : list bytes :=
  match l with [] => [] | FBulk b :: r => b :: bulks_of r | _ :: r => bulks_of r end.
Lemma exists_count_spec now d : forall args n,
  exists_count now d args n = n + len (filter (fun k => eng_exists now d k) (bulks_of args)).
Proof.
  induction args as [|a args IH]; intros n; cbn [exists_count bulks_of filter].
  - change (len (@nil bytes)) with 0. lia.
  - destruct a; try apply IH. rewrite IH. cbn [filter]. destruct (eng_exists now d b).
    + rewrite len_cons. lia.
    + reflexivity.
Qed.

(** ---- SETRANGE with an empty value (6988c1c): nothing changes, the reply is the current length ---- *)
Definition cur_len (d : db) (k : bytes) : frame :=
  match get_entry d k with
  | Some e => match e_val e with VStr b => r_int (len b) | _ => r_wrongtype end
  | None => r_int 0
  end.
Lemma setrange_empty_noop d k off : eng_setrange d k off [] = (cur_len d k, d).
Proof.
  unfold eng_setrange, cur_len. change (len (@nil Z) =? 0) with true. cbv iota.
  destruct (get_entry d k) as [e|]; [destruct (e_val e)|]; reflexivity.
Qed.
(** ... for every offset the argument can spell, through the handler *)
Lemma h_setrange_empty d nm k a off : parse_usize a = Some off ->
  h_setrange d [FBulk nm; FBulk k; FBulk a; FBulk []] = (cur_len d k, d).
Proof.
  intros Ha. unfold h_setrange. change (negb (nparts _ =? 4)) with false. cbv iota.
  cbn [nth_arg nth_error arg_bytes]. rewrite Ha. apply setrange_empty_noop.
Qed.
(** ... and it agrees with STRLEN *)
Lemma setrange_empty_is_strlen d nm nm' k a off : parse_usize a = Some off ->
  h_setrange d [FBulk nm; FBulk k; FBulk a; FBulk []] = h_strlen d [FBulk nm'; FBulk k].
Proof.
  intros Ha. rewrite (h_setrange_empty _ _ _ _ _ Ha). unfold h_strlen, cur_len.
  change (negb (nparts _ =? 2)) with false. cbv iota. cbn [nth_arg nth_error arg_bytes].
  destruct (get_entry d k) as [e|]; [destruct (e_val e)|]; reflexivity.
Qed.

(** ---- SET: EX and PX exclude each other (d6b03fb), in either order, whatever the two counts are
    and whatever follows ---- *)
Definition set_refused (r : setopt) : bool := match r with SetOpts _ _ _ => false | _ => true end.
Lemma set_opts_ex_px fuel a b tail ttl ex px nx xx :
  set_refused (parse_set_opts (S (S fuel)) (FBulk (bs "EX") :: FBulk a :: FBulk (bs "PX") :: b :: tail) ttl ex px nx xx) = true /\
  set_refused (parse_set_opts (S (S fuel)) (FBulk (bs "PX") :: FBulk a :: FBulk (bs "EX") :: b :: tail) ttl ex px nx xx) = true.
Proof.
  cbn [parse_set_opts].
  change (beq (upper (bs "EX")) (bs "EX")) with true. change (beq (upper (bs "PX")) (bs "EX")) with false.
  change (beq (upper (bs "PX")) (bs "PX")) with true. cbv iota.
  split.
  - destruct px; [reflexivity|]. destruct (parse_u64 a) as [n|]; [|reflexivity]. destruct (n =? 0); reflexivity.
  - destruct ex; [reflexivity|]. destruct (parse_u64 a) as [n|]; [|reflexivity]. destruct (n =? 0); reflexivity.
Qed.
Lemma h_set_refused now d nm k v opts :
  set_refused (parse_set_opts (length (FBulk nm :: FBulk k :: FBulk v :: opts)) opts None false false false false) = true ->
  h_set now d (FBulk nm :: FBulk k :: FBulk v :: opts) = (r_err, d).
Proof.
  intros H. unfold h_set. cbn [nth_error arg_bytes skipn].
  destruct (nparts _ <? 3); [reflexivity|]. destruct (beq k []); [reflexivity|].
  destruct (parse_set_opts _ opts None false false false false); [discriminate H|reflexivity|reflexivity].
Qed.
Lemma set_ex_px_refused now d nm k v a b tail :
  h_set now d (FBulk nm :: FBulk k :: FBulk v :: FBulk (bs "EX") :: FBulk a :: FBulk (bs "PX") :: b :: tail) = (r_err, d) /\
  h_set now d (FBulk nm :: FBulk k :: FBulk v :: FBulk (bs "PX") :: FBulk a :: FBulk (bs "EX") :: b :: tail) = (r_err, d).
Proof.
  split; apply h_set_refused; cbn [length]; apply set_opts_ex_px.
Qed.

(** ---- SETEX / PSETEX (02eb367): a count of 0 is refused and stores nothing ---- *)
Lemma setex_zero_refused m now d parts a : nth_arg parts 2 = Some a -> parse_u64 a = Some 0 ->
  h_setex m now d parts = (r_err, d).
Proof.
  intros Ha Hz. unfold h_setex. destruct (negb (nparts parts =? 4)); [reflexivity|].
  destruct (nth_arg parts 1); [|reflexivity]. rewrite Ha, Hz. reflexivity.
Qed.
(** what SETEX / PSETEX store always has a deadline strictly in the future *)
Lemma setex_deadline_future m now d parts r d' k e : 0 < m ->
  h_setex m now d parts = (r, d') -> r = r_ok -> nth_arg parts 1 = Some k ->
  get_entry d' k = Some e -> exists t, e_exp e = Some t /\ now < t.
Proof.
  intros Hm H Hr Hk Hg. unfold h_setex in H. destruct (negb (nparts parts =? 4)); [inversion H; subst; discriminate|].
  rewrite Hk in H. destruct (nth_arg parts 2) as [a|]; [|inversion H; subst; discriminate].
  destruct (parse_u64 a) as [n|] eqn:Ea; [|inversion H; subst; discriminate].
  destruct (n =? 0) eqn:En; [inversion H; subst; discriminate|].
  destruct (nth_arg parts 3) as [v|]; [|inversion H; subst; discriminate].
  destruct (ttl_ok (n * m)); [|inversion H; subst; discriminate].
  assert (Hd : d' = set_value now d k (VStr v) (Some (n * m))) by (inversion H; reflexivity).
  rewrite Hd, set_value_get in Hg. inversion Hg; subst e. cbn [e_exp].
  eexists. split; [reflexivity|].
  assert (0 <= n).
  { unfold parse_u64, parse_unsigned in Ea.
    assert (G : forall l acc v0, 0 <= acc -> digits_val l acc = Some v0 -> 0 <= v0).
    { induction l as [|c l IH]; intros acc v0 Ha0 E; cbn [digits_val] in E; [inversion E; subst; exact Ha0|].
      destruct (is_digit c) eqn:Ed; [|discriminate]. unfold is_digit in Ed. eapply IH; [|exact E]. lia. }
    assert (G2 : forall l v0, parse_digits l = Some v0 -> 0 <= v0).
    { intros l v0. unfold parse_digits. destruct l; [discriminate|]. apply G. lia. }
    match type of Ea with match ?r with _ => _ end = _ => destruct r as [v0|] eqn:Er; [|discriminate] end.
    destruct (v0 <=? u64_max); [|discriminate]. inversion Ea; subst.
    destruct a as [|c a']; [discriminate|].
    destruct c as [|p|p]; try (apply (G2 _ _ Er)).
    do 6 (destruct p as [p|p|]; try (apply (G2 _ _ Er))). }
  apply Z.eqb_neq in En. nia.
Qed.
