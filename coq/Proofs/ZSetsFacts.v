(** Lemmas for C04 at the command level (Model/ZSets.v): index translation of
    ZRANGE/ZREVRANGE against the Redis rule, engine-level refinement, database
    invariant, failure atomicity, witnesses of the recorded defect classes. *)
From Coq Require Import Sorting.Sorted Sorting.Permutation.
From Ferrous Require Import Base.Bytes Model.Resp Model.Types Model.Strings Model.SkipList Model.ZSets
  Spec.ZSet Proofs.BytesFacts Proofs.SkipListFacts.
Open Scope Z_scope.

Lemma z2sl_eq z : z2sl z = sl_of_items z.
Proof. reflexivity. Qed.
Lemma sl2z_z2sl z : sl2z (z2sl z) = z.
Proof. apply sl_of_items_items. Qed.
Lemma nodes_kv_eq l : nodes_kv l = map kv l.
Proof. reflexivity. Qed.

Ltac brk :=
  repeat match goal with
  | |- context [?a <? ?b] => destruct (Z.ltb_spec a b)
  | |- context [?a <=? ?b] => destruct (Z.leb_spec a b)
  | |- context [?a =? ?b] => destruct (Z.eqb_spec a b)
  end; cbn [orb andb negb].

(** ---- rank ranges ---- *)
Lemma rbr_items s a b : sl_length s = len (sl_nodes s) -> 0 <= a ->
  nodes_kv (sl_range_by_rank s a b) =
  if sl_length s <=? a then []
  else firstn (Z.to_nat (Z.min (b + 1) (sl_length s) - a)) (skipn (Z.to_nat a) (sl_items s)).
Proof.
  intros E Ha. unfold sl_range_by_rank. destruct (sl_length s <=? a); [reflexivity|].
  rewrite nodes_kv_eq, sl_items_kv, skipn_map, firstn_map. reflexivity.
Qed.

Lemma len_items s : len (sl_items s) = len (sl_nodes s).
Proof. unfold len, sl_items. rewrite map_length. reflexivity. Qed.

(** ZRANGE: outside the recorded class the code's index translation is Redis' rule *)
Theorem zrange_fwd_redis s start stop :
  sl_length s = len (sl_nodes s) -> kf_zrange_fwd (sl_length s) start stop = false ->
  zrange_of s start stop false = redis_slice (sl_items s) start stop.
Proof.
  intros E K. unfold zrange_of, redis_slice, redis_range, sl_len. rewrite len_items, <- E.
  set (ln := sl_length s) in *. unfold kf_zrange_fwd in K.
  assert (Hln : 0 <= ln) by (rewrite E; apply len_nonneg).
  destruct (Z.eqb_spec ln 0) as [Z0|NZ].
  - assert (sl_items s = []) as ->.
    { pose proof (len_items s) as L. rewrite <- E in L. rewrite Z0 in L. unfold len in L.
      destruct (sl_items s); [reflexivity|cbn in L; lia]. }
    brk; try reflexivity; exfalso; lia.
  - revert K. brk; intro K; try discriminate; try reflexivity; try lia;
    rewrite rbr_items by (try exact E; lia); fold ln; brk; try lia; try reflexivity;
    f_equal; try lia; f_equal; lia.
Qed.

Lemma rev_slice {A} (l : list A) a n : (a + n <= length l)%nat ->
  rev (firstn n (skipn a l)) = firstn n (skipn (length l - a - n) (rev l)).
Proof.
  intro H.
  set (l1 := firstn a l). set (l2 := firstn n (skipn a l)). set (l3 := skipn n (skipn a l)).
  assert (E : l = l1 ++ l2 ++ l3).
  { unfold l1, l2, l3. rewrite (firstn_skipn n (skipn a l)). symmetry. apply firstn_skipn. }
  assert (L1 : length l1 = a) by (unfold l1; rewrite firstn_length; lia).
  assert (L2 : length l2 = n) by (unfold l2; rewrite firstn_length, skipn_length; lia).
  assert (L3 : length l3 = (length l - a - n)%nat) by (unfold l3; rewrite !skipn_length; lia).
  fold l2. replace (length l - a - n)%nat with (length (rev l3)) by (rewrite rev_length; lia).
  assert (R : rev l = rev l3 ++ rev l2 ++ rev l1).
  { clearbody l1 l2 l3. subst l. rewrite !rev_app_distr, <- app_assoc. reflexivity. }
  rewrite R.
  rewrite skipn_len_app. clearbody l2. subst n. rewrite <- (rev_length l2). symmetry. apply firstn_len_app.
Qed.

(** ZREVRANGE: outside the recorded classes it is Redis' rule on the reversed order *)
Theorem zrange_rev_redis s start stop :
  sl_length s = len (sl_nodes s) -> kf_zrange_rev (sl_length s) start stop = false ->
  zrange_of s start stop true = redis_slice (rev (sl_items s)) start stop.
Proof.
  intros E K. unfold zrange_of, redis_slice, redis_range, sl_len.
  assert (Lr : len (rev (sl_items s)) = sl_length s) by (unfold len; rewrite rev_length; fold (len (sl_items s)); rewrite len_items; auto).
  rewrite Lr.
  assert (Ll : length (sl_items s) = Z.to_nat (sl_length s)).
  { rewrite E, <- len_items. unfold len. lia. }
  set (ln := sl_length s) in *. unfold kf_zrange_rev in K.
  assert (Hln : 0 <= ln) by (rewrite E; apply len_nonneg).
  destruct (Z.eqb_spec ln 0) as [Z0|NZ].
  - assert (sl_items s = []) as ->.
    { destruct (sl_items s); [reflexivity|cbn in Ll; lia]. }
    cbn [rev]. brk; try reflexivity; exfalso; lia.
  - rewrite rbr_items by (try exact E; unfold sat_sub; lia). fold ln. unfold sat_sub in *.
    revert K. brk; intro K; try discriminate; try lia;
    match goal with
    | |- rev (firstn ?n _) = [] => replace n with O by lia; reflexivity
    | |- rev (firstn ?n (skipn ?a _)) = firstn _ _ =>
        rewrite (rev_slice (sl_items s) a n) by lia; rewrite Ll; f_equal; try lia; f_equal; lia
    end.
Qed.
