(** Lemmas for C04 at the command level (Model/ZSets.v): index translation of
    ZRANGE/ZREVRANGE against the Redis rule, engine-level refinement, database
    invariant, failure atomicity, witnesses of the recorded defect classes. *)
From Coq Require Import Sorting.Sorted Sorting.Permutation.
From Ferrous Require Import Base.Bytes Model.Resp Model.Types Model.Strings Model.SkipList Model.ZSets
  Spec.ZSet Proofs.BytesFacts Proofs.SkipListFacts.
Open Scope Z_scope.

Lemma z2sl_eq z : z2sl z = sl_of_items z.
Proof. reflexivity. Qed.
Lemma sl2z_z2sl z : sl2z (z2sl z) = z.
Proof. apply sl_of_items_items. Qed.
Lemma nodes_kv_eq l : nodes_kv l = map kv l.
Proof. reflexivity. Qed.

Ltac brk :=
  repeat match goal with
  | |- context [?a <? ?b] => destruct (Z.ltb_spec a b)
  | |- context [?a <=? ?b] => destruct (Z.leb_spec a b)
  | |- context [?a =? ?b] => destruct (Z.eqb_spec a b)
  end; cbn [orb andb negb].

(** ---- rank ranges ---- *)
Lemma rbr_items s a b : sl_length s = len (sl_nodes s) -> 0 <= a ->
  nodes_kv (sl_range_by_rank s a b) =
  if sl_length s <=? a then []
  else firstn (Z.to_nat (Z.min (b + 1) (sl_length s) - a)) (skipn (Z.to_nat a) (sl_items s)).
Proof.
  intros E Ha. unfold sl_range_by_rank. destruct (sl_length s <=? a); [reflexivity|].
  rewrite nodes_kv_eq, sl_items_kv, skipn_map, firstn_map. reflexivity.
Qed.

Lemma len_items s : len (sl_items s) = len (sl_nodes s).
Proof. unfold len, sl_items. rewrite map_length. reflexivity. Qed.

Ltac bool_eq := apply Bool.eq_iff_eq_true; rewrite ?Bool.orb_true_iff, ?Bool.andb_true_iff, ?Z.leb_le, ?Z.ltb_lt, ?Z.eqb_eq; lia.
Ltac cond_false H := apply Bool.orb_false_iff in H; destruct H as [?H ?H]; rewrite ?Z.leb_gt, ?Z.ltb_ge in *.

Lemma items_nil_len0 s : sl_length s = len (sl_nodes s) -> sl_length s = 0 -> sl_items s = [].
Proof.
  intros E Z0. pose proof (len_items s) as L. rewrite <- E, Z0 in L. unfold len in L.
  destruct (sl_items s); [reflexivity|cbn in L; lia].
Qed.

Lemma rev_slice {A} (l : list A) a n : (a + n <= length l)%nat ->
  rev (firstn n (skipn a l)) = firstn n (skipn (length l - a - n) (rev l)).
Proof.
  intro H.
  set (l1 := firstn a l). set (l2 := firstn n (skipn a l)). set (l3 := skipn n (skipn a l)).
  assert (E : l = l1 ++ l2 ++ l3).
  { unfold l1, l2, l3. rewrite (firstn_skipn n (skipn a l)). symmetry. apply firstn_skipn. }
  assert (L1 : length l1 = a) by (unfold l1; rewrite firstn_length; lia).
  assert (L2 : length l2 = n) by (unfold l2; rewrite firstn_length, skipn_length; lia).
  assert (L3 : length l3 = (length l - a - n)%nat) by (unfold l3; rewrite !skipn_length; lia).
  fold l2. replace (length l - a - n)%nat with (length (rev l3)) by (rewrite rev_length; lia).
  assert (R : rev l = rev l3 ++ rev l2 ++ rev l1).
  { clearbody l1 l2 l3. subst l. rewrite !rev_app_distr, <- app_assoc. reflexivity. }
  rewrite R.
  rewrite skipn_len_app. clearbody l2. subst n. rewrite <- (rev_length l2). symmetry. apply firstn_len_app.
Qed.

(** ZRANGE / ZREVRANGE: the code's index translation is Redis' rule, for all start and stop.
    (The case analyses are arranged to keep the number of arithmetic certificates small:
    coqchk re-checks each of them without the VM.) *)
Theorem zrange_fwd_redis s start stop :
  sl_length s = len (sl_nodes s) ->
  zrange_of s start stop false = redis_slice (sl_items s) start stop.
Proof.
  intros E. unfold zrange_of, redis_slice, redis_range, sl_len. rewrite len_items, <- E.
  assert (Hln : 0 <= sl_length s) by (rewrite E; apply len_nonneg).
  destruct (Z.eqb_spec (sl_length s) 0) as [Z0|NZ].
  - rewrite (items_nil_len0 s E Z0). destruct (if _ || _ then None else _) as [[? ?]|]; [rewrite skipn_nil, firstn_nil; reflexivity|reflexivity].
  - set (ln := sl_length s) in *.
    destruct (Z.ltb_spec start 0) as [S0|S0]; destruct (Z.ltb_spec stop 0) as [T0|T0];
    match goal with |- (if ?c1 then _ else _) = match (if ?c2 then _ else _) with _ => _ end =>
      assert (C : c1 = c2) by bool_eq; try rewrite C; clear C; destruct c2 eqn:Cnd end;
    try reflexivity; cond_false Cnd;
    rewrite rbr_items by (try exact E; lia); fold ln;
    match goal with |- (if ?c then _ else _) = _ => assert (Cf : c = false) by (apply Z.leb_gt; lia); rewrite Cf; clear Cf end;
    (f_equal; first [lia | f_equal; lia]).
Qed.
Theorem zrange_rev_redis s start stop :
  sl_length s = len (sl_nodes s) ->
  zrange_of s start stop true = redis_slice (rev (sl_items s)) start stop.
Proof.
  intros E. unfold zrange_of, redis_slice, redis_range, sl_len.
  assert (Lr : len (rev (sl_items s)) = sl_length s) by (unfold len; rewrite rev_length; fold (len (sl_items s)); rewrite len_items; auto).
  rewrite Lr.
  assert (Ll : length (sl_items s) = Z.to_nat (sl_length s)).
  { rewrite E, <- len_items. unfold len. lia. }
  assert (Hln : 0 <= sl_length s) by (rewrite E; apply len_nonneg).
  destruct (Z.eqb_spec (sl_length s) 0) as [Z0|NZ].
  - rewrite (items_nil_len0 s E Z0). cbn [rev].
    destruct (if _ || _ then None else _) as [[? ?]|]; [rewrite skipn_nil, firstn_nil; reflexivity|reflexivity].
  - set (ln := sl_length s) in *.
    destruct (Z.ltb_spec start 0) as [S0|S0]; destruct (Z.ltb_spec stop 0) as [T0|T0];
    match goal with |- (if ?c1 then _ else _) = match (if ?c2 then _ else _) with _ => _ end =>
      assert (C : c1 = c2) by bool_eq; try rewrite C; clear C; destruct c2 eqn:Cnd end;
    try reflexivity; cond_false Cnd;
    rewrite rbr_items by (try exact E; lia); fold ln;
    match goal with |- rev (if ?c then _ else _) = _ => assert (Cf : c = false) by (apply Z.leb_gt; lia); rewrite Cf; clear Cf end;
    match goal with |- rev (firstn ?n (skipn ?a _)) = firstn _ _ =>
      rewrite (rev_slice (sl_items s) a n) by lia; rewrite Ll; (f_equal; first [lia | f_equal; lia]) end.
Qed.

(** ---- databases ---- *)
(** every stored sorted set is well formed and non-empty *)
Definition db_zok (d : db) : Prop :=
  forall k e z, get_entry d k = Some e -> e_val e = VZSet z -> zs_ok z /\ z <> [].
(** the sorted set under a key: None = another type; a missing key is the empty set *)
Definition zget (d : db) (key : bytes) : option zset :=
  match get_entry d key with
  | Some e => match e_val e with VZSet z => Some z | _ => None end
  | None => Some []
  end.

Lemma get_put d k e k' : get_entry (put_entry d k e) k' = if beq k' k then Some e else get_entry d k'.
Proof. unfold get_entry, put_entry. cbn [d_data]. apply alookup_aset. Qed.
Lemma get_del d k k' : get_entry (del_entry d k) k' = if beq k' k then None else get_entry d k'.
Proof. unfold get_entry, del_entry. cbn [d_data]. apply alookup_aremove. Qed.

Lemma db_zok_put d key z x : db_zok d -> zs_ok z -> z <> [] ->
  db_zok (put_entry d key {| e_val := VZSet z; e_exp := x |}).
Proof.
  intros D Z NE k e z' G V. rewrite get_put in G. destruct (beq k key).
  - inversion G. subst e. cbn [e_val] in V. inversion V. subst. auto.
  - eapply D; eauto.
Qed.
Lemma db_zok_del d key : db_zok d -> db_zok (del_entry d key).
Proof.
  intros D k e z G V. rewrite get_del in G. destruct (beq k key); [discriminate|]. eapply D; eauto.
Qed.
Lemma db_zok_empty : db_zok empty_db.
Proof. intros k e z G. discriminate. Qed.

Lemma zs_ok_nil : zs_ok [].
Proof. repeat split; constructor. Qed.
Lemma zs_place_nonnil e l : zs_place e l <> [].
Proof. destruct l as [|x l]; cbn [zs_place]; [discriminate|]. destruct (elt_ltb x e); discriminate. Qed.
Lemma zs_add_nonnil m v l : zs_add m v l <> [].
Proof. apply zs_place_nonnil. Qed.

Lemma sl_new_of_items : sl_new = sl_of_items [].
Proof. reflexivity. Qed.

(** one skip-list insertion on a stored value *)
Lemma insert_stored z m sc : zs_ok z -> f_is_nan sc = false ->
  sl_insert (z2sl z) m sc 0 = (zs_lookup m z, snd (sl_insert (z2sl z) m sc 0)) /\
  sl2z (snd (sl_insert (z2sl z) m sc 0)) = zs_add m sc z.
Proof.
  intros Z Hs. pose proof (zs_ok_inv z Z) as I. rewrite z2sl_eq.
  destruct (sl_insert_refines (sl_of_items z) m sc 0 I Hs) as [E1 E2].
  rewrite sl_of_items_items in E1, E2. split; [|exact E1].
  rewrite <- E2. destruct (sl_insert (sl_of_items z) m sc 0); reflexivity.
Qed.
Lemma remove_stored z m : zs_ok z ->
  sl_remove (z2sl z) m = (zs_lookup m z, snd (sl_remove (z2sl z) m)) /\
  sl2z (snd (sl_remove (z2sl z) m)) = zs_remove m z /\
  sl_is_empty (snd (sl_remove (z2sl z) m)) = match zs_remove m z with [] => true | _ => false end.
Proof.
  intro Z. pose proof (zs_ok_inv z Z) as I. rewrite z2sl_eq.
  destruct (sl_remove_refines (sl_of_items z) m I) as [E1 E2].
  rewrite sl_of_items_items in E1, E2. split; [|split; [exact E1|]].
  - rewrite <- E2. destruct (sl_remove (sl_of_items z) m); reflexivity.
  - pose proof (sl_remove_inv (sl_of_items z) m I) as I'.
    unfold sl_is_empty. rewrite (inv_length _ I'), <- len_items. unfold sl2z in E1. rewrite E1.
    destruct (zs_remove m z); cbn; reflexivity.
Qed.

Lemma zget_some d key z : zget d key = Some z -> db_zok d -> zs_ok z.
Proof.
  unfold zget. intros G D. destruct (get_entry d key) as [e|] eqn:E.
  - destruct (e_val e) eqn:V; try discriminate. inversion G. subst. apply (D key e z E V).
  - inversion G. apply zs_ok_nil.
Qed.

(** ZADD of one pair at the engine: NaN is refused; otherwise the stored set becomes [zs_add] of the old one *)
Lemma eng_zadd_nan d key m sc : f_is_nan sc = true -> eng_zadd d key m sc = EErr.
Proof. intro H. unfold eng_zadd. rewrite H. reflexivity. Qed.

Theorem eng_zadd_spec d key m sc : db_zok d -> f_is_nan sc = false ->
  match zget d key with
  | None => eng_zadd d key m sc = EWrongType
  | Some z => exists d', eng_zadd d key m sc = EOk (is_none (zs_lookup m z), d') /\
                         zget d' key = Some (zs_add m sc z) /\
                         (forall k', k' <> key -> get_entry d' k' = get_entry d k') /\ db_zok d'
  end.
Proof.
  intros D Hs. pose proof (zget_some d key) as ZS. unfold zget in *. unfold eng_zadd. rewrite Hs.
  destruct (get_entry d key) as [e|] eqn:E.
  - destruct (e_val e) eqn:V; try reflexivity.
    specialize (ZS z eq_refl D). destruct (insert_stored z m sc ZS Hs) as [E1 E2]. rewrite E1, E2.
    eexists. split; [reflexivity|]. split; [|split].
    + rewrite get_put, beq_refl. reflexivity.
    + intros k' Hne. rewrite get_put. apply beq_false_ne in Hne. rewrite Hne. reflexivity.
    + apply db_zok_put; [exact D|apply zs_add_ok; assumption|apply zs_add_nonnil].
  - rewrite sl_new_of_items, <- z2sl_eq. destruct (insert_stored [] m sc zs_ok_nil Hs) as [E1 E2]. rewrite E1, E2.
    eexists. split; [reflexivity|]. split; [|split].
    + rewrite get_put, beq_refl. reflexivity.
    + intros k' Hne. rewrite get_put. apply beq_false_ne in Hne. rewrite Hne. reflexivity.
    + apply db_zok_put; [exact D|apply zs_add_ok; [apply zs_ok_nil|assumption]|apply zs_add_nonnil].
Qed.

(** ZREM of one member at the engine; removing the last member removes the key *)
Theorem eng_zrem_spec d key m : db_zok d ->
  match zget d key with
  | None => eng_zrem d key m = None
  | Some z => exists d', eng_zrem d key m = Some (negb (is_none (zs_lookup m z)), d') /\
                         zget d' key = Some (zs_remove m z) /\
                         (zs_remove m z = [] -> get_entry d' key = None) /\
                         (forall k', k' <> key -> get_entry d' k' = get_entry d k') /\ db_zok d'
  end.
Proof.
  intros D. pose proof (zget_some d key) as ZS. unfold zget in *. unfold eng_zrem.
  destruct (get_entry d key) as [e|] eqn:E.
  - destruct (e_val e) eqn:V; try reflexivity.
    specialize (ZS z eq_refl D). destruct (remove_stored z m ZS) as (E1 & E2 & E3). rewrite E1, E3, E2.
    destruct (zs_lookup m z) as [old|] eqn:L; cbn [is_none negb].
    + destruct (zs_remove m z) as [|x r] eqn:R.
      * eexists. split; [reflexivity|]. split; [|split; [|split]].
        -- rewrite get_del, beq_refl. reflexivity.
        -- intros _. rewrite get_del, beq_refl. reflexivity.
        -- intros k' Hne. rewrite get_del. apply beq_false_ne in Hne. rewrite Hne. reflexivity.
        -- apply db_zok_del, D.
      * eexists. split; [reflexivity|]. split; [|split; [|split]].
        -- rewrite get_put, beq_refl. reflexivity.
        -- discriminate.
        -- intros k' Hne. rewrite get_put. apply beq_false_ne in Hne. rewrite Hne. reflexivity.
        -- apply db_zok_put; [exact D|rewrite <- R; apply zs_remove_ok, ZS|discriminate].
    + eexists. split; [reflexivity|]. rewrite (zs_remove_absent m z L). split; [|split; [|split]].
      * rewrite E, V. reflexivity.
      * intro. subst z. destruct (D key e [] E V) as [_ NE]. congruence.
      * reflexivity.
      * exact D.
  - eexists. split; [reflexivity|]. cbn [zs_remove]. split; [|split; [|split]].
    + rewrite E. reflexivity.
    + intros _. exact E.
    + reflexivity.
    + exact D.
Qed.

(** ---- every command preserves the database invariant ---- *)
Lemma float_arg_oscore parts oracle i b : float_arg parts oracle i = Some b -> oscore oracle i = Some b.
Proof. unfold float_arg. destruct (nth_error parts i) as [[]|]; try discriminate. auto. Qed.

Lemma eng_zadd_zok d key m sc b d' : db_zok d -> eng_zadd d key m sc = EOk (b, d') -> db_zok d'.
Proof.
  intros D E. destruct (f_is_nan sc) eqn:Hs; [rewrite (eng_zadd_nan d key m sc Hs) in E; discriminate|].
  pose proof (eng_zadd_spec d key m sc D Hs) as S.
  destruct (zget d key); [|congruence]. destruct S as (d'' & E' & _ & _ & D'). rewrite E in E'. inversion E'. subst. exact D'.
Qed.
Lemma eng_zrem_zok d key m b d' : db_zok d -> eng_zrem d key m = Some (b, d') -> db_zok d'.
Proof.
  intros D E. pose proof (eng_zrem_spec d key m D) as S.
  destruct (zget d key); [|congruence]. destruct S as (d'' & E' & _ & _ & _ & D'). rewrite E in E'. inversion E'. subst. exact D'.
Qed.

(** ZINCRBY at the engine: whatever sum the oracle reports, only a non-NaN score is stored *)
Theorem eng_zincrby_spec d key m inc sum : db_zok d ->
  match eng_zincrby d key m inc sum with
  | EOk (v, d') => f_is_nan v = false /\ db_zok d' /\
                   exists z, zget d key = Some z /\ zget d' key = Some (zs_add m v z) /\
                             (zs_lookup m z = None -> v = inc) /\ (zs_lookup m z <> None -> sum = Some v)
  | EWrongType => zget d key = None /\ f_is_nan inc = false
  | EErr => True
  end.
Proof.
  intros D. unfold eng_zincrby, zget. destruct (f_is_nan inc) eqn:Hi; [exact I|].
  destruct (get_entry d key) as [e|] eqn:E.
  - destruct (e_val e) eqn:V; try (split; reflexivity).
    destruct (D key e z E V) as [Z NE].
    unfold sl_get_score. cbn [z2sl sl_index]. rewrite alookup_zs_lookup.
    destruct (zs_lookup m z) as [old|] eqn:L.
    + destruct sum as [v|]; [|exact I]. destruct (f_is_nan v) eqn:Hv; [exact I|].
      destruct (insert_stored z m v Z Hv) as [E1 E2]. rewrite E1, E2.
      split; [exact Hv|]. split; [apply db_zok_put; [exact D|apply zs_add_ok; auto|apply zs_add_nonnil]|].
      exists z. split; [reflexivity|]. split; [rewrite get_put, beq_refl; reflexivity|]. split; [congruence|reflexivity].
    + rewrite Hi. destruct (insert_stored z m inc Z Hi) as [E1 E2]. rewrite E1, E2.
      split; [exact Hi|]. split; [apply db_zok_put; [exact D|apply zs_add_ok; auto|apply zs_add_nonnil]|].
      exists z. split; [reflexivity|]. split; [rewrite get_put, beq_refl; reflexivity|]. split; [reflexivity|congruence].
  - rewrite sl_new_of_items, <- z2sl_eq. destruct (insert_stored [] m inc zs_ok_nil Hi) as [E1 E2]. rewrite E1, E2.
    split; [exact Hi|]. split; [apply db_zok_put; [exact D|apply zs_add_ok; [apply zs_ok_nil|assumption]|apply zs_add_nonnil]|].
    exists []. split; [reflexivity|]. split; [rewrite get_put, beq_refl; reflexivity|]. split; [reflexivity|cbn; congruence].
Qed.
Lemma eng_zincrby_zok d key m inc sum v d' : db_zok d -> eng_zincrby d key m inc sum = EOk (v, d') -> db_zok d'.
Proof. intros D E. pose proof (eng_zincrby_spec d key m inc sum D) as S. rewrite E in S. tauto. Qed.
Lemma zadd_pairs_zok key parts oracle :
  forall n rest, (length rest <= n)%nat -> forall d i added, db_zok d ->
  db_zok (snd (zadd_pairs d key parts oracle i rest added)).
Proof.
  induction n as [|n IH]; intros rest Hl d i added D.
  - destruct rest; [exact D|cbn in Hl; lia].
  - destruct rest as [|sc [|mb rest']]; cbn [zadd_pairs snd]; try exact D.
    destruct (float_arg parts oracle i) as [score|] eqn:F; [|exact D].
    destruct mb; try exact D.
    destruct (eng_zadd d key b score) as [[isn d']| |] eqn:EZ; try exact D.
    apply IH; [cbn [length] in Hl; lia|]. eapply eng_zadd_zok; eauto.
Qed.

Lemma zrem_members_zok key : forall ms d removed, db_zok d -> db_zok (snd (zrem_members d key ms removed)).
Proof.
  induction ms as [|f ms IH]; intros d removed D; cbn [zrem_members snd]; [exact D|].
  destruct f; try (apply IH; exact D).
  destruct (eng_zrem d key b) as [[r d']|] eqn:E; [|exact D].
  apply IH. eapply eng_zrem_zok; eauto.
Qed.

Lemma zpop_loop_zok key idx : forall fuel d acc l d', db_zok d ->
  zpop_loop fuel d key idx acc = Some (l, d') -> db_zok d'.
Proof.
  induction fuel as [|fuel IH]; intros d acc l d' D; cbn [zpop_loop].
  - intro H. inversion H. subst. exact D.
  - destruct (eng_zrange d key idx idx false) as [[|[m sc] t]|]; try discriminate.
    + intro H. inversion H. subst. exact D.
    + destruct (eng_zrem d key m) as [[[] d1]|] eqn:E; try discriminate;
      intro H; eapply IH; [eapply eng_zrem_zok; eauto|exact H|eapply eng_zrem_zok; eauto|exact H].
Qed.

Ltac ro := repeat match goal with |- context [match ?x with _ => _ end] => destruct x end; cbn [snd]; auto.

Theorem exec_zsets_zok now d name parts oracle r d' :
  db_zok d -> exec_zsets now d name parts oracle = Some (r, d') -> db_zok d'.
Proof.
  intros D. unfold exec_zsets.
  repeat match goal with |- context [if beq name ?c then _ else _] => destruct (beq name c) end;
  try discriminate; intro H; inversion H as [H']; clear H.
  - (* ZADD *) unfold h_zadd in H'.
    destruct ((nparts parts <? 4) || negb (nparts parts mod 2 =? 0)); [inversion H'; subst; exact D|].
    destruct (nth_error parts 1) as [[]|]; try (inversion H'; subst; exact D).
    destruct (negb (zadd_valid parts oracle 2 (skipn 2 parts))); [inversion H'; subst; exact D|].
    pose proof (zadd_pairs_zok b parts oracle (length (skipn 2 parts)) (skipn 2 parts) (le_n _) d 2%nat 0 D) as Z.
    rewrite H' in Z. exact Z.
  - (* ZREM *) unfold h_zrem in H'. destruct (nparts parts <? 3); [inversion H'; subst; exact D|].
    destruct (nth_error parts 1) as [[]|]; try (inversion H'; subst; exact D).
    pose proof (zrem_members_zok b (skipn 2 parts) d 0 D) as Z. rewrite H' in Z. exact Z.
  - assert (snd (h_zscore d parts) = d) as E by (unfold h_zscore; ro). rewrite H' in E. cbn in E. subst. exact D.
  - assert (snd (h_zcard d parts) = d) as E by (unfold h_zcard; ro). rewrite H' in E. cbn in E. subst. exact D.
  - assert (snd (h_zrank false d parts) = d) as E by (unfold h_zrank; ro). rewrite H' in E. cbn in E. subst. exact D.
  - assert (snd (h_zrank true d parts) = d) as E by (unfold h_zrank; ro). rewrite H' in E. cbn in E. subst. exact D.
  - assert (snd (h_zrange false d parts) = d) as E by (unfold h_zrange; ro). rewrite H' in E. cbn in E. subst. exact D.
  - assert (snd (h_zrange true d parts) = d) as E by (unfold h_zrange; ro). rewrite H' in E. cbn in E. subst. exact D.
  - assert (snd (h_zrangebyscore false d parts oracle) = d) as E by (unfold h_zrangebyscore; ro). rewrite H' in E. cbn in E. subst. exact D.
  - assert (snd (h_zrangebyscore true d parts oracle) = d) as E by (unfold h_zrangebyscore; ro). rewrite H' in E. cbn in E. subst. exact D.
  - assert (snd (h_zcount d parts oracle) = d) as E by (unfold h_zcount; ro). rewrite H' in E. cbn in E. subst. exact D.
  - (* ZINCRBY *) unfold h_zincrby in H'.
    destruct (negb (nparts parts =? 4)); [inversion H'; subst; exact D|].
    destruct (nth_arg parts 1) as [key|]; [|inversion H'; subst; exact D].
    destruct (float_arg parts oracle 2) as [inc|] eqn:F; [|inversion H'; subst; exact D].
    destruct (nth_arg parts 3) as [m|]; [|inversion H'; subst; exact D].
    destruct (eng_zincrby d key m inc (oscore oracle 4)) as [[v d1]| |] eqn:E; inversion H'; subst; try exact D.
    eapply eng_zincrby_zok; eauto.
  - (* ZPOPMIN *) unfold h_zpop in H'.
    destruct ((nparts parts <? 2) || (3 <? nparts parts)); [inversion H'; subst; exact D|].
    destruct (nth_arg parts 1) as [key|]; [|inversion H'; subst; exact D].
    destruct (if nparts parts =? 3 then match nth_arg parts 2 with Some c => parse_usize c | None => None end else Some 1) as [n|];
      [|inversion H'; subst; exact D].
    destruct (eng_zcard d key); [|inversion H'; subst; exact D].
    destruct (zpop_loop _ d key 0 []) as [[[|x l] d1]|] eqn:E; inversion H'; subst; try exact D;
    eapply zpop_loop_zok; eauto.
  - (* ZPOPMAX *) unfold h_zpop in H'.
    destruct ((nparts parts <? 2) || (3 <? nparts parts)); [inversion H'; subst; exact D|].
    destruct (nth_arg parts 1) as [key|]; [|inversion H'; subst; exact D].
    destruct (if nparts parts =? 3 then match nth_arg parts 2 with Some c => parse_usize c | None => None end else Some 1) as [n|];
      [|inversion H'; subst; exact D].
    destruct (eng_zcard d key); [|inversion H'; subst; exact D].
    destruct (zpop_loop _ d key (-1) []) as [[[|x l] d1]|] eqn:E; inversion H'; subst; try exact D;
    eapply zpop_loop_zok; eauto.
Qed.

(** lifted to every history of sorted-set commands *)
Definition zcmd := (bytes * list frame * option frame)%type.
Fixpoint run_zcmds (d : db) (cmds : list zcmd) : db :=
  match cmds with
  | [] => d
  | (name, parts, oracle) :: r =>
      match exec_zsets 0 d name parts oracle with
      | Some (_, d') => run_zcmds d' r
      | None => run_zcmds d r
      end
  end.
Theorem run_zcmds_zok cmds : forall d, db_zok d -> db_zok (run_zcmds d cmds).
Proof.
  induction cmds as [|[[name parts] oracle] r IH]; intros d D; cbn [run_zcmds]; [exact D|].
  destruct (exec_zsets 0 d name parts oracle) as [[rp d']|] eqn:E; [|auto].
  apply IH. eapply exec_zsets_zok; eauto.
Qed.

(** "a score that is not a number is never stored": after any history, whatever the oracle
    reported for parses and sums, no member of any sorted set has a NaN score *)
Theorem no_nan_stored cmds key m sc :
  eng_zscore (run_zcmds empty_db cmds) key m = Some (Some sc) -> f_is_nan sc = false.
Proof.
  pose proof (run_zcmds_zok cmds empty_db db_zok_empty) as D. set (d := run_zcmds empty_db cmds) in *.
  unfold eng_zscore, with_zset. destruct (get_entry d key) as [e|] eqn:E; [|discriminate].
  destruct (e_val e) eqn:V; try discriminate. intro H. inversion H as [H'].
  unfold sl_get_score in H'. cbn [z2sl sl_index] in H'. rewrite alookup_zs_lookup in H'.
  destruct (D key e z E V) as [(_ & _ & F) _]. apply zs_lookup_some_In in H'.
  unfold zs_nonan in F. rewrite Forall_forall in F. apply (F _ H').
Qed.

(** ---- reads against the specification ---- *)
Lemma with_zset_zget {A} d key (dflt : A) f z :
  zget d key = Some z -> dflt = f (z2sl []) -> with_zset d key dflt f = Some (f (z2sl z)).
Proof.
  unfold zget, with_zset. destruct (get_entry d key) as [e|].
  - destruct (e_val e); try discriminate. intros H _. inversion H. reflexivity.
  - intros H ->. inversion H. reflexivity.
Qed.
Lemma z2sl_length z : sl_length (z2sl z) = len (sl_nodes (z2sl z)).
Proof. cbn [z2sl sl_length sl_nodes]. unfold len. rewrite map_length. reflexivity. Qed.
Lemma z2sl_items z : sl_items (z2sl z) = z.
Proof. apply sl_of_items_items. Qed.

Theorem eng_zrange_spec d key z start stop :
  zget d key = Some z ->
  eng_zrange d key start stop false = Some (redis_slice z start stop).
Proof.
  intros G. unfold eng_zrange. rewrite (with_zset_zget d key [] _ z G) by reflexivity.
  f_equal. rewrite <- (z2sl_items z) at 2. apply zrange_fwd_redis, z2sl_length.
Qed.
Theorem eng_zrevrange_spec d key z start stop :
  zget d key = Some z ->
  eng_zrange d key start stop true = Some (redis_slice (rev z) start stop).
Proof.
  intros G. unfold eng_zrange. rewrite (with_zset_zget d key [] _ z G) by reflexivity.
  f_equal. rewrite <- (z2sl_items z) at 2. apply zrange_rev_redis, z2sl_length.
Qed.

Lemma redis_slice_all {A} (l : list A) : redis_slice l 0 (-1) = l.
Proof.
  unfold redis_slice, redis_range. pose proof (len_nonneg l). destruct l as [|x l']; [reflexivity|].
  set (l := x :: l') in *. assert (0 < len l) by (unfold l, len; cbn; lia).
  brk; try lia. cbn [Z.to_nat skipn].
  replace (Z.to_nat (Z.min (-1 + len l) (len l - 1) - Z.max 0 0 + 1)) with (length l) by (unfold len in *; lia).
  apply firstn_all.
Qed.
Lemma eng_zrange_all d key z : zget d key = Some z -> eng_zrange d key 0 (-1) false = Some z.
Proof.
  intro G. rewrite (eng_zrange_spec d key z 0 (-1) G), redis_slice_all. reflexivity.
Qed.

Theorem eng_zrank_spec d key z m : db_zok d -> zget d key = Some z ->
  eng_zrank d key m false = Some (zs_rank m z) /\
  eng_zrank d key m true = Some (option_map (fun r => len z - 1 - r) (zs_rank m z)).
Proof.
  intros D G. pose proof (zs_ok_inv z (zget_some d key z G D)) as I. rewrite <- z2sl_eq in I.
  unfold eng_zrank. rewrite !(with_zset_zget d key None _ z G) by reflexivity.
  rewrite (sl_get_rank_spec _ m I), z2sl_items. unfold sl_len. cbn [z2sl sl_length].
  destruct (zs_rank m z); split; reflexivity.
Qed.

(** rank and range agree: ZRANK m = i iff m is the i-th member of ZRANGE 0 -1 *)
Theorem zrank_zrange_agree d key z m i : db_zok d -> zget d key = Some z ->
  (eng_zrank d key m false = Some (Some i) <->
   0 <= i /\ exists l, eng_zrange d key 0 (-1) false = Some l /\ nth_error (map fst l) (Z.to_nat i) = Some m).
Proof.
  intros D G. destruct (eng_zrank_spec d key z m D G) as [E _]. rewrite E, (eng_zrange_all d key z G).
  destruct (zget_some d key z G D) as (_ & N & _).
  pose proof (zs_rank_nth z m i N) as R. split.
  - intro H. inversion H as [H']. apply R in H'. destruct H' as [H0 Hn]. split; [exact H0|]. eexists; split; [reflexivity|exact Hn].
  - intros [H0 (l & El & Hn)]. inversion El. subst l. f_equal. apply R. auto.
Qed.

Theorem eng_zscore_spec d key z m : zget d key = Some z -> eng_zscore d key m = Some (zs_lookup m z).
Proof.
  intro G. unfold eng_zscore. rewrite (with_zset_zget d key None _ z G) by reflexivity.
  unfold sl_get_score. cbn [z2sl sl_index]. rewrite alookup_zs_lookup. reflexivity.
Qed.
Theorem eng_zcard_spec d key z : zget d key = Some z -> eng_zcard d key = Some (len z).
Proof. intro G. unfold eng_zcard. rewrite (with_zset_zget d key 0 _ z G) by reflexivity. reflexivity. Qed.

Theorem eng_zrangebyscore_spec d key z mn mx : db_zok d -> zget d key = Some z -> f_is_nan mn = false ->
  eng_zrangebyscore d key mn mx false = Some (zs_byscore mn mx z) /\
  eng_zrangebyscore d key mn mx true = Some (rev (zs_byscore mn mx z)) /\
  eng_zcount d key mn mx = Some (len (zs_byscore mn mx z)).
Proof.
  intros D G Hmn. pose proof (zs_ok_inv z (zget_some d key z G D)) as I. rewrite <- z2sl_eq in I.
  pose proof (sl_range_by_score_spec _ mn mx I Hmn) as S. rewrite z2sl_items in S.
  unfold eng_zcount, eng_zrangebyscore. rewrite !(with_zset_zget d key [] _ z G) by reflexivity.
  rewrite nodes_kv_eq, S. repeat split.
Qed.

(** ---- failure atomicity ---- *)
Lemma zrem_members_noerr key : forall ms d removed z, db_zok d -> zget d key = Some z ->
  exists n, fst (zrem_members d key ms removed) = r_int n.
Proof.
  induction ms as [|f ms IH]; intros d removed z D G; cbn [zrem_members fst]; [eexists; reflexivity|].
  destruct f; try (eapply IH; eauto).
  pose proof (eng_zrem_spec d key b D) as S. rewrite G in S. destruct S as (d' & E & G' & _ & _ & D').
  rewrite E. eapply IH; eauto.
Qed.
Lemma zrem_members_wrongtype key : forall ms d removed, zget d key = None ->
  snd (zrem_members d key ms removed) = d.
Proof.
  induction ms as [|f ms IH]; intros d removed G; cbn [zrem_members snd]; [reflexivity|].
  destruct f; try (apply IH; exact G).
  assert (eng_zrem d key b = None) as ->; [|reflexivity].
  unfold zget in G. unfold eng_zrem. destruct (get_entry d key) as [e|]; [|discriminate].
  destruct (e_val e); try reflexivity. discriminate.
Qed.

Lemma zpop_loop_some key idx : forall fuel d acc z, db_zok d -> zget d key = Some z ->
  zpop_loop fuel d key idx acc <> None.
Proof.
  induction fuel as [|fuel IH]; intros d acc z D G; cbn [zpop_loop]; [discriminate|].
  unfold eng_zrange at 1. rewrite (with_zset_zget d key [] _ z G) by reflexivity.
  destruct (zrange_of (z2sl z) idx idx false) as [|[m sc] t]; [discriminate|].
  pose proof (eng_zrem_spec d key m D) as S. rewrite G in S. destruct S as (d' & E & G' & _ & _ & D').
  rewrite E. destruct (negb (is_none (zs_lookup m z))); eapply IH; eauto.
Qed.
Lemma zpop_wrongtype key idx fuel d acc : zget d key = None -> fuel <> O -> zpop_loop fuel d key idx acc = None.
Proof.
  intros G F. destruct fuel; [congruence|]. cbn [zpop_loop].
  assert (eng_zrange d key idx idx false = None) as ->; [|reflexivity].
  unfold zget in G. unfold eng_zrange, with_zset. destruct (get_entry d key) as [e|]; [|discriminate].
  destruct (e_val e); try reflexivity. discriminate.
Qed.

(** a validated ZADD on a sorted set (or a missing key) cannot fail any more ... *)
Lemma zadd_valid_float parts oracle i sc mb rest :
  zadd_valid parts oracle i (sc :: mb :: rest) = true ->
  exists score m, float_arg parts oracle i = Some score /\ f_is_nan score = false /\ mb = FBulk m /\
                  zadd_valid parts oracle (S (S i)) rest = true.
Proof.
  cbn [zadd_valid]. destruct (float_arg parts oracle i) as [score|]; [|discriminate].
  intro H. apply andb_prop in H as [H1 H2]. apply negb_true_iff in H1.
  destruct mb; try discriminate. eauto 8.
Qed.
Lemma zadd_pairs_noerr key parts oracle :
  forall n rest, (length rest <= n)%nat -> forall d i added z, db_zok d -> zget d key = Some z ->
  zadd_valid parts oracle i rest = true ->
  exists k, fst (zadd_pairs d key parts oracle i rest added) = r_int k.
Proof.
  induction n as [|n IH]; intros rest Hl d i added z D G V.
  - destruct rest; [eexists; reflexivity|cbn in Hl; lia].
  - destruct rest as [|sc [|mb rest']]; try (eexists; reflexivity).
    destruct (zadd_valid_float _ _ _ _ _ _ V) as (score & m & F & Hs & -> & V').
    cbn [zadd_pairs]. rewrite F.
    pose proof (eng_zadd_spec d key m score D Hs) as S. rewrite G in S.
    destruct S as (d' & E & G' & _ & D'). rewrite E.
    eapply IH; eauto. cbn [length] in Hl. lia.
Qed.
(** ... and on a key of another type it fails at once, having changed nothing *)
Lemma zadd_pairs_wrongtype key parts oracle i rest added d :
  zget d key = None -> zadd_valid parts oracle i rest = true ->
  snd (zadd_pairs d key parts oracle i rest added) = d.
Proof.
  intros G V. destruct rest as [|sc [|mb rest']]; try reflexivity.
  destruct (zadd_valid_float _ _ _ _ _ _ V) as (score & m & F & Hs & -> & _).
  cbn [zadd_pairs]. rewrite F. unfold eng_zadd. rewrite Hs.
  unfold zget in G. destruct (get_entry d key) as [e|]; [|discriminate].
  destruct (e_val e); try reflexivity. discriminate.
Qed.

(** an error reply leaves the database unchanged - for every command, a multi-member ZADD included *)
Theorem exec_zsets_failure_atomic now d name parts oracle r d' :
  db_zok d -> exec_zsets now d name parts oracle = Some (r, d') -> is_error r = true -> d' = d.
Proof.
  intros D. unfold exec_zsets.
  destruct (beq name (bs "ZADD")) eqn:NA.
  { intro H. inversion H as [H']. clear H. unfold h_zadd in H'.
    destruct ((nparts parts <? 4) || negb (nparts parts mod 2 =? 0)); [inversion H'; subst; reflexivity|].
    destruct (nth_error parts 1) as [[]|]; try (inversion H'; subst; reflexivity).
    destruct (zadd_valid parts oracle 2 (skipn 2 parts)) eqn:V; cbn [negb] in H'; [|inversion H'; subst; reflexivity].
    destruct (zget d b) as [z|] eqn:G.
    - destruct (zadd_pairs_noerr b parts oracle (length (skipn 2 parts)) (skipn 2 parts) (le_n _) d 2%nat 0 z D G V) as [k Ek].
      rewrite H' in Ek. cbn [fst] in Ek. subst r. discriminate.
    - pose proof (zadd_pairs_wrongtype b parts oracle 2%nat (skipn 2 parts) 0 d G V) as E. rewrite H' in E. intros _. exact E. }
  destruct (beq name (bs "ZREM")).
  { intro H. inversion H as [H']. clear H. unfold h_zrem in H'.
    destruct (nparts parts <? 3); [inversion H'; subst; reflexivity|].
    destruct (nth_error parts 1) as [[]|]; try (inversion H'; subst; reflexivity).
    destruct (zget d b) as [z|] eqn:G.
    - destruct (zrem_members_noerr b (skipn 2 parts) d 0 z D G) as [n En]. rewrite H' in En. cbn [fst] in En.
      subst r. discriminate.
    - pose proof (zrem_members_wrongtype b (skipn 2 parts) d 0 G) as E. rewrite H' in E. intros _. exact E. }
  repeat match goal with |- context [if beq name ?c then _ else _] => destruct (beq name c) end;
  try discriminate; intro H; inversion H as [H']; clear H.
  - assert (snd (h_zscore d parts) = d) as E by (unfold h_zscore; ro). rewrite H' in E. intros _. exact E.
  - assert (snd (h_zcard d parts) = d) as E by (unfold h_zcard; ro). rewrite H' in E. intros _. exact E.
  - assert (snd (h_zrank false d parts) = d) as E by (unfold h_zrank; ro). rewrite H' in E. intros _. exact E.
  - assert (snd (h_zrank true d parts) = d) as E by (unfold h_zrank; ro). rewrite H' in E. intros _. exact E.
  - assert (snd (h_zrange false d parts) = d) as E by (unfold h_zrange; ro). rewrite H' in E. intros _. exact E.
  - assert (snd (h_zrange true d parts) = d) as E by (unfold h_zrange; ro). rewrite H' in E. intros _. exact E.
  - assert (snd (h_zrangebyscore false d parts oracle) = d) as E by (unfold h_zrangebyscore; ro). rewrite H' in E. intros _. exact E.
  - assert (snd (h_zrangebyscore true d parts oracle) = d) as E by (unfold h_zrangebyscore; ro). rewrite H' in E. intros _. exact E.
  - assert (snd (h_zcount d parts oracle) = d) as E by (unfold h_zcount; ro). rewrite H' in E. intros _. exact E.
  - (* ZINCRBY *) unfold h_zincrby in H'.
    destruct (negb (nparts parts =? 4)); [inversion H'; subst; reflexivity|].
    destruct (nth_arg parts 1) as [key|]; [|inversion H'; subst; reflexivity].
    destruct (float_arg parts oracle 2) as [inc|]; [|inversion H'; subst; reflexivity].
    destruct (nth_arg parts 3) as [m|]; [|inversion H'; subst; reflexivity].
    destruct (eng_zincrby d key m inc (oscore oracle 4)) as [[v d1]| |]; inversion H'; subst; try reflexivity. discriminate.
  - (* ZPOPMIN *) unfold h_zpop in H'.
    destruct ((nparts parts <? 2) || (3 <? nparts parts)); [inversion H'; subst; reflexivity|].
    destruct (nth_arg parts 1) as [key|]; [|inversion H'; subst; reflexivity].
    destruct (if nparts parts =? 3 then match nth_arg parts 2 with Some c => parse_usize c | None => None end else Some 1) as [n|];
      [|inversion H'; subst; reflexivity].
    destruct (eng_zcard d key); [|inversion H'; subst; reflexivity].
    destruct (zpop_loop _ d key 0 []) as [[[|x l] d1]|] eqn:E; inversion H'; subst; try discriminate; reflexivity.
  - (* ZPOPMAX *) unfold h_zpop in H'.
    destruct ((nparts parts <? 2) || (3 <? nparts parts)); [inversion H'; subst; reflexivity|].
    destruct (nth_arg parts 1) as [key|]; [|inversion H'; subst; reflexivity].
    destruct (if nparts parts =? 3 then match nth_arg parts 2 with Some c => parse_usize c | None => None end else Some 1) as [n|];
      [|inversion H'; subst; reflexivity].
    destruct (eng_zcard d key); [|inversion H'; subst; reflexivity].
    destruct (zpop_loop _ d key (-1) []) as [[[|x l] d1]|] eqn:E; inversion H'; subst; try discriminate; reflexivity.
Qed.

(** ---- removing the last member removes the key ---- *)
Definition cmd (args : list bytes) : list frame := map FBulk args.

Theorem zrem_last_member d key m sc : db_zok d -> zget d key = Some [(m, sc)] ->
  exists d', h_zrem d (cmd [bs "ZREM"; key; m]) = (r_int 1, d') /\ get_entry d' key = None.
Proof.
  intros D G. pose proof (eng_zrem_spec d key m D) as S. rewrite G in S.
  destruct S as (d' & E & _ & K & _). cbn [zs_lookup zs_remove fst] in E, K. rewrite beq_refl in E, K.
  cbn [is_none negb] in E. exists d'. split; [|apply K; reflexivity].
  unfold h_zrem, cmd. cbn [map nparts len length nth_error skipn zrem_members]. rewrite E. reflexivity.
Qed.

(** ---- ZPOPMIN pops the smallest members, in order ---- *)
Lemma zs_lookup_notin m (l : list elt) : ~ In m (map fst l) -> zs_lookup m l = None.
Proof.
  induction l as [|[k s] l IH]; cbn [map fst In zs_lookup]; intro H; [reflexivity|].
  assert (beq m k = false) as -> by (apply beq_false_ne; intro; subst; tauto). apply IH. tauto.
Qed.
Lemma zs_ok_tail x z : zs_ok (x :: z) -> zs_ok z /\ ~ In (fst x) (map fst z).
Proof.
  intros (S & N & F). unfold zs_sorted, zs_members, zs_nonan in *. cbn [map] in N.
  inversion S; inversion N; inversion F; subst. repeat split; assumption.
Qed.
Definition enc_pairs (l : list elt) : list frame := flat_map (fun p => [FBulk (fst p); r_score (snd p)]) l.

Lemma zrange_first x z : zrange_of (z2sl (x :: z)) 0 0 false = [x].
Proof.
  rewrite (zrange_fwd_redis (z2sl (x :: z)) 0 0 (z2sl_length _)).
  rewrite z2sl_items. unfold redis_slice, redis_range.
  assert (0 < len (x :: z)) by (unfold len; cbn; lia). brk; try lia.
  replace (Z.to_nat (Z.min 0 (len (x :: z) - 1) - Z.max 0 0 + 1)) with 1%nat by lia. reflexivity.
Qed.

Theorem zpopmin_loop_spec key : forall fuel d acc z, db_zok d -> zget d key = Some z ->
  exists d', zpop_loop fuel d key 0 acc = Some (acc ++ enc_pairs (firstn fuel z), d') /\
             zget d' key = Some (skipn fuel z) /\ db_zok d'.
Proof.
  induction fuel as [|fuel IH]; intros d acc z D G.
  - exists d. cbn [zpop_loop firstn skipn enc_pairs flat_map]. rewrite app_nil_r. auto.
  - cbn [zpop_loop]. unfold eng_zrange at 1. rewrite (with_zset_zget d key [] _ z G) by reflexivity.
    destruct z as [|[m sc] z'].
    + exists d. cbn. rewrite app_nil_r. auto.
    + rewrite zrange_first.
      destruct (zs_ok_tail (m, sc) z' (zget_some d key _ G D)) as [Z' NI]. cbn [fst] in NI.
      pose proof (eng_zrem_spec d key m D) as S. rewrite G in S. destruct S as (d1 & E & G1 & _ & _ & D1).
      cbn [zs_lookup zs_remove fst] in E, G1. rewrite beq_refl in E, G1. cbn [is_none negb] in E.
      rewrite (zs_remove_absent m z' (zs_lookup_notin m z' NI)) in G1.
      rewrite E. destruct (IH d1 (acc ++ [FBulk m; r_score sc]) z' D1 G1) as (d' & E' & G' & D').
      exists d'. split; [|split; assumption].
      rewrite E'. cbn [firstn enc_pairs flat_map fst snd app]. rewrite <- app_assoc. reflexivity.
Qed.

(** ---- reachable states: the hypotheses [db_zok] of the theorems above hold after every history ---- *)
Theorem zrem_last_member_reachable cmds key m sc :
  let d := run_zcmds empty_db cmds in
  zget d key = Some [(m, sc)] ->
  exists d', h_zrem d (cmd [bs "ZREM"; key; m]) = (r_int 1, d') /\ get_entry d' key = None.
Proof. cbv zeta. apply zrem_last_member, run_zcmds_zok, db_zok_empty. Qed.

Theorem failure_atomic_reachable cmds now name parts oracle r d' :
  exec_zsets now (run_zcmds empty_db cmds) name parts oracle = Some (r, d') -> is_error r = true ->
  d' = run_zcmds empty_db cmds.
Proof. apply exec_zsets_failure_atomic, run_zcmds_zok, db_zok_empty. Qed.

(** no stored sorted set is ever empty: a key whose last member went away is gone *)
Theorem no_empty_zset_stored cmds key e :
  get_entry (run_zcmds empty_db cmds) key = Some e -> e_val e <> VZSet [].
Proof.
  intros G V. destruct (run_zcmds_zok cmds empty_db db_zok_empty key e [] G V) as [_ NE]. congruence.
Qed.

(** ---- NaN is refused everywhere ---- *)
Lemma zadd_valid_nonan parts oracle : forall rest i k,
  zadd_valid parts oracle i rest = true -> (2 * k + 1 < length rest)%nat ->
  exists b, float_arg parts oracle (i + 2 * k) = Some b /\ f_is_nan b = false.
Proof.
  intros rest. remember (length rest) as n eqn:Hn. revert rest Hn.
  induction n as [n IH] using lt_wf_ind. intros rest Hn i k V Hk.
  destruct rest as [|sc [|mb rest']]; cbn [length] in *; try lia.
  destruct (zadd_valid_float _ _ _ _ _ _ V) as (score & m & F & Hs & -> & V').
  destruct k as [|k].
  - exists score. replace (i + 2 * 0)%nat with i by lia. auto.
  - destruct (IH (length rest')) with (rest := rest') (i := S (S i)) (k := k) as (b & Fb & Hb); try lia; auto.
    exists b. replace (i + 2 * S k)%nat with (S (S i) + 2 * k)%nat by lia. auto.
Qed.
(** ZADD: a NaN score anywhere in the command refuses the whole command, nothing is added *)
Theorem h_zadd_refuses_nan d parts oracle k b :
  (2 + 2 * k + 1 < length parts)%nat ->
  float_arg parts oracle (2 + 2 * k) = Some b -> f_is_nan b = true ->
  h_zadd d parts oracle = (r_err, d).
Proof.
  intros Hk F Hb. unfold h_zadd.
  destruct ((nparts parts <? 4) || negb (nparts parts mod 2 =? 0)); [reflexivity|].
  destruct (nth_error parts 1) as [[]|]; try reflexivity.
  destruct (zadd_valid parts oracle 2 (skipn 2 parts)) eqn:V; [|reflexivity].
  exfalso. destruct (zadd_valid_nonan parts oracle (skipn 2 parts) 2%nat k V) as (b' & F' & Hb').
  - rewrite skipn_length. lia.
  - rewrite F in F'. inversion F'. subst. congruence.
Qed.
(** ZINCRBY: a NaN increment is refused; so is a NaN sum (see [eng_zincrby_spec]: only non-NaN is stored) *)
Theorem eng_zincrby_refuses_nan d key m inc sum :
  (f_is_nan inc = true -> eng_zincrby d key m inc sum = EErr) /\
  (forall z old v, zget d key = Some z -> zs_lookup m z = Some old -> get_entry d key <> None ->
     sum = Some v -> f_is_nan v = true -> f_is_nan inc = false -> eng_zincrby d key m inc sum = EErr).
Proof.
  split.
  - intro H. unfold eng_zincrby. rewrite H. reflexivity.
  - intros z old v G L NN -> Hv Hi. unfold eng_zincrby. rewrite Hi. unfold zget in G.
    destruct (get_entry d key) as [e|]; [|congruence]. destruct (e_val e); try discriminate.
    inversion G. subst. unfold sl_get_score. cbn [z2sl sl_index]. rewrite alookup_zs_lookup, L, Hv. reflexivity.
Qed.
(** ZRANGEBYSCORE / ZREVRANGEBYSCORE / ZCOUNT: a NaN bound is refused *)
Lemma bound_arg_nonan parts oracle i b : bound_arg parts oracle i = Some b -> f_is_nan b = false /\ oscore oracle i = Some b.
Proof.
  unfold bound_arg. destruct (nth_error parts i) as [[]|]; try discriminate.
  destruct (oscore oracle i) as [x|]; [|discriminate]. destruct (f_is_nan x) eqn:E; [discriminate|].
  intro H. inversion H. subst. auto.
Qed.
Theorem nan_bound_refused d parts oracle i b :
  (i = 2 \/ i = 3)%nat -> oscore oracle i = Some b -> f_is_nan b = true ->
  (forall rev, h_zrangebyscore rev d parts oracle = (r_err, d)) /\ h_zcount d parts oracle = (r_err, d).
Proof.
  intros Hi O Hb.
  assert (B : forall x, bound_arg parts oracle i = Some x -> False).
  { intros x Hx. apply bound_arg_nonan in Hx as [Hn Ho]. rewrite O in Ho. inversion Ho. subst. congruence. }
  split; [intro rev; unfold h_zrangebyscore|unfold h_zcount].
  - destruct ((nparts parts <? 4) || (5 <? nparts parts)); [reflexivity|].
    destruct (nth_arg parts 1); [|reflexivity].
    destruct (bound_arg parts oracle 2) as [x|] eqn:B2; [|reflexivity].
    destruct (bound_arg parts oracle 3) as [y|] eqn:B3; [|reflexivity].
    exfalso. destruct Hi; subst; eauto.
  - destruct (negb (nparts parts =? 4)); [reflexivity|].
    destruct (nth_arg parts 1); [|reflexivity].
    destruct (bound_arg parts oracle 2) as [x|] eqn:B2; [|reflexivity].
    destruct (bound_arg parts oracle 3) as [y|] eqn:B3; [|reflexivity].
    exfalso. destruct Hi; subst; eauto.
Qed.

(** ---- regression examples: the witnesses of the classes repaired in /repo (beb3269, 76804df,
    774140b) now behave as the property demands ---- *)
Definition oracle_of (l : list (option Z)) : option frame :=
  Some (FArray (map (fun o => match o with Some b => FDouble b | None => FNullBulk end) l)).
Definition one_bits := 4607182418800017408.      (* 1.0 *)
Definition two_bits := 4611686018427387904.      (* 2.0 *)
Definition three_bits := 4613937818241073152.    (* 3.0 *)
Definition kz := bs "z".
Definition z3 : zset := [(bs "a", one_bits); (bs "b", two_bits); (bs "c", three_bits)].
Definition d3 : db := put_entry empty_db kz {| e_val := VZSet z3; e_exp := None |}.

(** ZADD z nan m: error, nothing stored *)
Lemma zadd_nan_refused_example :
  exec_zsets 0 empty_db (bs "ZADD") (cmd [bs "ZADD"; kz; bs "nan"; bs "m"])
    (oracle_of [None; None; Some nan_bits; None]) = Some (r_err, empty_db).
Proof. vm_compute. reflexivity. Qed.
(** ZADD z inf m; ZINCRBY z -inf m: error (whether or not a sum is reported), score unchanged *)
Lemma zincrby_nan_refused_example :
  exists d1,
    exec_zsets 0 empty_db (bs "ZADD") (cmd [bs "ZADD"; kz; bs "inf"; bs "m"])
      (oracle_of [None; None; Some pinf_bits; None]) = Some (r_int 1, d1) /\
    exec_zsets 0 d1 (bs "ZINCRBY") (cmd [bs "ZINCRBY"; kz; bs "-inf"; bs "m"])
      (oracle_of [None; None; Some ninf_bits; None; None]) = Some (r_err, d1) /\
    exec_zsets 0 d1 (bs "ZINCRBY") (cmd [bs "ZINCRBY"; kz; bs "-inf"; bs "m"])
      (oracle_of [None; None; Some ninf_bits; None; Some nan_bits]) = Some (r_err, d1) /\
    eng_zscore d1 kz (bs "m") = Some (Some pinf_bits).
Proof. eexists. split; [vm_compute; reflexivity|]. repeat split; vm_compute; reflexivity. Qed.
(** ZADD z 1 a x b: error, a not added *)
Lemma zadd_atomic_example :
  exec_zsets 0 empty_db (bs "ZADD") (cmd [bs "ZADD"; kz; bs "1"; bs "a"; bs "x"; bs "b"])
    (oracle_of [None; None; Some one_bits; None; None; None]) = Some (r_err, empty_db).
Proof. vm_compute. reflexivity. Qed.
(** ZRANGE z 0 -100, ZREVRANGE z 0 -100, ZREVRANGE z 5 10 on three members: empty *)
Lemma zrange_out_of_range_example :
  zrange_of (z2sl z3) 0 (-100) false = [] /\ zrange_of (z2sl z3) 0 (-100) true = [] /\
  zrange_of (z2sl z3) 5 10 true = [] /\ zrange_of (z2sl z3) (-100) 100 true = rev z3.
Proof. repeat split; vm_compute; reflexivity. Qed.
(** ZRANGEBYSCORE z nan 2 / ZCOUNT z nan 2: error *)
Lemma nan_bound_refused_example :
  exec_zsets 0 d3 (bs "ZRANGEBYSCORE") (cmd [bs "ZRANGEBYSCORE"; kz; bs "nan"; bs "2"])
    (oracle_of [None; None; Some nan_bits; Some two_bits]) = Some (r_err, d3) /\
  exec_zsets 0 d3 (bs "ZCOUNT") (cmd [bs "ZCOUNT"; kz; bs "nan"; bs "2"])
    (oracle_of [None; None; Some nan_bits; Some two_bits]) = Some (r_err, d3).
Proof. split; vm_compute; reflexivity. Qed.
(** ZADD z 1 m; ZREM z m: the key is gone (was: stayed with cardinality 1 after a NaN) *)
Lemma last_member_example :
  exists d1, exec_zsets 0 empty_db (bs "ZADD") (cmd [bs "ZADD"; kz; bs "1"; bs "m"])
               (oracle_of [None; None; Some one_bits; None]) = Some (r_int 1, d1) /\
             exec_zsets 0 d1 (bs "ZREM") (cmd [bs "ZREM"; kz; bs "m"]) None = Some (r_int 1, empty_db).
Proof. eexists. split; [vm_compute; reflexivity|]. vm_compute. reflexivity. Qed.

(** ---- why the engine guards matter: the skip list itself cannot get rid of a NaN ---- *)
(** a node whose score is NaN can never be unlinked (`value == score` is false) ... *)
Lemma remove_nan_noop s k v : f_is_nan v = true -> remove_node_by_score s k v = s.
Proof.
  intro H. unfold remove_node_by_score. destruct (nth_error (sl_nodes s) _) as [t|]; [|reflexivity].
  assert (f_eq (n_val t) v = false) as ->.
  { unfold f_eq, f_pcmp. rewrite H, Bool.orb_true_r. reflexivity. }
  rewrite Bool.andb_false_r. reflexivity.
Qed.
(** ... so after SkipList::insert(m, NaN); remove(m) the chain keeps the node, length stays 1, the index is empty *)
Lemma nan_breaks_inv :
  let s := snd (sl_remove (snd (sl_insert sl_new (bs "m") nan_bits 0)) (bs "m")) in
  sl_length s = 1 /\ sl_index s = [] /\ sl_items s = [(bs "m", nan_bits)] /\ ~ Inv s.
Proof.
  cbv zeta. split; [vm_compute; reflexivity|]. split; [vm_compute; reflexivity|]. split; [vm_compute; reflexivity|].
  intro I. pose proof (proj2 (inv_index _ I (bs "m") nan_bits)) as H.
  assert (In (bs "m", nan_bits) (sl_items (snd (sl_remove (snd (sl_insert sl_new (bs "m") nan_bits 0)) (bs "m"))))) as Hin
    by (vm_compute; left; reflexivity).
  apply H in Hin. vm_compute in Hin. discriminate.
Qed.
