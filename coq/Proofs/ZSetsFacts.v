(** Lemmas for C04 at the command level (Model/ZSets.v): index translation of
    ZRANGE/ZREVRANGE against the Redis rule, engine-level refinement, database
    invariant, failure atomicity, witnesses of the recorded defect classes. *)
From Coq Require Import Sorting.Sorted Sorting.Permutation.
From Ferrous Require Import Base.Bytes Model.Resp Model.Types Model.Strings Model.SkipList Model.ZSets
  Spec.ZSet Proofs.BytesFacts Proofs.SkipListFacts.
Open Scope Z_scope.

Lemma z2sl_eq z : z2sl z = sl_of_items z.
Proof. reflexivity. Qed.
Lemma sl2z_z2sl z : sl2z (z2sl z) = z.
Proof. apply sl_of_items_items. Qed.
Lemma nodes_kv_eq l : nodes_kv l = map kv l.
Proof. reflexivity. Qed.

Ltac brk :=
  repeat match goal with
  | |- context [?a <? ?b] => destruct (Z.ltb_spec a b)
  | |- context [?a <=? ?b] => destruct (Z.leb_spec a b)
  | |- context [?a =? ?b] => destruct (Z.eqb_spec a b)
  end; cbn [orb andb negb].

(** ---- rank ranges ---- *)
Lemma rbr_items s a b : sl_length s = len (sl_nodes s) -> 0 <= a ->
  nodes_kv (sl_range_by_rank s a b) =
  if sl_length s <=? a then []
  else firstn (Z.to_nat (Z.min (b + 1) (sl_length s) - a)) (skipn (Z.to_nat a) (sl_items s)).
Proof.
  intros E Ha. unfold sl_range_by_rank. destruct (sl_length s <=? a); [reflexivity|].
  rewrite nodes_kv_eq, sl_items_kv, skipn_map, firstn_map. reflexivity.
Qed.

Lemma len_items s : len (sl_items s) = len (sl_nodes s).
Proof. unfold len, sl_items. rewrite map_length. reflexivity. Qed.

Ltac bool_eq := apply Bool.eq_iff_eq_true; rewrite ?Bool.orb_true_iff, ?Bool.andb_true_iff, ?Z.leb_le, ?Z.ltb_lt, ?Z.eqb_eq; lia.
Ltac cond_false H := apply Bool.orb_false_iff in H; destruct H as [?H ?H]; rewrite ?Z.leb_gt, ?Z.ltb_ge in *.

Lemma items_nil_len0 s : sl_length s = len (sl_nodes s) -> sl_length s = 0 -> sl_items s = [].
Proof.
  intros E Z0. pose proof (len_items s) as L. rewrite <- E, Z0 in L. unfold len in L.
  destruct (sl_items s); [reflexivity|cbn in L; lia].
Qed.

Lemma rev_slice {A} (l : list A) a n : (a + n <= length l)%nat ->
  rev (firstn n (skipn a l)) = firstn n (skipn (length l - a - n) (rev l)).
Proof.
  intro H.
  set (l1 := firstn a l). set (l2 := firstn n (skipn a l)). set (l3 := skipn n (skipn a l)).
  assert (E : l = l1 ++ l2 ++ l3).
  { unfold l1, l2, l3. rewrite (firstn_skipn n (skipn a l)). symmetry. apply firstn_skipn. }
  assert (L1 : length l1 = a) by (unfold l1; rewrite firstn_length; lia).
  assert (L2 : length l2 = n) by (unfold l2; rewrite firstn_length, skipn_length; lia).
  assert (L3 : length l3 = (length l - a - n)%nat) by (unfold l3; rewrite !skipn_length; lia).
  fold l2. replace (length l - a - n)%nat with (length (rev l3)) by (rewrite rev_length; lia).
  assert (R : rev l = rev l3 ++ rev l2 ++ rev l1).
  { clearbody l1 l2 l3. subst l. rewrite !rev_app_distr, <- app_assoc. reflexivity. }
  rewrite R.
  rewrite skipn_len_app. clearbody l2. subst n. rewrite <- (rev_length l2). symmetry. apply firstn_len_app.
Qed.

(** ZRANGE: outside the recorded class the code's index translation is Redis' rule.
    (The case analyses below are arranged to keep the number of arithmetic certificates small:
    coqchk re-checks each of them without the VM.) *)
Theorem zrange_fwd_redis_v1 s start stop :
  sl_length s = len (sl_nodes s) -> kf_zrange_fwd (sl_length s) start stop = false ->
  zrange_of_v1 s start stop false = redis_slice (sl_items s) start stop.
Proof.
  intros E K. unfold zrange_of_v1, redis_slice, redis_range, sl_len. rewrite len_items, <- E.
  assert (Hln : 0 <= sl_length s) by (rewrite E; apply len_nonneg).
  destruct (Z.eqb_spec (sl_length s) 0) as [Z0|NZ].
  - rewrite (items_nil_len0 s E Z0). destruct (if _ || _ then None else _) as [[? ?]|]; [rewrite skipn_nil, firstn_nil; reflexivity|reflexivity].
  - set (ln := sl_length s) in *. unfold kf_zrange_fwd in K.
    apply Bool.andb_false_iff in K. rewrite Bool.orb_false_iff, Z.ltb_ge, Z.eqb_neq, Z.leb_gt in K.
    destruct (Z.ltb_spec start 0) as [S0|S0]; destruct (Z.ltb_spec stop 0) as [T0|T0];
    match goal with |- (if ?c1 then _ else _) = match (if ?c2 then _ else _) with _ => _ end =>
      assert (C : c1 = c2) by bool_eq; try rewrite C; clear C; destruct c2 eqn:Cnd end;
    try reflexivity; cond_false Cnd;
    rewrite rbr_items by (try exact E; lia); fold ln;
    match goal with |- (if ?c then _ else _) = _ => assert (Cf : c = false) by (apply Z.leb_gt; lia); rewrite Cf; clear Cf end;
    (f_equal; first [lia | f_equal; lia]).
Qed.

(** ZREVRANGE: outside the recorded classes it is Redis' rule on the reversed order *)
Theorem zrange_rev_redis_v1 s start stop :
  sl_length s = len (sl_nodes s) -> kf_zrange_rev (sl_length s) start stop = false ->
  zrange_of_v1 s start stop true = redis_slice (rev (sl_items s)) start stop.
Proof.
  intros E K. unfold zrange_of_v1, redis_slice, redis_range, sl_len.
  assert (Lr : len (rev (sl_items s)) = sl_length s) by (unfold len; rewrite rev_length; fold (len (sl_items s)); rewrite len_items; auto).
  rewrite Lr.
  assert (Ll : length (sl_items s) = Z.to_nat (sl_length s)).
  { rewrite E, <- len_items. unfold len. lia. }
  assert (Hln : 0 <= sl_length s) by (rewrite E; apply len_nonneg).
  destruct (Z.eqb_spec (sl_length s) 0) as [Z0|NZ].
  - rewrite (items_nil_len0 s E Z0). cbn [rev].
    destruct (if _ || _ then None else _) as [[? ?]|]; [rewrite skipn_nil, firstn_nil; reflexivity|reflexivity].
  - set (ln := sl_length s) in *. unfold sat_sub.
    rewrite !(Z.max_r 0 (ln - 1)) by lia.
    (* the code's clamped indices *)
    set (si := if start <? 0 then Z.max (ln + start) 0 else start) in *.
    set (ei := if stop <? 0 then Z.max (ln + stop) 0 else stop) in *.
    assert (Hmin : forall x, 0 <= ln - 1 - Z.min x (ln - 1)) by (intro; lia).
    rewrite (Z.max_r 0 (ln - 1 - Z.min ei (ln - 1))) by apply Hmin.
    rewrite (Z.max_r 0 (ln - 1 - Z.min si (ln - 1))) by apply Hmin.
    rewrite rbr_items by (try exact E; apply Hmin). fold ln.
    assert (Cf : (ln <=? ln - 1 - Z.min ei (ln - 1)) = false) by (apply Z.leb_gt; unfold ei; destruct (Z.ltb_spec stop 0); lia).
    rewrite Cf. clear Cf.
    unfold kf_zrange_rev in K. fold si ei in K.
    apply Bool.orb_false_iff in K. destruct K as [K1 K2]. apply Bool.andb_false_iff in K1, K2.
    assert (K1' : si < ln \/ ei < ln - 1) by (destruct K1 as [K1|K1]; [left|right]; apply Z.leb_gt, K1).
    assert (K2' : - ln <= stop \/ si <> 0) by (destruct K2 as [K2|K2]; [left; apply Z.ltb_ge, K2|right; apply Z.eqb_neq, K2]).
    clear K1 K2.
    (* Redis' indices in terms of the clamped ones *)
    assert (Es : Z.max (if start <? 0 then start + ln else start) 0 = Z.max si 0).
    { unfold si. destruct (Z.ltb_spec start 0); lia. }
    rewrite Es. clear Es.
    assert (Hsi0 : 0 <= si \/ 0 <= start) by (unfold si; destruct (Z.ltb_spec start 0); lia).
    assert (Hs : Z.max si 0 = si) by (unfold si in *; destruct (Z.ltb_spec start 0); lia).
    rewrite Hs. clear Hs.
    set (e := if stop <? 0 then stop + ln else stop).
    assert (He : ei = Z.max e 0 \/ (0 <= stop /\ ei = e)) by (unfold ei, e; destruct (Z.ltb_spec stop 0); [left; lia|right; lia]).
    assert (Hsi1 : 0 <= si) by (unfold si; destruct (Z.ltb_spec start 0); lia).
    assert (Hk2 : e < 0 -> si <> 0).
    { unfold e. destruct (Z.ltb_spec stop 0); [|lia]. intro. destruct K2' as [K2|K2]; [lia|exact K2]. }
    clearbody si ei e.
    destruct ((e <? si) || (ln <=? si)) eqn:Cnd.
    + apply Bool.orb_true_iff in Cnd. rewrite Z.ltb_lt, Z.leb_le in Cnd.
      replace (Z.to_nat (Z.min (ln - 1 - Z.min si (ln - 1) + 1) ln - (ln - 1 - Z.min ei (ln - 1)))) with O by lia. reflexivity.
    + cond_false Cnd.
      rewrite (rev_slice (sl_items s)) by lia. rewrite Ll. f_equal; [|f_equal]; lia.
Qed.

(** the repaired translation is Redis' rule for all start and stop *)
Theorem zrange_fwd_redis_v2 s start stop :
  sl_length s = len (sl_nodes s) ->
  zrange_of_v2 s start stop false = redis_slice (sl_items s) start stop.
Proof.
  intros E. unfold zrange_of_v2, redis_slice, redis_range, sl_len. rewrite len_items, <- E.
  assert (Hln : 0 <= sl_length s) by (rewrite E; apply len_nonneg).
  destruct (Z.eqb_spec (sl_length s) 0) as [Z0|NZ].
  - rewrite (items_nil_len0 s E Z0). destruct (if _ || _ then None else _) as [[? ?]|]; [rewrite skipn_nil, firstn_nil; reflexivity|reflexivity].
  - set (ln := sl_length s) in *.
    destruct (Z.ltb_spec start 0) as [S0|S0]; destruct (Z.ltb_spec stop 0) as [T0|T0];
    match goal with |- (if ?c1 then _ else _) = match (if ?c2 then _ else _) with _ => _ end =>
      assert (C : c1 = c2) by bool_eq; try rewrite C; clear C; destruct c2 eqn:Cnd end;
    try reflexivity; cond_false Cnd;
    rewrite rbr_items by (try exact E; lia); fold ln;
    match goal with |- (if ?c then _ else _) = _ => assert (Cf : c = false) by (apply Z.leb_gt; lia); rewrite Cf; clear Cf end;
    (f_equal; first [lia | f_equal; lia]).
Qed.
Theorem zrange_rev_redis_v2 s start stop :
  sl_length s = len (sl_nodes s) ->
  zrange_of_v2 s start stop true = redis_slice (rev (sl_items s)) start stop.
Proof.
  intros E. unfold zrange_of_v2, redis_slice, redis_range, sl_len.
  assert (Lr : len (rev (sl_items s)) = sl_length s) by (unfold len; rewrite rev_length; fold (len (sl_items s)); rewrite len_items; auto).
  rewrite Lr.
  assert (Ll : length (sl_items s) = Z.to_nat (sl_length s)).
  { rewrite E, <- len_items. unfold len. lia. }
  assert (Hln : 0 <= sl_length s) by (rewrite E; apply len_nonneg).
  destruct (Z.eqb_spec (sl_length s) 0) as [Z0|NZ].
  - rewrite (items_nil_len0 s E Z0). cbn [rev].
    destruct (if _ || _ then None else _) as [[? ?]|]; [rewrite skipn_nil, firstn_nil; reflexivity|reflexivity].
  - set (ln := sl_length s) in *.
    destruct (Z.ltb_spec start 0) as [S0|S0]; destruct (Z.ltb_spec stop 0) as [T0|T0];
    match goal with |- (if ?c1 then _ else _) = match (if ?c2 then _ else _) with _ => _ end =>
      assert (C : c1 = c2) by bool_eq; try rewrite C; clear C; destruct c2 eqn:Cnd end;
    try reflexivity; cond_false Cnd;
    rewrite rbr_items by (try exact E; lia); fold ln;
    match goal with |- rev (if ?c then _ else _) = _ => assert (Cf : c = false) by (apply Z.leb_gt; lia); rewrite Cf; clear Cf end;
    match goal with |- rev (firstn ?n (skipn ?a _)) = firstn _ _ =>
      rewrite (rev_slice (sl_items s) a n) by lia; rewrite Ll; (f_equal; first [lia | f_equal; lia]) end.
Qed.

(** the translation in force: Redis' rule outside the recorded classes (no exception once repaired) *)
Theorem zrange_fwd_redis s start stop :
  sl_length s = len (sl_nodes s) -> (zrange_fixed = false -> kf_zrange_fwd (sl_length s) start stop = false) ->
  zrange_of s start stop false = redis_slice (sl_items s) start stop.
Proof.
  intros E K. unfold zrange_of. destruct zrange_fixed.
  - apply zrange_fwd_redis_v2, E.
  - apply zrange_fwd_redis_v1; auto.
Qed.
Theorem zrange_rev_redis s start stop :
  sl_length s = len (sl_nodes s) -> (zrange_fixed = false -> kf_zrange_rev (sl_length s) start stop = false) ->
  zrange_of s start stop true = redis_slice (rev (sl_items s)) start stop.
Proof.
  intros E K. unfold zrange_of. destruct zrange_fixed.
  - apply zrange_rev_redis_v2, E.
  - apply zrange_rev_redis_v1; auto.
Qed.

(** ---- databases ---- *)
(** every stored sorted set is well formed and non-empty *)
Definition db_zok (d : db) : Prop :=
  forall k e z, get_entry d k = Some e -> e_val e = VZSet z -> zs_ok z /\ z <> [].
(** the sorted set under a key: None = another type; a missing key is the empty set *)
Definition zget (d : db) (key : bytes) : option zset :=
  match get_entry d key with
  | Some e => match e_val e with VZSet z => Some z | _ => None end
  | None => Some []
  end.

Lemma get_put d k e k' : get_entry (put_entry d k e) k' = if beq k' k then Some e else get_entry d k'.
Proof. unfold get_entry, put_entry. cbn [d_data]. apply alookup_aset. Qed.
Lemma get_del d k k' : get_entry (del_entry d k) k' = if beq k' k then None else get_entry d k'.
Proof. unfold get_entry, del_entry. cbn [d_data]. apply alookup_aremove. Qed.

Lemma db_zok_put d key z x : db_zok d -> zs_ok z -> z <> [] ->
  db_zok (put_entry d key {| e_val := VZSet z; e_exp := x |}).
Proof.
  intros D Z NE k e z' G V. rewrite get_put in G. destruct (beq k key).
  - inversion G. subst e. cbn [e_val] in V. inversion V. subst. auto.
  - eapply D; eauto.
Qed.
Lemma db_zok_del d key : db_zok d -> db_zok (del_entry d key).
Proof.
  intros D k e z G V. rewrite get_del in G. destruct (beq k key); [discriminate|]. eapply D; eauto.
Qed.
Lemma db_zok_empty : db_zok empty_db.
Proof. intros k e z G. discriminate. Qed.

Lemma zs_ok_nil : zs_ok [].
Proof. repeat split; constructor. Qed.
Lemma zs_place_nonnil e l : zs_place e l <> [].
Proof. destruct l as [|x l]; cbn [zs_place]; [discriminate|]. destruct (elt_ltb x e); discriminate. Qed.
Lemma zs_add_nonnil m v l : zs_add m v l <> [].
Proof. apply zs_place_nonnil. Qed.

Lemma sl_new_of_items : sl_new = sl_of_items [].
Proof. reflexivity. Qed.

(** one skip-list insertion on a stored value *)
Lemma insert_stored z m sc : zs_ok z -> f_is_nan sc = false ->
  sl_insert (z2sl z) m sc 0 = (zs_lookup m z, snd (sl_insert (z2sl z) m sc 0)) /\
  sl2z (snd (sl_insert (z2sl z) m sc 0)) = zs_add m sc z.
Proof.
  intros Z Hs. pose proof (zs_ok_inv z Z) as I. rewrite z2sl_eq.
  destruct (sl_insert_refines (sl_of_items z) m sc 0 I Hs) as [E1 E2].
  rewrite sl_of_items_items in E1, E2. split; [|exact E1].
  rewrite <- E2. destruct (sl_insert (sl_of_items z) m sc 0); reflexivity.
Qed.
Lemma remove_stored z m : zs_ok z ->
  sl_remove (z2sl z) m = (zs_lookup m z, snd (sl_remove (z2sl z) m)) /\
  sl2z (snd (sl_remove (z2sl z) m)) = zs_remove m z /\
  sl_is_empty (snd (sl_remove (z2sl z) m)) = match zs_remove m z with [] => true | _ => false end.
Proof.
  intro Z. pose proof (zs_ok_inv z Z) as I. rewrite z2sl_eq.
  destruct (sl_remove_refines (sl_of_items z) m I) as [E1 E2].
  rewrite sl_of_items_items in E1, E2. split; [|split; [exact E1|]].
  - rewrite <- E2. destruct (sl_remove (sl_of_items z) m); reflexivity.
  - pose proof (sl_remove_inv (sl_of_items z) m I) as I'.
    unfold sl_is_empty. rewrite (inv_length _ I'), <- len_items. unfold sl2z in E1. rewrite E1.
    destruct (zs_remove m z); cbn; reflexivity.
Qed.

Lemma zget_some d key z : zget d key = Some z -> db_zok d -> zs_ok z.
Proof.
  unfold zget. intros G D. destruct (get_entry d key) as [e|] eqn:E.
  - destruct (e_val e) eqn:V; try discriminate. inversion G. subst. apply (D key e z E V).
  - inversion G. apply zs_ok_nil.
Qed.

(** ZADD of one pair at the engine: the stored set becomes [zs_add] of the old one *)
Theorem eng_zadd_spec d key m sc : db_zok d -> f_is_nan sc = false ->
  match zget d key with
  | None => eng_zadd d key m sc = None
  | Some z => exists d', eng_zadd d key m sc = Some (is_none (zs_lookup m z), d') /\
                         zget d' key = Some (zs_add m sc z) /\
                         (forall k', k' <> key -> get_entry d' k' = get_entry d k') /\ db_zok d'
  end.
Proof.
  intros D Hs. pose proof (zget_some d key) as ZS. unfold zget in *. unfold eng_zadd.
  destruct (get_entry d key) as [e|] eqn:E.
  - destruct (e_val e) eqn:V; try reflexivity.
    specialize (ZS z eq_refl D). destruct (insert_stored z m sc ZS Hs) as [E1 E2]. rewrite E1, E2.
    eexists. split; [reflexivity|]. split; [|split].
    + rewrite get_put, beq_refl. reflexivity.
    + intros k' Hne. rewrite get_put. apply beq_false_ne in Hne. rewrite Hne. reflexivity.
    + apply db_zok_put; [exact D|apply zs_add_ok; assumption|apply zs_add_nonnil].
  - rewrite sl_new_of_items, <- z2sl_eq. destruct (insert_stored [] m sc zs_ok_nil Hs) as [E1 E2]. rewrite E1, E2.
    eexists. split; [reflexivity|]. split; [|split].
    + rewrite get_put, beq_refl. reflexivity.
    + intros k' Hne. rewrite get_put. apply beq_false_ne in Hne. rewrite Hne. reflexivity.
    + apply db_zok_put; [exact D|apply zs_add_ok; [apply zs_ok_nil|assumption]|apply zs_add_nonnil].
Qed.

(** ZREM of one member at the engine; removing the last member removes the key *)
Theorem eng_zrem_spec d key m : db_zok d ->
  match zget d key with
  | None => eng_zrem d key m = None
  | Some z => exists d', eng_zrem d key m = Some (negb (is_none (zs_lookup m z)), d') /\
                         zget d' key = Some (zs_remove m z) /\
                         (zs_remove m z = [] -> get_entry d' key = None) /\
                         (forall k', k' <> key -> get_entry d' k' = get_entry d k') /\ db_zok d'
  end.
Proof.
  intros D. pose proof (zget_some d key) as ZS. unfold zget in *. unfold eng_zrem.
  destruct (get_entry d key) as [e|] eqn:E.
  - destruct (e_val e) eqn:V; try reflexivity.
    specialize (ZS z eq_refl D). destruct (remove_stored z m ZS) as (E1 & E2 & E3). rewrite E1, E3, E2.
    destruct (zs_lookup m z) as [old|] eqn:L; cbn [is_none negb].
    + destruct (zs_remove m z) as [|x r] eqn:R.
      * eexists. split; [reflexivity|]. split; [|split; [|split]].
        -- rewrite get_del, beq_refl. reflexivity.
        -- intros _. rewrite get_del, beq_refl. reflexivity.
        -- intros k' Hne. rewrite get_del. apply beq_false_ne in Hne. rewrite Hne. reflexivity.
        -- apply db_zok_del, D.
      * eexists. split; [reflexivity|]. split; [|split; [|split]].
        -- rewrite get_put, beq_refl. reflexivity.
        -- discriminate.
        -- intros k' Hne. rewrite get_put. apply beq_false_ne in Hne. rewrite Hne. reflexivity.
        -- apply db_zok_put; [exact D|rewrite <- R; apply zs_remove_ok, ZS|discriminate].
    + eexists. split; [reflexivity|]. rewrite (zs_remove_absent m z L). split; [|split; [|split]].
      * rewrite E, V. reflexivity.
      * intro. subst z. destruct (D key e [] E V) as [_ NE]. congruence.
      * reflexivity.
      * exact D.
  - eexists. split; [reflexivity|]. cbn [zs_remove]. split; [|split; [|split]].
    + rewrite E. reflexivity.
    + intros _. exact E.
    + reflexivity.
    + exact D.
Qed.

(** ---- every command preserves the database invariant ---- *)
Definition oracle_nonan (oracle : option frame) : Prop :=
  forall i b, oscore oracle i = Some b -> f_is_nan b = false.

Lemma float_arg_oscore parts oracle i b : float_arg parts oracle i = Some b -> oscore oracle i = Some b.
Proof. unfold float_arg. destruct (nth_error parts i) as [[]|]; try discriminate. auto. Qed.

Lemma eng_zadd_zok d key m sc b d' : db_zok d -> f_is_nan sc = false ->
  eng_zadd d key m sc = Some (b, d') -> db_zok d'.
Proof.
  intros D Hs E. pose proof (eng_zadd_spec d key m sc D Hs) as S.
  destruct (zget d key); [|congruence]. destruct S as (d'' & E' & _ & _ & D'). rewrite E in E'. inversion E'. subst. exact D'.
Qed.
Lemma eng_zrem_zok d key m b d' : db_zok d -> eng_zrem d key m = Some (b, d') -> db_zok d'.
Proof.
  intros D E. pose proof (eng_zrem_spec d key m D) as S.
  destruct (zget d key); [|congruence]. destruct S as (d'' & E' & _ & _ & _ & D'). rewrite E in E'. inversion E'. subst. exact D'.
Qed.

Lemma eng_zincrby_zok d key m inc sum r d' : db_zok d -> f_is_nan inc = false ->
  (forall x, sum = Some x -> f_is_nan x = false) ->
  eng_zincrby d key m inc sum = Some (r, d') -> db_zok d'.
Proof.
  intros D Hi Hs. unfold eng_zincrby. destruct (get_entry d key) as [e|] eqn:E.
  - destruct (e_val e) eqn:V; try discriminate.
    destruct (D key e z E V) as [Z NE].
    set (ns := match sl_get_score (z2sl z) m with Some _ => sum | None => Some inc end).
    assert (Hns : forall x, ns = Some x -> f_is_nan x = false).
    { unfold ns. destruct (sl_get_score (z2sl z) m); [exact Hs|]. intros x Hx. inversion Hx. subst. exact Hi. }
    destruct ns as [v|]; [|intro H; inversion H; subst; exact D].
    destruct (insert_stored z m v Z (Hns v eq_refl)) as [E1 E2]. rewrite E1, E2.
    intro H. inversion H. subst. apply db_zok_put; [exact D|apply zs_add_ok; auto|apply zs_add_nonnil].
  - rewrite sl_new_of_items, <- z2sl_eq. destruct (insert_stored [] m inc zs_ok_nil Hi) as [E1 E2]. rewrite E1, E2.
    intro H. inversion H. subst. apply db_zok_put; [exact D|apply zs_add_ok; [apply zs_ok_nil|assumption]|apply zs_add_nonnil].
Qed.

Lemma zadd_pairs_zok key parts oracle : oracle_nonan oracle ->
  forall n rest, (length rest <= n)%nat -> forall d i added, db_zok d ->
  db_zok (snd (zadd_pairs d key parts oracle i rest added)).
Proof.
  intros O. induction n as [|n IH]; intros rest Hl d i added D.
  - destruct rest; [exact D|cbn in Hl; lia].
  - destruct rest as [|sc [|mb rest']]; cbn [zadd_pairs snd]; try exact D.
    destruct (float_arg parts oracle i) as [score|] eqn:F; [|exact D].
    destruct mb; try exact D.
    destruct (nan_refused && f_is_nan score); [exact D|].
    destruct (eng_zadd d key b score) as [[isn d']|] eqn:EZ; [|exact D].
    apply IH; [cbn [length] in Hl; lia|].
    eapply eng_zadd_zok; eauto. apply (O i). apply float_arg_oscore in F. exact F.
Qed.

Lemma zrem_members_zok key : forall ms d removed, db_zok d -> db_zok (snd (zrem_members d key ms removed)).
Proof.
  induction ms as [|f ms IH]; intros d removed D; cbn [zrem_members snd]; [exact D|].
  destruct f; try (apply IH; exact D).
  destruct (eng_zrem d key b) as [[r d']|] eqn:E; [|exact D].
  apply IH. eapply eng_zrem_zok; eauto.
Qed.

Lemma zpop_loop_zok key idx : forall fuel d acc l d', db_zok d ->
  zpop_loop fuel d key idx acc = Some (l, d') -> db_zok d'.
Proof.
  induction fuel as [|fuel IH]; intros d acc l d' D; cbn [zpop_loop].
  - intro H. inversion H. subst. exact D.
  - destruct (eng_zrange d key idx idx false) as [[|[m sc] t]|]; try discriminate.
    + intro H. inversion H. subst. exact D.
    + destruct (eng_zrem d key m) as [[[] d1]|] eqn:E; try discriminate;
      intro H; eapply IH; [eapply eng_zrem_zok; eauto|exact H|eapply eng_zrem_zok; eauto|exact H].
Qed.

Ltac ro := repeat match goal with |- context [match ?x with _ => _ end] => destruct x end; cbn [snd]; auto.

Theorem exec_zsets_zok now d name parts oracle r d' :
  db_zok d -> oracle_nonan oracle ->
  exec_zsets now d name parts oracle = Some (r, d') -> db_zok d'.
Proof.
  intros D O. unfold exec_zsets.
  repeat match goal with |- context [if beq name ?c then _ else _] => destruct (beq name c) end;
  try discriminate; intro H; inversion H as [H']; clear H.
  - (* ZADD *) unfold h_zadd in H'.
    destruct ((nparts parts <? 4) || negb (nparts parts mod 2 =? 0)); [inversion H'; subst; exact D|].
    destruct (nth_error parts 1) as [[]|]; try (inversion H'; subst; exact D).
    destruct (nan_refused && negb (zadd_valid parts oracle 2 (skipn 2 parts))); [inversion H'; subst; exact D|].
    pose proof (zadd_pairs_zok b parts oracle O (length (skipn 2 parts)) (skipn 2 parts) (le_n _) d 2%nat 0 D) as Z.
    rewrite H' in Z. exact Z.
  - (* ZREM *) unfold h_zrem in H'. destruct (nparts parts <? 3); [inversion H'; subst; exact D|].
    destruct (nth_error parts 1) as [[]|]; try (inversion H'; subst; exact D).
    pose proof (zrem_members_zok b (skipn 2 parts) d 0 D) as Z. rewrite H' in Z. exact Z.
  - assert (snd (h_zscore d parts) = d) as E by (unfold h_zscore; ro). rewrite H' in E. cbn in E. subst. exact D.
  - assert (snd (h_zcard d parts) = d) as E by (unfold h_zcard; ro). rewrite H' in E. cbn in E. subst. exact D.
  - assert (snd (h_zrank false d parts) = d) as E by (unfold h_zrank; ro). rewrite H' in E. cbn in E. subst. exact D.
  - assert (snd (h_zrank true d parts) = d) as E by (unfold h_zrank; ro). rewrite H' in E. cbn in E. subst. exact D.
  - assert (snd (h_zrange false d parts) = d) as E by (unfold h_zrange; ro). rewrite H' in E. cbn in E. subst. exact D.
  - assert (snd (h_zrange true d parts) = d) as E by (unfold h_zrange; ro). rewrite H' in E. cbn in E. subst. exact D.
  - assert (snd (h_zrangebyscore false d parts oracle) = d) as E by (unfold h_zrangebyscore; ro). rewrite H' in E. cbn in E. subst. exact D.
  - assert (snd (h_zrangebyscore true d parts oracle) = d) as E by (unfold h_zrangebyscore; ro). rewrite H' in E. cbn in E. subst. exact D.
  - assert (snd (h_zcount d parts oracle) = d) as E by (unfold h_zcount; ro). rewrite H' in E. cbn in E. subst. exact D.
  - (* ZINCRBY *) unfold h_zincrby in H'.
    destruct (negb (nparts parts =? 4)); [inversion H'; subst; exact D|].
    destruct (nth_arg parts 1) as [key|]; [|inversion H'; subst; exact D].
    destruct (float_arg parts oracle 2) as [inc|] eqn:F; [|inversion H'; subst; exact D].
    destruct (nth_arg parts 3) as [m|]; [|inversion H'; subst; exact D].
    destruct (nan_refused && f_is_nan inc); [inversion H'; subst; exact D|].
    destruct (eng_zincrby d key m inc (oscore oracle 4)) as [[[v|] d1]|] eqn:E; [| |inversion H'; subst; exact D].
    + assert (db_zok d1) as D1.
      { eapply eng_zincrby_zok; [exact D| |intros x Hx; apply (O 4%nat); exact Hx|exact E].
        apply (O 2%nat). apply float_arg_oscore in F. exact F. }
      destruct (nan_refused && f_is_nan v); inversion H'; subst; assumption.
    + assert (db_zok d1) as D1.
      { eapply eng_zincrby_zok; [exact D| |intros x Hx; apply (O 4%nat); exact Hx|exact E].
        apply (O 2%nat). apply float_arg_oscore in F. exact F. }
      destruct nan_refused; inversion H'; subst; assumption.
  - (* ZPOPMIN *) unfold h_zpop in H'.
    destruct ((nparts parts <? 2) || (3 <? nparts parts)); [inversion H'; subst; exact D|].
    destruct (nth_arg parts 1) as [key|]; [|inversion H'; subst; exact D].
    destruct (if nparts parts =? 3 then match nth_arg parts 2 with Some c => parse_usize c | None => None end else Some 1) as [n|];
      [|inversion H'; subst; exact D].
    destruct (zpop_loop _ d key 0 []) as [[[|x l] d1]|] eqn:E; inversion H'; subst; try exact D;
    eapply zpop_loop_zok; eauto.
  - (* ZPOPMAX *) unfold h_zpop in H'.
    destruct ((nparts parts <? 2) || (3 <? nparts parts)); [inversion H'; subst; exact D|].
    destruct (nth_arg parts 1) as [key|]; [|inversion H'; subst; exact D].
    destruct (if nparts parts =? 3 then match nth_arg parts 2 with Some c => parse_usize c | None => None end else Some 1) as [n|];
      [|inversion H'; subst; exact D].
    destruct (zpop_loop _ d key (-1) []) as [[[|x l] d1]|] eqn:E; inversion H'; subst; try exact D;
    eapply zpop_loop_zok; eauto.
Qed.

(** lifted to every history of sorted-set commands *)
Definition zcmd := (bytes * list frame * option frame)%type.
Fixpoint run_zcmds (d : db) (cmds : list zcmd) : db :=
  match cmds with
  | [] => d
  | (name, parts, oracle) :: r =>
      match exec_zsets 0 d name parts oracle with
      | Some (_, d') => run_zcmds d' r
      | None => run_zcmds d r
      end
  end.
Theorem run_zcmds_zok cmds : forall d, db_zok d ->
  Forall (fun c : zcmd => oracle_nonan (snd c)) cmds -> db_zok (run_zcmds d cmds).
Proof.
  induction cmds as [|[[name parts] oracle] r IH]; intros d D F; cbn [run_zcmds]; [exact D|].
  inversion F as [|? ? Hc Fr]; subst. cbn [snd] in Hc.
  destruct (exec_zsets 0 d name parts oracle) as [[rp d']|] eqn:E; [|auto].
  apply IH; [|exact Fr]. eapply exec_zsets_zok; eauto.
Qed.

(** ---- reads against the specification ---- *)
Lemma with_zset_zget {A} d key (dflt : A) f z :
  zget d key = Some z -> dflt = f (z2sl []) -> with_zset d key dflt f = Some (f (z2sl z)).
Proof.
  unfold zget, with_zset. destruct (get_entry d key) as [e|].
  - destruct (e_val e); try discriminate. intros H _. inversion H. reflexivity.
  - intros H ->. inversion H. reflexivity.
Qed.
Lemma z2sl_length z : sl_length (z2sl z) = len (sl_nodes (z2sl z)).
Proof. cbn [z2sl sl_length sl_nodes]. unfold len. rewrite map_length. reflexivity. Qed.
Lemma z2sl_items z : sl_items (z2sl z) = z.
Proof. apply sl_of_items_items. Qed.

Theorem eng_zrange_spec d key z start stop :
  zget d key = Some z -> (zrange_fixed = false -> kf_zrange_fwd (len z) start stop = false) ->
  eng_zrange d key start stop false = Some (redis_slice z start stop).
Proof.
  intros G K. unfold eng_zrange. rewrite (with_zset_zget d key [] _ z G) by reflexivity.
  f_equal. rewrite <- (z2sl_items z) at 2. apply zrange_fwd_redis; [apply z2sl_length|exact K].
Qed.
Theorem eng_zrevrange_spec d key z start stop :
  zget d key = Some z -> (zrange_fixed = false -> kf_zrange_rev (len z) start stop = false) ->
  eng_zrange d key start stop true = Some (redis_slice (rev z) start stop).
Proof.
  intros G K. unfold eng_zrange. rewrite (with_zset_zget d key [] _ z G) by reflexivity.
  f_equal. rewrite <- (z2sl_items z) at 2. apply zrange_rev_redis; [apply z2sl_length|exact K].
Qed.

Lemma redis_slice_all {A} (l : list A) : redis_slice l 0 (-1) = l.
Proof.
  unfold redis_slice, redis_range. pose proof (len_nonneg l). destruct l as [|x l']; [reflexivity|].
  set (l := x :: l') in *. assert (0 < len l) by (unfold l, len; cbn; lia).
  brk; try lia. cbn [Z.to_nat skipn].
  replace (Z.to_nat (Z.min (-1 + len l) (len l - 1) - Z.max 0 0 + 1)) with (length l) by (unfold len in *; lia).
  apply firstn_all.
Qed.
Lemma eng_zrange_all d key z : zget d key = Some z -> eng_zrange d key 0 (-1) false = Some z.
Proof.
  intro G. destruct z as [|x z'].
  - unfold eng_zrange. rewrite (with_zset_zget d key [] _ [] G) by reflexivity. reflexivity.
  - rewrite (eng_zrange_spec d key (x :: z') 0 (-1) G).
    + rewrite redis_slice_all. reflexivity.
    + intros _. unfold kf_zrange_fwd. assert (0 < len (x :: z')) by (unfold len; cbn; lia). brk; try reflexivity; lia.
Qed.

Theorem eng_zrank_spec d key z m : db_zok d -> zget d key = Some z ->
  eng_zrank d key m false = Some (zs_rank m z) /\
  eng_zrank d key m true = Some (option_map (fun r => len z - 1 - r) (zs_rank m z)).
Proof.
  intros D G. pose proof (zs_ok_inv z (zget_some d key z G D)) as I. rewrite <- z2sl_eq in I.
  unfold eng_zrank. rewrite !(with_zset_zget d key None _ z G) by reflexivity.
  rewrite (sl_get_rank_spec _ m I), z2sl_items. unfold sl_len. cbn [z2sl sl_length].
  destruct (zs_rank m z); split; reflexivity.
Qed.

(** rank and range agree: ZRANK m = i iff m is the i-th member of ZRANGE 0 -1 *)
Theorem zrank_zrange_agree d key z m i : db_zok d -> zget d key = Some z ->
  (eng_zrank d key m false = Some (Some i) <->
   0 <= i /\ exists l, eng_zrange d key 0 (-1) false = Some l /\ nth_error (map fst l) (Z.to_nat i) = Some m).
Proof.
  intros D G. destruct (eng_zrank_spec d key z m D G) as [E _]. rewrite E, (eng_zrange_all d key z G).
  destruct (zget_some d key z G D) as (_ & N & _).
  pose proof (zs_rank_nth z m i N) as R. split.
  - intro H. inversion H as [H']. apply R in H'. destruct H' as [H0 Hn]. split; [exact H0|]. eexists; split; [reflexivity|exact Hn].
  - intros [H0 (l & El & Hn)]. inversion El. subst l. f_equal. apply R. auto.
Qed.

Theorem eng_zscore_spec d key z m : zget d key = Some z -> eng_zscore d key m = Some (zs_lookup m z).
Proof.
  intro G. unfold eng_zscore. rewrite (with_zset_zget d key None _ z G) by reflexivity.
  unfold sl_get_score. cbn [z2sl sl_index]. rewrite alookup_zs_lookup. reflexivity.
Qed.
Theorem eng_zcard_spec d key z : zget d key = Some z -> eng_zcard d key = Some (len z).
Proof. intro G. unfold eng_zcard. rewrite (with_zset_zget d key 0 _ z G) by reflexivity. reflexivity. Qed.

Theorem eng_zrangebyscore_spec d key z mn mx : db_zok d -> zget d key = Some z -> f_is_nan mn = false ->
  eng_zrangebyscore d key mn mx false = Some (zs_byscore mn mx z) /\
  eng_zrangebyscore d key mn mx true = Some (rev (zs_byscore mn mx z)) /\
  eng_zcount d key mn mx = Some (len (zs_byscore mn mx z)).
Proof.
  intros D G Hmn. pose proof (zs_ok_inv z (zget_some d key z G D)) as I. rewrite <- z2sl_eq in I.
  pose proof (sl_range_by_score_spec _ mn mx I Hmn) as S. rewrite z2sl_items in S.
  unfold eng_zcount, eng_zrangebyscore. rewrite !(with_zset_zget d key [] _ z G) by reflexivity.
  rewrite nodes_kv_eq, S. repeat split.
Qed.

(** ---- failure atomicity ---- *)
Lemma zrem_members_noerr key : forall ms d removed z, db_zok d -> zget d key = Some z ->
  exists n, fst (zrem_members d key ms removed) = r_int n.
Proof.
  induction ms as [|f ms IH]; intros d removed z D G; cbn [zrem_members fst]; [eexists; reflexivity|].
  destruct f; try (eapply IH; eauto).
  pose proof (eng_zrem_spec d key b D) as S. rewrite G in S. destruct S as (d' & E & G' & _ & _ & D').
  rewrite E. eapply IH; eauto.
Qed.
Lemma zrem_members_wrongtype key : forall ms d removed, zget d key = None ->
  snd (zrem_members d key ms removed) = d.
Proof.
  induction ms as [|f ms IH]; intros d removed G; cbn [zrem_members snd]; [reflexivity|].
  destruct f; try (apply IH; exact G).
  assert (eng_zrem d key b = None) as ->; [|reflexivity].
  unfold zget in G. unfold eng_zrem. destruct (get_entry d key) as [e|]; [|discriminate].
  destruct (e_val e); try reflexivity. discriminate.
Qed.

Lemma zpop_loop_some key idx : forall fuel d acc z, db_zok d -> zget d key = Some z ->
  zpop_loop fuel d key idx acc <> None.
Proof.
  induction fuel as [|fuel IH]; intros d acc z D G; cbn [zpop_loop]; [discriminate|].
  unfold eng_zrange at 1. rewrite (with_zset_zget d key [] _ z G) by reflexivity.
  destruct (zrange_of (z2sl z) idx idx false) as [|[m sc] t]; [discriminate|].
  pose proof (eng_zrem_spec d key m D) as S. rewrite G in S. destruct S as (d' & E & G' & _ & _ & D').
  rewrite E. destruct (negb (is_none (zs_lookup m z))); eapply IH; eauto.
Qed.
Lemma zpop_wrongtype key idx fuel d acc : zget d key = None -> fuel <> O -> zpop_loop fuel d key idx acc = None.
Proof.
  intros G F. destruct fuel; [congruence|]. cbn [zpop_loop].
  assert (eng_zrange d key idx idx false = None) as ->; [|reflexivity].
  unfold zget in G. unfold eng_zrange, with_zset. destruct (get_entry d key) as [e|]; [|discriminate].
  destruct (e_val e); try reflexivity. discriminate.
Qed.

(** an error reply leaves the database unchanged - for every command except a
    multi-pair ZADD (class zadd-partial) *)
Theorem exec_zsets_failure_atomic now d name parts oracle r d' :
  db_zok d -> (beq name (bs "ZADD") = true -> nparts parts = 4) ->
  exec_zsets now d name parts oracle = Some (r, d') -> is_error r = true -> d' = d.
Proof.
  intros D A. unfold exec_zsets.
  destruct (beq name (bs "ZADD")) eqn:NA.
  { (* single-pair ZADD *)
    specialize (A eq_refl). intro H. inversion H as [H']. clear H. unfold h_zadd in H'. rewrite A in H'.
    cbn [Z.ltb Z.compare Pos.compare Pos.compare_cont orb negb] in H'.
    change ((4 mod 2 =? 0)) with true in H'. cbn [negb] in H'.
    destruct (nth_error parts 1) as [[]|]; try (inversion H'; subst; reflexivity).
    destruct (nan_refused && negb (zadd_valid parts oracle 2 (skipn 2 parts))); [inversion H'; subst; reflexivity|].
    assert (L : length parts = 4%nat) by (unfold nparts, len in A; lia).
    destruct parts as [|p0 [|p1 [|p2 [|p3 [|p4 ps]]]]]; cbn in L; try lia.
    cbn [skipn zadd_pairs] in H'.
    destruct (float_arg _ oracle 2) as [score|]; [|inversion H'; subst; reflexivity].
    destruct p3; try (inversion H'; subst; reflexivity).
    destruct (nan_refused && f_is_nan score); [inversion H'; subst; reflexivity|].
    destruct (eng_zadd d b b0 score) as [[isn d1]|]; inversion H'; subst; [discriminate|reflexivity]. }
  clear A.
  destruct (beq name (bs "ZREM")).
  { intro H. inversion H as [H']. clear H. unfold h_zrem in H'.
    destruct (nparts parts <? 3); [inversion H'; subst; reflexivity|].
    destruct (nth_error parts 1) as [[]|]; try (inversion H'; subst; reflexivity).
    destruct (zget d b) as [z|] eqn:G.
    - destruct (zrem_members_noerr b (skipn 2 parts) d 0 z D G) as [n En]. rewrite H' in En. cbn [fst] in En.
      subst r. discriminate.
    - pose proof (zrem_members_wrongtype b (skipn 2 parts) d 0 G) as E. rewrite H' in E. intros _. exact E. }
  repeat match goal with |- context [if beq name ?c then _ else _] => destruct (beq name c) end;
  try discriminate; intro H; inversion H as [H']; clear H.
  - assert (snd (h_zscore d parts) = d) as E by (unfold h_zscore; ro). rewrite H' in E. intros _. exact E.
  - assert (snd (h_zcard d parts) = d) as E by (unfold h_zcard; ro). rewrite H' in E. intros _. exact E.
  - assert (snd (h_zrank false d parts) = d) as E by (unfold h_zrank; ro). rewrite H' in E. intros _. exact E.
  - assert (snd (h_zrank true d parts) = d) as E by (unfold h_zrank; ro). rewrite H' in E. intros _. exact E.
  - assert (snd (h_zrange false d parts) = d) as E by (unfold h_zrange; ro). rewrite H' in E. intros _. exact E.
  - assert (snd (h_zrange true d parts) = d) as E by (unfold h_zrange; ro). rewrite H' in E. intros _. exact E.
  - assert (snd (h_zrangebyscore false d parts oracle) = d) as E by (unfold h_zrangebyscore; ro). rewrite H' in E. intros _. exact E.
  - assert (snd (h_zrangebyscore true d parts oracle) = d) as E by (unfold h_zrangebyscore; ro). rewrite H' in E. intros _. exact E.
  - assert (snd (h_zcount d parts oracle) = d) as E by (unfold h_zcount; ro). rewrite H' in E. intros _. exact E.
  - (* ZINCRBY *) unfold h_zincrby in H'.
    destruct (negb (nparts parts =? 4)); [inversion H'; subst; reflexivity|].
    destruct (nth_arg parts 1) as [key|]; [|inversion H'; subst; reflexivity].
    destruct (float_arg parts oracle 2) as [inc|]; [|inversion H'; subst; reflexivity].
    destruct (nth_arg parts 3) as [m|]; [|inversion H'; subst; reflexivity].
    destruct (nan_refused && f_is_nan inc); [inversion H'; subst; reflexivity|].
    destruct (eng_zincrby d key m inc (oscore oracle 4)) as [[[v|] d1]|] eqn:E; [| |inversion H'; subst; reflexivity].
    + destruct (nan_refused && f_is_nan v); inversion H'; subst; [reflexivity|discriminate].
    + destruct nan_refused; [inversion H'; subst; reflexivity|].
      inversion H'; subst. intros _. revert E. unfold eng_zincrby.
      destruct (get_entry d key) as [e|].
      * destruct (e_val e) as [?|?|?|?|zz|?]; try discriminate.
        destruct (match sl_get_score (z2sl zz) m with Some _ => oscore oracle 4 | None => Some inc end) as [nv|].
        -- destruct (sl_insert (z2sl zz) m nv 0). discriminate.
        -- intro E. inversion E. reflexivity.
      * destruct (sl_insert sl_new m inc 0). discriminate.
  - (* ZPOPMIN *) unfold h_zpop in H'.
    destruct ((nparts parts <? 2) || (3 <? nparts parts)); [inversion H'; subst; reflexivity|].
    destruct (nth_arg parts 1) as [key|]; [|inversion H'; subst; reflexivity].
    destruct (if nparts parts =? 3 then match nth_arg parts 2 with Some c => parse_usize c | None => None end else Some 1) as [n|];
      [|inversion H'; subst; reflexivity].
    destruct (zpop_loop _ d key 0 []) as [[[|x l] d1]|] eqn:E; inversion H'; subst; try discriminate; reflexivity.
  - (* ZPOPMAX *) unfold h_zpop in H'.
    destruct ((nparts parts <? 2) || (3 <? nparts parts)); [inversion H'; subst; reflexivity|].
    destruct (nth_arg parts 1) as [key|]; [|inversion H'; subst; reflexivity].
    destruct (if nparts parts =? 3 then match nth_arg parts 2 with Some c => parse_usize c | None => None end else Some 1) as [n|];
      [|inversion H'; subst; reflexivity].
    destruct (zpop_loop _ d key (-1) []) as [[[|x l] d1]|] eqn:E; inversion H'; subst; try discriminate; reflexivity.
Qed.

(** ---- removing the last member removes the key ---- *)
Definition cmd (args : list bytes) : list frame := map FBulk args.

Theorem zrem_last_member d key m sc : db_zok d -> zget d key = Some [(m, sc)] ->
  exists d', h_zrem d (cmd [bs "ZREM"; key; m]) = (r_int 1, d') /\ get_entry d' key = None.
Proof.
  intros D G. pose proof (eng_zrem_spec d key m D) as S. rewrite G in S.
  destruct S as (d' & E & _ & K & _). cbn [zs_lookup zs_remove fst] in E, K. rewrite beq_refl in E, K.
  cbn [is_none negb] in E. exists d'. split; [|apply K; reflexivity].
  unfold h_zrem, cmd. cbn [map nparts len length nth_error skipn zrem_members]. rewrite E. reflexivity.
Qed.

(** ---- ZPOPMIN pops the smallest members, in order ---- *)
Lemma zs_lookup_notin m (l : list elt) : ~ In m (map fst l) -> zs_lookup m l = None.
Proof.
  induction l as [|[k s] l IH]; cbn [map fst In zs_lookup]; intro H; [reflexivity|].
  assert (beq m k = false) as -> by (apply beq_false_ne; intro; subst; tauto). apply IH. tauto.
Qed.
Lemma zs_ok_tail x z : zs_ok (x :: z) -> zs_ok z /\ ~ In (fst x) (map fst z).
Proof.
  intros (S & N & F). unfold zs_sorted, zs_members, zs_nonan in *. cbn [map] in N.
  inversion S; inversion N; inversion F; subst. repeat split; assumption.
Qed.
Definition enc_pairs (l : list elt) : list frame := flat_map (fun p => [FBulk (fst p); r_score (snd p)]) l.

Lemma zrange_first x z : zrange_of (z2sl (x :: z)) 0 0 false = [x].
Proof.
  rewrite (zrange_fwd_redis (z2sl (x :: z)) 0 0 (z2sl_length _)).
  - rewrite z2sl_items. unfold redis_slice, redis_range.
    assert (0 < len (x :: z)) by (unfold len; cbn; lia). brk; try lia.
    replace (Z.to_nat (Z.min 0 (len (x :: z) - 1) - Z.max 0 0 + 1)) with 1%nat by lia. reflexivity.
  - intros _. unfold kf_zrange_fwd. cbn [z2sl sl_length]. pose proof (len_nonneg (x :: z)). brk; try reflexivity; lia.
Qed.

Theorem zpopmin_loop_spec key : forall fuel d acc z, db_zok d -> zget d key = Some z ->
  exists d', zpop_loop fuel d key 0 acc = Some (acc ++ enc_pairs (firstn fuel z), d') /\
             zget d' key = Some (skipn fuel z) /\ db_zok d'.
Proof.
  induction fuel as [|fuel IH]; intros d acc z D G.
  - exists d. cbn [zpop_loop firstn skipn enc_pairs flat_map]. rewrite app_nil_r. auto.
  - cbn [zpop_loop]. unfold eng_zrange at 1. rewrite (with_zset_zget d key [] _ z G) by reflexivity.
    destruct z as [|[m sc] z'].
    + exists d. cbn. rewrite app_nil_r. auto.
    + rewrite zrange_first.
      destruct (zs_ok_tail (m, sc) z' (zget_some d key _ G D)) as [Z' NI]. cbn [fst] in NI.
      pose proof (eng_zrem_spec d key m D) as S. rewrite G in S. destruct S as (d1 & E & G1 & _ & _ & D1).
      cbn [zs_lookup zs_remove fst] in E, G1. rewrite beq_refl in E, G1. cbn [is_none negb] in E.
      rewrite (zs_remove_absent m z' (zs_lookup_notin m z' NI)) in G1.
      rewrite E. destruct (IH d1 (acc ++ [FBulk m; r_score sc]) z' D1 G1) as (d' & E' & G' & D').
      exists d'. split; [|split; assumption].
      rewrite E'. cbn [firstn enc_pairs flat_map fst snd app]. rewrite <- app_assoc. reflexivity.
Qed.

(** ---- witnesses of the recorded defect classes (the model reproduces the code) ---- *)
Definition oracle_of (l : list (option Z)) : option frame :=
  Some (FArray (map (fun o => match o with Some b => FDouble b | None => FNullBulk end) l)).
Definition one_bits := 4607182418800017408.      (* 1.0 *)
Definition two_bits := 4611686018427387904.      (* 2.0 *)
Definition three_bits := 4613937818241073152.    (* 3.0 *)
Definition kz := bs "z".




(** F-04a at the skip-list level: a node whose score is NaN can never be unlinked ... *)
Lemma remove_nan_noop s k v : f_is_nan v = true -> remove_node_by_score s k v = s.
Proof.
  intro H. unfold remove_node_by_score. destruct (nth_error (sl_nodes s) _) as [t|]; [|reflexivity].
  assert (f_eq (n_val t) v = false) as ->.
  { unfold f_eq, f_pcmp. rewrite H, Bool.orb_true_r. reflexivity. }
  rewrite Bool.andb_false_r. reflexivity.
Qed.
(** ... so after insert(m, NaN); remove(m) the chain keeps the node, length stays 1, the index is empty *)
Lemma nan_breaks_inv :
  let s := snd (sl_remove (snd (sl_insert sl_new (bs "m") nan_bits 0)) (bs "m")) in
  sl_length s = 1 /\ sl_index s = [] /\ sl_items s = [(bs "m", nan_bits)] /\ ~ Inv s.
Proof.
  cbv zeta. split; [vm_compute; reflexivity|]. split; [vm_compute; reflexivity|]. split; [vm_compute; reflexivity|].
  intro I. pose proof (proj2 (inv_index _ I (bs "m") nan_bits)) as H.
  assert (In (bs "m", nan_bits) (sl_items (snd (sl_remove (snd (sl_insert sl_new (bs "m") nan_bits 0)) (bs "m"))))) as Hin
    by (vm_compute; left; reflexivity).
  apply H in Hin. vm_compute in Hin. discriminate.
Qed.

Definition z3 : zset := [(bs "a", one_bits); (bs "b", two_bits); (bs "c", three_bits)].
(** F-04b: ZRANGE z 0 -100 on three members returns the first member (Redis: empty) *)
Lemma zrange_neg_stop_witness :
  kf_zrange_fwd 3 0 (-100) = true /\
  zrange_of_v1 (z2sl z3) 0 (-100) false = [(bs "a", one_bits)] /\ redis_slice z3 0 (-100) = [].
Proof. repeat split; vm_compute; reflexivity. Qed.
(** F-04b: ZREVRANGE z 5 10 on three members returns one member (Redis: empty) *)
Lemma zrevrange_beyond_witness :
  kf_zrange_rev 3 5 10 = true /\
  zrange_of_v1 (z2sl z3) 5 10 true = [(bs "a", one_bits)] /\ redis_slice (rev z3) 5 10 = [].
Proof. repeat split; vm_compute; reflexivity. Qed.


(** a NaN lower bound is accepted by ZRANGEBYSCORE/ZCOUNT and selects everything up to max
    (Redis refuses NaN bounds) *)
Lemma zrangebyscore_nan_bound_witness :
  sl_range_by_score (z2sl z3) nan_bits two_bits = sl_nodes (z2sl [(bs "a", one_bits); (bs "b", two_bits)]) /\
  zs_byscore nan_bits two_bits z3 = [].
Proof. split; vm_compute; reflexivity. Qed.
