(** C01 - String and key-space commands follow the Redis reference semantics.
    Statements only; proofs in Proofs/StringsFacts.v.  Model: Model/Strings.v
    (server.rs handlers + commands/strings.rs + engine.rs, after the repairs
    recorded in known_findings.json).  For the commands that are a single map
    operation the code-shaped model is itself the readable specification; the
    theorems below cover what the code computes with arithmetic, bookkeeping or
    several steps.  Missing for a full refinement statement: one declarative
    Redis clause per command with a proof that the model equals it - present
    for GETRANGE, the INCR family, SET/GET/DEL read-after-write. *)
From Ferrous Require Import Base.Bytes Model.Resp Model.Types Model.Glob Model.Strings
  Proofs.BytesFacts Proofs.StringsFacts.
Open Scope Z_scope.

(** GETRANGE computes exactly Redis' getrangeCommand rule, for every string and
    every pair of (machine-integer or not) indices *)
Theorem c01_getrange_is_redis_rule :
  forall b start stop, getrange_bytes b start stop = getrange_spec b start stop.
Proof. exact getrange_eq_spec. Qed.

(** ... and the range it selects is literally the bytes at positions s..e *)
Theorem c01_range_bytes :
  forall (b : bytes) s e i, 0 <= s -> 0 <= i <= e - s -> e < len b ->
  nth_error (zfirstn (e - s + 1) (zskipn s b)) (Z.to_nat i) = nth_error b (Z.to_nat (s + i)).
Proof. exact sub_nth. Qed.

(** INCR/DECR/INCRBY/DECRBY on a stored decimal: the sum when it fits in i64,
    otherwise refused with the database untouched *)
Theorem c01_incr_checked :
  forall d k inc e cur,
  get_entry d k = Some e -> e_val e = VStr (print_int cur) -> in_i64 cur = true ->
  eng_incr_by d k inc =
    if in_i64 (cur + inc)
    then (Some (cur + inc), put_entry d k {| e_val := VStr (print_int (cur + inc)); e_exp := e_exp e |})
    else (None, d).
Proof. exact incr_by_spec. Qed.

(** what a successful increment stores reads back as the replied number, in range *)
Theorem c01_incr_readback :
  forall d k inc n d', in_i64 inc = true -> eng_incr_by d k inc = (Some n, d') ->
  in_i64 n = true /\ exists e, get_entry d' k = Some e /\ e_val e = VStr (print_int n).
Proof. exact incr_by_readback. Qed.

(** A refused command (error reply) of this family leaves the database exactly
    as it was - data, deadlines and the deadline index.  MSET and MGET are the
    two exceptions, treated below. *)
Theorem c01_failure_atomic :
  forall now d name parts r d',
  exec_strings now d name parts = Some (r, d') -> is_error r = true ->
  is_mset_mget name = false -> d' = d.
Proof. exact exec_strings_atomic. Qed.

(** MGET refused half-way (non-string key) has removed nothing but entries that
    were already expired, i.e. invisible *)
Theorem c01_mget_atomic_view :
  forall now d parts r d', h_mget now d parts = (r, d') -> same_view now d d'.
Proof. exact h_mget_same_view. Qed.

(** every key is bound at most once, in the data and in the deadline index, after
    any history of commands of this family at any times *)
Theorem c01_wf_all_histories :
  forall h d, wf_db d -> wf_db (snd (run_strings d h)).
Proof. exact run_strings_wf. Qed.

(** read-after-write: SET k v ; GET k = v at every later time *)
Theorem c01_get_after_set :
  forall now now' d k v, k <> [] ->
  h_get now' (set_value now d k (VStr v) None) [FBulk (bs "GET"); FBulk k] =
  (r_bulk v, set_value now d k (VStr v) None).
Proof. exact get_after_set. Qed.
Theorem c01_get_after_del :
  forall now d k, k <> [] ->
  fst (h_get now (snd (eng_delete d k)) [FBulk (bs "GET"); FBulk k]) = r_nil.
Proof. exact get_after_del. Qed.
(** ... and a write to one key is invisible at every other key *)
Theorem c01_set_frame :
  forall now d k k' v ttl, beq k' k = false ->
  get_entry (set_value now d k v ttl) k' = get_entry d k'.
Proof. exact set_value_other. Qed.

(** SETRANGE: length and content of the result (zero padding before the offset comes from
    the padded original; the payload lands at [off, off + len v)) *)
Theorem c01_setrange_length :
  forall b off v, 0 <= off -> len (setrange_bytes b off v) = Z.max (len b) (off + len v).
Proof. exact setrange_length. Qed.
Theorem c01_setrange_payload :
  forall b off v i, 0 <= off -> 0 <= i < len v ->
  nth_error (setrange_bytes b off v) (Z.to_nat (off + i)) = nth_error v (Z.to_nat i).
Proof. exact setrange_payload. Qed.

(** RENAME: overwrite + TTL carry, source gone, everything else untouched - for the
    dataset and for the deadline index, which follows the value (10c8230) *)
Theorem c01_rename_spec :
  forall d o n e k, get_entry d o = Some e ->
  let d' := snd (eng_rename d o n) in
  get_entry d' n = Some e /\
  (beq o n = false -> get_entry d' o = None) /\
  (beq k o = false -> beq k n = false -> get_entry d' k = get_entry d k) /\
  index_of d' n = e_exp e /\
  (beq o n = false -> index_of d' o = None) /\
  (beq k o = false -> beq k n = false -> index_of d' k = index_of d k).
Proof. exact rename_spec. Qed.

(** SET NX / XX *)
Theorem c01_set_nx :
  forall now d k v, k <> [] ->
  h_set now d [FBulk (bs "SET"); FBulk k; FBulk v; FBulk (bs "NX")] =
  if eng_exists now d k then (r_nil, d) else (r_ok, set_value now d k (VStr v) None).
Proof. exact set_nx_spec. Qed.
Theorem c01_set_xx :
  forall now d k v, k <> [] ->
  h_set now d [FBulk (bs "SET"); FBulk k; FBulk v; FBulk (bs "XX")] =
  if eng_exists now d k then (r_ok, set_value now d k (VStr v) None) else (r_nil, d).
Proof. exact set_xx_spec. Qed.

(** APPEND = concatenation, reply = new length *)
Theorem c01_append_spec :
  forall d k v,
  h_append d [FBulk (bs "APPEND"); FBulk k; FBulk v] =
  match get_entry d k with
  | Some e => match e_val e with
              | VStr b => (r_int (len (b ++ v)), put_entry d k {| e_val := VStr (b ++ v); e_exp := e_exp e |})
              | _ => (r_wrongtype, d)
              end
  | None => (r_int (len v), put_entry d k {| e_val := VStr v; e_exp := None |})
  end.
Proof. exact append_spec. Qed.

(** EXISTS counts every mention of a visible key *)
Theorem c01_exists_counts :
  forall now d args n,
  exists_count now d args n = n + len (filter (fun k => eng_exists now d k) (bulks_of args)).
Proof. exact exists_count_spec. Qed.

(** SETRANGE with an empty value (6988c1c) changes nothing and answers the current length - 0 for a
    missing key, which is not created, WRONGTYPE for another type - for every offset, also one
    beyond the 512 MB limit; the answer is STRLEN's *)
Theorem c01_setrange_empty_changes_nothing :
  forall d k off, eng_setrange d k off [] = (cur_len d k, d).
Proof. exact setrange_empty_noop. Qed.
Theorem c01_setrange_empty_is_strlen :
  forall d nm nm' k a off, parse_usize a = Some off ->
  h_setrange d [FBulk nm; FBulk k; FBulk a; FBulk []] = h_strlen d [FBulk nm'; FBulk k].
Proof. exact setrange_empty_is_strlen. Qed.

(** SET: EX and PX exclude each other (d6b03fb) - in either order, whatever the two counts and
    whatever follows, the command is refused and nothing is stored *)
Theorem c01_set_ex_px_exclusive :
  forall now d nm k v a b tail,
  h_set now d (FBulk nm :: FBulk k :: FBulk v :: FBulk (bs "EX") :: FBulk a :: FBulk (bs "PX") :: b :: tail) = (r_err, d) /\
  h_set now d (FBulk nm :: FBulk k :: FBulk v :: FBulk (bs "PX") :: FBulk a :: FBulk (bs "EX") :: b :: tail) = (r_err, d).
Proof. exact set_ex_px_refused. Qed.

(** SETEX / PSETEX (02eb367): a count of 0 is refused and stores nothing; whatever they do store
    has its deadline strictly in the future *)
Theorem c01_setex_zero_refused :
  forall m now d parts a, nth_arg parts 2 = Some a -> parse_u64 a = Some 0 ->
  h_setex m now d parts = (r_err, d).
Proof. exact setex_zero_refused. Qed.
Theorem c01_setex_deadline_in_future :
  forall m now d parts r d' k e, 0 < m ->
  h_setex m now d parts = (r, d') -> r = r_ok -> nth_arg parts 1 = Some k ->
  get_entry d' k = Some e -> exists t, e_exp e = Some t /\ now < t.
Proof. exact setex_deadline_future. Qed.

(** Integers of the INCR family (e4bcfd7): the canonical decimal text only.  Every i64 has one and
    it reads back as that number; nothing else is read as a number; so a stored string is
    incremented only if it is exactly what [print_int] writes for some i64. *)
Theorem c01_canonical_roundtrip :
  forall z, in_i64 z = true -> parse_canonical (print_int z) = Some z.
Proof. exact parse_canonical_print. Qed.
Theorem c01_canonical_unique :
  forall b z, parse_canonical b = Some z -> b = print_int z.
Proof. exact parse_canonical_unique. Qed.
Theorem c01_canonical_in_range :
  forall b z, parse_canonical b = Some z -> in_i64 z = true.
Proof. exact parse_canonical_range. Qed.
Theorem c01_incr_only_canonical :
  forall d k inc e b n d',
  get_entry d k = Some e -> e_val e = VStr b -> eng_incr_by d k inc = (Some n, d') ->
  exists cur, b = print_int cur /\ in_i64 cur = true /\ n = cur + inc.
Proof. exact incr_only_canonical. Qed.

(** ---- non-vacuity ---- *)
Example c01_wf_reachable : wf_db empty_db.
Proof. exact wf_empty. Qed.
Example c01_history_example :
  fst (run_strings empty_db
        [(0, [FBulk (bs "SET"); FBulk (bs "k"); FBulk (bs "10")]);
         (0, [FBulk (bs "INCRBY"); FBulk (bs "k"); FBulk (bs "9223372036854775800")]);
         (0, [FBulk (bs "GETRANGE"); FBulk (bs "k"); FBulk (bs "0"); FBulk (bs "-100")]);
         (5, [FBulk (bs "incr"); FBulk (bs "k")])])
  = [r_ok; r_err; r_bulk (bs "1"); r_int 11].
Proof. vm_compute. reflexivity. Qed.

(** ---- known findings: where the code (hence the faithful model) departs from Redis ---- *)
(** empty-key: Redis accepts the empty string as a key; SET/GET/INCR/INCRBY refuse it *)
Example c01_empty_key_refuted :
  fst (h_set 0 empty_db [FBulk (bs "SET"); FBulk []; FBulk (bs "v")]) = r_err.
Proof. vm_compute. reflexivity. Qed.
(** lenient-integer-arguments: every integer argument other than the value and the increment of the
    INCR family is still read with Rust's [str::parse] (a leading '+', leading zeros), which
    Redis refuses: EXPIRE k +5, GETRANGE k +0 01, SETEX k2 +5 v are accepted *)
Example c01_lenient_integer_arguments_refuted :
  fst (run_strings empty_db
        [(0, [FBulk (bs "SET"); FBulk (bs "k"); FBulk (bs "v")]);
         (0, [FBulk (bs "EXPIRE"); FBulk (bs "k"); FBulk (bs "+5")]);
         (0, [FBulk (bs "GETRANGE"); FBulk (bs "k"); FBulk (bs "+0"); FBulk (bs "01")]);
         (0, [FBulk (bs "SETEX"); FBulk (bs "k2"); FBulk (bs "+5"); FBulk (bs "v")])])
  = [r_ok; r_int 1; r_bulk (bs "v"); r_ok].
Proof. vm_compute. reflexivity. Qed.
(** MSET is failure-atomic too since 974d7d6 (every pair is validated before the first is stored) *)
Theorem c01_mset_refused_changes_nothing :
  forall now d parts r d', h_mset now d parts = (r, d') -> is_error r = true -> d' = d.
Proof. exact h_mset_atomic. Qed.

(** ---- former findings, repaired (974d7d6, 1a8fa0e, f4c6282, 48bcb4d): regression examples ---- *)
Example c01_mset_atomic :
  h_mset 0 empty_db [FBulk (bs "MSET"); FBulk (bs "a"); FBulk (bs "1"); FBulk (bs "b"); FInt 5] = (r_err, empty_db).
Proof. vm_compute. reflexivity. Qed.
Example c01_setrange_empty_creates_nothing :
  h_setrange empty_db [FBulk (bs "SETRANGE"); FBulk (bs "q"); FBulk (bs "0"); FBulk []] = (r_int 0, empty_db).
Proof. vm_compute. reflexivity. Qed.
Example c01_set_nx_xx_refused :
  h_set 0 empty_db [FBulk (bs "SET"); FBulk (bs "a"); FBulk (bs "1"); FBulk (bs "NX"); FBulk (bs "XX")] = (r_err, empty_db).
Proof. vm_compute. reflexivity. Qed.
Example c01_set_ex0_refused :
  h_set 0 empty_db [FBulk (bs "SET"); FBulk (bs "a"); FBulk (bs "1"); FBulk (bs "EX"); FBulk (bs "0")] = (r_err, empty_db) /\
  h_set 0 empty_db [FBulk (bs "SET"); FBulk (bs "a"); FBulk (bs "1"); FBulk (bs "PX"); FBulk (bs "0")] = (r_err, empty_db).
Proof. vm_compute. split; reflexivity. Qed.

(** ---- repaired 6988c1c, d6b03fb, 02eb367, e4bcfd7: regression examples ---- *)
Definition c01_abc : db := snd (h_set 0 empty_db [FBulk (bs "SET"); FBulk (bs "e"); FBulk (bs "abc")]).
Example c01_setrange_empty_value :
  h_setrange c01_abc [FBulk (bs "SETRANGE"); FBulk (bs "e"); FBulk (bs "10"); FBulk []] = (r_int 3, c01_abc) /\
  h_setrange c01_abc [FBulk (bs "SETRANGE"); FBulk (bs "e"); FBulk (bs "0"); FBulk []] = (r_int 3, c01_abc) /\
  h_setrange c01_abc [FBulk (bs "SETRANGE"); FBulk (bs "e"); FBulk (bs "536870913"); FBulk []] = (r_int 3, c01_abc) /\
  h_setrange c01_abc [FBulk (bs "SETRANGE"); FBulk (bs "nokey"); FBulk (bs "10"); FBulk []] = (r_int 0, c01_abc).
Proof. vm_compute. repeat split; reflexivity. Qed.
Example c01_set_ex_px_refused :
  h_set 0 empty_db [FBulk (bs "SET"); FBulk (bs "f"); FBulk (bs "x"); FBulk (bs "EX"); FBulk (bs "10"); FBulk (bs "PX"); FBulk (bs "100")] = (r_err, empty_db) /\
  h_set 0 empty_db [FBulk (bs "SET"); FBulk (bs "f"); FBulk (bs "x"); FBulk (bs "px"); FBulk (bs "100"); FBulk (bs "NX"); FBulk (bs "ex"); FBulk (bs "10")] = (r_err, empty_db) /\
  fst (h_set 0 empty_db [FBulk (bs "SET"); FBulk (bs "f"); FBulk (bs "x"); FBulk (bs "EX"); FBulk (bs "10"); FBulk (bs "EX"); FBulk (bs "20")]) = r_ok.
Proof. vm_compute. repeat split; reflexivity. Qed.
Example c01_setex_0_refused :
  h_setex 1000 0 empty_db [FBulk (bs "SETEX"); FBulk (bs "h"); FBulk (bs "0"); FBulk (bs "v")] = (r_err, empty_db) /\
  h_setex 1 0 empty_db [FBulk (bs "PSETEX"); FBulk (bs "h"); FBulk (bs "0"); FBulk (bs "v")] = (r_err, empty_db) /\
  h_setex 1000 0 empty_db [FBulk (bs "SETEX"); FBulk (bs "h"); FBulk (bs "-1"); FBulk (bs "v")] = (r_err, empty_db).
Proof. vm_compute. repeat split; reflexivity. Qed.
Example c01_noncanonical_integers_refused :
  map parse_canonical [bs "+5"; bs "01"; bs "-0"; bs "00"; bs "+0"; bs " 5"; bs "5 "; bs "007"; bs "-01"; bs "-"; bs "";
                       bs "9223372036854775808"; bs "0"; bs "-5"; bs "-9223372036854775808"]
  = [None; None; None; None; None; None; None; None; None; None; None; None; Some 0; Some (-5); Some (-9223372036854775808)] /\
  fst (run_strings empty_db
        [(0, [FBulk (bs "SET"); FBulk (bs "a"); FBulk (bs "+5")]);
         (0, [FBulk (bs "INCR"); FBulk (bs "a")]);
         (0, [FBulk (bs "SET"); FBulk (bs "d"); FBulk (bs "1")]);
         (0, [FBulk (bs "INCRBY"); FBulk (bs "d"); FBulk (bs "+5")]);
         (0, [FBulk (bs "DECRBY"); FBulk (bs "d"); FBulk (bs "01")]);
         (0, [FBulk (bs "INCRBY"); FBulk (bs "d"); FBulk (bs "5")])])
  = [r_ok; r_err; r_ok; r_err; r_err; r_int 6].
Proof. vm_compute. split; reflexivity. Qed.
