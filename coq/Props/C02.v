(** C02 - Expiration is exact: never early, never observable late, never spurious.
    Statements only; proofs in Proofs/ExpiryFacts.v.  Model: Model/Strings.v (deadlines,
    lazy expiry where engine.rs has it, the deadline index) and Model/Server.v
    (sweep_collect / sweep_delete = engine.rs expiration_cleanup_loop after the repair
    9fbc313; expire_before / lazy_expire = the lazy expiry every command starts with,
    bdd75e8; RENAME moving the index entry, 10c8230).  The sweeper's two phases are separate
    events, so every interleaving of client commands with them is covered by quantifying
    over the database the delete phase finds. *)
From Ferrous Require Import Base.Bytes Generated Model.Resp Model.Types Model.Strings Model.Server
  Proofs.StringsFacts Proofs.ServerFacts Proofs.ExpiryFacts.
Open Scope Z_scope.

(** NEVER EARLY / NEVER SPURIOUS.  Whatever keys the sweeper collected at time t0 from
    database d0 (stale index entries included) and whatever clients did in between (the
    database is now d1), its delete phase at time t1 leaves every key of d1 that has no
    deadline, or a deadline still in the future, exactly as it is - value and deadline. *)
Theorem c02_never_early :
  forall t0 t1 d0 d1 trk k e,
  get_entry d1 k = Some e -> expired t1 e = false ->
  get_entry (fst (sweep_delete t1 d1 trk (sweep_collect t0 d0))) k = Some e.
Proof. exact sweep_race_safe. Qed.

(** the sweeper creates and alters nothing: each key is either untouched or removed *)
Theorem c02_sweeper_only_removes :
  forall now d t k k',
  get_entry (fst (sweep_key now (d, t) k)) k' = get_entry d k' \/
  get_entry (fst (sweep_key now (d, t) k)) k' = None.
Proof. exact sweep_key_only_removes. Qed.

(** ACTIVE EXPIRY COMPLETES: after one pass at [now], an entry whose indexed and stored
    deadlines have both passed is gone. *)
Theorem c02_sweep_complete :
  forall now d t k e ti,
  alookup k (d_index d) = Some ti -> ti <= now -> get_entry d k = Some e -> expired now e = true ->
  get_entry (fst (sweep_delete now d t (sweep_collect now d))) k = None.
Proof. exact sweep_complete. Qed.

(** NEVER OBSERVABLE LATE.  Every command - of every data type, sent directly, queued in
    MULTI/EXEC or called from a script - is preceded by [expire_before] on the selected
    database (table regenerated from server.rs / engine.rs: [c02_lazy_tables]).  Whatever
    the command and whatever its arguments, when its handler runs every key an argument
    names is either absent or not yet at its deadline - whether or not the sweeper has run. *)
Theorem c02_absent_from_deadline :
  forall now d name parts k, In k (lazy_args parts) -> fresh now (fst (expire_before now d name parts)) k.
Proof. exact expire_before_fresh. Qed.
(** the commands that look at the key space as a whole (DBSIZE, KEYS, SCAN, RANDOMKEY, INFO)
    see no entry past its deadline at all, provided the deadline index covers the stored
    deadlines ([indexed]) *)
Theorem c02_keyspace_commands_see_no_expired :
  forall now d name parts k, indexed d -> bmem name lazy_keyspace_commands = true ->
  fresh now (fst (expire_before now d name parts)) k.
Proof. exact expire_before_keyspace_fresh. Qed.
(** [indexed] is an invariant: it holds of the empty database and is preserved by the lazy
    expiry step and by every command of the string / key-space family - the only commands
    that create or move a deadline (SET .. EX/PX, SETEX, PSETEX, EXPIRE, PEXPIRE, PERSIST,
    RENAME, RENAMENX, GETSET, MSET, DEL, FLUSHDB ...); the collection families keep the
    deadline of the entry they rewrite *)
Theorem c02_indexed_invariant :
  indexed empty_db /\
  (forall now d name parts, indexed d -> indexed (fst (expire_before now d name parts))) /\
  (forall now d name parts r d', indexed d -> exec_strings now d name parts = Some (r, d') -> indexed d').
Proof. split; [exact indexed_empty|split; [exact expire_before_indexed|exact exec_strings_indexed]]. Qed.

(** NEVER EARLY, NEVER SPURIOUS, for the lazy path: a key that has not reached its deadline
    (or has none) is left exactly as it is; nothing is created or altered; a key disappears
    only if its stored deadline has passed *)
Theorem c02_lazy_never_early :
  forall now d name parts k e, get_entry d k = Some e -> expired now e = false ->
  get_entry (fst (expire_before now d name parts)) k = Some e.
Proof. exact expire_before_keeps_live. Qed.
Theorem c02_lazy_only_expired :
  forall now d name parts k,
  get_entry (fst (expire_before now d name parts)) k = get_entry d k \/
  (get_entry (fst (expire_before now d name parts)) k = None /\
   exists e, get_entry d k = Some e /\ expired now e = true).
Proof. exact expire_before_only_expired. Qed.
(** at the server: the handler of every command runs on the purged database *)
Theorem c02_every_command_starts_with_lazy_expiry :
  forall now s c dbi nm rest oracle,
  normal_command now s c dbi (FBulk nm :: rest) oracle =
  dispatch_command now (lazy_expire now s dbi (upper nm) (FBulk nm :: rest)) c dbi (FBulk nm :: rest) oracle.
Proof. exact normal_command_is_dispatch_on_purged. Qed.
Theorem c02_lazy_expire_db :
  forall now s dbi name parts, 0 <= dbi < 16 -> length (s_dbs s) = 16%nat ->
  get_db (lazy_expire now s dbi name parts) dbi = fst (expire_before now (get_db s dbi) name parts).
Proof. exact lazy_expire_db. Qed.
Theorem c02_lazy_tables :
  lazy_expires_every_arg = true /\ lazy_expiry_before_dispatch = true /\
  lazy_keyspace_commands = [bs "DBSIZE"; bs "KEYS"; bs "SCAN"; bs "RANDOMKEY"; bs "INFO"] /\
  lazy_alldb_commands = [bs "SAVE"; bs "BGSAVE"; bs "BGREWRITEAOF"; bs "SYNC"; bs "PSYNC"].
Proof. exact lazy_tables. Qed.

(** LAZY EXPIRY inside the engine, where it was before: from the deadline on, GET answers nil and EXISTS 0
    whether or not the sweeper has run. *)
Theorem c02_get_hides_expired :
  forall now d k e, k <> [] -> get_entry d k = Some e -> expired now e = true ->
  fst (h_get now d [FBulk (bs "GET"); FBulk k]) = r_nil.
Proof. exact get_hides_expired. Qed.
Theorem c02_exists_hides_expired :
  forall now d k e, get_entry d k = Some e -> expired now e = true -> eng_exists now d k = false.
Proof. exact exists_hides_expired. Qed.

(** TTL BOOKKEEPING: overwriting clears, PERSIST clears, RENAME carries, in-place
    modifications keep the stored deadline. *)
Theorem c02_overwrite_clears :
  forall now d k v, exists e, get_entry (set_value now d k v None) k = Some e /\ e_exp e = None /\ e_val e = v.
Proof. exact set_value_clears. Qed.
Theorem c02_persist_clears :
  forall d k e, get_entry d k = Some e -> e_exp e <> None ->
  exists e', get_entry (snd (eng_persist d k)) k = Some e' /\ e_exp e' = None /\ e_val e' = e_val e.
Proof. exact persist_clears. Qed.
Theorem c02_rename_carries :
  forall d o n e, get_entry d o = Some e -> get_entry (snd (eng_rename d o n)) n = Some e.
Proof. exact rename_carries. Qed.
Theorem c02_incr_keeps_deadline :
  forall d k inc n d' e, get_entry d k = Some e -> eng_incr_by d k inc = (Some n, d') ->
  exists e', get_entry d' k = Some e' /\ e_exp e' = e_exp e.
Proof. exact incr_keeps_deadline. Qed.
Theorem c02_append_keeps_deadline :
  forall d k v e b r d', get_entry d k = Some e -> e_val e = VStr b ->
  h_append d [FBulk (bs "APPEND"); FBulk k; FBulk v] = (r, d') ->
  exists e', get_entry d' k = Some e' /\ e_exp e' = e_exp e /\ e_val e' = VStr (b ++ v).
Proof. exact append_keeps_deadline. Qed.

(** TTL / PTTL: -2 absent, -1 no deadline, otherwise the remaining time (TTL rounded up
    to whole seconds).  PTTL of an expired, not yet swept key answers 0 (known class
    pttl-expired-zero); TTL answers -2. *)
Theorem c02_ttl_reply :
  forall now d k,
  fst (h_ttl now d [FBulk (bs "TTL"); FBulk k]) =
    match get_entry d k with
    | None => r_int (-2)
    | Some e => match e_exp e with
                | None => r_int (-1)
                | Some t => if now <? t then r_int ((t - now + 999) / 1000) else r_int (-2)
                end
    end.
Proof. exact ttl_reply. Qed.
Theorem c02_pttl_reply :
  forall now d k,
  fst (h_pttl now d [FBulk (bs "PTTL"); FBulk k]) =
    match get_entry d k with
    | None => r_int (-2)
    | Some e => match e_exp e with
                | None => r_int (-1)
                | Some t => if now <? t then r_int (Z.min (t - now) i64_max) else r_int 0
                end
    end.
Proof. exact pttl_reply. Qed.

(** the regenerated table: the sweeper's delete phase consults the stored deadline *)
Theorem c02_sweeper_rechecks : sweeper_rechecks_stored_deadline = true.
Proof. exact sweeper_table. Qed.

(** ---- non-vacuity: the data-loss history repaired by 9fbc313 ---- *)
Example c02_overwritten_key_survives :
  let d0 := snd (h_set 0 empty_db [FBulk (bs "SET"); FBulk (bs "t"); FBulk (bs "v"); FBulk (bs "PX"); FBulk (bs "200")]) in
  let d1 := snd (h_set 0 d0 [FBulk (bs "SET"); FBulk (bs "t"); FBulk (bs "w")]) in
  let d2 := fst (sweep_delete 300 d1 empty_tracker (sweep_collect 300 d1)) in
  sweep_collect 300 d1 = [bs "t"] /\ fst (h_get 300 d2 [FBulk (bs "GET"); FBulk (bs "t")]) = r_bulk (bs "w").
Proof. vm_compute. split; reflexivity. Qed.

(** ---- the former known findings, now regression examples (bdd75e8, 10c8230) ---- *)
(** INCR on an expired, unswept counter starts from 0; TYPE says none; DBSIZE counts nothing *)
Example c02_lazy_expiry_examples :
  let s0 := init_server None in
  let run := fun s t l => normal_command t s 0 0 (map FBulk l) None in
  let s1 := snd (run s0 0 [bs "SET"; bs "c"; bs "41"; bs "PX"; bs "200"]) in
  fst (run s1 300 [bs "INCR"; bs "c"]) = r_int 1 /\
  fst (run s1 300 [bs "TYPE"; bs "c"]) = FSimple (bs "none") /\
  fst (run s1 300 [bs "DBSIZE"]) = r_int 0 /\
  fst (run s1 300 [bs "PTTL"; bs "c"]) = r_int (-2) /\
  fst (run s1 199 [bs "INCR"; bs "c"]) = r_int 42.
Proof. vm_compute. repeat split; reflexivity. Qed.
(** RENAME moves the index entry: the sweeper removes the destination when its time comes *)
Example c02_rename_indexed :
  let d0 := snd (h_set 0 empty_db [FBulk (bs "SET"); FBulk (bs "a"); FBulk (bs "v"); FBulk (bs "PX"); FBulk (bs "200")]) in
  let d1 := snd (h_rename d0 [FBulk (bs "RENAME"); FBulk (bs "a"); FBulk (bs "b")]) in
  let d2 := fst (sweep_delete 300 d1 empty_tracker (sweep_collect 300 d1)) in
  sweep_collect 300 d1 = [bs "b"] /\ get_entry d2 (bs "b") = None /\ fst (h_dbsize d2 [FBulk (bs "DBSIZE")]) = r_int 0.
Proof. vm_compute. repeat split; reflexivity. Qed.
