(** C03 - List, set and hash commands follow the Redis reference semantics.
    Statements only; proofs are in Proofs/ListsFacts.v.  The model (Model/Lists.v)
    mirrors commands/lists.rs, sets.rs, hashes.rs and the engine.rs functions
    lpush .. hincrby of the unchanged tree; the declarative reference semantics is
    Spec/Collections.v.  Where the code deviates from the reference semantics the
    theorem carries a decidable hypothesis excluding exactly that class of inputs
    and a [..._refuted] theorem exhibits a witness inside the class. *)
From Ferrous Require Import Base.Bytes Model.Resp Model.Types Model.Strings Model.Lists
  Spec.Collections Proofs.BytesFacts Proofs.ListsFacts Proofs.MixedFacts.
From Ferrous Require Proofs.StringsFacts.
Open Scope Z_scope.

(** ---------------------------------------------------------------- index forms *)

(** LRANGE / LTRIM window: for ALL lists, starts and stops outside the class
    [lrange_known] (non-empty list, stop < -len, start normalising to 0) the window the
    code computes is the window of the Redis rule. *)
Theorem c03_range_normalisation :
  forall l start stop, lrange_known (len l) start stop = false ->
  list_slice l start stop = redis_range l start stop.
Proof. exact list_slice_spec. Qed.

(** Inside the class the code answers / keeps the head element where Redis gives nothing
    (F-03a); this describes the deviation exactly, for all inputs of the class. *)
Theorem c03_range_known_class_exact :
  forall l start stop, lrange_known (len l) start stop = true ->
  list_slice l start stop = firstn 1 l /\ redis_range l start stop = [] /\ firstn 1 l <> [].
Proof. exact list_slice_known. Qed.

Theorem c03_range_refuted :
  exists l start stop,
  lrange_known (len l) start stop = true /\ list_slice l start stop <> redis_range l start stop.
Proof. exact lrange_refuted. Qed.

(** the same witness as a command history of the model (and of the real server:
    known_findings.json class lrange-stop-underflow) *)
Example c03_lrange_refuted_history :
  replies [["RPUSH"; "l"; "a"; "b"; "c"]; ["LRANGE"; "l"; "0"; "-100"]; ["LRANGE"; "l"; "-100"; "-50"]]%string
  = [FInt 3; FArray [b "a"]; FArray [b "a"]].
Proof. exact lrange_refuted_history. Qed.
Example c03_ltrim_refuted_history :
  replies [["RPUSH"; "l"; "a"; "b"; "c"]; ["LTRIM"; "l"; "0"; "-100"]; ["LRANGE"; "l"; "0"; "-1"]]%string
  = [FInt 3; r_ok; FArray [b "a"]].
Proof. exact ltrim_refuted_history. Qed.

(** the same at the level of the engine functions: LRANGE answers the Redis window, LTRIM
    keeps it and removes the key when it is empty *)
Theorem c03_lrange_reply :
  forall l start stop, lrange_known (len l) start stop = false ->
  e_lrange start stop (Some (VList l)) = (r_bulks (redis_range l start stop), Keep).
Proof. exact lrange_reply_spec. Qed.
Theorem c03_ltrim_spec :
  forall l start stop, lrange_known (len l) start stop = false ->
  e_ltrim start stop (Some (VList l)) =
  (r_ok, match redis_range l start stop with [] => Del | l' => Put (VList l') end).
Proof. exact ltrim_spec. Qed.
(** LRANGE k 0 -1 returns the whole list in order (the read used by the dataset dumps) *)
Theorem c03_lrange_whole : forall l, list_slice l 0 (-1) = l.
Proof. exact list_slice_all. Qed.

(** LINDEX addressing equals the Redis rule for every list and every index
    (negative, zero, past either end). *)
Theorem c03_index_normalisation : forall l i, list_index l i = redis_index l i.
Proof. exact list_index_spec. Qed.

(** LSET writes exactly the addressed slot: LINDEX with the same index reads the new value
    back, all other slots and the length are unchanged. *)
Theorem c03_lset_lindex :
  forall l i v, idx_ok (len l) i = true ->
  let l' := replace_nth l (Z.to_nat (norm_idx (len l) i)) v in
  len l' = len l /\ list_index l' i = Some v /\
  forall j, norm_idx (len l) j <> norm_idx (len l) i -> list_index l' j = list_index l j.
Proof. exact lset_lindex. Qed.

(** ---------------------------------------------------------------- LREM, all counts *)

Theorem c03_lrem_zero : forall x l, list_rem 0 x l = Some (without x l, occ x l).
Proof. exact list_rem_zero. Qed.

(** count > 0: the first min(count, occurrences) occurrences, counted from the head, go *)
Theorem c03_lrem_positive :
  forall c x l, 0 < c ->
  exists r k, list_rem c x l = Some (r, k) /\ k = Z.min c (occ x l) /\ removed_prefix l x k r.
Proof. exact list_rem_pos. Qed.

(** count < 0 (above isize::MIN): the last min(-count, occurrences), counted from the tail *)
Theorem c03_lrem_negative :
  forall c x l, c < 0 -> c <> isize_min ->
  exists r k, list_rem c x l = Some (r, k) /\ k = Z.min (- c) (occ x l) /\ removed_suffix l x k r.
Proof. exact list_rem_neg. Qed.

(** count = isize::MIN: the negation overflows, the server process dies (F-06g) *)
Theorem c03_lrem_min_refuted : forall x l, e_lrem isize_min x (Some (VList l)) = (PANIC, Keep).
Proof. exact lrem_min_panics. Qed.
Example c03_lrem_refuted_history :
  replies [["RPUSH"; "l"; "a"]; ["LREM"; "l"; "-9223372036854775808"; "a"]]%string = [FInt 1; PANIC].
Proof. exact lrem_refuted_history. Qed.

(** ---------------------------------------------------------------- failure atomicity *)

(** Every command of the family, in every database, with every argument list and oracle:
    an error reply (wrong type, index out of range, non-integer field, arity, malformed
    argument, inadmissible oracle, PANIC) leaves the database exactly as it was. *)
Theorem c03_failure_atomic :
  forall now d name parts oracle r d',
  exec_lists now d name parts oracle = Some (r, d') -> is_error r = true -> d' = d.
Proof. exact exec_lists_atomic. Qed.

(** ---------------------------------------------------------------- invariants over all histories *)

(** One step of any family command keeps every stored collection non-empty and its
    members / fields unique. *)
Theorem c03_step_preserves_wf :
  forall now d name parts oracle r d',
  exec_lists now d name parts oracle = Some (r, d') -> wf_colls d -> wf_colls d'.
Proof. exact exec_lists_wf. Qed.

(** Hence after ANY history of family commands (any times, names, arguments, oracles)
    from the empty database: no key holds an empty list, set or hash ... *)
Theorem c03_empty_removed :
  forall cs k e, In (k, e) (d_data (c03_run empty_db cs)) ->
  match e_val e with VList l => l <> [] | VSet s => s <> [] | VHash h => h <> [] | _ => True end.
Proof. exact run_empty_removed. Qed.

(** ... and sets hold unique members, hashes unique fields. *)
Theorem c03_unique :
  forall cs k e, In (k, e) (d_data (c03_run empty_db cs)) ->
  match e_val e with VSet s => NoDup s | VHash h => NoDup (map fst h) | _ => True end.
Proof. exact run_unique. Qed.

(** The C01 invariant (unique keys in the dataset and in the deadline index) is preserved by
    every command of this family too, so both invariants hold along mixed histories. *)
Theorem c03_preserves_key_uniqueness :
  forall now d name parts oracle r d',
  exec_lists now d name parts oracle = Some (r, d') -> StringsFacts.wf_db d -> StringsFacts.wf_db d'.
Proof. exact exec_lists_keys_wf. Qed.

(** The same invariant along histories that MIX this family with the string / key-space
    family (SET, DEL, RENAME, EXPIRE, FLUSHDB, ... : the first two dispatchers of exec_db),
    in any order, at any times: those commands only store strings, delete entries, move an
    existing entry or change a deadline. *)
Theorem c03_invariant_mixed_histories :
  forall cs k e, In (k, e) (d_data (mixed_run empty_db cs)) ->
  match e_val e with
  | VList l => l <> []
  | VSet s => s <> [] /\ NoDup s
  | VHash h => h <> [] /\ NoDup (map fst h)
  | _ => True
  end.
Proof. exact mixed_run_empty_removed_unique. Qed.

(** non-vacuity: a concrete history in which two collections empty out and vanish *)
Example c03_wf_reachable :
  let d := snd (play empty_db (map cmdf [["RPUSH"; "l"; "a"; "b"]; ["SADD"; "s"; "x"; "y"; "x"];
                                         ["HSET"; "h"; "f"; "1"; "g"; "2"]; ["LPOP"; "l"]; ["LPOP"; "l"];
                                         ["SREM"; "s"; "x"; "y"]; ["HDEL"; "h"; "f"]]%string)) in
  map fst (d_data d) = [bs "h"].
Proof. exact wf_reachable_example. Qed.

(** ---------------------------------------------------------------- sets: unique members, counts *)

(** SADD: the new set is duplicate-free, holds exactly the old members and the given ones,
    and the count answered is the growth of the set. *)
Theorem c03_sadd_spec :
  forall ms s a s' a', NoDup s -> sadd_loop s ms a = (s', a') ->
  NoDup s' /\ (forall m, In m s' <-> In m s \/ In m ms) /\ a' - a = len s' - len s.
Proof. exact sadd_loop_spec. Qed.

Theorem c03_srem_spec :
  forall ms s k s' k', NoDup s -> srem_loop s ms k = (s', k') ->
  NoDup s' /\ (forall m, In m s' <-> In m s /\ ~ In m ms) /\ k' - k = len s - len s'.
Proof. exact srem_loop_spec. Qed.

(** ---------------------------------------------------------------- multi-key set algebra *)

(** For every combination of existing and missing keys (a missing key is the empty set):
    the result is duplicate-free and holds exactly the prescribed members. *)
Theorem c03_sunion_spec :
  forall d keys, all_typed d keys ->
  exists r, eng_sunion d keys = SOk r /\ NoDup r /\ forall m, In m r <-> in_some d keys m.
Proof. exact sunion_spec. Qed.

Theorem c03_sinter_spec :
  forall d k ks, all_typed d (k :: ks) -> set_wf_at d k ->
  exists r, eng_sinter d (k :: ks) = SOk r /\ NoDup r /\ forall m, In m r <-> in_every d (k :: ks) m.
Proof. exact sinter_spec. Qed.

Theorem c03_sdiff_spec :
  forall d k ks, all_typed d (k :: ks) -> set_wf_at d k ->
  exists r, eng_sdiff d (k :: ks) = SOk r /\ NoDup r /\
            forall m, In m r <-> in_some d [k] m /\ in_none d ks m.
Proof. exact sdiff_spec. Qed.

(** refusal of keys of another type: always for SUNION; for SINTER when no key is
    missing; for SDIFF when the first key exists *)
Theorem c03_sunion_wrongtype :
  forall d keys, (exists k, In k keys /\ set_at d k = None) -> eng_sunion d keys = SWrong.
Proof. exact sunion_wrong. Qed.
Theorem c03_sinter_wrongtype :
  forall d keys, none_missing d keys -> (exists k, In k keys /\ set_at d k = None) ->
  eng_sinter d keys = SWrong.
Proof. exact sinter_wrong. Qed.
Theorem c03_sdiff_wrongtype :
  forall d k ks, get_val d k <> None -> (exists k0, In k0 (k :: ks) /\ set_at d k0 = None) ->
  eng_sdiff d (k :: ks) = SWrong.
Proof. exact sdiff_wrong. Qed.
(** outside those hypotheses the early return skips the type check: SDIFF / SINTER answer
    an empty array although a later key holds a list (class setalg-type-skipped) *)
Example c03_setalg_type_skipped_refuted :
  replies [["SADD"; "s"; "a"]; ["LPUSH"; "str"; "x"]; ["SDIFF"; "nokey"; "str"]; ["SINTER"; "nokey"; "str"];
           ["SINTER"; "s"; "nokey"; "str"]; ["SDIFF"; "s"; "str"]; ["SUNION"; "nokey"; "str"]]%string
  = [FInt 1; FInt 1; FArray []; FArray []; FArray []; r_wrongtype; r_wrongtype].
Proof. exact setalg_type_skipped_history. Qed.

(** ---------------------------------------------------------------- random picks *)

(** SPOP, for every oracle: an answer that is not an error returned min(count, card)
    distinct current members and removed exactly those. *)
Theorem c03_spop_sound :
  forall single count oracle s r u,
  s <> [] -> e_spop single count oracle (Some (VSet s)) = (r, u) -> is_error r = false ->
  exists xs, len xs = Z.min count (len s) /\ NoDup xs /\ incl xs s /\
             r = pick_reply single xs /\ u = spop_upd s xs /\
             forall m, In m (remove_all xs s) <-> In m s /\ ~ In m xs.
Proof. exact spop_sound. Qed.

(** every admissible choice is followed, every other choice is refused *)
Theorem c03_spop_every_admissible_choice :
  forall count s xs, s <> [] ->
  (len xs = Z.min count (len s) /\ NoDup xs /\ incl xs s ->
   e_spop false count (Some (FArray (map FBulk xs))) (Some (VSet s)) = (r_bulks (bsort xs), spop_upd s xs)) /\
  (~ (len xs = Z.min count (len s) /\ NoDup xs /\ incl xs s) ->
   e_spop false count (Some (FArray (map FBulk xs))) (Some (VSet s)) = (BADORACLE, Keep)).
Proof. exact spop_every_choice. Qed.
Theorem c03_spop_single_choice :
  forall s m, In m s -> e_spop true 1 (Some (FBulk m)) (Some (VSet s)) = (r_bulk m, spop_upd s [m]).
Proof. exact spop_single_follows. Qed.

(** SRANDMEMBER changes nothing, whatever it answers; an answer that is not an error
    consists of current members: one without count, min(count, card) distinct ones for
    count >= 0, exactly -count (repetition allowed) for count < 0. *)
Theorem c03_srandmember_readonly : forall count oracle cur, snd (e_srandmember count oracle cur) = Keep.
Proof. exact srandmember_readonly. Qed.
Theorem c03_srandmember_sound :
  forall count oracle s r u,
  s <> [] -> e_srandmember count oracle (Some (VSet s)) = (r, u) -> is_error r = false ->
  u = Keep /\
  exists xs, incl xs s /\
    match count with
    | None => len xs = 1 /\ r = pick_reply true xs
    | Some n => r = pick_reply false xs /\
                if 0 <=? n then len xs = Z.min n (len s) /\ NoDup xs else len xs = - n
    end.
Proof. exact srandmember_sound. Qed.
Theorem c03_srandmember_every_admissible_choice :
  forall n s xs, s <> [] -> incl xs s ->
  (0 <= n -> len xs = Z.min n (len s) -> NoDup xs ->
   e_srandmember (Some n) (Some (FArray (map FBulk xs))) (Some (VSet s)) = (r_bulks (bsort xs), Keep)) /\
  (srand_neg_ok n = true -> len xs = - n ->
   e_srandmember (Some n) (Some (FArray (map FBulk xs))) (Some (VSet s)) = (r_bulks (bsort xs), Keep)).
Proof. exact srandmember_every_choice. Qed.
(** negative counts outside [srand_neg_ok] (i64::MIN: negation; 24 * -count > isize::MAX:
    Vec::with_capacity) kill the server (F-06h) *)
Theorem c03_srandmember_refuted :
  forall n oracle s, s <> [] -> n < 0 -> srand_neg_ok n = false ->
  e_srandmember (Some n) oracle (Some (VSet s)) = (PANIC, Keep).
Proof. exact srandmember_panics. Qed.
Example c03_srandmember_refuted_history :
  replies [["SADD"; "s"; "a"]; ["SRANDMEMBER"; "s"; "-9223372036854775808"];
           ["SRANDMEMBER"; "s"; "-384307168202282326"]]%string = [FInt 1; PANIC; PANIC].
Proof. exact srandmember_refuted_history. Qed.

(** ---------------------------------------------------------------- hashes *)

(** after HSET / HMSET the last value given for a field is read back, other fields keep
    their value (existing or fresh hash alike) *)
Theorem c03_hset_lookup :
  forall ps h a f,
  alookup f (fst (hset_loop h ps a)) = match alookup f (rev ps) with Some v => Some v | None => alookup f h end.
Proof. exact hset_loop_lookup. Qed.

(** on an existing hash the count answered is the number of fields created *)
Theorem c03_hset_count_existing :
  forall ps h a h' a', NoDup (map fst h) -> hset_loop h ps a = (h', a') -> a' - a = len h' - len h.
Proof. exact hset_loop_count. Qed.

(** on a fresh key the answer is the number of pairs: right exactly when no field repeats *)
Theorem c03_hset_count_fresh :
  forall ps, hset_fresh_dup ps = false -> len (fst (hset_loop [] ps 0)) = len ps.
Proof. exact hset_count_fresh. Qed.
Theorem c03_hset_fresh_refuted :
  exists ps, hset_fresh_dup ps = true /\
  exists n h, e_hset false ps None = (FInt n, Put (VHash h)) /\ n <> len h.
Proof. exact hset_fresh_refuted. Qed.
Example c03_hset_fresh_refuted_history :
  replies [["HSET"; "hh"; "f"; "1"; "f"; "2"]; ["HLEN"; "hh"]]%string = [FInt 2; FInt 1].
Proof. exact hset_fresh_refuted_history. Qed.

Theorem c03_hdel_spec :
  forall fs h k h' k', NoDup (map fst h) -> hdel_loop h fs k = (h', k') ->
  (forall f, alookup f h' = if bmem f fs then None else alookup f h) /\ k' - k = len h - len h'.
Proof. exact hdel_loop_spec. Qed.

(** HINCRBY past the i64 range: unchecked addition, the server process dies (F-06e) *)
Theorem c03_hincrby_overflow_refuted :
  forall h f inc, hincrby_overflows h f inc = true -> e_hincrby f inc (Some (VHash h)) = (PANIC, Keep).
Proof. exact hincrby_overflow_panics. Qed.
Example c03_hincrby_refuted_history :
  replies [["HSET"; "h"; "n"; "9223372036854775807"]; ["HINCRBY"; "h"; "n"; "1"]]%string = [FInt 1; PANIC].
Proof. exact hincrby_refuted_history. Qed.

(** ---------------------------------------------------------------- panics (shared with C06) *)

(** Of the 31 commands only LREM, SRANDMEMBER and HINCRBY can reach a panicking operation ... *)
Theorem c03_panic_only_three_commands :
  forall now d name parts oracle r d',
  exec_lists now d name parts oracle = Some (r, d') -> panics r = true ->
  name = bs "LREM" \/ name = bs "SRANDMEMBER" \/ name = bs "HINCRBY".
Proof. exact exec_lists_panic_names. Qed.
(** ... and exactly on the inputs of the three classes. *)
Theorem c03_lrem_panics_iff :
  forall c x cur, panics (fst (e_lrem c x cur)) = true <-> (exists l, cur = Some (VList l)) /\ c = isize_min.
Proof. exact lrem_panics_iff. Qed.
Theorem c03_hincrby_panics_iff :
  forall f inc cur, panics (fst (e_hincrby f inc cur)) = true <->
  exists h, cur = Some (VHash h) /\ hincrby_overflows h f inc = true.
Proof. exact hincrby_panics_iff. Qed.
Theorem c03_srandmember_panics_iff :
  forall count oracle cur, panics (fst (e_srandmember count oracle cur)) = true <->
  exists s n, cur = Some (VSet s) /\ s <> [] /\ count = Some n /\ n < 0 /\ srand_neg_ok n = false.
Proof. exact srandmember_panics_iff. Qed.
