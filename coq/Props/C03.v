(** C03 - List, set and hash commands follow the Redis reference semantics.
    Statements only; proofs are in Proofs/ListsFacts.v and Proofs/MixedFacts.v.  The model
    (Model/Lists.v) mirrors commands/lists.rs, sets.rs, hashes.rs and the engine.rs
    functions lpush .. hincrby after the repairs c5f1b6a, 61742d6, 2b792ef, 6f35e51,
    eab489c, 84546fc; the declarative reference semantics is Spec/Collections.v.
    The classes those commits repaired (known_findings.json, status fixed) used to be
    excluded by hypotheses; the theorems now hold at full strength, and the former
    witnesses are kept as regression Examples. *)
From Ferrous Require Import Base.Bytes Model.Resp Model.Types Model.Strings Model.Lists
  Spec.Collections Proofs.BytesFacts Proofs.ListsFacts Proofs.MixedFacts.
From Ferrous Require Proofs.StringsFacts.
Open Scope Z_scope.

(** ---------------------------------------------------------------- index forms *)

(** LRANGE / LTRIM window: for ALL lists, starts and stops (negative, zero, past either
    end, stop before the head) the window the code computes is the window of the Redis rule. *)
Theorem c03_range_normalisation :
  forall l start stop, list_slice l start stop = redis_range l start stop.
Proof. exact list_slice_spec. Qed.

(** the same at the level of the engine functions: LRANGE answers the Redis window, LTRIM
    keeps it and removes the key when it is empty *)
Theorem c03_lrange_reply :
  forall l start stop,
  e_lrange start stop (Some (VList l)) = (r_bulks (redis_range l start stop), Keep).
Proof. exact lrange_reply_spec. Qed.
Theorem c03_ltrim_spec :
  forall l start stop,
  e_ltrim start stop (Some (VList l)) =
  (r_ok, match redis_range l start stop with [] => Del | l' => Put (VList l') end).
Proof. exact ltrim_spec. Qed.
(** LRANGE k 0 -1 returns the whole list in order (the read used by the dataset dumps) *)
Theorem c03_lrange_whole : forall l, list_slice l 0 (-1) = l.
Proof. exact list_slice_all. Qed.
(** regression witness of 2b792ef (a stop below -len used to be clamped to the head) *)
Example c03_lrange_fixed_history :
  replies [["RPUSH"; "l"; "a"; "b"; "c"]; ["LRANGE"; "l"; "0"; "-100"]; ["LRANGE"; "l"; "-100"; "-50"];
           ["LTRIM"; "l"; "0"; "-100"]; ["LRANGE"; "l"; "0"; "-1"]; ["LLEN"; "l"]]%string
  = [FInt 3; FArray []; FArray []; r_ok; FArray []; FInt 0].
Proof. exact lrange_fixed_history. Qed.

(** LINDEX addressing equals the Redis rule for every list and every index
    (negative, zero, past either end). *)
Theorem c03_index_normalisation : forall l i, list_index l i = redis_index l i.
Proof. exact list_index_spec. Qed.

(** LSET writes exactly the addressed slot: LINDEX with the same index reads the new value
    back, all other slots and the length are unchanged. *)
Theorem c03_lset_lindex :
  forall l i v, idx_ok (len l) i = true ->
  let l' := replace_nth l (Z.to_nat (norm_idx (len l) i)) v in
  len l' = len l /\ list_index l' i = Some v /\
  forall j, norm_idx (len l) j <> norm_idx (len l) i -> list_index l' j = list_index l j.
Proof. exact lset_lindex. Qed.

(** ---------------------------------------------------------------- LREM, all counts *)

Theorem c03_lrem_zero : forall x l, list_rem 0 x l = (without x l, occ x l).
Proof. exact list_rem_zero. Qed.

(** count > 0: the first min(count, occurrences) occurrences, counted from the head, go *)
Theorem c03_lrem_positive :
  forall c x l, 0 < c ->
  exists r k, list_rem c x l = (r, k) /\ k = Z.min c (occ x l) /\ removed_prefix l x k r.
Proof. exact list_rem_pos. Qed.

(** count < 0, isize::MIN included: the last min(-count, occurrences), counted from the tail *)
Theorem c03_lrem_negative :
  forall c x l, c < 0 ->
  exists r k, list_rem c x l = (r, k) /\ k = Z.min (- c) (occ x l) /\ removed_suffix l x k r.
Proof. exact list_rem_neg. Qed.

(** hence LREM always answers the number removed and stores the rest (or removes the key) *)
Theorem c03_lrem_total :
  forall c x l, exists l' k, list_rem c x l = (l', k) /\
  e_lrem c x (Some (VList l)) = (r_int k, match l' with [] => Del | _ => Put (VList l') end).
Proof. exact lrem_total. Qed.
Example c03_lrem_min_fixed_history :
  replies [["RPUSH"; "l"; "a"; "b"; "a"]; ["LREM"; "l"; "-9223372036854775808"; "a"]; ["LRANGE"; "l"; "0"; "-1"]]%string
  = [FInt 3; FInt 2; FArray [b "b"]].
Proof. exact lrem_min_fixed_history. Qed.

(** ---------------------------------------------------------------- failure atomicity *)

(** Every command of the family, in every database, with every argument list and oracle:
    an error reply (wrong type, index out of range, non-integer field, arity, malformed
    argument, overflow, inadmissible oracle) leaves the database exactly as it was. *)
Theorem c03_failure_atomic :
  forall now d name parts oracle r d',
  exec_lists now d name parts oracle = Some (r, d') -> is_error r = true -> d' = d.
Proof. exact exec_lists_atomic. Qed.

(** ---------------------------------------------------------------- invariants over all histories *)

(** One step of any family command keeps every stored collection non-empty and its
    members / fields unique. *)
Theorem c03_step_preserves_wf :
  forall now d name parts oracle r d',
  exec_lists now d name parts oracle = Some (r, d') -> wf_colls d -> wf_colls d'.
Proof. exact exec_lists_wf. Qed.

(** Hence after ANY history of family commands (any times, names, arguments, oracles)
    from the empty database: no key holds an empty list, set or hash ... *)
Theorem c03_empty_removed :
  forall cs k e, In (k, e) (d_data (c03_run empty_db cs)) ->
  match e_val e with VList l => l <> [] | VSet s => s <> [] | VHash h => h <> [] | _ => True end.
Proof. exact run_empty_removed. Qed.

(** ... and sets hold unique members, hashes unique fields. *)
Theorem c03_unique :
  forall cs k e, In (k, e) (d_data (c03_run empty_db cs)) ->
  match e_val e with VSet s => NoDup s | VHash h => NoDup (map fst h) | _ => True end.
Proof. exact run_unique. Qed.

(** The C01 invariant (unique keys in the dataset and in the deadline index) is preserved by
    every command of this family too, so both invariants hold along mixed histories. *)
Theorem c03_preserves_key_uniqueness :
  forall now d name parts oracle r d',
  exec_lists now d name parts oracle = Some (r, d') -> StringsFacts.wf_db d -> StringsFacts.wf_db d'.
Proof. exact exec_lists_keys_wf. Qed.

(** The same invariant along histories that MIX this family with the string / key-space
    family (SET, DEL, RENAME, EXPIRE, FLUSHDB, ... : the first two dispatchers of exec_db),
    in any order, at any times: those commands only store strings, delete entries, move an
    existing entry or change a deadline. *)
Theorem c03_invariant_mixed_histories :
  forall cs k e, In (k, e) (d_data (mixed_run empty_db cs)) ->
  match e_val e with
  | VList l => l <> []
  | VSet s => s <> [] /\ NoDup s
  | VHash h => h <> [] /\ NoDup (map fst h)
  | _ => True
  end.
Proof. exact mixed_run_empty_removed_unique. Qed.

(** non-vacuity: a concrete history in which two collections empty out and vanish *)
Example c03_wf_reachable :
  let d := snd (play empty_db (map cmdf [["RPUSH"; "l"; "a"; "b"]; ["SADD"; "s"; "x"; "y"; "x"];
                                         ["HSET"; "h"; "f"; "1"; "g"; "2"]; ["LPOP"; "l"]; ["LPOP"; "l"];
                                         ["SREM"; "s"; "x"; "y"]; ["HDEL"; "h"; "f"]]%string)) in
  map fst (d_data d) = [bs "h"].
Proof. exact wf_reachable_example. Qed.

(** ---------------------------------------------------------------- sets: unique members, counts *)

(** SADD: the new set is duplicate-free, holds exactly the old members and the given ones,
    and the count answered is the growth of the set. *)
Theorem c03_sadd_spec :
  forall ms s a s' a', NoDup s -> sadd_loop s ms a = (s', a') ->
  NoDup s' /\ (forall m, In m s' <-> In m s \/ In m ms) /\ a' - a = len s' - len s.
Proof. exact sadd_loop_spec. Qed.

Theorem c03_srem_spec :
  forall ms s k s' k', NoDup s -> srem_loop s ms k = (s', k') ->
  NoDup s' /\ (forall m, In m s' <-> In m s /\ ~ In m ms) /\ k' - k = len s - len s'.
Proof. exact srem_loop_spec. Qed.

(** ---------------------------------------------------------------- multi-key set algebra *)

(** For every combination of existing and missing keys (a missing key is the empty set):
    the result is duplicate-free and holds exactly the prescribed members. *)
Theorem c03_sunion_spec :
  forall d keys, all_typed d keys ->
  exists r, eng_sunion d keys = SOk r /\ NoDup r /\ forall m, In m r <-> in_some d keys m.
Proof. exact sunion_spec. Qed.

Theorem c03_sinter_spec :
  forall d k ks, all_typed d (k :: ks) -> set_wf_at d k ->
  exists r, eng_sinter d (k :: ks) = SOk r /\ NoDup r /\ forall m, In m r <-> in_every d (k :: ks) m.
Proof. exact sinter_spec. Qed.

Theorem c03_sdiff_spec :
  forall d k ks, all_typed d (k :: ks) -> set_wf_at d k ->
  exists r, eng_sdiff d (k :: ks) = SOk r /\ NoDup r /\
            forall m, In m r <-> in_some d [k] m /\ in_none d ks m.
Proof. exact sdiff_spec. Qed.

(** a key of another type anywhere in the command is refused, whatever the other keys are *)
Theorem c03_sunion_wrongtype :
  forall d keys, (exists k, In k keys /\ set_at d k = None) -> eng_sunion d keys = SWrong.
Proof. exact sunion_wrong. Qed.
Theorem c03_sinter_wrongtype :
  forall d keys, (exists k, In k keys /\ set_at d k = None) -> eng_sinter d keys = SWrong.
Proof. exact sinter_wrong. Qed.
Theorem c03_sdiff_wrongtype :
  forall d keys, (exists k, In k keys /\ set_at d k = None) -> eng_sdiff d keys = SWrong.
Proof. exact sdiff_wrong. Qed.
(** regression witness of eab489c (a missing key used to end SINTER / SDIFF before the type check) *)
Example c03_setalg_type_checked_history :
  replies [["SADD"; "s"; "a"]; ["LPUSH"; "str"; "x"]; ["SDIFF"; "nokey"; "str"]; ["SINTER"; "nokey"; "str"];
           ["SINTER"; "s"; "nokey"; "str"]; ["SDIFF"; "s"; "str"]; ["SUNION"; "nokey"; "str"];
           ["SINTER"; "s"; "nokey"]; ["SDIFF"; "nokey"; "s"]; ["SDIFF"; "s"; "nokey"]]%string
  = [FInt 1; FInt 1; r_wrongtype; r_wrongtype; r_wrongtype; r_wrongtype; r_wrongtype;
     FArray []; FArray []; FArray [b "a"]].
Proof. exact setalg_type_checked_history. Qed.

(** ---------------------------------------------------------------- random picks *)

(** SPOP, for every oracle: an answer that is not an error returned min(count, card)
    distinct current members and removed exactly those. *)
Theorem c03_spop_sound :
  forall single count oracle s r u,
  s <> [] -> e_spop single count oracle (Some (VSet s)) = (r, u) -> is_error r = false ->
  exists xs, len xs = Z.min count (len s) /\ NoDup xs /\ incl xs s /\
             r = pick_reply single xs /\ u = spop_upd s xs /\
             forall m, In m (remove_all xs s) <-> In m s /\ ~ In m xs.
Proof. exact spop_sound. Qed.

(** every admissible choice is followed, every other choice is refused *)
Theorem c03_spop_every_admissible_choice :
  forall count s xs, s <> [] ->
  (len xs = Z.min count (len s) /\ NoDup xs /\ incl xs s ->
   e_spop false count (Some (FArray (map FBulk xs))) (Some (VSet s)) = (r_bulks (bsort xs), spop_upd s xs)) /\
  (~ (len xs = Z.min count (len s) /\ NoDup xs /\ incl xs s) ->
   e_spop false count (Some (FArray (map FBulk xs))) (Some (VSet s)) = (BADORACLE, Keep)).
Proof. exact spop_every_choice. Qed.
Theorem c03_spop_single_choice :
  forall s m, In m s -> e_spop true 1 (Some (FBulk m)) (Some (VSet s)) = (r_bulk m, spop_upd s [m]).
Proof. exact spop_single_follows. Qed.

(** SRANDMEMBER changes nothing, whatever it answers; an answer that is not an error
    consists of current members: one without count, min(count, card) distinct ones for
    count >= 0, exactly -count (repetition allowed) for count < 0. *)
Theorem c03_srandmember_readonly : forall count oracle cur, snd (e_srandmember count oracle cur) = Keep.
Proof. exact srandmember_readonly. Qed.
Theorem c03_srandmember_sound :
  forall count oracle s r u,
  s <> [] -> e_srandmember count oracle (Some (VSet s)) = (r, u) -> is_error r = false ->
  u = Keep /\
  exists xs, incl xs s /\
    match count with
    | None => len xs = 1 /\ r = pick_reply true xs
    | Some n => r = pick_reply false xs /\
                if 0 <=? n then len xs = Z.min n (len s) /\ NoDup xs else len xs = - n
    end.
Proof. exact srandmember_sound. Qed.
Theorem c03_srandmember_every_admissible_choice :
  forall n s xs, s <> [] -> incl xs s ->
  (0 <= n -> len xs = Z.min n (len s) -> NoDup xs ->
   e_srandmember (Some n) (Some (FArray (map FBulk xs))) (Some (VSet s)) = (r_bulks (bsort xs), Keep)) /\
  (n < 0 -> - n <= 1048576 -> len xs = - n ->
   e_srandmember (Some n) (Some (FArray (map FBulk xs))) (Some (VSet s)) = (r_bulks (bsort xs), Keep)).
Proof. exact srandmember_every_choice. Qed.
(** count = i64::MIN (whose negation does not exist) is refused, as Redis does *)
Theorem c03_srandmember_min_refused :
  forall oracle s, s <> [] -> e_srandmember (Some i64_min) oracle (Some (VSet s)) = (r_err, Keep).
Proof. exact srandmember_min_refused. Qed.
(** more than 2^20 draws are refused (9dd4676): the work is bounded whatever the count *)
Theorem c03_srandmember_cap_refused :
  forall n oracle s, s <> [] -> n < - 1048576 -> e_srandmember (Some n) oracle (Some (VSet s)) = (r_err, Keep).
Proof. exact srandmember_cap_refused. Qed.
Example c03_srandmember_min_fixed_history :
  replies [["SADD"; "s"; "a"]; ["SRANDMEMBER"; "s"; "-9223372036854775808"]; ["SCARD"; "s"]]%string
  = [FInt 1; r_err; FInt 1].
Proof. exact srandmember_min_fixed_history. Qed.

(** ---------------------------------------------------------------- hashes *)

(** after HSET / HMSET the last value given for a field is read back, other fields keep
    their value (existing or fresh hash alike) *)
Theorem c03_hset_lookup :
  forall ps h a f,
  alookup f (fst (hset_loop h ps a)) = match alookup f (rev ps) with Some v => Some v | None => alookup f h end.
Proof. exact hset_loop_lookup. Qed.

(** on an existing hash the count answered is the number of fields created *)
Theorem c03_hset_count_existing :
  forall ps h a h' a', NoDup (map fst h) -> hset_loop h ps a = (h', a') -> a' - a = len h' - len h.
Proof. exact hset_loop_count. Qed.

(** on a fresh key too: the count answered is the number of fields the new hash holds
    (= the counter of new fields; = the number of pairs when no field repeats) *)
Theorem c03_hset_count_fresh :
  forall ps, exists h', e_hset false ps None = (r_int (len h'), Put (VHash h')) /\
                        h' = fst (hset_loop [] ps 0) /\ snd (hset_loop [] ps 0) = len h'.
Proof. exact hset_fresh_count. Qed.
Theorem c03_hset_count_fresh_distinct :
  forall ps, NoDup (map fst ps) -> len (fst (hset_loop [] ps 0)) = len ps.
Proof. exact hset_count_fresh_nodup. Qed.
Example c03_hset_fresh_fixed_history :
  replies [["HSET"; "hh"; "f"; "1"; "f"; "2"]; ["HLEN"; "hh"]; ["HGET"; "hh"; "f"]]%string = [FInt 1; FInt 1; b "2"].
Proof. exact hset_fresh_fixed_history. Qed.

Theorem c03_hdel_spec :
  forall fs h k h' k', NoDup (map fst h) -> hdel_loop h fs k = (h', k') ->
  (forall f, alookup f h' = if bmem f fs then None else alookup f h) /\ k' - k = len h - len h'.
Proof. exact hdel_loop_spec. Qed.

(** HINCRBY: inside the i64 range the sum is answered, stored as decimal text and reads back
    as that integer, other fields untouched; past the range the command is refused and
    nothing changes (c5f1b6a) *)
Theorem c03_hincrby_in_range :
  forall h f inc v c,
  alookup f h = Some v -> parse_i64 v = Some c -> in_i64 (c + inc) = true ->
  exists h', e_hincrby f inc (Some (VHash h)) = (r_int (c + inc), Put (VHash h')) /\
             (exists v', alookup f h' = Some v' /\ parse_i64 v' = Some (c + inc)) /\
             forall g, g <> f -> alookup g h' = alookup g h.
Proof. exact hincrby_in_range. Qed.
Theorem c03_hincrby_overflow_refused :
  forall h f inc, hincrby_overflows h f inc = true -> e_hincrby f inc (Some (VHash h)) = (r_err, Keep).
Proof. exact hincrby_overflow_refused. Qed.
Example c03_hincrby_fixed_history :
  replies [["HSET"; "h"; "n"; "9223372036854775807"]; ["HINCRBY"; "h"; "n"; "1"]; ["HGET"; "h"; "n"];
           ["HINCRBY"; "h"; "n"; "-1"]]%string
  = [FInt 1; r_err; b "9223372036854775807"; FInt 9223372036854775806].
Proof. exact hincrby_fixed_history. Qed.

(** ---------------------------------------------------------------- no panic (shared with C06) *)

(** Every Rust operation of this family that can panic (unchecked +, unary -, as-casts of
    negative values, Vec::with_capacity, slice indexing) is a model operation with the
    distinguished outcome PANIC.  No command, database, argument list or oracle reaches it. *)
Theorem c03_no_panic :
  forall now d name parts oracle r d',
  exec_lists now d name parts oracle = Some (r, d') -> panics r = false.
Proof. exact exec_lists_no_panic. Qed.
