(** C04 - Sorted sets stay totally ordered and consistent under every update.
    Statements only; proofs are in Proofs/SkipListFacts.v and Proofs/ZSetsFacts.v
    (IEEE cross-checks through Flocq are kept apart in Props/C04F64.v).  Models: Model/SkipList.v (skiplist.rs: nodes with member,
    score bits and tower height; per-level chains derived; key_index, length and
    level kept as the code keeps them) and Model/ZSets.v (server.rs handle_z*,
    engine.rs zadd..zcard).  Specification: Spec/ZSet.v (duplicate-free list
    sorted by score then member; Redis' rank-range rule).  f64 text <-> bits and
    the f64 sum of ZINCRBY are oracles.

    The model is written for /repo after the repairs beb3269 (NaN refused by ZADD and
    ZINCRBY, every ZADD pair validated before the first is applied), 76804df (rank-range
    normalisation) and 774140b (NaN score bounds refused); the property is stated at full
    strength: for every history and every oracle, no hypothesis excludes an input class.
    Only remaining recorded class: zpop-count0-wrongtype (reply shape, not stated here). *)
From Coq Require Import Sorting.Sorted.
From Ferrous Require Import Base.Bytes Model.Resp Model.Types Model.Strings Model.SkipList Model.ZSets
  Spec.ZSet Proofs.BytesFacts Proofs.SkipListFacts Proofs.ZSetsFacts.
Open Scope Z_scope.

(** ---- 1. the comparator and the search ---- *)

(** compare_nodes / compare_with_query (score by partial_cmp, NaN above everything,
    ties by member bytes) is the lexicographic order on (rank of the score, member):
    a total preorder, for every bit pattern including NaN and -0. *)
Theorem c04_comparator_lex :
  forall v1 k1 v2 k2, compare_nodes v1 k1 v2 k2 = lexcmp (fkey v1, k1) (fkey v2, k2).
Proof. exact compare_nodes_lex. Qed.

Theorem c04_comparator_total_preorder :
  (forall a, ncmp a a = Eq) /\
  (forall a b, ncmp b a = CompOpp (ncmp a b)) /\
  (forall a b c, ncmp a b <> Gt -> ncmp b c <> Gt -> ncmp a c <> Gt).
Proof. exact ncmp_total_preorder. Qed.

(** The top-down tower walk of insert_new_node / remove_node_by_score / range_by_score
    stops, on level 0, exactly where a linear scan stops - on every list ordered by
    the comparator, from every start level and for EVERY assignment of tower heights. *)
Theorem c04_search_correct :
  forall v k nodes lv, wsorted nodes ->
  search (node_lt v k) nodes lv = length (take_while (node_lt v k) nodes).
Proof. intros. apply search_take_while, wsorted_mono. assumption. Qed.

(** ... and the update vector it leaves is right on every level: splicing the new
    node after update[j] on level j yields the level-j chain of the new level-0
    list (so deriving the chains from heights loses nothing). *)
Theorem c04_update_vector_splice :
  forall v k nodes lv j new, wsorted nodes -> (j <= lv)%nat ->
  let u := nth (lv - j) (tower (node_lt v k) nodes lv O) O in
  let pos := search (node_lt v k) nodes lv in
  chain j (firstn u nodes) ++ chain j [new] ++ chain j (skipn u nodes)
  = chain j (firstn pos nodes ++ new :: skipn pos nodes).
Proof. intros. apply splice_agrees; [apply wsorted_mono; assumption|assumption]. Qed.

(** ---- 2. the invariant: strictly sorted by (score, member), each member once,
    no NaN, key_index agrees with the chain, length and level agree ---- *)
Theorem c04_inv_init : Inv sl_new.
Proof. exact inv_new. Qed.

Theorem c04_inv_insert :
  forall s k v h, Inv s -> f_is_nan v = false -> Inv (snd (sl_insert s k v h)).
Proof. exact sl_insert_inv. Qed.

Theorem c04_inv_remove : forall s k, Inv s -> Inv (snd (sl_remove s k)).
Proof. exact sl_remove_inv. Qed.

(** ---- 3. refinement to the sorted duplicate-free list ---- *)
Theorem c04_insert_refines :
  forall s k v h, Inv s -> f_is_nan v = false ->
  sl_items (snd (sl_insert s k v h)) = zs_add k v (sl_items s) /\
  fst (sl_insert s k v h) = zs_lookup k (sl_items s).
Proof. exact sl_insert_refines. Qed.

Theorem c04_remove_refines :
  forall s k, Inv s ->
  sl_items (snd (sl_remove s k)) = zs_remove k (sl_items s) /\
  fst (sl_remove s k) = zs_lookup k (sl_items s).
Proof. exact sl_remove_refines. Qed.

Theorem c04_abstract_state_ok : forall s, Inv s -> zs_ok (sl_items s).
Proof. exact inv_zs_ok. Qed.

(** the specification itself: a set stays well formed, a member has its latest
    score, other members keep theirs *)
Theorem c04_spec_add_ok : forall m v z, zs_ok z -> f_is_nan v = false -> zs_ok (zs_add m v z).
Proof. exact zs_add_ok. Qed.
Theorem c04_spec_latest_score_wins :
  forall m v z, zs_lookup m (zs_add m v z) = Some v /\
  forall m', m' <> m -> zs_lookup m' (zs_add m v z) = zs_lookup m' z.
Proof. intros. split; [apply zs_lookup_add_same|intros; apply zs_lookup_add_other; assumption]. Qed.

(** ---- 4. queries ---- *)
(** get_rank = position in the order; rank and range agree *)
Theorem c04_rank_spec : forall s m, Inv s -> sl_get_rank s m = zs_rank m (sl_items s).
Proof. exact sl_get_rank_spec. Qed.

Theorem c04_rank_range_agree :
  forall s m i, Inv s ->
  (sl_get_rank s m = Some i <->
   0 <= i /\ nth_error (map n_key (sl_range_by_rank s 0 (sl_length s - 1))) (Z.to_nat i) = Some m).
Proof. exact sl_rank_range_agree. Qed.

(** ZRANK m = i  <->  m is the i-th member of ZRANGE key 0 -1 *)
Theorem c04_zrank_zrange_agree :
  forall d key z m i, db_zok d -> zget d key = Some z ->
  (eng_zrank d key m false = Some (Some i) <->
   0 <= i /\ exists l, eng_zrange d key 0 (-1) false = Some l /\ nth_error (map fst l) (Z.to_nat i) = Some m).
Proof. exact zrank_zrange_agree. Qed.

Theorem c04_zrank_spec :
  forall d key z m, db_zok d -> zget d key = Some z ->
  eng_zrank d key m false = Some (zs_rank m z) /\
  eng_zrank d key m true = Some (option_map (fun r => len z - 1 - r) (zs_rank m z)).
Proof. exact eng_zrank_spec. Qed.

(** ZRANGE / ZREVRANGE: the code's index arithmetic is Redis' rule on the order / the
    reversed order, for ALL (unbounded) start and stop *)
Theorem c04_zrange_redis :
  forall d key z start stop, zget d key = Some z ->
  eng_zrange d key start stop false = Some (redis_slice z start stop).
Proof. exact eng_zrange_spec. Qed.

Theorem c04_zrevrange_redis :
  forall d key z start stop, zget d key = Some z ->
  eng_zrange d key start stop true = Some (redis_slice (rev z) start stop).
Proof. exact eng_zrevrange_spec. Qed.

(** ZRANGEBYSCORE / ZREVRANGEBYSCORE / ZCOUNT: exactly the members with min <= score <= max
    (the handlers only pass non-NaN bounds: c04_nan_bound_refused) *)
Theorem c04_rangebyscore_spec :
  forall d key z mn mx, db_zok d -> zget d key = Some z -> f_is_nan mn = false ->
  eng_zrangebyscore d key mn mx false = Some (zs_byscore mn mx z) /\
  eng_zrangebyscore d key mn mx true = Some (rev (zs_byscore mn mx z)) /\
  eng_zcount d key mn mx = Some (len (zs_byscore mn mx z)).
Proof. exact eng_zrangebyscore_spec. Qed.

Theorem c04_zscore_zcard_spec :
  forall d key z m, zget d key = Some z ->
  eng_zscore d key m = Some (zs_lookup m z) /\ eng_zcard d key = Some (len z).
Proof. intros. split; [apply eng_zscore_spec|apply eng_zcard_spec]; assumption. Qed.

(** ---- 5. updates at the command level ---- *)
Theorem c04_zadd_spec :
  forall d key m sc, db_zok d -> f_is_nan sc = false ->
  match zget d key with
  | None => eng_zadd d key m sc = EWrongType
  | Some z => exists d', eng_zadd d key m sc = EOk (is_none (zs_lookup m z), d') /\
                         zget d' key = Some (zs_add m sc z) /\
                         (forall k', k' <> key -> get_entry d' k' = get_entry d k') /\ db_zok d'
  end.
Proof. exact eng_zadd_spec. Qed.

Theorem c04_zrem_spec :
  forall d key m, db_zok d ->
  match zget d key with
  | None => eng_zrem d key m = None
  | Some z => exists d', eng_zrem d key m = Some (negb (is_none (zs_lookup m z)), d') /\
                         zget d' key = Some (zs_remove m z) /\
                         (zs_remove m z = [] -> get_entry d' key = None) /\
                         (forall k', k' <> key -> get_entry d' k' = get_entry d k') /\ db_zok d'
  end.
Proof. exact eng_zrem_spec. Qed.

(** ZINCRBY: whatever sum the oracle reports, a stored score is never NaN; the set becomes
    [zs_add] with the increment (new member) or the reported sum (existing member) *)
Theorem c04_zincrby_spec :
  forall d key m inc sum, db_zok d ->
  match eng_zincrby d key m inc sum with
  | EOk (v, d') => f_is_nan v = false /\ db_zok d' /\
                   exists z, zget d key = Some z /\ zget d' key = Some (zs_add m v z) /\
                             (zs_lookup m z = None -> v = inc) /\ (zs_lookup m z <> None -> sum = Some v)
  | EWrongType => zget d key = None /\ f_is_nan inc = false
  | EErr => True
  end.
Proof. exact eng_zincrby_spec. Qed.

(** ZPOPMIN pops the smallest members in order and leaves the rest *)
Theorem c04_popmin_spec :
  forall key fuel d acc z, db_zok d -> zget d key = Some z ->
  exists d', zpop_loop fuel d key 0 acc = Some (acc ++ enc_pairs (firstn fuel z), d') /\
             zget d' key = Some (skipn fuel z) /\ db_zok d'.
Proof. exact zpopmin_loop_spec. Qed.

(** ---- 6. the property over all histories, for every oracle ---- *)
(** every sorted-set command keeps every stored sorted set well formed (strictly sorted by
    score then member, members unique, no NaN) and non-empty - whatever the oracle reports for
    score parses and sums *)
Theorem c04_exec_preserves_inv :
  forall now d name parts oracle r d', db_zok d ->
  exec_zsets now d name parts oracle = Some (r, d') -> db_zok d'.
Proof. exact exec_zsets_zok. Qed.

Theorem c04_history_inv : forall cmds, db_zok (run_zcmds empty_db cmds).
Proof. intros. apply run_zcmds_zok, db_zok_empty. Qed.

(** "a score that is not a number is never stored" *)
Theorem c04_no_nan_stored :
  forall cmds key m sc,
  eng_zscore (run_zcmds empty_db cmds) key m = Some (Some sc) -> f_is_nan sc = false.
Proof. exact no_nan_stored. Qed.

(** "ZADD nan and an increment producing NaN are refused": a NaN score anywhere in a ZADD
    refuses the whole command; a NaN increment or a NaN sum refuses ZINCRBY *)
Theorem c04_zadd_refuses_nan :
  forall d parts oracle k b, (2 + 2 * k + 1 < length parts)%nat ->
  float_arg parts oracle (2 + 2 * k) = Some b -> f_is_nan b = true ->
  h_zadd d parts oracle = (r_err, d).
Proof. exact h_zadd_refuses_nan. Qed.

Theorem c04_zincrby_refuses_nan :
  forall d key m inc sum,
  (f_is_nan inc = true -> eng_zincrby d key m inc sum = EErr) /\
  (forall z old v, zget d key = Some z -> zs_lookup m z = Some old -> get_entry d key <> None ->
     sum = Some v -> f_is_nan v = true -> f_is_nan inc = false -> eng_zincrby d key m inc sum = EErr).
Proof. exact eng_zincrby_refuses_nan. Qed.

(** a NaN bound is refused by ZRANGEBYSCORE / ZREVRANGEBYSCORE / ZCOUNT *)
Theorem c04_nan_bound_refused :
  forall d parts oracle i b, (i = 2 \/ i = 3)%nat -> oscore oracle i = Some b -> f_is_nan b = true ->
  (forall rev, h_zrangebyscore rev d parts oracle = (r_err, d)) /\ h_zcount d parts oracle = (r_err, d).
Proof. exact nan_bound_refused. Qed.

(** "a refused multi-member ZADD adds nothing": an error reply leaves the database unchanged,
    for every command *)
Theorem c04_failure_atomic :
  forall now d name parts oracle r d', db_zok d ->
  exec_zsets now d name parts oracle = Some (r, d') -> is_error r = true -> d' = d.
Proof. exact exec_zsets_failure_atomic. Qed.

Theorem c04_failure_atomic_reachable :
  forall cmds now name parts oracle r d',
  exec_zsets now (run_zcmds empty_db cmds) name parts oracle = Some (r, d') -> is_error r = true ->
  d' = run_zcmds empty_db cmds.
Proof. exact failure_atomic_reachable. Qed.

(** "removing the last member removes the key": in every reachable state *)
Theorem c04_last_removed :
  forall cmds key m sc,
  let d := run_zcmds empty_db cmds in
  zget d key = Some [(m, sc)] ->
  exists d', h_zrem d (cmd [bs "ZREM"; key; m]) = (r_int 1, d') /\ get_entry d' key = None.
Proof. exact zrem_last_member_reachable. Qed.

Theorem c04_no_empty_set_stored :
  forall cmds key e, get_entry (run_zcmds empty_db cmds) key = Some e -> e_val e <> VZSet [].
Proof. exact no_empty_zset_stored. Qed.

(** ---- 7. why the guards matter: the skip list alone cannot get rid of a NaN ---- *)
(** a NaN node can never be unlinked (`value == score` is false), so after
    SkipList::insert(m, NaN); remove(m) the chain and `length` keep it while the index forgot
    it - the engine's refusal of NaN (beb3269) is what makes [Inv] hold in every reachable state *)
Theorem c04_nan_node_unremovable :
  forall s k v, f_is_nan v = true -> remove_node_by_score s k v = s.
Proof. exact remove_nan_noop. Qed.
Theorem c04_nan_breaks_inv_refuted :
  let s := snd (sl_remove (snd (sl_insert sl_new (bs "m") nan_bits 0)) (bs "m")) in
  sl_length s = 1 /\ sl_index s = [] /\ sl_items s = [(bs "m", nan_bits)] /\ ~ Inv s.
Proof. exact nan_breaks_inv. Qed.

(** ---- regression examples: the witnesses of the repaired classes ---- *)
Example c04_zadd_nan_refused :
  exec_zsets 0 empty_db (bs "ZADD") (cmd [bs "ZADD"; kz; bs "nan"; bs "m"])
    (oracle_of [None; None; Some nan_bits; None]) = Some (r_err, empty_db).
Proof. exact zadd_nan_refused_example. Qed.
Example c04_zincrby_nan_refused :
  exists d1,
    exec_zsets 0 empty_db (bs "ZADD") (cmd [bs "ZADD"; kz; bs "inf"; bs "m"])
      (oracle_of [None; None; Some pinf_bits; None]) = Some (r_int 1, d1) /\
    exec_zsets 0 d1 (bs "ZINCRBY") (cmd [bs "ZINCRBY"; kz; bs "-inf"; bs "m"])
      (oracle_of [None; None; Some ninf_bits; None; None]) = Some (r_err, d1) /\
    exec_zsets 0 d1 (bs "ZINCRBY") (cmd [bs "ZINCRBY"; kz; bs "-inf"; bs "m"])
      (oracle_of [None; None; Some ninf_bits; None; Some nan_bits]) = Some (r_err, d1) /\
    eng_zscore d1 kz (bs "m") = Some (Some pinf_bits).
Proof. exact zincrby_nan_refused_example. Qed.
Example c04_zadd_atomic :
  exec_zsets 0 empty_db (bs "ZADD") (cmd [bs "ZADD"; kz; bs "1"; bs "a"; bs "x"; bs "b"])
    (oracle_of [None; None; Some one_bits; None; None; None]) = Some (r_err, empty_db).
Proof. exact zadd_atomic_example. Qed.
Example c04_zrange_out_of_range_empty :
  zrange_of (z2sl z3) 0 (-100) false = [] /\ zrange_of (z2sl z3) 0 (-100) true = [] /\
  zrange_of (z2sl z3) 5 10 true = [] /\ zrange_of (z2sl z3) (-100) 100 true = rev z3.
Proof. exact zrange_out_of_range_example. Qed.
Example c04_nan_bound_refused_example :
  exec_zsets 0 d3 (bs "ZRANGEBYSCORE") (cmd [bs "ZRANGEBYSCORE"; kz; bs "nan"; bs "2"])
    (oracle_of [None; None; Some nan_bits; Some two_bits]) = Some (r_err, d3) /\
  exec_zsets 0 d3 (bs "ZCOUNT") (cmd [bs "ZCOUNT"; kz; bs "nan"; bs "2"])
    (oracle_of [None; None; Some nan_bits; Some two_bits]) = Some (r_err, d3).
Proof. exact nan_bound_refused_example. Qed.
Example c04_last_member_example :
  exists d1, exec_zsets 0 empty_db (bs "ZADD") (cmd [bs "ZADD"; kz; bs "1"; bs "m"])
               (oracle_of [None; None; Some one_bits; None]) = Some (r_int 1, d1) /\
             exec_zsets 0 d1 (bs "ZREM") (cmd [bs "ZREM"; kz; bs "m"]) None = Some (r_int 1, empty_db).
Proof. exact last_member_example. Qed.

(** ---- non-vacuity ---- *)
(** a reachable three-member state (equal scores, a negative zero) satisfies the
    invariant, with towers of different heights *)
Example c04_inv_reachable :
  Inv (snd (sl_insert (snd (sl_insert (snd (sl_insert sl_new (bs "b") one_bits 3)) (bs "a") one_bits 0))
                      (bs "c") 9223372036854775808 7)).
Proof. repeat apply sl_insert_inv; try reflexivity. exact inv_new. Qed.
Example c04_db_zok_reachable :
  zget (run_zcmds empty_db
        [(bs "ZADD", cmd [bs "ZADD"; kz; bs "3"; bs "c"; bs "1"; bs "a"; bs "2"; bs "b"],
          oracle_of [None; None; Some three_bits; None; Some one_bits; None; Some two_bits; None])]) kz = Some z3.
Proof. vm_compute. reflexivity. Qed.
