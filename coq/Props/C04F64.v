(** C04, IEEE-754 cross-checks through Flocq (kept apart from Props/C04.v so that the
    property theorems do not depend on Flocq and on the axioms of the real numbers). *)
From Ferrous Require Import Base.Bytes Model.SkipList Proofs.F64Facts.
Open Scope Z_scope.

(** +inf + (-inf), rounded to nearest even, is (the canonical) NaN: the sum the ZINCRBY
    witness c04_zincrby_nan_refuted takes from the oracle is the IEEE sum *)
Theorem c04_ieee_inf_minus_inf : f64_add pinf_bits ninf_bits = nan_bits.
Proof. exact inf_minus_inf_bits. Qed.

(** the comparison on bit patterns of Model/SkipList.v agrees with Flocq's [b64_compare] on
    a 20 x 20 pool (zeros, subnormals, ones, 2^53 neighbours, max, infinities, NaNs) - a test *)
Example c04_f_pcmp_pool_check :
  forallb (fun a => forallb (fun b => pcmp_agrees a b) f64_pool) f64_pool = true.
Proof. exact f_pcmp_pool_check. Qed.
