(** C05 - Every request gets exactly one reply, in order, and errors are replies.
    Statements only; proofs in Proofs/ConnFacts.v and Proofs/RespFacts.v.  Model:
    Model/Conn.v (process_connection after the repairs 3f1bb0a, 56e04ed, 86d9004, 68e2e20,
    200cab6), Model/Resp.v (parser / serializer). *)
From Ferrous Require Import Base.Bytes Generated Model.Resp Model.Types Model.Server Model.Conn
  Model.OutBuf Proofs.RespFacts Proofs.ConnFacts Proofs.OutBufFacts.
Open Scope Z_scope.

(** Exactly one reply per request frame, whatever the frame is (valid command, unknown
    command, wrong arity or type, non-array frame ...), for pipelines of any length. *)
Theorem c05_one_reply_each :
  forall now c fs s acc q reps s' q',
  serve_frames now s c fs acc q = (reps, s', q') -> length reps = (length acc + length fs)%nat.
Proof. exact serve_frames_length. Qed.

(** In order, and independent of how the frames were split over reads: serving the
    frames of two reads one after the other is serving them all at once. *)
Theorem c05_reads_compose :
  forall now c fs1 fs2 s q,
  serve_frames now s c (fs1 ++ fs2) [] q =
  match serve_frames now s c fs1 [] q with
  | (r1, s1, q1) => match serve_frames now s1 c fs2 [] q1 with
                    | (r2, s2, q2) => (r1 ++ r2, s2, q2) end
  end.
Proof. exact serve_frames_app. Qed.
(** ... and which frames a byte stream contains does not depend on its segmentation (C20) *)
Theorem c05_segmentation_independent :
  forall chunks, run_chunks no_double chunks = run_chunks no_double [concat chunks].
Proof. exact (chunk_independent no_double). Qed.

(** Request content can never change the framing of replies: any reply whatsoever - error
    texts embedding request bytes, echoed arguments with CR LF, nested arrays - is
    serialised as exactly one frame (its line payloads with CR/LF written as spaces) and
    leaves the bytes after it untouched. *)
Theorem c05_reply_is_one_frame :
  forall f rest, wfb no_double no_dprint max_levels (sanitize f) = true ->
  exists b, ser no_dprint f = (b, true) /\
            parse_frame no_double max_levels (b ++ rest) = Done (sanitize f) rest.
Proof. exact (reply_framing no_double no_dprint). Qed.
(** hence the client, decoding the connection's output, reads back exactly the replies,
    one for one, in order, and nothing else *)
Theorem c05_client_decodes_the_replies :
  forall reps, Forall sendable reps -> decode_out (write_replies reps) = (map sanitize reps, NeedMore).
Proof. exact decode_replies. Qed.

(** non-vacuity: a hostile pipeline (unknown command whose name carries CR LF and a fake
    reply, an argument with CR LF, a wrong-type access) gets one reply each, framing intact *)
Example c05_hostile_pipeline :
  let s0 := connect (init_server None) 1 in
  let reqs := [FArray [FBulk (bs "SET"); FBulk (bs "k"); FBulk [97; 13; 10; 43; 79; 75]];
               FArray [FBulk [78; 79; 13; 10; 43; 80; 87; 78; 69; 68]; FBulk (bs "x")];
               FArray [FBulk (bs "ECHO"); FBulk [13; 10; 13; 10]];
               FArray [FBulk (bs "INCR"); FBulk (bs "k")];
               FInt 5] in
  match serve_frames 0 s0 1 reqs [] false with
  | (reps, _, _) => length reps = 5%nat /\ fst (decode_out (write_replies reps)) = map sanitize reps
  end.
Proof. vm_compute. split; reflexivity. Qed.
(** a protocol violation is answered with an error after the replies owed, and the
    connection is closed *)
Example c05_protocol_error_answered :
  let s0 := connect (init_server None) 1 in
  match conn_read 0 s0 1 [] (bs "*1" ++ crlf ++ bs "$4" ++ crlf ++ bs "PING" ++ crlf ++ bs "*1" ++ crlf ++ bs "$x" ++ crlf) with
  | (out, _, _, closed) => closed = true /\
      fst (decode_out out) = [FSimple (bs "PONG"); FError (bs "ERR Protocol error")]
  end.
Proof. vm_compute. split; reflexivity. Qed.

(** Below the serialiser (connection.rs send_frame / flush, arithmetic regenerated from the
    source): whatever the socket accepts at each write - partial writes, a full socket,
    interruptions - and however sends and flushes interleave, the bytes that reached the
    wire followed by the bytes still pending are exactly the bytes handed to send_frame, in
    order: no byte twice, none skipped, none out of place. *)
Theorem c05_wire_is_what_was_sent :
  forall ops, let s := ob_run ops in (os_wire s ++ ob_pending (os_buf s) = os_sent s)%list.
Proof. exact wire_is_sent. Qed.
Theorem c05_wire_complete_when_drained :
  forall ops, ob_has_pending (os_buf (ob_run ops)) = false -> os_wire (ob_run ops) = os_sent (ob_run ops).
Proof. exact wire_complete. Qed.
(** a socket that stays full is not an error: nothing is dropped, the reply stays owed *)
Theorem c05_full_socket_keeps_the_reply :
  forall o, (ob_off o < length (ob_buf o))%nat ->
  ob_flush o [WBlock; WBlock; WBlock; WBlock; WBlock] = (o, [], [], false).
Proof. exact block_keeps. Qed.
Example c05_partial_writes_history :
  let ops := [OSend (bs "+OK" ++ [13; 10]); OFlush [WAccept 2; WBlock]; OSend (bs ":1" ++ [13; 10]);
              OFlush [WBlock; WBlock; WBlock; WBlock; WBlock]; OFlush [WAccept 1; WIntr; WAccept 100]] in
  os_wire (ob_run ops) = bs "+OK" ++ [13; 10] ++ bs ":1" ++ [13; 10] /\ ob_has_pending (os_buf (ob_run ops)) = false.
Proof. exact partial_history. Qed.

(** "... no matter how the request bytes are split into TCP segments", at the level of the
    whole connection: reads that do not end the connection (QUIT and a protocol violation end
    it after the read they arrive in) compose - the same output bytes, parser remainder, server
    state and closing decision as one read of the concatenation, for every cut of every byte
    stream, complete frames or not. *)
Theorem c05_reads_are_segmentation_independent :
  forall now c chunks s buf, chunks <> [] -> opens now s c buf chunks = true ->
  conn_feed now s c buf chunks [] = conn_feed now s c buf [concat chunks] [].
Proof. exact conn_feed_concat. Qed.
Example c05_segmentation_example :
  let s0 := connect (init_server None) 1 in
  let whole := bs "*3" ++ crlf ++ bs "$3" ++ crlf ++ bs "SET" ++ crlf ++ bs "$1" ++ crlf ++ bs "k" ++ crlf ++
               bs "$2" ++ crlf ++ [13; 10] ++ crlf ++ bs "*2" ++ crlf ++ bs "$3" ++ crlf ++ bs "GET" ++ crlf ++
               bs "$1" ++ crlf ++ bs "k" ++ crlf in
  let cut := [firstn 7 whole; firstn 20 (skipn 7 whole); skipn 27 whole] in
  opens 0 s0 1 [] cut = true /\ concat cut = whole /\
  conn_feed 0 s0 1 [] cut [] = conn_feed 0 s0 1 [] [whole] [] /\
  fst (decode_out (fst (fst (fst (conn_feed 0 s0 1 [] cut []))))) = [FSimple (bs "OK"); FBulk [13; 10]].
Proof. vm_compute. repeat split; reflexivity. Qed.
