(** C06 - No client input can crash, hang or wedge the server.
    What the proof family carries here: for the modelled handlers, the guards the code
    tests before each slice, cast, negation, addition, time computation or allocation
    imply that the operation is in range - for ALL argument values and states (the crashes
    found on the original tree were exactly the missing guards; see known_findings.json).
    Deadlock, lock poisoning, scheduler starvation and physical memory exhaustion are
    runtime behaviours an executable Gallina model cannot exhibit: they are covered only by
    the liveness side of the correspondence (boundary enumeration against a live process).
    Statements only; proofs in Proofs/SafetyFacts.v, RespFacts.v, StringsFacts.v. *)
From Ferrous Require Import Base.Bytes Generated Model.Resp Model.Types Model.Strings
  Proofs.BytesFacts Proofs.RespFacts Proofs.StringsFacts Proofs.SafetyFacts.
Open Scope Z_scope.

(** GETRANGE slices bytes[s..=e] only with 0 <= s <= e < len, for every string and indices *)
Theorem c06_getrange_in_bounds :
  forall b start stop s e, getrange_slice b start stop = Some (s, e) -> 0 <= s <= e /\ e < len b.
Proof. exact getrange_slice_in_bounds. Qed.
Theorem c06_getrange_uses_that_slice :
  forall b start stop, getrange_bytes b start stop =
  match getrange_slice b start stop with
  | Some (s, e) => zfirstn (e - s + 1) (zskipn s b)
  | None => []
  end.
Proof. exact getrange_uses_slice. Qed.

(** SETRANGE: past its guard offset + len fits 512 MB: no overflow, bounded padding *)
Theorem c06_setrange_bounded :
  forall off (v : bytes), 0 <= off -> (max_string_len <? off) || (max_string_len - off <? len v) = false ->
  off + len v <= max_string_len /\ off + len v < two64.
Proof. exact setrange_guard. Qed.

(** DECRBY negates only representable values; INCR/DECR results are always i64 *)
Theorem c06_decrby_negation_safe :
  forall n, in_i64 n = true -> (n =? i64_min) = false -> in_i64 (- n) = true.
Proof. exact decrby_negation_safe. Qed.
Theorem c06_incr_result_in_range :
  forall d k inc o d', in_i64 inc = true -> eng_incr_by d k inc = (o, d') ->
  match o with Some n => in_i64 n = true | None => True end.
Proof. exact incr_result_in_range. Qed.

(** an accepted TTL always yields a representable deadline (uptime below 2^40 s) *)
Theorem c06_ttl_deadline_representable :
  forall now_ms ms, 0 <= now_ms < 1099511627776 * 1000 -> 0 <= ms -> ttl_ok ms = true ->
  (now_ms + ms) / 1000 <= 9223372036854775807.
Proof. exact ttl_deadline_representable. Qed.

(** the frame parser: no reservation beyond the bytes in hand; a complete frame always
    consumes input (the connection's drain loop terminates); nesting is bounded by a
    constant, so recursion depth is too *)
Theorem c06_parser_reserve_bounded :
  forall declared data, reserve_request declared data <= len data.
Proof. exact reserve_request_bounded. Qed.
Theorem c06_parser_progress :
  forall dparse d data f rest, parse_frame dparse d data = Done f rest -> (length rest < length data)%nat.
Proof. intros dparse d data f rest H. destruct (parse_frame_stable dparse d data) as [HD _]. apply (HD f rest H). Qed.
Theorem c06_nesting_limit_from_source : max_nesting_depth = 32 /\ max_levels = 33%nat.
Proof. split; reflexivity. Qed.

(** non-vacuity / the original crash inputs, now in range *)
Example c06_getrange_former_crash :
  getrange_slice (bs "abc") 0 (-100) = Some (0, 0) /\ getrange_slice [] 0 0 = None /\
  getrange_slice (bs "abc") (-100) (-50) = Some (0, 0).
Proof. vm_compute. repeat split; reflexivity. Qed.
Example c06_deep_nesting_is_an_error :
  parse_frame (fun _ => None) max_levels (concat (repeat (bs "*1" ++ crlf) 1000)) = Err.
Proof. vm_compute. reflexivity. Qed.

(** table regenerated from parser.rs: every recursive call of an aggregate parser (array
    element, map key, map value, set member) passes depth + 1, so the nesting limit bounds
    the recursion through every position *)
Theorem c06_every_recursion_counts_depth :
  length parser_depth_args = 4%nat /\
  forallb (fun p => beq (snd p) (bs "depth + 1")) parser_depth_args = true.
Proof. split; vm_compute; reflexivity. Qed.
