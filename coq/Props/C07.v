(** C07 - MULTI/EXEC runs the queued commands atomically, in order, or not at all.
    Statements only; proofs in Proofs/ServerFacts.v.  Model: Model/Server.v.
    Atomicity w.r.t. other clients is structural in the model: one Frame event of one
    connection is one transition of the server (the implementation has a single command
    thread, server.rs:367-422 - assumed, and sampled by the multi-connection
    correspondence histories), and EXEC is a single Frame event. *)
From Ferrous Require Import Base.Bytes Generated Model.Resp Model.Types Model.Server
  Proofs.ServerFacts.
Open Scope Z_scope.

(** Between MULTI and EXEC a command is only queued: the reply is QUEUED and nothing but
    the issuing connection's queue changes - no database, tracker, other connection,
    log.  (Only the five transaction-control commands are not queued, since 51742a5:
    AUTH, PUBLISH, (P)SUBSCRIBE, (P)UNSUBSCRIBE, MONITOR and REPLCONF are queued like the rest.) *)
Theorem c07_queue_inert :
  forall now s c cn nm rest oracle,
  zlookup c (s_conns s) = Some cn -> authed_or_open s cn = true -> c_intx cn = true ->
  let command := upper (trim nm) in
  mem_name command tx_not_queued = false ->
  process_frame now s c (FArray (FBulk nm :: rest)) oracle =
    (FSimple (bs "QUEUED"),
     set_conn s c (with_tx cn true (c_queue cn ++ [FBulk nm :: rest]) (c_watched cn))).
Proof. exact queue_inert. Qed.

(** EXEC either aborts (a watched key changed: nil, nothing executed) or runs the whole
    queue as one step; in both cases the transaction state is cleared. *)
Theorem c07_exec :
  forall now s c cn, c_intx cn = true ->
  h_exec now s c cn =
    if watch_violated now s cn
    then (FNullArray, set_conn s c (clear_tx cn))
    else match exec_queue now (set_conn s c (clear_tx cn)) c (c_db cn) (c_queue cn) [] with
         | (reps, s2) => (FArray reps, s2) end.
Proof. exact exec_spec. Qed.

(** The queue runs in order, each command in the state its predecessors left ... *)
Theorem c07_in_order :
  forall now c dbi parts q s acc,
  beq (queued_name parts) (bs "SELECT") = false ->
  exec_queue now s c dbi (parts :: q) acc =
  match normal_command now s 0 dbi parts None with
  | (rep, s1) => exec_queue now s1 c dbi q (rep :: acc)
  end.
Proof. exact exec_queue_cons. Qed.
(** ... a queued SELECT runs for the connection that sent EXEC and the commands after it run
    in the database it selected, exactly as when the commands are sent directly (1ecc022) ... *)
Theorem c07_in_order_select :
  forall now c dbi parts q s acc,
  beq (queued_name parts) (bs "SELECT") = true ->
  exec_queue now s c dbi (parts :: q) acc =
  match normal_command now s c dbi parts None with
  | (rep, s1) => exec_queue now s1 c (match zlookup c (s_conns s1) with Some cn => c_db cn | None => dbi end) q (rep :: acc)
  end.
Proof. exact exec_queue_select. Qed.
(** ... every queued command gets exactly one reply slot: an error fills its slot and
    does not stop the commands after it ... *)
Theorem c07_one_slot_each :
  forall now c q s dbi acc reps s',
  exec_queue now s c dbi q acc = (reps, s') -> length reps = (length acc + length q)%nat.
Proof. exact exec_queue_length. Qed.
(** ... and each does exactly what the same command does when sent directly on that
    connection (the connection id matters to SELECT only, which EXEC therefore runs for the
    connection itself: [c07_in_order_select]). *)
Theorem c07_same_as_direct :
  forall now s c dbi parts oracle, beq (cmd_name parts) (bs "SELECT") = false ->
  normal_command now s c dbi parts oracle = normal_command now s 0 dbi parts oracle.
Proof. exact conn_id_irrelevant. Qed.

(** Serial equivalence: EXEC produces exactly the replies and the final state that the
    connection would get by sending the queued commands itself, one after the other, with no
    other client in between - for every queue of commands that run through
    process_normal_command with the placeholder id ([plain_queued]), every state, every time. *)
Theorem c07_exec_is_back_to_back :
  forall now c q s cn acc,
  c <> 0 -> zlookup c (s_conns s) = Some cn -> authed_or_open s cn = true -> c_intx cn = false ->
  forallb plain_queued q = true ->
  exec_queue now s c (c_db cn) q acc = direct_run now s c q acc.
Proof. exact exec_is_back_to_back. Qed.

(** DISCARD drops the queue and the watched keys; no data is touched. *)
Theorem c07_discard :
  forall now s c cn oracle,
  zlookup c (s_conns s) = Some cn -> authed_or_open s cn = true -> c_intx cn = true ->
  process_frame now s c (FArray [FBulk (bs "DISCARD")]) oracle = (r_ok, set_conn s c (clear_tx cn)).
Proof. exact discard_spec. Qed.

(** ... and so does a disconnect: the connection's record - queue and watched keys with it - is
    gone, no database, tracker or log entry changes *)
Theorem c07_disconnect_drops_queue :
  forall s c, s_dbs (del_conn s c) = s_dbs s /\ s_trk (del_conn s c) = s_trk s /\ s_aof (del_conn s c) = s_aof s /\
              s_conns (del_conn s c) = zremove c (s_conns s).
Proof. intros s c. repeat split; reflexivity. Qed.

(** transaction state is per connection *)
Theorem c07_per_connection :
  forall now s c dbi parts oracle r s',
  normal_command now s c dbi parts oracle = (r, s') ->
  forall c', c' <> c -> c' <> 0 -> zlookup c' (s_conns s') = zlookup c' (s_conns s).
Proof. exact normal_command_conns. Qed.

(** the generated table: exactly the transaction-control commands are not queued *)
Theorem c07_tables :
  tx_not_queued = [bs "MULTI"; bs "EXEC"; bs "DISCARD"; bs "WATCH"; bs "UNWATCH"].
Proof. vm_compute. reflexivity. Qed.

(** "each does what the same command does when sent directly" for the commands that speak about
    the connection itself (outside the model: CLIENT has no state in [conn]): every dispatch arm
    of process_normal_command that uses the connection id is run by handle_exec with the id of
    the connection that sent EXEC, not with the placeholder 0 the data commands run with - both
    lists regenerated from server.rs on every run.  Before b11ef93 CLIENT was missing: queued
    CLIENT ID answered 0, CLIENT GETNAME / SETNAME "connection not found". *)
Theorem c07_connection_level_commands_run_for_their_connection :
  forallb (fun n => bmem n exec_arms_with_conn_id || bmem n [bs "BLPOP"; bs "BRPOP"]) pnc_arms_using_conn_id = true.
Proof. exact exec_conn_level_arms_ok. Qed.

(** 51742a5: no command is dispatched ahead of the queueing test any more *)
Theorem c07_nothing_runs_immediately : tx_immediate = [].
Proof. vm_compute. reflexivity. Qed.

(** non-vacuity: a transaction with a failing command in the middle *)
Example c07_example :
  let s0 := connect (init_server None) 1 in
  let step s req := snd (process_frame 0 s 1 (FArray (map FBulk req)) None) in
  let s1 := step s0 [bs "MULTI"] in
  let s2 := step s1 [bs "SET"; bs "a"; bs "x"] in
  let s3 := step s2 [bs "INCR"; bs "a"] in
  let s4 := step s3 [bs "APPEND"; bs "a"; bs "y"] in
  fst (process_frame 0 s4 1 (FArray [FBulk (bs "EXEC")]) None) = FArray [r_ok; r_err; r_int 2].
Proof. vm_compute. reflexivity. Qed.
