(** C08 - WATCH aborts EXEC whenever a watched key changed, and only then.
    Statements only; proofs in Proofs/ServerFacts.v.  Model: Model/Server.v (tracker =
    engine.rs ShardWatchTracker; marks = the mark_modified call sites, after the repair
    a8466ae which added the missing ones). *)
From Ferrous Require Import Base.Bytes Generated Model.Resp Model.Types Model.Server
  Model.Strings Model.Streams Proofs.ServerFacts Proofs.MarksFacts Proofs.StreamFacts Proofs.GroupFacts Proofs.GroupMarksFacts.
Open Scope Z_scope.

(** Counter soundness: from a WATCH on (active watcher in the key's shard) any later
    mark of that key - among arbitrary marks of other keys and registrations of other
    watches, in any order and number, as long as nobody unwatches - leaves the key's
    counter strictly above every baseline recorded before, for good. *)
Theorem c08_sound :
  forall ops t k,
  trk_inv t -> 0 < active_of t (shard_of k) ->
  active_of t (shard_of k) + regs ops < two64 ->
  In (TMark k) ops ->
  counter_of t k < counter_of (fold_left apply_top ops t) k.
Proof. exact watch_sound. Qed.

(** No false abort from the counters: if the key itself is never marked in the window,
    its counter does not move, whatever happens to other keys (same shard or not). *)
Theorem c08_complete :
  forall ops t k,
  (forall k', In (TMark k') ops -> beq k k' = false) ->
  counter_of (fold_left apply_top ops t) k = counter_of t k.
Proof. exact watch_complete. Qed.

(** the tracker invariant holds initially and is preserved by every operation *)
Theorem c08_inv_init : trk_inv empty_tracker.
Proof. exact trk_inv_empty. Qed.
Theorem c08_inv_step : forall t o, trk_inv t -> trk_inv (apply_top t o).
Proof. exact apply_top_inv. Qed.

(** EXEC with a modified (or expired) watched key returns nil and executes nothing; with
    none modified it runs the queue.  Each key is checked in the database it was watched in,
    whatever database the connection has selected since (a5f65e9). *)
Theorem c08_exec_aborts :
  forall now s c cn dbw k b,
  c_intx cn = true -> In (wkey dbw k, b) (c_watched cn) -> was_modified_since now s dbw k b = true ->
  h_exec now s c cn = (FNullArray, set_conn s c (clear_tx cn)).
Proof. exact exec_aborts. Qed.
Theorem c08_exec_runs :
  forall now s c cn,
  c_intx cn = true ->
  (forall w b, In (w, b) (c_watched cn) -> was_modified_since now s (wkey_db w) (wkey_key w) b = false) ->
  h_exec now s c cn =
    match exec_queue now (set_conn s c (clear_tx cn)) c (c_db cn) (c_queue cn) [] with
    | (reps, s2) => (FArray reps, s2) end.
Proof. exact exec_runs. Qed.
(** a second WATCH of a key keeps the first baseline, so a change made since the first WATCH
    still aborts (3f1b680); a key that is past its deadline when it is WATCHed is removed first,
    so it is absent when the watch begins and does not "change" later (d9330f8) *)
Theorem c08_rewatch_keeps_baseline :
  forall now dbi d t k w b, alookup (wkey dbi k) w = Some b ->
  watch_loop_partial now dbi d t [FBulk k] w = (d, t, w, true).
Proof. exact rewatch_keeps_baseline. Qed.
Theorem c08_watch_expires_lazily :
  forall now dbi d t k e, get_entry d k = Some e -> expired now e = true ->
  watch_loop_partial now dbi d t [FBulk k] [] =
    (index_del (del_entry d k) k, snd (register_watch (mark t k) k),
     [(wkey dbi k, fst (register_watch (mark t k) k))], true).
Proof. exact watch_expires_lazily. Qed.
Example c08_rewatch_history :
  let s0 := connect (connect (init_server None) 1) 2 in
  let step c s req := snd (process_frame 0 s c (FArray (map FBulk req)) None) in
  let s1 := step 1 s0 [bs "WATCH"; bs "k"] in
  let s2 := step 2 s1 [bs "SET"; bs "k"; bs "changed"] in
  let s3 := step 1 s2 [bs "WATCH"; bs "k"] in
  let s4 := step 1 s3 [bs "MULTI"] in
  let s5 := step 1 s4 [bs "SET"; bs "k"; bs "mine"] in
  fst (process_frame 0 s5 1 (FArray [FBulk (bs "EXEC")]) None) = FNullArray.
Proof. vm_compute. reflexivity. Qed.
Example c08_watch_after_deadline_history :
  let s0 := connect (connect (init_server None) 1) 2 in
  let step t c s req := snd (process_frame t s c (FArray (map FBulk req)) None) in
  let s1 := step 0 2 s0 [bs "SET"; bs "k"; bs "v"; bs "PX"; bs "200"] in
  let s2 := step 300 1 s1 [bs "WATCH"; bs "k"] in
  let s3 := step 300 1 s2 [bs "MULTI"] in
  let s4 := step 300 1 s3 [bs "SET"; bs "other"; bs "1"] in
  fst (process_frame 300 s4 1 (FArray [FBulk (bs "EXEC")]) None) = FArray [r_ok].
Proof. vm_compute. reflexivity. Qed.

(** the encoding of (database, key) pairs is exact *)
Theorem c08_wkey_exact : forall d k, wkey_db (wkey d k) = d /\ wkey_key (wkey d k) = k.
Proof. intros; split; reflexivity. Qed.

(** Every command of the string/key family marks every key whose entry (value, deadline,
    existence) it changes: a key that is not marked has exactly the entry it had - for all
    databases, times and arguments, refused commands included.  Together with c08_sound
    (a mark lifts the counter above the baseline) this is "any change to a watched key
    aborts EXEC" for this family; the other families' mark lists are tied by the catalogue
    correspondence and the census obligations below. *)
Theorem c08_unmarked_unchanged :
  forall now d name parts r d' k,
  exec_strings now d name parts = Some (r, d') ->
  bmem k (marks_strings d d' name parts r) = false ->
  get_entry d' k = get_entry d k.
Proof. exact marks_complete_strings. Qed.

(** The same for the consumer-group commands (after ed8ba04 and cc8be72, formerly findings
    stream-group-writes-unmarked and group-reread-unmarked): XGROUP CREATE / DESTROY /
    CREATECONSUMER / DELCONSUMER / SETID, XACK, XCLAIM, XPENDING, XINFO and XREADGROUP - history
    reads included - mark every key whose stored entry (stream, groups, pending entries, delivery
    counters, cursor, consumers, deadline, existence) they change. *)
Theorem c08_unmarked_unchanged_groups :
  forall now d name parts r d' k,
  (name = bs "XGROUP" /\ h_xgroup now d parts = (r, d')) \/ (name = bs "XACK" /\ h_xack now d parts = (r, d')) \/
  (name = bs "XCLAIM" /\ h_xclaim now d parts = (r, d')) \/ (name = bs "XPENDING" /\ h_xpending now d parts = (r, d')) \/
  (name = bs "XINFO" /\ h_xinfo now d parts = (r, d')) \/ (name = bs "XREADGROUP" /\ h_xreadgroup now d parts = (r, d')) ->
  bmem k (marks_streams now d d' name parts r) = false ->
  get_entry d' k = get_entry d k.
Proof. exact marks_complete_groups. Qed.

(** formerly finding group-reread-unmarked (fixed by cc8be72): a history read that registers the
    reader marks the key although it reports nothing; the same read again changes nothing and
    marks nothing *)
Example c08_group_reread_witness :
  let d := snd (run_cmds 0 empty_db [cmd ["XADD"; "wk"; "5-0"; "f"; "v"]%string; cmd ["XGROUP"; "CREATE"; "wk"; "g"; "0"]%string]) in
  let parts := cmd ["XREADGROUP"; "GROUP"; "g"; "c9"; "STREAMS"; "wk"; "0"]%string in
  match exec_streams 0 d (bs "XREADGROUP") parts None with
  | Some (r, d') => r = FArray [] /\ marks_streams 0 d d' (bs "XREADGROUP") parts r = [bs "wk"] /\
      match exec_streams 0 d' (bs "XREADGROUP") parts None with
      | Some (r2, d2) => r2 = FArray [] /\ marks_streams 0 d' d2 (bs "XREADGROUP") parts r2 = [] /\ d2 = d'
      | None => False
      end
  | None => False
  end.
Proof. vm_compute. repeat split; reflexivity. Qed.

(** Every code path that can change a key's value or deadline bumps the counter:
    obligations over the census of engine.rs regenerated on every run - each mutating
    engine function contains a mark_modified call, rename marks source and destination in
    both of its paths, and no other public engine function marks. *)
Theorem c08_every_mutating_path_marks :
  forallb (fun f => 1 <=? census_marks f) mutating_engine_fns = true.
Proof. exact every_mutating_fn_marks. Qed.
Theorem c08_rename_marks_both : 4 <=? census_marks (bs "rename") = true.
Proof. exact rename_marks_both. Qed.
Theorem c08_marking_fns_complete :
  forallb (fun r => match r with (n, m, _, _, _) => bmem n mutating_engine_fns || (m =? 0) end) engine_census = true.
Proof. exact non_mutating_fns_do_not_mark. Qed.

(** Ending a watch (UNWATCH, EXEC, DISCARD, disconnect) never touches a counter that another
    watcher compares against: in the model by definition, in engine.rs by the regenerated list of
    the functions that write each field of ShardWatchTracker. *)
Theorem c08_unregister_keeps_counters :
  forall t k k', counter_of (unregister_watch t k) k' = counter_of t k'.
Proof. exact unregister_keeps_counters. Qed.
Theorem c08_tracker_writers :
  watch_key_counter_writers = [bs "mark_key_modified"] /\
  watch_global_counter_writers = [bs "mark_key_modified"] /\
  watch_active_writes = [(bs "register_watch", bs "fetch_add"); (bs "unregister_watch", bs "fetch_sub")].
Proof. exact tracker_writers_ok. Qed.
Example c08_two_watchers_history :
  let s0 := connect (connect (connect (init_server None) 1) 2) 3 in
  let step c s req := snd (process_frame 0 s c (FArray (map FBulk req)) None) in
  let s1 := step 1 s0 [bs "WATCH"; bs "k"] in
  let s2 := step 2 s1 [bs "WATCH"; bs "k"] in
  let s3 := step 3 s2 [bs "SET"; bs "k"; bs "changed"] in
  let s4 := step 2 s3 [bs "UNWATCH"] in
  let s5 := step 1 s4 [bs "MULTI"] in
  let s6 := step 1 s5 [bs "SET"; bs "k"; bs "mine"] in
  fst (process_frame 0 s6 1 (FArray [FBulk (bs "EXEC")]) None) = FNullArray.
Proof. vm_compute. reflexivity. Qed.

(** non-vacuity: a lost-update attempt is caught *)
Example c08_example :
  let s0 := connect (connect (init_server None) 1) 2 in
  let step c s req := snd (process_frame 0 s c (FArray (map FBulk req)) None) in
  let s1 := step 1 s0 [bs "WATCH"; bs "k"] in
  let s2 := step 2 s1 [bs "EXPIRE"; bs "k"; bs "100"] in
  let s3 := step 2 s2 [bs "SET"; bs "k"; bs "other"] in
  let s4 := step 1 s3 [bs "MULTI"] in
  let s5 := step 1 s4 [bs "SET"; bs "k"; bs "mine"] in
  fst (process_frame 0 s5 1 (FArray [FBulk (bs "EXEC")]) None) = FNullArray.
Proof. vm_compute. reflexivity. Qed.

(** the former finding unwatch-other-db (a5f65e9): UNWATCH unregisters each watch in the database it
    was registered in; connection 1's UNWATCH no longer disables connection 2's watch in database
    0, whose EXEC aborts because k changed *)
Example c08_unwatch_other_db_repaired :
  let s0 := connect (connect (connect (init_server None) 1) 2) 3 in
  let step c s req := snd (process_frame 0 s c (FArray (map FBulk req)) None) in
  let s1 := step 2 s0 [bs "WATCH"; bs "k"] in
  let s2 := step 1 s1 [bs "SELECT"; bs "1"] in
  let s3 := step 1 s2 [bs "WATCH"; bs "k"] in
  let s4 := step 1 s3 [bs "SELECT"; bs "0"] in
  let s5 := step 1 s4 [bs "UNWATCH"] in
  let s6 := step 3 s5 [bs "SET"; bs "k"; bs "changed"] in
  let s7 := step 2 s6 [bs "MULTI"] in
  let s8 := step 2 s7 [bs "SET"; bs "k"; bs "mine"] in
  fst (process_frame 0 s8 2 (FArray [FBulk (bs "EXEC")]) None) = FNullArray.
Proof. vm_compute. reflexivity. Qed.
(** ... and a key watched in database 1 is checked in database 1 after SELECT 0 *)
Example c08_watch_remembers_its_database :
  let s0 := connect (connect (init_server None) 1) 2 in
  let step c s req := snd (process_frame 0 s c (FArray (map FBulk req)) None) in
  let s1 := step 1 s0 [bs "SELECT"; bs "1"] in
  let s2 := step 1 s1 [bs "WATCH"; bs "k"] in
  let s3 := step 1 s2 [bs "SELECT"; bs "0"] in
  let s4 := step 2 s3 [bs "SELECT"; bs "1"] in
  let s5 := step 2 s4 [bs "SET"; bs "k"; bs "changed"] in
  let s6 := step 1 s5 [bs "MULTI"] in
  let s7 := step 1 s6 [bs "PING"] in
  fst (process_frame 0 s7 1 (FArray [FBulk (bs "EXEC")]) None) = FNullArray.
Proof. vm_compute. reflexivity. Qed.
