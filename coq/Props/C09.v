(** C09 - An RDB snapshot restores exactly the dataset that was saved.
    Statements only; proofs are in Proofs/RdbFacts.v.  The model (Model/Rdb.v) mirrors
    src/storage/rdb.rs (writer and loader) and the storage API the loader re-inserts
    through.  Wall-clock and engine-clock readings are explicit arguments. *)
From Ferrous Require Import Base.Bytes Model.Resp Model.Types Model.Strings Model.Rdb.
From Ferrous Require Import Proofs.BytesFacts Proofs.RdbFacts.
Open Scope Z_scope.

(** The length encoding round-trips for every length the 32-bit form can carry, whatever
    follows it in the file; the reader consumes exactly the encoding. *)
Theorem c09_length_roundtrip :
  forall n rest resv, 0 <= n < two32 ->
  read_length {| r_in := write_length n ++ rest; r_resv := resv |}
  = (Some n, {| r_in := rest; r_resv := resv |}).
Proof. exact read_length_write. Qed.

(** A length-prefixed string (keys, values, members, fields: arbitrary bytes) round-trips. *)
Theorem c09_string_roundtrip :
  forall s rest resv, len s < two32 ->
  read_string {| r_in := write_string s ++ rest; r_resv := resv |}
  = (Some s, {| r_in := rest; r_resv := Z.max (Z.max resv (Z.min (len s) 65536)) (2 * len s + 32) |}).
Proof. exact read_string_write. Qed.

(** ---- the whole dataset ----
    [save ver ctime now ws ds]: the file the writer produces at engine-clock [now] and wall
    clock [ws]; [load now' wl b]: the databases a fresh engine holds after loading [b] at
    engine-clock [now'] and wall clock [wl] ([chk]: overflow checks on/off).
    [rt_guard now ws wl ds] (decidable, Model/Rdb.v): 16 databases; per database fewer than
    2^32 keys, all distinct; every key not yet expired at the save has a length below 2^32, a
    well-formed value (lengths and counts below 2^32; a list is non-empty - it may start with the
    stream marker, which the writer then doubles; set members / hash fields distinct; a sorted set is non-empty, has
    no NaN score and is what the skip list holds (sorted by (score, member), no member twice); a stream (possibly
    empty) has IDs strictly increasing from above 0-0 and distinct field names per entry (an entry may
    have no field)) and,
    if it has a deadline, an expiry time that fits u64 (nothing is required of the load time [wl]:
    the deadline may pass while the server is down).
    [aged_db]: the keys alive at the save, the same values (streams without their consumer
    groups, with last_id and the ID atomics = last entry, length counter = number of entries), every deadline moved by the difference of the two
    clocks' advances, but not before the load instant [now'] - a key whose deadline passed during the
    downtime comes back already expired (absent to every reader, [c09_downtime_expired_absent]). *)
Theorem c09_roundtrip :
  forall ver ctime now now' ws wl ds,
  0 <= ws -> len ver < two32 -> rt_guard now ws wl ds = true ->
  load_status (load now' wl (save ver ctime now ws ds)) = LOk /\
  load_dbs (load now' wl (save ver ctime now ws ds)) = map (aged_db now now' ws wl) ds.
Proof. exact roundtrip. Qed.

(** Deadlines: the reloaded deadline is the saved one moved by the difference between the advance
    of the engine clock and the advance of the wall clock over the downtime, and never earlier than
    the load instant; while the key is still alive at the load the drift is exact, and the deadline
    is preserved exactly when both clocks advance alike (the model's clocks are in ms: the
    implementation adds at most 1 ms of truncation at the save and at the load). *)
Theorem c09_deadline :
  forall now now' ws wl t, shift now now' ws wl t = Z.max now' (t + ((now' - now) - (wl - ws))).
Proof. exact shift_max. Qed.
Theorem c09_deadline_drift :
  forall now now' ws wl t, wl <= ws + (t - now) -> shift now now' ws wl t - t = (now' - now) - (wl - ws).
Proof. exact shift_drift. Qed.
Theorem c09_deadline_preserved :
  forall now now' ws wl t, now' - now = wl - ws -> now' <= t -> shift now now' ws wl t = t.
Proof. exact shift_same_speed. Qed.

(** Keys whose deadline passed while the server was down are absent after the restart: the
    reloaded entry is expired (in the sense of Model/Types.v, i.e. for every reader, from the load
    instant on) exactly when the expiry time written into the file is not after the load's wall clock. *)
Theorem c09_downtime_expired_absent :
  forall now now' ws wl e t, e_exp e = Some t ->
  expired now' (aged_entry now now' ws wl e) = (ws + (t - now) <=? wl).
Proof. exact aged_expired_iff. Qed.

(** ---- non-vacuity: a dataset with all six types, binary content, TTLs, infinite and
    signed-zero scores satisfies the guard ---- *)
Definition mkdb (l : list (bytes * entry)) : db := {| d_data := l; d_index := [] |}.
Definition in_db0 (l : list (bytes * entry)) : list db := mkdb l :: repeat empty_db 15.
Definition ent (v : value) (t : option Z) : entry := {| e_val := v; e_exp := t |}.
Definition f_one := 4607182418800017408.          (* 1.0 *)
Definition f_pinf := 9218868437227405312.         (* +inf *)
Definition f_qnan := 9221120237041090560.         (* NaN *)
Definition f_nzero := 9223372036854775808.        (* -0.0 *)
Definition example_ds : list db :=
  mkdb [ (bs "s", ent (VStr [0; 255; 13; 10]) (Some 101000));
         ([], ent (VList [bs "a"; marker; []]) None);
         (bs "ml", ent (VList [marker; bs "1-1"; bs "1"; bs "f"; bs "v"]) None);     (* a list that looks like a stream *)
         (bs "m1", ent (VList [marker]) (Some 300000));
         (bs "es", ent (VStream {| s_entries := []; s_last := (0, 0); s_ams := 0; s_aseq := 0; s_len := 0; s_groups := [] |}) None);
         (bs "nf", ent (VStream {| s_entries := [((5, 1), [(bs "f", bs "v")]); ((6, 0), [])]; s_last := (6, 0);
                                   s_ams := 6; s_aseq := 0; s_len := 2; s_groups := [] |}) None);
         (marker, ent (VSet [bs "x"; bs "y"]) (Some 5000000));
         (bs "h", ent (VHash [(bs "f", bs "1"); (bs "g", [])]) None);
         (bs "z", ent (VZSet [(bs "a", f_nzero); (bs "b", 0); (bs "m", f_one); (bs "a2", f_pinf)]) None);
         (bs "st", ent (VStream {| s_entries := [((1, 0), [(bs "f", bs "v")]); ((1, 1), [(bs "g", bs "w"); (bs "h", [])])]; s_last := (1, 1); s_ams := fst (1, 1); s_aseq := snd (1, 1); s_len := len ([((1, 0), [(bs "f", bs "v")]); ((1, 1), [(bs "g", bs "w"); (bs "h", [])])] : list (sid * list (bytes * bytes))); s_groups := [] |}) (Some 200000));
         (bs "gone", ent (VStr (bs "expired before the save")) (Some 500)) ]
  :: mkdb [ (bs "other-db", ent (VStr (bs "v")) None) ] :: repeat empty_db 14.
Example c09_guard_nonvacuous : rt_guard 1000 1700000000000 1700000060000 example_ds = true.
Proof. vm_compute. reflexivity. Qed.
Example c09_roundtrip_example :
  load_status (load 61000 1700000060000 (save (bs "0.1.0") 1700000000 1000 1700000000000 example_ds)) = LOk.
Proof. vm_compute. reflexivity. Qed.

(** the former classes marker-collision, empty-stream-lost, stream-entry-without-fields
    (repaired by 6aaeb35, 1a77fe9, 31c6d8d) are inside the guard: the datasets "ml", "m1", "es", "nf"
    above; a list that starts with the marker is written with the marker doubled *)
Example c09_marker_list_example :
  let ds := in_db0 [(bs "l", ent (VList [marker; bs "x"]) None); (bs "after", ent (VStr (bs "v")) None)] in
  rt_guard 0 1700000000000 1700000000000 ds = true /\
  load_dbs (load 0 1700000000000 (save (bs "0.1.0") 0 0 1700000000000 ds)) = map (aged_db 0 0 1700000000000 1700000000000) ds.
Proof. vm_compute. split; reflexivity. Qed.

(** ---- what the guard still excludes ---- *)

(** a key whose deadline passed during the downtime (repaired by e11d87f; was class
    expired-reloaded-immortal): it is loaded with the deadline "now" and is expired at once *)
Example c09_downtime_example :
  let ds := in_db0 [(bs "k", ent (VStr (bs "v")) (Some 6000))] in      (* 5 s to live at the save *)
  let r := load 11000 1700000010000 (save (bs "0.1.0") 0 1000 1700000000000 ds) in   (* 10 s downtime *)
  load_status r = LOk /\
  get_entry (nth 0 (load_dbs r) empty_db) (bs "k") = Some (ent (VStr (bs "v")) (Some 11000)) /\
  expired 11000 (ent (VStr (bs "v")) (Some 11000)) = true.
Proof. vm_compute. repeat split; reflexivity. Qed.

(** a TTL beyond what u64 milliseconds can express saturates at the save (745a34c; was class
    save-ttl-overflow): the key survives with the largest deadline the file can hold *)
Example c09_ttl_saturation_example :
  let ds := in_db0 [(bs "k", ent (VStr (bs "v")) (Some 18446744073709551615))] in
  save_panics 0 1700000000000 ds = false /\
  get_entry (nth 0 (load_dbs (load 0 1700000000000 (save (bs "0.1.0") 0 0 1700000000000 ds))) empty_db) (bs "k")
  = Some (ent (VStr (bs "v")) (Some (18446744073709551615 - 1700000000000))).
Proof. vm_compute. split; reflexivity. Qed.

(** NaN scores: zadd refuses them (since the repair beb3269 of the NaN-node defect), so a dump
    that holds one (written before the repair, or damaged) stops the load at that item: the
    sorted set is cut short and every later key is lost.  The guard therefore excludes NaN. *)
Example c09_nan_score_refuted :
  let ds := in_db0 [(bs "z", ent (VZSet [(bs "m", f_one); (bs "n", f_qnan)]) None); (bs "after", ent (VStr (bs "v")) None)] in
  let r := load 0 1700000000000 (save (bs "0.1.0") 0 0 1700000000000 ds) in
  load_status r = LErr /\
  get_entry (nth 0 (load_dbs r) empty_db) (bs "z") = Some (ent (VZSet [(bs "m", f_one)]) None) /\
  get_entry (nth 0 (load_dbs r) empty_db) (bs "after") = None.
Proof. vm_compute. repeat split; reflexivity. Qed.

(** lengths of 2^32 and more do not survive the 32-bit form ([len as u32]) *)
Example c09_length_wrap_refuted :
  read_length {| r_in := write_length two32; r_resv := 0 |} = (Some 0, {| r_in := []; r_resv := 0 |}).
Proof. vm_compute. reflexivity. Qed.

(** not persisted (outside the property's statement): consumer groups and a last_id beyond
    the last entry *)
Example c09_stream_last_id_not_persisted :
  let ds := in_db0 [(bs "st", ent (VStream {| s_entries := [((1, 1), [(bs "f", bs "v")])]; s_last := (9, 9); s_ams := fst (9, 9); s_aseq := snd (9, 9); s_len := len ([((1, 1), [(bs "f", bs "v")])] : list (sid * list (bytes * bytes))); s_groups := [] |}) None)] in
  let r := load 0 1700000000000 (save (bs "0.1.0") 0 0 1700000000000 ds) in
  get_entry (nth 0 (load_dbs r) empty_db) (bs "st")
  = Some (ent (VStream {| s_entries := [((1, 1), [(bs "f", bs "v")])]; s_last := (1, 1); s_ams := fst (1, 1); s_aseq := snd (1, 1); s_len := len ([((1, 1), [(bs "f", bs "v")])] : list (sid * list (bytes * bytes))); s_groups := [] |}) None).
Proof. vm_compute. reflexivity. Qed.
