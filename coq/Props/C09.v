(** C09 - An RDB snapshot restores exactly the dataset that was saved.
    Statements only; proofs are in Proofs/RdbFacts.v.  The model (Model/Rdb.v) mirrors
    src/storage/rdb.rs (writer and loader) and the storage API the loader re-inserts
    through.  Wall-clock and engine-clock readings are explicit arguments. *)
From Ferrous Require Import Base.Bytes Model.Resp Model.Types Model.Strings Model.Rdb.
From Ferrous Require Import Proofs.BytesFacts Proofs.RdbFacts.
Open Scope Z_scope.

(** The length encoding round-trips for every length the 32-bit form can carry, whatever
    follows it in the file; the reader consumes exactly the encoding. *)
Theorem c09_length_roundtrip :
  forall n rest resv, 0 <= n < two32 ->
  read_length {| r_in := write_length n ++ rest; r_resv := resv |}
  = (Some n, {| r_in := rest; r_resv := resv |}).
Proof. exact read_length_write. Qed.

(** A length-prefixed string (keys, values, members, fields: arbitrary bytes) round-trips. *)
Theorem c09_string_roundtrip :
  forall s rest resv, len s < two32 ->
  read_string {| r_in := write_string s ++ rest; r_resv := resv |}
  = (Some s, {| r_in := rest; r_resv := Z.max resv (len s) |}).
Proof. exact read_string_write. Qed.
