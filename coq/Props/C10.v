(** C10 - The dump on disk is always a complete, loadable, per-key-consistent snapshot.
    Statements only; proofs are in Proofs/RdbFacts.v.  Parts: (1) crash points of a save
    (temporary file + rename, Model/Rdb.v [save_run]); (3) damaged input (the loader
    [load], Model/Rdb.v).  Part (2), value/TTL tearing under concurrent writers, is not
    modelled here (see design/C10.md). *)
From Ferrous Require Import Base.Bytes Model.Resp Model.Types Model.Strings Model.Rdb.
From Ferrous Require Import Proofs.BytesFacts Proofs.RdbFacts.
Open Scope Z_scope.

(** A save whose k-th write call fails (any k, including the final flush), whatever the
    writes are and whether or not the temporary file could be opened, reports failure and
    leaves the previous dump exactly as it was. *)
Theorem c10_failed_save_keeps_dump :
  forall ws k open_fails rename_fails d, (k < length ws)%nat ->
  let r := save_run ws (Some k) open_fails rename_fails d in
  snd r = false /\ dk_dump (fst r) = dk_dump d.
Proof. exact failed_save_keeps_dump. Qed.

(** Any save that reports failure (write, open or rename) leaves the dump untouched. *)
Theorem c10_any_failed_save_keeps_dump :
  forall ws f open_fails rename_fails d,
  snd (save_run ws f open_fails rename_fails d) = false ->
  dk_dump (fst (save_run ws f open_fails rename_fails d)) = dk_dump d.
Proof. exact failed_save_any. Qed.

(** After any attempt (failed anywhere or not) a later undisturbed save succeeds and
    publishes exactly its own complete output; no temporary file is left. *)
Theorem c10_later_save_succeeds :
  forall ws ws' f open_fails rename_fails d,
  save_run ws' None false false (fst (save_run ws f open_fails rename_fails d))
  = ({| dk_dump := Some (concat ws'); dk_tmp := None |}, true).
Proof. exact later_save_succeeds. Qed.

(** What a failed save leaves in the temporary file is a prefix of the complete file. *)
Theorem c10_tmp_is_prefix :
  forall ws f, exists rest, concat ws = fst (do_writes ws f []) ++ rest.
Proof. intros ws f. exact (do_writes_prefix ws f []). Qed.

(** At every instant of every history of save attempts (each failing at an arbitrary point
    or not at all) the dump is what it was at the start or the complete output of one of
    the attempted saves: never a partial file. *)
Theorem c10_dump_always_complete :
  forall hist d0,
  let d := fold_left run_attempt hist d0 in
  dk_dump d = dk_dump d0 \/ exists a, In a hist /\ dk_dump d = Some (concat (a_writes a)).
Proof. exact dump_always_complete. Qed.

(** ---- damaged input ----
    The loader model is a total function of the file bytes.  Without overflow checks (the
    release profile of the server) it never takes the Panic outcome, whatever the bytes,
    the clocks and the databases already loaded: it ends with Ok or with Err and a clean
    partial load. *)
Theorem c10_load_total_release :
  forall now wall ds0 b, load_status (load_from false now wall ds0 b) <> LPanic.
Proof. exact load_no_panic_release. Qed.

(** With overflow checks (debug profile) the claim is refuted: a stream field count of 2^63
    in the file overflows [field_count * 2] (rdb.rs:900).  Class rdb-fieldcount-overflow. *)
Example c10_load_panic_debug_refuted :
  let b := magic ++ version4 ++ [254; 0; 1] ++ write_string (bs "s") ++ [6] ++ write_string marker
           ++ write_string (bs "1-1") ++ write_string (bs "9223372036854775808")
           ++ write_string (bs "f") ++ write_string (bs "v") ++ write_string (bs "x") ++ [255; 0; 0; 0; 0; 0; 0; 0; 0] in
  load_status (load true 0 0 b) = LPanic /\ load_status (load false 0 0 b) = LErr.
Proof. vm_compute. split; reflexivity. Qed.

(** What does bound the loader's largest allocation request, for every file (of bytes), both
    profiles, any clocks and initial databases: the largest length the 32-bit form can declare. *)
Theorem c10_alloc_below_4gib :
  forall chk now wall ds0 b, Forall (fun c => 0 <= c < 256) b ->
  load_resv (load_from chk now wall ds0 b) < two32.
Proof. exact load_resv_below_4gib. Qed.

(** The allocation bound [reserved <= k * |file|] is refuted for every reasonable k:
    read_string allocates the declared length before reading (rdb.rs:1016-1021); an 18-byte
    file makes the loader ask for 256 MiB.  Class rdb-alloc (DESIGN F-10b). *)
Example c10_alloc_bounded_refuted :
  let b := magic ++ version4 ++ [0; 128; 16; 0; 0; 0] ++ bs "abc" in
  len b = 18 /\ load_status (load false 0 0 b) = LErr /\ load_resv (load false 0 0 b) = 268435456 /\
  1000000 * len b < load_resv (load false 0 0 b).
Proof. vm_compute. repeat split; reflexivity. Qed.
