(** C10 - The dump on disk is always a complete, loadable, per-key-consistent snapshot.
    Statements only; proofs are in Proofs/RdbFacts.v.  Parts: (1) crash points of a save
    (temporary file + rename, Model/Rdb.v [save_run]); (3) damaged input (the loader
    [load], Model/Rdb.v).  (2) value/TTL of one key under a concurrent save. *)
From Ferrous Require Import Base.Bytes Model.Resp Model.Types Model.Strings Model.Rdb.
From Ferrous Require Import Proofs.BytesFacts Proofs.RdbFacts.
From Ferrous Require Generated.
Open Scope Z_scope.

(** A save whose k-th write call fails (any k, including the final flush), whatever the
    writes are and whether or not the temporary file could be opened, reports failure and
    leaves the previous dump exactly as it was. *)
Theorem c10_failed_save_keeps_dump :
  forall ws k open_fails rename_fails d, (k < length ws)%nat ->
  let r := save_run ws (Some k) open_fails rename_fails d in
  snd r = false /\ dk_dump (fst r) = dk_dump d.
Proof. exact failed_save_keeps_dump. Qed.

(** Any save that reports failure (write, open or rename) leaves the dump untouched. *)
Theorem c10_any_failed_save_keeps_dump :
  forall ws f open_fails rename_fails d,
  snd (save_run ws f open_fails rename_fails d) = false ->
  dk_dump (fst (save_run ws f open_fails rename_fails d)) = dk_dump d.
Proof. exact failed_save_any. Qed.

(** After any attempt (failed anywhere or not) a later undisturbed save succeeds and
    publishes exactly its own complete output; no temporary file is left. *)
Theorem c10_later_save_succeeds :
  forall ws ws' f open_fails rename_fails d,
  save_run ws' None false false (fst (save_run ws f open_fails rename_fails d))
  = ({| dk_dump := Some (concat ws'); dk_tmp := None |}, true).
Proof. exact later_save_succeeds. Qed.

(** What a failed save leaves in the temporary file is a prefix of the complete file. *)
Theorem c10_tmp_is_prefix :
  forall ws f, exists rest, concat ws = fst (do_writes ws f []) ++ rest.
Proof. intros ws f. exact (do_writes_prefix ws f []). Qed.

(** At every instant of every history of save attempts (each failing at an arbitrary point
    or not at all) the dump is what it was at the start or the complete output of one of
    the attempted saves: never a partial file. *)
Theorem c10_dump_always_complete :
  forall hist d0,
  let d := fold_left run_attempt hist d0 in
  dk_dump d = dk_dump d0 \/ exists a, In a hist /\ dk_dump d = Some (concat (a_writes a)).
Proof. exact dump_always_complete. Qed.

(** ---- foreground and background saves ([ps_step], Model/Rdb.v) ----
    Over every history of SAVE attempts, BGSAVE starts and background-thread endings - each
    attempt failing at an arbitrary point or not at all - the in-progress flag is set exactly
    while a background save is running: whenever none is running it is clear, *)
Theorem c10_bgsave_flag_clear_when_idle :
  forall hist d,
  let s := fold_left ps_step hist (ps_init d) in ps_running s = None -> ps_flag s = false.
Proof. exact flag_clear_when_idle. Qed.

(** hence a later BGSAVE (or auto-save) is accepted, and when its thread ends undisturbed the
    dump is exactly its own complete output and the flag is clear again. *)
Theorem c10_later_bgsave_succeeds :
  forall hist d ws,
  let s := fold_left ps_step hist (ps_init d) in
  ps_running s = None ->
  let a := {| a_writes := ws; a_failat := None; a_open_fails := false; a_rename_fails := false |} in
  let s1 := ps_step s (EvBgStart a) in
  ps_running s1 = Some a /\
  let s2 := ps_step s1 EvBgEnd in
  dk_dump (ps_disk s2) = Some (concat ws) /\ ps_flag s2 = false /\ ps_running s2 = None.
Proof. exact later_bgsave_works. Qed.

(** The dump is never partial over such histories either. *)
Theorem c10_dump_complete_with_bgsave :
  forall hist d0,
  let s := fold_left ps_step hist (ps_init d0) in
  dk_dump (ps_disk s) = dk_dump d0 \/
  exists a, In a (flat_map ev_attempts hist) /\ dk_dump (ps_disk s) = Some (concat (a_writes a)).
Proof. exact ps_dump_complete. Qed.

(** What [ps_step] assumes of bgsave - the flag is set before the thread is spawned and cleared
    after the [match] on the save's result, on both arms - is read off rdb.rs on every run
    (tools/gen_tables.py); a change that clears it on success only breaks this theorem. *)
Theorem c10_bgsave_flag_discipline_in_source :
  Generated.rdb_bgsave_sets_flag_before_spawn = true /\ Generated.rdb_bgsave_clears_flag_after_match = true.
Proof. exact gen_bgsave_flag_discipline. Qed.

(** [save_run] starts from whatever the disk holds, a leftover temporary file included
    ([c10_later_save_succeeds] quantifies over it): the code opens the temporary file creating or
    truncating it, never demanding that it be absent - read off rdb.rs on every run. *)
Theorem c10_tmp_is_opened_afresh_in_source : Generated.rdb_tmp_opened_afresh = true.
Proof. exact gen_tmp_opened_afresh. Qed.

(** A SAVE (or SHUTDOWN, or a replica sync) issued while a background save is writing does not
    share its temporary file: save() takes one lock for its whole duration and is the only caller
    of write_snapshot - read off rdb.rs on every run.  Before aa75b1d both saves truncated and
    wrote `dump.tmp` at once and the first to finish published the mixture. *)
Theorem c10_saves_are_serialised_in_source :
  Generated.rdb_save_serialised = true /\ Generated.rdb_write_snapshot_callers = [bs "save"].
Proof. exact gen_saves_serialised. Qed.

(** The one-instant read that [snapshot_key] (below) models is what the code does - read off
    engine.rs and rdb.rs on every run: write_snapshot reads each key by ONE storage call,
    get_with_ttl, and that call copies the members of a sorted set (the only value shared with the
    command thread) while it holds the shard lock.  Before ec066f0 the shared set was handed out
    and the save read its members later than its TTL: 68 of 150000 snapshots taken beside a client
    that changed members and TTL held members beside a TTL the key never had with them. *)
Theorem c10_snapshot_read_is_one_instant_in_source :
  Generated.engine_get_with_ttl_copies_zset = true /\ Generated.rdb_snapshot_reads_per_key = 1.
Proof. exact gen_snapshot_read_is_one_instant. Qed.

(** ---- (2) one key under a save that runs beside the command thread ----
    [snapshot_key now s0 before after]: what write_snapshot writes for a key that is in state [s0]
    when the save starts, on which the client commands [before] run before the save thread reads
    it and [after] afterwards.  The read is ONE lock acquisition (get_with_ttl, 880a648; a sorted
    set's items and their count are taken once, e63a0b6).  For every initial state and whatever
    commands run in between: the (value, deadline) pair written is the pair the key had at one
    single instant of the save (a member of the states it went through); the key is left out only
    if it was absent, or past its deadline, at that instant. *)
Theorem c10_snapshot_from_one_instant :
  forall now s0 before after,
  let at_read := fold_left cstep before s0 in
  In at_read (states_of s0 (before ++ after)) /\
  (snapshot_key now s0 before after = at_read \/
   (snapshot_key now s0 before after = None /\ exists v dl, at_read = Some (v, Some dl) /\ dl <= now)).
Proof. exact snapshot_from_one_instant. Qed.

(** the former tearing witnesses (classes value-ttl-tear, zset-len-tear, repaired): a SET .. EX
    racing with the save yields the old pair or the new pair, never a mixture *)
Example c10_snapshot_example :
  let s0 := Some (VStr (bs "old"), None) in
  snapshot_key 0 s0 [] [CSet (VStr (bs "new")) (Some 100)] = Some (VStr (bs "old"), None) /\
  snapshot_key 0 s0 [CSet (VStr (bs "new")) (Some 100)] [] = Some (VStr (bs "new"), Some 100).
Proof. split; reflexivity. Qed.

(** ---- damaged input ----
    The loader model is a total function of the file bytes.  It never takes the Panic outcome,
    whatever the bytes, the clocks and the databases already loaded - in either build profile:
    the only arithmetic on file data that could overflow (the stream field count) is checked
    explicitly since bcfe7be.  A load ends with Ok, or with Err and a clean partial load. *)
Theorem c10_load_total :
  forall now wall ds0 b, load_status (load_from now wall ds0 b) <> LPanic.
Proof. exact load_no_panic. Qed.

(** Allocation (43b3590): read_string starts with min(declared, 64 KiB) and grows only with
    the bytes actually read (doubling, plus read_to_end's 32-byte probe).  For EVERY file of L
    bytes no request of the loader exceeds 64 KiB + 2 L + 32, whatever lengths it declares. *)
Theorem c10_alloc_bounded :
  forall now wall ds0 b, load_resv (load_from now wall ds0 b) <= 65536 + 2 * len b + 32.
Proof. exact load_resv_bounded. Qed.

(** the former witnesses of the classes rdb-fieldcount-overflow and rdb-alloc, now harmless *)
Example c10_fieldcount_example :
  let b := magic ++ version4 ++ [254; 0; 1] ++ write_string (bs "s") ++ [6] ++ write_string marker
           ++ write_string (bs "1-1") ++ write_string (bs "9223372036854775808")
           ++ write_string (bs "f") ++ write_string (bs "v") ++ write_string (bs "x") ++ [255; 0; 0; 0; 0; 0; 0; 0; 0] in
  load_status (load 0 0 b) = LErr.
Proof. vm_compute. reflexivity. Qed.
Example c10_alloc_example :
  let b := magic ++ version4 ++ [0; 128; 16; 0; 0; 0] ++ bs "abc" in
  len b = 18 /\ load_status (load 0 0 b) = LErr /\ load_resv (load 0 0 b) = 65536.
Proof. vm_compute. repeat split; reflexivity. Qed.
