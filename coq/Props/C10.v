(** C10 - The dump on disk is always a complete, loadable, per-key-consistent snapshot.
    Statements only; proofs are in Proofs/RdbFacts.v.  Parts: (1) crash points of a save
    (temporary file + rename, Model/Rdb.v [save_run]); (3) damaged input (the loader
    [load], Model/Rdb.v).  Part (2), value/TTL tearing under concurrent writers, is not
    modelled here (see design/C10.md). *)
From Ferrous Require Import Base.Bytes Model.Resp Model.Types Model.Strings Model.Rdb.
From Ferrous Require Import Proofs.BytesFacts Proofs.RdbFacts.
Open Scope Z_scope.

(** A save whose k-th write call fails (any k, including the final flush), whatever the
    writes are and whether or not the temporary file could be opened, reports failure and
    leaves the previous dump exactly as it was. *)
Theorem c10_failed_save_keeps_dump :
  forall ws k open_fails rename_fails d, (k < length ws)%nat ->
  let r := save_run ws (Some k) open_fails rename_fails d in
  snd r = false /\ dk_dump (fst r) = dk_dump d.
Proof. exact failed_save_keeps_dump. Qed.

(** Any save that reports failure (write, open or rename) leaves the dump untouched. *)
Theorem c10_any_failed_save_keeps_dump :
  forall ws f open_fails rename_fails d,
  snd (save_run ws f open_fails rename_fails d) = false ->
  dk_dump (fst (save_run ws f open_fails rename_fails d)) = dk_dump d.
Proof. exact failed_save_any. Qed.

(** After any attempt (failed anywhere or not) a later undisturbed save succeeds and
    publishes exactly its own complete output; no temporary file is left. *)
Theorem c10_later_save_succeeds :
  forall ws ws' f open_fails rename_fails d,
  save_run ws' None false false (fst (save_run ws f open_fails rename_fails d))
  = ({| dk_dump := Some (concat ws'); dk_tmp := None |}, true).
Proof. exact later_save_succeeds. Qed.

(** What a failed save leaves in the temporary file is a prefix of the complete file. *)
Theorem c10_tmp_is_prefix :
  forall ws f, exists rest, concat ws = fst (do_writes ws f []) ++ rest.
Proof. intros ws f. exact (do_writes_prefix ws f []). Qed.

(** At every instant of every history of save attempts (each failing at an arbitrary point
    or not at all) the dump is what it was at the start or the complete output of one of
    the attempted saves: never a partial file. *)
Theorem c10_dump_always_complete :
  forall hist d0,
  let d := fold_left run_attempt hist d0 in
  dk_dump d = dk_dump d0 \/ exists a, In a hist /\ dk_dump d = Some (concat (a_writes a)).
Proof. exact dump_always_complete. Qed.

(** ---- damaged input ----
    The loader model is a total function of the file bytes.  It never takes the Panic outcome,
    whatever the bytes, the clocks and the databases already loaded - in either build profile:
    the only arithmetic on file data that could overflow (the stream field count) is checked
    explicitly since bcfe7be.  A load ends with Ok, or with Err and a clean partial load. *)
Theorem c10_load_total :
  forall now wall ds0 b, load_status (load_from now wall ds0 b) <> LPanic.
Proof. exact load_no_panic. Qed.

(** Allocation (43b3590): read_string starts with min(declared, 64 KiB) and grows only with
    the bytes actually read (doubling, plus read_to_end's 32-byte probe).  For EVERY file of L
    bytes no request of the loader exceeds 64 KiB + 2 L + 32, whatever lengths it declares. *)
Theorem c10_alloc_bounded :
  forall now wall ds0 b, load_resv (load_from now wall ds0 b) <= 65536 + 2 * len b + 32.
Proof. exact load_resv_bounded. Qed.

(** the former witnesses of the classes rdb-fieldcount-overflow and rdb-alloc, now harmless *)
Example c10_fieldcount_example :
  let b := magic ++ version4 ++ [254; 0; 1] ++ write_string (bs "s") ++ [6] ++ write_string marker
           ++ write_string (bs "1-1") ++ write_string (bs "9223372036854775808")
           ++ write_string (bs "f") ++ write_string (bs "v") ++ write_string (bs "x") ++ [255; 0; 0; 0; 0; 0; 0; 0; 0] in
  load_status (load 0 0 b) = LErr.
Proof. vm_compute. reflexivity. Qed.
Example c10_alloc_example :
  let b := magic ++ version4 ++ [0; 128; 16; 0; 0; 0] ++ bs "abc" in
  len b = 18 /\ load_status (load 0 0 b) = LErr /\ load_resv (load 0 0 b) = 65536.
Proof. vm_compute. repeat split; reflexivity. Qed.
