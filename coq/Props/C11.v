(** C11 - The append-only file is a faithful redo log.
    Statements only; proofs in Proofs/AofFacts.v and Proofs/AofTimeFacts.v.  Model: Model/Aof.v
    (the bytes of the file, redo, start-up as the code has it) on top of Model/Server.v, whose
    [s_aof] is appended by process_normal_command BEFORE dispatch whenever the upper-cased
    command name is in [Generated.write_commands] (regenerated from server.rs
    is_write_command on every run), whatever the outcome, preceded by a [SELECT db] record when
    the database differs from that of the last command written (7ef6fad).

    Repaired in /repo since the first round (their witnesses are regression cases in
    corpus/C11, and [c11_repaired_classes_replay] below): the four unlogged writers GETSET,
    HMSET, PEXPIRE, XREADGROUP (8d99f01); no SELECT in the log (7ef6fad); start-up abort on a
    file that is not UTF-8 (39510e9).
    Still REFUTED, each class with a witness theorem here and a witness replayed on the binary
    (known_findings.json):
      expired-unlogged       lazy removal of an expired key is not logged; TTLs are logged relative
      random-verbatim        SPOP and XADD * are logged as sent, not as their outcome
      startup-replay-noop    AofEngine::load executes nothing: the dataset is empty after a restart
      evalsha-by-hash        EVALSHA is logged by hash, SCRIPT LOAD is not logged (binary witness;
                             the script cache lives in the runner, Model/RunLua.v)
      unlogged-blocking-pop  pops served by BLPOP/BRPOP are not logged (binary witness only) *)
From Ferrous Require Import Base.Bytes Generated Model.Resp Model.Types Model.Strings Model.Server
  Model.Conn Model.Aof Proofs.ConnFacts Proofs.ServerFacts Proofs.AofFacts Proofs.AofTimeFacts.
Open Scope Z_scope.

(** ---- 1. the file is at all times a sequence of complete RESP command frames ---- *)
(** Decoding the file with the RESP reader gives back exactly the logged records, in
    order, and ends on a frame boundary with no byte left over - for every log of
    commands that can arrive from the wire ([wire_cmd]: frames the codec round-trips). *)
Theorem c11_file_is_whole_frames :
  forall log, Forall wire_cmd log -> aof_decode (aof_file log) = (map FArray log, NeedMore, []).
Proof. exact aof_decode_log. Qed.
(** Every append adds one whole frame: after it the file decodes to the old records
    followed by the new one. *)
Theorem c11_append_is_one_frame :
  forall log p, Forall wire_cmd log -> wire_cmd p ->
  aof_decode (aof_file log ++ aof_frame p) = (map FArray log ++ [FArray p], NeedMore, []).
Proof. exact aof_append_whole. Qed.
(** commands made of bulk strings - arbitrary bytes, CR LF included - are wire commands *)
Theorem c11_bulk_commands_are_wire :
  forall args, len args <= i64_max -> Forall (fun a => len a <= i64_max) args -> wire_cmd (map FBulk args).
Proof. exact bulk_cmd_wire. Qed.

(** ---- 2. logging discipline: once, in execution order, decided by the table ---- *)
(** process_normal_command appends the command exactly once iff its name is in the
    generated table - before dispatch, so whether or not it then succeeds - with a SELECT
    record in front when the database changed ([aof_push]). *)
Theorem c11_logged_once_by_table :
  forall now s c dbi parts o,
  s_aof (snd (normal_command now s c dbi parts o)) =
  if is_logged parts then aof_push (s_aof s) dbi parts else s_aof s.
Proof. exact nc_aof. Qed.
(** EXEC appends the queued write commands in queue order, each once, each under the database
    it ran in: [queue_dbs dbi q] pairs every queued command with its database - a queued SELECT
    (it takes effect at EXEC since 1ecc022) moves the commands after it, and [push_all] puts the
    SELECT record in front of the first write in the new database.  (A DISCARDed or WATCH-aborted
    queue is never run, C07, hence never logged.)  [linv]: no password, no connection id 0. *)
Theorem c11_exec_logs_in_order :
  forall now c q s dbi acc cn,
  linv s -> zlookup c (s_conns s) = Some cn -> c_db cn = dbi ->
  s_aof (snd (exec_queue now s c dbi q acc)) = push_all (s_aof s) (queue_dbs dbi q).
Proof. exact exec_queue_aof. Qed.
(** witness: MULTI; SET a 1; SELECT 1; SET b 2; GET b; EXEC; APPEND b 3 - five records, SELECT 1
    between the two SETs, and the redo reproduces all databases *)
Example c11_queued_select :
  forallb (fun te => ev_ok (snd te)) queued_select_history = true /\
  live_fresh (trace_of queued_select_history) dbs0 = true /\
  redo_fresh 0 (aof_log (run_tevs queued_select_history)) (0, dbs0) = true /\
  aof_log (run_tevs queued_select_history) =
    [aof_select 0; [FBulk (bs "SET"); FBulk (bs "a"); FBulk (bs "1")];
     aof_select 1; [FBulk (bs "SET"); FBulk (bs "b"); FBulk (bs "2")]; [FBulk (bs "APPEND"); FBulk (bs "b"); FBulk (bs "3")]] /\
  s_dbs (replay 0 (aof_log (run_tevs queued_select_history))) = s_dbs (run_tevs queued_select_history) /\
  len (d_data (get_db (run_tevs queued_select_history) 1)) = 1.
Proof. exact queued_select_history_ok. Qed.
(** The file of a whole history - any connections, databases, transactions - is exactly the
    records of its executed commands [trace_of h] (each with the database it ran in): the
    logged ones in execution order, each once, a SELECT record wherever the database changes. *)
Theorem c11_file_of_a_history :
  forall h, forallb (fun te => ev_ok (snd te)) h = true ->
  aof_log (run_tevs h) = recs None (map snd (trace_of h)).
Proof. exact history_file. Qed.

(** ---- 3. completeness of the table ---- *)
(** Every command of the modelled dispatch (string/key family, lists/sets/hashes, sorted
    sets, streams/groups, SCAN family, scripts) whose name is NOT in
    [Generated.write_commands] leaves the database unchanged up to lazy removal of
    already-expired entries - without exception since 8d99f01.  The proof walks the dispatchers
    name by name and evaluates the generated table at each: deleting a name from the Rust
    [matches!] breaks it at that name. *)
Theorem c11_unlogged_commands_inert :
  forall now d name parts o r d',
  mem_name name write_commands = false ->
  exec_db now d name parts o = Some (r, d') -> lazy_removed now d d'.
Proof. exact exec_db_inert. Qed.
(** ... and exactly unchanged when no entry has expired *)
Theorem c11_unlogged_commands_inert_exact :
  forall now d name parts o r d',
  mem_name name write_commands = false ->
  fresh now d = true -> exec_db now d name parts o = Some (r, d') -> d' = d.
Proof. exact exec_db_inert_fresh. Qed.

(** ---- 4. the replay theorem ---- *)
(** For EVERY history - any number of connections, connects and disconnects, SELECT of any
    database, commands sent directly or queued under MULTI and run by EXEC (or dropped by
    DISCARD / a WATCH abort), valid or refused, EVAL scripts included - whose commands are in
    the domain [cmd_ok] (not SPOP, not XADD with an auto ID, not EVALSHA) and in which nothing
    has expired at the moment a command runs (live: [live_fresh]; in the redo: [redo_fresh];
    e.g. no zero TTL), re-executing the file in order on an empty server yields ALL SIXTEEN
    databases of the live server: same keys, same values, same deadlines.
    Clock: here every event and the redo are taken at one clock reading [now] (any);
    c11_replay_any_time below lets every event and the redo have their own reading and concludes
    equality of [dataset] (values and TTL presence; deadlines are logged as relative TTLs).
    Oracles: events carry none, so commands whose model semantics needs one - SPOP, XADD *, and
    ZADD / ZINCRBY / score bounds (the f64 value of a score text) - answer an error and change
    nothing on both sides; for sorted sets the differential replay supplies the same oracle
    to both sides. *)
Theorem c11_replay :
  forall now h,
  forallb (fun te => ev_ok (snd te)) h = true ->
  forallb (fun te => fst te =? now) h = true ->
  live_fresh (trace_of h) dbs0 = true ->
  redo_fresh now (aof_log (run_tevs h)) (0, dbs0) = true ->
  s_dbs (replay now (aof_log (run_tevs h))) = s_dbs (run_tevs h).
Proof. exact replay_all_dbs. Qed.
Theorem c11_replay_dataset :
  forall now h,
  forallb (fun te => ev_ok (snd te)) h = true ->
  forallb (fun te => fst te =? now) h = true ->
  live_fresh (trace_of h) dbs0 = true ->
  redo_fresh now (aof_log (run_tevs h)) (0, dbs0) = true ->
  map dataset (s_dbs (replay now (aof_log (run_tevs h)))) = map dataset (s_dbs (run_tevs h)).
Proof. exact replay_datasets. Qed.
(** non-vacuity: two connections in databases 0 and 3, a transaction containing a refused
    command, a read, TTLs, a stream, a pop - hypotheses hold, twelve records in the file *)
Example c11_replay_sample :
  forallb (fun te => ev_ok (snd te)) sample_history = true /\
  forallb (fun te => fst te =? 7) sample_history = true /\
  live_fresh (trace_of sample_history) dbs0 = true /\
  redo_fresh 7 (aof_log (run_tevs sample_history)) (0, dbs0) = true /\
  len (aof_log (run_tevs sample_history)) = 12 /\ len (d_data (get_db (run_tevs sample_history) 3)) = 2.
Proof. exact sample_history_ok. Qed.
(** regression of the repaired classes: GETSET, HMSET, PEXPIRE, XREADGROUP and commands in
    databases 1 and 15 are in the domain, and this history replays exactly (14 records) *)
Example c11_repaired_classes_replay :
  forallb (fun te => ev_ok (snd te)) repaired_history = true /\
  live_fresh (trace_of repaired_history) dbs0 = true /\
  redo_fresh 0 (aof_log (run_tevs repaired_history)) (0, dbs0) = true /\
  len (aof_log (run_tevs repaired_history)) = 14 /\
  s_dbs (replay 0 (aof_log (run_tevs repaired_history))) = s_dbs (run_tevs repaired_history) /\
  len (d_data (get_db (run_tevs repaired_history) 1)) = 2.
Proof. exact repaired_history_ok. Qed.

(** ---- 4b. the replay theorem with a clock ---- *)
(** One command at two clock readings: on lists of databases that agree on keys, values and
    TTL presence ([sims]) and hold no expired entry at their respective readings, every
    command outside [untimed_excluded] yields databases that agree again - all 29 string/key
    commands, all 31 list/set/hash commands, XADD / XTRIM / XDEL, every read of every family,
    FLUSHALL.  Excluded: XGROUP, XREADGROUP, XACK, XCLAIM (they stamp the clock into pending
    entries), and the sorted-set writes and scripts (no per-handler proof here). *)
Theorem c11_clock_invisible_without_expiry :
  forall t1 t2 a b dbi parts o,
  mem_name (cmd_name parts) untimed_excluded = false ->
  sims a b -> fresh_all t1 a = true -> fresh_all t2 b = true ->
  sims (step_dbs t1 a dbi parts o) (step_dbs t2 b dbi parts o).
Proof. exact step_dbs_sim. Qed.
(** For EVERY history with a clock reading per event (as in c11_replay) whose executed
    commands are outside [untimed_excluded], and a redo at ANY reading [now']: if nothing has
    expired at the moment a command runs - live and in the redo - re-executing the file yields
    the live dataset of all sixteen databases: same keys, same values, same TTL presence. *)
Theorem c11_replay_any_time :
  forall h now',
  forallb (fun te => ev_ok (snd te)) h = true ->
  forallb timeless (trace_of h) = true ->
  live_fresh (trace_of h) dbs0 = true ->
  redo_fresh now' (aof_log (run_tevs h)) (0, dbs0) = true ->
  map dataset (s_dbs (replay now' (aof_log (run_tevs h)))) = map dataset (s_dbs (run_tevs h)).
Proof. exact replay_any_time. Qed.
(** non-vacuity: events spread over an hour in databases 0 and 2, three TTLs, a transaction
    run an hour after it was queued, the redo a day later: hypotheses hold, twelve records, and
    the databases are NOT equal (deadlines) although their datasets are *)
Example c11_replay_any_time_sample :
  forallb (fun te => ev_ok (snd te)) sample_timed = true /\
  forallb timeless (trace_of sample_timed) = true /\
  live_fresh (trace_of sample_timed) dbs0 = true /\
  redo_fresh 86400000 (aof_log (run_tevs sample_timed)) (0, dbs0) = true /\
  len (aof_log (run_tevs sample_timed)) = 12 /\
  s_dbs (replay 86400000 (aof_log (run_tevs sample_timed))) <> s_dbs (run_tevs sample_timed).
Proof. exact sample_timed_ok. Qed.

(** Re-sending the records of the file as request frames over a fresh connection - what the
    harness's AOFREPLAY and any external redo tool do - is [replay]: a logged name (and
    SELECT) is never transaction control and has no blanks (checked over the generated
    table), so each frame goes straight to process_normal_command in the database the
    connection has selected. *)
Theorem c11_resend_is_replay :
  forall now h, forallb (fun te => ev_ok (snd te)) h = true ->
  resend now (aof_log (run_tevs h)) = replay now (aof_log (run_tevs h)).
Proof. exact history_resend. Qed.

(** ---- 5. refutations: one witness per open class ---- *)
(** expiry is not logged, TTLs are relative: SET k v PX 300 at time 0, GET k at time 600 (k is
    gone), redo at time 600 (k is back for 300 ms).  Every command is in the domain and the redo is
    fresh; only [live_fresh] fails - the hypothesis of the replay theorems is necessary *)
Theorem c11_expired_unlogged_refuted :
  map dataset (s_dbs (replay 600 (aof_log (run_tevs expired_history)))) <> map dataset (s_dbs (run_tevs expired_history)) /\
  forallb (fun te => ev_ok (snd te)) expired_history = true /\
  live_fresh (trace_of expired_history) dbs0 = false /\
  redo_fresh 600 (aof_log (run_tevs expired_history)) (0, dbs0) = true.
Proof. exact expired_diverges. Qed.
(** random outcomes logged verbatim: two admissible outcomes, one file, two datasets *)
Theorem c11_random_spop_refuted :
  let s := run_tevs (hist [[bs "SADD"; bs "s"; bs "a"; bs "b"]]) in
  let s1 := snd (process_frame 0 s 1 (cmd [bs "SPOP"; bs "s"]) (Some (FBulk (bs "a")))) in
  let s2 := snd (process_frame 0 s 1 (cmd [bs "SPOP"; bs "s"]) (Some (FBulk (bs "b")))) in
  aof_log s1 = aof_log s2 /\ get_db s1 0 <> get_db s2 0 /\
  is_error (fst (process_frame 0 s 1 (cmd [bs "SPOP"; bs "s"]) (Some (FBulk (bs "a"))))) = false /\
  is_error (fst (process_frame 0 s 1 (cmd [bs "SPOP"; bs "s"]) (Some (FBulk (bs "b"))))) = false.
Proof. exact spop_verbatim. Qed.
Theorem c11_random_xadd_refuted :
  let s := run_tevs (hist []) in
  let q := cmd [bs "XADD"; bs "x"; bs "*"; bs "f"; bs "v"] in
  let s1 := snd (process_frame 0 s 1 q (Some (FBulk (bs "1700000000000-0")))) in
  let s2 := snd (process_frame 0 s 1 q (Some (FBulk (bs "1700000000001-0")))) in
  aof_log s1 = aof_log s2 /\ get_db s1 0 <> get_db s2 0 /\
  fst (process_frame 0 s 1 q (Some (FBulk (bs "1700000000000-0")))) = FBulk (bs "1700000000000-0") /\
  fst (process_frame 0 s 1 q (Some (FBulk (bs "1700000000001-0")))) = FBulk (bs "1700000000001-0").
Proof. exact xadd_auto_verbatim. Qed.
(** start-up replay executes nothing: after a restart the dataset is empty, the file is kept
    and the engine has forgotten the database it last wrote to *)
Theorem c11_startup_replay_noop_refuted :
  let s := run_tevs (hist [[bs "SET"; bs "k"; bs "a"]; [bs "RPUSH"; bs "l"; bs "x"]]) in
  get_db (restart s) 0 = empty_db /\ get_db s 0 <> empty_db /\ aof_log (restart s) = aof_log s /\
  aof_last_db (s_aof s) = Some 0 /\ aof_last_db (s_aof (restart s)) = None.
Proof. exact restart_loses_dataset. Qed.
