(** C11 - The append-only file is a faithful redo log.
    Statements only; proofs in Proofs/AofFacts.v and Proofs/AofTimeFacts.v.  Model: Model/Aof.v
    (the bytes of the file, redo, start-up) on top of Model/Server.v, whose [s_aof] receives
      - the command AS IT WAS SENT, before it runs, when its upper-cased name is in
        [Generated.write_commands] (regenerated from server.rs is_write_command on every run) -
        except SPOP and XADD with the ID *, which are written AFTER they ran as the deterministic
        command they amounted to (SREM key members / XADD with the generated ID; f085462), and
        EVALSHA, which is written as the EVAL of the cached script (a8393c5, Model/RunLua.v);
      - `PEXPIREAT key deadline` after SET / SETEX / PSETEX / EXPIRE / PEXPIRE that did not
        answer an error, when the key then carries a deadline (98d0d1a): an absolute time;
      - LPOP key / RPOP key when a BLPOP / BRPOP is served, at once or by a later push
        (293eff6, Model/Blocking.v);
    each preceded by a `SELECT db` record when the database differs from that of the last
    record (7ef6fad).  At start-up the records are run again, in order (831b342, [restart_o]).

    All eleven classes found by this property are repaired in /repo (their witnesses are
    regression cases in corpus/C11).  What remains, each with a witness here and in
    known_findings.json:
      expiry-unlogged            no record is written when a key expires: a command that ran while
                                 a key was alive, redone after the key's deadline, acts on another
                                 dataset ([c11_expiry_unlogged_refuted]).  This is exactly the
                                 hypothesis [timed_run] of the any-time theorem: no deadline of the
                                 live run has passed at the time of the redo.
      startup-executor-differs   start-up runs the records through the command executor, not
                                 through the handlers that ran them live (binary witness; the
                                 model's [restart_o] uses the handlers) *)
From Ferrous Require Import Base.Bytes Generated Model.Resp Model.Types Model.Strings Model.Lists Model.Streams
  Model.Server Model.Conn Model.Blocking Model.RunLua Model.Aof Proofs.ConnFacts Proofs.ServerFacts Proofs.StreamFacts
  Proofs.AofFacts Proofs.AofTimeFacts.
Open Scope Z_scope.

(** ---- 1. the file is at all times a sequence of complete RESP command frames ---- *)
(** Decoding the file with the RESP reader gives back exactly the logged records, in
    order, and ends on a frame boundary with no byte left over - for every log of
    commands that can arrive from the wire ([wire_cmd]: frames the codec round-trips). *)
Theorem c11_file_is_whole_frames :
  forall log, Forall wire_cmd log -> aof_decode (aof_file log) = (map FArray log, NeedMore, []).
Proof. exact aof_decode_log. Qed.
(** Every append adds one whole frame: after it the file decodes to the old records
    followed by the new one. *)
Theorem c11_append_is_one_frame :
  forall log p, Forall wire_cmd log -> wire_cmd p ->
  aof_decode (aof_file log ++ aof_frame p) = (map FArray log ++ [FArray p], NeedMore, []).
Proof. exact aof_append_whole. Qed.
(** commands made of bulk strings - arbitrary bytes, CR LF included - are wire commands *)
Theorem c11_bulk_commands_are_wire :
  forall args, len args <= i64_max -> Forall (fun a => len a <= i64_max) args -> wire_cmd (map FBulk args).
Proof. exact bulk_cmd_wire. Qed.

(** ---- 2. logging discipline: what one command leaves in the file ---- *)
(** process_normal_command appends [cmd_recs] - a function of the command, its reply and the
    database it left - under the database it ran in ([push_recs]: a SELECT record in front when
    the database changed), whatever the command answers. *)
Theorem c11_records_of_a_command :
  forall now s c dbi parts o,
  s_aof (snd (normal_command now s c dbi parts o)) = push_recs (s_aof s) dbi (cmd_recs now (s_dbs s) dbi parts o).
Proof. exact nc_aof. Qed.
(** [cmd_recs]: the command as it was sent iff [is_logged] (in the table, not by outcome, not
    EVALSHA) - BEFORE it runs, so whether or not it succeeds - then the records of its outcome *)
Theorem c11_records_shape :
  forall now dbs dbi nm rest o,
  cmd_recs now dbs dbi (FBulk nm :: rest) o =
  verb_recs (FBulk nm :: rest) ++ dout_recs now (pre_dbs now dbs dbi (upper nm) (FBulk nm :: rest)) dbi (FBulk nm :: rest) o.
Proof. exact cmd_recs_split. Qed.
Theorem c11_sent_record : forall p, verb_recs p = if is_logged p then [p] else [].
Proof. exact verb_recs_spec. Qed.
(** the records of the outcome, given the reply [r] and the database [d'] the command left:
    [out_recs] = the deterministic form of SPOP / XADD * (nothing for a nil, empty or error
    reply), then PEXPIREAT key (clock + remaining time) after the five TTL commands *)
Theorem c11_outcome_records :
  forall now dbs dbi nm rest o, special8 (upper nm) = false ->
  dout_recs now dbs dbi (FBulk nm :: rest) o =
  match exec_db now (nth (Z.to_nat dbi) dbs empty_db) (upper nm) (FBulk nm :: rest) o with
  | Some (r, d') => out_recs now d' (upper nm) (FBulk nm :: rest) r
  | None => []
  end.
Proof. exact dout_exec. Qed.
(** every record is a write command by name (what a reader of the file has to execute), never
    mistaken for the engine's SELECT record *)
Theorem c11_records_are_write_commands :
  forall t d x, Forall (fun po => is_write (fst po) = true) (xorecs t d x).
Proof. exact xorecs_writes. Qed.
(** EXEC runs the queued commands in queue order, each in its database - a queued SELECT (it
    takes effect at EXEC since 1ecc022) moves the commands after it - and each leaves its
    records as above ([run_items]: databases and log, one command after the other).  (A
    DISCARDed or WATCH-aborted queue is never run, C07, hence never logged.)  [linv]: no
    password, no connection id 0. *)
Theorem c11_exec_logs_in_order :
  forall now c q s dbi acc cn,
  linv s -> zlookup c (s_conns s) = Some cn -> c_db cn = dbi ->
  st_of (snd (exec_queue now s c dbi q acc)) = run_items now (queue_items dbi q) (st_of s).
Proof. exact exec_queue_state. Qed.
(** EVALSHA of a cached script leaves exactly the record of the EVAL of that script (whose effect
    is the EVALSHA's: Props/C12.v c12_evalsha_is_eval); a digest that names no script leaves
    nothing and changes nothing *)
Theorem c11_evalsha_logged_as_eval :
  forall t s c dbi ca nm h nk rest sha src,
  str_arg h = Some sha -> alookup (lower sha) ca = Some src ->
  s_aof (snd (h_evalsha t s c dbi ca (FBulk nm :: h :: nk :: rest))) =
  aof_push (s_aof s) dbi (FBulk (bs "EVAL") :: FBulk src :: nk :: rest).
Proof. exact evalsha_record. Qed.
Theorem c11_evalsha_unknown_not_logged :
  forall t s c dbi ca nm h nk rest sha,
  str_arg h = Some sha -> alookup (lower sha) ca = None ->
  snd (h_evalsha t s c dbi ca (FBulk nm :: h :: nk :: rest)) = s.
Proof. exact evalsha_unknown. Qed.

(** ---- 3. a served blocking pop is in the file once, where it happened ---- *)
(** [served_pop]: the element leaves the list and LPOP / RPOP key is appended under the client's
    database; as an event of a history ([EServed]) it is one executed command, the pop itself,
    in execution order - and nothing when there is no element *)
Theorem c11_served_pop_is_one_command :
  forall now s dbi lf k, linv s ->
  st_of (served_pop s dbi lf k) = run_items now (ev_items now s (EServed dbi lf k)) (st_of s).
Proof. exact served_pop_state. Qed.
Theorem c11_served_pop_record : forall now dbs dbi lf k, dcmd_recs now dbs dbi (pop_cmd lf k) None = [pop_cmd lf k].
Proof. exact pop_recs. Qed.
(** the wake-up of a waiting client by a push (Model/Blocking.v wake_client, delivery; the key has
    not expired) is that event; whatever a wake-up does - deliver from the key, put the element
    back, register the client again and notify the heads of its other keys - it appends at
    most one record, the pop of the key that served the client *)
Theorem c11_wakeup_is_served_pop :
  forall now s b u v d' cst,
  was_expired now (get_db s (u_db u)) (u_key u) = false ->
  on_key (get_db s (u_db u)) (u_key u) (e_pop (u_left u)) = (FBulk v, d') ->
  zlookup (u_conn u) (b_blk b) = Some cst ->
  fst (wake_client now s b u) = served_pop s (u_db u) (u_left u) (u_key u).
Proof. exact wake_client_served. Qed.
Theorem c11_wakeup_logs_at_most_one_pop :
  forall now s b u,
  s_aof (fst (wake_client now s b u)) = s_aof s \/
  exists lf k, s_aof (fst (wake_client now s b u)) = aof_push (s_aof s) (u_db u) (pop_cmd lf k).
Proof. exact wake_client_log. Qed.
(** BLPOP / BRPOP that finds an element at once is that event for the key that served it; one
    that finds none (and blocks, or answers nil inside EXEC) changes neither databases nor log *)
Theorem c11_blocking_pop_immediate :
  forall (lf : bool) now s b c dbi parts oms,
  no_empty_list (get_db s dbi) ->
  let s' := snd (fst (h_bpop lf now s b c dbi parts oms)) in
  (exists k v d', fst (fst (h_bpop lf now s b c dbi parts oms)) = FArray [FBulk k; FBulk v] /\
                  on_key (get_db s dbi) k (e_pop lf) = (FBulk v, d') /\
                  s' = served_pop s dbi lf k) \/
  st_of s' = st_of s.
Proof. exact bpop_immediate. Qed.

(** ---- 4. the file of a history ---- *)
(** Events with a clock reading each (connections opening and closing, request frames with the
    oracle of their random choice, pops served to waiting clients) on a password-less server:
    the file is the records of the executed commands in execution order ([trecs]: per command
    its records, each group under its database) - direct commands, the queue of every EXEC that
    ran, served pops. *)
Theorem c11_file_of_a_history :
  forall h, forallb (fun te => ev_ok (snd te)) h = true ->
  aof_log (run_tevs h) = map fst (trecs (trace_of h) dbs0 None).
Proof. exact history_file. Qed.
Theorem c11_databases_of_a_history :
  forall h, forallb (fun te => ev_ok (snd te)) h = true ->
  s_dbs (run_tevs h) = fst (run_trace (trace_of h) (dbs0, [])).
Proof. exact history_dbs. Qed.

(** WATCH never passes through the dispatch and is never logged, but since d9330f8 it expires the
    keys it registers lazily: in the trace it is an item without a command ([x_parts] = []) that
    leaves no record and removes from its database only entries of those keys whose deadline
    had passed - nothing at all on databases without expired entries, which is what both replay
    theorems ask of the live run anyway ([plain_run] / [timed_run]); the redo of the file never
    sees a WATCH. *)
Theorem c11_watch_only_expires :
  forall now dbs x, x_parts x = [] ->
  xrecs now dbs x = [] /\ xstep_dbs now dbs x = purge_dbs now dbs (x_db x) (x_purge x) /\
  (lfresh_all now dbs -> xstep_dbs now dbs x = dbs).
Proof. exact purge_only_item. Qed.

(** ---- 5. completeness of the table: what is not written changes nothing ---- *)
(** THE OBLIGATION over the generated table: a command of the modelled dispatch (strings/keys,
    lists/sets/hashes, sorted sets, streams/groups, SCAN family, scripts, PEXPIREAT) whose name
    is NOT in [Generated.write_commands] leaves the database as it was up to the lazy removal
    of entries that had already expired ([lazy_removed]).  No exception.  Removing a name from
    the Rust matches! breaks this proof at that name's branch. *)
Theorem c11_unlogged_commands_inert :
  forall now d name parts o r d',
  mem_name name write_commands = false ->
  exec_db now d name parts o = Some (r, d') -> lazy_removed now d d'.
Proof. exact exec_db_inert. Qed.
Theorem c11_unlogged_commands_inert_exact :
  forall now dbs dbi parts o,
  is_write parts = false -> lfresh_all now dbs -> step_dbs now dbs dbi parts o = dbs.
Proof. exact step_dbs_unlogged. Qed.
(** SPOP that returned nothing and XADD * that was refused leave no record - and no change *)
Theorem c11_spop_without_record :
  forall d parts o r d',
  h_spop d parts o = (r, d') -> deterministic_form (bs "SPOP") parts r = None -> ext d' d.
Proof. exact spop_quiet. Qed.
Theorem c11_xadd_without_record :
  forall d parts o r d',
  by_outcome (bs "XADD") parts = true -> h_xadd d parts o = (r, d') ->
  deterministic_form (bs "XADD") parts r = None -> d' = d.
Proof. exact xadd_quiet. Qed.

(** ---- 6. random outcomes replay to the same outcome ---- *)
(** the SREM record of an SPOP does to the database exactly what the SPOP did - whichever
    members the implementation drew (the oracle [o]) *)
Theorem c11_spop_is_the_srem_of_its_reply :
  forall d parts o r d' p,
  h_spop d parts o = (r, d') -> deterministic_form (bs "SPOP") parts r = Some p ->
  snd (h_skipping e_srem d p) = d'.
Proof. exact spop_as_srem. Qed.
(** the XADD record with the generated ID does what XADD * did, on a stream that satisfies the
    stream invariant of C15 ([stream_fit]: Proofs/StreamFacts.v SInv - it makes every generated
    ID exceed the last one, which is what XADD with an explicit ID demands) *)
Theorem c11_xadd_auto_is_the_xadd_of_its_id :
  forall d parts o r d' p,
  by_outcome (bs "XADD") parts = true ->
  (forall k, nth_error parts 1 = Some (FBulk k) -> stream_fit d k) ->
  h_xadd d parts o = (r, d') -> deterministic_form (bs "XADD") parts r = Some p ->
  snd (h_xadd d p None) = d'.
Proof. exact xadd_auto_as_explicit. Qed.

(** ---- 7. deadlines are absolute ---- *)
(** One TTL command run live at clock reading [t] and redone, with its PEXPIREAT record, at any
    later reading [now']: every key ends up with the same value and the SAME DEADLINE ([sims] =
    lookup-equivalence of the sixteen databases) - provided the state the live command left is
    without entries that are expired at [now'] (the deadline it set has not passed) and the
    deadline fits the i64 the reader parses. *)
Theorem c11_ttl_command_with_its_deadline_record :
  forall t now' d1 d2 dbi nm rest o,
  t <= now' -> ttl_recorded (upper nm) = true -> sims d1 d2 -> lfresh_all t d1 -> lfresh_all now' d2 ->
  lfresh_all now' (step_dbs t d1 dbi (FBulk nm :: rest) o) ->
  (forall k rem, nth_error (FBulk nm :: rest) 1 = Some (FBulk k) ->
     eng_ttl t (nth (Z.to_nat dbi) (step_dbs t d1 dbi (FBulk nm :: rest) o) empty_db) k = Some rem -> in_i64 (t + rem) = true) ->
  sims (step_dbs t d1 dbi (FBulk nm :: rest) o)
       (redo_dbs now' dbi ((FBulk nm :: rest, o) :: map (fun r => (r, None)) (dout_recs t d1 dbi (FBulk nm :: rest) o)) d2).
Proof. exact item_ttl. Qed.

(** ---- 8. the replay theorems ---- *)
(** (a) ANY LATER CLOCK READING.  For every history whose clock readings are at most [now'],
    whose executed commands are in the clock-independent part ([timeless]: everything except
    the consumer-group commands, the sorted-set writes and scripts), and in which NO DEADLINE
    HAS PASSED AT [now'] ([timed_run]: every state the live server went through is without
    entries expired at the time of the redo; the deadlines fit an i64), with XADD * only on
    streams that satisfy the stream invariant ([fits_run]): the redo of the file at [now'] has,
    in every one of the sixteen databases, for every key, the same value and the same deadline
    as the live server.  No hypothesis on the live run's own clock readings beyond that.
    The oracles of [trecs] are those of the events (outcome and deadline records need none). *)
Theorem c11_replay_any_time :
  forall now' h,
  forallb (fun te => ev_ok (snd te)) h = true ->
  timed_run now' (trace_of h) dbs0 = true -> fits_run (trace_of h) dbs0 ->
  aof_log (run_tevs h) = map fst (trecs (trace_of h) dbs0 None) /\
  forall i k, get_entry (nth i (s_dbs (replay_o now' (trecs (trace_of h) dbs0 None))) empty_db) k =
              get_entry (nth i (s_dbs (run_tevs h)) empty_db) k.
Proof. exact replay_any_time. Qed.
(** the same with every side condition a computable check *)
Theorem c11_replay_any_time_checked :
  forall now' h,
  forallb (fun te => ev_ok (snd te)) h = true ->
  timed_run now' (trace_of h) dbs0 = true -> fits_b (trace_of h) dbs0 = true ->
  aof_log (run_tevs h) = map fst (trecs (trace_of h) dbs0 None) /\
  forall i k, get_entry (nth i (s_dbs (replay_o now' (trecs (trace_of h) dbs0 None))) empty_db) k =
              get_entry (nth i (s_dbs (run_tevs h)) empty_db) k.
Proof. exact replay_any_time_b. Qed.
(** (b) ONE CLOCK READING, for the commands whose effect depends on the clock in ways the file does
    not record (EVAL: TTLs set inside a script; XREADGROUP / XCLAIM: the delivery time of a
    pending entry) and every other command that is logged as it was sent and leaves no other
    record ([plain_run]): redone at the clock reading of the live run, on databases without
    expired entries, the sixteen databases are EQUAL. *)
Theorem c11_replay :
  forall now h,
  forallb (fun te => ev_ok (snd te)) h = true ->
  plain_run now (trace_of h) dbs0 = true ->
  aof_log (run_tevs h) = map fst (trecs (trace_of h) dbs0 None) /\
  s_dbs (replay_o now (trecs (trace_of h) dbs0 None)) = s_dbs (run_tevs h).
Proof. exact replay_all_dbs. Qed.
(** a history whose events carry no oracle needs none for the redo: [replay_o] of [trecs] is the
    plain redo of the file *)
Theorem c11_redo_without_oracles :
  forall tr dbs last,
  forallb (fun tx => match x_or (snd tx) with None => true | Some _ => false end) tr = true ->
  trecs tr dbs last = no_oracle (map fst (trecs tr dbs last)).
Proof. exact trecs_no_oracle. Qed.
(** re-sending the records over a fresh connection (what the harness and any external redo tool
    do: through process_frame, not process_normal_command) IS the redo *)
Theorem c11_resend_is_replay :
  forall now log, forallb (fun po => file_record (fst po)) log = true -> resend now log = replay_o now log.
Proof. exact resend_is_replay. Qed.
Theorem c11_resend_of_a_history :
  forall now h, resend now (trecs (trace_of h) dbs0 None) = replay_o now (trecs (trace_of h) dbs0 None).
Proof. exact history_resend. Qed.

(** ---- 9. start-up ---- *)
(** after a restart the dataset is the redo of the file, and the file is kept *)
Theorem c11_restart_is_the_redo_of_the_file :
  forall now s ol, s_dbs (restart_o now s ol) = s_dbs (replay_o now ol) /\ aof_log (restart_o now s ol) = aof_log s.
Proof. exact restart_redo_and_file. Qed.
(** hence, under the conditions of the any-time theorem, a restart at any later clock reading
    brings every key of every database back with its value and its deadline *)
Theorem c11_restart_recovers :
  forall now' h,
  forallb (fun te => ev_ok (snd te)) h = true ->
  timed_run now' (trace_of h) dbs0 = true -> fits_run (trace_of h) dbs0 ->
  forall i k, get_entry (nth i (s_dbs (restart_o now' (run_tevs h) (trecs (trace_of h) dbs0 None))) empty_db) k =
              get_entry (nth i (s_dbs (run_tevs h)) empty_db) k.
Proof. exact restart_recovers. Qed.

(** ---- 10. what is still open ---- *)
(** REFUTED without the hypothesis on the deadlines: SET k v PX 300 at 0, RENAME k j at 100,
    PERSIST j at 200.  Live: j = v, persistent.  Redo at 600: k is set, PEXPIREAT k 300 deletes
    it (the deadline has passed), RENAME fails, there is no j.  Every other condition of
    [c11_replay_any_time] holds; before the deadline (redo at 250) the redo is faithful.  No DEL
    is written when a key expires, so the file cannot tell the redo that j outlived k. *)
Theorem c11_expiry_unlogged_refuted :
  get_entry (nth 0 (s_dbs (run_tevs expiry_history)) empty_db) (bs "j") = Some {| e_val := VStr (bs "v"); e_exp := None |} /\
  get_entry (nth 0 (s_dbs (replay_o 600 (trecs (trace_of expiry_history) dbs0 None))) empty_db) (bs "j") = None /\
  forallb (fun te => ev_ok (snd te)) expiry_history = true /\
  fits_b (trace_of expiry_history) dbs0 = true /\
  timed_run 600 (trace_of expiry_history) dbs0 = false /\
  timed_run 250 (trace_of expiry_history) dbs0 = true.
Proof. exact expiry_unlogged_diverges. Qed.
(** the same class without RENAME: SET q z EX 1 at 0, PEXPIRE q 500000 at 500; the redo at 2000
    deletes q at its first deadline record and finds nothing to extend *)
Theorem c11_expiry_extended_refuted :
  get_entry (nth 0 (s_dbs (run_tevs extended_history)) empty_db) (bs "q") = Some {| e_val := VStr (bs "z"); e_exp := Some 500500 |} /\
  get_entry (nth 0 (s_dbs (replay_o 2000 (trecs (trace_of extended_history) dbs0 None))) empty_db) (bs "q") = None /\
  timed_run 2000 (trace_of extended_history) dbs0 = false.
Proof. exact expiry_extended_diverges. Qed.

(** ---- examples (non-vacuity) ---- *)
(** one clock reading: formerly unlogged writers, three databases, a consumer group, a script,
    a transaction with a queued SELECT: 15 records, and the redo equals the live server *)
Example c11_replay_sample :
  s_dbs (replay_o 7 (trecs (trace_of plain_history) dbs0 None)) = s_dbs (run_tevs plain_history) /\
  len (aof_log (run_tevs plain_history)) = 15 /\
  len (d_data (nth 0 (s_dbs (run_tevs plain_history)) empty_db)) = 4.
Proof. exact plain_sample. Qed.
(** clock readings over an hour, deadlines, SPOP and XADD * with their reported outcomes, a
    served pop, a client's PEXPIREAT; redone a day later: the same values and deadlines *)
Example c11_replay_any_time_sample :
  (forall i k, get_entry (nth i (s_dbs (replay_o day (trecs (trace_of timed_history) dbs0 None))) empty_db) k =
               get_entry (nth i (s_dbs (run_tevs timed_history)) empty_db) k) /\
  len (aof_log (run_tevs timed_history)) = 22 /\
  In [FBulk (bs "SREM"); FBulk (bs "s"); FBulk (bs "a"); FBulk (bs "c")] (aof_log (run_tevs timed_history)) /\
  In [FBulk (bs "XADD"); FBulk (bs "x"); FBulk (bs "1800-0"); FBulk (bs "f"); FBulk (bs "v")] (aof_log (run_tevs timed_history)) /\
  In [FBulk (bs "LPOP"); FBulk (bs "l")] (aof_log (run_tevs timed_history)) /\
  In [FBulk (bs "PEXPIREAT"); FBulk (bs "k"); FBulk (bs "100001000")] (aof_log (run_tevs timed_history)).
Proof. exact timed_sample. Qed.
(** the same history recovered by a restart a day later *)
Example c11_restart_sample :
  forall i k, get_entry (nth i (s_dbs (restart_o day (run_tevs timed_history) (trecs (trace_of timed_history) dbs0 None))) empty_db) k =
              get_entry (nth i (s_dbs (run_tevs timed_history)) empty_db) k.
Proof. exact restart_sample. Qed.
