(** C11 - The append-only file is a faithful redo log.
    Statements only; proofs in Proofs/AofFacts.v.  Model: Model/Aof.v (the bytes of the
    file, redo, start-up as the code has it) on top of Model/Server.v, whose [s_aof] is
    appended by process_normal_command BEFORE dispatch whenever the upper-cased command
    name is in [Generated.write_commands] (regenerated from server.rs is_write_command on
    every run), whatever the outcome.

    The property as stated is largely REFUTED on this tree.  What holds is proved for all
    histories; each refuted part is a class with a witness theorem here, a witness replayed
    on the binary (known_findings.json) and, where a one-line fix exists, a patch:
      unlogged-getset / -hmset / -pexpire / -xreadgroup   state-changing commands missing from the table
      no-select-in-log       commands issued in database n > 0 are replayed into database 0
      expired-unlogged       lazy removal of an expired key is not logged; TTLs are logged relative
      random-verbatim        SPOP and XADD * are logged as sent, not as their outcome
      startup-replay-noop    AofEngine::load executes nothing: the dataset is empty after a restart
      startup-nonutf8-abort  a file that is not UTF-8 text stops the server from starting
    (binary only, outside the model of this branch: pops served by BLPOP/BRPOP are not logged,
    EVALSHA is logged by hash.) *)
From Ferrous Require Import Base.Bytes Generated Model.Resp Model.Types Model.Strings Model.Server
  Model.Conn Model.Aof Proofs.ConnFacts Proofs.ServerFacts Proofs.AofFacts Proofs.AofTimeFacts.
Open Scope Z_scope.

(** ---- 1. the file is at all times a sequence of complete RESP command frames ---- *)
(** Decoding the file with the RESP reader gives back exactly the logged commands, in
    order, and ends on a frame boundary with no byte left over - for every log of
    commands that can arrive from the wire ([wire_cmd]: frames the codec round-trips). *)
Theorem c11_file_is_whole_frames :
  forall log, Forall wire_cmd log -> aof_decode (aof_file log) = (map FArray log, NeedMore, []).
Proof. exact aof_decode_log. Qed.
(** Every append adds one whole frame: after it the file decodes to the old commands
    followed by the new one. *)
Theorem c11_append_is_one_frame :
  forall log p, Forall wire_cmd log -> wire_cmd p ->
  aof_decode (aof_file log ++ aof_frame p) = (map FArray log ++ [FArray p], NeedMore, []).
Proof. exact aof_append_whole. Qed.
(** commands made of bulk strings - arbitrary bytes, CR LF included - are wire commands *)
Theorem c11_bulk_commands_are_wire :
  forall args, len args <= i64_max -> Forall (fun a => len a <= i64_max) args -> wire_cmd (map FBulk args).
Proof. exact bulk_cmd_wire. Qed.

(** ---- 2. logging discipline: once, in execution order, decided by the table ---- *)
(** process_normal_command appends the command exactly once iff its name is in the
    generated table - before dispatch, so whether or not it then succeeds. *)
Theorem c11_logged_once_by_table :
  forall now s c dbi parts o,
  s_aof (snd (normal_command now s c dbi parts o)) = if is_logged parts then parts :: s_aof s else s_aof s.
Proof. exact nc_aof. Qed.
(** EXEC appends the queued write commands in queue order, each once (a DISCARDed or
    WATCH-aborted queue is never run, C07, hence never logged). *)
Theorem c11_exec_logs_in_order :
  forall now dbi q s acc,
  s_aof (snd (exec_queue now s dbi q acc)) = rev (filter is_logged q) ++ s_aof s.
Proof. exact exec_queue_aof. Qed.

(** ---- 3. completeness of the table ---- *)
(** Every command of the modelled dispatch (string/key family, lists/sets/hashes,
    streams/groups, SCAN family) whose name is NOT in [Generated.write_commands] leaves
    the database unchanged up to lazy removal of already-expired entries - except the four
    names of [unlogged_writers], refuted below.  The proof walks the dispatchers name by
    name and evaluates the generated table at each: deleting a name from the Rust
    [matches!] breaks it at that name. *)
Theorem c11_unlogged_commands_inert :
  forall now d name parts o r d',
  mem_name name write_commands = false -> mem_name name unlogged_writers = false ->
  exec_db now d name parts o = Some (r, d') -> lazy_removed now d d'.
Proof. exact exec_db_inert. Qed.
(** ... and exactly unchanged when no entry has expired *)
Theorem c11_unlogged_commands_inert_exact :
  forall now d name parts o r d',
  mem_name name write_commands = false -> mem_name name unlogged_writers = false ->
  fresh now d = true -> exec_db now d name parts o = Some (r, d') -> d' = d.
Proof. exact exec_db_inert_fresh. Qed.
(** REFUTED for GETSET, HMSET, PEXPIRE, XREADGROUP: none is in the table, each changes a
    database in a way lazy expiry cannot (classes unlogged-<name>). *)
Theorem c11_unlogged_writers_refuted :
  forallb (fun n => negb (mem_name n write_commands)) unlogged_writers = true /\
  (exists d parts r d', exec_db 0 d (bs "GETSET") parts None = Some (r, d') /\ ~ lazy_removed 0 d d') /\
  (exists d parts r d', exec_db 0 d (bs "HMSET") parts None = Some (r, d') /\ ~ lazy_removed 0 d d') /\
  (exists d parts r d', exec_db 0 d (bs "PEXPIRE") parts None = Some (r, d') /\ ~ lazy_removed 0 d d') /\
  (exists d parts r d', exec_db 0 d (bs "XREADGROUP") parts None = Some (r, d') /\ ~ lazy_removed 0 d d').
Proof. exact unlogged_writers_not_inert. Qed.

(** ---- 4. the replay theorem ---- *)
(** For EVERY history - any number of connections, connects and disconnects, commands
    sent directly or queued under MULTI and run by EXEC (or dropped by DISCARD / a WATCH
    abort), valid or refused - whose commands are in the domain [cmd_ok] (not SELECT, not
    one of the four unlogged writers, not SPOP, not XADD with an auto ID) and in which the
    logged commands never leave an already-expired entry behind ([fresh_replay]: e.g. no
    zero TTL), re-executing the file in order on an empty server yields database 0 of the
    live server: same keys, same values, same deadlines - a fortiori the same [dataset]
    (values and TTL presence).
    Clock: here the history and the redo are taken at one clock reading [now] (any) and the
    databases are EQUAL, deadlines included; c11_replay_any_time below lets every event and
    the redo have their own reading and concludes equality of [dataset] (deadlines are logged
    as relative TTLs; class expired-unlogged covers what goes wrong when a key does expire). *)
Theorem c11_replay :
  forall now h,
  forallb ev_ok h = true -> fresh_replay now (aof_log (run_evs now h)) = true ->
  get_db (replay now (aof_log (run_evs now h))) 0 = get_db (run_evs now h) 0.
Proof. exact replay_db0. Qed.
Theorem c11_replay_dataset :
  forall now h,
  forallb ev_ok h = true -> fresh_replay now (aof_log (run_evs now h)) = true ->
  dataset (get_db (replay now (aof_log (run_evs now h))) 0) = dataset (get_db (run_evs now h) 0).
Proof. exact replay_dataset. Qed.
(** non-vacuity: two connections, a transaction containing a refused command and a read,
    TTLs, a stream, a pop - hypotheses hold, seven commands in the file, four keys live *)
Example c11_replay_sample :
  forallb ev_ok sample_history = true /\ fresh_replay 0 (aof_log (run_evs 0 sample_history)) = true /\
  len (aof_log (run_evs 0 sample_history)) = 7 /\ len (d_data (get_db (run_evs 0 sample_history) 0)) = 4.
Proof. exact sample_history_ok. Qed.

(** ---- 4b. the replay theorem with a clock ---- *)
(** One command at two clock readings: on databases that agree on keys, values and TTL
    presence ([sim]) and hold no expired entry at their respective readings, every command of
    the modelled dispatch except the four that stamp the clock into the value (XGROUP,
    XREADGROUP, XACK, XCLAIM: delivery times of pending entries) yields databases that agree
    again.  All 29 string/key commands, all 31 list/set/hash commands, XADD / XTRIM / XDEL,
    the stream reads and the SCAN family, FLUSHALL. *)
Theorem c11_clock_invisible_without_expiry :
  forall t1 t2 d1 d2 parts o,
  mem_name (cmd_name parts) clocked_cmds = false ->
  sim d1 d2 -> fresh t1 d1 = true -> fresh t2 d2 = true ->
  sim (step_db0 t1 d1 parts o) (step_db0 t2 d2 parts o).
Proof. exact step_db0_sim. Qed.
(** For EVERY history with a clock reading per event (connections, MULTI/EXEC, DISCARD,
    WATCH aborts, refused commands, as in c11_replay) over the domain [timeless] (= [cmd_ok]
    minus the four clock-stamping group commands), and a redo at ANY reading [now']:
    if no entry has expired at the moment a command runs - live ([live_fresh], along the
    executed commands [trace_of h], each at its event's reading) and in the redo ([redo_fresh]) -
    then the file is exactly the logged commands of the trace and re-executing it yields the
    live dataset: same keys, same values, same TTL presence.  (Deadlines differ: relative TTLs.) *)
Theorem c11_replay_any_time :
  forall h now',
  forallb (fun te => ev_okT (snd te)) h = true ->
  live_fresh (trace_of h) empty_db = true ->
  redo_fresh now' (logged_of (trace_of h)) empty_db = true ->
  aof_log (run_tevs h) = logged_of (trace_of h) /\
  dataset (get_db (replay now' (aof_log (run_tevs h))) 0) = dataset (get_db (run_tevs h) 0).
Proof. exact replay_any_time. Qed.
(** non-vacuity: events spread over an hour, three TTLs, a transaction run an hour after it
    was queued, the redo a day later: hypotheses hold, six commands in the file, and the two
    databases are NOT equal (deadlines) although their datasets are *)
Example c11_replay_any_time_sample :
  forallb (fun te => ev_okT (snd te)) sample_timed = true /\
  live_fresh (trace_of sample_timed) empty_db = true /\
  redo_fresh 86400000 (logged_of (trace_of sample_timed)) empty_db = true /\
  len (logged_of (trace_of sample_timed)) = 6 /\
  get_db (replay 86400000 (aof_log (run_tevs sample_timed))) 0 <> get_db (run_tevs sample_timed) 0.
Proof. exact sample_timed_ok. Qed.

(** Re-sending the logged commands as request frames over a fresh connection - what the
    harness's AOFREPLAY and any external redo tool do - is [replay]: a logged name is never
    transaction control and has no blanks (checked over the generated table), so each frame
    goes straight to process_normal_command in database 0. *)
Theorem c11_resend_is_replay :
  forall now log, forallb is_logged log = true -> resend now log = replay now log.
Proof. exact resend_is_replay. Qed.
(** ... and the file of a history consists of logged commands only *)
Theorem c11_file_holds_logged_commands_only :
  forall tr, forallb is_logged (logged_of tr) = true.
Proof. exact logged_of_all_logged. Qed.

(** ---- 5. refutations: one witness per class ---- *)
Theorem c11_unlogged_getset_refuted :
  diverges 0 (hist [[bs "SET"; bs "k"; bs "a"]; [bs "GETSET"; bs "k"; bs "b"]]).
Proof. exact getset_diverges. Qed.
Theorem c11_unlogged_hmset_refuted : diverges 0 (hist [[bs "HMSET"; bs "h"; bs "f"; bs "1"]]).
Proof. exact hmset_diverges. Qed.
Theorem c11_unlogged_pexpire_refuted :
  diverges 0 (hist [[bs "SET"; bs "k"; bs "a"]; [bs "PEXPIRE"; bs "k"; bs "100000"]]).
Proof. exact pexpire_diverges. Qed.
Theorem c11_unlogged_xreadgroup_refuted :
  diverges 0 (hist [[bs "XADD"; bs "x"; bs "1-1"; bs "f"; bs "v"]; [bs "XGROUP"; bs "CREATE"; bs "x"; bs "g"; bs "0"];
                    [bs "XREADGROUP"; bs "GROUP"; bs "g"; bs "c"; bs "STREAMS"; bs "x"; bs ">"]]).
Proof. exact xreadgroup_diverges. Qed.
(** no SELECT in the log *)
Theorem c11_no_select_refuted : diverges 0 (hist [[bs "SELECT"; bs "1"]; [bs "SET"; bs "k"; bs "a"]]).
Proof. exact select_diverges. Qed.
(** an expired key removed by a read: every command is in the domain, only [fresh_replay]
    fails - the hypothesis of c11_replay is necessary *)
Theorem c11_expired_unlogged_refuted :
  diverges 0 expired_history /\ forallb ev_ok expired_history = true /\
  fresh_replay 0 (aof_log (run_evs 0 expired_history)) = false.
Proof. exact expired_diverges. Qed.
(** random outcomes logged verbatim: two admissible outcomes, one file, two datasets *)
Theorem c11_random_spop_refuted :
  let s := run_evs 0 (hist [[bs "SADD"; bs "s"; bs "a"; bs "b"]]) in
  let s1 := snd (process_frame 0 s 1 (cmd [bs "SPOP"; bs "s"]) (Some (FBulk (bs "a")))) in
  let s2 := snd (process_frame 0 s 1 (cmd [bs "SPOP"; bs "s"]) (Some (FBulk (bs "b")))) in
  aof_log s1 = aof_log s2 /\ get_db s1 0 <> get_db s2 0 /\
  is_error (fst (process_frame 0 s 1 (cmd [bs "SPOP"; bs "s"]) (Some (FBulk (bs "a"))))) = false /\
  is_error (fst (process_frame 0 s 1 (cmd [bs "SPOP"; bs "s"]) (Some (FBulk (bs "b"))))) = false.
Proof. exact spop_verbatim. Qed.
Theorem c11_random_xadd_refuted :
  let s := run_evs 0 (hist []) in
  let q := cmd [bs "XADD"; bs "x"; bs "*"; bs "f"; bs "v"] in
  let s1 := snd (process_frame 0 s 1 q (Some (FBulk (bs "1700000000000-0")))) in
  let s2 := snd (process_frame 0 s 1 q (Some (FBulk (bs "1700000000001-0")))) in
  aof_log s1 = aof_log s2 /\ get_db s1 0 <> get_db s2 0 /\
  fst (process_frame 0 s 1 q (Some (FBulk (bs "1700000000000-0")))) = FBulk (bs "1700000000000-0") /\
  fst (process_frame 0 s 1 q (Some (FBulk (bs "1700000000001-0")))) = FBulk (bs "1700000000001-0").
Proof. exact xadd_auto_verbatim. Qed.
(** start-up replay executes nothing; a binary value in the file aborts start-up *)
Theorem c11_startup_replay_noop_refuted :
  let s := run_evs 0 (hist [[bs "SET"; bs "k"; bs "a"]; [bs "RPUSH"; bs "l"; bs "x"]]) in
  exists s', restart s = Some s' /\ get_db s' 0 = empty_db /\ get_db s 0 <> empty_db /\ aof_log s' = aof_log s.
Proof. exact restart_loses_dataset. Qed.
Theorem c11_startup_nonutf8_refuted :
  restart (run_evs 0 (hist [[bs "SET"; bs "k"; [255]]])) = None.
Proof. exact restart_fails_on_binary. Qed.
