(** C12 - Scripts are atomic and redis.call means the same as the direct command.
    Statements only; proofs in Proofs/ExecFacts.v and Proofs/LuaFacts.v.
    Models: Model/Exec.v (the unified executor of redis.call), Model/Lua.v (script layer),
    Model/RunLua.v (script cache, EVALSHA), Model/Strings.v / Model/Lists.v (direct handlers).
    Lua itself is not modelled: scripts are the terms of the DSL of Model/Lua.v. *)
From Ferrous Require Import Base.Bytes Generated Model.Resp Model.Types Model.Utf8 Model.Strings Model.Lists Model.Streams
  Model.Exec Model.Lua Model.Server Model.RunLua Proofs.ExecFacts Proofs.LuaFacts.
Open Scope Z_scope.

(** ** redis.call means the same as the direct command (two code-shaped models proved equal)

    For every database [d], instant [now], command name of the catalogue (58 commands of the string /
    key / list / set / hash families) and EVERY argument list (arguments are bytes: binary safe since
    a6ba253), outside [known] the executor answers the reply and leaves the database that the direct
    handler does.  [known] is what the DIRECT handlers lack: they refuse the empty key for SET GET INCR
    INCRBY (C01 empty-key) and SET has no GET / KEEPTTL option there; and TYPE (status vs bulk: equal as
    Lua values, [c12_parity_type]).  DECRBY i64::MIN, EXPIRE <= 0, TTL, RENAMENX, SET NX+XX and the
    arity of DBSIZE / FLUSHDB were classes until the repairs 64d6383 e21bda2 b212584 3909ba7. *)
Theorem c12_parity :
  forall now d nm args,
  In (upper nm) Exec.catalogue ->
  known now d (upper nm) args = false ->
  Some (exec_run now d (bulks (nm :: args)) None) = exec_db now d (upper nm) (bulks (nm :: args)) None.
Proof. exact parity. Qed.

Theorem c12_parity_type :
  forall now d F args pc,
  let r1 := via now d (parse_k XType (F :: bulks args)) in
  let r2 := h_type d (F :: bulks args) in
  snd r1 = snd r2 /\ resp_to_lua pc (fst r1) = resp_to_lua pc (fst r2).
Proof. exact parity_type_conv. Qed.

(** ... hence, at the level of scripts: redis.call / redis.pcall of a catalogue command, its
    result returned, has the dataset effect of the directly sent command and answers the
    direct reply pushed through the two conversions (an error: abort under call, nil under pcall) *)
Theorem c12_call_same_as_direct :
  forall now d keys argv pc nm args r d',
  In (upper nm) Exec.catalogue ->
  (* the database both paths work on: after the lazy expiry that precedes every command,
     sent directly or called from a script (bdd75e8) *)
  let d0 := fst (expire_before now d (upper nm) (bulks (nm :: args))) in
  known now d0 (upper nm) args = false ->
  exec_db now d0 (upper nm) (bulks (nm :: args)) None = Some (r, d') ->
  run_script now d keys argv (single_call pc (nm :: args)) =
    (match resp_to_lua pc r with CVal v => lua_to_resp v | CErr m => FError m end, d').
Proof. exact call_same_as_direct. Qed.

(** the classes are genuine: on each of them the two paths differ *)
Definition d_k : db := set_value 0 empty_db (bs "k") (VStr (bs "v")) None.
Definition d_kt : db := set_value 0 empty_db (bs "k") (VStr (bs "v")) (Some 100500).
Definition both (now : Z) (d : db) (l : list bytes) : (frame * db) * option (frame * db) :=
  (exec_run now d (bulks l) None, match l with nm :: _ => exec_db now d (upper nm) (bulks l) None | [] => None end).

Example c12_parity_set_nx_xx :            (* since f4c6282 both paths refuse NX together with XX *)
  both 0 d_k [bs "SET"; bs "k"; bs "w"; bs "NX"; bs "XX"] = ((r_err, d_k), Some (r_err, d_k)).
Proof. vm_compute. reflexivity. Qed.
(** what only the executor has: SET .. GET and SET .. KEEPTTL (a syntax error when sent directly) *)
Example c12_parity_set_get_only_in_scripts :
  fst (fst (both 0 d_k [bs "SET"; bs "k"; bs "w"; bs "GET"])) = FBulk (bs "v") /\
  snd (both 0 d_k [bs "SET"; bs "k"; bs "w"; bs "GET"]) = Some (r_err, d_k).
Proof. vm_compute. split; reflexivity. Qed.
Example c12_set_keepttl_honoured :        (* since b212584 the deadline survives, and KEEPTTL with EX is refused *)
  e_exp (match get_entry (snd (fst (both 0 d_kt [bs "SET"; bs "k"; bs "w"; bs "KEEPTTL"]))) (bs "k") with
         | Some e => e | None => {| e_val := VStr []; e_exp := None |} end) = Some 100500 /\
  fst (fst (both 0 d_kt [bs "SET"; bs "k"; bs "w"; bs "KEEPTTL"; bs "EX"; bs "5"])) = r_err.
Proof. vm_compute. split; reflexivity. Qed.
Example c12_parity_empty_key_refuted :
  fst (fst (both 0 empty_db [bs "SET"; []; bs "v"])) = r_ok /\
  snd (both 0 empty_db [bs "SET"; []; bs "v"]) = Some (r_err, empty_db).
Proof. vm_compute. split; reflexivity. Qed.
Example c12_parity_type_refuted :
  both 0 d_k [bs "TYPE"; bs "k"] = ((FBulk (bs "string"), d_k), Some (FSimple (bs "string"), d_k)).
Proof. vm_compute. reflexivity. Qed.
Example c12_parity_arity :                (* since 3909ba7 both paths refuse extra arguments *)
  both 0 d_k [bs "DBSIZE"; bs "x"] = ((r_err, d_k), Some (r_err, d_k)).
Proof. vm_compute. reflexivity. Qed.
(** stream commands (modelled in the executor, tied by the twin histories, not yet in the parity catalogue):
    since 0b05118 the option tails reach the direct handlers *)
Definition d_x : db :=
  snd (h_xadd (snd (h_xadd empty_db (bulks [bs "XADD"; bs "x"; bs "1-1"; bs "f"; bs "v"]) None))
              (bulks [bs "XADD"; bs "x"; bs "2-1"; bs "f"; bs "v"]) None).
Example c12_stream_options :
  option_map fst (Some (fst (both 0 d_x [bs "XTRIM"; bs "x"; bs "MAXLEN"; bs "~"; bs "1"]))) =
  option_map fst (snd (both 0 d_x [bs "XTRIM"; bs "x"; bs "MAXLEN"; bs "~"; bs "1"])).
Proof. vm_compute. reflexivity. Qed.

(** non-vacuity: the hypotheses of [c12_parity] hold for an ordinary call *)
Example c12_parity_applies :               (* a binary value is fine *)
  In (upper (bs "set")) Exec.catalogue /\ known 0 d_k (upper (bs "set")) [bs "k"; [0; 255]; bs "EX"; bs "10"] = false.
Proof. split; [vm_compute; tauto|vm_compute; reflexivity]. Qed.

(** ** the conversions

    RESP -> Lua -> RESP gives the reply back unchanged EXACTLY on [conv_safe]: the null bulk; every
    bulk string (bytes); integers that survive the trip through a double (every |i| < 2^53, and
    i64::MAX through the saturating cast); under redis.pcall an error reply that carries an error code;
    arrays - empty ones included - of such values without nil.  Outside it: the three classes
    pinned by the repository's own tests (status reply -> bulk, nil inside an array cuts it; and in
    the other direction false -> 0), what Lua numbers cannot carry, the null array. *)
Theorem c12_conv_roundtrip :
  forall pc f, conv_safe pc f = true <-> exists v, resp_to_lua pc f = CVal v /\ lua_to_resp v = f.
Proof. exact conv_exact. Qed.
Theorem c12_conv_safe_leaves :
  (forall i, Z.abs i < two53 -> int_ok i = true) /\ int_ok i64_max = true /\
  (forall b, has_error_code b = true -> utf8_valid b = true -> err_ok b = true).
Proof. exact (conj int_ok_small (conj int_ok_max err_ok_coded)). Qed.

Definition back (pc : bool) (f : frame) : option frame :=
  match resp_to_lua pc f with CVal v => Some (lua_to_resp v) | CErr _ => None end.
(** the pinned classes (known_findings.json: open, cannot be repaired without editing a cargo test) *)
Example c12_conv_status_refuted : back false (FSimple (bs "OK")) = Some (FBulk (bs "OK")).
Proof. vm_compute. reflexivity. Qed.
Example c12_conv_nil_truncates_refuted :   (* MGET a nokey c answers [a] *)
  back false (FArray [FBulk (bs "a"); FNullBulk; FBulk (bs "c")]) = Some (FArray [FBulk (bs "a")]).
Proof. vm_compute. reflexivity. Qed.
Example c12_conv_false_refuted : lua_to_resp (LBool false) = FInt 0.
Proof. reflexivity. Qed.
(** the rest of the complement *)
Example c12_conv_null_array : back false FNullArray = Some FNullBulk.
Proof. vm_compute. reflexivity. Qed.
Example c12_conv_big_int : back false (FInt 9007199254740993) = Some (FInt 9007199254740992).
Proof. vm_compute. reflexivity. Qed.
(** repaired: empty arrays, binary bulks, error codes, pcall's error value, numbers *)
Example c12_conv_repaired :
  back false (FArray []) = Some (FArray []) /\ back false (FBulk [0; 255]) = Some (FBulk [0; 255]) /\
  resp_to_lua false r_wrongtype = CErr (bs "WRONGTYPE") /\ back true r_wrongtype = Some r_wrongtype /\
  lua_to_resp (LNum true (bs "1") (bs "5")) = FInt (-1) /\ lua_to_resp (LTable []) = FArray [].
Proof. vm_compute. repeat split; reflexivity. Qed.
Example c12_conv_safe_nonvacuous :
  conv_safe true (FArray [FBulk [255]; FInt 9007199254740991; FArray []; FArray [FInt (-1); r_wrongtype]]) = true.
Proof. vm_compute. reflexivity. Qed.

(** ** call aborts with the command's own error, pcall returns an error value and continues, effects persist *)
Theorem c12_call_aborts :
  forall now d keys argv pre args rest rt res d1 d2 m,
  run_body now d keys argv [] pre = (BOk res, d1) ->
  call_cmd now d1 false (map (eval {| e_keys := keys; e_argv := argv; e_res := res |}) args) = (CErr m, d2) ->
  run_script now d keys argv {| s_body := pre ++ SCall false args :: rest; s_ret := rt |} = (FError m, d2).
Proof. exact call_aborts. Qed.
(** [m] is the failing command's own error: code and text (an error that starts with a code is kept as it is) *)
Theorem c12_call_error_is_the_commands :
  forall now d nm rest b d',
  blocked (upper (utf8_lossy nm)) = false ->
  exec_run now (fst (expire_before now d (upper nm) (map FBulk (nm :: rest)))) (map FBulk (nm :: rest)) None = (FError b, d') ->
  call_cmd now d false (map LStr (nm :: rest)) = (CErr (fmt_err (utf8_lossy b)), d') /\
  call_cmd now d true (map LStr (nm :: rest)) = (CVal (LErr (fmt_err (utf8_lossy b))), d') /\
  (has_error_code b = true -> utf8_valid b = true -> fmt_err (utf8_lossy b) = b).
Proof. exact call_error_is_the_commands. Qed.

Theorem c12_pcall_continues :
  forall now d keys argv res args rest,
  exists v d', call_cmd now d true (map (eval {| e_keys := keys; e_argv := argv; e_res := res |}) args) = (CVal v, d') /\
    run_body now d keys argv res (SCall true args :: rest) = run_body now d' keys argv (res ++ [v]) rest.
Proof. exact pcall_continues. Qed.

(** effects persist: what ran before the failing call stays (a script: SET k2 x; LPUSH k2 y; SET k3 z) *)
Definition abort_script : script :=
  {| s_body := [SCall false [EStr (bs "SET"); EStr (bs "k2"); EStr (bs "x")];
                SCall false [EStr (bs "LPUSH"); EStr (bs "k2"); EStr (bs "y")];
                SCall false [EStr (bs "SET"); EStr (bs "k3"); EStr (bs "z")]];
     s_ret := RAll |}.
Example c12_effects_persist :
  run_script 0 empty_db [] [] abort_script = (r_wrongtype, set_value 0 empty_db (bs "k2") (VStr (bs "x")) None).
Proof. vm_compute. reflexivity. Qed.

(** ** one script = one step of the server *)
Theorem c12_script_atomic :
  forall now s c dbi parts nm,
  upper nm = bs "EVAL" -> parts = FBulk nm :: tl parts ->
  let s1 := lazy_expire now s dbi (bs "EVAL") parts in      (* the lazy expiry every command starts with *)
  let r := h_eval now (get_db s1 dbi) parts in
  let s' := snd (normal_command now s c dbi parts None) in
  fst (normal_command now s c dbi parts None) = fst r /\
  s_conns s' = s_conns s /\ s_password s' = s_password s /\
  (forall j, j <> Z.to_nat dbi -> nth j (s_dbs s') empty_db = nth j (s_dbs s) empty_db) /\
  ((Z.to_nat dbi < length (s_dbs s))%nat -> get_db s' dbi = snd r).
Proof. exact script_one_step. Qed.

(** ** EVALSHA = EVAL of the cached source, in whatever database is selected; EVALSHA after EVAL works *)
Theorem c12_evalsha_eq_eval :
  forall t s c dbi ca nm sha nk rest src,
  upper nm = bs "EVALSHA" -> utf8_valid sha = true -> alookup (lower sha) ca = Some src ->
  let r1 := h_evalsha t s c dbi ca (FBulk nm :: FBulk sha :: nk :: rest) in
  let r2 := normal_command t s c dbi (FBulk (bs "EVAL") :: FBulk src :: nk :: rest) None in
  fst r1 = fst r2 /\ s_dbs (snd r1) = s_dbs (snd r2) /\ s_conns (snd r1) = s_conns (snd r2).
Proof. exact evalsha_eq_eval. Qed.
(** EVAL of a script that compiles and is not cached yet adds it under its digest; EVALSHA then finds it,
    whatever the letter case of the digest *)
Theorem c12_evalsha_after_eval :
  forall ca nm src rest sha ca',
  utf8_valid src = true -> compile src = CompYes ->
  existsb (fun e => beq (snd e) src) ca = false ->
  eval_caches ca (FBulk nm :: FBulk src :: rest) (Some (FBulk sha)) = Some ca' ->
  is_sha sha = true /\ alookup (lower sha) ca' = Some src.
Proof. exact evalsha_after_eval. Qed.

Definition set_src : bytes :=
  bs "local r={}" ++ [10] ++ bs "r[1]=redis.call(""\083\069\084"",KEYS[1],ARGV[1])" ++ [10] ++ bs "return r[1]".
Definition sha0 : bytes := bs "0000000000000000000000000000000000000000".
Definition s_db1 : server :=
  snd (process_frame 0 (connect (init_server None) 1) 1 (FArray [FBulk (bs "SELECT"); FBulk (bs "1")]) None).
Example c12_evalsha_selected_db :        (* connection 1 has database 1 selected: the script writes there *)
  let r := h_evalsha 0 s_db1 1 1 [(sha0, set_src)] (bulks [bs "EVALSHA"; sha0; bs "1"; bs "k"; bs "v"]) in
  fst r = FBulk (bs "OK") /\
  amem (bs "k") (d_data (get_db (snd r) 0)) = false /\ amem (bs "k") (d_data (get_db (snd r) 1)) = true.
Proof. vm_compute. repeat split; reflexivity. Qed.

(** ** KEYS, ARGV and the arguments of redis.call are bytes (a6ba253) *)
Theorem c12_keys_bytes :
  forall keys argv res i k, nth1 i keys = Some k ->
  eval {| e_keys := keys; e_argv := argv; e_res := res |} (EKeys i) = LStr k.
Proof. exact keys_bytes. Qed.
Theorem c12_argv_bytes :
  forall keys argv res i a, nth1 i argv = Some a ->
  eval {| e_keys := keys; e_argv := argv; e_res := res |} (EArgv i) = LStr a.
Proof. exact argv_bytes. Qed.
Theorem c12_call_args_bytes :
  forall en l, marshal_args (map (eval en) (map EStr l)) = Some l.
Proof. exact call_args_bytes. Qed.
Example c12_binary_round_trip :
  fst (run_script 0 empty_db [[255; 107]] [[0; 254]]
         {| s_body := [SCall false [EStr (bs "SET"); EKeys 1; EArgv 1]; SCall false [EStr (bs "GET"); EKeys 1]];
            s_ret := RVal (ERes 2) |}) = FBulk [0; 254].
Proof. vm_compute. reflexivity. Qed.

(** ** sandbox (tables regenerated from lua_engine.rs on every run) *)
Theorem c12_sandbox :
  forallb (fun g => bmem g lua_removed_globals && negb (global_present g))
          (map bs ["os"; "io"; "debug"; "package"; "require"; "dofile"; "loadfile"; "load"]%string) = true.
Proof. vm_compute. reflexivity. Qed.
(** blocking, pub/sub, transaction, connection and scripting commands are refused *)
Theorem c12_blocked_superset :
  forallb blocked
    (map bs ["BLPOP"; "BRPOP"; "BZPOPMIN"; "BZPOPMAX"; "SUBSCRIBE"; "UNSUBSCRIBE"; "PSUBSCRIBE"; "PUNSUBSCRIBE"; "PUBSUB";
             "MULTI"; "EXEC"; "DISCARD"; "WATCH"; "UNWATCH"; "SELECT"; "AUTH"; "QUIT"; "CLIENT"; "MONITOR"; "RESET";
             "EVAL"; "EVALSHA"; "SCRIPT"; "CONFIG"; "SHUTDOWN"; "DEBUG"]%string) = true.
Proof. vm_compute. reflexivity. Qed.
(** and a refused command never reaches the executor *)
Theorem c12_blocked_no_effect :
  forall now d pc nm rest, blocked (upper (utf8_lossy nm)) = true ->
  snd (call_cmd now d pc (LStr nm :: rest)) = d.
Proof. exact blocked_no_effect. Qed.
(** loadstring stays reachable (it compiles Lua text only; no file or process access) *)
Example c12_loadstring_present : global_present (bs "loadstring") = true.
Proof. vm_compute. reflexivity. Qed.
