(** C12 (placeholder while the model is being tied) *)
From Ferrous Require Import Base.Bytes Model.Lua.
Theorem c12_placeholder : True. Proof. exact I. Qed.
