(** C13 - Blocking pops never lose, duplicate or strand elements or clients.
    Statements only; proofs in Proofs/BlockingFacts.v, BlockingFifo.v, BlockingCons.v,
    BlockingStrand.v.  Model: Model/Blocking.v (registry, wake queue, Blocked states, write
    buffers, deferred input, arrival stamps) beside Model/Server.v; transition system, hypotheses
    and invariants: Spec/BlockingSpec.v.

    The agreement, reply and FIFO theorems are about EVERY state reachable through [step] from the
    initial state by events that satisfy [ok]: any requests whatsoever from any number of
    connections, wake-up and timeout phases at any instants, connects, clients going away at any
    time (blocked or not) and the server noticing it - where a request is processed only on a
    connection that is not blocked (what a client sends behind a blocking call waits:
    [c13_batch_stops_at_block]) and QUIT is a disconnect.  The event loop never ends
    ([c13_never_crashes]); the hypothesis [b_crashed = false] below is therefore always met.
    Lazy expiry runs before every command and at the top of every wake-up; the conservation
    histories contain no command that gives a key a deadline, which is stated
    ([c13_no_deadlines]), not assumed. *)
From Ferrous Require Import Base.Bytes Generated Model.Resp Model.Types Model.Strings Model.Lists
  Model.Server Model.Blocking Spec.BlockingSpec Proofs.BlockingFacts Proofs.BlockingFifo Proofs.BlockingCons
  Proofs.BlockingStrand.
Open Scope Z_scope.

(** ---- registry / connection-state agreement ---- *)
(** the invariant: every waiter's connection is Blocked on that key with that deadline and
    operation and has no wake-up under way; the connection of a queued wake-up has no
    registration and - unless its client has gone away meanwhile - is Blocked on that key; at most
    one wake-up per connection; a Blocked connection without a wake-up under way is registered
    on all its keys; no connection has id 0; a connection whose client has gone is no connection *)
Theorem c13_invariant : forall pw st, reach pw st -> inv st.
Proof. exact reach_inv. Qed.
Theorem c13_agreement : forall pw st, reach pw st -> b_crashed (snd st) = false -> agree (snd st).
Proof. exact reach_agree. Qed.
(** waiter in the registry -> connection Blocked on that key, same deadline, same operation *)
Theorem c13_waiter_is_blocked : forall pw st, reach pw st -> b_crashed (snd st) = false ->
  forall db k w, In w (reg_get (b_reg (snd st)) (db, k)) ->
  exists bst, zlookup (w_conn w) (b_blk (snd st)) = Some bst /\ bl_db bst = db /\ bmem k (bl_keys bst) = true
              /\ bl_dl bst = w_dl w /\ bl_left bst = w_left w.
Proof. exact waiter_blocked. Qed.
(** connection Blocked -> registered on every one of its keys, or exactly its wake-up is under
    way (and then it has no registration at all) *)
Theorem c13_blocked_is_waiting : forall pw st, reach pw st -> b_crashed (snd st) = false ->
  forall c bst, zlookup c (b_blk (snd st)) = Some bst ->
  (forall k, bmem k (bl_keys bst) = true -> exists w, In w (reg_get (b_reg (snd st)) (bl_db bst, k)) /\ w_conn w = c)
  \/ (exists u, In u (b_wake (snd st)) /\ u_conn u = c /\ u_db u = bl_db bst /\ bmem (u_key u) (bl_keys bst) = true
                /\ forall rk q, In (rk, q) (b_reg (snd st)) -> cnt c q = O).
Proof. exact blocked_waiter. Qed.
(** ---- no leftover registration: a connection that is not Blocked (never blocked, served,
    timed out, gone) has no waiter in any queue; a wake-up can still be under way for it only
    when its client has gone away ---- *)
Theorem c13_no_leftover : forall pw st, reach pw st -> b_crashed (snd st) = false ->
  forall c, zlookup c (b_blk (snd st)) = None ->
  (forall rk, cnt c (reg_get (b_reg (snd st)) rk) = O) /\
  (wakes_for c (b_wake (snd st)) = [] \/ zlookup c (s_conns (fst st)) = None).
Proof. exact no_leftover. Qed.
Theorem c13_one_wakeup_per_connection : forall pw st, reach pw st -> b_crashed (snd st) = false ->
  NoDup (map u_conn (b_wake (snd st))).
Proof. exact one_wakeup_each. Qed.

(** ---- one reply per blocking call; nil never before the deadline, never without one ---- *)
(** a request is answered at most once, on its own connection; it is not answered exactly when
    the handler returned NoResponse, and only then may the connection have become Blocked *)
Theorem c13_request_reply : forall pw s b now c f oms, reach pw (s, b) -> b_crashed b = false ->
  ok (s, b) (EFrame now c f oms) = true ->
  let b' := snd (step (s, b) (EFrame now c f oms)) in
  exists rep, (match rep with FNoResponse => wrote b b' [] | _ => wrote b b' [(c, rep)] end)
              /\ blk_change c rep b b' /\ zlookup c (b_blk b) = None.
Proof. exact frame_reply. Qed.
(** the timeout phase writes nil only, only to connections that were Blocked with a deadline
    that has passed (a call that waits forever has none), one each, and exactly the connections it
    unblocks are those it answers *)
Theorem c13_timeout_not_early : forall pw s b now, reach pw (s, b) -> b_crashed b = false ->
  let b' := snd (step (s, b) (ETimeouts now)) in
  exists new, wrote b b' new /\ NoDup (map fst new)
    /\ (forall c f, In (c, f) new ->
          f = FNullArray /\ zlookup c (b_blk b') = None /\
          exists bst d, zlookup c (b_blk b) = Some bst /\ bl_dl bst = Some d /\ d <= now)
    /\ (forall c, zlookup c (b_blk b) <> None -> zlookup c (b_blk b') = None -> In c (map fst new))
    /\ (forall c, zlookup c (b_blk b) = None -> zlookup c (b_blk b') = None).
Proof. exact timeouts_reply. Qed.
(** the wake-up phase writes [key, element] only, only to connections that were Blocked on that
    key (the key of the wake-up; a wake-up that finds its key empty by then writes nothing:
    [c13_empty_wakeup_pops_nothing]), one each, and exactly the connections it unblocks are those
    it answers *)
Theorem c13_wakeup_delivery : forall pw s b now, reach pw (s, b) -> b_crashed b = false ->
  let b' := snd (step (s, b) (EWakeups now)) in
  exists new, wrote b b' new /\ NoDup (map fst new)
    /\ (forall c f, In (c, f) new -> delivery_of b c f /\ zlookup c (b_blk b') = None)
    /\ (forall c, zlookup c (b_blk b) <> None -> zlookup c (b_blk b') = None -> In c (map fst new))
    /\ (forall c, zlookup c (b_blk b) = None -> zlookup c (b_blk b') = None).
Proof. exact wakeups_reply. Qed.
Theorem c13_connect_disconnect_silent : forall s b e, b_crashed b = false ->
  (match e with EConnect _ | EDisconnect _ => True | _ => False end) ->
  b_out (snd (step (s, b) e)) = b_out b /\ b_blk (snd (step (s, b) e)) = b_blk b /\ b_wake (snd (step (s, b) e)) = b_wake b.
Proof. exact connect_disconnect_silent. Qed.
(** when the server notices the clients that went away nothing is written, no wake-up is made,
    and exactly their connections stop being Blocked (c7e6509) *)
Theorem c13_hangups_silent : forall s b, b_crashed b = false ->
  let b' := snd (step (s, b) EHangups) in
  b_out b' = b_out b /\ b_wake b' = b_wake b /\
  forall c, zlookup c (b_blk b') = if existsb (Z.eqb c) (filter (noticed b) (b_dead b)) then None else zlookup c (b_blk b).
Proof. exact hangups_silent. Qed.
(** a blocking call that is not answered at once is Blocked with deadline = arrival + timeout,
    and with no deadline when the timeout is 0 ("forever") *)
Theorem c13_deadline : forall left now s b c dbi parts oms rep s' b' cn,
  zlookup c (s_conns s) = Some cn -> c <> 0 ->
  h_bpop left now s b c dbi parts oms = (rep, s', b') ->
  (rep <> FNoResponse /\ b' = b) \/
  (rep = FNoResponse /\ exists tmo keys,
     timeout_of (last parts FNull) oms = Some tmo /\
     zlookup c (b_blk b') = Some {| bl_db := dbi; bl_keys := keys; bl_dl := option_map (fun ms => now + ms) tmo; bl_left := left |}).
Proof. exact blocking_call_deadline. Qed.

(** ---- requests behind a blocking call wait (939522b) ---- *)
(** process_connection: the frames of one read are EFrame steps of that connection, in order, up
    to and including the first one that leaves the connection Blocked; what follows it is not
    processed but kept, in order, ahead of anything the connection had deferred before *)
Theorem c13_batch_stops_at_block : forall fs now s b c,
  b_crashed b = false -> forallb (fun fo => negb (is_quit (fst fo))) fs = true ->
  exists done rest, fs = done ++ rest /\
    serve_batch now s b c fs false =
      (fst (run (s, b) (evs_of now c done)), defer (snd (run (s, b) (evs_of now c done))) c rest) /\
    (rest = [] \/ is_blocked (snd (run (s, b) (evs_of now c done))) c = true) /\
    (forall d1 fo d2, done = d1 ++ fo :: d2 -> d2 <> [] ->
       is_blocked (snd (run (s, b) (evs_of now c (d1 ++ [fo])))) c = false).
Proof. exact serve_batch_is_run. Qed.
(** while a connection is Blocked nothing it sent is read *)
Theorem c13_blocked_not_read : forall now s b c fs, is_blocked b c = true -> conn_step now (s, b) (c, fs) = (s, b).
Proof. exact blocked_not_read. Qed.
(** one iteration of Server::run: wake-ups, reads of the connections that are not blocked, timeouts *)
Theorem c13_iteration_phases : forall now s b, b_crashed b = false ->
  iteration now (s, b) =
    (let sb1 := step (s, b) (EWakeups now) in
     if b_crashed (snd sb1) then sb1 else
     let sb2 := process_conns now (fst sb1) (snd sb1) in
     (fst sb2, process_timeouts now (snd sb2))).
Proof. exact iteration_phases. Qed.

(** ---- FIFO: served in the order they blocked ---- *)
(** the history property.  Every registration carries the stamp of its blocking call.
    (1) the stamp is the number of calls that blocked before it in the history; *)
Theorem c13_fifo_stamp_counts_blocking_calls : forall pw n st, reach_n pw n st -> b_seq (snd st) = Z.of_nat n.
Proof. exact seq_counts. Qed.
Theorem c13_fifo_stamp_is_ordinal : forall pw n st e c, reach_n pw n st -> ok st e = true ->
  (match e with EFrame _ c1 _ _ => c = c1 | _ => False end) -> blocks st e = true ->
  forall t, stamp_in (snd (step st e)) c t -> t = Z.of_nat n.
Proof. exact stamp_is_ordinal. Qed.
(** (2) no step changes the stamp of a waiting call: what a step leaves in a queue or in the
    wake-up queue was there before, for the same connection with the same stamp, or is the fresh
    registration of the connection whose request was processed (a wake-up that finds nothing
    registers the client again under its OLD stamp, 8ab686d); *)
Theorem c13_fifo_stamps_kept : forall pw st e c t, reach pw st -> stamp_in (snd (step st e)) c t ->
  stamp_in (snd st) c t \/
  (match e with EFrame _ c1 _ _ => c = c1 | _ => False end /\ c <> 0 /\ b_seq (snd st) <= t < b_seq (snd (step st e))).
Proof. exact stamps_kept. Qed.
(** (3) in every reachable state every queue is in the order its waiters blocked, *)
Theorem c13_fifo_queue_in_blocking_order : forall pw st db k, reach pw st ->
  in_blocking_order (reg_get (b_reg (snd st)) (db, k)).
Proof. exact fifo_queue_order. Qed.
(** (4) and a push serves the head: the waiter that blocked before everybody else in the queue *)
Theorem c13_fifo_head_blocked_first : forall pw st db k w q, reach pw st ->
  reg_get (b_reg (snd st)) (db, k) = w :: q -> forall w', In w' q -> w_at w <= w_at w'.
Proof. exact fifo_head_first. Qed.
Theorem c13_fifo_serve_head : forall b db k w q,
  reg_get (b_reg b) (db, k) = w :: q ->
  let b' := notify_key_ready b db k in
  b_wake b' = b_wake b ++ [{| u_conn := w_conn w; u_db := db; u_key := k; u_left := w_left w; u_at := w_at w |}]
  /\ reg_get (b_reg b') (db, k) = filter (not_conn (w_conn w)) q
  /\ forall k2, rk_eqb (db, k2) (db, k) = false ->
       reg_get (b_reg b') (db, k2) = filter (not_conn (w_conn w)) (reg_get (b_reg b) (db, k2)).
Proof. exact fifo_serve_head. Qed.
(** the operations on a queue: a call joins at the back; timeouts and cleanups only take waiters out *)
Theorem c13_fifo_join_back : forall db c left dl at_ keys r rk,
  exists n, reg_get (register r db c keys left dl at_) rk = reg_get r rk ++ repeat (mkw c dl left at_) n
            /\ (n <> O <-> (fst rk = db /\ bmem (snd rk) keys = true)).
Proof. exact fifo_join_back. Qed.
Theorem c13_fifo_timeouts_keep_order : forall now r rk,
  reg_get (snd (expire_reg now r)) rk = filter (live_w now) (reg_get r rk).
Proof. exact fifo_expire_keeps_order. Qed.
Theorem c13_fifo_unregister_keeps_order : forall r db c rk,
  reg_get (unregister r db c) rk = if fst rk =? db then filter (not_conn c) (reg_get r rk) else reg_get r rk.
Proof. exact fifo_unregister_keeps_order. Qed.
(** the wake queue is served from the front, 32 at a time; a wake-up that puts its element back
    for a client that has gone re-notifies the key, and that request joins the back *)
Theorem c13_fifo_wake_queue : forall now s b,
  exists ex, b_wake (snd (process_wakeups now s b)) = skipn 32 (b_wake b) ++ ex.
Proof. exact fifo_wake_queue. Qed.

(** ---- conservation: pushed = returned + remaining, as a multiset equation per list ----
    Over all histories ([reach_g]) of requests from the list catalogue of the property - LPUSH,
    RPUSH, LPOP, RPOP, BLPOP, BRPOP (any number of keys, any timeout), LLEN, LRANGE, LINDEX,
    MULTI/EXEC/DISCARD of those, SELECT (also queued), PING, well-formed or not - from any number
    of connections, wake-up and timeout phases at any instants, connects, and clients going
    away at any time: blocked, with their wake-up under way, or neither.
    P: every element of every push that was answered with an integer; R: every element written
    to a connection (LPOP/RPOP bulk replies, BLPOP/BRPOP replies at once or at a wake-up). *)
Theorem c13_conservation : forall st P R, reach_g st P R ->
  forall db k x, 0 <= db -> ecount (db, k, x) P = ecount (db, k, x) R + occ x (list_at (fst st) db k).
Proof. exact conservation. Qed.
(** no duplicate delivery: nothing is returned more often than it was pushed *)
Theorem c13_no_duplicate : forall st P R, reach_g st P R ->
  forall db k x, 0 <= db -> ecount (db, k, x) R <= ecount (db, k, x) P.
Proof. exact no_duplicate. Qed.
(** no key of these histories ever has a deadline, so the lazy expiry before every command and
    at the top of every wake-up removes nothing: the equation has no "expired" term because
    nothing expires, not because expiry was left out of the model *)
Theorem c13_no_deadlines : forall st P R, reach_g st P R ->
  (forall db k e, get_entry (get_db (fst st) db) k = Some e -> e_exp e = None) /\
  (forall now dbi name parts, s_dbs (lazy_expire now (fst st) dbi name parts) = s_dbs (fst st)) /\
  (forall now db k, fst (purge_key now (get_db (fst st) db, []) k) = get_db (fst st) db).
Proof. exact no_deadlines. Qed.
(** the event loop never ends, whatever the requests (repair e1d4020: a wake-up on a key that
    holds another type by then finds "nothing" instead of propagating WRONGTYPE out of the loop) *)
Theorem c13_never_crashes : forall pw st, reach pw st -> b_crashed (snd st) = false.
Proof. exact never_crashes. Qed.
Theorem c13_history_reachable : forall evs st P R, reach_g st P R -> all_ok_cons st evs = true ->
  reach_g (fst (fst (gtrace st P R evs))) (snd (fst (gtrace st P R evs))) (snd (gtrace st P R evs)).
Proof. exact gtrace_reach. Qed.

(** ---- no stranding: the safety half of "served promptly" ----
    In every state reachable by list-catalogue requests (exactly the histories of the
    conservation theorem: blocking pops on any number of keys, clients going away at any time -
    blocked, with their wake-up under way, or neither), a key that has a waiter holds at most as
    many elements as wake-ups are under way for it.  (Since 0715a3b no hypothesis about
    disconnects is needed: a wake-up that finds its client gone puts the element back AND
    notifies the next waiter of the key.) *)
Theorem c13_no_stranding : forall st P R, reach_g st P R -> no_strand st.
Proof. exact no_stranding. Qed.
(** in particular, once the wake-up queue has drained nobody is blocked on a key that holds an element *)
Theorem c13_no_stranding_drained : forall st P R, reach_g st P R -> b_wake (snd st) = [] ->
  forall db k, 0 <= db -> reg_get (b_reg (snd st)) (db, k) <> [] -> list_at (fst st) db k = [].
Proof. exact no_stranding_drained. Qed.

(** ---- non-vacuity: a history inside every hypothesis ---- *)
Example c13_good_history :
  all_ok sys0 w_good = true /\
  let st := run sys0 w_good in
  out_to st 1 = [FArray [FBulk (bs "q"); FBulk (bs "a")]] /\        (* the first waiter gets the head ... *)
  out_to st 2 = [FArray [FBulk (bs "q"); FBulk (bs "c")]; FNullArray] /\   (* ... BRPOP the tail; later nil at its deadline *)
  out_to st 3 = [FInt 3] /\ list_at (fst st) 0 (bs "q") = [bs "b"] /\
  waiting st 0 (bs "q") = [] /\ waiting st 0 (bs "r") = [] /\ waiting st 0 (bs "m") = [] /\ b_blk (snd st) = [].
Proof. vm_compute. repeat split; reflexivity. Qed.
(** the same history with its multisets: three pushed, two returned, one remaining *)
Example c13_good_history_conserved :
  all_ok_cons sys0 w_good = true /\
  snd (fst (gtrace sys0 [] [] w_good)) = [(0, bs "q", bs "a"); (0, bs "q", bs "b"); (0, bs "q", bs "c")] /\
  snd (gtrace sys0 [] [] w_good) = [(0, bs "q", bs "a"); (0, bs "q", bs "c")].
Proof. vm_compute. repeat split; reflexivity. Qed.
(** FIFO: three clients block on q in the order 1, 2, 3; the element meant for 1 is taken before
    its wake-up runs (1 keeps its place); three pushes then serve 1, 2, 3 in that order *)
Example c13_fifo_history :
  all_ok sys0 w_fifo = true /\
  let st := run sys0 w_fifo in
  out_to st 1 = [FArray [FBulk (bs "q"); FBulk (bs "a")]] /\
  out_to st 2 = [FArray [FBulk (bs "q"); FBulk (bs "b")]] /\
  out_to st 3 = [FArray [FBulk (bs "q"); FBulk (bs "c")]] /\
  list_at (fst st) 0 (bs "q") = [] /\ waiting st 0 (bs "q") = [].
Proof. vm_compute. repeat split; reflexivity. Qed.
(** no stranding: between the push and the wake-up phase the key holds three elements with two
    wake-ups under way and nobody left waiting; after it, one element *)
Example c13_no_stranding_history :
  all_ok_cons sys0 w_sk = true /\
  let st := run sys0 w_sk in
  list_at (fst st) 0 (bs "q") = [bs "a"; bs "b"; bs "c"] /\ wcount 0 (bs "q") (b_wake (snd st)) = 2 /\ waiting st 0 (bs "q") = [] /\
  let st' := step st (EWakeups 0) in
  list_at (fst st') 0 (bs "q") = [bs "b"] /\ out_to st' 1 = [FArray [FBulk (bs "q"); FBulk (bs "a")]] /\
  out_to st' 2 = [FArray [FBulk (bs "q"); FBulk (bs "c")]].
Proof. vm_compute. repeat split; reflexivity. Qed.

(** ---- stolen-wakeup-overtakes (repaired): the wake-up that finds nothing pops nothing ----
    "Clients blocked on a key are served in the order they blocked" used to fail on one path.
    Client 2 blocks on r, THEN client 1 blocks on q and r.  One batch pushes to q, pops q again and
    pushes y to r.  Client 1's wake-up (for q) finds nothing; wake_client used to look at the
    client's other keys and TAKE y from r - although client 2 blocked on r first and its own
    wake-up for r was next in the wake-up queue; client 2 was registered again and kept waiting.
    Since the repair that wake-up pops nothing: the client is registered again under its old stamp
    and the HEAD of the queue of each of its keys that holds an element is notified, as a push
    does.  Here: client 2 gets [r, y] from its own wake-up; client 1's second wake-up (for r, made
    while y was still there) finds nothing and client 1 keeps waiting on q and r, in its old
    place (stamp 1). *)
Definition w_overtake : list event :=
  [EConnect 1; EConnect 2; EConnect 3;
   at0 2 [bs "BLPOP"; bs "r"; bs "0"] (Some 0);
   at0 1 [bs "BLPOP"; bs "q"; bs "r"; bs "0"] (Some 0);
   at0 3 [bs "RPUSH"; bs "q"; bs "x"] None; at0 3 [bs "LPOP"; bs "q"] None;
   at0 3 [bs "RPUSH"; bs "r"; bs "y"] None; EWakeups 0].
Example c13_fifo_overtake_fixed :
  all_ok_cons sys0 w_overtake = true /\
  let st := run sys0 w_overtake in
  out_to st 2 = [FArray [FBulk (bs "r"); FBulk (bs "y")]] /\ out_to st 1 = [] /\
  list_at (fst st) 0 (bs "r") = [] /\ waiting st 0 (bs "r") = [] /\
  map (fun u => (u_conn u, u_key u, u_at u)) (b_wake (snd st)) = [(1, bs "r", 1)] /\
  let st' := step st (EWakeups 0) in
  out_to st' 1 = [] /\ out_to st' 2 = [FArray [FBulk (bs "r"); FBulk (bs "y")]] /\
  waiting st' 0 (bs "q") = [1] /\ waiting st' 0 (bs "r") = [1] /\
  map w_at (reg_get (b_reg (snd st')) (0, bs "r")) = [1] /\ b_wake (snd st') = [] /\
  map fst (b_blk (snd st')) = [1].
Proof. vm_compute. repeat split; reflexivity. Qed.
(** what that branch does, for every state: the wake-up found nothing on its key and its connection
    is still Blocked.  Nothing more is popped (the database is the one the failed pop left), nothing
    is written, the connection stays Blocked; a waiter that is in a queue afterwards was there
    before or is this client under the stamp of its wake-up; the client is registered on every key
    of its call under that stamp, or its own wake-up is under way again with that stamp; and every
    key of the call that holds an element has a wake-up made for it by this step, or nobody is left
    in its queue.  (Second hypothesis: the connection of a wake-up has no registration - part of
    [c13_invariant], [wakes_agree].) *)
Theorem c13_empty_wakeup_pops_nothing : forall now s b u st,
  zlookup (u_conn u) (b_blk b) = Some st ->
  (forall rk w, In w (reg_get (b_reg b) rk) -> w_conn w <> u_conn u) ->
  let d := fst (purge_key now (get_db s (u_db u), []) (u_key u)) in
  (match fst (on_key d (u_key u) (e_pop (u_left u))) with FBulk _ => False | _ => True end) ->
  let d' := snd (on_key d (u_key u) (e_pop (u_left u))) in
  let s' := fst (wake_client now s b u) in
  let b' := snd (wake_client now s b u) in
  s' = set_db s (u_db u) d' /\ b_out b' = b_out b /\ b_blk b' = b_blk b /\
  (forall rk w, In w (reg_get (b_reg b') rk) ->
     In w (reg_get (b_reg b) rk) \/ (w_conn w = u_conn u /\ w_at w = u_at u /\ fst rk = u_db u /\ bmem (snd rk) (bl_keys st) = true)) /\
  exists ex, b_wake b' = b_wake b ++ ex /\
    ((forall k, bmem k (bl_keys st) = true ->
        exists w, In w (reg_get (b_reg b') (u_db u, k)) /\ w_conn w = u_conn u /\ w_at w = u_at u)
     \/ exists x, In x ex /\ u_conn x = u_conn u /\ u_at x = u_at u /\ bmem (u_key x) (bl_keys st) = true) /\
    (forall k, bmem k (bl_keys st) = true -> llen_of d' k <> O ->
       reg_get (b_reg b') (u_db u, k) = [] \/ exists x, In x ex /\ u_db x = u_db u /\ u_key x = k).
Proof. exact empty_wakeup_pops_nothing. Qed.

(** ---- the classes that were repaired (all eight): what the witnesses do now ---- *)
(** blocked-disconnect (fixed c7e6509; was: the element was written to the connection of the
    client that had gone): the connection is unregistered, the element stays in the list *)
Example c13_blocked_disconnect_fixed :
  all_ok_cons sys0 w_disconnect = true /\
  let st := run sys0 w_disconnect in
  out_to st 2 = [FInt 1] /\ list_at (fst st) 0 (bs "q") = [bs "v"] /\ out_to st 1 = [] /\
  waiting st 0 (bs "q") = [] /\ b_blk (snd st) = [] /\ b_dead (snd st) = [].
Proof. vm_compute. repeat split; reflexivity. Qed.
(** pipelined-behind-block (fixed 939522b; was: the second call overwrote the Blocked state and
    left a registration behind): the first call blocks, the rest of the read waits; after the
    timeout the connection is answered nil, then blocks on r, then the PING still waits *)
Example c13_pipelined_behind_block_fixed :
  let s1 := connect (init_server None) 1 in
  let st1 := serve_batch 0 s1 init_blocking 1 w_behind false in
  waiting st1 0 (bs "q") = [1] /\ waiting st1 0 (bs "r") = [] /\ out_to st1 1 = [] /\
  zlookup 1 (b_in (snd st1)) = Some (tl w_behind) /\
  let st2 := step st1 (ETimeouts 300) in
  let st3 := process_conns 300 (fst st2) (snd st2) in
  out_to st3 1 = [FNullArray] /\ waiting st3 0 (bs "q") = [] /\ waiting st3 0 (bs "r") = [1] /\
  zlookup 1 (b_in (snd st3)) = Some (tl (tl w_behind)).
Proof. vm_compute. repeat split; reflexivity. Qed.
(** blocking-in-exec (fixed d076b83; was: a waiter for the connection id 0 in front of the real
    clients, EXEC reply with a NoResponse slot): the queued BLPOP answers nil in its slot, nothing is
    registered for it, and connection 2 behind it is served by the push *)
Example c13_blocking_in_exec_fixed :
  all_ok sys0 w_exec = true /\
  let st := run sys0 w_exec in
  out_to st 1 = [FSimple (bs "OK"); FSimple (bs "QUEUED"); FArray [FNullArray]] /\
  out_to st 2 = [FArray [FBulk (bs "q"); FBulk (bs "v")]] /\
  list_at (fst st) 0 (bs "q") = [] /\ waiting st 0 (bs "q") = [].
Proof. vm_compute. repeat split; reflexivity. Qed.
(** wrongtype-at-wake (fixed e1d4020; was: the event loop ended): the wake-up finds a string, the
    client is registered again and keeps waiting *)
Example c13_wrongtype_at_wake_fixed :
  all_ok sys0 w_wrongtype = true /\
  let st := run sys0 w_wrongtype in
  b_crashed (snd st) = false /\ waiting st 0 (bs "q") = [1] /\ out_to st 1 = [] /\ b_wake (snd st) = [].
Proof. vm_compute. repeat split; reflexivity. Qed.
(** requeue-at-back (fixed 8ab686d; was: connection 2, which blocked later, was served and 1
    waited): connection 1 keeps its place and is served by the next push *)
Example c13_requeue_at_back_fixed :
  all_ok sys0 w_requeue = true /\
  let st := run sys0 w_requeue in
  out_to st 1 = [FArray [FBulk (bs "q"); FBulk (bs "b")]] /\ out_to st 2 = [] /\ waiting st 0 (bs "q") = [2].
Proof. vm_compute. repeat split; reflexivity. Qed.
(** reregister-no-recheck (fixed 8ab686d; was: Blocked beside an element on r with no wake-up
    under way): the wake-up that finds q empty registers the client again and, r holding an element,
    notifies the head of r's queue - the client itself; the next wake-up phase serves it from r *)
Example c13_reregister_no_recheck_fixed :
  all_ok_cons sys0 w_recheck = true /\
  let st := run sys0 w_recheck in
  out_to st 1 = [] /\ list_at (fst st) 0 (bs "r") = [bs "b"] /\ wcount 0 (bs "r") (b_wake (snd st)) = 1 /\
  map u_conn (b_wake (snd st)) = [1] /\ waiting st 0 (bs "r") = [] /\ waiting st 0 (bs "q") = [] /\
  let st' := step st (EWakeups 0) in
  out_to st' 1 = [FArray [FBulk (bs "r"); FBulk (bs "b")]] /\ list_at (fst st') 0 (bs "r") = [] /\
  waiting st' 0 (bs "r") = [] /\ waiting st' 0 (bs "q") = [] /\ b_wake (snd st') = [] /\ b_blk (snd st') = [].
Proof. vm_compute. repeat split; reflexivity. Qed.
(** script-push-no-notify (fixed e42ab1f; was: the client stayed Blocked beside the element the
    script pushed): the push made by the script wakes the client *)
Example c13_script_push_fixed :
  all_ok sys0 w_script = true /\
  let st := run sys0 w_script in
  out_to st 1 = [FArray [FBulk (bs "q"); FBulk (bs "v")]] /\ out_to st 2 = [FInt 1] /\
  list_at (fst st) 0 (bs "q") = [] /\ waiting st 0 (bs "q") = [].
Proof. vm_compute. repeat split; reflexivity. Qed.

(** orphan-wakeup-no-renotify (fixed 0715a3b; was: connection 2 stayed Blocked beside the element
    with no wake-up under way): connection 1 goes away with its wake-up under way; the wake-up puts
    the element back and notifies connection 2, which the next wake-up phase serves *)
Example c13_orphan_wakeup_fixed :
  all_ok_cons sys0 w_orphan = true /\
  let st := run sys0 w_orphan in
  list_at (fst st) 0 (bs "q") = [bs "v"] /\ map u_conn (b_wake (snd st)) = [2] /\ wcount 0 (bs "q") (b_wake (snd st)) = 1 /\
  let st' := step st (EWakeups 0) in
  out_to st' 2 = [FArray [FBulk (bs "q"); FBulk (bs "v")]] /\ out_to st' 3 = [FInt 1] /\
  list_at (fst st') 0 (bs "q") = [] /\ b_blk (snd st') = [] /\ b_wake (snd st') = [].
Proof. vm_compute. repeat split; reflexivity. Qed.
