(** C13 - Blocking pops never lose, duplicate or strand elements or clients.
    Statements only; proofs in Proofs/BlockingFacts.v.  Model: Model/Blocking.v (registry, wake
    queue, Blocked states, write buffers) beside Model/Server.v; transition system, hypotheses
    and invariants: Spec/BlockingSpec.v.

    All theorems are about EVERY state reachable through [step] from the initial state by
    events that satisfy [ok]: any requests whatsoever from any number of connections, wake-up
    and timeout phases at any instants, connects, disconnects - where a request is processed
    only on a connection that is not blocked and QUIT is a disconnect.  (Blocking pops inside
    MULTI are included since repair d076b83: they answer nil in their EXEC slot.)  The event
    loop never ends ([c13_never_crashes], since repair e1d4020); the hypothesis
    [b_crashed = false] of the statements below is therefore always met. *)
From Ferrous Require Import Base.Bytes Generated Model.Resp Model.Types Model.Strings Model.Lists
  Model.Server Model.Blocking Spec.BlockingSpec Proofs.BlockingFacts Proofs.BlockingCons Proofs.BlockingStrand.
Open Scope Z_scope.

(** ---- registry / connection-state agreement ---- *)
(** the invariant: every waiter's connection is Blocked on that key with that deadline and
    operation and has no wake-up under way; every queued wake-up's connection is Blocked on that
    key and has no registration; at most one wake-up per connection; a Blocked connection
    without a wake-up under way is registered on all its keys; no connection has id 0 *)
Theorem c13_invariant : forall pw st, reach pw st -> inv st.
Proof. exact reach_inv. Qed.
Theorem c13_agreement : forall pw st, reach pw st -> b_crashed (snd st) = false -> agree (snd st).
Proof. exact reach_agree. Qed.
(** waiter in the registry -> connection Blocked on that key, same deadline, same operation *)
Theorem c13_waiter_is_blocked : forall pw st, reach pw st -> b_crashed (snd st) = false ->
  forall db k w, In w (reg_get (b_reg (snd st)) (db, k)) ->
  exists bst, zlookup (w_conn w) (b_blk (snd st)) = Some bst /\ bl_db bst = db /\ bmem k (bl_keys bst) = true
              /\ bl_dl bst = w_dl w /\ bl_left bst = w_left w.
Proof. exact waiter_blocked. Qed.
(** connection Blocked -> registered on every one of its keys, or exactly its wake-up is under
    way (and then it has no registration at all) *)
Theorem c13_blocked_is_waiting : forall pw st, reach pw st -> b_crashed (snd st) = false ->
  forall c bst, zlookup c (b_blk (snd st)) = Some bst ->
  (forall k, bmem k (bl_keys bst) = true -> exists w, In w (reg_get (b_reg (snd st)) (bl_db bst, k)) /\ w_conn w = c)
  \/ (exists u, In u (b_wake (snd st)) /\ u_conn u = c /\ u_db u = bl_db bst /\ bmem (u_key u) (bl_keys bst) = true
                /\ forall rk q, In (rk, q) (b_reg (snd st)) -> cnt c q = O).
Proof. exact blocked_waiter. Qed.
(** ---- no leftover registration: a connection that is not Blocked (never blocked, served,
    timed out) has no waiter in any queue and no wake-up ---- *)
Theorem c13_no_leftover : forall pw st, reach pw st -> b_crashed (snd st) = false ->
  forall c, zlookup c (b_blk (snd st)) = None ->
  (forall rk, cnt c (reg_get (b_reg (snd st)) rk) = O) /\ wakes_for c (b_wake (snd st)) = [].
Proof. exact no_leftover. Qed.
Theorem c13_one_wakeup_per_connection : forall pw st, reach pw st -> b_crashed (snd st) = false ->
  NoDup (map u_conn (b_wake (snd st))).
Proof. exact one_wakeup_each. Qed.

(** ---- one reply per blocking call; nil never before the deadline, never without one ---- *)
(** a request is answered at most once, on its own connection; it is not answered exactly when
    the handler returned NoResponse, and only then may the connection have become Blocked *)
Theorem c13_request_reply : forall pw s b now c f oms, reach pw (s, b) -> b_crashed b = false ->
  ok (s, b) (EFrame now c f oms) = true ->
  let b' := snd (step (s, b) (EFrame now c f oms)) in
  exists rep, (match rep with FNoResponse => wrote b b' [] | _ => wrote b b' [(c, rep)] end)
              /\ blk_change c rep b b' /\ zlookup c (b_blk b) = None.
Proof. exact frame_reply. Qed.
(** the timeout phase writes nil only, only to connections that were Blocked with a deadline
    that has passed (a call that waits forever has none), one each, and exactly the connections it
    unblocks are those it answers *)
Theorem c13_timeout_not_early : forall pw s b now, reach pw (s, b) -> b_crashed b = false ->
  let b' := snd (step (s, b) (ETimeouts now)) in
  exists new, wrote b b' new /\ NoDup (map fst new)
    /\ (forall c f, In (c, f) new ->
          f = FNullArray /\ zlookup c (b_blk b') = None /\
          exists bst d, zlookup c (b_blk b) = Some bst /\ bl_dl bst = Some d /\ d <= now)
    /\ (forall c, zlookup c (b_blk b) <> None -> zlookup c (b_blk b') = None -> In c (map fst new))
    /\ (forall c, zlookup c (b_blk b) = None -> zlookup c (b_blk b') = None).
Proof. exact timeouts_reply. Qed.
(** the wake-up phase writes [key, element] only, only to connections that were Blocked on that
    key, one each, and exactly the connections it unblocks are those it answers *)
Theorem c13_wakeup_delivery : forall pw s b, reach pw (s, b) -> b_crashed b = false ->
  let b' := snd (step (s, b) EWakeups) in
  exists new, wrote b b' new /\ NoDup (map fst new)
    /\ (forall c f, In (c, f) new -> delivery_of b c f /\ zlookup c (b_blk b') = None)
    /\ (forall c, zlookup c (b_blk b) <> None -> zlookup c (b_blk b') = None -> In c (map fst new))
    /\ (forall c, zlookup c (b_blk b) = None -> zlookup c (b_blk b') = None).
Proof. exact wakeups_reply. Qed.
Theorem c13_connect_disconnect_silent : forall s b e, b_crashed b = false ->
  (match e with EConnect _ | EDisconnect _ => True | _ => False end) ->
  b_out (snd (step (s, b) e)) = b_out b /\ b_blk (snd (step (s, b) e)) = b_blk b /\ b_wake (snd (step (s, b) e)) = b_wake b.
Proof. exact connect_disconnect_silent. Qed.
(** a blocking call that is not answered at once is Blocked with deadline = arrival + timeout,
    and with no deadline when the timeout is 0 ("forever") *)
Theorem c13_deadline : forall left now s b c dbi parts oms rep s' b' cn,
  zlookup c (s_conns s) = Some cn -> c <> 0 ->
  h_bpop left now s b c dbi parts oms = (rep, s', b') ->
  (rep <> FNoResponse /\ b' = b) \/
  (rep = FNoResponse /\ exists tmo keys,
     timeout_of (last parts FNull) oms = Some tmo /\
     zlookup c (b_blk b') = Some {| bl_db := dbi; bl_keys := keys; bl_dl := option_map (fun ms => now + ms) tmo; bl_left := left |}).
Proof. exact blocking_call_deadline. Qed.

(** ---- the functions the correspondence runs are sequences of these steps ---- *)
(** process_connection: the frames of one read are EFrame steps of that connection, in order *)
Theorem c13_batch_is_frames : forall fs now s b c,
  b_crashed b = false -> forallb (fun fo => negb (is_quit (fst fo))) fs = true ->
  serve_batch now s b c fs false = run (s, b) (map (fun fo => EFrame now c (fst fo) (snd fo)) fs).
Proof. exact serve_batch_is_run. Qed.
(** one iteration of Server::run: wake-ups, reads of the connections that are not blocked, timeouts *)
Theorem c13_iteration_phases : forall now s b, b_crashed b = false ->
  iteration now (s, b) =
    (let sb1 := step (s, b) EWakeups in
     if b_crashed (snd sb1) then sb1 else
     let sb2 := process_conns now (fst sb1) (snd sb1) in
     (fst sb2, process_timeouts now (snd sb2))).
Proof. exact iteration_phases. Qed.

(** ---- FIFO service per key ---- *)
Theorem c13_fifo_join_back : forall db c left dl keys r rk,
  exists n, reg_get (register r db c keys left dl) rk = reg_get r rk ++ repeat (mkw c dl left) n
            /\ (n <> O <-> (fst rk = db /\ bmem (snd rk) keys = true)).
Proof. exact fifo_join_back. Qed.
Theorem c13_fifo_serve_head : forall b db k w q,
  reg_get (b_reg b) (db, k) = w :: q ->
  let b' := notify_key_ready b db k in
  b_wake b' = b_wake b ++ [{| u_conn := w_conn w; u_db := db; u_key := k; u_left := w_left w |}]
  /\ reg_get (b_reg b') (db, k) = filter (not_conn (w_conn w)) q
  /\ forall k2, rk_eqb (db, k2) (db, k) = false ->
       reg_get (b_reg b') (db, k2) = filter (not_conn (w_conn w)) (reg_get (b_reg b) (db, k2)).
Proof. exact fifo_serve_head. Qed.
Theorem c13_fifo_timeouts_keep_order : forall now r rk,
  reg_get (snd (expire_reg now r)) rk = filter (live_w now) (reg_get r rk).
Proof. exact fifo_expire_keeps_order. Qed.
Theorem c13_fifo_unregister_keeps_order : forall r db c rk,
  reg_get (unregister r db c) rk = if fst rk =? db then filter (not_conn c) (reg_get r rk) else reg_get r rk.
Proof. exact fifo_unregister_keeps_order. Qed.
Theorem c13_fifo_wake_queue : forall s b, b_crashed b = false ->
  b_wake (snd (process_wakeups s b)) = skipn 32 (b_wake b) \/ b_crashed (snd (process_wakeups s b)) = true.
Proof. exact fifo_wake_queue. Qed.

(** ---- conservation: pushed = returned + remaining, as a multiset equation per list ----
    Over all histories ([reach_g]) of requests from the list catalogue of the property - LPUSH,
    RPUSH, LPOP, RPOP, BLPOP, BRPOP (any number of keys, any timeout), LLEN, LRANGE, LINDEX,
    MULTI/EXEC/DISCARD of those, SELECT, PING, well-formed or not - from any number of
    connections, wake-up and timeout phases at any instants, connects, and disconnects of
    connections that are not blocked, under the hypotheses of the agreement theorems.
    P: every element of every push that was answered with an integer; R: every element a client
    was sent (LPOP/RPOP bulk replies, BLPOP/BRPOP replies at once or at a wake-up). *)
Theorem c13_conservation : forall st P R, reach_g st P R ->
  forall db k x, 0 <= db -> ecount (db, k, x) P = ecount (db, k, x) R + occ x (list_at (fst st) db k).
Proof. exact conservation. Qed.
(** no duplicate delivery: nothing is returned more often than it was pushed *)
Theorem c13_no_duplicate : forall st P R, reach_g st P R ->
  forall db k x, 0 <= db -> ecount (db, k, x) R <= ecount (db, k, x) P.
Proof. exact no_duplicate. Qed.
(** the event loop never ends, whatever the requests (repair e1d4020: a wake-up on a key that
    holds another type by then finds "nothing" instead of propagating WRONGTYPE out of the loop) *)
Theorem c13_never_crashes : forall pw st, reach pw st -> b_crashed (snd st) = false.
Proof. exact never_crashes. Qed.
Theorem c13_history_reachable : forall evs st P R, reach_g st P R -> all_ok_cons st evs = true ->
  reach_g (fst (fst (gtrace st P R evs))) (snd (fst (gtrace st P R evs))) (snd (gtrace st P R evs)).
Proof. exact gtrace_reach. Qed.

(** ---- no stranding: the safety half of "served promptly" (partial: single-key blocking pops) ----
    Full statement (refuted - classes reregister-no-recheck for multi-key calls,
    script-push-no-notify): in every reachable state a key that has a waiter holds at most as many
    elements as wake-ups are under way for it.  Proved for all histories of list-catalogue
    requests (as for conservation) in which every BLPOP/BRPOP names ONE key. *)
Theorem c13_no_stranding_partial : forall st, reach_sk st -> no_strand st.
Proof. exact no_stranding. Qed.
(** in particular, once the wake-up queue has drained nobody is blocked on a key that holds an element *)
Theorem c13_no_stranding_drained_partial : forall st, reach_sk st -> b_wake (snd st) = [] ->
  forall db k, 0 <= db -> reg_get (b_reg (snd st)) (db, k) <> [] -> list_at (fst st) db k = [].
Proof. exact no_stranding_drained. Qed.
Theorem c13_single_key_history_reachable : forall evs st, reach_sk st -> all_ok_sk st evs = true -> reach_sk (run st evs).
Proof. exact run_reach_sk. Qed.

(** ---- non-vacuity: a history inside every hypothesis ---- *)
Example c13_good_history :
  all_ok sys0 w_good = true /\
  let st := run sys0 w_good in
  out_to st 1 = [FArray [FBulk (bs "q"); FBulk (bs "a")]] /\        (* the first waiter gets the head ... *)
  out_to st 2 = [FArray [FBulk (bs "q"); FBulk (bs "c")]; FNullArray] /\   (* ... BRPOP the tail; later nil at its deadline *)
  out_to st 3 = [FInt 3] /\ list_at (fst st) 0 (bs "q") = [bs "b"] /\
  waiting st 0 (bs "q") = [] /\ waiting st 0 (bs "r") = [] /\ waiting st 0 (bs "m") = [] /\ b_blk (snd st) = [].
Proof. vm_compute. repeat split; reflexivity. Qed.
(** the same history with its multisets: three pushed, two returned, one remaining *)
Example c13_good_history_conserved :
  all_ok_cons sys0 w_good = true /\
  snd (fst (gtrace sys0 [] [] w_good)) = [(0, bs "q", bs "a"); (0, bs "q", bs "b"); (0, bs "q", bs "c")] /\
  snd (gtrace sys0 [] [] w_good) = [(0, bs "q", bs "a"); (0, bs "q", bs "c")].
Proof. vm_compute. repeat split; reflexivity. Qed.

(** ---- known classes: what fails outside the hypotheses ---- *)
(** blocked-disconnect (open): the pushed element was acknowledged, is not in the list, and
    the only place it went is the write buffer of a connection whose client is gone *)
Example c13_conservation_refuted_blocked_disconnect :
  let st := run sys0 w_disconnect in
  out_to st 2 = [FInt 1] /\ list_at (fst st) 0 (bs "q") = [] /\
  out_to st 1 = [FArray [FBulk (bs "q"); FBulk (bs "v")]] /\ b_dead (snd st) = [1] /\ b_crashed (snd st) = false.
Proof. vm_compute. repeat split; reflexivity. Qed.
(** pipelined-behind-block (open): the connection asked to wait forever on r, is answered nil,
    is no longer Blocked - and its registration on r is still there *)
Example c13_no_leftover_refuted_behind_block :
  all_ok sys0 w_behind = false /\
  let st := run sys0 w_behind in
  out_to st 1 = [FNullArray] /\ b_blk (snd st) = [] /\ waiting st 0 (bs "r") = [1].
Proof. vm_compute. repeat split; reflexivity. Qed.
(** blocking-in-exec (fixed d076b83; was: a waiter for the connection id 0 in front of the real
    clients, EXEC reply with a NoResponse slot): the queued BLPOP answers nil in its slot, nothing is
    registered for it, and connection 2 behind it is served by the push *)
Example c13_blocking_in_exec_fixed :
  all_ok sys0 w_exec = true /\
  let st := run sys0 w_exec in
  out_to st 1 = [FSimple (bs "OK"); FSimple (bs "QUEUED"); FArray [FNullArray]] /\
  out_to st 2 = [FArray [FBulk (bs "q"); FBulk (bs "v")]] /\
  list_at (fst st) 0 (bs "q") = [] /\ waiting st 0 (bs "q") = [].
Proof. vm_compute. repeat split; reflexivity. Qed.
(** wrongtype-at-wake (fixed e1d4020; was: the event loop ended): the wake-up finds a string, the
    client is registered again and keeps waiting *)
Example c13_wrongtype_at_wake_fixed :
  all_ok sys0 w_wrongtype = true /\
  let st := run sys0 w_wrongtype in
  b_crashed (snd st) = false /\ waiting st 0 (bs "q") = [1] /\ out_to st 1 = [] /\ b_wake (snd st) = [].
Proof. vm_compute. repeat split; reflexivity. Qed.
(** requeue-at-back (open): connection 1 blocked before connection 2, yet 2 is served and 1 waits *)
Example c13_fifo_refuted_requeue_at_back :
  all_ok sys0 w_requeue = true /\
  let st := run sys0 w_requeue in
  out_to st 2 = [FArray [FBulk (bs "q"); FBulk (bs "b")]] /\ out_to st 1 = [] /\ waiting st 0 (bs "q") = [1].
Proof. vm_compute. repeat split; reflexivity. Qed.
(** reregister-no-recheck (open): connection 1 is Blocked and registered on r, r holds an element,
    no wake-up is under way - in a history of plain list commands satisfying every hypothesis *)
Example c13_progress_refuted_reregister_no_recheck :
  all_ok_cons sys0 w_recheck = true /\
  let st := run sys0 w_recheck in
  list_at (fst st) 0 (bs "r") = [bs "b"] /\ waiting st 0 (bs "r") = [1] /\ b_wake (snd st) = [] /\ out_to st 1 = [].
Proof. vm_compute. repeat split; reflexivity. Qed.
(** non-vacuity of the no-stranding theorem: between the push and the wake-up phase the key holds
    three elements with two wake-ups under way and nobody left waiting; after it, one element *)
Example c13_single_key_history :
  all_ok_sk sys0 w_sk = true /\
  let st := run sys0 w_sk in
  list_at (fst st) 0 (bs "q") = [bs "a"; bs "b"; bs "c"] /\ wcount 0 (bs "q") (b_wake (snd st)) = 2 /\ waiting st 0 (bs "q") = [] /\
  let st' := step st EWakeups in
  list_at (fst st') 0 (bs "q") = [bs "b"] /\ out_to st' 1 = [FArray [FBulk (bs "q"); FBulk (bs "a")]] /\
  out_to st' 2 = [FArray [FBulk (bs "q"); FBulk (bs "c")]].
Proof. vm_compute. repeat split; reflexivity. Qed.
