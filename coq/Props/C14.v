(** C14 - pub/sub (statements only; proofs in Proofs/PubSubFacts.v, Proofs/PsGlobFacts.v). *)
From Ferrous Require Import Base.Bytes Model.Types Model.PubSub.
Open Scope Z_scope.

(** F-14a: subscribed to channel news and patterns n*, ne*: one delivery, not three *)
Theorem c14_delivery_witness :
  let s := ps_run ps_init [OSub 1 [bs "news"]; OPSub 1 [bs "n*"; bs "ne*"]] in
  length (publish s (bs "news")) = 1%nat.
Proof. vm_compute. reflexivity. Qed.
