(** C14 - Pub/Sub delivers each message exactly once per matching subscription.
    Statements only; proofs in Proofs/PubSubFacts.v and Proofs/PsGlobFacts.v.
    Model: Model/PubSub.v (pubsub.rs PubSubManager and pattern_matches), tied to /repo by
    harness/src/c14.rs.  The server-level delivery of message frames is not part of this file.

    Vocabulary (Proofs/PubSubFacts.v):
      chan_subs s c / pat_subs s c   the connection's own channel / pattern sets
      Inv s                          the three maps agree: c is in channels[ch] iff ch is in
                                     chan_subs s c (same for patterns); no empty or duplicated
                                     subscriber set is stored; keys are unique
      matching_subs s c ch           the subscriptions of c that match channel ch
      deliveries_to c l              the entries of a receiver list addressed to c
      publish_with choice            publish, where [choice] is the implementation's pick of the
                                     reported pattern (HashMap order), followed when admissible *)
From Ferrous Require Import Base.Bytes Model.Types Model.PubSub Proofs.PsGlobFacts Proofs.PubSubFacts.
Open Scope Z_scope.

(** 1. maps consistency, over all histories of all operations *)
Theorem c14_maps_consistent : forall ops, Inv (ps_run ps_init ops).
Proof. intros ops. apply run_inv. exact Inv_init. Qed.

Theorem c14_maps_consistent_step : forall choice s o, Inv s -> Inv (snd (ps_step choice s o)).
Proof. exact step_inv. Qed.

(** no connection entry without subscriptions, provided SUBSCRIBE / PSUBSCRIBE carry at least one
    name (server.rs:1651, :1721 refuse the empty list) *)
Theorem c14_no_empty_entry : forall ops,
  Forall nonempty_subs ops -> NoEmptyEntry (ps_run ps_init ops).
Proof. intros ops F. apply run_noempty; [exact F|]. intros c i H. discriminate. Qed.

(** API level only: subscribe(c, []) leaves an entry without subscriptions (is_subscribed = true) *)
Theorem c14_empty_subscribe_refuted :
  exists ops, ~ NoEmptyEntry (ps_run ps_init ops) /\ is_subscribed (ps_run ps_init ops) 1 = true.
Proof.
  exists [OSub 1 []]. split; [|reflexivity].
  intros H. destruct (H 1 empty_info eq_refl) as [X|X]; apply X; reflexivity.
Qed.

(** 2. the matcher decides the declarative glob (star, question mark, escape), unbounded *)
Theorem c14_glob_correct : forall p s, ps_match p s = true <-> GlobSpec p s.
Proof. exact ps_match_correct. Qed.

(** the matcher has no [...] classes (F-14b) *)
Theorem c14_glob_class_refuted :
  ps_match (bs "[n]ews") (bs "news") = false /\ ps_match (bs "[n]ews") (bs "[n]ews") = true.
Proof. vm_compute. split; reflexivity. Qed.

(** 3. publish: to nobody else, once per connection, to every connection with a matching
    subscription - for every admissible pick of the reported pattern *)
Theorem c14_publish_nobody_else : forall choice s ch c t,
  Inv s -> In (c, t) (publish_with choice s ch) -> is_matching s c ch t.
Proof. exact publish_with_sound. Qed.

Theorem c14_publish_once_per_connection : forall choice s ch,
  NoDup (map fst (publish_with choice s ch)).
Proof. intros. rewrite publish_with_fst. apply publish_nodup. Qed.

Theorem c14_publish_reaches_every_subscriber : forall choice s ch c,
  Inv s -> has_matching s c ch -> In c (map fst (publish_with choice s ch)).
Proof. intros. rewrite publish_with_fst. apply publish_complete; assumption. Qed.

(** 4. delivery = the set of (connection, matching subscription) pairs.
    Full statement (FALSE of this code, see c14_delivery_refuted):
      forall choice s ch c, Inv s ->
        Permutation (deliveries_to c (publish_with choice s ch)) (matching_subs s c ch).
    Proved part: connections with at most one matching subscription. *)
Theorem c14_delivery_partial : forall choice s ch c,
  Inv s -> (length (matching_subs s c ch) <= 1)%nat ->
  deliveries_to c (publish_with choice s ch) = matching_subs s c ch.
Proof. exact delivery_partial. Qed.

(** F-14a: subscribed to news, n*, ne*: three matching subscriptions, one delivery, reply 1 *)
Theorem c14_delivery_refuted :
  exists ops ch c, let s := ps_run ps_init ops in
    length (matching_subs s c ch) = 3%nat /\
    length (deliveries_to c (publish s ch)) = 1%nat /\ length (publish s ch) = 1%nat.
Proof.
  exists [OSub 1 [bs "news"]; OPSub 1 [bs "n*"; bs "ne*"]], (bs "news"), 1.
  vm_compute. repeat split.
Qed.

(** 5. after unsubscribing nothing more is received (until the client subscribes again) *)
Theorem c14_after_unsubscribe_nothing : forall choice s c names ch ops,
  Inv s -> In ch names -> Forall (no_resub_ch c ch) ops ->
  ~ In (c, None) (publish_with choice (ps_run (snd (unsubscribe s c (Some names))) ops) ch).
Proof. exact after_unsubscribe_nothing. Qed.

Theorem c14_after_punsubscribe_nothing : forall choice s c names p ch ops,
  Inv s -> In p names -> Forall (no_resub_pat c p) ops ->
  ~ In (c, Some p) (publish_with choice (ps_run (snd (punsubscribe s c (Some names))) ops) ch).
Proof. exact after_punsubscribe_nothing. Qed.

(** disconnect cleanup (unsubscribe_all) *)
Theorem c14_after_unsubscribe_all_nothing : forall choice s c ch ops,
  Inv s -> Forall (not_sub_by c) ops ->
  ~ In c (map fst (publish_with choice (ps_run (unsubscribe_all s c) ops) ch)).
Proof. exact after_unsubscribe_all_nothing. Qed.

(** 6. acknowledgements: a multi-name SUBSCRIBE is the sequence of single ones, and a single one
    reports the connection's count after it *)
Theorem c14_ack_subscribe : forall s c,
  (forall l1 l2, subscribe s c (l1 ++ l2) =
     match subscribe s c l1 with
     | (r1, s1) => match subscribe s1 c l2 with (r2, s2) => (r1 ++ r2, s2) end
     end) /\
  (forall n, fst (subscribe s c [n]) =
     [{| r_name := n; r_count := total_subs (snd (subscribe s c [n])) c;
         r_new := negb (bmem n (chan_subs s c)) |}]).
Proof. intros s c. split; [apply subscribe_app | apply subscribe_single]. Qed.

Theorem c14_ack_psubscribe : forall s c,
  (forall l1 l2, psubscribe s c (l1 ++ l2) =
     match psubscribe s c l1 with
     | (r1, s1) => match psubscribe s1 c l2 with (r2, s2) => (r1 ++ r2, s2) end
     end) /\
  (forall n, fst (psubscribe s c [n]) =
     [{| r_name := n; r_count := total_subs (snd (psubscribe s c [n])) c;
         r_new := negb (bmem n (pat_subs s c)) |}]).
Proof. intros s c. split; [apply psubscribe_app | apply psubscribe_single]. Qed.

(** (P)UNSUBSCRIBE of a connection that has an entry: one acknowledgement per name, the k-th with
    the count after the first k+1 names are gone *)
Theorem c14_ack_unsubscribe : forall s c names info,
  clookup c (ps_conns s) = Some info ->
  length (fst (unsubscribe s c (Some names))) = length names /\
  forall k r, nth_error (fst (unsubscribe s c (Some names))) k = Some r ->
    nth_error names k = Some (r_name r) /\ r_new r = false /\
    r_count r = len (bremove_all (firstn (S k) names) (chan_subs s c)) + len (pat_subs s c).
Proof. exact unsubscribe_acks. Qed.

Theorem c14_ack_punsubscribe : forall s c names info,
  clookup c (ps_conns s) = Some info ->
  length (fst (punsubscribe s c (Some names))) = length names /\
  forall k r, nth_error (fst (punsubscribe s c (Some names))) k = Some r ->
    nth_error names k = Some (r_name r) /\ r_new r = false /\
    r_count r = len (bremove_all (firstn (S k) names) (pat_subs s c)) + len (chan_subs s c).
Proof. exact punsubscribe_acks. Qed.

(** F-05d: without an entry there is no acknowledgement at all *)
Theorem c14_unsub_no_ack_refuted :
  exists s c names, names <> [] /\ fst (unsubscribe s c (Some names)) = [] /\
                    fst (punsubscribe s c (Some names)) = [].
Proof. exists ps_init, 1, [bs "a"]. repeat split. discriminate. Qed.

(** non-vacuity: a reachable state satisfying the hypotheses, with deliveries *)
Example c14_nonvacuous :
  let s := ps_run ps_init [OSub 1 [bs "news"]; OSub 2 [bs "news"]; OPSub 3 [bs "news*"]; OPSub 2 [bs "x*"]] in
  Forall nonempty_subs [OSub 1 [bs "news"]] /\
  (length (matching_subs s 2 (bs "news")) <= 1)%nat /\
  deliveries_to 2 (publish s (bs "news")) = [None] /\
  map fst (publish s (bs "news.sports")) = [3].
Proof. vm_compute. repeat split; try lia. constructor; [exact I | constructor]. Qed.
