(** C14 - Pub/Sub delivers each message exactly once per matching subscription.
    Statements only; proofs in Proofs/PubSubFacts.v and Proofs/PsGlobFacts.v.
    Model: Model/PubSub.v (pubsub.rs PubSubManager and pattern_matches), tied to /repo by
    harness/src/c14.rs.  The server-level delivery of message frames is not part of this file.

    Vocabulary (Proofs/PubSubFacts.v):
      chan_subs s c / pat_subs s c   the connection's own channel / pattern sets
      Inv s                          the three maps agree: c is in channels[ch] iff ch is in
                                     chan_subs s c (same for patterns); no empty or duplicated
                                     subscriber set is stored; keys are unique
      matching_subs s c ch           the subscriptions of c that match channel ch
      deliveries_to c l              the entries of a receiver list addressed to c
      is_matching s c ch t           t = None: c is subscribed to channel ch; t = Some p: c is
                                     subscribed to pattern p and p matches ch *)
From Coq Require Import Sorting.Permutation.
From Ferrous Require Import Base.Bytes Model.Types Model.PubSub Proofs.PsGlobFacts Proofs.PubSubFacts.
Open Scope Z_scope.

(** 1. maps consistency, over all histories of all operations *)
Theorem c14_maps_consistent : forall ops, Inv (ps_run ps_init ops).
Proof. intros ops. apply run_inv. exact Inv_init. Qed.

Theorem c14_maps_consistent_step : forall s o, Inv s -> Inv (snd (ps_step s o)).
Proof. exact step_inv. Qed.

(** no connection entry without subscriptions, provided SUBSCRIBE / PSUBSCRIBE carry at least one
    name (server.rs:1651, :1721 refuse the empty list) *)
Theorem c14_no_empty_entry : forall ops,
  Forall nonempty_subs ops -> NoEmptyEntry (ps_run ps_init ops).
Proof. intros ops F. apply run_noempty; [exact F|]. intros c i H. discriminate. Qed.

(** API level only: subscribe(c, []) leaves an entry without subscriptions (is_subscribed = true) *)
Theorem c14_empty_subscribe_refuted :
  exists ops, ~ NoEmptyEntry (ps_run ps_init ops) /\ is_subscribed (ps_run ps_init ops) 1 = true.
Proof.
  exists [OSub 1 []]. split; [|reflexivity].
  intros H. destruct (H 1 empty_info eq_refl) as [X|X]; apply X; reflexivity.
Qed.

(** 2. the matcher decides the declarative glob (star, question mark, escape), unbounded *)
Theorem c14_glob_correct : forall p s, ps_match p s = true <-> GlobSpec p s.
Proof. exact ps_match_correct. Qed.

(** the matcher has no [...] classes (F-14b) *)
Theorem c14_glob_class_refuted :
  ps_match (bs "[n]ews") (bs "news") = false /\ ps_match (bs "[n]ews") (bs "[n]ews") = true.
Proof. vm_compute. split; reflexivity. Qed.

(** 3. delivery (pubsub.rs publish after the repair 4d06fbe): the receiver list of PUBLISH is
    exactly the set of (connection, matching subscription) pairs, each once - one `message` for a
    channel subscription, one `pmessage` per matching pattern, to nobody else; the reply of PUBLISH
    is its length.  (On the code before 4d06fbe this was refuted: one entry per connection.) *)
Theorem c14_delivery : forall s ch,
  Inv s ->
  NoDup (publish s ch) /\ forall c t, In (c, t) (publish s ch) <-> is_matching s c ch t.
Proof. intros s ch HI. split; [apply publish_NoDup; exact HI | intros; apply In_publish; exact HI]. Qed.

(** per connection: what it receives is a permutation of its matching subscriptions
    (HashMap iteration order of the pattern map is not specified) *)
Theorem c14_delivery_per_connection : forall s ch c,
  Inv s -> Permutation (deliveries_to c (publish s ch)) (matching_subs s c ch).
Proof. exact delivery_full. Qed.

(** the former witness of F-14a now gets its three deliveries *)
Theorem c14_delivery_witness :
  let s := ps_run ps_init [OSub 1 [bs "news"]; OPSub 1 [bs "n*"; bs "ne*"]] in
  length (matching_subs s 1 (bs "news")) = 3%nat /\ length (publish s (bs "news")) = 3%nat.
Proof. vm_compute. split; reflexivity. Qed.

(** 5. after unsubscribing nothing more is received (until the client subscribes again) *)
Theorem c14_after_unsubscribe_nothing : forall s c names ch ops,
  Inv s -> In ch names -> Forall (no_resub_ch c ch) ops ->
  ~ In (c, None) (publish (ps_run (snd (unsubscribe s c (Some names))) ops) ch).
Proof. exact after_unsubscribe_nothing. Qed.

Theorem c14_after_punsubscribe_nothing : forall s c names p ch ops,
  Inv s -> In p names -> Forall (no_resub_pat c p) ops ->
  ~ In (c, Some p) (publish (ps_run (snd (punsubscribe s c (Some names))) ops) ch).
Proof. exact after_punsubscribe_nothing. Qed.

(** disconnect cleanup (unsubscribe_all) *)
Theorem c14_after_unsubscribe_all_nothing : forall s c ch ops,
  Inv s -> Forall (not_sub_by c) ops ->
  ~ In c (map fst (publish (ps_run (unsubscribe_all s c) ops) ch)).
Proof. exact after_unsubscribe_all_nothing. Qed.

(** 6. acknowledgements: a multi-name SUBSCRIBE is the sequence of single ones, and a single one
    reports the connection's count after it *)
Theorem c14_ack_subscribe : forall s c,
  (forall l1 l2, subscribe s c (l1 ++ l2) =
     match subscribe s c l1 with
     | (r1, s1) => match subscribe s1 c l2 with (r2, s2) => (r1 ++ r2, s2) end
     end) /\
  (forall n, fst (subscribe s c [n]) =
     [{| r_name := n; r_count := total_subs (snd (subscribe s c [n])) c;
         r_new := negb (bmem n (chan_subs s c)) |}]).
Proof. intros s c. split; [apply subscribe_app | apply subscribe_single]. Qed.

Theorem c14_ack_psubscribe : forall s c,
  (forall l1 l2, psubscribe s c (l1 ++ l2) =
     match psubscribe s c l1 with
     | (r1, s1) => match psubscribe s1 c l2 with (r2, s2) => (r1 ++ r2, s2) end
     end) /\
  (forall n, fst (psubscribe s c [n]) =
     [{| r_name := n; r_count := total_subs (snd (psubscribe s c [n])) c;
         r_new := negb (bmem n (pat_subs s c)) |}]).
Proof. intros s c. split; [apply psubscribe_app | apply psubscribe_single]. Qed.

(** (P)UNSUBSCRIBE of a connection that has an entry: one acknowledgement per name, the k-th with
    the count after the first k+1 names are gone *)
Theorem c14_ack_unsubscribe : forall s c names info,
  clookup c (ps_conns s) = Some info ->
  length (fst (unsubscribe s c (Some names))) = length names /\
  forall k r, nth_error (fst (unsubscribe s c (Some names))) k = Some r ->
    nth_error names k = Some (r_name r) /\ r_new r = false /\
    r_count r = len (bremove_all (firstn (S k) names) (chan_subs s c)) + len (pat_subs s c).
Proof. exact unsubscribe_acks. Qed.

Theorem c14_ack_punsubscribe : forall s c names info,
  clookup c (ps_conns s) = Some info ->
  length (fst (punsubscribe s c (Some names))) = length names /\
  forall k r, nth_error (fst (punsubscribe s c (Some names))) k = Some r ->
    nth_error names k = Some (r_name r) /\ r_new r = false /\
    r_count r = len (bremove_all (firstn (S k) names) (pat_subs s c)) + len (chan_subs s c).
Proof. exact punsubscribe_acks. Qed.

(** F-05d, manager level: without an entry PubSubManager returns no result; since 68e2e20 the
    server handlers answer the confirmations themselves (see c14_srv_unsub_always_acks) *)
Theorem c14_unsub_no_ack_refuted :
  exists s c names, names <> [] /\ fst (unsubscribe s c (Some names)) = [] /\
                    fst (punsubscribe s c (Some names)) = [].
Proof. exists ps_init, 1, [bs "a"]. repeat split. discriminate. Qed.

(** non-vacuity: a reachable state satisfying the hypotheses, with deliveries *)
Example c14_nonvacuous :
  let s := ps_run ps_init [OSub 1 [bs "news"]; OSub 2 [bs "news"]; OPSub 3 [bs "news*"]; OPSub 2 [bs "x*"]] in
  Forall nonempty_subs [OSub 1 [bs "news"]] /\
  (length (matching_subs s 2 (bs "news")) <= 1)%nat /\
  deliveries_to 2 (publish s (bs "news")) = [None] /\
  map fst (publish s (bs "news.sports")) = [3].
Proof. vm_compute. repeat split; try lia. constructor; [exact I | constructor]. Qed.
