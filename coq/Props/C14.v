(** C14 - Pub/Sub delivers each message exactly once per matching subscription.
    Statements only; proofs in Proofs/PubSubFacts.v and Proofs/PsGlobFacts.v.
    Model: Model/PubSub.v (pubsub.rs PubSubManager and pattern_matches), tied to /repo by
    harness/src/c14.rs.  The server-level delivery of message frames is not part of this file.

    Vocabulary (Proofs/PubSubFacts.v):
      chan_subs s c / pat_subs s c   the connection's own channel / pattern sets
      Inv s                          the three maps agree: c is in channels[ch] iff ch is in
                                     chan_subs s c (same for patterns); no empty or duplicated
                                     subscriber set is stored; keys are unique
      matching_subs s c ch           the subscriptions of c that match channel ch
      deliveries_to c l              the entries of a receiver list addressed to c
      is_matching s c ch t           t = None: c is subscribed to channel ch; t = Some p: c is
                                     subscribed to pattern p and p matches ch *)
From Coq Require Import Sorting.Permutation.
From Ferrous Require Import Base.Bytes Generated Model.Resp Model.Types Model.PubSub Model.Server Model.Conn
  Proofs.ConnFacts Proofs.PsGlobFacts Proofs.PubSubFacts Proofs.PubSubSrvFacts.
Open Scope Z_scope.

(** 1. maps consistency, over all histories of all operations *)
Theorem c14_maps_consistent : forall ops, Inv (ps_run ps_init ops).
Proof. intros ops. apply run_inv. exact Inv_init. Qed.

Theorem c14_maps_consistent_step : forall s o, Inv s -> Inv (snd (ps_step s o)).
Proof. exact step_inv. Qed.

(** no connection entry without subscriptions, provided SUBSCRIBE / PSUBSCRIBE carry at least one
    name (server.rs:1651, :1721 refuse the empty list) *)
Theorem c14_no_empty_entry : forall ops,
  Forall nonempty_subs ops -> NoEmptyEntry (ps_run ps_init ops).
Proof. intros ops F. apply run_noempty; [exact F|]. intros c i H. discriminate. Qed.

(** API level only: subscribe(c, []) leaves an entry without subscriptions (is_subscribed = true) *)
Theorem c14_empty_subscribe_refuted :
  exists ops, ~ NoEmptyEntry (ps_run ps_init ops) /\ is_subscribed (ps_run ps_init ops) 1 = true.
Proof.
  exists [OSub 1 []]. split; [|reflexivity].
  intros H. destruct (H 1 empty_info eq_refl) as [X|X]; apply X; reflexivity.
Qed.

(** 2. the matcher decides the declarative glob (star, question mark, escape and - after the
    repair eb2d54d - the character classes [..], [^..] with ranges x-y), for all patterns and
    all texts, unbounded.  [GlobSpec] (Proofs/PsGlobFacts.v): a class runs from '[' to the first
    ']' after it; its items are read left to right, `x-y` is a range when at least three bytes
    remain and the middle one is '-'; a leading '^' negates; a '[' without a closing ']'
    matches nothing. *)
Theorem c14_glob_correct : forall p s, ps_match p s = true <-> GlobSpec p s.
Proof. exact ps_match_correct. Qed.

(** the loop over the items of a class body (with its early exit) decides membership in the
    union of the items; the class test decides [class_accepts] *)
Theorem c14_glob_class_items : forall body c,
  class_loop body c = true <-> exists lo hi, In (lo, hi) (class_items body) /\ lo <= c <= hi.
Proof. intros body c. exact (class_loop_iff _ body c (le_n _)). Qed.
Theorem c14_glob_class_accepts : forall inner c, class_ok inner c = true <-> class_accepts inner c.
Proof. exact class_ok_iff. Qed.

(** formerly F-14b (class pubsub-glob-class, fixed by eb2d54d): the witnesses of the finding and
    the corner cases of the class syntax, evaluated by the kernel *)
Example c14_glob_class_witness :
  ps_match (bs "[n]ews") (bs "news") = true /\ ps_match (bs "[n]ews") (bs "[n]ews") = false /\
  ps_match (bs "h[^e]llo") (bs "hallo") = true /\ ps_match (bs "h[^e]llo") (bs "hello") = false /\
  ps_match (bs "h[a-c]llo") (bs "hbllo") = true /\ ps_match (bs "h[a-c]llo") (bs "hdllo") = false /\
  ps_match (bs "*[0-9]") (bs "ab7c9") = true /\                 (* a failed class falls back to the star *)
  ps_match (bs "[abc") (bs "[abc") = false /\ ps_match (bs "[abc") (bs "a") = false /\   (* unterminated *)
  ps_match (bs "[]a]") (bs "a]") = false /\ ps_match (bs "[]") (bs "]") = false /\     (* ']' first: empty class *)
  ps_match (bs "[^]") (bs "x") = true /\ ps_match (bs "[^]]") (bs "x]") = true /\      (* empty negated class *)
  ps_match (bs "[a-]") (bs "-") = true /\ ps_match (bs "[a-]") (bs "b") = false /\     (* '-' at the end is a member *)
  ps_match (bs "[\]") (bs "\") = true /\                        (* backslash inside a class is a member *)
  ps_match (bs "\[n]ews") (bs "[n]ews") = true.                 (* escaped bracket *)
Proof. vm_compute. repeat split; reflexivity. Qed.

(** finding glob-class-end (open): where the class syntax differs from Redis.  The first ']'
    ends a class and there are no escapes inside one: `h[\]]llo` is the class `\` followed by
    the literal `]llo` (Redis: the class `]`); an unterminated class matches nothing (Redis: it
    runs to the end of the pattern); a reversed range is empty (Redis swaps its ends).
    [GlobSpec] states the rule as coded. *)
Example c14_glob_class_end_refuted :
  ps_match (bs "h[\]]llo") (bs "h]llo") = false /\ ps_match (bs "h[\]]llo") (bs "h\]llo") = true /\
  ps_match (bs "[abc") (bs "a") = false /\ ps_match (bs "[abc") (bs "[abc") = false /\
  ps_match (bs "[z-a]") (bs "m") = false.
Proof. vm_compute. repeat split; reflexivity. Qed.

(** 3. delivery (pubsub.rs publish after the repair 4d06fbe): the receiver list of PUBLISH is
    exactly the set of (connection, matching subscription) pairs, each once - one `message` for a
    channel subscription, one `pmessage` per matching pattern, to nobody else; the reply of PUBLISH
    is its length.  (On the code before 4d06fbe this was refuted: one entry per connection.) *)
Theorem c14_delivery : forall s ch,
  Inv s ->
  NoDup (publish s ch) /\ forall c t, In (c, t) (publish s ch) <-> is_matching s c ch t.
Proof. intros s ch HI. split; [apply publish_NoDup; exact HI | intros; apply In_publish; exact HI]. Qed.

(** per connection: what it receives is a permutation of its matching subscriptions
    (HashMap iteration order of the pattern map is not specified) *)
Theorem c14_delivery_per_connection : forall s ch c,
  Inv s -> Permutation (deliveries_to c (publish s ch)) (matching_subs s c ch).
Proof. exact delivery_full. Qed.

(** the former witness of F-14a now gets its three deliveries *)
Theorem c14_delivery_witness :
  let s := ps_run ps_init [OSub 1 [bs "news"]; OPSub 1 [bs "n*"; bs "ne*"]] in
  length (matching_subs s 1 (bs "news")) = 3%nat /\ length (publish s (bs "news")) = 3%nat.
Proof. vm_compute. split; reflexivity. Qed.

(** 5. after unsubscribing nothing more is received (until the client subscribes again) *)
Theorem c14_after_unsubscribe_nothing : forall s c names ch ops,
  Inv s -> In ch names -> Forall (no_resub_ch c ch) ops ->
  ~ In (c, None) (publish (ps_run (snd (unsubscribe s c (Some names))) ops) ch).
Proof. exact after_unsubscribe_nothing. Qed.

Theorem c14_after_punsubscribe_nothing : forall s c names p ch ops,
  Inv s -> In p names -> Forall (no_resub_pat c p) ops ->
  ~ In (c, Some p) (publish (ps_run (snd (punsubscribe s c (Some names))) ops) ch).
Proof. exact after_punsubscribe_nothing. Qed.

(** disconnect cleanup (unsubscribe_all) *)
Theorem c14_after_unsubscribe_all_nothing : forall s c ch ops,
  Inv s -> Forall (not_sub_by c) ops ->
  ~ In c (map fst (publish (ps_run (unsubscribe_all s c) ops) ch)).
Proof. exact after_unsubscribe_all_nothing. Qed.

(** 6. acknowledgements: a multi-name SUBSCRIBE is the sequence of single ones, and a single one
    reports the connection's count after it *)
Theorem c14_ack_subscribe : forall s c,
  (forall l1 l2, subscribe s c (l1 ++ l2) =
     match subscribe s c l1 with
     | (r1, s1) => match subscribe s1 c l2 with (r2, s2) => (r1 ++ r2, s2) end
     end) /\
  (forall n, fst (subscribe s c [n]) =
     [{| r_name := n; r_count := total_subs (snd (subscribe s c [n])) c;
         r_new := negb (bmem n (chan_subs s c)) |}]).
Proof. intros s c. split; [apply subscribe_app | apply subscribe_single]. Qed.

Theorem c14_ack_psubscribe : forall s c,
  (forall l1 l2, psubscribe s c (l1 ++ l2) =
     match psubscribe s c l1 with
     | (r1, s1) => match psubscribe s1 c l2 with (r2, s2) => (r1 ++ r2, s2) end
     end) /\
  (forall n, fst (psubscribe s c [n]) =
     [{| r_name := n; r_count := total_subs (snd (psubscribe s c [n])) c;
         r_new := negb (bmem n (pat_subs s c)) |}]).
Proof. intros s c. split; [apply psubscribe_app | apply psubscribe_single]. Qed.

(** (P)UNSUBSCRIBE of a connection that has an entry: one acknowledgement per name, the k-th with
    the count after the first k+1 names are gone *)
Theorem c14_ack_unsubscribe : forall s c names info,
  clookup c (ps_conns s) = Some info ->
  length (fst (unsubscribe s c (Some names))) = length names /\
  forall k r, nth_error (fst (unsubscribe s c (Some names))) k = Some r ->
    nth_error names k = Some (r_name r) /\ r_new r = false /\
    r_count r = len (bremove_all (firstn (S k) names) (chan_subs s c)) + len (pat_subs s c).
Proof. exact unsubscribe_acks. Qed.

Theorem c14_ack_punsubscribe : forall s c names info,
  clookup c (ps_conns s) = Some info ->
  length (fst (punsubscribe s c (Some names))) = length names /\
  forall k r, nth_error (fst (punsubscribe s c (Some names))) k = Some r ->
    nth_error names k = Some (r_name r) /\ r_new r = false /\
    r_count r = len (bremove_all (firstn (S k) names) (pat_subs s c)) + len (chan_subs s c).
Proof. exact punsubscribe_acks. Qed.

(** F-05d, manager level: without an entry PubSubManager returns no result; since 68e2e20 the
    server handlers answer the confirmations themselves (see c14_srv_unsub_always_acks) *)
Theorem c14_unsub_no_ack_refuted :
  exists s c names, names <> [] /\ fst (unsubscribe s c (Some names)) = [] /\
                    fst (punsubscribe s c (Some names)) = [].
Proof. exists ps_init, 1, [bs "a"]. repeat split. discriminate. Qed.

(** ======== server level (Model/Server.v process_frame_x; Proofs/PubSubSrvFacts.v) ========
    Vocabulary:
      sev                       events: EReq c request | EConnect c | EClose c (QUIT, protocol error,
                                EOF: Closing) | EDrop c (connection torn down)
      sev_run now s h           every frame written to a connection buffer along history h, in order,
                                as (connection, frame), and the final state
      stream_of d out           what connection d receives
      SrvInv s                  Inv of the manager, and every subscribed id is a live connection
      open_conn s c             c is a connection that has passed the authentication gate and is not
                                inside MULTI;  in_tx s c cn: it is inside MULTI (cn = its record)
      push_frame ch msg (c, t)  ["message", ch, msg] or ["pmessage", p, ch, msg] addressed to c *)

(** 7. the invariant holds along every history of requests, connects, closes and drops *)
Theorem c14_srv_invariant : forall now pw h, SrvInv (snd (sev_run now (init_server pw) h)).
Proof. intros. apply SrvInv_run. apply SrvInv_init. Qed.

(** 8. a PUBLISH request writes one frame per entry of the manager's receiver list (= per matching
    subscription, c14_delivery), replies their number, and changes nothing *)
Theorem c14_srv_publish : forall now s c ch msg oracle,
  SrvInv s -> open_conn s c ->
  process_frame_x now s c (publish_req ch msg) oracle =
  (map (push_frame ch msg) (publish (s_pubsub s) ch), FInt (len (publish (s_pubsub s) ch)), s).
Proof. exact publish_step. Qed.

(** 9. order.  (a) Streams only grow, in event order: for every split of a history, what a
    connection receives from the first part precedes what it receives from the second.
    (b) From one PUBLISH a connection receives exactly the frames of its matching subscriptions
    (and the publisher, after them, the reply).  (c) No other request - except an EXEC, which runs its queued PUBLISHes (14) -
    writes to anybody but its issuer.  Hence each subscriber's sequence of messages is the publish order of the matching
    messages, whoever the publishers are. *)
Theorem c14_order : forall now h1 h2 s d,
  stream_of d (fst (sev_run now s (h1 ++ h2))) =
  stream_of d (fst (sev_run now s h1)) ++ stream_of d (fst (sev_run now (snd (sev_run now s h1)) h2)).
Proof.
  intros. rewrite sev_run_app. destruct (sev_run now s h1) as [o1 s1]. cbn [fst snd].
  destruct (sev_run now s1 h2) as [o2 s2]. cbn [fst]. apply stream_of_app.
Qed.

Theorem c14_order_publish_event : forall now s c ch msg d,
  SrvInv s -> open_conn s c ->
  stream_of d (fst (sev_step now s (EReq c (publish_req ch msg)))) =
  map (fun t => snd (push_frame ch msg (d, t))) (deliveries_to d (publish (s_pubsub s) ch))
  ++ (if c =? d then [FInt (len (publish (s_pubsub s) ch))] else []) /\
  snd (sev_step now s (EReq c (publish_req ch msg))) = s.
Proof. exact publish_event_stream. Qed.

Theorem c14_order_other_requests_silent : forall now s c req oracle dct r s' d,
  process_frame_x now s c req oracle = (dct, r, s') ->
  beq (req_command req) (bs "PUBLISH") = false -> beq (req_command req) (bs "EXEC") = false ->
  d <> c -> stream_of d dct = [].
Proof. exact nonpublish_silent. Qed.

(** 10. channel, pattern and payload bytes arrive intact: the client-side decoding of the bytes
    written for pushed frames gives back exactly those frames, whatever bytes they carry *)
Theorem c14_payload_intact : forall ch msg (l : list receiver),
  len ch <= i64_max -> len msg <= i64_max ->
  Forall (fun r => match snd r with Some p => len p <= i64_max | None => True end) l ->
  decode_out (write_replies (map (fun r => snd (push_frame ch msg r)) l)) =
  (map (fun r => snd (push_frame ch msg r)) l, NeedMore).
Proof. exact pushed_frames_intact. Qed.

(** 11. acknowledgements at the server level: (P)SUBSCRIBE writes one confirmation per name with
    the manager's counts (c14_ack_subscribe) and returns NoResponse; (P)UNSUBSCRIBE with well-formed
    arguments always confirms (68e2e20), even when nothing was subscribed *)
Theorem c14_srv_subscribe_acks : forall chan s c parts names,
  2 <= len parts -> all_bulk (tl parts) = Some names ->
  h_sub chan s c parts =
  (let kind := if chan then bs "subscribe" else bs "psubscribe" in
   let res := if chan then subscribe (s_pubsub s) c names else psubscribe (s_pubsub s) c names in
   (map (fun r => (c, ack_frame kind (r_name r) (r_count r))) (fst res), FNoResponse, set_pubsub s (snd res))).
Proof. exact sub_step_acks. Qed.

Theorem c14_srv_unsub_always_acks : forall chan s c parts d r s',
  all_bulk (tl parts) <> None -> h_unsub chan s c parts = (d, r, s') ->
  r = FNoResponse /\ d <> [] \/ (exists l, tl parts = l /\ all_bulk l = Some [] /\ l <> []).
Proof. exact unsub_step_always_acks. Qed.

(** 12. after unsubscribing or disconnecting nothing more is received.  Any disconnect - the
    client closes its socket, sends QUIT, violates the protocol (the connection is Closing and
    cleanup_connections removes it at the end of the loop iteration: EClose) or is torn down after a
    read / write failure (EDrop) - removes the connection together with its subscriptions (after the
    repair 4bdfa3e, which dropped the skip of still-subscribed Closing connections), and from then
    on nothing is written to it, whatever the other connections do, until the id connects again. *)
Theorem c14_srv_after_disconnect_nothing : forall now s c e h,
  SrvInv s -> disconnects c e -> Forall (not_by c) h ->
  stream_of c (fst (sev_run now s (e :: h))) = [].
Proof. exact after_disconnect_nothing. Qed.

(** ... and it is no longer counted: the state after the disconnect has no subscription of c *)
Theorem c14_srv_disconnect_unsubscribes : forall s c,
  unsubscribed (s_pubsub (close_conn s c)) c /\ unsubscribed (s_pubsub (del_conn s c)) c /\
  has_conn (close_conn s c) c = false.
Proof.
  intros s c. split; [|split]; try (cbn [close_conn del_conn s_pubsub]; apply unsubscribed_after_all).
  unfold close_conn. rewrite has_conn_del_conn, Z.eqb_refl. reflexivity.
Qed.

(** the same for a connection that merely has no subscription left *)
Theorem c14_srv_after_gone_nothing : forall now c h s,
  SrvInv s -> unsubscribed (s_pubsub s) c -> Forall (not_by c) h ->
  stream_of c (fst (sev_run now s h)) = [].
Proof. exact after_gone_nothing. Qed.

(** the former closing-leak witness: SUBSCRIBE ch; the client closes; PUBLISH ch m reaches nobody *)
Example c14_closing_cleanup_witness :
  let h := [EConnect 1; EConnect 2; EReq 1 (FArray [FBulk (bs "SUBSCRIBE"); FBulk (bs "ch")]); EClose 1;
            EReq 2 (publish_req (bs "ch") (bs "m"))] in
  stream_of 2 (fst (sev_run 0 (snd (sev_run 0 (init_server None) (firstn 4 h))) (skipn 4 h))) = [FInt 0].
Proof. vm_compute. reflexivity. Qed.

(** 13. requests that are not pub/sub commands behave exactly as in the single-reply model on which
    C05, C07, C08, C17, C18 are stated *)
Theorem c14_srv_conservative : forall now s c req oracle,
  no_pubsub req = true ->
  process_frame_x now s c req oracle =
  ([], fst (process_frame now s c req oracle), snd (process_frame now s c req oracle)).
Proof. exact process_frame_x_plain. Qed.

(** ======== transactions (51742a5: pub/sub commands are queued inside MULTI, run at EXEC) ========
    The history theorems above (7 c14_srv_invariant, 9 c14_order, 12 after-disconnect) quantify over
    ALL histories of requests, so they already cover MULTI / EXEC / DISCARD / WATCH; what an EXEC
    itself does is stated here. *)

(** 14. inside MULTI a PUBLISH / (P)SUBSCRIBE / (P)UNSUBSCRIBE (any command but MULTI, EXEC, DISCARD,
    WATCH, UNWATCH) is only queued: nothing is written to anybody, no subscription changes *)
Theorem c14_tx_queued_inert : forall now s c cn nm rest oracle,
  in_tx s c cn -> mem_name (upper (trim nm)) tx_not_queued = false ->
  process_frame_x now s c (FArray (FBulk nm :: rest)) oracle =
  ([], FSimple (bs "QUEUED"), set_conn s c (with_tx cn true (c_queue cn ++ [FBulk nm :: rest]) (c_watched cn))).
Proof. exact queued_inert. Qed.

Theorem c14_tx_pubsub_names_are_queued :
  forallb (fun n => negb (mem_name n tx_not_queued))
          [bs "PUBLISH"; bs "SUBSCRIBE"; bs "PSUBSCRIBE"; bs "UNSUBSCRIBE"; bs "PUNSUBSCRIBE"] = true /\
  forall s c cn, s_pubsub (set_conn s c cn) = s_pubsub s.
Proof. split; [vm_compute; reflexivity | reflexivity]. Qed.

(** DISCARD, and an EXEC aborted by a WATCH violation, leave it so *)
Theorem c14_tx_discard_inert : forall now s c cn oracle,
  in_tx s c cn ->
  process_frame_x now s c (FArray [FBulk (bs "DISCARD")]) oracle = ([], r_ok, set_conn s c (clear_tx cn)).
Proof. exact discard_inert. Qed.

Theorem c14_tx_aborted_exec_inert : forall now s c cn oracle,
  in_tx s c cn -> watch_violated now s cn = true ->
  process_frame_x now s c (FArray [FBulk (bs "EXEC")]) oracle = ([], FNullArray, set_conn s c (clear_tx cn)).
Proof. exact exec_aborted_inert. Qed.

(** 15. EXEC runs the queue in order; direct frames (pushed messages) and reply elements come out
    in queue order, all direct frames being written before the EXEC reply is returned *)
Theorem c14_tx_exec_runs_queue : forall now s c cn oracle,
  in_tx s c cn -> watch_violated now s cn = false ->
  process_frame_x now s c (FArray [FBulk (bs "EXEC")]) oracle =
  match exec_queue_x now (set_conn s c (clear_tx cn)) c (c_db cn) (c_queue cn) [] [] with
  | (direct, reps, s2) => (direct, FArray reps, s2)
  end.
Proof. exact exec_runs_x. Qed.

Theorem c14_tx_exec_in_queue_order : forall now c parts q s dbi,
  exec_queue_x now s c dbi (parts :: q) [] [] =
  match exec_one_x now s c dbi parts with
  | (d1, r1, s1, dbi1) =>
      match exec_queue_x now s1 c dbi1 q [] [] with (d, r, s') => (d1 ++ d, r1 ++ r, s') end
  end.
Proof. exact exec_queue_x_cons. Qed.

(** 16. at EXEC each queued PUBLISH runs the handler of a direct PUBLISH in the state reached at that
    point of the queue: same receiver list (c14_delivery), same frames, its count in its slot *)
Theorem c14_tx_queued_publish_is_direct : forall now s c dbi parts,
  queued_name parts = bs "PUBLISH" ->
  exec_one_x now s c dbi parts = match h_publish s parts with (d, r, s') => (d, [r], s', dbi) end.
Proof. exact exec_one_publish. Qed.

Theorem c14_tx_direct_publish_handler : forall now s c cn nm rest oracle,
  zlookup c (s_conns s) = Some cn ->
  (match s_password s with Some _ => true | None => false end) && negb (c_auth cn) = false ->
  c_intx cn = false -> upper (trim nm) = bs "PUBLISH" ->
  process_frame_x now s c (FArray (FBulk nm :: rest)) oracle = h_publish s (FBulk nm :: rest).
Proof. exact direct_publish_handler. Qed.

Theorem c14_tx_queued_publish : forall now s c dbi ch msg,
  SrvInv s ->
  exec_one_x now s c dbi [FBulk (bs "PUBLISH"); FBulk ch; FBulk msg] =
  (map (push_frame ch msg) (publish (s_pubsub s) ch), [FInt (len (publish (s_pubsub s) ch))], s, dbi).
Proof. exact exec_one_publish_req. Qed.

(** 17. queued (P)SUBSCRIBE / (P)UNSUBSCRIBE run for the connection that sent EXEC; their
    confirmations - the manager's counts - are elements of the EXEC reply, nothing is written directly *)
Theorem c14_tx_queued_subscribe : forall now s c dbi parts (chan : bool) names,
  queued_name parts = (if chan then bs "SUBSCRIBE" else bs "PSUBSCRIBE") ->
  2 <= len parts -> all_bulk (tl parts) = Some names ->
  exec_one_x now s c dbi parts =
  (let kind := if chan then bs "subscribe" else bs "psubscribe" in
   let res := if chan then subscribe (s_pubsub s) c names else psubscribe (s_pubsub s) c names in
   ([], map (fun r => ack_frame kind (r_name r) (r_count r)) (fst res), set_pubsub s (snd res), dbi)).
Proof. exact exec_one_sub. Qed.

Theorem c14_tx_queued_unsubscribe : forall now s c dbi parts (chan : bool),
  queued_name parts = (if chan then bs "UNSUBSCRIBE" else bs "PUNSUBSCRIBE") ->
  exec_one_x now s c dbi parts =
  match h_unsub chan s c parts with
  | (direct, FNoResponse, s') => ([], map snd direct, s', dbi)
  | (direct, r, s') => (direct, [r], s', dbi)
  end.
Proof. exact exec_one_unsub. Qed.

(** 18. bridge to C07: an EXEC whose queue holds no PUBLISH / (P)SUBSCRIBE / (P)UNSUBSCRIBE / AUTH is
    the plain executor and writes nothing directly *)
Theorem c14_tx_plain_exec : forall now s c cn,
  forallb plain_queued (c_queue cn) = true ->
  h_exec_x now s c cn = ([], fst (h_exec now s c cn), snd (h_exec now s c cn)).
Proof. exact h_exec_x_plain. Qed.

(** a transaction end to end: client 1 is subscribed to ch; inside MULTI it queues PUBLISH ch a,
    SUBSCRIBE x y, PUBLISH x b; nothing is delivered before EXEC; at EXEC it receives message ch a
    and message x b (it is its own subscriber) BEFORE the EXEC reply [1, confirmations, 1];
    client 2 (subscribed to the pattern that is a single star) receives both *)
Example c14_tx_witness :
  let req l := FArray (map FBulk l) in
  let h0 := [EConnect 1; EConnect 2; EReq 1 (req [bs "SUBSCRIBE"; bs "ch"]); EReq 2 (req [bs "PSUBSCRIBE"; bs "*"]);
             EReq 1 (req [bs "MULTI"]); EReq 1 (req [bs "PUBLISH"; bs "ch"; bs "a"]);
             EReq 1 (req [bs "SUBSCRIBE"; bs "x"; bs "y"]); EReq 1 (req [bs "PUBLISH"; bs "x"; bs "b"])] in
  let r0 := sev_run 0 (init_server None) h0 in
  stream_of 2 (skipn 2 (fst r0)) = [] /\
  stream_of 1 (skipn 2 (fst r0)) = [r_ok; FSimple (bs "QUEUED"); FSimple (bs "QUEUED"); FSimple (bs "QUEUED")] /\
  let r1 := sev_step 0 (snd r0) (EReq 1 (req [bs "EXEC"])) in
  stream_of 1 (fst r1) =
    [msg_frame (bs "ch") (bs "a"); msg_frame (bs "x") (bs "b");
     FArray [FInt 2; ack_frame (bs "subscribe") (bs "x") 2; ack_frame (bs "subscribe") (bs "y") 3; FInt 2]] /\
  stream_of 2 (fst r1) = [pmsg_frame (bs "*") (bs "ch") (bs "a"); pmsg_frame (bs "*") (bs "x") (bs "b")].
Proof. vm_compute. repeat split. Qed.

(** witnesses at the server level: per-subscription delivery (F-14a repaired), self-delivery before
    the reply, confirmations when nothing is subscribed (F-05d repaired) *)
Example c14_srv_witness :
  let h := [EConnect 1; EConnect 2;
            EReq 1 (FArray [FBulk (bs "SUBSCRIBE"); FBulk (bs "news")]);
            EReq 1 (FArray [FBulk (bs "PSUBSCRIBE"); FBulk (bs "n*"); FBulk (bs "ne*")])] in
  let s := snd (sev_run 0 (init_server None) h) in
  stream_of 1 (fst (sev_step 0 s (EReq 2 (publish_req (bs "news") (bs "hi"))))) =
    [msg_frame (bs "news") (bs "hi"); pmsg_frame (bs "ne*") (bs "news") (bs "hi"); pmsg_frame (bs "n*") (bs "news") (bs "hi")] /\
  stream_of 2 (fst (sev_step 0 s (EReq 2 (publish_req (bs "news") (bs "hi"))))) = [FInt 3] /\
  stream_of 2 (fst (sev_step 0 s (EReq 2 (FArray [FBulk (bs "UNSUBSCRIBE")])))) =
    [ack_nil_frame (bs "unsubscribe") 0].
Proof. vm_compute. repeat split. Qed.

(** non-vacuity: a reachable state satisfying the hypotheses, with deliveries *)
Example c14_nonvacuous :
  let s := ps_run ps_init [OSub 1 [bs "news"]; OSub 2 [bs "news"]; OPSub 3 [bs "news*"]; OPSub 2 [bs "x*"]] in
  Forall nonempty_subs [OSub 1 [bs "news"]] /\
  (length (matching_subs s 2 (bs "news")) <= 1)%nat /\
  deliveries_to 2 (publish s (bs "news")) = [None] /\
  map fst (publish s (bs "news.sports")) = [3].
Proof. vm_compute. repeat split; try lia. constructor; [exact I | constructor]. Qed.
