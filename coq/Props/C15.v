(** C15 - Streams are append-only logs with strictly increasing IDs and exact ranges.
    Statements only; proofs are in Proofs/StreamFacts.v.  The model (Model/Streams.v)
    mirrors src/storage/stream.rs, commands/streams.rs and the engine.rs x* functions:
    the sorted entry vector with its binary searches as written, last_id, the atomics
    last_id_millis / last_id_seq / length, ID text parsing with checked arithmetic.
    The wall clock behind `XADD key *` is universally quantified ([now_ms]). *)
From Ferrous Require Import Base.Bytes Model.Resp Model.Types Model.Strings Model.Streams
  Proofs.BytesFacts Proofs.StreamFacts Proofs.GroupFacts.
From Coq Require Import Sorting.Sorted.
Open Scope Z_scope.

(** The stream invariant: entries strictly sorted by ID, every ID <= last_id, the
    atomics equal last_id, the length counter equals the number of entries.  It holds
    initially and after every history of XADD (auto IDs at arbitrary clock readings,
    explicit IDs incl. refused and future ones), XDEL and XTRIM; the IDs added along the
    history are strictly increasing - each is greater than every ID ever added before,
    also after deletions and trimming. *)
Theorem c15_ids_increase :
  forall ops s, SInv s -> Forall sop_ok ops ->
  SInv (fst (run_ops s ops)) /\
  StronglySorted sid_lt (s_last s :: snd (run_ops s ops)) /\
  sid_le (s_last s) (s_last (fst (run_ops s ops))) /\
  Forall (fun i => sid_le i (s_last (fst (run_ops s ops)))) (snd (run_ops s ops)).
Proof. exact history_ids_increase. Qed.

Theorem c15_invariant_initially : SInv empty_stream.
Proof. exact SInv_empty. Qed.

(** `XADD key *`: for every clock reading the new ID is greater than last_id and than
    every present entry; the entry is appended with its fields. *)
Theorem c15_auto_greater :
  forall now s f id s', SInv s -> st_add_auto now s f = Some (id, s') ->
  SInv s' /\ sid_lt (s_last s) id /\ Forall (fun e => sid_lt (fst e) id) (s_entries s) /\
  s_last s' = id /\ s_entries s' = s_entries s ++ [(id, f)].
Proof. exact add_auto_inv. Qed.

(** ... and it is refused exactly when the clock is not ahead of last_id and both the
    sequence number and the millisecond are at u64::MAX (after the repair fb507d0 an
    exhausted sequence number moves on to the next millisecond); for u64 IDs that is
    exactly when no greater ID exists. *)
Theorem c15_auto_refused_iff :
  forall now s f, st_add_auto now s f = None <->
  (now <= s_ams s /\ u64_max < s_aseq s + 1 /\ u64_max < s_ams s + 1).
Proof. exact add_auto_none. Qed.
Theorem c15_auto_refused_only_when_exhausted :
  forall now s f, SInv s -> in_u64 (s_last s) -> st_add_auto now s f = None ->
  s_last s = (u64_max, u64_max) /\ forall id, in_u64 id -> sid_le id (s_last s).
Proof. exact add_auto_refused_exhausted. Qed.

(** the ID reported by the implementation is accepted by the model exactly when some
    clock reading produces it *)
Theorem c15_auto_oracle_sound :
  forall s oid n, auto_clock s oid = Some n -> exists ms sq, gen_next n s = Some (oid, ms, sq).
Proof. exact auto_clock_sound. Qed.
Theorem c15_auto_oracle_complete :
  forall s now id ms sq, gen_next now s = Some (id, ms, sq) ->
  exists n, auto_clock s id = Some n /\ gen_next n s = Some (id, ms, sq).
Proof. exact auto_clock_complete. Qed.

(** An explicit ID not greater than last_id is refused; a greater one is accepted and
    becomes last_id.  A refused or otherwise failing XADD, XDEL, XTRIM leaves the
    database untouched; the read commands never change it. *)
Theorem c15_explicit_refused :
  forall s id f, sid_le id (s_last s) -> st_add_with_id s id f = None.
Proof. exact add_with_id_refused. Qed.
Theorem c15_explicit_accepted :
  forall s id f, SInv s -> sid_lt (s_last s) id -> st_add_with_id s id f <> None.
Proof. exact add_with_id_accepted. Qed.
Theorem c15_explicit_effect :
  forall s id f s', SInv s -> st_add_with_id s id f = Some s' ->
  SInv s' /\ sid_lt (s_last s) id /\ s_last s' = id /\ s_entries s' = s_entries s ++ [(id, f)].
Proof. exact add_with_id_inv. Qed.
Theorem c15_xadd_error_no_effect :
  forall d parts oracle, is_error (fst (h_xadd d parts oracle)) = true -> snd (h_xadd d parts oracle) = d.
Proof. exact xadd_error_atomic. Qed.
Theorem c15_xdel_error_no_effect :
  forall d parts, is_error (fst (h_xdel d parts)) = true -> snd (h_xdel d parts) = d.
Proof. exact xdel_error_atomic. Qed.
Theorem c15_xtrim_error_no_effect :
  forall d parts, is_error (fst (h_xtrim d parts)) = true -> snd (h_xtrim d parts) = d.
Proof. exact xtrim_error_atomic. Qed.
Theorem c15_reads_pure :
  forall d parts,
  snd (h_xrange d parts) = d /\ snd (h_xrevrange d parts) = d /\ snd (h_xlen d parts) = d /\ snd (h_xread d parts) = d.
Proof. exact xreads_pure. Qed.

(** At the level of the commands: for every database in which all streams satisfy the
    invariant, every argument list and every reported auto ID, the database after XADD,
    XDEL, XTRIM is again such a database (the other stream commands do not touch entries). *)
Theorem c15_commands_keep_invariant :
  forall d parts oracle, DbInv d ->
  DbInv (snd (h_xadd d parts oracle)) /\ DbInv (snd (h_xdel d parts)) /\ DbInv (snd (h_xtrim d parts)).
Proof. exact stream_writes_db_inv. Qed.
Theorem c15_empty_db_invariant : DbInv empty_db.
Proof. exact DbInv_empty. Qed.

(** XRANGE / XREVRANGE (StreamData::range with its two binary searches, after the repair
    dc07967) return exactly the present entries with start <= ID <= end, in ID order
    (reversed for XREVRANGE), cut to COUNT - for ALL bounds. *)
Theorem c15_range_spec :
  forall es st en count reverse, sorted es ->
  st_range es st en count reverse = range_spec es st en count reverse.
Proof. exact range_correct. Qed.

(** XREAD (StreamData::range_after): the present entries with a greater ID, cut to COUNT *)
Theorem c15_read_spec :
  forall es after count, sorted es ->
  st_range_after es after count = take_count count (filter (p_gt after) es).
Proof. exact range_after_spec. Qed.

(** XLEN (the atomic length counter) = number of present entries, after any history
    (by the invariant); XDEL removes exactly the listed present entries and answers
    their number; XTRIM keeps the newest [maxlen] entries. *)
Theorem c15_xlen :
  forall ops s, SInv s -> Forall sop_ok ops ->
  s_len (fst (run_ops s ops)) = len (s_entries (fst (run_ops s ops))).
Proof. intros ops s Hs Hok. apply inv_len. apply (history_ids_increase ops s Hs Hok). Qed.
Theorem c15_xdel_effect :
  forall s ids, SInv s ->
  SInv (snd (st_delete s ids)) /\ s_last (snd (st_delete s ids)) = s_last s /\
  s_entries (snd (st_delete s ids)) = filter (fun e => negb (sid_mem (fst e) ids)) (s_entries s) /\
  fst (st_delete s ids) = len (s_entries s) - len (s_entries (snd (st_delete s ids))).
Proof. exact delete_inv. Qed.
Theorem c15_xtrim_effect :
  forall s maxlen, SInv s -> 0 <= maxlen ->
  SInv (snd (st_trim s maxlen)) /\ s_last (snd (st_trim s maxlen)) = s_last s /\
  s_entries (snd (st_trim s maxlen)) = zskipn (fst (st_trim s maxlen)) (s_entries s) /\
  fst (st_trim s maxlen) = Z.max 0 (len (s_entries s) - maxlen).
Proof. exact trim_inv. Qed.

(** entries keep their field-value pairs: an added entry is found under its ID with
    the fields it was given, and no other entry changes (XDEL/XTRIM only drop entries:
    see the two theorems above) *)
Theorem c15_fields_kept :
  forall s id f s', SInv s -> s_entries s' = s_entries s ++ [(id, f)] -> sid_lt (s_last s) id ->
  find_entry id (s_entries s') = Some (id, f) /\
  forall id', id' <> id -> find_entry id' (s_entries s') = find_entry id' (s_entries s).
Proof. exact added_entry_kept. Qed.

(** ---- refutations (known findings) and witnesses, kernel-checked ---- *)
Local Open Scope string_scope.

(** formerly F-15a (class xrange-end-below-first, fixed by dc07967): the witness now answers
    empty ranges *)
Example c15_range_witness :
  fst (run_cmds 0 empty_db [cmd ["XADD"; "s"; "5-0"; "a"; "1"]; cmd ["XRANGE"; "s"; "0-1"; "0-2"];
                            cmd ["XREVRANGE"; "s"; "0-2"; "0-1"]; cmd ["XRANGE"; "s"; "6-0"; "7-0"];
                            cmd ["XRANGE"; "s"; "-"; "+"]])
  = [bulk "5-0"; FArray []; FArray []; FArray [];
     FArray [FArray [bulk "5-0"; FArray [bulk "a"; bulk "1"]]]].
Proof. vm_compute. reflexivity. Qed.

(** formerly F-06i (class xadd-seq-overflow, fixed by fb507d0): an exhausted sequence
    number rolls over to the next millisecond; at u64::MAX-u64::MAX XADD * is refused
    with an error and without effect *)
Example c15_auto_rollover_witness :
  let s := {| s_entries := [((5, u64_max), [])]; s_last := (5, u64_max); s_ams := 5; s_aseq := u64_max;
              s_len := 1; s_groups := [] |} in
  option_map fst (st_add_auto 3 s []) = Some (6, 0) /\ option_map fst (st_add_auto 9 s []) = Some (9, 0).
Proof. vm_compute. auto. Qed.
Example c15_auto_exhausted_witness :
  fst (run_cmds 0 empty_db [cmd ["XADD"; "s"; "18446744073709551615-18446744073709551615"; "a"; "1"];
                            cmd ["XADD"; "s"; "*"; "a"; "1"]; cmd ["XLEN"; "s"]])
  = [bulk "18446744073709551615-18446744073709551615"; r_err; FInt 1].
Proof. vm_compute. reflexivity. Qed.

(** formerly F-15b (class stream-id-text, fixed by 3be45c2): ID text -> ID is exact.
    [parse_digits] (Base/Bytes.v) is the declarative reading of a decimal number: at least one
    byte, digits only, its unbounded value.  One part of an ID is accepted iff it is such a
    number and fits in 64 bits, and then it is that number; a whole text is accepted iff it is
    <number> '-' <number>, and then denotes exactly that pair (StreamId::from_string; used by
    XADD, XRANGE, XREVRANGE, XREAD, XDEL, XACK, XCLAIM, XPENDING, XGROUP CREATE / SETID and
    XREADGROUP).  The special forms are recognised by the handlers before from_string is
    asked: "*" (XADD), "-" / "+" (range bounds, [c15_bound_text]), "$" (XREAD, XGROUP),
    "0" (XREAD, XGROUP CREATE, XREADGROUP), ">" (XREADGROUP). *)
Theorem c15_id_part_exact :
  forall l v, parse_u64_fast l = Some v <-> parse_digits l = Some v /\ v <= u64_max.
Proof. exact parse_u64_fast_exact. Qed.
Theorem c15_id_text_exact :
  forall l a b, sid_of_bytes l = Some (a, b) <->
  exists da db, l = (da ++ 45 :: db)%list /\ parse_digits da = Some a /\ parse_digits db = Some b /\
                a <= u64_max /\ b <= u64_max.
Proof. exact id_text_exact. Qed.
(** what is refused: no '-' at all, or - split at the first '-' - a part that is empty, holds a
    non-digit, or exceeds u64::MAX *)
Theorem c15_id_text_rejected :
  forall l, sid_of_bytes l = None <->
  ~ In 45 l \/
  exists da db, l = (da ++ 45 :: db)%list /\ ~ In 45 da /\
    (forall a b, ~ (parse_digits da = Some a /\ parse_digits db = Some b /\ a <= u64_max /\ b <= u64_max)).
Proof. exact id_text_rejected. Qed.
Theorem c15_id_text_in_u64 : forall l i, sid_of_bytes l = Some i -> in_u64 i.
Proof. exact id_text_in_u64. Qed.
(** the text the server prints for an ID is read back as that ID, for every u64 ID *)
Theorem c15_id_text_roundtrip : forall i, in_u64 i -> sid_of_bytes (sid_to_bytes i) = Some i.
Proof. exact id_text_roundtrip. Qed.
(** range bounds: the special form, or an ID *)
Theorem c15_bound_text :
  forall special v b i, parse_bound special v b = Some i <->
  (b = special /\ i = v) \/ (b <> special /\ sid_of_bytes b = Some i).
Proof.
  intros special v b i. unfold parse_bound. destruct (beq b special) eqn:E.
  - apply beq_eq in E. split; [intros H; inversion H; auto | intros [[_ ->]|[H _]]; [reflexivity | contradiction]].
  - apply beq_false_ne in E. split; [auto | intros [[H _]|[_ H]]; [contradiction | exact H]].
Qed.
(** the witnesses of the finding are refused now; the greatest ID is still accepted *)
Example c15_id_text_witness :
  sid_of_bytes (bs "18446744073709551617-1") = None /\ sid_of_bytes (bs "1-18446744073709551616") = None /\
  sid_of_bytes (bs "5-") = None /\ sid_of_bytes (bs "-5") = None /\ sid_of_bytes (bs "-") = None /\
  sid_of_bytes (bs "5") = None /\ sid_of_bytes (bs "5-3-1") = None /\ sid_of_bytes (bs "007-00") = Some (7, 0) /\
  sid_of_bytes (bs "18446744073709551615-18446744073709551615") = Some (u64_max, u64_max) /\
  fst (run_cmds 0 empty_db [cmd ["XADD"; "s"; "18446744073709551617-1"; "a"; "1"]; cmd ["XADD"; "s"; "5-"; "a"; "1"];
                            cmd ["XADD"; "s"; "-5"; "a"; "1"]; cmd ["XLEN"; "s"]])
  = [r_err; r_err; r_err; FInt 0].
Proof. vm_compute. repeat split; reflexivity. Qed.

(** F-15b, class xadd-duplicate-fields (open: the repair needs the entry container changed
    from a map to a sequence, and an existing unit test of /repo constructs that type directly):
    fields are a map, a repeated field name keeps only the last value *)
Lemma c15_duplicate_fields_refuted :
  parse_fields (cmd ["f"; "1"; "f"; "2"]) [] = Some [(bs "f", bs "2")].
Proof. vm_compute. reflexivity. Qed.

(** ---- non-vacuity ---- *)
Example c15_history_example :
  let ops := [OAddId (5, 0) []; OAddAuto 3 []; OAddAuto 9 []; OAddAuto 9 []; ODel [(9, 0)]; OAddId (9, 0) [];
              OTrim 1; OAddAuto 2 []] in
  snd (run_ops empty_stream ops) = [(5, 0); (5, 1); (9, 0); (9, 1); (9, 2)] /\
  map fst (s_entries (fst (run_ops empty_stream ops))) = [(9, 1); (9, 2)] /\
  Forall sop_ok ops.
Proof. vm_compute. repeat split; repeat constructor; discriminate. Qed.
