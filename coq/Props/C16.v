(** C16 - Consumer groups deliver each entry once and account pending entries exactly.
    Statements only; proofs are in Proofs/GroupFacts.v.  The model (Model/Streams.v,
    sections 3 and 7) mirrors src/storage/consumer_groups.rs, the group functions of
    stream.rs and commands/consumer_groups.rs: the cursor last_delivered_id, the pending
    set kept four times (BTreeMap by ID, per-consumer ID vectors, per-consumer counters,
    total counter) plus the consumer counter and the cached ID bounds. *)
From Ferrous Require Import Base.Bytes Model.Resp Model.Types Model.Strings Model.Streams
  Proofs.BytesFacts Proofs.StreamFacts Proofs.GroupFacts.
From Coq Require Import Sorting.Sorted.
Open Scope Z_scope.

(** The group invariant [GInv] (the four representations agree): the by-ID map is strictly
    sorted; each consumer's ID vector is duplicate-free and holds exactly the IDs the map
    assigns to that consumer (so every pending entry has exactly one owner); no empty vector
    is stored; every owner is a registered consumer whose counter equals the length of its
    vector; total = size of the map; consumer counter = number of consumers (names distinct);
    cached min/max are the map's bounds.  It says nothing about the cursor.  It holds for a
    new group and is preserved by EVERY operation: reads with ">" or with an explicit ID
    (after the repairs da451f0 and 92eb72a also when the cursor was moved back), XACK,
    XCLAIM, DELCONSUMER, CREATECONSUMER, SETID to any ID. *)
Theorem c16_agree_new : forall start, GInv (mk_group start).
Proof. exact GInv_mk. Qed.

Theorem c16_agree_read :
  forall now s g c after count noack, SInv s -> GInv g ->
  GInv (snd (st_read_group now s g c after count noack)).
Proof. exact read_group_ginv. Qed.

Theorem c16_agree_ack : forall g ids, GInv g -> GInv (snd (g_acknowledge g ids)).
Proof. intros g ids Hg. apply (acknowledge_inv g ids Hg). Qed.

Theorem c16_agree_claim :
  forall now g c min_idle ids force, GInv g -> GInv (snd (g_claim now g c min_idle ids force)).
Proof. intros now g c mi ids f Hg. apply (claim_inv now g c mi ids f Hg). Qed.

Theorem c16_agree_delconsumer : forall g c, GInv g -> GInv (snd (g_delete_consumer g c)).
Proof. intros g c Hg. apply (delete_consumer_inv g c Hg). Qed.

Theorem c16_agree_createconsumer : forall g c, GInv g -> GInv (snd (g_create_consumer g c)).
Proof. exact create_consumer_ginv. Qed.

Theorem c16_agree_setid : forall g i, GInv g -> GInv (set_last g i).
Proof. exact set_last_inv. Qed.

(** Administration touches exactly one group record: CREATE appends a new group that
    satisfies the invariant, DESTROY removes that group only, every other command replaces
    only the record of the group it names. *)
Theorem c16_admin_create :
  forall gs gn start, groups_ok gs -> alookup gn gs = None -> groups_ok (gs ++ [(gn, mk_group start)]).
Proof. exact groups_ok_create. Qed.
Theorem c16_admin_destroy :
  forall gs gn, groups_ok gs -> groups_ok (aremove gn gs) /\ alookup gn (aremove gn gs) = None /\
  forall gn', gn' <> gn -> alookup gn' (aremove gn gs) = alookup gn' gs.
Proof. exact groups_ok_destroy. Qed.
Theorem c16_admin_update :
  forall gs gn g', groups_ok gs -> GInv g' -> groups_ok (aput gn g' gs) /\
  forall gn', gn' <> gn -> alookup gn' (aput gn g' gs) = alookup gn' gs.
Proof. exact groups_ok_update. Qed.

(** Along ALL histories, at the level of the commands: [DbGInv d] = every stream stored in
    the database satisfies the stream invariant and every group of every stream satisfies
    [GInv].  It holds for the empty database and is preserved by every command of the family
    (XADD XRANGE XREVRANGE XLEN XREAD XTRIM XDEL XGROUP * XREADGROUP XACK XCLAIM XPENDING
    XINFO), for every argument list, at every time, failing or not - no exceptions. *)
Theorem c16_invariant_initially : DbGInv empty_db.
Proof. exact DbGInv_empty. Qed.
Theorem c16_invariant_every_command :
  forall now d name parts oracle reply d', DbGInv d ->
  exec_streams now d name parts oracle = Some (reply, d') -> DbGInv d'.
Proof. exact exec_streams_dbg. Qed.
Theorem c16_invariant_every_history :
  forall now cs d, DbGInv d -> DbGInv (snd (run_cmds now d cs)).
Proof. intros now cs d. apply run_cmds_dbg. Qed.

(** Exactly-once delivery, in ID order, through ">": over every history of stream
    operations, ">"-reads by any consumers with any COUNT, explicit-ID re-reads, XACK,
    XCLAIM, DELCONSUMER and CREATECONSUMER (everything but SETID, which is the command for
    delivering again), starting from any state satisfying the invariants with the cursor not
    ahead of the stream: both invariants hold at the end; the log of IDs delivered through
    ">" is strictly increasing and above the initial cursor (no entry is delivered twice, to
    whatever consumer); the cursor only moves forward and bounds the log; and every entry
    present at the end with an ID above the initial cursor and at or below the final cursor
    is in the log.  ([step_facts] spells these clauses out.) *)
Theorem c16_exactly_once :
  forall ops s g, SInv s -> GInv g -> sid_le (g_last g) (s_last s) -> Forall gop_ok ops ->
  match grun s g ops with (s2, g2, log) => step_facts s g s2 g2 log end.
Proof. exact group_history. Qed.

(** ... in particular for a group created at any start position not ahead of the stream
    ("$" = the last present entry, 0, or an explicit ID; after the repair 542e5a3 the
    cursor starts there): nothing at or below the start position is ever delivered, and
    NOACK reads (after the repair 18325a2) take part in the same strictly increasing log. *)
Theorem c16_exactly_once_any_start :
  forall ops s start, SInv s -> sid_le start (s_last s) -> Forall gop_ok ops ->
  match grun s (mk_group start) ops with (s2, g2, log) => step_facts s (mk_group start) s2 g2 log end.
Proof. intros ops s start Hs Hle Hok. apply group_history; [assumption|apply GInv_mk|exact Hle|assumption]. Qed.
Theorem c16_dollar_start_not_ahead :
  forall s i, SInv s -> last_entry_id s = Some i -> sid_le i (s_last s).
Proof. exact last_entry_le_last. Qed.
(** ... and along such histories no pending ID is ever above the cursor *)
Theorem c16_pending_below_cursor :
  forall ops s g, SInv s -> GInv g -> BelowCursor g -> sid_le (g_last g) (s_last s) -> Forall gop_ok ops ->
  BelowCursor (snd (fst (grun s g ops))).
Proof. exact group_history_below. Qed.

(** one ">"-read returns the first COUNT present entries above the cursor, in ID order,
    moves the cursor to the last of them and (unless NOACK) makes the reader their owner -
    wherever the cursor is, whoever owned them before *)
Theorem c16_read_new :
  forall now s g c count noack, SInv s -> GInv g ->
  let r := st_read_group now s g c sid_max count noack in
  fst r = take_count count (filter (p_gt (g_last g)) (s_entries s)) /\
  GInv (snd r) /\
  sorted (fst r) /\ Forall (fun e => sid_lt (g_last g) (fst e)) (fst r) /\
  (fst r = [] -> snd r = g) /\
  (forall e rest, rev (fst r) = e :: rest -> g_last (snd r) = fst e) /\
  (forall id, owner (g_by_id (snd r)) id =
              if negb noack && sid_mem id (map fst (fst r)) then Some c else owner (g_by_id g) id).
Proof. exact read_new_inv. Qed.

(** formerly class setid-redelivery (fixed by 92eb72a): after XGROUP SETID to an earlier ID
    a ">"-read by any consumer delivers still-pending entries again; each of them then has
    exactly one owner, the reader - it is in the reader's index and in nobody else's - and
    (by [c16_agree_read] and [c16_xpending_exact]) XPENDING's total, bounds and per-consumer
    counts are those of the actual pending set *)
Theorem c16_redelivery_single_owner :
  forall now s g c count, SInv s -> GInv g ->
  let r := st_read_group now s g c sid_max count false in
  forall e, In e (fst r) ->
    owner (g_by_id (snd r)) (fst e) = Some c /\
    forall c', In (fst e) (bcg c' (g_by_consumer (snd r))) <-> c' = c.
Proof. exact read_new_single_owner. Qed.

(** formerly class explicit-id-reread (fixed by da451f0): a read with an explicit ID returns
    exactly the reader's own pending entries above that ID - the first COUNT of them in ID
    order, [sel]; the ones deleted from the stream are left out - and changes nothing but
    delivery counters: cursor, per-consumer index, total and bounds are untouched, the
    pending IDs and their owners are the same, exactly the selected entries get delivery
    count + 1 and the delivery time [now]; the reader is registered as a consumer *)
Theorem c16_read_own :
  forall now s g c after count noack, sid_eqb after sid_max = false -> GInv g ->
  let r := st_read_group now s g c after count noack in
  let sel := map p_id (take_count count (own_pending_after g c after)) in
  fst r = filter_map (fun id => find_entry id (s_entries s)) sel /\
  GInv (snd r) /\
  g_last (snd r) = g_last g /\ g_by_consumer (snd r) = g_by_consumer g /\ g_total (snd r) = g_total g /\
  g_min (snd r) = g_min g /\ g_max (snd r) = g_max g /\
  g_consumers (snd r) = g_consumers (snd (g_create_consumer g c)) /\
  g_ncons (snd r) = g_ncons (snd (g_create_consumer g c)) /\
  map p_id (g_by_id (snd r)) = map p_id (g_by_id g) /\
  (forall id, owner (g_by_id (snd r)) id = owner (g_by_id g) id) /\
  (forall id, pel_find id (g_by_id (snd r))
              = option_map (fun q => if sid_mem id sel then bump now q else q) (pel_find id (g_by_id g))).
Proof. exact read_own_spec. Qed.
Theorem c16_read_own_entries :
  forall now s g c after count noack, sid_eqb after sid_max = false -> SInv s -> GInv g ->
  let r := st_read_group now s g c after count noack in
  let sel := map p_id (take_count count (own_pending_after g c after)) in
  sorted (fst r) /\ forall e, In e (fst r) <-> In e (s_entries s) /\ In (fst e) sel.
Proof. exact read_own_entries. Qed.

(** formerly class xreadgroup-partial-failure (fixed by 3384736): an XREADGROUP that answers
    an error - whichever key, ID or group of a multi-key command is the offending one -
    changes no stream and no group: the database afterwards is the database before minus the
    expired keys storage.get removed on the way; with no expired key it is the same database *)
Theorem c16_xreadgroup_error_no_effect :
  forall now d parts, is_error (fst (h_xreadgroup now d parts)) = true ->
  exists ks, snd (h_xreadgroup now d parts) = expire_keys now ks d.
Proof. exact xreadgroup_error_atomic. Qed.
Theorem c16_xreadgroup_error_same_db :
  forall now d parts, (forall k e, get_entry d k = Some e -> expired now e = false) ->
  is_error (fst (h_xreadgroup now d parts)) = true -> snd (h_xreadgroup now d parts) = d.
Proof. exact xreadgroup_error_no_effect. Qed.

(** XACK answers the number of listed IDs that were pending, each counted once; exactly
    those leave the pending set; acknowledging them again answers 0 *)
Theorem c16_ack_once :
  forall g ids, GInv g ->
  fst (g_acknowledge g ids) = len (filter (fun p => sid_mem (p_id p) ids) (g_by_id g)) /\
  g_by_id (snd (g_acknowledge g ids)) = filter (fun p => negb (sid_mem (p_id p) ids)) (g_by_id g) /\
  fst (g_acknowledge (snd (g_acknowledge g ids)) ids) = 0.
Proof. exact ack_counts_once. Qed.

(** XCLAIM of a pending entry (FORCE, or idle for at least min-idle-time) makes the
    claimer its owner, counts one more delivery and touches no other entry; below the
    idle threshold nothing is claimed *)
Theorem c16_claim_moves :
  forall now g c min_idle id force e, GInv g -> pel_find id (g_by_id g) = Some e ->
  (force = true \/ min_idle <= Z.max 0 (now - p_time e)) ->
  fst (g_claim now g c min_idle [id] force) = [id] /\
  pel_find id (g_by_id (snd (g_claim now g c min_idle [id] force)))
    = Some {| p_id := id; p_consumer := c; p_time := now; p_count := p_count e + 1 |} /\
  (forall id', id' <> id -> pel_find id' (g_by_id (snd (g_claim now g c min_idle [id] force))) = pel_find id' (g_by_id g)).
Proof. exact claim_moves. Qed.
Theorem c16_claim_respects_idle :
  forall now g c min_idle id e, pel_find id (g_by_id g) = Some e -> Z.max 0 (now - p_time e) < min_idle ->
  fst (g_claim now g c min_idle [id] false) = [] /\
  g_by_id (snd (g_claim now g c min_idle [id] false)) = g_by_id g.
Proof. exact claim_respects_idle. Qed.

(** XPENDING / XINFO GROUPS: under the invariant - hence after every history - the reported
    total, ID bounds, consumer counter and per-consumer counts are those of the actual
    pending set *)
Theorem c16_xpending_exact :
  forall g, GInv g ->
  g_total g = len (g_by_id g) /\ g_min g = pel_min (g_by_id g) /\ g_max g = pel_max (g_by_id g) /\
  g_ncons g = len (g_consumers g) /\
  (forall c n, alookup c (g_consumers g) = Some n -> n = len (owned_by c (g_by_id g))) /\
  (forall p, In p (g_by_id g) -> alookup (p_consumer p) (g_consumers g) <> None) /\
  (forall c, bcg c (g_by_consumer g) <> [] <-> owned_by c (g_by_id g) <> []).
Proof. exact pending_summary_exact. Qed.

(** DELCONSUMER removes the consumer and exactly its pending entries, and answers their
    number *)
Theorem c16_delconsumer_effect :
  forall g c, GInv g ->
  GInv (snd (g_delete_consumer g c)) /\ g_last (snd (g_delete_consumer g c)) = g_last g /\
  alookup c (g_consumers (snd (g_delete_consumer g c))) = None /\
  fst (g_delete_consumer g c) = len (bcg c (g_by_consumer g)) /\
  (forall id, owner (g_by_id (snd (g_delete_consumer g c))) id =
              match owner (g_by_id g) id with Some c' => if beq c' c then None else Some c' | None => None end).
Proof. exact delete_consumer_inv. Qed.

(** ---- refutations (known findings) and witnesses, kernel-checked ---- *)
Local Open Scope string_scope.
Definition entry1 (id a b : String.string) : frame := FArray [bulk id; FArray [bulk a; bulk b]].

(** formerly F-16a (class group-start-ignored, fixed by 542e5a3): a group created with "$"
    is not delivered the old entries, only later ones *)
Example c16_dollar_start_witness :
  fst (run_cmds 0 empty_db [cmd ["XADD"; "s"; "5-0"; "a"; "1"]; cmd ["XGROUP"; "CREATE"; "s"; "g"; "$"];
                            cmd ["XREADGROUP"; "GROUP"; "g"; "c1"; "STREAMS"; "s"; ">"];
                            cmd ["XADD"; "s"; "6-0"; "a"; "2"];
                            cmd ["XREADGROUP"; "GROUP"; "g"; "c1"; "STREAMS"; "s"; ">"]])
  = [bulk "5-0"; r_ok; FArray []; bulk "6-0"; FArray [FArray [bulk "s"; FArray [entry1 "6-0" "a" "2"]]]].
Proof. vm_compute. reflexivity. Qed.

(** formerly F-16b (class noack-no-advance, fixed by 18325a2): a NOACK read consumes the
    entries (nothing becomes pending) *)
Example c16_noack_witness :
  fst (run_cmds 0 empty_db [cmd ["XADD"; "s"; "5-0"; "a"; "1"]; cmd ["XGROUP"; "CREATE"; "s"; "g"; "0"];
                            cmd ["XREADGROUP"; "GROUP"; "g"; "c1"; "NOACK"; "STREAMS"; "s"; ">"];
                            cmd ["XREADGROUP"; "GROUP"; "g"; "c2"; "NOACK"; "STREAMS"; "s"; ">"];
                            cmd ["XPENDING"; "s"; "g"]])
  = [bulk "5-0"; r_ok; FArray [FArray [bulk "s"; FArray [entry1 "5-0" "a" "1"]]]; FArray [];
     FArray [FInt 0; FNullBulk; FNullBulk; FArray []]].
Proof. vm_compute. reflexivity. Qed.

(** formerly F-16c (class explicit-id-reread, fixed by da451f0): a consumer that never
    received anything reads nothing with ID 0 (it is registered as a consumer); the owner
    reads its own entries again, COUNT and the ID are honoured, only delivery counts grow *)
Example c16_explicit_id_witness :
  fst (run_cmds 0 empty_db [cmd ["XADD"; "s"; "5-0"; "a"; "1"]; cmd ["XADD"; "s"; "6-0"; "a"; "2"];
                            cmd ["XGROUP"; "CREATE"; "s"; "g"; "0"];
                            cmd ["XREADGROUP"; "GROUP"; "g"; "c1"; "STREAMS"; "s"; ">"];
                            cmd ["XREADGROUP"; "GROUP"; "g"; "c2"; "STREAMS"; "s"; "0"];
                            cmd ["XREADGROUP"; "GROUP"; "g"; "c1"; "COUNT"; "1"; "STREAMS"; "s"; "0"];
                            cmd ["XREADGROUP"; "GROUP"; "g"; "c1"; "STREAMS"; "s"; "5-0"];
                            cmd ["XPENDING"; "s"; "g"]; cmd ["XPENDING"; "s"; "g"; "-"; "+"; "10"];
                            cmd ["XINFO"; "GROUPS"; "s"]])
  = [bulk "5-0"; bulk "6-0"; r_ok;
     FArray [FArray [bulk "s"; FArray [entry1 "5-0" "a" "1"; entry1 "6-0" "a" "2"]]];
     FArray [];
     FArray [FArray [bulk "s"; FArray [entry1 "5-0" "a" "1"]]];
     FArray [FArray [bulk "s"; FArray [entry1 "6-0" "a" "2"]]];
     FArray [FInt 2; bulk "5-0"; bulk "6-0"; FArray [FArray [bulk "c1"; FInt 2]]];
     FArray [FArray [bulk "5-0"; bulk "c1"; FInt 0; FInt 2]; FArray [bulk "6-0"; bulk "c1"; FInt 0; FInt 2]];
     FArray [FArray [bulk "name"; bulk "g"; bulk "consumers"; FInt 2; bulk "pending"; FInt 2;
                     bulk "last-delivered-id"; bulk "6-0"]]].
Proof. vm_compute. reflexivity. Qed.

(** formerly class setid-redelivery (fixed by 92eb72a): after XGROUP SETID to an earlier ID
    ">" delivers the pending entry again and moves it to the new reader: c1 owns nothing
    any more, one XACK empties the pending set *)
Example c16_setid_redelivery_witness :
  fst (run_cmds 0 empty_db [cmd ["XADD"; "s"; "5-0"; "a"; "1"]; cmd ["XGROUP"; "CREATE"; "s"; "g"; "0"];
                            cmd ["XREADGROUP"; "GROUP"; "g"; "c1"; "STREAMS"; "s"; ">"];
                            cmd ["XGROUP"; "SETID"; "s"; "g"; "0-0"];
                            cmd ["XREADGROUP"; "GROUP"; "g"; "c2"; "STREAMS"; "s"; ">"];
                            cmd ["XPENDING"; "s"; "g"]; cmd ["XPENDING"; "s"; "g"; "-"; "+"; "10"; "c1"];
                            cmd ["XACK"; "s"; "g"; "5-0"]; cmd ["XINFO"; "GROUPS"; "s"]])
  = [bulk "5-0"; r_ok; FArray [FArray [bulk "s"; FArray [entry1 "5-0" "a" "1"]]]; r_ok;
     FArray [FArray [bulk "s"; FArray [entry1 "5-0" "a" "1"]]];
     FArray [FInt 1; bulk "5-0"; bulk "5-0"; FArray [FArray [bulk "c2"; FInt 1]]];
     FArray []; FInt 1;
     FArray [FArray [bulk "name"; bulk "g"; bulk "consumers"; FInt 2; bulk "pending"; FInt 0;
                     bulk "last-delivered-id"; bulk "5-0"]]].
Proof. vm_compute. reflexivity. Qed.

(** ---- open findings in the neighbourhood (the model follows the code) ---- *)
(** class xreadgroup-missing-key: a key that does not exist is skipped silently (Redis: NOGROUP) *)
Example c16_missing_key_refuted :
  fst (run_cmds 0 empty_db [cmd ["XREADGROUP"; "GROUP"; "g"; "c1"; "STREAMS"; "nokey"; ">"];
                            cmd ["XREADGROUP"; "GROUP"; "g"; "c1"; "STREAMS"; "nokey"; "0"]])
  = [FArray []; FArray []].
Proof. vm_compute. reflexivity. Qed.
(** class xpending-consumer-range: with a consumer name the extended XPENDING ignores the range *)
Example c16_xpending_consumer_range_refuted :
  fst (run_cmds 0 empty_db [cmd ["XADD"; "s"; "1-0"; "a"; "1"]; cmd ["XADD"; "s"; "2-0"; "a"; "2"];
                            cmd ["XGROUP"; "CREATE"; "s"; "g"; "0"];
                            cmd ["XREADGROUP"; "GROUP"; "g"; "c1"; "STREAMS"; "s"; ">"];
                            cmd ["XPENDING"; "s"; "g"; "2-0"; "2-0"; "10"; "c1"];
                            cmd ["XPENDING"; "s"; "g"; "2-0"; "2-0"; "10"]])
  = [bulk "1-0"; bulk "2-0"; r_ok;
     FArray [FArray [bulk "s"; FArray [entry1 "1-0" "a" "1"; entry1 "2-0" "a" "2"]]];
     FArray [FArray [bulk "1-0"; bulk "c1"; FInt 0; FInt 1]; FArray [bulk "2-0"; bulk "c1"; FInt 0; FInt 1]];
     FArray [FArray [bulk "2-0"; bulk "c1"; FInt 0; FInt 1]]].
Proof. vm_compute. reflexivity. Qed.
(** class xreadgroup-max-id-marker: the explicit ID u64::MAX-u64::MAX is the handler's marker
    for ">" ([c16_read_own] carries the side condition [sid_eqb after sid_max = false]) *)
Example c16_max_id_marker_refuted :
  fst (run_cmds 0 empty_db [cmd ["XADD"; "s"; "1-0"; "a"; "1"]; cmd ["XGROUP"; "CREATE"; "s"; "g"; "0"];
                            cmd ["XREADGROUP"; "GROUP"; "g"; "c1"; "STREAMS"; "s"; "18446744073709551615-18446744073709551615"];
                            cmd ["XPENDING"; "s"; "g"]])
  = [bulk "1-0"; r_ok; FArray [FArray [bulk "s"; FArray [entry1 "1-0" "a" "1"]]];
     FArray [FInt 1; bulk "1-0"; bulk "1-0"; FArray [FArray [bulk "c1"; FInt 1]]]].
Proof. vm_compute. reflexivity. Qed.
(** class xreadgroup-count-zero: COUNT 0 returns nothing (Redis: no limit) *)
Example c16_count_zero_refuted :
  fst (run_cmds 0 empty_db [cmd ["XADD"; "s"; "1-0"; "a"; "1"]; cmd ["XGROUP"; "CREATE"; "s"; "g"; "0"];
                            cmd ["XREADGROUP"; "GROUP"; "g"; "c1"; "COUNT"; "0"; "STREAMS"; "s"; ">"];
                            cmd ["XREADGROUP"; "GROUP"; "g"; "c1"; "STREAMS"; "s"; ">"]])
  = [bulk "1-0"; r_ok; FArray []; FArray [FArray [bulk "s"; FArray [entry1 "1-0" "a" "1"]]]].
Proof. vm_compute. reflexivity. Qed.

(** formerly class xpending-inverted-range (fixed by 8b811fd): an inverted range selects
    nothing; XPENDING is total *)
Theorem c16_xpending_range_total : forall l st en, sid_lt en st -> pel_range l st en = [].
Proof. exact pel_range_inverted. Qed.
Example c16_xpending_inverted_range_witness :
  fst (run_cmds 0 empty_db [cmd ["XADD"; "s"; "5-0"; "a"; "1"]; cmd ["XGROUP"; "CREATE"; "s"; "g"; "0"];
                            cmd ["XREADGROUP"; "GROUP"; "g"; "c1"; "STREAMS"; "s"; ">"];
                            cmd ["XPENDING"; "s"; "g"; "7-0"; "5-0"; "10"]; cmd ["XPENDING"; "s"; "g"]])
  = [bulk "5-0"; r_ok; FArray [FArray [bulk "s"; FArray [entry1 "5-0" "a" "1"]]]; FArray [];
     FArray [FInt 1; bulk "5-0"; bulk "5-0"; FArray [FArray [bulk "c1"; FInt 1]]]].
Proof. vm_compute. reflexivity. Qed.

(** formerly class xreadgroup-partial-failure (fixed by 3384736): a multi-key XREADGROUP that
    fails on a later key (here: no such group on b) consumes nothing of the earlier keys *)
Example c16_partial_failure_witness :
  fst (run_cmds 0 empty_db [cmd ["XADD"; "a"; "1-0"; "f"; "v"]; cmd ["XADD"; "b"; "1-0"; "f"; "v"];
                            cmd ["XGROUP"; "CREATE"; "a"; "g"; "0"];
                            cmd ["XREADGROUP"; "GROUP"; "g"; "c1"; "STREAMS"; "a"; "b"; ">"; ">"];
                            cmd ["XPENDING"; "a"; "g"];
                            cmd ["XREADGROUP"; "GROUP"; "g"; "c1"; "STREAMS"; "a"; ">"]])
  = [bulk "1-0"; bulk "1-0"; r_ok; r_nogroup;
     FArray [FInt 0; FNullBulk; FNullBulk; FArray []];
     FArray [FArray [bulk "a"; FArray [entry1 "1-0" "f" "v"]]]].
Proof. vm_compute. reflexivity. Qed.

(** formerly class xgroup-create-error-effect (fixed by 7f9490b): a refused XGROUP CREATE
    has no effect (beyond the lazy removal of an expired key by storage.get) *)
Theorem c16_xgroup_create_error_no_effect :
  forall now d parts, is_error (fst (h_xgroup_create now d parts)) = true ->
  snd (h_xgroup_create now d parts) = d \/
  exists k, nth_arg parts 2 = Some k /\ snd (h_xgroup_create now d parts) = snd (eng_get now d k).
Proof. exact xgroup_create_error_atomic. Qed.
Example c16_create_error_witness :
  fst (run_cmds 0 empty_db [cmd ["XGROUP"; "CREATE"; "s"; "g"; "abc"; "MKSTREAM"]; cmd ["XLEN"; "s"];
                            cmd ["XINFO"; "STREAM"; "s"]])
  = [r_err; FInt 0; r_err].
Proof. vm_compute. reflexivity. Qed.

(** ---- non-vacuity: a history through the theorem's step function ---- *)
Example c16_history_example :
  let ops := [GStream (OAddId (1, 0) []); GStream (OAddId (2, 0) []); GStream (OAddId (3, 0) []);
              GRead 0 (bs "c1") (Some 2) false; GRead 1 (bs "c2") None false; GReread 2 (bs "c1") (0, 0) (Some 1);
              GAck [(1, 0); (1, 0); (9, 9)];
              GClaim 5 (bs "c2") 0 [(2, 0)] false; GStream (ODel [(3, 0)]); GStream (OAddAuto 7 []);
              GRead 9 (bs "c1") None false; GDelConsumer (bs "c2")] in
  match grun empty_stream new_group ops with
  | (s2, g2, log) =>
      log = [(bs "c1", (1, 0)); (bs "c1", (2, 0)); (bs "c2", (3, 0)); (bs "c1", (7, 0))] /\
      map (fun p => (p_id p, p_consumer p, p_count p)) (g_by_id g2) = [((7, 0), bs "c1", 1)] /\
      g_total g2 = 1 /\ g_consumers g2 = [(bs "c1", 1)] /\ g_last g2 = (7, 0)
  end /\ Forall gop_ok ops.
Proof. vm_compute. repeat split; repeat constructor; discriminate. Qed.
