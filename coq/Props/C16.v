(** C16 - Consumer groups deliver each entry once and account pending entries exactly.
    Statements only; proofs are in Proofs/GroupFacts.v.  The model (Model/Streams.v,
    sections 3 and 7) mirrors src/storage/consumer_groups.rs, the group functions of
    stream.rs and commands/consumer_groups.rs: the cursor last_delivered_id, the pending
    set kept four times (BTreeMap by ID, per-consumer ID vectors, per-consumer counters,
    total counter) plus the consumer counter and the cached ID bounds. *)
From Ferrous Require Import Base.Bytes Model.Resp Model.Types Model.Strings Model.Streams
  Proofs.BytesFacts Proofs.StreamFacts Proofs.GroupFacts.
From Coq Require Import Sorting.Sorted.
Open Scope Z_scope.

(** The group invariant [GInv]: the by-ID map is strictly sorted; each consumer's ID
    vector is duplicate-free and holds exactly the IDs the map assigns to that consumer;
    no empty vector is stored; every owner is a registered consumer whose counter equals
    the length of its vector; total = size of the map; consumer counter = number of
    consumers (names distinct); cached min/max are the map's bounds; no pending ID is
    above the cursor.  It holds for a new group and is preserved by every operation the
    property lists: ">"-reads, XACK, XCLAIM, DELCONSUMER, CREATECONSUMER (DESTROY drops the
    record), with stream entries added, deleted or trimmed in between. *)
Theorem c16_agree_new : forall start, GInv (mk_group start).
Proof. exact GInv_mk. Qed.

Theorem c16_agree_read :
  forall now s g c count noack, SInv s -> GInv g ->
  GInv (snd (st_read_group now s g c sid_max count noack)).
Proof. intros now s g c count noack Hs Hg. apply (read_new_inv now s g c count noack Hs Hg). Qed.

Theorem c16_agree_ack : forall g ids, GInv g -> GInv (snd (g_acknowledge g ids)).
Proof. intros g ids Hg. apply (acknowledge_inv g ids Hg). Qed.

Theorem c16_agree_claim :
  forall now g c min_idle ids force, GInv g -> GInv (snd (g_claim now g c min_idle ids force)).
Proof. intros now g c mi ids f Hg. apply (claim_inv now g c mi ids f Hg). Qed.

Theorem c16_agree_delconsumer : forall g c, GInv g -> GInv (snd (g_delete_consumer g c)).
Proof. intros g c Hg. apply (delete_consumer_inv g c Hg). Qed.

Theorem c16_agree_createconsumer : forall g c, GInv g -> GInv (snd (g_create_consumer g c)).
Proof. exact create_consumer_ginv. Qed.

(** Administration touches exactly one group record: CREATE appends a new group that
    satisfies the invariant, DESTROY removes that group only, every other command replaces
    only the record of the group it names; so all groups of a stream satisfy the
    invariant along every history. *)
Theorem c16_admin_create :
  forall gs gn start, groups_ok gs -> alookup gn gs = None -> groups_ok (gs ++ [(gn, mk_group start)]).
Proof. exact groups_ok_create. Qed.
Theorem c16_admin_destroy :
  forall gs gn, groups_ok gs -> groups_ok (aremove gn gs) /\ alookup gn (aremove gn gs) = None /\
  forall gn', gn' <> gn -> alookup gn' (aremove gn gs) = alookup gn' gs.
Proof. exact groups_ok_destroy. Qed.
Theorem c16_admin_update :
  forall gs gn g', groups_ok gs -> GInv g' -> groups_ok (aput gn g' gs) /\
  forall gn', gn' <> gn -> alookup gn' (aput gn g' gs) = alookup gn' gs.
Proof. exact groups_ok_update. Qed.

(** XGROUP SETID keeps the agreement exactly when no pending ID lies above the new
    cursor (otherwise see [c16_setid_redelivery_refuted]) *)
Theorem c16_agree_setid :
  forall g i, GInv g -> Forall (fun p => sid_le (p_id p) i) (g_by_id g) -> GInv (set_last g i).
Proof. exact set_last_inv. Qed.

(** Exactly-once delivery, in ID order, through ">": over every history of stream
    operations, ">"-reads by any consumers with any COUNT, XACK, XCLAIM, DELCONSUMER and
    CREATECONSUMER, starting from any state satisfying the invariants with the cursor not
    ahead of the stream: both invariants hold at the end; the log of delivered IDs is
    strictly increasing and above the initial cursor (no entry is delivered twice, to
    whatever consumer); the cursor only moves forward and bounds the log; and every
    entry present at the end with an ID above the initial cursor and at or below the
    final cursor is in the log.  ([step_facts] spells these clauses out.) *)
Theorem c16_exactly_once :
  forall ops s g, SInv s -> GInv g -> sid_le (g_last g) (s_last s) -> Forall gop_ok ops ->
  match grun s g ops with (s2, g2, log) => step_facts s g s2 g2 log end.
Proof. exact group_history. Qed.

(** ... in particular for a group created at any start position not ahead of the stream
    ("$" = the last present entry, 0, or an explicit ID; after the repair 542e5a3 the
    cursor starts there): nothing at or below the start position is ever delivered, and
    NOACK reads (after the repair 18325a2) take part in the same strictly increasing log. *)
Theorem c16_exactly_once_any_start :
  forall ops s start, SInv s -> sid_le start (s_last s) -> Forall gop_ok ops ->
  match grun s (mk_group start) ops with (s2, g2, log) => step_facts s (mk_group start) s2 g2 log end.
Proof. intros ops s start Hs Hle Hok. apply group_history; [assumption|apply GInv_mk|exact Hle|assumption]. Qed.
Theorem c16_dollar_start_not_ahead :
  forall s i, SInv s -> last_entry_id s = Some i -> sid_le i (s_last s).
Proof. exact last_entry_le_last. Qed.

(** one ">"-read returns the first COUNT present entries above the cursor, in ID order,
    moves the cursor to the last of them and (unless NOACK) makes the reader their owner *)
Theorem c16_read_new :
  forall now s g c count noack, SInv s -> GInv g ->
  let r := st_read_group now s g c sid_max count noack in
  fst r = take_count count (filter (p_gt (g_last g)) (s_entries s)) /\
  GInv (snd r) /\
  sorted (fst r) /\ Forall (fun e => sid_lt (g_last g) (fst e)) (fst r) /\
  (fst r = [] -> snd r = g) /\
  (forall e rest, rev (fst r) = e :: rest -> g_last (snd r) = fst e) /\
  (forall id, owner (g_by_id (snd r)) id =
              if negb noack && sid_mem id (map fst (fst r)) then Some c else owner (g_by_id g) id).
Proof. exact read_new_inv. Qed.

(** XACK answers the number of listed IDs that were pending, each counted once; exactly
    those leave the pending set; acknowledging them again answers 0 *)
Theorem c16_ack_once :
  forall g ids, GInv g ->
  fst (g_acknowledge g ids) = len (filter (fun p => sid_mem (p_id p) ids) (g_by_id g)) /\
  g_by_id (snd (g_acknowledge g ids)) = filter (fun p => negb (sid_mem (p_id p) ids)) (g_by_id g) /\
  fst (g_acknowledge (snd (g_acknowledge g ids)) ids) = 0.
Proof. exact ack_counts_once. Qed.

(** XCLAIM of a pending entry (FORCE, or idle for at least min-idle-time) makes the
    claimer its owner, counts one more delivery and touches no other entry; below the
    idle threshold nothing is claimed *)
Theorem c16_claim_moves :
  forall now g c min_idle id force e, GInv g -> pel_find id (g_by_id g) = Some e ->
  (force = true \/ min_idle <= Z.max 0 (now - p_time e)) ->
  fst (g_claim now g c min_idle [id] force) = [id] /\
  pel_find id (g_by_id (snd (g_claim now g c min_idle [id] force)))
    = Some {| p_id := id; p_consumer := c; p_time := now; p_count := p_count e + 1 |} /\
  (forall id', id' <> id -> pel_find id' (g_by_id (snd (g_claim now g c min_idle [id] force))) = pel_find id' (g_by_id g)).
Proof. exact claim_moves. Qed.
Theorem c16_claim_respects_idle :
  forall now g c min_idle id e, pel_find id (g_by_id g) = Some e -> Z.max 0 (now - p_time e) < min_idle ->
  fst (g_claim now g c min_idle [id] false) = [] /\
  g_by_id (snd (g_claim now g c min_idle [id] false)) = g_by_id g.
Proof. exact claim_respects_idle. Qed.

(** XPENDING / XINFO GROUPS: under the invariant the reported total, ID bounds, consumer
    counter and per-consumer counts are those of the actual pending set *)
Theorem c16_xpending_exact :
  forall g, GInv g ->
  g_total g = len (g_by_id g) /\ g_min g = pel_min (g_by_id g) /\ g_max g = pel_max (g_by_id g) /\
  g_ncons g = len (g_consumers g) /\
  (forall c n, alookup c (g_consumers g) = Some n -> n = len (owned_by c (g_by_id g))) /\
  (forall p, In p (g_by_id g) -> alookup (p_consumer p) (g_consumers g) <> None) /\
  (forall c, bcg c (g_by_consumer g) <> [] <-> owned_by c (g_by_id g) <> []).
Proof. exact pending_summary_exact. Qed.

(** DELCONSUMER removes the consumer and exactly its pending entries, and answers their
    number *)
Theorem c16_delconsumer_effect :
  forall g c, GInv g ->
  GInv (snd (g_delete_consumer g c)) /\ g_last (snd (g_delete_consumer g c)) = g_last g /\
  alookup c (g_consumers (snd (g_delete_consumer g c))) = None /\
  fst (g_delete_consumer g c) = len (bcg c (g_by_consumer g)) /\
  (forall id, owner (g_by_id (snd (g_delete_consumer g c))) id =
              match owner (g_by_id g) id with Some c' => if beq c' c then None else Some c' | None => None end).
Proof. exact delete_consumer_inv. Qed.

(** ---- refutations (known findings) and witnesses, kernel-checked ---- *)
Local Open Scope string_scope.
Definition entry1 (id a b : String.string) : frame := FArray [bulk id; FArray [bulk a; bulk b]].

(** formerly F-16a (class group-start-ignored, fixed by 542e5a3): a group created with "$"
    is not delivered the old entries, only later ones *)
Example c16_dollar_start_witness :
  fst (run_cmds 0 empty_db [cmd ["XADD"; "s"; "5-0"; "a"; "1"]; cmd ["XGROUP"; "CREATE"; "s"; "g"; "$"];
                            cmd ["XREADGROUP"; "GROUP"; "g"; "c1"; "STREAMS"; "s"; ">"];
                            cmd ["XADD"; "s"; "6-0"; "a"; "2"];
                            cmd ["XREADGROUP"; "GROUP"; "g"; "c1"; "STREAMS"; "s"; ">"]])
  = [bulk "5-0"; r_ok; FArray []; bulk "6-0"; FArray [FArray [bulk "s"; FArray [entry1 "6-0" "a" "2"]]]].
Proof. vm_compute. reflexivity. Qed.

(** formerly F-16b (class noack-no-advance, fixed by 18325a2): a NOACK read consumes the
    entries (nothing becomes pending) *)
Example c16_noack_witness :
  fst (run_cmds 0 empty_db [cmd ["XADD"; "s"; "5-0"; "a"; "1"]; cmd ["XGROUP"; "CREATE"; "s"; "g"; "0"];
                            cmd ["XREADGROUP"; "GROUP"; "g"; "c1"; "NOACK"; "STREAMS"; "s"; ">"];
                            cmd ["XREADGROUP"; "GROUP"; "g"; "c2"; "NOACK"; "STREAMS"; "s"; ">"];
                            cmd ["XPENDING"; "s"; "g"]])
  = [bulk "5-0"; r_ok; FArray [FArray [bulk "s"; FArray [entry1 "5-0" "a" "1"]]]; FArray [];
     FArray [FInt 0; FNullBulk; FNullBulk; FArray []]].
Proof. vm_compute. reflexivity. Qed.

(** F-16c, class explicit-id-reread: a read with an explicit ID returns stream entries
    (not the reader's pending entries) and adds them to the pending list again: the four
    representations disagree (XPENDING: 1 entry, c1:1 and c2:1; XINFO GROUPS: pending 2) *)
Example c16_explicit_id_refuted :
  fst (run_cmds 0 empty_db [cmd ["XADD"; "s"; "5-0"; "a"; "1"]; cmd ["XGROUP"; "CREATE"; "s"; "g"; "0"];
                            cmd ["XREADGROUP"; "GROUP"; "g"; "c1"; "STREAMS"; "s"; ">"];
                            cmd ["XREADGROUP"; "GROUP"; "g"; "c2"; "STREAMS"; "s"; "0"];
                            cmd ["XPENDING"; "s"; "g"]; cmd ["XINFO"; "GROUPS"; "s"]])
  = [bulk "5-0"; r_ok; FArray [FArray [bulk "s"; FArray [entry1 "5-0" "a" "1"]]];
     FArray [FArray [bulk "s"; FArray [entry1 "5-0" "a" "1"]]];
     FArray [FInt 1; bulk "5-0"; bulk "5-0"; FArray [FArray [bulk "c1"; FInt 1]; FArray [bulk "c2"; FInt 1]]];
     FArray [FArray [bulk "name"; bulk "g"; bulk "consumers"; FInt 2; bulk "pending"; FInt 2;
                     bulk "last-delivered-id"; bulk "5-0"]]].
Proof. vm_compute. reflexivity. Qed.
Lemma c16_explicit_id_breaks_agreement :
  exists s g, SInv s /\ GInv g /\ ~ GInv (snd (st_read_group 0 s g (bs "c2") (0, 0) None false)).
Proof.
  set (s := {| s_entries := [((5, 0), [])]; s_last := (5, 0); s_ams := 5; s_aseq := 0; s_len := 1; s_groups := [] |}).
  assert (Hs : SInv s).
  { split; cbn; [constructor; constructor|constructor; [right; reflexivity|constructor]|reflexivity|reflexivity]. }
  exists s, (snd (st_read_group 0 s new_group (bs "c1") sid_max None false)).
  split; [exact Hs|]. split; [apply (read_new_inv 0 s new_group (bs "c1") None false Hs GInv_new)|].
  intros H. pose proof (gi_total _ _ _ _ H) as Ht. vm_compute in Ht. discriminate.
Qed.

(** new finding, class setid-redelivery: after XGROUP SETID to an earlier ID, ">" delivers
    pending entries again and re-adds them (Redis moves them to the new reader) *)
Example c16_setid_redelivery_refuted :
  fst (run_cmds 0 empty_db [cmd ["XADD"; "s"; "5-0"; "a"; "1"]; cmd ["XGROUP"; "CREATE"; "s"; "g"; "0"];
                            cmd ["XREADGROUP"; "GROUP"; "g"; "c1"; "STREAMS"; "s"; ">"];
                            cmd ["XGROUP"; "SETID"; "s"; "g"; "0-0"];
                            cmd ["XREADGROUP"; "GROUP"; "g"; "c2"; "STREAMS"; "s"; ">"];
                            cmd ["XPENDING"; "s"; "g"]])
  = [bulk "5-0"; r_ok; FArray [FArray [bulk "s"; FArray [entry1 "5-0" "a" "1"]]]; r_ok;
     FArray [FArray [bulk "s"; FArray [entry1 "5-0" "a" "1"]]];
     FArray [FInt 1; bulk "5-0"; bulk "5-0"; FArray [FArray [bulk "c1"; FInt 1]; FArray [bulk "c2"; FInt 1]]]].
Proof. vm_compute. reflexivity. Qed.

(** formerly class xpending-inverted-range (fixed by 8b811fd): an inverted range selects
    nothing; XPENDING is total *)
Theorem c16_xpending_range_total : forall l st en, sid_lt en st -> pel_range l st en = [].
Proof. exact pel_range_inverted. Qed.
Example c16_xpending_inverted_range_witness :
  fst (run_cmds 0 empty_db [cmd ["XADD"; "s"; "5-0"; "a"; "1"]; cmd ["XGROUP"; "CREATE"; "s"; "g"; "0"];
                            cmd ["XREADGROUP"; "GROUP"; "g"; "c1"; "STREAMS"; "s"; ">"];
                            cmd ["XPENDING"; "s"; "g"; "7-0"; "5-0"; "10"]; cmd ["XPENDING"; "s"; "g"]])
  = [bulk "5-0"; r_ok; FArray [FArray [bulk "s"; FArray [entry1 "5-0" "a" "1"]]]; FArray [];
     FArray [FInt 1; bulk "5-0"; bulk "5-0"; FArray [FArray [bulk "c1"; FInt 1]]]].
Proof. vm_compute. reflexivity. Qed.

(** new finding, class xreadgroup-partial-failure: a multi-key XREADGROUP that fails on a
    later key (here: no such group on b) answers only the error, but the entries of the
    earlier keys are already pending for the reader and will never be delivered by ">" *)
Example c16_partial_failure_refuted :
  fst (run_cmds 0 empty_db [cmd ["XADD"; "a"; "1-0"; "f"; "v"]; cmd ["XADD"; "b"; "1-0"; "f"; "v"];
                            cmd ["XGROUP"; "CREATE"; "a"; "g"; "0"];
                            cmd ["XREADGROUP"; "GROUP"; "g"; "c1"; "STREAMS"; "a"; "b"; ">"; ">"];
                            cmd ["XPENDING"; "a"; "g"];
                            cmd ["XREADGROUP"; "GROUP"; "g"; "c1"; "STREAMS"; "a"; ">"]])
  = [bulk "1-0"; bulk "1-0"; r_ok; r_nogroup;
     FArray [FInt 1; bulk "1-0"; bulk "1-0"; FArray [FArray [bulk "c1"; FInt 1]]]; FArray []].
Proof. vm_compute. reflexivity. Qed.

(** formerly class xgroup-create-error-effect (fixed by 7f9490b): a refused XGROUP CREATE
    has no effect (beyond the lazy removal of an expired key by storage.get) *)
Theorem c16_xgroup_create_error_no_effect :
  forall now d parts, is_error (fst (h_xgroup_create now d parts)) = true ->
  snd (h_xgroup_create now d parts) = d \/
  exists k, nth_arg parts 2 = Some k /\ snd (h_xgroup_create now d parts) = snd (eng_get now d k).
Proof. exact xgroup_create_error_atomic. Qed.
Example c16_create_error_witness :
  fst (run_cmds 0 empty_db [cmd ["XGROUP"; "CREATE"; "s"; "g"; "abc"; "MKSTREAM"]; cmd ["XLEN"; "s"];
                            cmd ["XINFO"; "STREAM"; "s"]])
  = [r_err; FInt 0; r_err].
Proof. vm_compute. reflexivity. Qed.

(** ---- non-vacuity: a history through the theorem's step function ---- *)
Example c16_history_example :
  let ops := [GStream (OAddId (1, 0) []); GStream (OAddId (2, 0) []); GStream (OAddId (3, 0) []);
              GRead 0 (bs "c1") (Some 2) false; GRead 1 (bs "c2") None false; GAck [(1, 0); (1, 0); (9, 9)];
              GClaim 5 (bs "c2") 0 [(2, 0)] false; GStream (ODel [(3, 0)]); GStream (OAddAuto 7 []);
              GRead 9 (bs "c1") None false; GDelConsumer (bs "c2")] in
  match grun empty_stream new_group ops with
  | (s2, g2, log) =>
      log = [(bs "c1", (1, 0)); (bs "c1", (2, 0)); (bs "c2", (3, 0)); (bs "c1", (7, 0))] /\
      map (fun p => (p_id p, p_consumer p, p_count p)) (g_by_id g2) = [((7, 0), bs "c1", 1)] /\
      g_total g2 = 1 /\ g_consumers g2 = [(bs "c1", 1)] /\ g_last g2 = (7, 0)
  end /\ Forall gop_ok ops.
Proof. vm_compute. repeat split; repeat constructor; discriminate. Qed.
