(** C17 - With a password set, unauthenticated connections can neither read nor write.
    Statements only; proofs in Proofs/ServerFacts.v.  Model: Model/Server.v
    process_frame (after the repair 1696ab4: SYNC/PSYNC pass the gate too). *)
From Ferrous Require Import Base.Bytes Generated Model.Resp Model.Types Model.Server Model.Conn
  Proofs.ServerFacts Proofs.GateFacts.
Open Scope Z_scope.

(** Non-interference: while a password is configured and connection [c] has not
    authenticated, EVERY request other than AUTH - whatever its name, arguments,
    shape, the selected database, an open transaction, the time - leaves the whole
    server state unchanged, and its reply is a function of the request alone
    (so it cannot depend on, hence leak, any data). *)
Theorem c17_gate_closed :
  forall now s c cn req oracle pw,
  s_password s = Some pw -> zlookup c (s_conns s) = Some cn -> c_auth cn = false ->
  beq (req_command req) (bs "AUTH") = false ->
  process_frame now s c req oracle = (gate_reply req, s).
Proof. exact gate_closed. Qed.

(** ... and that reply is an error for everything but the harmless PING / QUIT *)
Theorem c17_refusal_is_error :
  forall req, beq (req_command req) (bs "PING") = false -> beq (req_command req) (bs "QUIT") = false ->
  is_error (gate_reply req) = true.
Proof. exact gate_reply_error. Qed.

(** Only the exact password authenticates (byte equality: no prefix, case variant
    or extension does); a failed AUTH changes nothing. *)
Theorem c17_exact_password :
  forall s c x p pw cn,
  s_password s = Some pw -> zlookup c (s_conns s) = Some cn ->
  (fst (h_auth s c [x; FBulk p]) = r_ok <-> p = pw) /\
  (p <> pw -> h_auth s c [x; FBulk p] = (r_err, s)).
Proof. exact auth_exact. Qed.

(** Authentication is per connection: AUTH touches nothing but the issuing
    connection's record. *)
Theorem c17_per_connection :
  forall s c parts r s', h_auth s c parts = (r, s') ->
  s_dbs s' = s_dbs s /\ s_trk s' = s_trk s /\ s_password s' = s_password s /\ s_aof s' = s_aof s /\
  forall c', c' <> c -> zlookup c' (s_conns s') = zlookup c' (s_conns s).
Proof. exact auth_per_connection. Qed.

(** The tables regenerated from server.rs on every run agree with the modelled gate:
    exactly AUTH/PING/QUIT pass, the default arm refuses, no command name is tested
    before the gate inside process_frame, and every special case of the connection
    loop that acts before process_frame (SYNC/PSYNC) is guarded by an authentication test. *)
Theorem c17_tables :
  preauth_allowed = [bs "AUTH"; bs "PING"; bs "QUIT"] /\ gate_default_noauth = true /\
  names_before_gate_in_process_frame = [] /\
  forallb (fun x => match x with (_, acts, guarded) => implb acts guarded end) pregate = true.
Proof. exact gate_tables_ok. Qed.

(** "... whatever the command, pipeline position or connection state": the same for the path
    that handles PUBLISH, (P)SUBSCRIBE, (P)UNSUBSCRIBE and EXEC - nothing is written to anybody,
    no subscription is made - and for whole pipelines of any length: as long as none of its
    frames is an AUTH, every frame is answered by the gate and the server state after the
    batch is the state before it. *)
Theorem c17_gate_closed_pubsub_and_exec :
  forall now s c cn req oracle pw,
  s_password s = Some pw -> zlookup c (s_conns s) = Some cn -> c_auth cn = false ->
  beq (req_command req) (bs "AUTH") = false ->
  process_frame_x now s c req oracle = ([], gate_reply req, s).
Proof. exact gate_closed_x. Qed.
Theorem c17_gate_closed_for_pipelines :
  forall now c cn pw fs s acc q,
  s_password s = Some pw -> zlookup c (s_conns s) = Some cn -> c_auth cn = false ->
  forallb (fun f => negb (beq (req_command f) (bs "AUTH"))) fs = true ->
  serve_frames now s c fs acc q = (rev acc ++ map gate_reply fs, s, q || existsb is_quit fs).
Proof. exact gate_closed_pipeline. Qed.
Example c17_pipeline_example :
  let s := connect (init_server (Some (bs "pw"))) 1 in
  let fs := [FArray [FBulk (bs "MULTI")]; FArray [FBulk (bs "SET"); FBulk (bs "k"); FBulk (bs "v")];
             FArray [FBulk (bs "EXEC")]; FArray [FBulk (bs "SUBSCRIBE"); FBulk (bs "ch")];
             FArray [FBulk (bs "EVAL"); FBulk (bs "return 1"); FBulk (bs "0")]; FArray [FBulk (bs "PSYNC")];
             FArray [FBulk (bs "ping")]] in
  serve_frames 0 s 1 fs [] false =
    ([FError (bs "NOAUTH"); FError (bs "NOAUTH"); FError (bs "NOAUTH"); FError (bs "NOAUTH");
      FError (bs "NOAUTH"); FError (bs "NOAUTH"); FSimple (bs "PONG")], s, false).
Proof. vm_compute. reflexivity. Qed.

(** non-vacuity: a gated connection exists and a SET through it changes nothing *)
Example c17_example :
  let s := connect (init_server (Some (bs "pw"))) 1 in
  process_frame 0 s 1 (FArray [FBulk (bs "set"); FBulk (bs "k"); FBulk (bs "v")]) None
  = (FError (bs "NOAUTH"), s).
Proof. vm_compute. reflexivity. Qed.
