(** C18 - Numbered databases are fully isolated from one another.
    Statements only; proofs in Proofs/ServerFacts.v.  Model: Model/Server.v. *)
From Ferrous Require Import Base.Bytes Generated Model.Resp Model.Types Model.Server
  Proofs.ServerFacts Proofs.IsolationFacts.
Open Scope Z_scope.

(** A command processed for database [dbi] - directly (normal_command) - leaves
    every other database exactly as it was; FLUSHALL is the one exception. *)
Theorem c18_frame_direct :
  forall now s c dbi parts oracle r s',
  normal_command now s c dbi parts oracle = (r, s') ->
  beq (cmd_name parts) (bs "FLUSHALL") = false -> 0 <= dbi ->
  forall j, 0 <= j -> j <> dbi -> get_db s' j = get_db s j.
Proof. exact normal_command_frame. Qed.

(** The same for a whole EXEC: the queued commands run against the database that was
    selected when EXEC arrived, none of them reaches another database - until a queued SELECT,
    which (1ecc022) takes effect for the connection and for the commands queued after it,
    exactly as when sent directly ([c18_exec_select]). *)
Theorem c18_frame_exec :
  forall now c dbi q s acc reps s',
  exec_queue now s c dbi q acc = (reps, s') -> 0 <= dbi ->
  forallb (fun parts => negb (beq (cmd_name parts) (bs "FLUSHALL")) && negb (beq (queued_name parts) (bs "SELECT"))) q = true ->
  forall j, 0 <= j -> j <> dbi -> get_db s' j = get_db s j.
Proof. exact exec_queue_frame. Qed.
Theorem c18_exec_select :
  forall now c dbi parts q s acc,
  beq (queued_name parts) (bs "SELECT") = true ->
  exec_queue now s c dbi (parts :: q) acc =
  match normal_command now s c dbi parts None with
  | (rep, s1) => exec_queue now s1 c (match zlookup c (s_conns s1) with Some cn => c_db cn | None => dbi end) q (rep :: acc)
  end.
Proof. exact exec_queue_select. Qed.

(** The reading half: what a command answers, and what it leaves in the selected database,
    depends on the selected database alone.  Two servers that agree on database [dbi] (and on the
    connection table and the password, which are not databases) but differ arbitrarily in the
    other fifteen databases, in all trackers, logs and subscriptions, answer every command
    alike and still agree afterwards - for one command and for any list of them. *)
Theorem c18_reads_selected_db_only :
  forall now s1 s2 c dbi parts oracle,
  0 <= dbi < 16 -> agree dbi s1 s2 -> beq (cmd_name parts) (bs "VERIF") = false ->
  fst (normal_command now s1 c dbi parts oracle) = fst (normal_command now s2 c dbi parts oracle) /\
  agree dbi (snd (normal_command now s1 c dbi parts oracle)) (snd (normal_command now s2 c dbi parts oracle)).
Proof. exact normal_command_local. Qed.
Theorem c18_reads_selected_db_only_history :
  forall now c dbi cmds s1 s2,
  0 <= dbi < 16 -> agree dbi s1 s2 ->
  forallb (fun p => negb (beq (cmd_name p) (bs "VERIF"))) cmds = true ->
  fst (run_cmds_in now s1 c dbi cmds) = fst (run_cmds_in now s2 c dbi cmds) /\
  agree dbi (snd (run_cmds_in now s1 c dbi cmds)) (snd (run_cmds_in now s2 c dbi cmds)).
Proof. exact run_cmds_local. Qed.
(** non-vacuity: two servers that agree on database 0 and differ in database 1 *)
Example c18_agree_example :
  let s1 := connect (init_server None) 1 in
  let s2 := snd (normal_command 0 s1 1 1 [FBulk (bs "SET"); FBulk (bs "k"); FBulk (bs "other")] None) in
  agree 0 s1 s2 /\ get_db s1 1 <> get_db s2 1.
Proof. vm_compute. repeat split; discriminate. Qed.

(** FLUSHDB answers OK, empties the selected database and no other; FLUSHALL empties all. *)
Theorem c18_flushdb :
  forall now s c dbi oracle, 0 <= dbi < 16 -> length (s_dbs s) = 16%nat ->
  fst (normal_command now s c dbi [FBulk (bs "FLUSHDB")] oracle) = r_ok /\
  get_db (snd (normal_command now s c dbi [FBulk (bs "FLUSHDB")] oracle)) dbi = empty_db /\
  forall j, 0 <= j -> j <> dbi -> get_db (snd (normal_command now s c dbi [FBulk (bs "FLUSHDB")] oracle)) j = get_db s j.
Proof. exact flushdb_normal. Qed.
Theorem c18_flushall :
  forall now s c dbi oracle,
  fst (normal_command now s c dbi [FBulk (bs "FLUSHALL")] oracle) = r_ok /\
  forall j, get_db (snd (normal_command now s c dbi [FBulk (bs "FLUSHALL")] oracle)) j = empty_db.
Proof. exact flushall_normal. Qed.

(** SELECT of an index outside 0..15, or of a non-number, is refused and keeps the
    selection; a valid index changes the issuing connection's selection only (like every
    command it is preceded by the lazy expiry of what is due in the selected database). *)
Theorem c18_select :
  forall now s c dbi a oracle cn,
  zlookup c (s_conns s) = Some cn ->
  let s1 := lazy_expire now s dbi (bs "SELECT") [FBulk (bs "SELECT"); FBulk a] in
  let s0 := if logs_before (bs "SELECT") [FBulk (bs "SELECT"); FBulk a] then log_aof_in s1 dbi [FBulk (bs "SELECT"); FBulk a] else s1 in
  normal_command now s c dbi [FBulk (bs "SELECT"); FBulk a] oracle =
    match parse_usize a with
    | Some n => if 16 <=? n then (r_err, s0)
                else (r_ok, set_conn s0 c {| c_db := n; c_auth := c_auth cn; c_intx := c_intx cn;
                                             c_queue := c_queue cn; c_watched := c_watched cn;
                                             c_closing := c_closing cn |})
    | None => (r_err, s0)
    end.
Proof. exact select_spec. Qed.

(** the selection is per connection: no command of [c] changes another connection's record *)
Theorem c18_selection_per_connection :
  forall now s c dbi parts oracle r s',
  normal_command now s c dbi parts oracle = (r, s') ->
  forall c', c' <> c -> c' <> 0 -> zlookup c' (s_conns s') = zlookup c' (s_conns s).
Proof. exact normal_command_conns. Qed.

(** the former finding select-in-multi (1ecc022): a SELECT queued inside MULTI takes effect at EXEC;
    the following SET lands in the database it selected and the connection stays there *)
Example c18_select_in_multi_repaired :
  let s0 := connect (init_server None) 1 in
  let q := [[FBulk (bs "SELECT"); FBulk (bs "1")]; [FBulk (bs "SET"); FBulk (bs "k"); FBulk (bs "v")]] in
  match exec_queue 0 s0 1 0 q [] with
  | (reps, s') => reps = [r_ok; r_ok] /\ d_data (get_db s' 0) = [] /\ d_data (get_db s' 1) <> [] /\
                  option_map c_db (zlookup 1 (s_conns s')) = Some 1
  end.
Proof. vm_compute. repeat split; discriminate. Qed.
