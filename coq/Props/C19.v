(** C19 - A full SCAN iteration returns every element present throughout it.
    Statements only; proofs in Proofs/ScanFacts.v.  Model: Model/Scan.v (engine.rs scan / hscan /
    sscan / zscan and commands/scan.rs), tied to /repo by harness/src/c19.rs.

    Vocabulary (Proofs/ScanFacts.v):
      scan_core keyof items cursor count pat   one call on the sorted item list (all four commands)
      iterate keyof pat cnt lists k cursor     calls chained by the returned cursor, the i-th on the
                                               i-th list with COUNT [cnt i]; result = everything
                                               returned, and the list at the call that returned 0
      prefix_stable ...                        between two calls the part of the sorted list before
                                               the cursor did not change
      key_visible now d tf k                   k is stored, not expired at [now], of type [tf]
      scan_static / scan_dynamic               [iterate] on live_keys of one / of successive databases *)
From Ferrous Require Import Base.Bytes Model.Resp Model.Types Model.Glob Model.Strings Model.Scan
  Proofs.ScanFacts.
Open Scope Z_scope.

(** 1. termination: the cursor returned is 0 or strictly larger (and inside the list); an
    iteration over an unchanged list ends within |L| + 1 calls from any cursor *)
Theorem c19_terminates_measure : forall A (keyof : A -> bytes) items cursor count pat,
  0 <= cursor -> 0 <= count ->
  let next := fst (scan_core keyof items cursor count pat) in
  next = 0 \/ (cursor < next /\ next < len items).
Proof. intros A. exact (@scan_core_progress A). Qed.

Theorem c19_terminates : forall A (keyof : A -> bytes) pat cnt L,
  (forall i, 0 <= cnt i) -> forall n k cursor, 0 <= cursor ->
  (Z.to_nat (len L - cursor) < n)%nat ->
  exists u, iterate keyof pat cnt (repeat L n) k cursor = (u, Some L).
Proof. intros A. exact (@iterate_static_finishes A). Qed.

(** 2. static completeness (all four commands iterate [scan_core] over a sorted list): with any
    COUNT at each call the iteration from cursor 0 returns exactly the items passing MATCH, in
    order, each once *)
Theorem c19_static_complete_generic : forall A (keyof : A -> bytes) pat cnt L,
  (forall i, 0 <= cnt i) ->
  iterate keyof pat cnt (repeat L (S (length L))) 0 0 = (filter (scan_inc keyof pat) L, Some L).
Proof. intros A. exact (@iterate_static A). Qed.

(** SCAN on a database: exactly the live keys of the requested type that match, each once *)
Theorem c19_static_complete : forall now d pat tf cnt,
  (forall i, 0 <= cnt i) -> NoDup (map fst (d_data d)) ->
  exists keys, scan_static now d pat tf cnt = (keys, Some (live_keys now d tf)) /\ NoDup keys /\
    forall k, In k keys <-> key_visible now d tf k /\ key_matches pat k = true.
Proof. exact scan_static_complete. Qed.

(** 3. soundness of every single call, any cursor and COUNT *)
Theorem c19_sound : forall now d cursor pat tf count k,
  0 <= cursor -> 0 <= count ->
  In k (snd (eng_scan now d cursor pat tf count)) -> key_visible now d tf k /\ key_matches pat k = true.
Proof. exact eng_scan_sound. Qed.

Theorem c19_sound_generic : forall A (keyof : A -> bytes) items cursor count pat x,
  0 <= cursor -> 0 <= count ->
  In x (snd (scan_core keyof items cursor count pat)) -> In x items /\ scan_inc keyof pat x = true.
Proof. intros A. exact (@scan_core_sound A). Qed.

(** 4. modifications between calls.
    Full statement of the property (FALSE of this design, see c19_concurrent_refuted):
      forall states pat tf cnt keys Lf k, scan_dynamic states pat tf cnt = (keys, Some Lf) ->
        (forall st, In st states -> key_visible (fst st) (snd st) tf k) -> key_matches pat k = true ->
        In k keys.
    Proved part: when every addition, deletion and expiry between two calls leaves the sorted list
    before the cursor unchanged (i.e. concerns keys sorting at or after the key at the cursor). *)
Theorem c19_concurrent_partial : forall states pat tf cnt keys Lf k,
  (forall i, 0 <= cnt i) -> scan_prefix_stable states pat tf cnt ->
  scan_dynamic states pat tf cnt = (keys, Some Lf) ->
  (forall st, In st states -> key_visible (fst st) (snd st) tf k) -> key_matches pat k = true ->
  In k keys.
Proof. exact scan_dynamic_partial. Qed.

(** the same with the hypothesis in DESIGN's words: between two calls every key added, deleted or
    expired sorts at or after the key at the cursor position (scan_order_stable: the keys below it
    are the same in both states) *)
Theorem c19_concurrent_partial_by_order : forall states pat tf cnt keys Lf k,
  (forall i, 0 <= cnt i) -> (forall st, In st states -> NoDup (map fst (d_data (snd st)))) ->
  scan_order_stable states pat tf cnt ->
  scan_dynamic states pat tf cnt = (keys, Some Lf) ->
  (forall st, In st states -> key_visible (fst st) (snd st) tf k) -> key_matches pat k = true ->
  In k keys.
Proof. exact scan_dynamic_partial_order. Qed.

Theorem c19_concurrent_partial_generic : forall A (keyof : A -> bytes) pat cnt lists u Lf x,
  (forall i, 0 <= cnt i) -> prefix_stable keyof pat cnt lists 0 0 ->
  iterate keyof pat cnt lists 0 0 = (u, Some Lf) ->
  In x Lf -> scan_inc keyof pat x = true -> In x u.
Proof. intros A. exact (@iterate_dyn_complete A). Qed.

(** F-19a: keys a b c d; SCAN 0 COUNT 2 -> cursor 2 [a b]; DEL a; SCAN 2 COUNT 2 -> cursor 0 [d]:
    c is present throughout and never returned *)
Definition db_of (keys : list String.string) : db :=
  fold_left (fun d k => set_value 0 d (bs k) (VStr (bs "v")) None) keys empty_db.
Definition db_abcd : db := db_of ["a"; "b"; "c"; "d"]%string.
Definition db_bcd : db := snd (eng_delete db_abcd (bs "a")).

Theorem c19_concurrent_refuted :
  exists states cnt keys Lf k,
    scan_dynamic states None None cnt = (keys, Some Lf) /\
    (forall st, In st states -> key_visible (fst st) (snd st) None k) /\
    key_matches None k = true /\ ~ In k keys.
Proof.
  exists [(0, db_abcd); (0, db_bcd)], (fun _ => 2), [bs "a"; bs "b"; bs "d"], [bs "b"; bs "c"; bs "d"], (bs "c").
  split; [vm_compute; reflexivity|]. split; [|split; [reflexivity|]].
  - intros st [<-|[<-|[]]]; exists {| e_val := VStr (bs "v"); e_exp := None |}; (split; [vm_compute; tauto | reflexivity]).
  - vm_compute. intuition discriminate.
Qed.

(** the same history in which the deleted key sorts after the cursor is complete (non-vacuity of
    the hypothesis of c19_concurrent_partial) *)
Example c19_partial_nonvacuous :
  let states := [(0, db_abcd); (0, snd (eng_delete db_abcd (bs "d")))] in
  scan_prefix_stable states None None (fun _ => 2) /\
  scan_dynamic states None None (fun _ => 2) = ([bs "a"; bs "b"; bs "c"], Some [bs "a"; bs "b"; bs "c"]).
Proof. vm_compute. repeat split. Qed.

(** 5. SSCAN (HSCAN and ZSCAN have the same two paths over psort): on a live set either the fast
    path returns every member with cursor 0, or the call is [scan_core] over the sorted members,
    to which theorems 1-4 apply *)
Theorem c19_sscan_call : forall now d key s cursor pat count,
  get_entry d key = Some {| e_val := VSet s; e_exp := None |} ->
  eng_sscan now d key cursor pat count =
  (Some (if (len s <=? scan_limit count) && (cursor =? 0) && negb (match pat with Some _ => true | None => false end)
         then (0, bsort s) else scan_core (fun m => m) (bsort s) cursor count pat), d).
Proof. exact eng_sscan_live. Qed.

(** non-vacuity / regression examples *)
Example c19_static_example :
  scan_static 0 db_abcd (Some (bs "[a-c]")) (Some (bs "string")) (fun i => Z.of_nat i) =
  ([bs "a"; bs "b"; bs "c"], Some [bs "a"; bs "b"; bs "c"; bs "d"]).
Proof. vm_compute. reflexivity. Qed.
