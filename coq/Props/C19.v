(** C19 - A full SCAN iteration returns every element present throughout it.
    Statements only; proofs in Proofs/ScanFacts.v.  Model: Model/Scan.v (engine.rs scan / hscan /
    sscan / zscan after the repair e3de5de, and commands/scan.rs), tied to /repo by harness/src/c19.rs.

    The cursor is a hash: elements are walked in the order of [hf] (element_hash = FNV-1a in the
    engine; the theorems hold for ANY hash function with non-negative values, so runs of equal
    hashes are covered) and a call with cursor c returns the elements with hash >= c of one interval.

    Vocabulary (Proofs/ScanFacts.v):
      scan_core hf keyof items cursor count pat  one call on the collection [items]: (next cursor, elements)
      scan_inc keyof pat x                       x passes MATCH
      iterate hf keyof pat cnt lists k cursor    calls chained by the returned cursor, the i-th on the i-th
                                                 collection with COUNT [cnt i]; (everything returned, finished?)
      key_visible now d tf k                     k is stored, not expired at [now], of type [tf]
      scan_iter states pat tf cnt                [iterate] of SCAN over successive (time, database) states *)
From Ferrous Require Import Base.Bytes Model.Resp Model.Types Model.Glob Model.Strings Model.Scan
  Proofs.ScanFacts.
Open Scope Z_scope.

(** 1. each call covers one interval of hash values completely: with (next, res) it returns exactly
    the elements of the collection that pass the filter and whose hash is in [cursor, next)
    ([cursor, infinity) when next = 0); next is 0 or the hash of an element, strictly above the cursor *)
Theorem c19_call_covers_interval : forall A (hf : A -> Z) (keyof : A -> bytes),
  (forall x, 0 <= hf x) -> forall items cursor count pat next res,
  0 <= count -> scan_core hf keyof items cursor count pat = (next, res) ->
  (forall x, In x res <-> In x items /\ scan_inc keyof pat x = true /\ cursor <= hf x /\ (next = 0 \/ hf x < next)) /\
  (next = 0 \/ (cursor < next /\ exists y, In y items /\ hf y = next)).
Proof. intros A hf keyof H. exact (scan_core_page hf keyof H). Qed.

(** 2. completeness over ANY interleaving of additions and deletions between the calls (the
    collections of the successive calls are arbitrary): a complete iteration (cursor 0 ... returned
    cursor 0) returns every element that is in the collection at every call and passes the filter *)
Theorem c19_complete : forall A (hf : A -> Z) (keyof : A -> bytes),
  (forall x, 0 <= hf x) -> forall pat cnt x, (forall i, 0 <= cnt i) -> scan_inc keyof pat x = true ->
  forall lists u, iterate hf keyof pat cnt lists 0 0 = (u, true) ->
  (forall L, In L lists -> In x L) -> In x u.
Proof.
  intros A hf keyof H pat cnt x Hc Hi lists u E Hall.
  exact (iterate_complete hf keyof H pat cnt x Hc Hi lists 0%nat 0 u (H x) E Hall).
Qed.

(** 3. soundness: nothing is returned that was not in the collection at the time of some call, or
    that fails the filter *)
Theorem c19_sound : forall A (hf : A -> Z) (keyof : A -> bytes),
  (forall x, 0 <= hf x) -> forall pat cnt x, (forall i, 0 <= cnt i) ->
  forall lists k cursor u f, iterate hf keyof pat cnt lists k cursor = (u, f) -> In x u ->
  scan_inc keyof pat x = true /\ exists L, In L lists /\ In x L.
Proof. intros A hf keyof H pat cnt x Hc. exact (iterate_sound hf keyof H pat cnt x Hc). Qed.

(** 4. termination: cursors strictly increase (1); on a collection that no longer changes every call
    that does not end the iteration strictly shrinks the part not yet covered, so from ANY cursor the
    iteration ends within (elements with hash >= cursor) + 1 calls - and it returns exactly those
    elements that pass the filter, in hash order, each once *)
Theorem c19_terminates_measure : forall A (hf : A -> Z) (keyof : A -> bytes),
  (forall x, 0 <= hf x) -> forall items cursor count pat next res,
  0 <= count -> scan_core hf keyof items cursor count pat = (next, res) -> next <> 0 ->
  (length (from_hash hf next (hsort hf keyof items)) < length (from_hash hf cursor (hsort hf keyof items)))%nat.
Proof. intros A hf keyof H. exact (scan_core_measure hf keyof H). Qed.

Theorem c19_static_complete_generic : forall A (hf : A -> Z) (keyof : A -> bytes),
  (forall x, 0 <= hf x) -> forall pat cnt L, (forall i, 0 <= cnt i) ->
  forall n k cursor, (length (from_hash hf cursor (hsort hf keyof L)) < n)%nat ->
  iterate hf keyof pat cnt (repeat L n) k cursor =
  (filter (scan_inc keyof pat) (from_hash hf cursor (hsort hf keyof L)), true).
Proof. intros A hf keyof H. exact (iterate_static hf keyof H). Qed.

(** 5. SCAN on databases.  One call: *)
Theorem c19_scan_call : forall now d cursor pat tf count next keys,
  0 <= count -> eng_scan now d cursor pat tf count = (next, keys) ->
  (forall k, In k keys <-> key_visible now d tf k /\ key_matches pat k = true /\
                          cursor <= key_hash k /\ (next = 0 \/ key_hash k < next)) /\
  (next = 0 \/ (cursor < next /\ exists k, key_visible now d tf k /\ key_hash k = next)).
Proof. exact eng_scan_page. Qed.

(** a complete SCAN iteration over arbitrary successive database states (any keys added, deleted,
    expired or retyped in between) returns every key that is visible at every call and matches *)
Theorem c19_scan_complete : forall states pat tf cnt keys k,
  (forall i, 0 <= cnt i) -> scan_iter states pat tf cnt = (keys, true) ->
  (forall st, In st states -> key_visible (fst st) (snd st) tf k) -> key_matches pat k = true ->
  In k keys.
Proof. exact scan_iter_complete. Qed.

Theorem c19_scan_sound : forall states pat tf cnt keys f k,
  (forall i, 0 <= cnt i) -> scan_iter states pat tf cnt = (keys, f) -> In k keys ->
  key_matches pat k = true /\ exists st, In st states /\ key_visible (fst st) (snd st) tf k.
Proof. exact scan_iter_sound. Qed.

(** on an unchanged database: exactly the visible keys of the requested type that match, each once *)
Theorem c19_static_complete : forall now d pat tf cnt,
  (forall i, 0 <= cnt i) -> NoDup (map fst (d_data d)) ->
  let L := live_keys now d tf in
  exists keys, iterate key_hash (fun k => k) pat cnt (repeat L (S (length L))) 0 0 = (keys, true) /\
    NoDup keys /\ forall k, In k keys <-> key_visible now d tf k /\ key_matches pat k = true.
Proof. exact scan_static. Qed.

(** 6. HSCAN / SSCAN / ZSCAN on a live collection: the single-call fast path returns everything with
    cursor 0, otherwise the call is [scan_core] over the fields / members with their FNV-1a hash, to
    which 1-4 apply *)
Theorem c19_sscan_call : forall now d key s cursor pat count,
  get_entry d key = Some {| e_val := VSet s; e_exp := None |} ->
  eng_sscan now d key cursor pat count =
  (Some (if (len s <=? scan_limit count) && (cursor =? 0) && no_pat pat
         then (0, bsort s) else scan_core key_hash (fun m => m) s cursor count pat), d).
Proof. exact eng_sscan_live. Qed.

Theorem c19_hscan_call : forall now d key h cursor pat count nov,
  get_entry d key = Some {| e_val := VHash h; e_exp := None |} ->
  eng_hscan now d key cursor pat count nov =
  (Some (if (len h <=? scan_limit count) && (cursor =? 0) && no_pat pat
         then (0, flat_pairs nov (psort h))
         else (fst (scan_core pair_hash fst h cursor count pat), flat_pairs nov (snd (scan_core pair_hash fst h cursor count pat)))), d).
Proof. exact eng_hscan_live. Qed.

Theorem c19_zscan_call : forall now d key z cursor pat count,
  get_entry d key = Some {| e_val := VZSet z; e_exp := None |} ->
  eng_zscan now d key cursor pat count =
  (Some (if (len z <=? scan_limit count) && (cursor =? 0) && no_pat pat
         then (0, psort z) else scan_core pair_hash fst z cursor count pat), d).
Proof. exact eng_zscan_live. Qed.

(** the hash of the engine is a 64-bit value, so the hypothesis of 1-4 holds and cursors fit u64 *)
Theorem c19_hash_is_u64 : forall k, 0 <= key_hash k < two64.
Proof. exact fnv1a_range. Qed.

(** the executed model computes each hash once (sort_by_cached_key); it is the same function *)
Theorem c19_cached_is_core : forall A (hf : A -> Z) (keyof : A -> bytes) items cursor count pat,
  scan_core_cached hf keyof items cursor count pat = scan_core hf keyof items cursor count pat.
Proof. intros A. exact (@scan_core_cached_eq A). Qed.

(** ---- witnesses ---- *)
Definition db_of (keys : list String.string) : db :=
  fold_left (fun d k => set_value 0 d (bs k) (VStr (bs "v")) None) keys empty_db.
Definition db_abcd : db := db_of ["a"; "b"; "c"; "d"]%string.

(** the former F-19a witness (scan-shift, repaired by e3de5de): a b c d; SCAN 0 COUNT 2 -> cursor
    12638189399578898418 [d a]; DEL d (or a: any key); SCAN <cursor> COUNT 2 -> 0 [c b]: every key
    that stayed is returned *)
Example c19_shift_witness_repaired :
  eng_scan 0 db_abcd 0 None None 2 = (12638189399578898418, [bs "d"; bs "a"]) /\
  eng_scan 0 (snd (eng_delete db_abcd (bs "d"))) 12638189399578898418 None None 2 = (0, [bs "c"; bs "b"]) /\
  eng_scan 0 (snd (eng_delete db_abcd (bs "a"))) 12638189399578898418 None None 2 = (0, [bs "c"; bs "b"]) /\
  scan_iter [(0, db_abcd); (0, snd (eng_delete db_abcd (bs "a")))] None None (fun _ => 2) =
    ([bs "d"; bs "a"; bs "c"; bs "b"], true).
Proof. vm_compute. repeat split. Qed.

(** hash ties (forged with a constant hash): a full page still takes the rest of the run, so one
    call returns the whole run and the next cursor never points inside it *)
Example c19_ties :
  scan_core (fun _ : bytes => 7) (fun k => k) [bs "a"; bs "b"; bs "c"] 0 1 None = (0, [bs "a"; bs "b"; bs "c"]) /\
  scan_core (fun k : bytes => match k with [97] => 3 | [122] => 9 | _ => 7 end) (fun k => k)
            [bs "z"; bs "c"; bs "b"; bs "a"] 0 2 None = (9, [bs "a"; bs "b"; bs "c"]).
Proof. vm_compute. split; reflexivity. Qed.

Example c19_static_example :
  iterate key_hash (fun k => k) (Some (bs "[a-c]")) (fun i => Z.of_nat i)
          (repeat (live_keys 0 db_abcd (Some (bs "string"))) 5) 0 0 = ([bs "a"; bs "c"; bs "b"], true).
Proof. vm_compute. reflexivity. Qed.
