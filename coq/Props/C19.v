(** C19 - SCAN (statements only; proofs in Proofs/ScanFacts.v). *)
From Ferrous Require Import Base.Bytes Model.Types Model.Strings Model.Scan.
Open Scope Z_scope.

Definition db_abcd : db :=
  fold_left (fun d k => set_value 0 d (bs k) (VStr (bs "v")) None) ["a"; "b"; "c"; "d"]%string empty_db.

(** F-19a: a b c d; SCAN 0 COUNT 2 -> (2, [a; b]); DEL a; SCAN 2 COUNT 2 -> (0, [d]): c is never returned *)
Theorem c19_shift_witness :
  eng_scan 0 db_abcd 0 None None 2 = (2, [bs "a"; bs "b"]) /\
  eng_scan 0 (snd (eng_delete db_abcd (bs "a"))) 2 None None 2 = (0, [bs "d"]).
Proof. vm_compute. split; reflexivity. Qed.
