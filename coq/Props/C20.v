(** C20 - The RESP codec round-trips and is independent of how bytes are chunked.
    Only statements; proofs are in Proofs/RespFacts.v. *)
From Ferrous Require Import Base.Bytes Model.Resp Proofs.RespFacts.
Open Scope Z_scope.

(** never reserves memory according to a declared length it has not received *)
Theorem c20_reserve_bounded :
  forall declared data, reserve_request declared data <= len data.
Proof. exact reserve_request_bounded. Qed.
