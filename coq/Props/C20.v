(** C20 - The RESP codec round-trips and is independent of how bytes are chunked.
    Statements only; proofs are in Proofs/RespFacts.v.  The model (Model/Resp.v)
    mirrors src/protocol/parser.rs and serializer.rs after the repairs
    2aff8f9, 19441b8, cb498ad; [dparse]/[dprint] are the oracles for Rust's
    f64 <-> decimal text conversion and are universally quantified. *)
From Ferrous Require Import Generated Base.Bytes Model.Resp Proofs.BytesFacts Proofs.RespFacts Proofs.RespPipeFacts.
Open Scope Z_scope.

(** Serialising any well-formed value and parsing the bytes gives back the same
    value and consumes exactly those bytes (whatever follows them). *)
Theorem c20_roundtrip :
  forall dparse dprint f rest, wf dparse dprint max_levels f ->
  exists b, ser dprint f = (b, true) /\
            parse_frame dparse max_levels (b ++ rest) = Done f rest.
Proof. exact roundtrip. Qed.

(** the same with the well-formedness test as an evaluable boolean *)
Theorem c20_roundtrip_b :
  forall dparse dprint f rest, wfb dparse dprint max_levels f = true ->
  exists b, ser dprint f = (b, true) /\
            parse_frame dparse max_levels (b ++ rest) = Done f rest.
Proof. exact roundtrip_b. Qed.

(** Feeding a byte stream in any chunking yields the same frames, in the same
    order, and the same final status (need-more / error) as feeding it whole. *)
Theorem c20_chunk_independent :
  forall dparse chunks, run_chunks dparse chunks = run_chunks dparse [concat chunks].
Proof. exact chunk_independent. Qed.

(** A frame, once complete, is not changed by later bytes; a protocol error is
    not revoked by later bytes; a complete frame consumes at least one byte. *)
Theorem c20_results_stable :
  forall dparse d data,
  (forall f rest, parse_frame dparse d data = Done f rest ->
     (length rest < length data)%nat /\
     forall more, parse_frame dparse d (data ++ more) = Done f (rest ++ more)) /\
  (parse_frame dparse d data = Err -> forall more, parse_frame dparse d (data ++ more) = Err).
Proof. exact parse_frame_stable. Qed.

(** Totality: the model parser is a total function into {frame, need more,
    error} (no Panic outcome exists after the repairs), and the server's drain
    loop terminates within its fuel: more fuel never changes the result. *)
Theorem c20_drain_total :
  forall dparse buf fuel, (length buf < fuel)%nat ->
  drain dparse fuel buf [] = drain_buf dparse buf.
Proof. exact drain_fuel_irrelevant. Qed.

(** Pipelining: any list of well-formed values serialised back to back and fed to the
    server's read loop (RespParser::parse repeatedly: whitespace skipping, the inline PING
    shortcut, newline trimming after a frame) in ANY chunking comes back as exactly those
    values, in order, with every byte consumed and the parser waiting for more input. *)
Theorem c20_pipeline_roundtrip :
  forall dparse dprint fs b chunks,
  Forall (wf dparse dprint max_levels) fs -> ser_list dprint fs = (b, true) ->
  concat chunks = b ->
  run_chunks dparse chunks = (fs, NeedMore) /\ drain_buf dparse b = (fs, NeedMore, []).
Proof.
  intros dparse dprint fs b chunks Hwf Hs Hc. split.
  - exact (pipeline_roundtrip_chunks dparse dprint fs b chunks Hwf Hs Hc).
  - exact (pipeline_roundtrip dparse dprint fs b Hwf Hs).
Qed.

(** never reserves memory according to a declared length it has not received *)
Theorem c20_reserve_bounded :
  forall declared data, reserve_request declared data <= len data.
Proof. exact reserve_request_bounded. Qed.

(** ---- non-vacuity and the boundary of [wf] ---- *)
Definition no_dparse (_ : bytes) : option Z := None.
Definition no_dprint (_ : Z) : bytes := [].

Example c20_wf_inhabited :
  wfb no_dparse no_dprint max_levels
     (FArray [FBulk (bs "SET"); FBulk [13; 10; 0; 255]; FInt (-5); FNullBulk;
              FMap [FSimple (bs "k"); FSet [FBool true; FNull]]; FArray []]) = true.
Proof. vm_compute. reflexivity. Qed.

(** the pipeline theorem's premises are met by a non-trivial pipeline, split mid-frame *)
Example c20_pipeline_inhabited :
  let fs := [FArray [FBulk (bs "SET"); FBulk [13; 10]]; FSimple (bs "PING"); FInt (-1); FArray []] in
  let b := fst (ser_list no_dprint fs) in
  forallb (wfb no_dparse no_dprint max_levels) fs = true /\
  ser_list no_dprint fs = (b, true) /\
  run_chunks no_dparse [firstn 7 b; firstn 9 (skipn 7 b); skipn 16 b] = (fs, NeedMore).
Proof. vm_compute. repeat split; reflexivity. Qed.

(** outside [wf] the round-trip is not the identity: a simple string containing
    CR LF reads back with the two bytes written as spaces (still one frame, see C05) *)
Example c20_simple_crlf_refuted :
  exists f b, ser no_dprint f = (b, true) /\
              parse_frame no_dparse max_levels b = Done (FSimple [97; 32; 32; 98]) [] /\
              FSimple [97; 32; 32; 98] <> f.
Proof.
  exists (FSimple [97; 13; 10; 98]). eexists. split; [reflexivity|].
  split; [vm_compute; reflexivity|discriminate].
Qed.

(** a NoResponse frame is not serialisable: the serializer stops half-way
    (this is the C05 class noresponse-in-exec) *)
Example c20_noresponse_partial :
  ser no_dprint (FArray [FSimple (bs "OK"); FNoResponse; FInt 1]) = (bs "*3" ++ crlf ++ bs "+OK" ++ crlf, false).
Proof. vm_compute. reflexivity. Qed.

(** the chunking witness repaired by cb498ad: "PI" then "NG\r\n" *)
Example c20_ping_chunks :
  run_chunks no_dparse [bs "PI"; bs "NG" ++ crlf] = ([FArray [FBulk ping]], NeedMore).
Proof. vm_compute. reflexivity. Qed.

(** nesting deeper than the limit is an error, not a crash *)
Example c20_depth_limit :
  parse_frame no_dparse max_levels (concat (repeat (bs "*1" ++ crlf) 33) ++ bs ":7" ++ crlf) = Err /\
  exists f, parse_frame no_dparse max_levels (concat (repeat (bs "*1" ++ crlf) 32) ++ bs ":7" ++ crlf) = Done f [].
Proof. split; [vm_compute; reflexivity|]. eexists. vm_compute. reflexivity. Qed.

(** table regenerated from parser.rs: every recursive call of an aggregate parser (array
    element, map key, map value, set member) passes depth + 1, so the nesting limit bounds
    the recursion through every position *)
Theorem c20_every_recursion_counts_depth :
  length parser_depth_args = 4%nat /\
  forallb (fun p => beq (snd p) (bs "depth + 1")) parser_depth_args = true.
Proof. split; vm_compute; reflexivity. Qed.
