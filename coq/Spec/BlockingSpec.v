(** The event-loop transition system of the blocking pops (C13) and what the property
    statement prescribes about it.  Definitions only; the theorems are in Props/C13.v, their
    proofs in Proofs/BlockingFacts.v, BlockingFifo.v, BlockingCons.v, BlockingStrand.v.  Model: Model/Blocking.v beside Model/Server.v. *)
From Ferrous Require Import Base.Bytes Generated Model.Resp Model.Types Model.Strings Model.Lists
  Model.Server Model.Blocking.
From Coq Require Import Sorted.
Open Scope Z_scope.

Definition sys := (server * blocking)%type.

(** The micro-steps of Server::run.  A [EFrame] is one request processed on one connection
    (process_connection runs the frames of a read one after the other: a batch is a sequence
    of EFrame events of the same connection); [EWakeups], [ETimeouts] are the two phases of
    an iteration that serve blocked clients; clients connect and go away; [EHangups] is the
    server noticing it (c7e6509: also for connections that are blocked). *)
Inductive event :=
| EFrame (now c : Z) (f : frame) (oms : option Z)
| EWakeups (now : Z)
| ETimeouts (now : Z)
| EConnect (c : Z)
| EDisconnect (c : Z)      (* the client goes away *)
| EHangups.                (* process_connections looks at the connections whose client is gone *)

Definition frame_step (now : Z) (s : server) (b : blocking) (c : Z) (f : frame) (oms : option Z) : sys :=
  match bprocess_frame now s b c f None oms with
  | (rep, s', b') => (s', match rep with FNoResponse => b' | _ => emit b' c rep end)
  end.
Definition step (st : sys) (e : event) : sys :=
  let (s, b) := st in
  if b_crashed b then st else        (* Server::run has returned: the process is gone *)
  match e with
  | EFrame now c f oms => frame_step now s b c f oms
  | EWakeups now => process_wakeups now s b
  | ETimeouts now => (s, process_timeouts now b)
  | EConnect c => (connect s c, b)
  | EDisconnect c => (del_conn s c, with_dead b (c :: b_dead b))
  | EHangups => (s, reap_dead b)    (* Closing, then cleanup_connections: removed, unregistered everywhere *)
  end.
Definition run (st : sys) (evs : list event) : sys := fold_left step evs st.

Definition cnt (c : Z) (q : list waiter) : nat := length (filter (fun w => w_conn w =? c) q).
Definition wakes_for (c : Z) (l : list wakeup) : list wakeup := filter (fun u => u_conn u =? c) l.

(** ---- which histories ---- *)
Definition bpop_parts (parts : list frame) : bool :=
  match parts with FBulk nm :: _ => is_bpop_name (upper nm) | _ => false end.
Definition bpop_frame (f : frame) : bool :=
  match f with FArray parts => bpop_parts parts | _ => false end.

(** The histories the theorems quantify over: ANY requests, where
    - a request is processed on a connection only while that connection is not blocked: this is
      what process_connection does since 939522b ([c13_batch_is_frames]: the frames behind a
      command that blocks wait), so it is a fact about the code, not a restriction;
    - QUIT is a disconnect; a client that has gone away sends nothing; connection ids are
      fresh and never 0 (CONN_ID_COUNTER starts at 1 and only grows; 0 is the id
      process_command_parts uses inside EXEC). *)
Definition ok (st : sys) (e : event) : bool :=
  let (s, b) := st in
  match e with
  | EFrame now c f oms =>
      match zlookup c (s_conns s) with
      | None => false
      | Some cn => negb (is_blocked b c) && negb (is_quit f)
      end
  | EConnect c =>
      negb (c =? 0) && negb (is_blocked b c) && (match zlookup c (s_conns s) with None => true | Some _ => false end)
      && (match wakes_for c (b_wake b) with [] => true | _ => false end) && negb (existsb (Z.eqb c) (b_dead b))
  | _ => true
  end.

Inductive reach (pw : option bytes) : sys -> Prop :=
| reach_init : reach pw (init_server pw, init_blocking)
| reach_step : forall st e, reach pw st -> ok st e = true -> reach pw (step st e).

(** ---- registry / connection-state agreement ---- *)

(** a waiter in the registry: its connection is Blocked on that key of that database with
    that deadline and operation, and no wake-up is under way for it *)
Definition waiters_agree (b : blocking) : Prop :=
  forall rk q w, In (rk, q) (b_reg b) -> In w q ->
  exists st, zlookup (w_conn w) (b_blk b) = Some st /\ fst rk = bl_db st /\ bmem (snd rk) (bl_keys st) = true
             /\ w_dl w = bl_dl st /\ w_left w = bl_left st /\ wakes_for (w_conn w) (b_wake b) = [].
(** a queued wake-up: its connection has no registration left and, unless it has gone away
    meanwhile, is Blocked on that key *)
Definition wakes_agree (b : blocking) : Prop :=
  forall u, In u (b_wake b) ->
  (forall rk q, In (rk, q) (b_reg b) -> cnt (u_conn u) q = O) /\
  (forall st, zlookup (u_conn u) (b_blk b) = Some st ->
     u_db u = bl_db st /\ bmem (u_key u) (bl_keys st) = true /\ u_left u = bl_left st).
Definition wakes_unique (b : blocking) : Prop := NoDup (map u_conn (b_wake b)).
(** a Blocked connection without a wake-up under way is registered on every one of its keys *)
Definition blocked_registered (b : blocking) : Prop :=
  forall c st, zlookup c (b_blk b) = Some st -> wakes_for c (b_wake b) = [] ->
  forall k, bmem k (bl_keys st) = true -> cnt c (reg_get (b_reg b) (bl_db st, k)) <> O.
Definition agree (b : blocking) : Prop :=
  waiters_agree b /\ wakes_agree b /\ wakes_unique b /\ blocked_registered b.

(** no connection has the id 0 (the id the queued commands of an EXEC run with); a wake-up whose
    connection is not Blocked belongs to a connection that is gone; so does a client that went away *)
Definition gone_ok (st : sys) : Prop :=
  (forall u, In u (b_wake (snd st)) -> zlookup (u_conn u) (b_blk (snd st)) = None -> zlookup (u_conn u) (s_conns (fst st)) = None)
  /\ (forall c, In c (b_dead (snd st)) -> zlookup c (s_conns (fst st)) = None).
Definition inv (st : sys) : Prop :=
  b_crashed (snd st) = true \/ (agree (snd st) /\ zlookup 0 (s_conns (fst st)) = None /\ gone_ok st).

(** ---- what a step writes to the connections ---- *)
(** [wrote b b' new]: the step appended the frames [new] (oldest first) *)
Definition wrote (b b' : blocking) (new : list (Z * frame)) : Prop := b_out b' = rev new ++ b_out b.
Definition frames_to (c : Z) (new : list (Z * frame)) : list frame :=
  map snd (filter (fun cf => fst cf =? c) new).

(** ---- conservation ---- *)
(** the histories of the conservation theorem: requests from the list catalogue of the
    property (pushes, pops, blocking pops, reads, transactions of those); clients may go away
    at any time, blocked or not.  The catalogue has no command that gives a key a deadline, so
    no list ever expires in these histories ([c13_no_deadlines]); with EXPIRE on a list its
    elements legitimately vanish at the deadline and the equation would need an "expired" term. *)
Definition list_cmds : list bytes :=
  [bs "LPUSH"; bs "RPUSH"; bs "LPOP"; bs "RPOP"; bs "BLPOP"; bs "BRPOP"; bs "LLEN"; bs "LRANGE"; bs "LINDEX";
   bs "MULTI"; bs "EXEC"; bs "DISCARD"; bs "PING"; bs "SELECT"].
Definition list_frame (f : frame) : bool :=
  match f with
  | FArray (FBulk nm :: _) => bmem (upper nm) list_cmds && beq (upper (trim nm)) (upper nm)
  | _ => true        (* answered "invalid request/command format": touches nothing *)
  end.
Definition ok_cons (st : sys) (e : event) : bool :=
  ok st e &&
  match e with
  | EFrame _ _ f _ => list_frame f
  | _ => true
  end.
(** the list stored at a key (nothing for a missing key or another type) *)
Definition list_at (s : server) (db : Z) (k : bytes) : list bytes :=
  match get_val (get_db s db) k with Some (VList l) => l | _ => [] end.
Definition occ (x : bytes) (l : list bytes) : Z := len (filter (fun y => beq y x) l).

(** an element of a list: (database, key, element); multisets of them as lists with a count *)
Definition elem := (Z * bytes * bytes)%type.
Definition elem_eqb (a b : elem) : bool :=
  match a, b with (d, k, x), (d', k', x') => (d =? d') && beq k k' && beq x x' end.
Definition ecount (e : elem) (l : list elem) : Z := len (filter (elem_eqb e) l).

(** what a request pushed / got back, read off the request and ITS REPLY: an LPUSH/RPUSH
    answered with an integer pushed its arguments; an LPOP/RPOP answered with a bulk, a
    BLPOP/BRPOP answered with [key, element], got that element *)
Definition pushed_of (dbi : Z) (parts : list frame) (rep : frame) : list elem :=
  match parts, rep with
  | FBulk nm :: FBulk k :: els, FInt _ =>
      if is_push_name (upper nm) then map (fun e => (dbi, k, e)) (bulk_args els) else []
  | _, _ => []
  end.
Definition returned_of (dbi : Z) (parts : list frame) (rep : frame) : list elem :=
  match parts with
  | FBulk nm :: rest =>
      if beq (upper nm) (bs "LPOP") || beq (upper nm) (bs "RPOP") then
        match rest, rep with FBulk k :: _, FBulk v => [(dbi, k, v)] | _, _ => [] end
      else if is_bpop_name (upper nm) then
        match rep with FArray [FBulk k'; FBulk v] => [(dbi, k', v)] | _ => [] end
      else []
  | _ => []
  end.
(** the queued commands of an EXEC against the slots of its reply; a queued SELECT answered
    OK selected the database the commands after it run in (1ecc022) *)
Definition is_ok (rep : frame) : bool := match rep with FSimple t => beq t (bs "OK") | _ => false end.
Definition next_db (dbi : Z) (parts : list frame) (rep : frame) : Z :=
  match parts with
  | [FBulk nm; FBulk a] =>
      if beq (upper nm) (bs "SELECT") && is_ok rep
      then match parse_usize a with Some n => n | None => dbi end
      else dbi
  | _ => dbi
  end.
Fixpoint zip_effects (f : Z -> list frame -> frame -> list elem) (dbi : Z) (q : list (list frame)) (reps : list frame) : list elem :=
  match q, reps with
  | parts :: q', r :: reps' => f dbi parts r ++ zip_effects f (next_db dbi parts r) q' reps'
  | _, _ => []
  end.
Definition frame_effect (f : Z -> list frame -> frame -> list elem) (s : server) (c : Z) (req rep : frame) : list elem :=
  match zlookup c (s_conns s), req with
  | Some cn, FArray (FBulk nm :: rest) =>
      if c_intx cn then
        if beq (upper nm) (bs "EXEC") then
          match rep with FArray reps => zip_effects f (c_db cn) (c_queue cn) reps | _ => [] end
        else []                                       (* queued, or transaction control *)
      else f (c_db cn) (FBulk nm :: rest) rep
  | _, _ => []
  end.
(** the reply the model gives to a request (NoResponse: none) *)
Definition reply_at (st : sys) (e : event) : frame :=
  match e with
  | EFrame now c f oms => fst (fst (bprocess_frame now (fst st) (snd st) c f None oms))
  | _ => FNoResponse
  end.
(** what a phase of the event loop appended to the write buffers, oldest first *)
Definition new_out (b b' : blocking) : list (Z * frame) :=
  rev (firstn (length (b_out b') - length (b_out b)) (b_out b')).
(** a wake-up delivery [key, element] to a connection Blocked in database db returns (db, key, element) *)
Definition async_returns (b : blocking) (new : list (Z * frame)) : list elem :=
  flat_map (fun cf => match snd cf, zlookup (fst cf) (b_blk b) with
                      | FArray [FBulk k; FBulk v], Some st => [(bl_db st, k, v)]
                      | _, _ => []
                      end) new.
Definition pushed_in (st : sys) (e : event) : list elem :=
  match e with
  | EFrame now c f oms => frame_effect pushed_of (fst st) c f (reply_at st e)
  | _ => []
  end.
Definition returned_in (st : sys) (e : event) : list elem :=
  match e with
  | EFrame now c f oms => frame_effect returned_of (fst st) c f (reply_at st e)
  | EWakeups _ => async_returns (snd st) (new_out (snd st) (snd (step st e)))
  | _ => []
  end.
(** reachable states with the multisets of everything pushed and everything returned so far *)
Inductive reach_g : sys -> list elem -> list elem -> Prop :=
| rg_init : reach_g (init_server None, init_blocking) [] []
| rg_step : forall st P R e, reach_g st P R -> ok_cons st e = true ->
    reach_g (step st e) (P ++ pushed_in st e) (R ++ returned_in st e).

(** ---- witness histories of the known classes (evaluated in Props/C13.v) ---- *)
Definition cmd (l : list bytes) : frame := FArray (map FBulk l).
Definition at0 (c : Z) (l : list bytes) (oms : option Z) : event := EFrame 0 c (cmd l) oms.
Definition sys0 : sys := (init_server None, init_blocking).
Definition out_to (st : sys) (c : Z) : list frame := rev (frames_to c (b_out (snd st))).
Definition waiting (st : sys) (db : Z) (k : bytes) : list Z := map w_conn (reg_get (b_reg (snd st)) (db, k)).

(** blocked-disconnect (fixed c7e6509): the client of a blocked connection goes away; the server
    notices (the blocked socket is looked at), unregisters it, and the next element stays in the
    list instead of being written to a connection nobody reads *)
Definition w_disconnect : list event :=
  [EConnect 1; EConnect 2; at0 1 [bs "BLPOP"; bs "q"; bs "0"] (Some 0); EDisconnect 1; EHangups;
   at0 2 [bs "LPUSH"; bs "q"; bs "v"] None; EWakeups 0].
(** pipelined-behind-block (fixed 939522b): two blocking calls and a PING arrive in one read: the
    first blocks the connection, the rest waits and is processed, in order, once it is unblocked *)
Definition w_behind : list (frame * option Z) :=
  [(cmd [bs "BLPOP"; bs "q"; bs "0.3"], Some 300); (cmd [bs "BLPOP"; bs "r"; bs "0"], Some 0); (cmd [bs "PING"], None)].
(** orphan-wakeup-no-renotify (fixed 0715a3b): the client whose wake-up is under way goes away; the
    wake-up puts the element back and notifies the next client waiting on the key, which the
    following wake-up phase serves *)
Definition w_orphan : list event :=
  [EConnect 1; EConnect 2; EConnect 3; at0 1 [bs "BLPOP"; bs "q"; bs "0"] (Some 0); at0 2 [bs "BLPOP"; bs "q"; bs "0"] (Some 0);
   at0 3 [bs "LPUSH"; bs "q"; bs "v"] None; EDisconnect 1; EHangups; EWakeups 0].
(** script-push-no-notify (fixed e42ab1f): a script that pushes to its declared key wakes the
    client blocked there.  The script: local r={} r[1]=redis.call("LPUSH",KEYS[1],ARGV[1]) return r[1] *)
Definition push_script : bytes :=
  [108; 111; 99; 97; 108; 32; 114; 61; 123; 125; 10; 114; 91; 49; 93; 61; 114; 101; 100; 105; 115; 46; 99; 97; 108; 108; 40; 34; 92; 48; 55; 54; 92; 48; 56; 48; 92; 48; 56; 53; 92; 48; 56; 51; 92; 48; 55; 50; 34; 44; 75; 69; 89; 83; 91; 49; 93; 44; 65; 82; 71; 86; 91; 49; 93; 41; 10; 114; 101; 116; 117; 114; 110; 32; 114; 91; 49; 93].
Definition w_script : list event :=
  [EConnect 1; EConnect 2; at0 1 [bs "BLPOP"; bs "q"; bs "0"] (Some 0);
   at0 2 [bs "EVAL"; push_script; bs "1"; bs "q"; bs "v"] None; EWakeups 0].
(** blocking-in-exec (fixed d076b83): BLPOP inside MULTI used to register a waiter for connection
    id 0 ahead of the real clients; now it answers nil in its slot and the real client is served *)
Definition w_exec : list event :=
  [EConnect 1; EConnect 2; EConnect 3; at0 1 [bs "MULTI"] None; at0 1 [bs "BLPOP"; bs "q"; bs "0"] None;
   at0 1 [bs "EXEC"] None; at0 2 [bs "BLPOP"; bs "q"; bs "0"] (Some 0); at0 3 [bs "LPUSH"; bs "q"; bs "v"] None;
   EWakeups 0].
(** wrongtype-at-wake (fixed e1d4020): the key of a queued wake-up holds a string by the time the
    wake-up runs; the error used to leave the event loop, now the client is registered again *)
Definition w_wrongtype : list event :=
  [EConnect 1; EConnect 2; at0 1 [bs "BLPOP"; bs "q"; bs "0"] (Some 0); at0 2 [bs "LPUSH"; bs "q"; bs "v"] None;
   at0 2 [bs "DEL"; bs "q"] None; at0 2 [bs "SET"; bs "q"; bs "x"] None; EWakeups 0].
(** requeue-at-back (fixed 8ab686d): a wake-up that finds its element taken registers the client
    again AHEAD of the clients that blocked after it: the next push serves it *)
Definition w_requeue : list event :=
  [EConnect 1; EConnect 2; EConnect 3; at0 1 [bs "BLPOP"; bs "q"; bs "0"] (Some 0);
   at0 2 [bs "BLPOP"; bs "q"; bs "0"] (Some 0); at0 3 [bs "LPUSH"; bs "q"; bs "a"] None; at0 3 [bs "LPOP"; bs "q"] None;
   EWakeups 0; at0 3 [bs "LPUSH"; bs "q"; bs "b"] None; EWakeups 0].
(** a history inside every hypothesis: two clients on one key, two pushes, a timeout *)
Definition w_good : list event :=
  [EConnect 1; EConnect 2; EConnect 3; at0 1 [bs "BLPOP"; bs "q"; bs "r"; bs "0"] (Some 0);
   at0 2 [bs "BRPOP"; bs "q"; bs "0.3"] (Some 300); at0 3 [bs "RPUSH"; bs "q"; bs "a"; bs "b"; bs "c"] None; EWakeups 0;
   at0 2 [bs "BLPOP"; bs "m"; bs "0.3"] (Some 300); ETimeouts 300].
(** every event of a history satisfies [ok] where it is executed *)
Fixpoint all_ok (st : sys) (evs : list event) : bool :=
  match evs with [] => true | e :: r => ok st e && all_ok (step st e) r end.

(** a history with its ghost multisets, and the check that every event satisfies [ok_cons] *)
Fixpoint gtrace (st : sys) (P R : list elem) (evs : list event) : sys * list elem * list elem :=
  match evs with
  | [] => (st, P, R)
  | e :: r => gtrace (step st e) (P ++ pushed_in st e) (R ++ returned_in st e) r
  end.
Fixpoint all_ok_cons (st : sys) (evs : list event) : bool :=
  match evs with [] => true | e :: r => ok_cons st e && all_ok_cons (step st e) r end.

(** reregister-no-recheck (fixed 8ab686d): client 1 waits on q and r; its element on q is taken
    before the wake-up runs while r receives an element; the wake-up serves it from r *)
Definition w_recheck : list event :=
  [EConnect 1; EConnect 2; at0 1 [bs "BLPOP"; bs "q"; bs "r"; bs "0"] (Some 0);
   at0 2 [bs "LPUSH"; bs "q"; bs "a"] None; at0 2 [bs "LPOP"; bs "q"] None; at0 2 [bs "LPUSH"; bs "r"; bs "b"] None;
   EWakeups 0].

(** ---- no stranding (the safety half of "served promptly") ---- *)
(** wake-ups under way for a key *)
Definition wcount (db : Z) (k : bytes) (W : list wakeup) : Z :=
  len (filter (fun u => (u_db u =? db) && beq (u_key u) k) W).
(** a key that has a waiter holds at most as many elements as wake-ups are under way for it: once the
    wake-up queue has drained, nobody is blocked on a key that holds an element *)
Definition no_strand (st : sys) : Prop :=
  forall db k, 0 <= db -> reg_get (b_reg (snd st)) (db, k) <> [] ->
  len (list_at (fst st) db k) <= wcount db k (b_wake (snd st)).
(** two single-key waiters, a push of two elements observed BEFORE the wake-ups run, then after *)
Definition w_sk : list event :=
  [EConnect 1; EConnect 2; EConnect 3; at0 1 [bs "BLPOP"; bs "q"; bs "0"] (Some 0);
   at0 2 [bs "BRPOP"; bs "q"; bs "0.3"] (Some 300); at0 3 [bs "RPUSH"; bs "q"; bs "a"; bs "b"; bs "c"] None].

(** ---- FIFO as a property of the history: served in the order they blocked ---- *)
(** every registration and every wake-up carries the stamp its blocking call got (blocked_at in
    the code: Instant::now(); in the model a counter, so two calls never share a stamp) *)
Definition stamp_in (b : blocking) (c t : Z) : Prop :=
  (exists rk w, In w (reg_get (b_reg b) rk) /\ w_conn w = c /\ w_at w = t) \/
  (exists u, In u (b_wake b) /\ u_conn u = c /\ u_at u = t).
(** the event leaves its connection Blocked *)
Definition blocks (st : sys) (e : event) : bool :=
  match e with
  | EFrame _ c _ _ => negb (is_blocked (snd st) c) && is_blocked (snd (step st e)) c
  | _ => false
  end.
(** reachable states with the number of blocking calls that blocked so far *)
Inductive reach_n (pw : option bytes) : nat -> sys -> Prop :=
| rn_init : reach_n pw O (init_server pw, init_blocking)
| rn_step : forall n st e, reach_n pw n st -> ok st e = true ->
    reach_n pw (n + (if blocks st e then 1 else 0))%nat (step st e).
(** a queue in the order its waiters blocked *)
Definition stamp_le (a b : waiter) : Prop := w_at a <= w_at b.
Definition in_blocking_order (q : list waiter) : Prop := StronglySorted stamp_le q.
(** the FIFO history: a connection blocks, two more block behind it, its element is taken before
    its wake-up runs (it keeps its place), then three pushes serve the three in the order they blocked *)
Definition w_fifo : list event :=
  [EConnect 1; EConnect 2; EConnect 3; EConnect 4;
   at0 1 [bs "BLPOP"; bs "q"; bs "0"] (Some 0); at0 2 [bs "BLPOP"; bs "q"; bs "0"] (Some 0);
   at0 3 [bs "BLPOP"; bs "q"; bs "0"] (Some 0);
   at0 4 [bs "LPUSH"; bs "q"; bs "x"] None; at0 4 [bs "LPOP"; bs "q"] None; EWakeups 0;
   at0 4 [bs "RPUSH"; bs "q"; bs "a"] None; EWakeups 0; at0 4 [bs "RPUSH"; bs "q"; bs "b"] None; EWakeups 0;
   at0 4 [bs "RPUSH"; bs "q"; bs "c"] None; EWakeups 0].
