(** The event-loop transition system of the blocking pops (C13) and what the property
    statement prescribes about it.  Definitions only; the theorems are in Props/C13.v, their
    proofs in Proofs/BlockingFacts.v.  Model: Model/Blocking.v beside Model/Server.v. *)
From Ferrous Require Import Base.Bytes Generated Model.Resp Model.Types Model.Strings Model.Lists
  Model.Server Model.Blocking.
Open Scope Z_scope.

Definition sys := (server * blocking)%type.

(** The micro-steps of Server::run.  A [EFrame] is one request processed on one connection
    (process_connection runs the frames of a read one after the other: a batch is a sequence
    of EFrame events of the same connection); [EWakeups], [ETimeouts] are the two phases of
    an iteration that serve blocked clients; clients connect and go away. *)
Inductive event :=
| EFrame (now c : Z) (f : frame) (oms : option Z)
| EWakeups
| ETimeouts (now : Z)
| EConnect (c : Z)
| EDisconnect (c : Z).

Definition frame_step (now : Z) (s : server) (b : blocking) (c : Z) (f : frame) (oms : option Z) : sys :=
  match bprocess_frame now s b c f None oms with
  | (rep, s', b') => (s', match rep with FNoResponse => b' | _ => emit b' c rep end)
  end.
Definition step (st : sys) (e : event) : sys :=
  let (s, b) := st in
  if b_crashed b then st else        (* Server::run has returned: the process is gone *)
  match e with
  | EFrame now c f oms => frame_step now s b c f oms
  | EWakeups => process_wakeups s b
  | ETimeouts now => (s, process_timeouts now b)
  | EConnect c => (connect s c, b)
  | EDisconnect c =>
      (* a blocked connection is not read: nothing is noticed; otherwise the next read finds the end of
         the stream and cleanup_connections unregisters the connection from every database *)
      (del_conn s c, if is_blocked b c then with_dead b (c :: b_dead b)
                     else with_reg b (unregister_all (b_reg b) c))
  end.
Definition run (st : sys) (evs : list event) : sys := fold_left step evs st.

(** ---- which histories ---- *)
Definition bpop_parts (parts : list frame) : bool :=
  match parts with FBulk nm :: _ => is_bpop_name (upper nm) | _ => false end.
Definition bpop_frame (f : frame) : bool :=
  match f with FArray parts => bpop_parts parts | _ => false end.

(** The histories the agreement theorems quantify over: ANY requests, with
    - a request is processed on a connection only while that connection is not blocked
      (excluded: class pipelined-behind-block - the server runs the rest of a read, and what
      was written while the connection was blocked, although the connection has just blocked);
    - QUIT is a disconnect; connection ids are fresh and never 0 (CONN_ID_COUNTER starts at 1
      and only grows; 0 is the id process_command_parts uses inside EXEC). *)
Definition ok (st : sys) (e : event) : bool :=
  let (s, b) := st in
  match e with
  | EFrame now c f oms =>
      match zlookup c (s_conns s) with
      | None => false
      | Some cn => negb (is_blocked b c) && negb (is_quit f)
      end
  | EConnect c =>
      negb (c =? 0) && negb (is_blocked b c) && (match zlookup c (s_conns s) with None => true | Some _ => false end)
  | _ => true
  end.

Inductive reach (pw : option bytes) : sys -> Prop :=
| reach_init : reach pw (init_server pw, init_blocking)
| reach_step : forall st e, reach pw st -> ok st e = true -> reach pw (step st e).

(** ---- registry / connection-state agreement ---- *)
Definition cnt (c : Z) (q : list waiter) : nat := length (filter (fun w => w_conn w =? c) q).
Definition wakes_for (c : Z) (l : list wakeup) : list wakeup := filter (fun u => u_conn u =? c) l.

(** a waiter in the registry: its connection is Blocked on that key of that database with
    that deadline and operation, and no wake-up is under way for it *)
Definition waiters_agree (b : blocking) : Prop :=
  forall rk q w, In (rk, q) (b_reg b) -> In w q ->
  exists st, zlookup (w_conn w) (b_blk b) = Some st /\ fst rk = bl_db st /\ bmem (snd rk) (bl_keys st) = true
             /\ w_dl w = bl_dl st /\ w_left w = bl_left st /\ wakes_for (w_conn w) (b_wake b) = [].
(** a queued wake-up: its connection is Blocked on that key and has no registration left *)
Definition wakes_agree (b : blocking) : Prop :=
  forall u, In u (b_wake b) ->
  exists st, zlookup (u_conn u) (b_blk b) = Some st /\ u_db u = bl_db st /\ bmem (u_key u) (bl_keys st) = true
             /\ u_left u = bl_left st /\ forall rk q, In (rk, q) (b_reg b) -> cnt (u_conn u) q = O.
Definition wakes_unique (b : blocking) : Prop := NoDup (map u_conn (b_wake b)).
(** a Blocked connection without a wake-up under way is registered on every one of its keys *)
Definition blocked_registered (b : blocking) : Prop :=
  forall c st, zlookup c (b_blk b) = Some st -> wakes_for c (b_wake b) = [] ->
  forall k, bmem k (bl_keys st) = true -> cnt c (reg_get (b_reg b) (bl_db st, k)) <> O.
Definition agree (b : blocking) : Prop :=
  waiters_agree b /\ wakes_agree b /\ wakes_unique b /\ blocked_registered b.

(** no connection has the id 0 (the id the queued commands of an EXEC run with) *)
Definition inv (st : sys) : Prop :=
  b_crashed (snd st) = true \/ (agree (snd st) /\ zlookup 0 (s_conns (fst st)) = None).

(** ---- what a step writes to the connections ---- *)
(** [wrote b b' new]: the step appended the frames [new] (oldest first) *)
Definition wrote (b b' : blocking) (new : list (Z * frame)) : Prop := b_out b' = rev new ++ b_out b.
Definition frames_to (c : Z) (new : list (Z * frame)) : list frame :=
  map snd (filter (fun cf => fst cf =? c) new).

(** ---- conservation ---- *)
(** the histories of the conservation theorem: requests from the list catalogue of the
    property (pushes, pops, blocking pops, reads, transactions of those), and no client
    goes away while blocked (class blocked-disconnect) *)
Definition list_cmds : list bytes :=
  [bs "LPUSH"; bs "RPUSH"; bs "LPOP"; bs "RPOP"; bs "BLPOP"; bs "BRPOP"; bs "LLEN"; bs "LRANGE"; bs "LINDEX";
   bs "MULTI"; bs "EXEC"; bs "DISCARD"; bs "PING"; bs "SELECT"].
Definition list_frame (f : frame) : bool :=
  match f with
  | FArray (FBulk nm :: _) => bmem (upper nm) list_cmds && beq (upper (trim nm)) (upper nm)
  | _ => true        (* answered "invalid request/command format": touches nothing *)
  end.
Definition ok_cons (st : sys) (e : event) : bool :=
  ok st e &&
  match e with
  | EFrame _ _ f _ => list_frame f
  | EDisconnect c => negb (is_blocked (snd st) c)
  | _ => true
  end.
(** the list stored at a key (nothing for a missing key or another type) *)
Definition list_at (s : server) (db : Z) (k : bytes) : list bytes :=
  match get_val (get_db s db) k with Some (VList l) => l | _ => [] end.
Definition occ (x : bytes) (l : list bytes) : Z := len (filter (fun y => beq y x) l).

(** an element of a list: (database, key, element); multisets of them as lists with a count *)
Definition elem := (Z * bytes * bytes)%type.
Definition elem_eqb (a b : elem) : bool :=
  match a, b with (d, k, x), (d', k', x') => (d =? d') && beq k k' && beq x x' end.
Definition ecount (e : elem) (l : list elem) : Z := len (filter (elem_eqb e) l).

(** what a request pushed / got back, read off the request and ITS REPLY: an LPUSH/RPUSH
    answered with an integer pushed its arguments; an LPOP/RPOP answered with a bulk, a
    BLPOP/BRPOP answered with [key, element], got that element *)
Definition pushed_of (dbi : Z) (parts : list frame) (rep : frame) : list elem :=
  match parts, rep with
  | FBulk nm :: FBulk k :: els, FInt _ =>
      if is_push_name (upper nm) then map (fun e => (dbi, k, e)) (bulk_args els) else []
  | _, _ => []
  end.
Definition returned_of (dbi : Z) (parts : list frame) (rep : frame) : list elem :=
  match parts with
  | FBulk nm :: rest =>
      if beq (upper nm) (bs "LPOP") || beq (upper nm) (bs "RPOP") then
        match rest, rep with FBulk k :: _, FBulk v => [(dbi, k, v)] | _, _ => [] end
      else if is_bpop_name (upper nm) then
        match rep with FArray [FBulk k'; FBulk v] => [(dbi, k', v)] | _ => [] end
      else []
  | _ => []
  end.
(** the queued commands of an EXEC against the slots of its reply *)
Fixpoint zip_effects (f : list frame -> frame -> list elem) (q : list (list frame)) (reps : list frame) : list elem :=
  match q, reps with
  | parts :: q', r :: reps' => f parts r ++ zip_effects f q' reps'
  | _, _ => []
  end.
Definition frame_effect (f : Z -> list frame -> frame -> list elem) (s : server) (c : Z) (req rep : frame) : list elem :=
  match zlookup c (s_conns s), req with
  | Some cn, FArray (FBulk nm :: rest) =>
      if c_intx cn then
        if beq (upper nm) (bs "EXEC") then
          match rep with FArray reps => zip_effects (f (c_db cn)) (c_queue cn) reps | _ => [] end
        else []                                       (* queued, or transaction control *)
      else f (c_db cn) (FBulk nm :: rest) rep
  | _, _ => []
  end.
(** the reply the model gives to a request (NoResponse: none) *)
Definition reply_at (st : sys) (e : event) : frame :=
  match e with
  | EFrame now c f oms => fst (fst (bprocess_frame now (fst st) (snd st) c f None oms))
  | _ => FNoResponse
  end.
(** what a phase of the event loop appended to the write buffers, oldest first *)
Definition new_out (b b' : blocking) : list (Z * frame) :=
  rev (firstn (length (b_out b') - length (b_out b)) (b_out b')).
(** a wake-up delivery [key, element] to a connection Blocked in database db returns (db, key, element) *)
Definition async_returns (b : blocking) (new : list (Z * frame)) : list elem :=
  flat_map (fun cf => match snd cf, zlookup (fst cf) (b_blk b) with
                      | FArray [FBulk k; FBulk v], Some st => [(bl_db st, k, v)]
                      | _, _ => []
                      end) new.
Definition pushed_in (st : sys) (e : event) : list elem :=
  match e with
  | EFrame now c f oms => frame_effect pushed_of (fst st) c f (reply_at st e)
  | _ => []
  end.
Definition returned_in (st : sys) (e : event) : list elem :=
  match e with
  | EFrame now c f oms => frame_effect returned_of (fst st) c f (reply_at st e)
  | EWakeups => async_returns (snd st) (new_out (snd st) (snd (step st e)))
  | _ => []
  end.
(** reachable states with the multisets of everything pushed and everything returned so far *)
Inductive reach_g : sys -> list elem -> list elem -> Prop :=
| rg_init : reach_g (init_server None, init_blocking) [] []
| rg_step : forall st P R e, reach_g st P R -> ok_cons st e = true ->
    reach_g (step st e) (P ++ pushed_in st e) (R ++ returned_in st e).

(** ---- witness histories of the known classes (evaluated in Props/C13.v) ---- *)
Definition cmd (l : list bytes) : frame := FArray (map FBulk l).
Definition at0 (c : Z) (l : list bytes) (oms : option Z) : event := EFrame 0 c (cmd l) oms.
Definition sys0 : sys := (init_server None, init_blocking).
Definition out_to (st : sys) (c : Z) : list frame := rev (frames_to c (b_out (snd st))).
Definition waiting (st : sys) (db : Z) (k : bytes) : list Z := map w_conn (reg_get (b_reg (snd st)) (db, k)).

(** blocked-disconnect: the client of a blocked connection goes away, the next element is
    delivered into the dead connection and is gone *)
Definition w_disconnect : list event :=
  [EConnect 1; EConnect 2; at0 1 [bs "BLPOP"; bs "q"; bs "0"] (Some 0); EDisconnect 1;
   at0 2 [bs "LPUSH"; bs "q"; bs "v"] None; EWakeups].
(** pipelined-behind-block: two blocking calls processed in one read: the second overwrites the
    Blocked state, the first's registration times out and its nil answers ... the second,
    which asked to wait forever and whose registration is left behind *)
Definition w_behind : list event :=
  [EConnect 1; at0 1 [bs "BLPOP"; bs "q"; bs "0.3"] (Some 300); at0 1 [bs "BLPOP"; bs "r"; bs "0"] (Some 0);
   ETimeouts 300].
(** blocking-in-exec (fixed d076b83): BLPOP inside MULTI used to register a waiter for connection
    id 0 ahead of the real clients; now it answers nil in its slot and the real client is served *)
Definition w_exec : list event :=
  [EConnect 1; EConnect 2; EConnect 3; at0 1 [bs "MULTI"] None; at0 1 [bs "BLPOP"; bs "q"; bs "0"] None;
   at0 1 [bs "EXEC"] None; at0 2 [bs "BLPOP"; bs "q"; bs "0"] (Some 0); at0 3 [bs "LPUSH"; bs "q"; bs "v"] None;
   EWakeups].
(** wrongtype-at-wake (fixed e1d4020): the key of a queued wake-up holds a string by the time the
    wake-up runs; the error used to leave the event loop, now the client is registered again *)
Definition w_wrongtype : list event :=
  [EConnect 1; EConnect 2; at0 1 [bs "BLPOP"; bs "q"; bs "0"] (Some 0); at0 2 [bs "LPUSH"; bs "q"; bs "v"] None;
   at0 2 [bs "DEL"; bs "q"] None; at0 2 [bs "SET"; bs "q"; bs "x"] None; EWakeups].
(** requeue-at-back: a wake-up that finds its element taken re-registers the client BEHIND the
    clients that blocked after it *)
Definition w_requeue : list event :=
  [EConnect 1; EConnect 2; EConnect 3; at0 1 [bs "BLPOP"; bs "q"; bs "0"] (Some 0);
   at0 2 [bs "BLPOP"; bs "q"; bs "0"] (Some 0); at0 3 [bs "LPUSH"; bs "q"; bs "a"] None; at0 3 [bs "LPOP"; bs "q"] None;
   EWakeups; at0 3 [bs "LPUSH"; bs "q"; bs "b"] None; EWakeups].
(** a history inside every hypothesis: two clients on one key, two pushes, a timeout *)
Definition w_good : list event :=
  [EConnect 1; EConnect 2; EConnect 3; at0 1 [bs "BLPOP"; bs "q"; bs "r"; bs "0"] (Some 0);
   at0 2 [bs "BRPOP"; bs "q"; bs "0.3"] (Some 300); at0 3 [bs "RPUSH"; bs "q"; bs "a"; bs "b"; bs "c"] None; EWakeups;
   at0 2 [bs "BLPOP"; bs "m"; bs "0.3"] (Some 300); ETimeouts 300].
(** every event of a history satisfies [ok] where it is executed *)
Fixpoint all_ok (st : sys) (evs : list event) : bool :=
  match evs with [] => true | e :: r => ok st e && all_ok (step st e) r end.

(** a history with its ghost multisets, and the check that every event satisfies [ok_cons] *)
Fixpoint gtrace (st : sys) (P R : list elem) (evs : list event) : sys * list elem * list elem :=
  match evs with
  | [] => (st, P, R)
  | e :: r => gtrace (step st e) (P ++ pushed_in st e) (R ++ returned_in st e) r
  end.
Fixpoint all_ok_cons (st : sys) (evs : list event) : bool :=
  match evs with [] => true | e :: r => ok_cons st e && all_ok_cons (step st e) r end.

(** reregister-no-recheck: client 1 waits on q and r; its element on q is taken before the
    wake-up runs while r receives an element; the wake-up registers it again on q and r without
    looking at r *)
Definition w_recheck : list event :=
  [EConnect 1; EConnect 2; at0 1 [bs "BLPOP"; bs "q"; bs "r"; bs "0"] (Some 0);
   at0 2 [bs "LPUSH"; bs "q"; bs "a"] None; at0 2 [bs "LPOP"; bs "q"] None; at0 2 [bs "LPUSH"; bs "r"; bs "b"] None;
   EWakeups].

(** ---- no stranding (the safety half of "served promptly") ---- *)
(** wake-ups under way for a key *)
Definition wcount (db : Z) (k : bytes) (W : list wakeup) : Z :=
  len (filter (fun u => (u_db u =? db) && beq (u_key u) k) W).
(** a key that has a waiter holds at most as many elements as wake-ups are under way for it: once the
    wake-up queue has drained, nobody is blocked on a key that holds an element *)
Definition no_strand (st : sys) : Prop :=
  forall db k, 0 <= db -> reg_get (b_reg (snd st)) (db, k) <> [] ->
  len (list_at (fst st) db k) <= wcount db k (b_wake (snd st)).
(** histories of the list catalogue in which every blocking pop names ONE key *)
Definition single_key (f : frame) : bool :=
  match f with FArray parts => if bpop_parts parts then len parts =? 3 else true | _ => true end.
Definition ok_sk (st : sys) (e : event) : bool :=
  ok_cons st e && match e with EFrame _ _ f _ => single_key f | _ => true end.
Inductive reach_sk : sys -> Prop :=
| rsk_init : reach_sk (init_server None, init_blocking)
| rsk_step : forall st e, reach_sk st -> ok_sk st e = true -> reach_sk (step st e).
Fixpoint all_ok_sk (st : sys) (evs : list event) : bool :=
  match evs with [] => true | e :: r => ok_sk st e && all_ok_sk (step st e) r end.
(** two single-key waiters, a push of two elements observed BEFORE the wake-ups run, then after *)
Definition w_sk : list event :=
  [EConnect 1; EConnect 2; EConnect 3; at0 1 [bs "BLPOP"; bs "q"; bs "0"] (Some 0);
   at0 2 [bs "BRPOP"; bs "q"; bs "0.3"] (Some 300); at0 3 [bs "RPUSH"; bs "q"; bs "a"; bs "b"; bs "c"] None].
