(** Declarative reference semantics for the list / set / hash commands (C03):
    what the Redis command reference prescribes, written without the
    implementation's loops and casts.  The theorems of Props/C03.v relate the
    code-shaped model (Model/Lists.v) to these definitions. *)
From Ferrous Require Import Base.Bytes Model.Resp Model.Types.
Open Scope Z_scope.

(** LRANGE / LTRIM (Redis t_list.c): negative indices count from the tail; a start
    before the head is the head; a stop past the tail is the tail; an inverted or
    out-of-range window is empty.  The window is inclusive. *)
Definition redis_range (l : list bytes) (start stop : Z) : list bytes :=
  let n := len l in
  let s := Z.max (if start <? 0 then n + start else start) 0 in
  let e := if stop <? 0 then n + stop else stop in
  if (e <? s) || (n <=? s) then []
  else zfirstn (Z.min e (n - 1) - s + 1) (zskipn s l).

(** LINDEX / LSET addressing: 0-based from the head, -1-based from the tail *)
Definition redis_index (l : list bytes) (i : Z) : option bytes :=
  let n := len l in
  if (0 <=? i) && (i <? n) then nth_error l (Z.to_nat i)
  else if (i <? 0) && (- n <=? i) then nth_error l (Z.to_nat (n + i))
  else None.

(** number of occurrences of [x] *)
Definition occ (x : bytes) (l : list bytes) : Z := len (filter (fun y => beq y x) l).
Definition without (x : bytes) (l : list bytes) : list bytes := filter (fun y => negb (beq y x)) l.

(** LREM count x: count > 0 removes the first [count] occurrences from the head,
    count < 0 the last [-count] from the tail, 0 all of them.
    [removed_prefix l x k r]: r is l with all occurrences of x deleted from a prefix
    that contains exactly k of them (= the first k occurrences). *)
Definition removed_prefix (l : list bytes) (x : bytes) (k : Z) (r : list bytes) : Prop :=
  exists p s, l = p ++ s /\ r = without x p ++ s /\ occ x p = k.
Definition removed_suffix (l : list bytes) (x : bytes) (k : Z) (r : list bytes) : Prop :=
  exists p s, l = p ++ s /\ r = p ++ without x s /\ occ x s = k.

(** what a stored collection must look like: never empty, members / fields unique *)
Definition wf_value (v : value) : Prop :=
  match v with
  | VList l => l <> []
  | VSet s => s <> [] /\ NoDup s
  | VHash h => h <> [] /\ NoDup (map fst h)
  | _ => True
  end.
Definition wf_colls (d : db) : Prop := forall k e, In (k, e) (d_data d) -> wf_value (e_val e).

(** the set a key denotes for the set algebra: a missing key is the empty set,
    a key of another type denotes nothing (the command must be refused) *)
Definition set_at (d : db) (k : bytes) : option (list bytes) :=
  match alookup k (d_data d) with
  | Some e => match e_val e with VSet s => Some s | _ => None end
  | None => Some []
  end.
