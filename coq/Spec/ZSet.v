(** Declarative specification of a sorted set (C04): a duplicate-free list of
    (member, score bits) strictly sorted by score (IEEE order on non-NaN
    values, -0 = +0) and then by member bytes; updates and queries as list
    operations; Redis' rank-range rule. *)
From Coq Require Import Sorting.Sorted.
From Ferrous Require Import Base.Bytes Model.SkipList.
Open Scope Z_scope.

Definition elt := (bytes * Z)%type.
(** order of the property text: score, then member bytes *)
Definition elt_cmp (a b : elt) : comparison :=
  match f_ord (snd a) ?= f_ord (snd b) with
  | Eq => bcmp (fst a) (fst b)
  | c => c
  end.
Definition elt_ltb (a b : elt) : bool := match elt_cmp a b with Lt => true | _ => false end.
Definition zs_sorted (l : list elt) : Prop := StronglySorted (fun a b => elt_cmp a b = Lt) l.
Definition zs_nonan (l : list elt) : Prop := Forall (fun e => f_is_nan (snd e) = false) l.
Definition zs_members (l : list elt) : list bytes := map fst l.
(** a well-formed sorted set value *)
Definition zs_ok (l : list elt) : Prop := zs_sorted l /\ NoDup (zs_members l) /\ zs_nonan l.

Fixpoint zs_lookup (m : bytes) (l : list elt) : option Z :=
  match l with
  | [] => None
  | (m', s) :: r => if beq m m' then Some s else zs_lookup m r
  end.
Fixpoint zs_remove (m : bytes) (l : list elt) : list elt :=
  match l with
  | [] => []
  | e :: r => if beq (fst e) m then zs_remove m r else e :: zs_remove m r
  end.
(** sorted insertion: after every element below the new one *)
Fixpoint zs_place (e : elt) (l : list elt) : list elt :=
  match l with
  | [] => [e]
  | x :: r => if elt_ltb x e then x :: zs_place e r else e :: l
  end.
(** ZADD of one pair: the member appears once, with its latest score *)
Definition zs_add (m : bytes) (s : Z) (l : list elt) : list elt := zs_place (m, s) (zs_remove m l).
(** rank of a member = its position *)
Fixpoint zs_rank (m : bytes) (l : list elt) : option Z :=
  match l with
  | [] => None
  | e :: r => if beq (fst e) m then Some 0 else option_map (Z.add 1) (zs_rank m r)
  end.

(** Redis' rule for rank ranges (t_zset.c zrangeGenericCommand / sanitizeIndexes):
    negative indices count from the end, start is clamped to 0, the range is
    empty when start > stop or start >= len, stop is clamped to len-1 *)
Definition redis_range (ln start stop : Z) : option (Z * Z) :=
  let s := if start <? 0 then start + ln else start in
  let e := if stop <? 0 then stop + ln else stop in
  let s := Z.max s 0 in
  if (e <? s) || (ln <=? s) then None else Some (s, Z.min e (ln - 1)).
Definition redis_slice {A} (l : list A) (start stop : Z) : list A :=
  match redis_range (len l) start stop with
  | None => []
  | Some (s, e) => firstn (Z.to_nat (e - s + 1)) (skipn (Z.to_nat s) l)
  end.
(** score ranges: inclusive bounds *)
Definition zs_byscore (mn mx : Z) (l : list elt) : list elt :=
  filter (fun e => f_le mn (snd e) && f_le (snd e) mx) l.
