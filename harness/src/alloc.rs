//! Counting global allocator: largest single request since the last reset
//! (per process; the C20/C10 runs that read it are single-threaded).
use std::alloc::{GlobalAlloc, Layout, System};
use std::sync::atomic::{AtomicUsize, Ordering};

pub struct Counting;
pub static MAX_REQ: AtomicUsize = AtomicUsize::new(0);

unsafe impl GlobalAlloc for Counting {
    unsafe fn alloc(&self, l: Layout) -> *mut u8 {
        MAX_REQ.fetch_max(l.size(), Ordering::Relaxed);
        System.alloc(l)
    }
    // without this the trait's default (alloc + memset) touches every page of a huge vec![0; n]
    unsafe fn alloc_zeroed(&self, l: Layout) -> *mut u8 {
        MAX_REQ.fetch_max(l.size(), Ordering::Relaxed);
        System.alloc_zeroed(l)
    }
    unsafe fn dealloc(&self, p: *mut u8, l: Layout) { System.dealloc(p, l) }
    unsafe fn realloc(&self, p: *mut u8, l: Layout, n: usize) -> *mut u8 {
        MAX_REQ.fetch_max(n, Ordering::Relaxed);
        System.realloc(p, l, n)
    }
}
pub fn reset() { MAX_REQ.store(0, Ordering::Relaxed); }
pub fn max_req() -> usize { MAX_REQ.load(Ordering::Relaxed) }
