//! C01: string and key-space commands, histories over TCP against the model.
use crate::rng::Rng;
use crate::srv::*;
use crate::tok::*;

// k1/ka share engine shard 1 (FNV-1a mod 16), k2/kb shard 8: same-shard and cross-shard paths are both exercised
pub const KEYS: &[&[u8]] = &[b"k1", b"k2", b"k3", b"", b"\x00\xffb", b"key:with space", b"ka", b"kb"];
pub const OTHER_KEYS: &[&[u8]] = &[b"l1", b"s1", b"h1", b"z1", b"x1"];
// integers in other than their canonical decimal form ("+5", "01", "-0", "00", "+0", " 5", "5 ", "007"): Rust's
// str::parse takes the signed and the zero-padded ones, Redis (string2ll) none of them; since e4bcfd7 INCR / DECR /
// INCRBY / DECRBY refuse them as the stored value and as the increment
pub const VALUES: &[&[u8]] = &[b"", b"a", b"hello", b"10", b"-1", b"9223372036854775807", b"-9223372036854775808",
    b"007", b" 5", b"+5", b"1.5", b"\x00\xff\r\n", b"9223372036854775806", b"abc def",
    b"01", b"-0", b"00", b"+0", b"5 ", b"0", b"-01", b"-"];
pub const INTS: &[&[u8]] = &[b"0", b"1", b"-1", b"5", b"9223372036854775807", b"-9223372036854775808", b"abc", b"",
    b"9223372036854775808", b"-9223372036854775807", b"+3", b"2", b"1e3",
    b"+1", b"01", b"-0", b"00", b"+0", b" 1", b"1 ", b"-01", b"-"];
pub const IDX: &[&[u8]] = &[b"0", b"1", b"-1", b"2", b"-2", b"3", b"-3", b"5", b"-5", b"100", b"-100",
    b"9223372036854775807", b"-9223372036854775808", b"x", b"4", b"-4", b"-6", b"6"];
pub const OFFS: &[&[u8]] = &[b"0", b"1", b"3", b"10", b"536870913", b"18446744073709551615", b"-1", b"7", b"abc", b"536870912"];
// 0 and the negative counts: refused by SET EX / PX (48bcb4d) and by SETEX / PSETEX (02eb367)
pub const TTLS: &[&[u8]] = &[b"100", b"1000", b"18446744073709551615", b"9223372036854775807", b"abc", b"-1", b"", b"100000", b"0", b"-5", b"00"];
// millisecond TTLs: never short enough to expire during a history (expiry itself is C02's subject)
pub const TTLS_MS: &[&[u8]] = &[b"100000", b"1000000", b"18446744073709551615", b"9223372036854775807", b"abc", b"-1", b"", b"9223372036854775807000", b"0", b"-5", b"00"];
pub const PATTERNS: &[&[u8]] = &[b"*", b"k*", b"k?", b"?1", b"[kl]*", b"k[1-2]", b"[^k]*", b"*1", b"\\k1", b"k\\*", b"", b"*:*", b"k[", b"**1", b"*?*",
    // classes as Redis reads them (5de9d19): ranges, negated ranges, reversed range, unterminated, escape inside
    b"k[a-b]", b"k[^1-2]", b"[z-a]*", b"k[12", b"k[\\1]", b"k[]1]", b"?[a-z1]", b"*[ab]"];

pub const WITH_OTHER_TYPES: bool = true;

fn pick<'a>(r: &mut Rng, p: &'a [&'a [u8]]) -> &'a [u8] { *r.pick(p) }
fn key<'a>(r: &mut Rng) -> &'a [u8] {
    if WITH_OTHER_TYPES && r.chance(1, 4) { pick(r, OTHER_KEYS) } else if r.chance(1, 12) { b"nokey" } else { pick(r, KEYS) }
}

pub fn gen_cmd(r: &mut Rng) -> Vec<Vec<u8>> {
    let v = |x: &[u8]| x.to_vec();
    let k = key(r);
    match r.below(36) {
        0 | 1 => { // SET with options
            let mut c = vec![v(b"SET"), v(k), v(pick(r, VALUES))];
            for _ in 0..r.below(3) {
                match r.below(9) {
                    0 => c.push(v(b"NX")), 1 => c.push(v(b"xx")),
                    2 => { c.push(v(b"EX")); c.push(v(pick(r, TTLS))); }
                    3 => { c.push(v(b"px")); c.push(v(pick(r, TTLS_MS))); }
                    4 => c.push(v(b"EX")),
                    // EX and PX together, in either order (a syntax error since d6b03fb), and one of them twice (the later wins)
                    5 => { c.push(v(b"EX")); c.push(v(pick(r, TTLS))); c.push(v(b"PX")); c.push(v(pick(r, TTLS_MS))); }
                    6 => { c.push(v(b"PX")); c.push(v(pick(r, TTLS_MS))); c.push(v(b"ex")); c.push(v(pick(r, TTLS))); }
                    7 => { c.push(v(b"EX")); c.push(v(b"100")); c.push(v(b"EX")); c.push(v(pick(r, TTLS))); }
                    _ => c.push(v(b"BOGUS")),
                }
            }
            c
        }
        2 => vec![v(b"SET"), v(k), v(pick(r, VALUES))],
        3 | 4 => vec![v(b"GET"), v(k)],
        5 => { let n = 1 + r.below(4); let mut c = vec![v(b"MGET")]; for _ in 0..n { c.push(v(key(r))); } c }
        6 => { let n = 1 + r.below(3); let mut c = vec![v(b"MSET")]; for _ in 0..n { c.push(v(key(r))); c.push(v(pick(r, VALUES))); } if r.chance(1, 8) { c.pop(); } c }
        7 => vec![v(b"GETSET"), v(k), v(pick(r, VALUES))],
        8 => vec![v(b"SETNX"), v(k), v(pick(r, VALUES))],
        9 => vec![v(b"SETEX"), v(k), v(pick(r, TTLS)), v(pick(r, VALUES))],
        10 => vec![v(b"PSETEX"), v(k), v(pick(r, TTLS_MS)), v(pick(r, VALUES))],
        11 => vec![v(b"APPEND"), v(k), v(pick(r, VALUES))],
        12 => vec![v(b"STRLEN"), v(k)],
        13 | 14 => vec![v(b"GETRANGE"), v(k), v(pick(r, IDX)), v(pick(r, IDX))],
        15 => {
            // one time in four an EMPTY value: it changes nothing and answers the current length, whatever the offset
            // (6988c1c: offsets 0, inside, at the end, beyond, beyond the 512 MB limit, not a number)
            let off = pick(r, OFFS); let val = if r.chance(1, 4) { &b""[..] } else { pick(r, VALUES) };
            vec![v(b"SETRANGE"), v(k), v(off), v(val)]
        }
        16 => vec![v(b"INCR"), v(k)],
        17 => vec![v(b"DECR"), v(k)],
        18 => vec![v(b"INCRBY"), v(k), v(pick(r, INTS))],
        19 => vec![v(b"DECRBY"), v(k), v(pick(r, INTS))],
        20 => { let n = 1 + r.below(3); let mut c = vec![v(b"DEL")]; for _ in 0..n { c.push(v(key(r))); } c }
        21 => { let n = 1 + r.below(3); let mut c = vec![v(b"EXISTS")]; for _ in 0..n { c.push(v(key(r))); } c }
        22 => vec![v(b"TYPE"), v(k)],
        // one time in three the destination lives in the source's engine shard (FNV-1a mod 16: k1/ka, k2/kb):
        // the same-shard and the cross-shard path of rename() are different code
        23 => { let dst = match (r.chance(1, 3), k) { (true, b"k1") => &b"ka"[..], (true, b"ka") => b"k1", (true, b"k2") => b"kb", (true, b"kb") => b"k2", _ => key(r) }; vec![v(b"RENAME"), v(k), v(dst)] }
        24 => { let dst = match (r.chance(1, 3), k) { (true, b"k1") => &b"ka"[..], (true, b"ka") => b"k1", (true, b"k2") => b"kb", (true, b"kb") => b"k2", _ => key(r) }; vec![v(b"RENAMENX"), v(k), v(dst)] }
        25 => vec![v(b"KEYS"), v(pick(r, PATTERNS))],
        26 => vec![v(b"DBSIZE")],
        27 => vec![v(b"RANDOMKEY")],
        28 => if r.chance(1, 6) { vec![v(if r.chance(1, 2) { b"FLUSHDB" } else { b"FLUSHALL" })] } else { vec![v(b"TTL"), v(k)] },
        29 => vec![v(b"EXPIRE"), v(k), v(*r.pick(&[&b"100"[..], b"0", b"-5", b"9223372036854775807", b"x", b"1000"]))],
        30 => vec![v(b"PEXPIRE"), v(k), v(*r.pick(&[&b"100000"[..], b"18446744073709551615", b"-5", b"x", b"500000"]))],
        31 => vec![v(b"PERSIST"), v(k)],
        32 => vec![v(b"PTTL"), v(k)],
        33 => vec![v(b"TTL"), v(k)],
        34 => { // arity / unknown / case variations
            match r.below(6) {
                0 => vec![v(b"GET")], 1 => vec![v(b"SET"), v(k)], 2 => vec![v(b"get"), v(k)], 3 => vec![v(b"NOSUCHCMD"), v(k)],
                4 => vec![v(b"GETRANGE"), v(k), v(b"0")], _ => vec![v(b"ECHO"), v(pick(r, VALUES))],
            }
        }
        _ => vec![v(b"PING")],
    }
}

pub fn dump_ops(conn: i64, ops: &mut Vec<Vec<Tok>>) {
    let all: Vec<&[u8]> = KEYS.iter().chain(if WITH_OTHER_TYPES { OTHER_KEYS.iter() } else { [].iter() }).cloned().collect();
    for k in all {
        ops.push(cmd_op(conn, &[b"TYPE", k]));
        ops.push(cmd_op(conn, &[b"GET", k]));
        ops.push(cmd_op(conn, &[b"PTTL", k]));
    }
    if WITH_OTHER_TYPES {
        // the keys seeded with the list / set / hash families are read back by type
        ops.push(cmd_op(conn, &[b"LRANGE", b"l1", b"0", b"-1"]));
        ops.push(cmd_op(conn, &[b"SMEMBERS", b"s1"]));
        ops.push(cmd_op(conn, &[b"HGETALL", b"h1"]));
    }
    ops.push(cmd_op(conn, &[b"KEYS", b"*"]));
    ops.push(cmd_op(conn, &[b"DBSIZE"]));
}

pub fn gen(seed: u64, n: usize, _tier: &str) -> Vec<Case> {
    let mut r = Rng::new(seed);
    let mut cases = vec![];
    // RENAME / RENAMENX over every ordered pair of pool keys (same engine shard and different shards,
    // src = dst included), destination absent / present / present with a deadline, source with and
    // without a deadline: reply, destination value, both TTLs, source gone, key count
    for (ci, nx) in [false, true].iter().enumerate() {
        let mut ops = vec![conn_op(1)];
        let pool: Vec<&[u8]> = KEYS.iter().filter(|k| !k.is_empty()).cloned().collect();
        for (a, src) in pool.iter().enumerate() {
            for (b, dst) in pool.iter().enumerate() {
                let variant = (a * 7 + b * 3 + ci) % 4;
                ops.push(cmd_op(1, &[b"FLUSHDB"]));
                if variant & 1 == 1 { ops.push(cmd_op(1, &[b"SET", src, b"src-value", b"EX", b"1000"])); } else { ops.push(cmd_op(1, &[b"SET", src, b"src-value"])); }
                if variant >= 2 && a != b { ops.push(cmd_op(1, &[b"SET", dst, b"dst-value", b"PX", b"500000"])); }
                else if (a + b) % 3 == 0 && a != b { ops.push(cmd_op(1, &[b"SET", dst, b"dst-value"])); }
                ops.push(cmd_op(1, &[if *nx { &b"RENAMENX"[..] } else { &b"RENAME"[..] }, src, dst]));
                ops.push(cmd_op(1, &[b"GET", dst])); ops.push(cmd_op(1, &[b"TTL", dst]));
                ops.push(cmd_op(1, &[b"EXISTS", src])); ops.push(cmd_op(1, &[b"DBSIZE"]));
            }
        }
        cases.push(Case { id: format!("ren-{}", ci), ops, outs: vec![] });
    }
    // the repaired deviations from the reference (6988c1c, d6b03fb, 02eb367, e4bcfd7), as fixed histories
    {
        let mut ops = vec![conn_op(1), cmd_op(1, &[b"RPUSH", b"l1", b"a", b"b", b"c"])];
        // SETRANGE with an empty value: offsets 0, inside, at the end, beyond, beyond 512 MB; missing key, other type
        ops.push(cmd_op(1, &[b"SET", b"k1", b"abc"]));
        for off in [&b"0"[..], b"1", b"3", b"10", b"536870912", b"536870913", b"18446744073709551615", b"-1", b"x"] {
            ops.push(cmd_op(1, &[b"SETRANGE", b"k1", off, b""])); ops.push(cmd_op(1, &[b"GET", b"k1"]));
            ops.push(cmd_op(1, &[b"SETRANGE", b"nokey", off, b""])); ops.push(cmd_op(1, &[b"EXISTS", b"nokey"]));
            ops.push(cmd_op(1, &[b"SETRANGE", b"l1", off, b""]));
        }
        ops.push(cmd_op(1, &[b"SETRANGE", b"k1", b"5", b"x"])); ops.push(cmd_op(1, &[b"GET", b"k1"]));
        // SET with EX and PX together
        for opts in [&[&b"EX"[..], b"10", b"PX", b"100000"][..], &[b"PX", b"100000", b"EX", b"10"], &[b"ex", b"10", b"NX", b"px", b"100000"],
                     &[b"EX", b"10", b"EX", b"20"], &[b"PX", b"100000", b"PX", b"200000"], &[b"EX", b"0", b"PX", b"100000"], &[b"EX", b"10", b"PX"]] {
            let mut c: Vec<&[u8]> = vec![b"SET", b"k2", b"x"]; c.extend_from_slice(opts);
            ops.push(cmd_op(1, &c)); ops.push(cmd_op(1, &[b"GET", b"k2"])); ops.push(cmd_op(1, &[b"TTL", b"k2"])); ops.push(cmd_op(1, &[b"DEL", b"k2"]));
        }
        // SETEX / PSETEX with 0 and negative counts
        for t in [&b"0"[..], b"-1", b"00", b"-0", b"+0", b"1000"] {
            ops.push(cmd_op(1, &[b"SETEX", b"k3", t, b"v"])); ops.push(cmd_op(1, &[b"EXISTS", b"k3"])); ops.push(cmd_op(1, &[b"DEL", b"k3"]));
            ops.push(cmd_op(1, &[b"PSETEX", b"k3", t, b"v"])); ops.push(cmd_op(1, &[b"EXISTS", b"k3"])); ops.push(cmd_op(1, &[b"DEL", b"k3"]));
        }
        // integers that are not in canonical form: as the stored value and as the increment
        for x in [&b"+5"[..], b"01", b"-0", b"00", b"+0", b" 5", b"5 ", b"007", b"-01", b"-", b"", b"0", b"-5", b"5", b"9223372036854775807", b"-9223372036854775808", b"9223372036854775808"] {
            ops.push(cmd_op(1, &[b"SET", b"ka", x]));
            ops.push(cmd_op(1, &[b"INCR", b"ka"])); ops.push(cmd_op(1, &[b"DECR", b"ka"]));
            ops.push(cmd_op(1, &[b"INCRBY", b"ka", b"1"])); ops.push(cmd_op(1, &[b"DECRBY", b"ka", b"1"])); ops.push(cmd_op(1, &[b"GET", b"ka"]));
            ops.push(cmd_op(1, &[b"SET", b"kb", b"10"]));
            ops.push(cmd_op(1, &[b"INCRBY", b"kb", x])); ops.push(cmd_op(1, &[b"DECRBY", b"kb", x])); ops.push(cmd_op(1, &[b"GET", b"kb"]));
            ops.push(cmd_op(1, &[b"INCRBY", b"nokey", x])); ops.push(cmd_op(1, &[b"DEL", b"nokey"]));
        }
        dump_ops(1, &mut ops);
        cases.push(Case { id: "fix-0".to_string(), ops, outs: vec![] });
    }
    // patterns and keys that are not UTF-8: KEYS matches bytes (17322e9; it matched the lossy text, where
    // every invalid byte is the same character and '?' takes a whole multi-byte character)
    {
        let mut ops = vec![conn_op(1)];
        for k in [&b"\xfeabc"[..], b"\xffabc", b"h\xc3\xa9llo", b"hello", b"\xc3", b"a\x80b", b"a\x81b"] { ops.push(cmd_op(1, &[b"SET", k, b"v"])); }
        for p in [&b"\xff*"[..], b"\xfe*", b"*abc", b"h?llo", b"h??llo", b"h[\xc3]?llo", b"a[\x80-\x80]b", b"a[^\x80]b", b"a?b", b"\xc3*", b"?", b"*\xa9*", b"[\xfe-\xff]abc", b"\\\xfeabc"] {
            ops.push(cmd_op(1, &[b"KEYS", p]));
        }
        cases.push(Case { id: "glob-bytes-0".to_string(), ops, outs: vec![] });
    }
    for id in 0..n {
        let mut ops = vec![conn_op(1)];
        if WITH_OTHER_TYPES {
            // keys holding the other value types (C03 commands), so that every command of this
            // family also meets a list, a set and a hash
            if r.chance(7, 8) { ops.push(cmd_op(1, &[b"RPUSH", b"l1", b"a", b"b", b"c"])); }
            if r.chance(7, 8) { ops.push(cmd_op(1, &[b"SADD", b"s1", b"a", b"b"])); }
            if r.chance(7, 8) { ops.push(cmd_op(1, &[b"HSET", b"h1", b"f", b"10"])); }
        }
        let big = r.chance(1, 4); let len = 1 + r.below(if big { 60 } else { 25 });
        for _ in 0..len {
            let c = gen_cmd(&mut r);
            let mut refs: Vec<&[u8]> = c.iter().map(|x| &x[..]).collect();
            // occasionally a non-bulk argument
            if r.chance(1, 40) && refs.len() >= 2 {
                let pos = 1 + r.below(refs.len() as u64 - 1) as usize;
                let mut fr: Vec<crate::resp::V> = refs.iter().map(|a| crate::resp::V::Bulk(a.to_vec())).collect();
                fr[pos] = crate::resp::V::Int(5);
                ops.push(cmd_frame_op(1, &crate::resp::V::Array(fr)));
                continue;
            }
            let _ = &mut refs;
            ops.push(cmd_op(1, &refs));
        }
        dump_ops(1, &mut ops);
        cases.push(Case { id: format!("h-{}", id), ops, outs: vec![] });
    }
    cases
}

pub fn run(c: &Case) -> Case { run_case(c, &SrvOpts::default()) }
