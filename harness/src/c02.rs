//! C02: expiration is exact - never early, never observable late (where the code checks), never spurious.
//! The sweeper is stepped through the VERIF hook, time is the logical clock (300 ms grid, TTLs 200/400/1000 ms).
use crate::rng::Rng;
use crate::srv::*;
use crate::tok::*;

pub const KEYS: &[&[u8]] = &[b"k1", b"k2", b"ka", b"t"];   // k1/ka share an engine shard

fn ttl_setter(r: &mut Rng, k: &[u8]) -> Vec<Vec<u8>> {
    let v = |x: &[u8]| x.to_vec();
    match r.below(9) {
        0 => vec![v(b"SET"), v(k), v(b"v"), v(b"PX"), v(*r.pick(&[&b"200"[..], b"400"]))],
        1 => vec![v(b"SET"), v(k), v(b"v"), v(b"EX"), v(b"1")],
        2 => vec![v(b"PSETEX"), v(k), v(*r.pick(&[&b"200"[..], b"400"])), v(b"v")],
        3 => vec![v(b"SETEX"), v(k), v(b"1"), v(b"v")],
        4 => vec![v(b"PEXPIRE"), v(k), v(*r.pick(&[&b"200"[..], b"400", b"100000"]))],
        5 => vec![v(b"EXPIRE"), v(k), v(*r.pick(&[&b"1"[..], b"100", b"0", b"-1"]))],
        6 => vec![v(b"SET"), v(k), v(b"5"), v(b"NX"), v(b"PX"), v(b"200")],
        7 => vec![v(b"SET"), v(k), v(b"w"), v(b"XX"), v(b"PX"), v(b"400")],
        _ => vec![v(b"SET"), v(k), v(b"10"), v(b"PX"), v(b"400")],
    }
}
fn other(r: &mut Rng, k: &[u8], k2: &[u8]) -> Vec<Vec<u8>> {
    let v = |x: &[u8]| x.to_vec();
    match r.below(22) {
        0 => vec![v(b"SET"), v(k), v(b"plain")],
        1 => vec![v(b"GETSET"), v(k), v(b"gs")],
        2 => vec![v(b"MSET"), v(k), v(b"m1"), v(k2), v(b"m2")],
        3 => vec![v(b"PERSIST"), v(k)],
        4 => vec![v(b"RENAME"), v(k), v(k2)],
        5 => vec![v(b"RENAMENX"), v(k), v(k2)],
        6 => vec![v(b"DEL"), v(k)],
        7 => vec![v(b"APPEND"), v(k), v(b"x")],
        8 => vec![v(b"INCR"), v(k)],
        9 => vec![v(b"SETRANGE"), v(k), v(b"1"), v(b"z")],
        10 => vec![v(b"GET"), v(k)],
        11 => vec![v(b"EXISTS"), v(k), v(k2)],
        12 => vec![v(b"TTL"), v(k)],
        13 => vec![v(b"PTTL"), v(k)],
        14 => vec![v(b"TYPE"), v(k)],
        15 => vec![v(b"STRLEN"), v(k)],
        16 => vec![v(b"DBSIZE")],
        17 => vec![v(b"KEYS"), v(b"*")],
        18 => vec![v(b"SETNX"), v(k), v(b"nx")],
        19 => vec![v(b"MGET"), v(k), v(k2)],
        20 => vec![v(b"GETRANGE"), v(k), v(b"0"), v(b"-1")],
        _ => vec![v(b"SET"), v(k), v(b"xx"), v(b"XX")],
    }
}
fn push(ops: &mut Vec<Vec<Tok>>, c: i64, v: &[Vec<u8>]) { let refs: Vec<&[u8]> = v.iter().map(|x| &x[..]).collect(); ops.push(cmd_op(c, &refs)); }

pub fn dump(ops: &mut Vec<Vec<Tok>>) {
    ops.push(cmd_op(1, &[b"VERIF", b"INDEX", b"0"]));
    for k in KEYS { ops.push(cmd_op(1, &[b"EXISTS", k])); ops.push(cmd_op(1, &[b"PTTL", k])); ops.push(cmd_op(1, &[b"GET", k])); }
    ops.push(cmd_op(1, &[b"VERIF", b"INDEX", b"0"]));
    ops.push(cmd_op(1, &[b"DBSIZE"]));
}

pub fn gen(seed: u64, n: usize, _tier: &str) -> Vec<Case> {
    let mut r = Rng::new(seed);
    let mut cases = vec![];
    let mut id = 0;
    // (a) random histories with sweeps at known instants
    for _ in 0..n {
        let mut ops = vec![conn_op(1), cmd_op(1, &[b"VERIF", b"SWEEP", b"PAUSE"])];
        let mut sleeps = 0;
        for _ in 0..(6 + r.below(30)) {
            let k = *r.pick(KEYS); let k2 = *r.pick(KEYS);
            match r.below(14) {
                0 | 1 | 2 | 3 => push(&mut ops, 1, &ttl_setter(&mut r, k)),
                4 if sleeps < 4 => { ops.push(sleep_op(300)); sleeps += 1; }
                5 if sleeps < 5 => { ops.push(sweep_op()); sleeps += 1; }
                _ => push(&mut ops, 1, &other(&mut r, k, k2)),
            }
        }
        if r.chance(1, 2) { ops.push(sweep_op()); }
        dump(&mut ops);
        cases.push(Case { id: format!("exp-{}", id), ops, outs: vec![] }); id += 1;
    }
    // (b) the window between the sweeper's scan and its deletions: every racing command
    let racers: Vec<Vec<Vec<u8>>> = {
        let v = |a: &[&[u8]]| -> Vec<Vec<u8>> { a.iter().map(|x| x.to_vec()).collect() };
        vec![v(&[b"SET", b"t", b"w"]), v(&[b"PERSIST", b"t"]), v(&[b"PEXPIRE", b"t", b"100000"]), v(&[b"EXPIRE", b"t", b"100"]),
             v(&[b"GETSET", b"t", b"w"]), v(&[b"MSET", b"t", b"w"]), v(&[b"DEL", b"t"]), v(&[b"RENAME", b"t", b"k2"]), v(&[b"GET", b"t"]),
             v(&[b"APPEND", b"t", b"x"]), v(&[b"SET", b"t", b"w", b"PX", b"400"]), v(&[b"RENAME", b"k2", b"t"]), v(&[b"EXISTS", b"t"])]
    };
    for rc in &racers {
        for pre in 0..2 {
            let mut ops = vec![conn_op(1), cmd_op(1, &[b"VERIF", b"SWEEP", b"PAUSE"]), cmd_op(1, &[b"SET", b"k2", b"other"])];
            ops.push(cmd_op(1, &[b"SET", b"t", b"v", b"PX", b"200"]));
            if pre == 1 { ops.push(cmd_op(1, &[b"SET", b"t", b"v2"])); }       // TTL already cleared before the deadline
            ops.push(sleep_op(300));
            ops.push(sweep_gate_op());
            push(&mut ops, 1, rc);
            ops.push(sweep_release_op());
            dump(&mut ops);
            ops.push(sweep_op());
            dump(&mut ops);
            cases.push(Case { id: format!("gate-{}", id), ops, outs: vec![] }); id += 1;
        }
    }
    cases
}
pub fn run(c: &Case) -> Case { run_case(c, &SrvOpts::default()) }

/// property oracle: a TTL read in the same logical instant as the command that set it reports the set value
/// (PTTL within 100 ms below it, TTL rounded up to seconds); a key given no TTL reports -1
pub fn judge(c: &Case, outs: &[Vec<Tok>]) -> Vec<String> {
    let mut fails = vec![];
    let arg = |op: &Vec<Tok>, k: usize| -> Option<Vec<u8>> { // k-th bulk of a CMD request
        if op.len() < 5 { return None; } let n = tok_int(&op[4]) as usize; if k >= n { return None; }
        match op.get(6 + 2 * k) { Some(Tok::B(b)) => Some(b.clone()), _ => None }
    };
    for ix in 1..c.ops.len() {
        let (p, q) = (&c.ops[ix - 1], &c.ops[ix]);
        if tok_bytes(&p[0]) != b"CMD" || tok_bytes(&q[0]) != b"CMD" || p[2] != q[2] { continue; }
        let (pn, qn) = (arg(p, 0).unwrap_or_default().to_ascii_uppercase(), arg(q, 0).unwrap_or_default().to_ascii_uppercase());
        if arg(p, 1) != arg(q, 1) || arg(p, 1).is_none() { continue; }
        let ms: Option<i128> = match &pn[..] {
            b"PSETEX" => arg(p, 2).and_then(|a| String::from_utf8_lossy(&a).parse().ok()),
            b"SETEX" => arg(p, 2).and_then(|a| String::from_utf8_lossy(&a).parse::<i128>().ok()).map(|s| s * 1000),
            _ => None };
        if let (Some(ms), true) = (ms, outs[ix - 1] == vec![i(0), b("OK")]) {
            // note: the harness canonicalises positive TTL/PTTL to 1, so only the sign is visible here
            if (qn == b"PTTL" || qn == b"TTL") && ms > 0 && outs[ix] != vec![i(2), i(1)] {
                fails.push(format!("FAIL case={} op={} a key just given a TTL of {} ms does not report a positive remaining time", c.id, ix, ms));
            }
        }
    }
    fails
}
