//! C02: expiration is exact - never early, never observable late (where the code checks), never spurious.
//! The sweeper is stepped through the VERIF hook, time is the logical clock (300 ms grid, TTLs 200/400/1000 ms).
use crate::rng::Rng;
use crate::srv::*;
use crate::tok::*;

pub const KEYS: &[&[u8]] = &[b"k1", b"k2", b"ka", b"t"];   // k1/ka share an engine shard
/// keys meant for the list / set / hash families (C03); any command may still hit any key
pub const CKEYS: &[&[u8]] = &[b"cl", b"cs", b"ch"];

/// commands of the list / set / hash families: none of their engine functions checks expiry, so on a
/// key past its deadline (sweeper paused) they keep working on the stale collection and its deadline
fn collection_cmd(r: &mut Rng, k: &[u8]) -> Vec<Vec<u8>> {
    let v = |x: &[u8]| x.to_vec();
    let e: &[u8] = *r.pick(&[&b"a"[..], b"b", b"c"]);
    match r.below(24) {
        0 | 1 => vec![v(b"RPUSH"), v(k), v(e)],
        2 => vec![v(b"LPUSH"), v(k), v(e), v(b"z")],
        3 => vec![v(b"LPOP"), v(k)],
        4 => vec![v(b"RPOP"), v(k)],
        5 => vec![v(b"LRANGE"), v(k), v(b"0"), v(b"-1")],
        6 => vec![v(b"LLEN"), v(k)],
        7 => vec![v(b"LTRIM"), v(k), v(b"1"), v(b"-1")],
        8 => vec![v(b"LREM"), v(k), v(b"0"), v(e)],
        9 | 10 => vec![v(b"SADD"), v(k), v(e)],
        11 => vec![v(b"SREM"), v(k), v(e)],
        12 => vec![v(b"SMEMBERS"), v(k)],
        13 => vec![v(b"SCARD"), v(k)],
        14 => vec![v(b"SPOP"), v(k)],
        15 => vec![v(b"SISMEMBER"), v(k), v(e)],
        16 | 17 => vec![v(b"HSET"), v(k), v(e), v(b"1")],
        18 => vec![v(b"HDEL"), v(k), v(e)],
        19 => vec![v(b"HGETALL"), v(k)],
        20 => vec![v(b"HINCRBY"), v(k), v(e), v(b"5")],
        21 => vec![v(b"HLEN"), v(k)],
        22 => vec![v(b"HGET"), v(k), v(e)],
        _ => vec![v(b"TYPE"), v(k)],
    }
}
/// deadlines on keys of any type
fn expire_cmd(r: &mut Rng, k: &[u8]) -> Vec<Vec<u8>> {
    let v = |x: &[u8]| x.to_vec();
    match r.below(4) {
        0 | 1 => vec![v(b"PEXPIRE"), v(k), v(*r.pick(&[&b"200"[..], b"400", b"100000"]))],
        2 => vec![v(b"EXPIRE"), v(k), v(*r.pick(&[&b"1"[..], b"100", b"0"]))],
        _ => vec![v(b"PERSIST"), v(k)],
    }
}

fn ttl_setter(r: &mut Rng, k: &[u8]) -> Vec<Vec<u8>> {
    let v = |x: &[u8]| x.to_vec();
    match r.below(9) {
        0 => vec![v(b"SET"), v(k), v(b"v"), v(b"PX"), v(*r.pick(&[&b"200"[..], b"400"]))],
        1 => vec![v(b"SET"), v(k), v(b"v"), v(b"EX"), v(b"1")],
        2 => vec![v(b"PSETEX"), v(k), v(*r.pick(&[&b"200"[..], b"400"])), v(b"v")],
        3 => vec![v(b"SETEX"), v(k), v(b"1"), v(b"v")],
        4 => vec![v(b"PEXPIRE"), v(k), v(*r.pick(&[&b"200"[..], b"400", b"100000"]))],
        5 => vec![v(b"EXPIRE"), v(k), v(*r.pick(&[&b"1"[..], b"100", b"0", b"-1"]))],
        6 => vec![v(b"SET"), v(k), v(b"5"), v(b"NX"), v(b"PX"), v(b"200")],
        7 => vec![v(b"SET"), v(k), v(b"w"), v(b"XX"), v(b"PX"), v(b"400")],
        _ => vec![v(b"SET"), v(k), v(b"10"), v(b"PX"), v(b"400")],
    }
}
fn other(r: &mut Rng, k: &[u8], k2: &[u8]) -> Vec<Vec<u8>> {
    let v = |x: &[u8]| x.to_vec();
    match r.below(22) {
        0 => vec![v(b"SET"), v(k), v(b"plain")],
        1 => vec![v(b"GETSET"), v(k), v(b"gs")],
        2 => vec![v(b"MSET"), v(k), v(b"m1"), v(k2), v(b"m2")],
        3 => vec![v(b"PERSIST"), v(k)],
        4 => if r.chance(1, 4) { vec![v(b"RENAME"), v(k), v(k)] } else { vec![v(b"RENAME"), v(k), v(k2)] },
        5 => vec![v(b"RENAMENX"), v(k), v(k2)],
        6 => vec![v(b"DEL"), v(k)],
        7 => vec![v(b"APPEND"), v(k), v(b"x")],
        8 => vec![v(b"INCR"), v(k)],
        9 => vec![v(b"SETRANGE"), v(k), v(b"1"), v(b"z")],
        10 => vec![v(b"GET"), v(k)],
        11 => vec![v(b"EXISTS"), v(k), v(k2)],
        12 => vec![v(b"TTL"), v(k)],
        13 => vec![v(b"PTTL"), v(k)],
        14 => vec![v(b"TYPE"), v(k)],
        15 => vec![v(b"STRLEN"), v(k)],
        16 => vec![v(b"DBSIZE")],
        17 => vec![v(b"KEYS"), v(b"*")],
        18 => vec![v(b"SETNX"), v(k), v(b"nx")],
        19 => vec![v(b"MGET"), v(k), v(k2)],
        20 => vec![v(b"GETRANGE"), v(k), v(b"0"), v(b"-1")],
        _ => vec![v(b"SET"), v(k), v(b"xx"), v(b"XX")],
    }
}
fn push(ops: &mut Vec<Vec<Tok>>, c: i64, v: &[Vec<u8>]) { let refs: Vec<&[u8]> = v.iter().map(|x| &x[..]).collect(); ops.push(cmd_op(c, &refs)); }

pub fn dump(ops: &mut Vec<Vec<Tok>>) {
    ops.push(cmd_op(1, &[b"VERIF", b"INDEX", b"0"]));
    for k in KEYS { ops.push(cmd_op(1, &[b"EXISTS", k])); ops.push(cmd_op(1, &[b"PTTL", k])); ops.push(cmd_op(1, &[b"GET", k])); }
    // collection keys are read by type WITHOUT going through get/exists first (those expire lazily and would
    // remove the entry): TYPE and the typed reads show what the family's own commands still see
    for k in CKEYS {
        ops.push(cmd_op(1, &[b"TYPE", k])); ops.push(cmd_op(1, &[b"PTTL", k]));
        ops.push(cmd_op(1, &[b"LRANGE", k, b"0", b"-1"])); ops.push(cmd_op(1, &[b"SMEMBERS", k])); ops.push(cmd_op(1, &[b"HGETALL", k]));
        ops.push(cmd_op(1, &[b"EXISTS", k]));
    }
    ops.push(cmd_op(1, &[b"VERIF", b"INDEX", b"0"]));
    ops.push(cmd_op(1, &[b"DBSIZE"]));
}

pub fn gen(seed: u64, n: usize, _tier: &str) -> Vec<Case> {
    let mut r = Rng::new(seed);
    let mut cases = vec![];
    let mut id = 0;
    // (a) random histories with sweeps at known instants
    for _ in 0..n {
        let mut ops = vec![conn_op(1), cmd_op(1, &[b"VERIF", b"SWEEP", b"PAUSE"])];
        let mut sleeps = 0;
        for _ in 0..(6 + r.below(30)) {
            let k = *r.pick(KEYS); let k2 = *r.pick(KEYS);
            // the collection keys: mostly their own families, sometimes any command on any key
            let ck = if r.chance(1, 8) { *r.pick(KEYS) } else { *r.pick(CKEYS) };
            match r.below(20) {
                0 | 1 | 2 | 3 => push(&mut ops, 1, &ttl_setter(&mut r, k)),
                4 if sleeps < 4 => { ops.push(sleep_op(300)); sleeps += 1; }
                5 if sleeps < 5 => { ops.push(sweep_op()); sleeps += 1; }
                14 | 15 | 16 => push(&mut ops, 1, &collection_cmd(&mut r, ck)),
                17 | 18 => push(&mut ops, 1, &expire_cmd(&mut r, ck)),
                19 => { let any = if r.chance(1, 2) { ck } else { k }; let o = if r.chance(1, 2) { *r.pick(CKEYS) } else { k2 }; push(&mut ops, 1, &other(&mut r, any, o)) }
                _ => push(&mut ops, 1, &other(&mut r, k, k2)),
            }
        }
        if r.chance(1, 2) { ops.push(sweep_op()); }
        dump(&mut ops);
        cases.push(Case { id: format!("exp-{}", id), ops, outs: vec![] }); id += 1;
    }
    // (b) the window between the sweeper's scan and its deletions: every racing command
    let racers: Vec<Vec<Vec<u8>>> = {
        let v = |a: &[&[u8]]| -> Vec<Vec<u8>> { a.iter().map(|x| x.to_vec()).collect() };
        vec![v(&[b"SET", b"t", b"w"]), v(&[b"PERSIST", b"t"]), v(&[b"PEXPIRE", b"t", b"100000"]), v(&[b"EXPIRE", b"t", b"100"]),
             v(&[b"GETSET", b"t", b"w"]), v(&[b"MSET", b"t", b"w"]), v(&[b"DEL", b"t"]), v(&[b"RENAME", b"t", b"k2"]), v(&[b"GET", b"t"]),
             v(&[b"APPEND", b"t", b"x"]), v(&[b"SET", b"t", b"w", b"PX", b"400"]), v(&[b"RENAME", b"k2", b"t"]), v(&[b"EXISTS", b"t"])]
    };
    for rc in &racers {
        for pre in 0..2 {
            let mut ops = vec![conn_op(1), cmd_op(1, &[b"VERIF", b"SWEEP", b"PAUSE"]), cmd_op(1, &[b"SET", b"k2", b"other"])];
            ops.push(cmd_op(1, &[b"SET", b"t", b"v", b"PX", b"200"]));
            if pre == 1 { ops.push(cmd_op(1, &[b"SET", b"t", b"v2"])); }       // TTL already cleared before the deadline
            ops.push(sleep_op(300));
            ops.push(sweep_gate_op());
            push(&mut ops, 1, rc);
            ops.push(sweep_release_op());
            dump(&mut ops);
            ops.push(sweep_op());
            dump(&mut ops);
            cases.push(Case { id: format!("gate-{}", id), ops, outs: vec![] }); id += 1;
        }
    }
    // (c) the same window for list / set / hash keys with a deadline: in-place modifications keep the
    // deadline (the sweeper still removes the key), PERSIST / a longer deadline / re-creation save it
    let v = |a: &[&[u8]]| -> Vec<Vec<u8>> { a.iter().map(|x| x.to_vec()).collect() };
    let setups: Vec<(Vec<Vec<u8>>, Vec<Vec<Vec<Vec<u8>>>>)> = vec![
        (v(&[b"RPUSH", b"cl", b"a"]), vec![
            vec![v(&[b"LPUSH", b"cl", b"x"])], vec![v(&[b"LPOP", b"cl"])], vec![v(&[b"LPOP", b"cl"]), v(&[b"RPUSH", b"cl", b"n"])],
            vec![v(&[b"PERSIST", b"cl"])], vec![v(&[b"PEXPIRE", b"cl", b"100000"])], vec![v(&[b"LRANGE", b"cl", b"0", b"-1"])],
            vec![v(&[b"DEL", b"cl"]), v(&[b"RPUSH", b"cl", b"n"])], vec![v(&[b"LSET", b"cl", b"0", b"y"])], vec![v(&[b"RENAME", b"cl", b"k2"])]]),
        (v(&[b"SADD", b"cs", b"a"]), vec![
            vec![v(&[b"SADD", b"cs", b"x"])], vec![v(&[b"SREM", b"cs", b"a"])], vec![v(&[b"SREM", b"cs", b"a"]), v(&[b"SADD", b"cs", b"n"])],
            vec![v(&[b"PERSIST", b"cs"])], vec![v(&[b"SMEMBERS", b"cs"])], vec![v(&[b"SPOP", b"cs"])], vec![v(&[b"EXISTS", b"cs"])]]),
        (v(&[b"HSET", b"ch", b"f", b"1"]), vec![
            vec![v(&[b"HSET", b"ch", b"g", b"2"])], vec![v(&[b"HINCRBY", b"ch", b"f", b"1"])], vec![v(&[b"HDEL", b"ch", b"f"])],
            vec![v(&[b"HDEL", b"ch", b"f"]), v(&[b"HSET", b"ch", b"n", b"1"])], vec![v(&[b"PERSIST", b"ch"])], vec![v(&[b"HGETALL", b"ch"])],
            vec![v(&[b"GET", b"ch"])]]),
    ];
    for (setup, racers) in &setups {
        let key = setup[1].clone();
        for rc in racers {
            for pre in 0..2 {
                let mut ops = vec![conn_op(1), cmd_op(1, &[b"VERIF", b"SWEEP", b"PAUSE"]), cmd_op(1, &[b"SET", b"k2", b"other"])];
                push(&mut ops, 1, setup);
                ops.push(cmd_op(1, &[b"PEXPIRE", &key, b"200"]));
                if pre == 1 {
                    // the collection is drained (the key vanishes, its deadline-index entry stays behind) and
                    // created again without deadline: the sweeper meets a stale index entry for a live key
                    let drain: &[&[u8]] = match &key[..] { b"cl" => &[b"LPOP", b"cl"], b"cs" => &[b"SREM", b"cs", b"a"], _ => &[b"HDEL", b"ch", b"f"] };
                    ops.push(cmd_op(1, drain));
                    push(&mut ops, 1, setup);
                }
                ops.push(sleep_op(300));
                ops.push(sweep_gate_op());
                for c in rc { push(&mut ops, 1, c); }
                ops.push(sweep_release_op());
                dump(&mut ops);
                ops.push(sweep_op());
                dump(&mut ops);
                cases.push(Case { id: format!("cgate-{}", id), ops, outs: vec![] }); id += 1;
            }
        }
    }
    // (c) a stream key with a TTL: every stream command before and after the deadline (sweeper paused),
    // then a sweeper pass.  The engine's x* functions do not test expiry (class no-lazy-expiry);
    // the consumer-group commands go through storage.get and remove the expired key.
    let scmds: Vec<Vec<Vec<u8>>> = {
        let v = |a: &[&[u8]]| -> Vec<Vec<u8>> { a.iter().map(|x| x.to_vec()).collect() };
        vec![v(&[b"XADD", b"sx", b"6-0", b"f", b"w"]), v(&[b"XADD", b"sx", b"*", b"f", b"w"]), v(&[b"XADD", b"sx", b"1-0", b"f", b"w"]),
             v(&[b"XLEN", b"sx"]), v(&[b"XRANGE", b"sx", b"-", b"+"]), v(&[b"XREAD", b"STREAMS", b"sx", b"0"]),
             v(&[b"XTRIM", b"sx", b"MAXLEN", b"0"]), v(&[b"XDEL", b"sx", b"5-0"]),
             v(&[b"XGROUP", b"CREATE", b"sx", b"g2", b"0"]), v(&[b"XGROUP", b"CREATE", b"sx", b"g2", b"$", b"MKSTREAM"]),
             v(&[b"XREADGROUP", b"GROUP", b"g", b"c2", b"STREAMS", b"sx", b">"]), v(&[b"XACK", b"sx", b"g", b"5-0"]),
             v(&[b"XCLAIM", b"sx", b"g", b"c2", b"0", b"5-0"]), v(&[b"XPENDING", b"sx", b"g"]), v(&[b"XINFO", b"STREAM", b"sx"]),
             v(&[b"XINFO", b"GROUPS", b"sx"]), v(&[b"TYPE", b"sx"]), v(&[b"EXISTS", b"sx"]), v(&[b"PERSIST", b"sx"]), v(&[b"PEXPIRE", b"sx", b"100000"]),
             v(&[b"RENAME", b"sx", b"k2"]), v(&[b"DEL", b"sx"])]
    };
    let sdump = |ops: &mut Vec<Vec<Tok>>| {
        ops.push(cmd_op(1, &[b"VERIF", b"INDEX", b"0"]));
        for k in [&b"sx"[..], b"k2"] { ops.push(cmd_op(1, &[b"EXISTS", k])); ops.push(cmd_op(1, &[b"PTTL", k])); ops.push(cmd_op(1, &[b"TYPE", k])); }
        ops.push(cmd_op(1, &[b"XLEN", b"sx"])); ops.push(cmd_op(1, &[b"XRANGE", b"sx", b"-", b"+"]));
        ops.push(cmd_op(1, &[b"DBSIZE"]));
    };
    for sc in &scmds {
        for late in 0..2 {
            let mut ops = vec![conn_op(1), cmd_op(1, &[b"VERIF", b"SWEEP", b"PAUSE"])];
            ops.push(cmd_op(1, &[b"XADD", b"sx", b"5-0", b"f", b"v"]));
            ops.push(cmd_op(1, &[b"XGROUP", b"CREATE", b"sx", b"g", b"0"]));
            ops.push(cmd_op(1, &[b"XREADGROUP", b"GROUP", b"g", b"c1", b"STREAMS", b"sx", b">"]));
            ops.push(cmd_op(1, &[if late == 1 { &b"PEXPIRE"[..] } else { b"EXPIRE" }, b"sx", if late == 1 { &b"200"[..] } else { b"100" }]));
            ops.push(cmd_op(1, &[b"PTTL", b"sx"]));
            ops.push(sleep_op(300));
            push(&mut ops, 1, sc);                 // late = 1: the deadline has passed, the sweeper has not run
            ops.push(cmd_op(1, &[b"XADD", b"sx", b"7-0", b"f", b"x"]));
            sdump(&mut ops);
            ops.push(sweep_op());
            sdump(&mut ops);
            cases.push(Case { id: format!("stream-{}", id), ops, outs: vec![] }); id += 1;
        }
    }
    // (d) RENAME / RENAMENX of a key with a TTL onto its own name and back and forth between two names:
    // the deadline index must still hold the key afterwards, so that the key-space-wide commands
    // (which expire through the index only) and the sweeper drop it after the deadline
    let creators: Vec<Vec<Vec<u8>>> = vec![v(&[b"SET", b"t", b"v"]), v(&[b"RPUSH", b"cl", b"a"]), v(&[b"SADD", b"cs", b"a"]),
        v(&[b"HSET", b"ch", b"f", b"1"]), v(&[b"XADD", b"sx", b"5-0", b"f", b"v"])];
    for cr in &creators {
        let key = cr[1].clone();
        let moves: Vec<Vec<Vec<Vec<u8>>>> = vec![
            vec![vec![b"RENAME".to_vec(), key.clone(), key.clone()]],
            vec![vec![b"RENAMENX".to_vec(), key.clone(), key.clone()]],
            vec![vec![b"RENAME".to_vec(), key.clone(), b"k2".to_vec()], vec![b"RENAME".to_vec(), b"k2".to_vec(), key.clone()]],
            vec![vec![b"RENAME".to_vec(), key.clone(), key.clone()], vec![b"RENAME".to_vec(), key.clone(), b"k2".to_vec()]],
            vec![vec![b"RENAMENX".to_vec(), key.clone(), b"k2".to_vec()], vec![b"RENAME".to_vec(), b"k2".to_vec(), b"k2".to_vec()]],
        ];
        for mv in &moves {
            let mut ops = vec![conn_op(1), cmd_op(1, &[b"VERIF", b"SWEEP", b"PAUSE"])];
            push(&mut ops, 1, cr);
            ops.push(cmd_op(1, &[b"PEXPIRE", &key, b"200"]));
            for m in mv { push(&mut ops, 1, m); }
            ops.push(cmd_op(1, &[b"VERIF", b"INDEX", b"0"]));
            ops.push(cmd_op(1, &[b"DBSIZE"]));
            ops.push(sleep_op(300));
            // no command names the key: only the index can tell that it is due
            ops.push(cmd_op(1, &[b"DBSIZE"])); ops.push(cmd_op(1, &[b"KEYS", b"*"])); ops.push(cmd_op(1, &[b"RANDOMKEY"]));
            ops.push(cmd_op(1, &[b"VERIF", b"INDEX", b"0"]));
            ops.push(sweep_op());
            ops.push(cmd_op(1, &[b"DBSIZE"])); ops.push(cmd_op(1, &[b"KEYS", b"*"]));
            ops.push(cmd_op(1, &[b"TYPE", &key])); ops.push(cmd_op(1, &[b"TYPE", b"k2"]));
            cases.push(Case { id: format!("selfren-{}", id), ops, outs: vec![] }); id += 1;
        }
    }
    cases
}
/// As srv::run_case, but a history whose real time ran more than 80 ms ahead of the logical clock is
/// discarded whether or not it contains a SLEEP: every history here sets deadlines of 200 ms .. 1 s, so
/// a starved machine can let one pass in real time while the model clock stands still.
pub fn run(c: &Case) -> Case {
    let mut r = Runner::new(&SrvOpts::default());
    let mut out = Case { id: c.id.clone(), ops: vec![], outs: vec![] };
    for op in &c.ops { let (o2, res) = r.op(op); out.ops.push(o2); out.outs.push(res); }
    let drift = r.drift_bad;
    let alive = r.finish();
    if !alive { out.ops.push(vec![b("ALIVE")]); out.outs.push(vec![i(0)]); }
    if drift { out.id = format!("{}-DISCARD", out.id); }
    out
}

/// property oracle: a TTL read in the same logical instant as the command that set it reports the set value
/// (PTTL within 100 ms below it, TTL rounded up to seconds); a key given no TTL reports -1
pub fn judge(c: &Case, outs: &[Vec<Tok>]) -> Vec<String> {
    let mut fails = vec![];
    let arg = |op: &Vec<Tok>, k: usize| -> Option<Vec<u8>> { // k-th bulk of a CMD request
        if op.len() < 5 { return None; } let n = tok_int(&op[4]) as usize; if k >= n { return None; }
        match op.get(6 + 2 * k) { Some(Tok::B(b)) => Some(b.clone()), _ => None }
    };
    for ix in 1..c.ops.len() {
        let (p, q) = (&c.ops[ix - 1], &c.ops[ix]);
        if tok_bytes(&p[0]) != b"CMD" || tok_bytes(&q[0]) != b"CMD" || p[2] != q[2] { continue; }
        let (pn, qn) = (arg(p, 0).unwrap_or_default().to_ascii_uppercase(), arg(q, 0).unwrap_or_default().to_ascii_uppercase());
        if arg(p, 1) != arg(q, 1) || arg(p, 1).is_none() { continue; }
        let ms: Option<i128> = match &pn[..] {
            b"PSETEX" => arg(p, 2).and_then(|a| String::from_utf8_lossy(&a).parse().ok()),
            b"SETEX" => arg(p, 2).and_then(|a| String::from_utf8_lossy(&a).parse::<i128>().ok()).map(|s| s * 1000),
            _ => None };
        if let (Some(ms), true) = (ms, outs[ix - 1] == vec![i(0), b("OK")]) {
            // note: the harness canonicalises positive TTL/PTTL to 1, so only the sign is visible here
            if (qn == b"PTTL" || qn == b"TTL") && ms > 0 && outs[ix] != vec![i(2), i(1)] {
                fails.push(format!("FAIL case={} op={} a key just given a TTL of {} ms does not report a positive remaining time", c.id, ix, ms));
            }
        }
    }
    fails
}
